/-! C10 — the teardown of a peer or of a remote entity over IDENTITY KEYS.

    `Spine.Td` / `Spine.Reg` identify a peer by one number. The code does not: a registry entry's client feature
    carries the CONNECTION it came in on (`DeviceRemote.Ski()`), the DEVICE ADDRESS that connection announced and an
    ENTITY address, and every clean-up function compares its own choice of these (`RemoveSubscriptionsForEntity`: device
    address and entity; `RemoveBindingsForEntity`: connection and entity; `CleanRemoteDeviceCaches`: device address;
    the map of connected devices: connection). This model keeps the three components apart and is PARAMETRIC in which of
    them each clean-up compares (`Facts`, one `Cmp` per function). The values of `Facts` for the tree under test are
    regenerated on every run by the translator (generator `cleanup`, which calls the real functions) —
    `Spine/Props/C10Gen.lean` instantiates the theorems below with them.

    Also in the model (they were monitored only before): the removal EVENTS (one per removed registry entry, one per
    device / entity) and the two RESOLUTION functions `RemoteDeviceForSki` / `RemoteDeviceForAddress`. -/
namespace Spine.TdK

/-- which identity components a clean-up function compares with its target -/
structure Cmp where
  ski : Bool
  dev : Bool
  ent : Bool
deriving DecidableEq, Repr

/-- the client side of a registry entry, and the target of a clean-up, as the code sees them -/
structure Ref where
  ski : Nat          -- connection: DeviceRemote.Ski() of the client feature's device
  dev : Nat          -- device address that connection announced (device part of the feature address)
  ent : List Nat     -- entity address
deriving DecidableEq, Repr

/-- the retain / remove decision of a clean-up loop: every compared component agrees -/
def Cmp.hit (c : Cmp) (x t : Ref) : Bool :=
  (!c.ski || x.ski == t.ski) && (!c.dev || x.dev == t.dev) && (!c.ent || x.ent == t.ent)

/-- the comparison names the peer (connection or device address) and the entity -/
def Cmp.identifies (c : Cmp) : Bool := (c.ski || c.dev) && c.ent

structure Entry where
  id : Nat
  sEnt : List Nat
  sFeat : Nat
  cl : Ref
  cFeat : Nat
deriving DecidableEq, Repr

/-- a remote feature address remembered by a local client feature (`FeatureLocal.subscriptions / bindings`): no connection -/
structure Book where
  dev : Nat
  ent : List Nat
  feat : Nat
deriving DecidableEq, Repr

def Book.hit (c : Cmp) (b : Book) (dev : Nat) (ent : List Nat) : Bool :=
  (!c.dev || b.dev == dev) && (!c.ent || b.ent == ent)

/-- one value of `DeviceLocal.remoteDevices`: key (SKI), announced device address, known entities -/
structure Conn where
  ski : Nat
  dev : Nat
  ents : List (List Nat)
deriving DecidableEq, Repr

/-- what each clean-up function compares (regenerated: `Generated.Cleanup`) -/
structure Facts where
  subs : Cmp        -- SubscriptionManager.RemoveSubscriptionsForEntity
  binds : Cmp       -- BindingManager.RemoveBindingsForEntity
  cacheDev : Cmp    -- FeatureLocal.CleanRemoteDeviceCaches
  cacheEnt : Cmp    -- FeatureLocal.CleanRemoteEntityCaches
deriving DecidableEq, Repr

/-- the comparisons of the repaired tree (HEAD) -/
def Facts.head : Facts :=
  { subs := ⟨false, true, true⟩, binds := ⟨true, false, true⟩, cacheDev := ⟨false, true, false⟩, cacheEnt := ⟨false, true, true⟩ }

/-- the comparisons of the pinned commit: `RemoveBindingsForEntity` compared the entity address only -/
def Facts.pinned : Facts := { Facts.head with binds := ⟨false, false, true⟩ }

/-- every registry clean-up names peer and entity; the bookkeeping clean-ups compare the device address (and the entity) -/
def Facts.ok (F : Facts) : Bool :=
  F.subs.identifies && F.binds.identifies && (F.cacheDev.dev && !F.cacheDev.ent) && (F.cacheEnt.dev && F.cacheEnt.ent)

structure St where
  conns : List Conn
  subs : List Entry := []
  binds : List Entry := []
  csubs : List Book := []
  cbinds : List Book := []
deriving Repr

inductive Ev
  | subRemoved (e : Entry)
  | bindRemoved (e : Entry)
  | deviceRemoved (ski : Nat)
  | entityRemoved (ski : Nat) (ent : List Nat)
deriving DecidableEq, Repr

/-- RemoteDeviceForSki -/
def forSki (s : St) (k : Nat) : Option Conn := s.conns.find? (·.ski == k)
/-- RemoteDeviceForAddress -/
def forAddress (s : St) (d : Nat) : Option Conn := s.conns.find? (·.dev == d)

/-- the entities of a connected device as clean-up targets -/
def refs (c : Conn) : List Ref := c.ents.map fun e => ⟨c.ski, c.dev, e⟩

/-- one pass (`Remove…ForEntity`): what stays, what goes (one removal event each) -/
def pass (c : Cmp) (es : List Entry) (t : Ref) : List Entry := es.filter fun e => !c.hit e.cl t
def gone (c : Cmp) (es : List Entry) (t : Ref) : List Entry := es.filter fun e => c.hit e.cl t

/-- `Remove…ForDevice`: one pass per entity of the device -/
def passes (c : Cmp) : List Entry → List Ref → List Entry
  | es, [] => es
  | es, t :: ts => passes c (pass c es t) ts

/-- the entries the passes remove, in the order the events are published -/
def goneAll (c : Cmp) : List Entry → List Ref → List Entry
  | _, [] => []
  | es, t :: ts => gone c es t ++ goneAll c (pass c es t) ts

/-- RemoveRemoteDeviceConnection(ski): state afterwards and the events published -/
def drop (F : Facts) (s : St) (k : Nat) : St × List Ev :=
  match forSki s k with
  | none => (s, [.deviceRemoved k])
  | some c =>
    ({ s with conns := s.conns.filter (·.ski != k),
              subs := passes F.subs s.subs (refs c),
              binds := passes F.binds s.binds (refs c),
              csubs := s.csubs.filter (fun b => !b.hit F.cacheDev c.dev []),
              cbinds := s.cbinds.filter (fun b => !b.hit F.cacheDev c.dev []) },
     (goneAll F.subs s.subs (refs c)).map .subRemoved ++ (goneAll F.binds s.binds (refs c)).map .bindRemoved ++ [.deviceRemoved k])

def dropConnEnt (k : Nat) (ent : List Nat) (c : Conn) : Conn :=
  if c.ski == k then { c with ents := c.ents.filter (· != ent) } else c

/-- one removal entry of a discovery notification of connection `k` about entity `ent` -/
def dropEntity (F : Facts) (s : St) (k : Nat) (ent : List Nat) : St × List Ev :=
  match forSki s k with
  | none => (s, [])
  | some c =>
    if ent == [0] || !c.ents.contains ent then (s, []) else
    let t : Ref := ⟨k, c.dev, ent⟩
    ({ s with conns := s.conns.map (dropConnEnt k ent),
              subs := pass F.subs s.subs t,
              binds := pass F.binds s.binds t,
              csubs := s.csubs.filter (fun b => !b.hit F.cacheEnt c.dev ent),
              cbinds := s.cbinds.filter (fun b => !b.hit F.cacheEnt c.dev ent) },
     [.entityRemoved k ent] ++ (gone F.subs s.subs t).map .subRemoved ++ (gone F.binds s.binds t).map .bindRemoved)

/-- a granted subscription / binding request of connection `k` (the harness issues requests that are granted) -/
def addEntry (s : St) (bind : Bool) (id k : Nat) (ent : List Nat) (cFeat : Nat) (sEnt : List Nat) (sFeat : Nat) : St :=
  match forSki s k with
  | none => s
  | some c =>
    if !c.ents.contains ent then s else
    let e : Entry := ⟨id, sEnt, sFeat, ⟨k, c.dev, ent⟩, cFeat⟩
    if bind then { s with binds := s.binds ++ [e] } else { s with subs := s.subs ++ [e] }

/-- the local client feature subscribes / binds to a remote feature address -/
def addBook (s : St) (bind : Bool) (b : Book) : St :=
  match forAddress s b.dev with
  | none => s
  | some _ => if bind then { s with cbinds := s.cbinds ++ [b] } else { s with csubs := s.csubs ++ [b] }

/-- a new connection that has announced its address and entities -/
def connect (s : St) (c : Conn) : St :=
  if (forSki s c.ski).isSome then s else { s with conns := s.conns ++ [c] }

inductive Op
  | connect (c : Conn)
  | entry (bind : Bool) (id k : Nat) (ent : List Nat) (cFeat : Nat) (sEnt : List Nat) (sFeat : Nat)
  | book (bind : Bool) (b : Book)
  | drop (k : Nat)
  | dropEnt (k : Nat) (ent : List Nat)
deriving Repr

def step (F : Facts) (s : St) : Op → St
  | .connect c => connect s c
  | .entry b id k e cf se sf => addEntry s b id k e cf se sf
  | .book b x => addBook s b x
  | .drop k => (drop F s k).1
  | .dropEnt k e => (dropEntity F s k e).1

def run (F : Facts) (s : St) (ops : List Op) : St := ops.foldl (step F) s

/-! ## what the passes do, for ANY comparison -/

theorem passes_eq_filter (c : Cmp) (ts : List Ref) : ∀ es : List Entry,
    passes c es ts = es.filter (fun e => !(ts.any (c.hit e.cl))) := by
  induction ts with
  | nil => intro es; simp only [passes, List.any_nil, Bool.not_false]; exact (List.filter_eq_self.2 (by simp)).symm
  | cons t ts ih =>
    intro es
    simp only [passes, ih, pass, List.filter_filter, List.any_cons, Bool.not_or]
    congr 1; funext e; exact Bool.and_comm _ _

theorem filter_or_perm {α : Type} (p q : α → Bool) : ∀ l : List α,
    (l.filter p ++ (l.filter (fun a => !p a)).filter q).Perm (l.filter (fun a => p a || q a)) := by
  intro l
  induction l with
  | nil => exact List.Perm.refl _
  | cons a l ih =>
    by_cases hp : p a = true
    · have e1 : (a :: l).filter p = a :: l.filter p := by simp [List.filter_cons, hp]
      have e2 : (a :: l).filter (fun a => !p a) = l.filter (fun a => !p a) := by simp [List.filter_cons, hp]
      have e3 : (a :: l).filter (fun a => p a || q a) = a :: l.filter (fun a => p a || q a) := by simp [List.filter_cons, hp]
      rw [e1, e2, e3]
      exact List.Perm.cons a ih
    · have hp' : p a = false := by simpa using hp
      have e1 : (a :: l).filter p = l.filter p := by simp [List.filter_cons, hp']
      have e2 : (a :: l).filter (fun a => !p a) = a :: l.filter (fun a => !p a) := by simp [List.filter_cons, hp']
      by_cases hq : q a = true
      · have e3 : (a :: l).filter (fun a => p a || q a) = a :: l.filter (fun a => p a || q a) := by simp [List.filter_cons, hq]
        have e4 : (a :: l.filter (fun a => !p a)).filter q = a :: (l.filter (fun a => !p a)).filter q := by
          rw [List.filter_cons]; simp [hq]
        rw [e1, e2, e3, e4]
        exact List.perm_middle.trans (List.Perm.cons a ih)
      · have hq' : q a = false := by simpa using hq
        have e3 : (a :: l).filter (fun a => p a || q a) = l.filter (fun a => p a || q a) := by simp [List.filter_cons, hp', hq']
        have e4 : (a :: l.filter (fun a => !p a)).filter q = (l.filter (fun a => !p a)).filter q := by
          rw [List.filter_cons]; simp [hq']
        rw [e1, e2, e3, e4]
        exact ih

/-- the events of a device teardown are, as a multiset, the entries that some pass hits: one event per removed entry -/
theorem goneAll_perm (c : Cmp) (ts : List Ref) : ∀ es : List Entry,
    (goneAll c es ts).Perm (es.filter (fun e => ts.any (c.hit e.cl))) := by
  induction ts with
  | nil => intro es; simp [goneAll]
  | cons t ts ih =>
    intro es
    simp only [goneAll, gone, pass, List.any_cons]
    exact (List.Perm.append_left _ (ih _)).trans (filter_or_perm (fun e => c.hit e.cl t) (fun e => ts.any (c.hit e.cl)) es)

/-! ## the frame: under which conditions "hit by some pass" means "belongs to the removed connection" -/

/-- every entry of the list refers to a connected device consistently: its connection and its device address name the
    same connected device, and its entity is one that device has (what `AddSubscription` / `AddBinding` establish: the
    client feature is looked up in the device the request came in on; distinct connections announce distinct addresses) -/
structure Coherent (conns : List Conn) (es : List Entry) : Prop where
  ident : ∀ e ∈ es, ∀ c ∈ conns, (e.cl.ski = c.ski ↔ e.cl.dev = c.dev)
  known : ∀ e ∈ es, ∀ c ∈ conns, e.cl.ski = c.ski → e.cl.ent ∈ c.ents

theorem any_hit_iff (cmp : Cmp) (h : cmp.identifies = true) (conns : List Conn) (es : List Entry) (hc : Coherent conns es)
    (c : Conn) (hmem : c ∈ conns) (e : Entry) (he : e ∈ es) :
    (refs c).any (cmp.hit e.cl) = (e.cl.ski == c.ski) := by
  have hid := hc.ident e he c hmem
  have hkn := hc.known e he c hmem
  simp only [Cmp.identifies, Bool.and_eq_true, Bool.or_eq_true] at h
  obtain ⟨hpeer, hent⟩ := h
  by_cases hs : e.cl.ski = c.ski
  · have hd := hid.mp hs
    have hk := hkn hs
    have : (refs c).any (cmp.hit e.cl) = true := by
      rw [List.any_eq_true]
      refine ⟨⟨c.ski, c.dev, e.cl.ent⟩, ?_, ?_⟩
      · simp only [refs, List.mem_map]; exact ⟨e.cl.ent, hk, rfl⟩
      · simp [Cmp.hit, hs, hd]
    rw [this]; simp [hs]
  · have hd : e.cl.dev ≠ c.dev := fun hd => hs (hid.mpr hd)
    have : (refs c).any (cmp.hit e.cl) = false := by
      rw [List.any_eq_false]
      intro t ht
      simp only [refs, List.mem_map] at ht
      obtain ⟨x, _, rfl⟩ := ht
      rcases hpeer with hp | hp
      · simp [Cmp.hit, hp, hs]
      · simp [Cmp.hit, hp, hd]
    rw [this]; simp [hs]

theorem forSki_some {s : St} {k : Nat} {c : Conn} (h : forSki s k = some c) : c ∈ s.conns ∧ c.ski = k := by
  unfold forSki at h
  exact ⟨List.mem_of_find?_eq_some h, by simpa using List.find?_some h⟩

theorem filter_congr_mem {α : Type} {p q : α → Bool} : ∀ {l : List α}, (∀ a ∈ l, p a = q a) → l.filter p = l.filter q := by
  intro l h
  induction l with
  | nil => rfl
  | cons a l ih =>
    have ha := h a (by simp)
    have ih' := ih (fun b hb => h b (by simp [hb]))
    simp [List.filter_cons, ha, ih']

/-- Device teardown, registries: with comparisons that name peer and entity, in a coherent world, the passes leave exactly
    the entries of the other connections. -/
theorem passes_exact (cmp : Cmp) (h : cmp.identifies = true) (conns : List Conn) (es : List Entry) (hc : Coherent conns es)
    (c : Conn) (hmem : c ∈ conns) :
    passes cmp es (refs c) = es.filter (fun e => e.cl.ski != c.ski) := by
  rw [passes_eq_filter]
  apply filter_congr_mem
  intro e he
  rw [any_hit_iff cmp h conns es hc c hmem e he]
  simp [bne]

/-- … and the removal events are, as a multiset, exactly the entries of the removed connection: one each, none else. -/
theorem goneAll_exact (cmp : Cmp) (h : cmp.identifies = true) (conns : List Conn) (es : List Entry) (hc : Coherent conns es)
    (c : Conn) (hmem : c ∈ conns) :
    (goneAll cmp es (refs c)).Perm (es.filter (fun e => e.cl.ski == c.ski)) := by
  refine (goneAll_perm cmp (refs c) es).trans ?_
  rw [filter_congr_mem (q := fun e => e.cl.ski == c.ski)]
  intro e he
  exact any_hit_iff cmp h conns es hc c hmem e he

/-- one pass for entity `ent` of connection `c`: exactly the entries of (that connection, that entity) go -/
theorem pass_exact (cmp : Cmp) (h : cmp.identifies = true) (conns : List Conn) (es : List Entry) (hc : Coherent conns es)
    (c : Conn) (hmem : c ∈ conns) (ent : List Nat) :
    pass cmp es ⟨c.ski, c.dev, ent⟩ = es.filter (fun e => !(e.cl.ski == c.ski && e.cl.ent == ent)) ∧
    gone cmp es ⟨c.ski, c.dev, ent⟩ = es.filter (fun e => e.cl.ski == c.ski && e.cl.ent == ent) := by
  have key : ∀ e ∈ es, cmp.hit e.cl ⟨c.ski, c.dev, ent⟩ = (e.cl.ski == c.ski && e.cl.ent == ent) := by
    intro e he
    have hid := hc.ident e he c hmem
    simp only [Cmp.identifies, Bool.and_eq_true, Bool.or_eq_true] at h
    obtain ⟨hpeer, hent⟩ := h
    by_cases hs : e.cl.ski = c.ski
    · have hd := hid.mp hs
      simp [Cmp.hit, hs, hd, hent]
    · have hd : e.cl.dev ≠ c.dev := fun hd => hs (hid.mpr hd)
      have hsb : (e.cl.ski == c.ski) = false := by simpa using hs
      have hdb : (e.cl.dev == c.dev) = false := by simpa using hd
      rcases hpeer with hp | hp
      · simp [Cmp.hit, hp, hsb]
      · simp [Cmp.hit, hp, hdb, hsb]
  constructor
  · unfold pass; apply filter_congr_mem; intro e he; rw [key e he]
  · unfold gone; apply filter_congr_mem; intro e he; rw [key e he]

/-! ## resolution -/

theorem forSki_drop_self (F : Facts) (s : St) (k : Nat) : forSki (drop F s k).1 k = none := by
  unfold drop
  cases hk : forSki s k with
  | none => simpa using hk
  | some c =>
    simp only [forSki, List.find?_eq_none, List.mem_filter]
    intro x hx; simpa using hx.2

theorem find?_filter_of_imp {α : Type} (p q : α → Bool) :
    ∀ l : List α, (∀ a ∈ l, q a = true → p a = true) → (l.filter p).find? q = l.find? q := by
  intro l
  induction l with
  | nil => intro _; rfl
  | cons a l ih =>
    intro h
    have ih' := ih (fun b hb => h b (by simp [hb]))
    by_cases hq : q a = true
    · simp [List.filter_cons, h a (by simp) hq, List.find?_cons, hq]
    · have hq' : q a = false := by simpa using hq
      by_cases hp : p a = true
      · simp [List.filter_cons, hp, List.find?_cons, hq', ih']
      · have hp' : p a = false := by simpa using hp
        simp [List.filter_cons, hp', List.find?_cons, hq', ih']

/-- every other connection resolves by its SKI exactly as before -/
theorem forSki_drop_other (F : Facts) (s : St) (k q : Nat) (hq : q ≠ k) : forSki (drop F s k).1 q = forSki s q := by
  unfold drop
  cases hk : forSki s k with
  | none => rfl
  | some c =>
    simp only [forSki]
    apply find?_filter_of_imp
    intro a _ ha
    have : a.ski = q := by simpa using ha
    simp [this, hq]

/-- `remoteDevices` is a map: one value per SKI -/
def IsMap (conns : List Conn) : Prop := ∀ a ∈ conns, ∀ b ∈ conns, a.ski = b.ski → a = b

/-- distinct connections announce distinct device addresses (assumption of C10, see `shared_address_leaks`) -/
def DevInj (conns : List Conn) : Prop := ∀ a ∈ conns, ∀ b ∈ conns, a.dev = b.dev → a.ski = b.ski

/-- the removed device no longer resolves by its address … -/
theorem forAddress_drop_self (F : Facts) (s : St) (k : Nat) (c : Conn) (hk : forSki s k = some c) (hinj : DevInj s.conns) :
    forAddress (drop F s k).1 c.dev = none := by
  obtain ⟨hmem, hski⟩ := forSki_some hk
  unfold drop
  simp only [hk, forAddress, List.find?_eq_none, List.mem_filter]
  intro x hx
  have hne : x.ski ≠ k := by simpa using hx.2
  intro hd
  have : x.dev = c.dev := by simpa using hd
  exact hne ((hinj x hx.1 c hmem this).trans hski)

/-- … and every other address resolves exactly as before -/
theorem forAddress_drop_other (F : Facts) (s : St) (k : Nat) (c : Conn) (hk : forSki s k = some c) (hmap : IsMap s.conns)
    (d : Nat) (hd : d ≠ c.dev) : forAddress (drop F s k).1 d = forAddress s d := by
  obtain ⟨hmem, hski⟩ := forSki_some hk
  unfold drop
  simp only [hk, forAddress]
  apply find?_filter_of_imp
  intro a ha hq
  have hda : a.dev = d := by simpa using hq
  have : a.ski ≠ k := by
    intro hak
    have : a = c := hmap a ha c hmem (hak.trans hski.symm)
    exact hd (by rw [← hda, this])
  simpa using this

/-! ## the invariant of the world, and the composite statements -/

/-- what the stack establishes: `remoteDevices` is a map, distinct connections announce distinct device addresses
    (assumption), every registry entry was granted to a connected device for one of its entities -/
structure Inv (s : St) : Prop where
  isMap : IsMap s.conns
  devInj : DevInj s.conns
  subsRef : ∀ e ∈ s.subs, ∃ c ∈ s.conns, c.ski = e.cl.ski ∧ c.dev = e.cl.dev ∧ e.cl.ent ∈ c.ents
  bindsRef : ∀ e ∈ s.binds, ∃ c ∈ s.conns, c.ski = e.cl.ski ∧ c.dev = e.cl.dev ∧ e.cl.ent ∈ c.ents

theorem coherent_of_refs (conns : List Conn) (hm : IsMap conns) (hd : DevInj conns) (es : List Entry)
    (href : ∀ e ∈ es, ∃ c ∈ conns, c.ski = e.cl.ski ∧ c.dev = e.cl.dev ∧ e.cl.ent ∈ c.ents) : Coherent conns es := by
  constructor
  · intro e he c hc
    obtain ⟨c', hc', hs, hdv, _⟩ := href e he
    constructor
    · intro h
      have : c' = c := hm c' hc' c hc (hs.trans h)
      rw [← hdv, this]
    · intro h
      have := hd c' hc' c hc (hdv.trans h)
      rw [← hs, this]
  · intro e he c hc h
    obtain ⟨c', hc', hs, _, hk⟩ := href e he
    have : c' = c := hm c' hc' c hc (hs.trans h)
    rw [← this]; exact hk

theorem Inv.subsCoherent {s : St} (h : Inv s) : Coherent s.conns s.subs := coherent_of_refs _ h.isMap h.devInj _ h.subsRef
theorem Inv.bindsCoherent {s : St} (h : Inv s) : Coherent s.conns s.binds := coherent_of_refs _ h.isMap h.devInj _ h.bindsRef

theorem book_filter_dev (c : Cmp) (hd : c.dev = true) (he : c.ent = false) (bs : List Book) (dev : Nat) :
    bs.filter (fun b => !b.hit c dev []) = bs.filter (fun b => b.dev != dev) := by
  apply filter_congr_mem; intro b _; simp [Book.hit, hd, he, bne]

theorem book_filter_ent (c : Cmp) (hd : c.dev = true) (he : c.ent = true) (bs : List Book) (dev : Nat) (ent : List Nat) :
    bs.filter (fun b => !b.hit c dev ent) = bs.filter (fun b => !(b.dev == dev && b.ent == ent)) := by
  apply filter_congr_mem; intro b _; simp [Book.hit, hd, he]

/-- RemoveRemoteDeviceConnection, all components: ALL AND ONLY what refers to the removed device disappears. -/
theorem drop_exact (F : Facts) (hF : F.ok = true) (s : St) (hs : Inv s) (k : Nat) (c : Conn) (hk : forSki s k = some c) :
    (drop F s k).1.subs = s.subs.filter (fun e => e.cl.ski != k) ∧
    (drop F s k).1.binds = s.binds.filter (fun e => e.cl.ski != k) ∧
    (drop F s k).1.csubs = s.csubs.filter (fun b => b.dev != c.dev) ∧
    (drop F s k).1.cbinds = s.cbinds.filter (fun b => b.dev != c.dev) ∧
    (drop F s k).1.conns = s.conns.filter (fun x => x.ski != k) := by
  obtain ⟨hmem, hski⟩ := forSki_some hk
  simp only [Facts.ok, Bool.and_eq_true, Bool.not_eq_true'] at hF
  obtain ⟨⟨⟨h1, h2⟩, h3, h3'⟩, _⟩ := hF
  unfold drop
  simp only [hk]
  refine ⟨?_, ?_, ?_, ?_, trivial⟩
  · rw [passes_exact F.subs h1 s.conns s.subs hs.subsCoherent c hmem, hski]
  · rw [passes_exact F.binds h2 s.conns s.binds hs.bindsCoherent c hmem, hski]
  · exact book_filter_dev F.cacheDev h3 h3' _ _
  · exact book_filter_dev F.cacheDev h3 h3' _ _

/-- the events of RemoveRemoteDeviceConnection -/
def dropEvents (s : St) (k : Nat) : List Ev :=
  (s.subs.filter (fun e => e.cl.ski == k)).map .subRemoved ++ (s.binds.filter (fun e => e.cl.ski == k)).map .bindRemoved ++ [.deviceRemoved k]

/-- … a removal event for each registry entry of that device — one each, for no other entry — and one for the device. -/
theorem drop_events (F : Facts) (hF : F.ok = true) (s : St) (hs : Inv s) (k : Nat) (c : Conn) (hk : forSki s k = some c) :
    (drop F s k).2.Perm (dropEvents s k) := by
  obtain ⟨hmem, hski⟩ := forSki_some hk
  simp only [Facts.ok, Bool.and_eq_true] at hF
  obtain ⟨⟨⟨h1, h2⟩, _⟩, _⟩ := hF
  unfold drop dropEvents
  simp only [hk]
  have e1 := goneAll_exact F.subs h1 s.conns s.subs hs.subsCoherent c hmem
  have e2 := goneAll_exact F.binds h2 s.conns s.binds hs.bindsCoherent c hmem
  rw [hski] at e1 e2
  exact List.Perm.append (List.Perm.append (e1.map _) (e2.map _)) (List.Perm.refl _)

/-- the removal of an entity of a connected device, all components -/
theorem dropEntity_exact (F : Facts) (hF : F.ok = true) (s : St) (hs : Inv s) (k : Nat) (c : Conn) (hk : forSki s k = some c)
    (ent : List Nat) (h0 : ent ≠ [0]) (hent : c.ents.contains ent = true) :
    (dropEntity F s k ent).1.subs = s.subs.filter (fun e => !(e.cl.ski == k && e.cl.ent == ent)) ∧
    (dropEntity F s k ent).1.binds = s.binds.filter (fun e => !(e.cl.ski == k && e.cl.ent == ent)) ∧
    (dropEntity F s k ent).1.csubs = s.csubs.filter (fun b => !(b.dev == c.dev && b.ent == ent)) ∧
    (dropEntity F s k ent).1.cbinds = s.cbinds.filter (fun b => !(b.dev == c.dev && b.ent == ent)) ∧
    (dropEntity F s k ent).2 = [Ev.entityRemoved k ent] ++ (s.subs.filter (fun e => e.cl.ski == k && e.cl.ent == ent)).map .subRemoved ++
      (s.binds.filter (fun e => e.cl.ski == k && e.cl.ent == ent)).map .bindRemoved := by
  obtain ⟨hmem, hski⟩ := forSki_some hk
  simp only [Facts.ok, Bool.and_eq_true] at hF
  obtain ⟨⟨⟨h1, h2⟩, _⟩, h4, h4'⟩ := hF
  have h0' : (ent == [0]) = false := by simpa using h0
  have p1 := pass_exact F.subs h1 s.conns s.subs hs.subsCoherent c hmem ent
  have p2 := pass_exact F.binds h2 s.conns s.binds hs.bindsCoherent c hmem ent
  rw [hski] at p1 p2
  unfold dropEntity
  simp only [hk, h0', hent, Bool.not_true, Bool.or_self, Bool.false_eq_true, if_false]
  refine ⟨p1.1, p2.1, book_filter_ent F.cacheEnt h4 h4' _ _ _, book_filter_ent F.cacheEnt h4 h4' _ _ _, ?_⟩
  rw [p1.2, p2.2]

/-- [0] is kept, an unknown entity or connection changes nothing and publishes nothing -/
theorem dropEntity_zero (F : Facts) (s : St) (k : Nat) : dropEntity F s k [0] = (s, []) := by
  unfold dropEntity; cases forSki s k <;> simp

/-! ## the invariant holds along every history -/

/-- the assumption on histories: a connection announces a device address no connected device has -/
def okOp (s : St) : Op → Bool
  | .connect c => (forAddress s c.dev).isNone
  | _ => true

def okRun (F : Facts) : St → List Op → Bool
  | _, [] => true
  | s, op :: ops => okOp s op && okRun F (step F s op) ops

theorem dropConnEnt_ski (k : Nat) (ent : List Nat) (c : Conn) : (dropConnEnt k ent c).ski = c.ski := by
  unfold dropConnEnt; split <;> rfl
theorem dropConnEnt_dev (k : Nat) (ent : List Nat) (c : Conn) : (dropConnEnt k ent c).dev = c.dev := by
  unfold dropConnEnt; split <;> rfl

theorem inv_connect (s : St) (h : Inv s) (c : Conn) (hok : (forAddress s c.dev).isNone = true) : Inv (connect s c) := by
  unfold connect
  by_cases hk : (forSki s c.ski).isSome = true
  · simp [hk]; exact h
  · simp only [hk, Bool.false_eq_true, if_false]
    have hk' : ∀ x ∈ s.conns, x.ski ≠ c.ski := by
      have : forSki s c.ski = none := by simpa using hk
      unfold forSki at this
      intro x hx; simpa using (List.find?_eq_none.1 this) x hx
    have hd' : ∀ x ∈ s.conns, x.dev ≠ c.dev := by
      have : forAddress s c.dev = none := by simpa using hok
      unfold forAddress at this
      intro x hx; simpa using (List.find?_eq_none.1 this) x hx
    refine ⟨?_, ?_, ?_, ?_⟩
    · intro a ha b hb hab
      simp only [List.mem_append, List.mem_singleton] at ha hb
      rcases ha with ha | rfl <;> rcases hb with hb | rfl
      · exact h.isMap a ha b hb hab
      · exact absurd hab (hk' a ha)
      · exact absurd hab.symm (hk' b hb)
      · rfl
    · intro a ha b hb hab
      simp only [List.mem_append, List.mem_singleton] at ha hb
      rcases ha with ha | rfl <;> rcases hb with hb | rfl
      · exact h.devInj a ha b hb hab
      · exact absurd hab (hd' a ha)
      · exact absurd hab.symm (hd' b hb)
      · rfl
    · intro e he
      obtain ⟨c', hc', r⟩ := h.subsRef e he
      exact ⟨c', by simp [hc'], r⟩
    · intro e he
      obtain ⟨c', hc', r⟩ := h.bindsRef e he
      exact ⟨c', by simp [hc'], r⟩

theorem inv_addEntry (s : St) (h : Inv s) (bind : Bool) (id k : Nat) (ent : List Nat) (cf : Nat) (se : List Nat) (sf : Nat) :
    Inv (addEntry s bind id k ent cf se sf) := by
  unfold addEntry
  cases hk : forSki s k with
  | none => exact h
  | some c =>
    obtain ⟨hmem, hski⟩ := forSki_some hk
    by_cases hent : c.ents.contains ent = true
    · have hin : ent ∈ c.ents := by simpa using hent
      simp only [hent, Bool.not_true, Bool.false_eq_true, if_false]
      cases bind
      · simp only [Bool.false_eq_true, if_false]
        refine ⟨h.isMap, h.devInj, ?_, h.bindsRef⟩
        intro e he
        simp only [List.mem_append, List.mem_singleton] at he
        rcases he with he | rfl
        · exact h.subsRef e he
        · exact ⟨c, hmem, hski, rfl, hin⟩
      · simp only [if_true]
        refine ⟨h.isMap, h.devInj, h.subsRef, ?_⟩
        intro e he
        simp only [List.mem_append, List.mem_singleton] at he
        rcases he with he | rfl
        · exact h.bindsRef e he
        · exact ⟨c, hmem, hski, rfl, hin⟩
    · have : c.ents.contains ent = false := by simpa using hent
      simp only [this, Bool.not_false, if_true]; exact h

theorem inv_addBook (s : St) (h : Inv s) (bind : Bool) (b : Book) : Inv (addBook s bind b) := by
  unfold addBook
  cases forAddress s b.dev with
  | none => exact h
  | some _ => cases bind <;> exact ⟨h.isMap, h.devInj, h.subsRef, h.bindsRef⟩

theorem inv_drop (F : Facts) (hF : F.ok = true) (s : St) (h : Inv s) (k : Nat) : Inv (drop F s k).1 := by
  cases hk : forSki s k with
  | none => unfold drop; simp only [hk]; exact h
  | some c =>
    have ex := drop_exact F hF s h k c hk
    have keep : ∀ es : List Entry, (∀ e ∈ es, ∃ c ∈ s.conns, c.ski = e.cl.ski ∧ c.dev = e.cl.dev ∧ e.cl.ent ∈ c.ents) →
        ∀ e ∈ es.filter (fun e => e.cl.ski != k), ∃ c ∈ s.conns.filter (fun x => x.ski != k), c.ski = e.cl.ski ∧ c.dev = e.cl.dev ∧ e.cl.ent ∈ c.ents := by
      intro es href e he
      rw [List.mem_filter] at he
      obtain ⟨c', hc', hs, r⟩ := href e he.1
      refine ⟨c', ?_, hs, r⟩
      rw [List.mem_filter]; exact ⟨hc', by rw [hs]; exact he.2⟩
    refine ⟨?_, ?_, ?_, ?_⟩
    · rw [ex.2.2.2.2]; intro a ha b hb; exact h.isMap a (List.mem_filter.1 ha).1 b (List.mem_filter.1 hb).1
    · rw [ex.2.2.2.2]; intro a ha b hb; exact h.devInj a (List.mem_filter.1 ha).1 b (List.mem_filter.1 hb).1
    · rw [ex.1, ex.2.2.2.2]; exact keep _ h.subsRef
    · rw [ex.2.1, ex.2.2.2.2]; exact keep _ h.bindsRef

theorem inv_dropEntity (F : Facts) (hF : F.ok = true) (s : St) (h : Inv s) (k : Nat) (ent : List Nat) : Inv (dropEntity F s k ent).1 := by
  cases hk : forSki s k with
  | none => unfold dropEntity; simp only [hk]; exact h
  | some c =>
    by_cases hcond : (ent == [0] || !c.ents.contains ent) = true
    · unfold dropEntity; simp only [hk, hcond, if_true]; exact h
    · have hcond' : (ent == [0] || !c.ents.contains ent) = false := by simpa using hcond
      simp only [Bool.or_eq_false_iff, Bool.not_eq_false'] at hcond'
      have h0 : ent ≠ [0] := by simpa using hcond'.1
      have ex := dropEntity_exact F hF s h k c hk ent h0 hcond'.2
      have hconns : (dropEntity F s k ent).1.conns = s.conns.map (dropConnEnt k ent) := by
        unfold dropEntity
        simp only [hk, hcond'.1, hcond'.2, Bool.not_true, Bool.or_self, Bool.false_eq_true, if_false]
      have keep : ∀ es : List Entry, (∀ e ∈ es, ∃ c ∈ s.conns, c.ski = e.cl.ski ∧ c.dev = e.cl.dev ∧ e.cl.ent ∈ c.ents) →
          ∀ e ∈ es.filter (fun e => !(e.cl.ski == k && e.cl.ent == ent)),
            ∃ c ∈ s.conns.map (dropConnEnt k ent), c.ski = e.cl.ski ∧ c.dev = e.cl.dev ∧ e.cl.ent ∈ c.ents := by
        intro es href e he
        rw [List.mem_filter] at he
        obtain ⟨c', hc', hs, hd, hin⟩ := href e he.1
        refine ⟨dropConnEnt k ent c', List.mem_map.2 ⟨c', hc', rfl⟩, by rw [dropConnEnt_ski]; exact hs, by rw [dropConnEnt_dev]; exact hd, ?_⟩
        unfold dropConnEnt
        by_cases hck : (c'.ski == k) = true
        · simp only [hck, if_true, List.mem_filter]
          refine ⟨hin, ?_⟩
          have hek : (e.cl.ski == k) = true := by rw [← hs]; exact hck
          have := he.2
          simp only [hek, Bool.true_and, Bool.not_eq_true', beq_eq_false_iff_ne] at this
          simpa using this
        · simp only [hck, Bool.false_eq_true, if_false]; exact hin
      refine ⟨?_, ?_, ?_, ?_⟩
      · rw [hconns]; intro a ha b hb hab
        obtain ⟨a', ha', rfl⟩ := List.mem_map.1 ha
        obtain ⟨b', hb', rfl⟩ := List.mem_map.1 hb
        rw [dropConnEnt_ski, dropConnEnt_ski] at hab
        rw [h.isMap a' ha' b' hb' hab]
      · rw [hconns]; intro a ha b hb hab
        obtain ⟨a', ha', rfl⟩ := List.mem_map.1 ha
        obtain ⟨b', hb', rfl⟩ := List.mem_map.1 hb
        rw [dropConnEnt_dev, dropConnEnt_dev] at hab
        rw [dropConnEnt_ski, dropConnEnt_ski]
        exact h.devInj a' ha' b' hb' hab
      · rw [ex.1, hconns]; exact keep _ h.subsRef
      · rw [ex.2.1, hconns]; exact keep _ h.bindsRef

theorem inv_step (F : Facts) (hF : F.ok = true) (s : St) (h : Inv s) (op : Op) (hok : okOp s op = true) : Inv (step F s op) := by
  cases op with
  | connect c => exact inv_connect s h c hok
  | entry b id k e cf se sf => exact inv_addEntry s h b id k e cf se sf
  | book b x => exact inv_addBook s h b x
  | drop k => exact inv_drop F hF s h k
  | dropEnt k e => exact inv_dropEntity F hF s h k e

/-- along every history of connections (each announcing a fresh device address), granted requests, client requests,
    teardowns and entity removals the invariant holds -/
theorem inv_run (F : Facts) (hF : F.ok = true) : ∀ (ops : List Op) (s : St), Inv s → okRun F s ops = true → Inv (run F s ops) := by
  intro ops
  induction ops with
  | nil => intro s h _; exact h
  | cons op ops ih =>
    intro s h hok
    simp only [okRun, Bool.and_eq_true] at hok
    exact ih (step F s op) (inv_step F hF s h op hok.1) hok.2

theorem inv_empty : Inv { conns := [] } := by
  refine ⟨?_, ?_, ?_, ?_⟩ <;> intro a ha <;> simp at ha

end Spine.TdK
