import Spine.DiscoveryGuard
import Spine.DiscoveryPartialEvents
/-! C06, member of the repaired tree: full notifications, histories, events and the cascade. -/
namespace Spine.Disc

/-! ### the wire-level diff is the diff -/

theorem fullDiffG_ents (m : MsgG) (t : Tree) : (fullDiffG m t).ents.map EW.toEI = (fullDiff m.toMsg t).ents := by
  simp only [fullDiffG, fullDiff, MsgG.toMsg, List.map_append, List.map_map, List.filter_map]
  rfl

theorem fullDiffG_feats (m : MsgG) (t : Tree) : (fullDiffG m t).feats = (fullDiff m.toMsg t).feats := by
  simp only [fullDiffG, fullDiff, MsgG.toMsg, List.map_map, List.filter_map]
  rfl

theorem treeStepG_clean (k : Kind) (m : MsgG) (t : Tree) :
    treeStepG Cfg.clean k m t =
      match k with
      | .reply => replyG Cfg.clean m t
      | .part => ((notifyG Cfg.clean m t).1, (notifyG Cfg.clean m t).2.1)
      | .full => ((notifyFullG Cfg.clean m t).1, (notifyFullG Cfg.clean m t).2.1) := rfl

/-! ### full notification -/

/-- the tree holds no entity with an empty address (none can be created: such an entry is rejected) -/
def NoEmpty (t : Tree) : Prop := [] ∉ addrs t

instance (t : Tree) : Decidable (NoEmpty t) := by unfold NoEmpty; infer_instance

/-- a full notification whose listed entries all carry an address and an entity type -/
def MsgG.WFfull (m : MsgG) : Prop := ∀ e ∈ m.ents, e.addr ≠ [] ∧ e.typ.isSome = true

theorem fullDiffG_wf (m : MsgG) (t : Tree) (hw : m.WFfull) (hn : NoEmpty t) :
    ∀ e ∈ (fullDiffG m t).ents, e.WF ∧ e.chg ≠ .none := by
  intro e he
  simp only [fullDiffG, List.mem_append, List.mem_map, List.mem_filter] at he
  rcases he with ⟨e0, ⟨he0, _⟩, rfl⟩ | ⟨x, ⟨hx, _⟩, rfl⟩
  · exact ⟨⟨(hw e0 he0).1, fun _ => (hw e0 he0).2⟩, by simp⟩
  · refine ⟨⟨?_, fun _ => rfl⟩, by simp⟩
    intro h
    exact hn (List.mem_map.mpr ⟨x, hx, h⟩)

theorem notifyFullG_tree (m : MsgG) (t : Tree) (hw : m.WFfull) (hn : NoEmpty t) :
    (notifyFullG Cfg.clean m t).1
      = ((fullDiff m.toMsg t).ents.foldl (stepGd Cfg.clean (fullDiff m.toMsg t).feats) (t, [])).1 ∧
    (notifyFullG Cfg.clean m t).2.1
      = ((fullDiff m.toMsg t).ents.foldl (stepGd Cfg.clean (fullDiff m.toMsg t).feats) (t, [])).2 := by
  unfold notifyFullG notifyG
  rw [← fullDiffG_ents, ← fullDiffG_feats]
  split
  · rename_i he
    have : (fullDiffG m t).ents = [] := by simpa using he
    rw [this]
    exact ⟨rfl, rfl⟩
  · rw [runG_entry_wf Cfg.clean _ _ (t, []) (fullDiffG_wf m t hw hn)]
    exact ⟨rfl, rfl⟩

theorem specEntityG_off_devInfo (feats : List F) (a : List Nat) (ha : a ≠ [0]) (cur : Option E) (ei : EI) :
    specEntityG feats a cur ei = specEntity ⟨[], feats⟩ a cur ei := by
  simp [specEntityG, guardB, ha]

theorem specEntity_feats (m m' : Msg) (hf : m.feats = m'.feats) (a : List Nat) (cur : Option E) (ei : EI) :
    specEntity m a cur ei = specEntity m' a cur ei := by
  simp [specEntity, hf]

theorem fold_specEntityG_off (feats : List F) (m' : Msg) (hf : m'.feats = feats) (a : List Nat) (ha : a ≠ [0]) :
    ∀ (l : List EI) (cur : Option E), l.foldl (specEntityG feats a) cur = l.foldl (specEntity m' a) cur
  | [], _ => rfl
  | ei :: l, cur => by
    rw [List.foldl_cons, List.foldl_cons, specEntityG_off_devInfo feats a ha,
      specEntity_feats ⟨[], feats⟩ m' (by rw [hf]) a cur ei]
    exact fold_specEntityG_off feats m' hf a ha l _

/-- the old chain of theorems, read as a statement about the specification fold over the diff -/
theorem specFull_of_diff (M : Msg) (t : Tree) (a : List Nat) :
    (fullDiff M t).ents.foldl (specEntity (fullDiff M t) a) (findE t a) = specFull M a (findE t a) := by
  rw [← c06_full_tree, notifyFullFixed_tree, c06_tree_refines]

/-- full notification of the repaired tree, every address but [0]: entities not listed are absent, listed-and-known
    ones are as they were, listed-and-unknown ones exist with exactly the listed features -/
theorem guard_full_tree (m : MsgG) (t : Tree) (a : List Nat) (ha : a ≠ [0]) (hw : m.WFfull) (hn : NoEmpty t) :
    findE (notifyFullG Cfg.clean m t).1 a = specFull m.toMsg a (findE t a) := by
  rw [(notifyFullG_tree m t hw hn).1, guard_refines,
    fold_specEntityG_off _ (fullDiff m.toMsg t) rfl a ha]
  exact specFull_of_diff m.toMsg t a

theorem fold_specEntityG_devInfo (feats : List F) : ∀ (l : List EI) (cur : Option E),
    (∀ ei ∈ l, ei.addr = [0] → ei.chg = .removed) → l.foldl (specEntityG feats [0]) cur = cur
  | [], _, _ => rfl
  | ei :: l, cur, h => by
    rw [List.foldl_cons]
    have : specEntityG feats [0] cur ei = cur := by
      by_cases h0 : ei.addr = [0]
      · simp [specEntityG, guardB, h0, h ei (List.mem_cons_self ..) h0]
      · simp [specEntityG, guardB, h0, specEntity]
    rw [this]
    exact fold_specEntityG_devInfo feats l cur (fun x hx => h x (List.mem_cons_of_mem _ hx))

/-- full notification of the repaired tree at [0]: whether the notification lists the device-information entity or
    omits it, alone or together with others, a known [0] stays exactly as it was -/
theorem guard_full_devInfo (m : MsgG) (t : Tree) (h0 : [0] ∈ addrs t) (hw : m.WFfull) (hn : NoEmpty t) :
    findE (notifyFullG Cfg.clean m t).1 [0] = findE t [0] := by
  rw [(notifyFullG_tree m t hw hn).1, guard_refines]
  apply fold_specEntityG_devInfo
  intro ei hei hadr
  simp only [fullDiff, List.mem_append, List.mem_map, List.mem_filter] at hei
  rcases hei with ⟨e0, ⟨_, hunk⟩, rfl⟩ | ⟨x, _, rfl⟩
  · -- an added entry is about an unknown address, [0] is known
    simp only at hadr
    rw [hadr] at hunk
    have : (findE t [0]).isSome = true := (findE_isSome_iff t [0]).mpr h0
    cases hf : findE t [0] with
    | none => rw [hf] at this; exact absurd this (by decide)
    | some _ => rw [hf] at hunk; simp at hunk
  · rfl

/-! ### histories -/

def AnnG.WF (x : AnnG) : Prop :=
  match x.kind with
  | .reply => x.msg.WFreply
  | .part => x.msg.WFpart
  | .full => x.msg.WFfull

/-- SPEC of one announcement of the repaired tree, one address at a time (for a tree that knows [0]) -/
def specAnnG (a : List Nat) (cur : Option E) (x : AnnG) : Option E :=
  match x.kind with
  | .reply => (x.msg.ents.map EW.toEI).foldl (fun c ei => specEntityG x.msg.feats a c { ei with chg := .added }) cur
  | .part => (x.msg.ents.map EW.toEI).foldl (specEntityG x.msg.feats a) cur
  | .full => if a = [0] then cur else specFull x.msg.toMsg a cur

theorem storedNM_known {t : Tree} (h : DevInfoOK t) : [0] ∈ addrs t := by
  unfold DevInfoOK storedNM at h
  cases hf : findE t [0] with
  | none => rw [hf] at h; exact absurd h (by decide)
  | some e => exact (findE_isSome_iff t [0]).mp (by rw [hf]; rfl)

theorem guard_step (x : AnnG) (hw : x.WF) (t : Tree) (hn : NoEmpty t) (hd : DevInfoOK t) (a : List Nat) :
    findE (treeStepG Cfg.clean x.kind x.msg t).1 a = specAnnG a (findE t a) x := by
  rw [treeStepG_clean]
  unfold specAnnG
  unfold AnnG.WF at hw
  cases hk : x.kind with
  | reply => rw [hk] at hw; exact guard_tree_reply x.msg t a hw
  | part => rw [hk] at hw; exact guard_tree_notification x.msg t a hw
  | full =>
    rw [hk] at hw
    have hw : x.msg.WFfull := hw
    simp only
    by_cases ha : a = [0]
    · subst ha
      simp only [if_true]
      exact guard_full_devInfo x.msg t (storedNM_known hd) hw hn
    · simp only [ha, if_false]
      exact guard_full_tree x.msg t a ha hw hn

theorem mem_addrs_stepGd (c : Cfg) (feats : List F) (acc : Tree × List Evt) (ei : EI) (a : List Nat)
    (h : a ∈ addrs (stepGd c feats acc ei).1) : a ∈ addrs acc.1 ∨ a = ei.addr := by
  unfold stepGd at h
  cases hc : ei.chg with
  | none => rw [hc] at h; exact Or.inl h
  | added =>
    rw [hc] at h
    simp only [addOneG] at h
    split at h
    · exact Or.inl h
    · exact (mem_addOne _ acc ei a).mp h
  | removed =>
    rw [hc] at h
    simp only [remOneG] at h
    split at h
    · exact Or.inl h
    · exact Or.inl ((mem_remOne acc ei a).mp h).1

theorem noEmpty_fold (c : Cfg) (feats : List F) : ∀ (l : List EI) (acc : Tree × List Evt),
    NoEmpty acc.1 → (∀ ei ∈ l, ei.addr ≠ []) → NoEmpty (l.foldl (stepGd c feats) acc).1
  | [], _, h, _ => h
  | ei :: l, acc, h, hl => by
    rw [List.foldl_cons]
    apply noEmpty_fold c feats l _ _ (fun x hx => hl x (List.mem_cons_of_mem _ hx))
    intro hin
    rcases mem_addrs_stepGd c feats acc ei [] hin with h1 | h1
    · exact h h1
    · exact hl ei (List.mem_cons_self ..) h1.symm

theorem noEmpty_step (x : AnnG) (hw : x.WF) (t : Tree) (hn : NoEmpty t) :
    NoEmpty (treeStepG Cfg.clean x.kind x.msg t).1 := by
  rw [treeStepG_clean]
  unfold AnnG.WF at hw
  cases hk : x.kind with
  | reply =>
    rw [hk] at hw
    have hw : x.msg.WFreply := hw
    simp only [replyG]
    rw [runG_reply_wf _ x.msg.feats x.msg.ents (t, []) hw]
    have : ∀ (l : List EI) (acc : Tree × List Evt),
        l.foldl (addOneG Cfg.clean x.msg.feats) acc
          = (l.map fun ei => ({ ei with chg := .added } : EI)).foldl (stepGd Cfg.clean x.msg.feats) acc := by
      intro l
      induction l with
      | nil => intro acc; rfl
      | cons ei l ih => intro acc; rw [List.foldl_cons, List.map_cons, List.foldl_cons, ih, addOneG_eq_stepGd]
    rw [this]
    apply noEmpty_fold _ _ _ _ hn
    intro ei hei
    simp only [List.mem_map] at hei
    obtain ⟨e1, ⟨e0, he0, rfl⟩, rfl⟩ := hei
    exact (hw e0 he0).1
  | part =>
    rw [hk] at hw
    have hw : x.msg.WFpart := hw
    simp only [notifyG]
    have : x.msg.ents.isEmpty = false := by
      cases h : x.msg.ents with | nil => exact absurd h hw.1 | cons _ _ => rfl
    rw [this]
    simp only [Bool.false_eq_true, if_false]
    rw [runG_entry_wf _ x.msg.feats x.msg.ents (t, []) hw.2]
    apply noEmpty_fold _ _ _ _ hn
    intro ei hei
    obtain ⟨e0, he0, rfl⟩ := List.mem_map.mp hei
    exact (hw.2 e0 he0).1.1
  | full =>
    rw [hk] at hw
    have hw : x.msg.WFfull := hw
    simp only
    rw [(notifyFullG_tree x.msg t hw hn).1, ← fullDiffG_ents]
    apply noEmpty_fold _ _ _ _ hn
    intro ei hei
    obtain ⟨e0, he0, rfl⟩ := List.mem_map.mp hei
    exact (fullDiffG_wf x.msg t hw hn e0 he0).1.1

/-- C06 over histories for the repaired tree: after any sequence of well-formed replies, partial and full
    notifications — including ones that list [0] as removed at any position, omit it, or re-announce it without
    feature 0 — the entity at every address is the one the specification obtains by applying the announcements in order -/
theorem guard_history : ∀ (h : List AnnG) (t : Tree) (a : List Nat), NoEmpty t → DevInfoOK t → (∀ x ∈ h, x.WF) →
    findE (treeRunG Cfg.clean t h) a = h.foldl (specAnnG a) (findE t a)
  | [], _, _, _, _, _ => rfl
  | x :: h, t, a, hn, hd, hw => by
    unfold treeRunG
    rw [List.foldl_cons, List.foldl_cons]
    have hx := hw x (List.mem_cons_self ..)
    have := guard_history h (treeStepG Cfg.clean x.kind x.msg t).1 a (noEmpty_step x hx t hn)
      (devInfo_step x.kind x.msg t hd) (fun y hy => hw y (List.mem_cons_of_mem _ hy))
    unfold treeRunG at this
    rw [this, guard_step x hx t hn hd a]

/-! ### events -/

/-- the entry as the per-entry handler without guards would have to see it to behave like the guarded one -/
def mask (c : Cfg) (feats : List F) (t : Tree) (ei : EI) : EI :=
  match ei.chg with
  | .added => if refreshSkipped c feats t ei then { ei with chg := .none } else ei
  | .removed => if removalSkipped c ei then { ei with chg := .none } else ei
  | .none => ei

theorem stepGd_eq_masked (c : Cfg) (feats : List F) (acc : Tree × List Evt) (ei : EI) :
    stepGd c feats acc ei = stepFixed ⟨[], feats⟩ acc (mask c feats acc.1 ei) := by
  unfold stepGd mask stepFixed
  cases hc : ei.chg with
  | none => simp [hc]
  | added =>
    simp only [addOneG]
    split <;> simp [hc]
  | removed =>
    simp only [remOneG]
    split <;> simp [hc]

theorem mask_addr (c : Cfg) (feats : List F) (t : Tree) (ei : EI) : (mask c feats t ei).addr = ei.addr := by
  unfold mask
  cases ei.chg <;> simp <;> split <;> rfl

theorem applyTo_mask (c : Cfg) (feats : List F) (t : Tree) (ei : EI) (a : List Nat) (b : Bool)
    (h : ei.addr = [0] → a ≠ [0]) : applyTo a b (mask c feats t ei) = applyTo a b ei := by
  by_cases hea : ei.addr = a
  · -- the entry is about `a`, hence not about [0]: not masked
    have h0 : ¬ ei.addr = [0] := fun h' => h h' (hea ▸ h')
    have : mask c feats t ei = ei := by
      unfold mask
      cases hc : ei.chg <;> simp [refreshSkipped, removalSkipped, h0]
    rw [this]
  · simp [applyTo, mask_addr, hea]

/-- events of the repaired tree, every address but [0]: one entity-added event each time an entry makes the address
    known, one entity-removed event each time an entry makes it unknown, no other -/
theorem guard_events_refine (feats : List F) (a : List Nat) (ha : a ≠ [0]) : ∀ (l : List EI) (acc : Tree × List Evt),
    (l.foldl (stepGd Cfg.clean feats) acc).2.count (.add a)
        = acc.2.count (.add a) + (appearances a (decide (a ∈ addrs acc.1)) l).1 ∧
    (l.foldl (stepGd Cfg.clean feats) acc).2.count (.rem a)
        = acc.2.count (.rem a) + (appearances a (decide (a ∈ addrs acc.1)) l).2
  | [], _ => by simp [appearances]
  | ei :: l, acc => by
    have ih := guard_events_refine feats a ha l (stepGd Cfg.clean feats acc ei)
    rw [List.foldl_cons, ih.1, ih.2, stepGd_eq_masked, count_add_step, count_rem_step, decide_mem_step,
      applyTo_mask Cfg.clean feats acc.1 ei a _ (fun _ => ha)]
    simp only [appearances]
    omega

/-- … and at [0]: while the device-information entity is there with feature 0, no entity event is published for it -/
theorem guard_events_devInfo (feats : List F) : ∀ (l : List EI) (acc : Tree × List Evt), storedNM acc.1 = true →
    (l.foldl (stepGd Cfg.clean feats) acc).2.count (.add [0]) = acc.2.count (.add [0]) ∧
    (l.foldl (stepGd Cfg.clean feats) acc).2.count (.rem [0]) = acc.2.count (.rem [0])
  | [], _, _ => ⟨rfl, rfl⟩
  | ei :: l, acc, h => by
    have hk : [0] ∈ addrs acc.1 := storedNM_known h
    have hstep : storedNM (stepGd Cfg.clean feats acc ei).1 = true := by
      unfold stepGd
      cases ei.chg with
      | none => exact h
      | added => exact storedNM_addOneG feats acc ei h
      | removed => exact storedNM_remOneG acc ei h
    have ih := guard_events_devInfo feats l (stepGd Cfg.clean feats acc ei) hstep
    rw [List.foldl_cons, ih.1, ih.2]
    unfold stepGd
    cases hc : ei.chg with
    | none => exact ⟨rfl, rfl⟩
    | added =>
      simp only [addOneG]
      split
      · exact ⟨rfl, rfl⟩
      · rw [count_add_addOne, count_rem_addOne]
        simp [hk]
    | removed =>
      simp only [remOneG]
      split
      · exact ⟨rfl, rfl⟩
      · rename_i hs
        have h0 : ¬ ei.addr = [0] := by simpa [removalSkipped, Cfg.clean] using hs
        have h0' : ¬ ([0] : List Nat) = ei.addr := fun h' => h0 h'.symm
        rw [count_rem_remOne, count_add_remOne]
        simp [h0']

/-! ### the cascade of the guarded step -/

theorem stepG_subs (c : Cfg) (w : World) (p : Nat) (k : Kind) (m : MsgG) :
    (w.stepG c p k m).1.subs = w.subs.filter fun e => !(e.peer = p && (removed (w.stepG c p k m).2).contains e.cEnt) := by
  simp only [World.stepG]
  rw [cascade_subs]
  rfl

theorem stepG_binds (c : Cfg) (w : World) (p : Nat) (k : Kind) (m : MsgG) :
    (w.stepG c p k m).1.binds
      = w.binds.filter fun e => !((c.bindEntityOnly || e.peer = p) && (removed (w.stepG c p k m).2).contains e.cEnt) := by
  simp only [World.stepG]
  rw [cascade_binds]
  rfl

theorem stepG_csubs (c : Cfg) (w : World) (p : Nat) (k : Kind) (m : MsgG) :
    (w.stepG c p k m).1.csubs = w.csubs.filter fun e => !(e.peer = p && (removed (w.stepG c p k m).2).contains e.rEnt) := by
  simp only [World.stepG]
  rw [cascade_csubs]
  rfl

theorem stepG_cbinds (c : Cfg) (w : World) (p : Nat) (k : Kind) (m : MsgG) :
    (w.stepG c p k m).1.cbinds = w.cbinds.filter fun e => !(e.peer = p && (removed (w.stepG c p k m).2).contains e.rEnt) := by
  simp only [World.stepG]
  rw [cascade_cbinds]
  rfl

theorem stepG_other_trees (c : Cfg) (w : World) (p q : Nat) (hq : q ≠ p) (k : Kind) (m : MsgG) :
    (w.stepG c p k m).1.trees q = w.trees q := by
  simp only [World.stepG]
  rw [cascade_trees]
  simp [setTree, hq]

end Spine.Disc
