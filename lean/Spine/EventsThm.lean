import Spine.Events
namespace Spine.Bus

def owed (s : St) (p : Nat) (h : H) : Nat :=
  match findPub s p with
  | some q => if h ∈ q.snap then 1 else 0
  | none => 0

def waiting (s : St) (p : Nat) (h : H) : Nat :=
  match findPub s p with
  | some q => if q.phase = 0 ∧ h ∈ q.snap then 1 else 0
  | none => 0

structure Inv (s : St) : Prop where
  hnd : s.handlers.Nodup
  snd : ∀ q ∈ s.pubs, q.snap.Nodup
  cnt : ∀ p h, s.delivered.count (p, h) + s.pending.count (p, h) + waiting s p h = owed s p h

theorem count_pairs (p p' : Nat) (h : H) (l : List H) (hl : l.Nodup) :
    (l.map (fun x => (p, x))).count (p', h) = if p' = p ∧ h ∈ l then 1 else 0 := by
  induction l with
  | nil => simp
  | cons x xs ih =>
    have hx := (List.nodup_cons.mp hl)
    simp only [List.map_cons, List.count_cons, ih hx.2, List.mem_cons]
    by_cases hp : p' = p
    · subst hp
      by_cases hxh : x = h
      · subst hxh
        have : ¬ x ∈ xs := hx.1
        simp [this]
      · have h1 : ¬ h = x := fun h' => hxh h'.symm
        have h2 : ((p', x) == (p', h)) = false := by simp [hxh]
        simp [h1, h2]
    · have h2 : ((p, x) == (p', h)) = false := by
        simp only [beq_eq_false_iff_ne, ne_eq, Prod.mk.injEq, not_and]
        intro h'; exact absurd h'.symm hp
      simp [hp, h2]

theorem findPub_setPhase (s : St) (p p' ph : Nat) :
    (setPhase s p ph).find? (·.id = p') =
      (s.pubs.find? (·.id = p')).map fun q => if q.id = p then { q with phase := ph } else q := by
  simp only [setPhase]
  rw [List.find?_map]
  have hcomp : ((fun x : Pub => decide (x.id = p')) ∘ fun q : Pub => if q.id = p then { q with phase := ph } else q)
      = fun x : Pub => decide (x.id = p') := by
    funext q
    simp only [Function.comp]
    split <;> rfl
  rw [hcomp]

theorem findPub_append_new (s : St) (q : Pub) (p' : Nat) (hnew : findPub s q.id = none) :
    (s.pubs ++ [q]).find? (·.id = p') = if p' = q.id then some q else s.pubs.find? (·.id = p') := by
  rw [List.find?_append]
  by_cases hp : p' = q.id
  · subst hp
    have : s.pubs.find? (·.id = q.id) = none := hnew
    simp [this]
  · have hq : ¬ q.id = p' := fun h => hp h.symm
    cases hf : s.pubs.find? (·.id = p') with
    | none => simp [hp, hq]
    | some x => simp [hp]

theorem step_inv (s : St) (ev : Ev) (hi : Inv s) : Inv (step s ev) := by
  cases ev with
  | subscribe h =>
    simp only [step]
    split
    · exact hi
    · rename_i hc
      refine ⟨?_, hi.snd, hi.cnt⟩
      rw [List.nodup_append]
      refine ⟨hi.hnd, by simp, ?_⟩
      intro a ha b hb
      simp only [List.mem_singleton] at hb; subst hb
      intro hab; subst hab
      exact hc (by simpa using ha)
  | unsubscribe h =>
    exact ⟨List.filter_sublist.nodup hi.hnd, hi.snd, hi.cnt⟩
  | snapshot p =>
    simp only [step]
    split
    · exact hi
    · rename_i hnone
      have hnew : findPub s p = none := by
        cases hf : findPub s p with
        | none => rfl
        | some x => rw [hf] at hnone; simp at hnone
      refine ⟨hi.hnd, ?_, ?_⟩
      · intro q hq
        rcases List.mem_append.mp hq with hq | hq
        · exact hi.snd q hq
        · simp only [List.mem_singleton] at hq; subst hq; exact hi.hnd
      · intro p' h
        have hold := hi.cnt p' h
        have hfind := findPub_append_new s ⟨p, s.handlers, 0⟩ p' hnew
        simp only [waiting, owed, findPub] at hold ⊢
        rw [hfind]
        by_cases hp : p' = p
        · subst hp
          have hf : s.pubs.find? (·.id = p') = none := hnew
          rw [hf] at hold
          simp only [Nat.add_zero] at hold
          simp only [if_true]
          by_cases hm : h ∈ s.handlers <;> simp [hm] <;> omega
        · simp only [hp, if_false]; exact hold
  | handle p =>
    simp only [step]
    cases hf : findPub s p with
    | none => exact hi
    | some q =>
      simp only
      split
      · rename_i hph
        have hqmem : q ∈ s.pubs := List.mem_of_find?_eq_some hf
        have hqid : q.id = p := by simpa using List.find?_some hf
        have hsn := hi.snd q hqmem
        refine ⟨hi.hnd, ?_, ?_⟩
        · intro q' hq'
          simp only [setPhase, List.mem_map] at hq'
          obtain ⟨q0, hq0, rfl⟩ := hq'
          split <;> exact hi.snd q0 hq0
        · intro p' h
          have hold := hi.cnt p' h
          simp only [waiting, owed, findPub, findPub_setPhase] at hold ⊢
          simp only [List.count_append,
            count_pairs p p' h _ (List.filter_sublist.nodup hsn)]
          by_cases hp : p' = p
          · subst hp
            have hf' : s.pubs.find? (·.id = p') = some q := hf
            rw [hf'] at hold ⊢
            simp only [Option.map_some, hqid, if_true, hph, true_and] at hold ⊢
            simp only [List.mem_filter, true_and]
            by_cases hm : h ∈ q.snap
            · by_cases hl : h.1 = 0
              · simp [hm, hl] at hold ⊢; omega
              · simp [hm, hl] at hold ⊢; omega
            · simp [hm] at hold ⊢; omega
          · have : (s.pubs.find? (·.id = p')).map (fun q => if q.id = p then { q with phase := 1 } else q)
                = s.pubs.find? (·.id = p') := by
              cases hf2 : s.pubs.find? (·.id = p') with
              | none => rfl
              | some q2 =>
                have : q2.id = p' := by simpa using List.find?_some hf2
                have hne : ¬ q2.id = p := by rw [this]; exact hp
                simp [hne]
            rw [this]
            simp only [hp, false_and, if_false, Nat.add_zero]
            exact hold
      · exact hi
  | ret p =>
    simp only [step]
    cases hf : findPub s p with
    | none => exact hi
    | some q =>
      simp only
      split
      · rename_i hph
        have hqid : q.id = p := by simpa using List.find?_some hf
        refine ⟨hi.hnd, ?_, ?_⟩
        · intro q' hq'
          simp only [setPhase, List.mem_map] at hq'
          obtain ⟨q0, hq0, rfl⟩ := hq'
          split <;> exact hi.snd q0 hq0
        · intro p' h
          have hold := hi.cnt p' h
          simp only [waiting, owed, findPub, findPub_setPhase] at hold ⊢
          cases hf2 : s.pubs.find? (·.id = p') with
          | none => rw [hf2] at hold; simpa using hold
          | some q2 =>
            rw [hf2] at hold
            have hq2 : q2.id = p' := by simpa using List.find?_some hf2
            by_cases hp : q2.id = p
            · have : q2 = q := by
                have h1 : s.pubs.find? (·.id = p) = some q := hf
                have hpp : p' = p := by rw [← hq2]; exact hp
                rw [hpp] at hf2; rw [hf2] at h1; injection h1
              subst this
              simp only [Option.map_some, hp, if_true] at hold ⊢
              have h1 : ¬ q2.phase = 0 := by omega
              simp only [h1, false_and, if_false] at hold
              simp only [show ¬ (2 = 0) by omega, false_and, if_false]
              exact hold
            · simp only [Option.map_some, hp, if_false] at hold ⊢
              exact hold
      · exact hi
  | appRun p h =>
    simp only [step]
    split
    · rename_i hc
      have hm : (p, h) ∈ s.pending := by simpa using hc
      refine ⟨hi.hnd, hi.snd, ?_⟩
      intro p' h'
      have hold := hi.cnt p' h'
      simp only [waiting, owed, findPub] at hold ⊢
      simp only [List.count_append, List.count_cons, List.count_nil, List.count_erase]
      by_cases he : (p, h) = (p', h')
      · have hpos : 0 < s.pending.count (p', h') := by rw [← he]; exact List.count_pos_iff.mpr hm
        simp [he] at hold ⊢; omega
      · have h2 : ((p, h) == (p', h')) = false := by simpa using he
        simp [h2] at hold ⊢; exact hold
    · exact hi

/-- C15: for every history of subscribe, unsubscribe and (possibly concurrent) publications, every handler is
    delivered a publication at most once, and exactly once — if it was subscribed when the publication took its
    snapshot — as soon as the publication has been handled and its application goroutines have run -/
theorem c15_exactly_once (evs : List Ev) (p : Nat) (h : H) :
    (run evs).delivered.count (p, h) ≤ 1 ∧
    ((run evs).pending.count (p, h) = 0 → waiting (run evs) p h = 0 →
      (run evs).delivered.count (p, h) = owed (run evs) p h) := by
  have hinv : Inv (run evs) := by
    unfold run
    suffices ∀ s, Inv s → Inv (evs.foldl step s) from
      this {} ⟨by simp, by simp, by intro p h; simp [waiting, owed, findPub]⟩
    induction evs with
    | nil => intro s hs; exact hs
    | cons e es ih => intro s hs; exact ih _ (step_inv s e hs)
  have := hinv.cnt p h
  have hle : owed (run evs) p h ≤ 1 := by
    unfold owed; split
    · split <;> omega
    · omega
  exact ⟨by omega, fun h1 h2 => by omega⟩

end Spine.Bus
