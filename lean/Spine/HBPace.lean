import Spine.Period
/-! C16, "refreshed periodically, with a period not exceeding the announced timeout" — WHEN the refreshes begin, as a
    function of what paces the goroutine's loop and of how long each refresh takes (`SetData` notifies every subscriber
    synchronously: a subscriber whose connection is slow to write makes the refresh slow).

    * `ticker`: ONE `time.NewTicker(d)` created before the loop. Its ticks lie on the grid d, 2d, 3d, …; the channel
      holds at most one tick (further ticks are dropped while the loop is busy).
    * `perIteration`: a timer armed anew in every iteration (`case <-time.After(d)`, a `NewTimer` / `NewTicker` inside
      the loop, a `Reset` after the refresh): the next refresh begins d after the END of the previous one.

    Times in milliseconds since the goroutine started; `r k` = how long refresh number k takes. -/
namespace Spine.HBP

inductive Pace
  | ticker
  | perIteration
  deriving DecidableEq, Repr

/-- the instant at which refresh number k begins -/
def begins (p : Pace) (d : Nat) (r : Nat → Nat) : Nat → Nat
  | 0 => d
  | k + 1 =>
    let b := begins p d r k
    let e := b + r k                     -- refresh k ends
    match p with
    | .ticker =>
      let g := (b / d + 1) * d           -- the ticker's next instant after b
      if g ≤ e then e else g             -- that tick is already waiting when the loop comes back / the loop waits for it
    | .perIteration => e + d

/-- a ticker created before the loop: as long as no refresh takes longer than the period, refresh k begins exactly at
    (k+1)·d — the time a refresh takes does not add to the period -/
theorem ticker_on_grid (d : Nat) (hd : 0 < d) (r : Nat → Nat) (hr : ∀ k, r k ≤ d) (k : Nat) :
    begins .ticker d r k = (k + 1) * d := by
  induction k with
  | zero => simp [begins]
  | succ k ih =>
    simp only [begins, ih]
    rw [Nat.mul_div_cancel _ hd]
    have hk := hr k
    have he : (k + 1) * d + r k ≤ (k + 1 + 1) * d := by
      rw [Nat.add_mul (k + 1) 1 d, Nat.one_mul]; omega
    split
    · omega
    · rfl

theorem ticker_gap (d : Nat) (hd : 0 < d) (r : Nat → Nat) (hr : ∀ k, r k ≤ d) (k : Nat) :
    begins .ticker d r (k + 1) - begins .ticker d r k = d := by
  rw [ticker_on_grid d hd r hr, ticker_on_grid d hd r hr, Nat.add_mul (k + 1) 1 d, Nat.one_mul]
  omega

/-- a timer armed anew in every iteration: the gap is the period PLUS the time the refresh took -/
theorem perIteration_gap (d : Nat) (r : Nat → Nat) (k : Nat) :
    begins .perIteration d r (k + 1) - begins .perIteration d r k = d + r k := by
  simp only [begins]; omega

/-- "with a period not exceeding the announced timeout", in time: with a ticker created before the loop and refreshes
    that take no longer than the period, two consecutive refreshes begin exactly `period timeout` ≤ timeout apart -/
theorem gap_le_timeout (t : Nat) (ht : 0 < t) (r : Nat → Nat) (hr : ∀ k, r k ≤ HB.period t) (k : Nat) :
    begins .ticker (HB.period t) r (k + 1) - begins .ticker (HB.period t) r k = HB.period t ∧
    begins .ticker (HB.period t) r (k + 1) - begins .ticker (HB.period t) r k ≤ t := by
  have hp := HB.c16_period_le_timeout t ht
  rw [ticker_gap _ hp.1 r hr]
  exact ⟨rfl, hp.2⟩

/-- and with a timer per iteration the clause is lost for every timeout up to 2 s (period = timeout) as soon as a
    refresh takes any time at all -/
theorem perIteration_exceeds (t : Nat) (ht : t ≤ 2000) (r : Nat → Nat) (k : Nat) (hk : 0 < r k) :
    t < begins .perIteration (HB.period t) r (k + 1) - begins .perIteration (HB.period t) r k := by
  rw [perIteration_gap]
  have : HB.period t = t := by unfold HB.period; split <;> omega
  omega

/-- the pacing as the translator reports it (`Generated.Heartbeat.pacing`) -/
def paceOf : Nat → Option Pace
  | 0 => some .ticker
  | 1 => some .perIteration
  | _ => none

end Spine.HBP
