/-! Event-sourced model of HeartbeatManager.StartHeartbeat / StopHeartbeat (spine/heartbeat_manager.go).
    As written neither operation is one critical section: Stop = check (under stopMux) ; close (outside),
    Start = Stop ; make channel ; spawn goroutine with the channel read from the field.
    Repaired: each operation is one critical section. -/
namespace Spine.HB

structure St where
  chan : Option Nat := none        -- stopHeartbeatC
  nextId : Nat := 0
  closed : List Nat := []          -- channels that have been closed
  streams : List Nat := []         -- running goroutines, by the channel they listen on
  checked : List Nat := []         -- stop operations that saw "running" and have not closed yet
  made : List Nat := []            -- start operations that made a channel and have not spawned yet
  panicked : Bool := false

inductive Ev
  -- as written
  | stopCheck (op : Nat) | stopClose (op : Nat) | startMake (op : Nat) | startSpawn (op : Nat)
  -- repaired
  | stopAtomic | startAtomic
  -- a goroutine notices its channel is closed and returns
  | exit (c : Nat)

def running (s : St) : Bool := match s.chan with | some c => !s.closed.contains c | none => false

def closeCur (s : St) : St :=
  match s.chan with
  | none => { s with panicked := true }                         -- close(nil)
  | some c => if s.closed.contains c then { s with panicked := true }   -- close of a closed channel
              else { s with closed := c :: s.closed }

def step (s : St) : Ev → St
  | .stopCheck op => if running s then { s with checked := op :: s.checked } else s
  | .stopClose op => if s.checked.contains op then closeCur { s with checked := s.checked.erase op } else s
  | .startMake op => { s with chan := some s.nextId, nextId := s.nextId + 1, made := op :: s.made }
  | .startSpawn op =>
    if s.made.contains op then
      match s.chan with
      | some c => { s with made := s.made.erase op, streams := c :: s.streams }
      | none => s
    else s
  | .stopAtomic => if running s then closeCur s else s
  | .startAtomic =>
    let s := if running s then closeCur s else s
    { s with chan := some s.nextId, nextId := s.nextId + 1, streams := s.nextId :: s.streams }
  | .exit c => if s.closed.contains c then { s with streams := s.streams.erase c } else s

def run (evs : List Ev) : St := evs.foldl step {}

/-- streams that nobody has told to stop -/
def live (s : St) : List Nat := s.streams.filter fun c => !s.closed.contains c

/-- as written: two concurrent StopHeartbeat calls close the channel twice -/
theorem double_close_witness :
    (run [.startMake 1, .startSpawn 1, .stopCheck 2, .stopCheck 3, .stopClose 2, .stopClose 3]).panicked = true := by
  decide

/-- as written: two concurrent StartHeartbeat calls leave two heartbeat streams running -/
theorem two_streams_witness :
    (live (run [.startMake 1, .startMake 2, .startSpawn 1, .startSpawn 2])).length = 2 := by decide

def repaired : Ev → Bool
  | .stopAtomic => true | .startAtomic => true | .exit _ => true | _ => false

/-- invariant of the repaired code -/
structure Inv (s : St) : Prop where
  noPanic : s.panicked = false
  fresh : ∀ c ∈ s.streams, c < s.nextId
  chanLt : ∀ c, s.chan = some c → c < s.nextId
  closedLt : ∀ c ∈ s.closed, c < s.nextId
  liveIsCur : ∀ c ∈ live s, s.chan = some c      -- the only stream not told to stop listens on the current channel
  nodup : s.streams.Nodup


theorem running_iff (s : St) : running s = true ↔ ∃ c, s.chan = some c ∧ s.closed.contains c = false := by
  unfold running
  cases h : s.chan with
  | none => simp
  | some c => simp

theorem live_nil_of_not_running (s : St) (h : Inv s) (hr : running s = false) : live s = [] := by
  rw [List.eq_nil_iff_forall_not_mem]
  intro c hc
  have hcur := h.liveIsCur c hc
  have hopen : s.closed.contains c = false := by
    simp only [live, List.mem_filter, Bool.not_eq_true'] at hc; exact hc.2
  have : running s = true := (running_iff s).mpr ⟨c, hcur, hopen⟩
  rw [hr] at this; cases this

/-- closing the current channel when a heartbeat is running: no panic, nothing stays live -/
theorem closeCur_running (s : St) (h : Inv s) (hr : running s = true) :
    Inv (closeCur s) ∧ live (closeCur s) = [] ∧ (closeCur s).nextId = s.nextId ∧
      (closeCur s).streams = s.streams := by
  obtain ⟨c, hc, hopen⟩ := (running_iff s).mp hr
  have hcl : closeCur s = { s with closed := c :: s.closed } := by
    unfold closeCur
    simp only [hc, hopen, Bool.false_eq_true, if_false]
  have hlive : live { s with closed := c :: s.closed } = [] := by
    rw [List.eq_nil_iff_forall_not_mem]
    intro d hd
    simp only [live, List.mem_filter, List.contains_cons, Bool.not_eq_true', Bool.or_eq_false_iff,
      beq_eq_false_iff_ne, ne_eq] at hd
    have hdl : d ∈ live s := by
      simp only [live, List.mem_filter, Bool.not_eq_true']; exact ⟨hd.1, hd.2.2⟩
    have := h.liveIsCur d hdl
    rw [hc] at this; injection this with this
    exact hd.2.1 this.symm
  rw [hcl]
  refine ⟨⟨h.noPanic, h.fresh, h.chanLt, ?_, ?_, h.nodup⟩, hlive, rfl, rfl⟩
  · intro d hd
    rcases List.mem_cons.mp hd with rfl | hd
    · exact h.chanLt _ hc
    · exact h.closedLt d hd
  · intro d hd; rw [hlive] at hd; cases hd

theorem step_inv (s : St) (ev : Ev) (hr : repaired ev = true) (h : Inv s) : Inv (step s ev) := by
  cases ev with
  | stopCheck op => simp [repaired] at hr
  | stopClose op => simp [repaired] at hr
  | startMake op => simp [repaired] at hr
  | startSpawn op => simp [repaired] at hr
  | stopAtomic =>
    simp only [step]
    split
    · rename_i hrun; exact (closeCur_running s h hrun).1
    · exact h
  | startAtomic =>
    simp only [step]
    -- after the first phase nothing is live
    have hphase : ∃ s1 : St, (if running s = true then closeCur s else s) = s1 ∧ Inv s1 ∧ live s1 = [] ∧
        s1.nextId = s.nextId ∧ s1.streams = s.streams := by
      by_cases hrun : running s = true
      · have := closeCur_running s h hrun
        exact ⟨closeCur s, by simp [hrun], this.1, this.2.1, this.2.2.1, this.2.2.2⟩
      · have hrun' : running s = false := by simpa using hrun
        exact ⟨s, by simp [hrun'], h, live_nil_of_not_running s h hrun', rfl, rfl⟩
    obtain ⟨s1, hs1, hi1, hl1, hn1, hst1⟩ := hphase
    rw [hs1]
    have hnotclosed : s1.closed.contains s1.nextId = false := by
      cases hcc : s1.closed.contains s1.nextId with
      | false => rfl
      | true =>
        have hm : s1.nextId ∈ s1.closed := by simpa using hcc
        have := hi1.closedLt _ hm
        omega
    have hlive' : live { s1 with chan := some s1.nextId, nextId := s1.nextId + 1, streams := s1.nextId :: s1.streams }
        = [s1.nextId] := by
      simp only [live, List.filter_cons, hnotclosed, Bool.not_false, if_true]
      have : s1.streams.filter (fun c => !s1.closed.contains c) = [] := hl1
      rw [this]
    refine ⟨hi1.noPanic, ?_, ?_, ?_, ?_, ?_⟩
    · intro c hc
      rcases List.mem_cons.mp hc with rfl | hc
      · exact Nat.lt_succ_self _
      · exact Nat.lt_succ_of_lt (hi1.fresh c hc)
    · intro c hc; injection hc with hc; rw [← hc]; exact Nat.lt_succ_self _
    · intro c hc; exact Nat.lt_succ_of_lt (hi1.closedLt c hc)
    · intro c hc; rw [hlive'] at hc; simp at hc; rw [hc]
    · refine List.nodup_cons.mpr ⟨fun hm => ?_, hi1.nodup⟩
      have := hi1.fresh _ hm; omega
  | exit c =>
    simp only [step]
    split
    · rename_i hcl
      have hsub : (s.streams.erase c).Sublist s.streams := List.erase_sublist
      refine ⟨h.noPanic, fun d hd => h.fresh d (hsub.subset hd), h.chanLt, h.closedLt, ?_, hsub.nodup h.nodup⟩
      intro d hd
      apply h.liveIsCur
      simp only [live, List.mem_filter] at hd ⊢
      exact ⟨hsub.subset hd.1, hd.2⟩
    · exact h

/-- C16 (repaired code): under every interleaving of start, stop and goroutine exits there is never a panic and
    never more than one heartbeat stream that has not been told to stop -/
theorem c16_single_stream_no_panic (evs : List Ev) (hrep : ∀ e ∈ evs, repaired e = true) :
    (run evs).panicked = false ∧ (live (run evs)).length ≤ 1 := by
  have hinv : Inv (run evs) := by
    unfold run
    suffices ∀ s, Inv s → Inv (evs.foldl step s) from
      this {} ⟨rfl, by simp, by simp, by simp, by simp [live], by simp⟩
    induction evs with
    | nil => intro s h; exact h
    | cons e es ih =>
      intro s h
      exact ih (fun e' he' => hrep e' (List.mem_cons_of_mem _ he')) _ (step_inv s e (hrep e List.mem_cons_self) h)
  refine ⟨hinv.noPanic, ?_⟩
  -- all live streams listen on the one current channel, and streams are pairwise distinct
  have hnd : (live (run evs)).Nodup := (List.filter_sublist.nodup hinv.nodup)
  cases hl : live (run evs) with
  | nil => simp
  | cons a rest =>
    cases rest with
    | nil => simp
    | cons b rest' =>
      have ha := hinv.liveIsCur a (by rw [hl]; simp)
      have hb := hinv.liveIsCur b (by rw [hl]; simp)
      rw [ha] at hb; injection hb with hab
      rw [hl] at hnd
      simp [hab] at hnd

/-- The events an operation of the code can produce, given two facts about the source (regenerated by the translator,
    `Spine.Generated.Heartbeat`): `startOne` — in StartHeartbeat the running test, the close of the old channel, the
    creation of the new one and the go statement are ONE critical section; `stopOne` — in StopHeartbeat the running
    test and the close are one critical section (of the same mutex). With a fact true the operation is its atomic
    event; with a fact false it is the split events of the code as it was written. -/
def admitted (startOne stopOne : Bool) : Ev → Bool
  | .stopCheck _ => !stopOne || !startOne       -- the stop phase of a split start is a stopCheck / stopClose too
  | .stopClose _ => !stopOne || !startOne
  | .startMake _ => !startOne
  | .startSpawn _ => !startOne
  | .stopAtomic => stopOne
  | .startAtomic => startOne
  | .exit _ => true

theorem admitted_true (e : Ev) : admitted true true e = repaired e := by cases e <;> rfl

/-- all-schedule theorem parameterised by the source facts: when both operations are one critical section each,
    every event list the code can produce is covered by `c16_single_stream_no_panic` -/
theorem c16_single_stream_no_panic_of_facts (startOne stopOne : Bool) (h1 : startOne = true) (h2 : stopOne = true)
    (evs : List Ev) (h : ∀ e ∈ evs, admitted startOne stopOne e = true) :
    (run evs).panicked = false ∧ (live (run evs)).length ≤ 1 := by
  subst h1; subst h2
  exact c16_single_stream_no_panic evs (fun e he => by rw [← admitted_true]; exact h e he)

/-- and when a fact is false the clause is lost: the witnesses of the code as written are admitted -/
theorem admitted_split_refutes :
    (∀ e ∈ [Ev.startMake 1, .startSpawn 1, .stopCheck 2, .stopCheck 3, .stopClose 2, .stopClose 3], admitted false false e = true) ∧
    (∀ e ∈ [Ev.startMake 1, .startMake 2, .startSpawn 1, .startSpawn 2], admitted false true e = true) := by decide

end Spine.HB
