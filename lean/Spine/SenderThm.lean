import Spine.Sender
namespace Spine.Snd

/-- invariant of the unanswered-request cache -/
structure Inv (s : St) : Prop where
  hashes : (s.req.map (·.2)).Nodup          -- at most one entry per request (map iteration order is irrelevant)
  ctrs : ∀ e ∈ s.req, e.1 ≤ s.msgNum        -- cached counters were issued
  bound : s.req.length ≤ s.limit + 1        -- memory stays bounded

theorem evict_sublist (s : St) : (evict s).Sublist s.req := by
  unfold evict
  split
  · split
    · exact List.filter_sublist
    · exact List.Sublist.refl _
  · exact List.Sublist.refl _

theorem length_filter_lt_of_mem {α} (p : α → Bool) (l : List α) (x : α) (hx : x ∈ l) (hp : p x = false) :
    (l.filter p).length < l.length := by
  induction l with
  | nil => cases hx
  | cons y ys ih =>
    rcases List.mem_cons.mp hx with rfl | h
    · simp only [List.filter_cons, hp]
      exact Nat.lt_succ_of_le (List.length_filter_le _ _)
    · simp only [List.filter_cons]
      split
      · simp only [List.length_cons]; exact Nat.succ_lt_succ (ih h)
      · exact Nat.lt_succ_of_lt (ih h)

theorem evict_length (s : St) (hb : s.req.length ≤ s.limit + 1) : (evict s).length ≤ s.limit := by
  unfold evict
  split
  · rename_i hgt
    split
    · rename_i lo hlo
      -- the minimum is a member, so the filter removes at least one entry
      have hmem : lo ∈ s.req.map (·.1) := List.min?_mem hlo
      obtain ⟨e, he, hel⟩ := List.mem_map.mp hmem
      have := length_filter_lt_of_mem (fun x : Nat × Nat => decide (x.1 ≠ lo)) s.req e he (by simp [hel])
      omega
    · rename_i hnone
      have : s.req.map (·.1) = [] := by simpa using hnone
      have : s.req = [] := by simpa using this
      simp [this] at hgt
  · omega

theorem find?_none_not_mem (l : List (Nat × Nat)) (h : Nat) (hn : l.find? (·.2 = h) = none) :
    h ∉ l.map (·.2) := by
  intro hm
  obtain ⟨e, he, heq⟩ := List.mem_map.mp hm
  have := List.find?_eq_none.mp hn e he
  simp [heq] at this

theorem step_inv (s : St) (op : Op) (h : Inv s) : Inv (step s op) := by
  cases op with
  | request hh =>
    simp only [step, request]
    split
    · exact h
    · rename_i hnone
      have hsub := evict_sublist s
      refine ⟨?_, ?_, ?_⟩
      · simp only [List.map_append, List.map_cons, List.map_nil]
        rw [List.nodup_append]
        refine ⟨(hsub.map _).nodup h.hashes, by simp, ?_⟩
        intro a ha b hb
        simp only [List.mem_singleton] at hb
        subst hb
        intro heq; subst heq
        exact find?_none_not_mem _ _ hnone ((hsub.map _).subset ha)
      · intro e he
        simp only [List.mem_append, List.mem_singleton] at he
        rcases he with he | rfl
        · have := h.ctrs e (hsub.subset he); simp only; omega
        · exact Nat.le_refl _
      · simp only [List.length_append, List.length_cons, List.length_nil]
        have := evict_length s h.bound
        omega
  | response r =>
    simp only [step, response]
    refine ⟨(List.filter_sublist.map _).nodup h.hashes, ?_, ?_⟩
    · intro e he; exact h.ctrs e (List.filter_sublist.subset he)
    · exact Nat.le_trans (List.length_filter_le _ _) h.bound
  | other =>
    simp only [step, other]
    exact ⟨h.hashes, fun e he => Nat.le_succ_of_le (h.ctrs e he), h.bound⟩
  | notify =>
    simp only [step, notify]
    exact ⟨h.hashes, fun e he => Nat.le_succ_of_le (h.ctrs e he), h.bound⟩
  | get c =>
    simp only [step, get]
    split <;> exact ⟨h.hashes, h.ctrs, h.bound⟩

/-- C13: for every history, the unanswered-request memory holds at most one entry per request,
    only issued counters, and at most limit+1 entries -/
theorem history_inv (ops : List Op) : Inv (ops.foldl step {}) := by
  suffices ∀ s, Inv s → Inv (ops.foldl step s) from this {} ⟨by simp, by simp, by simp⟩
  induction ops with
  | nil => intro s h; exact h
  | cons o os ih => intro s h; exact ih _ (step_inv s o h)

/-- C13: a request is withheld only if an identical request is unanswered, and then its counter is returned -/
theorem withheld_only_if (s : St) (h c : Nat) (hw : request s h = (s, c, false)) : (c, h) ∈ s.req := by
  unfold request at hw
  split at hw
  · rename_i c' h' hf
    have hm := List.mem_of_find?_eq_some hf
    have hp := List.find?_some hf
    simp only [Prod.mk.injEq, true_and] at hw
    simp only [decide_eq_true_eq] at hp
    obtain ⟨rfl, _⟩ := hw
    subst hp
    exact hm
  · simp at hw

/-- C13: a different request is never withheld -/
theorem distinct_never_withheld (s : St) (h : Nat) (hn : h ∉ s.req.map (·.2)) : (request s h).2.2 = true := by
  unfold request
  split
  · rename_i c h' hf
    have hm := List.mem_of_find?_eq_some hf
    have hp := List.find?_some hf
    simp only [decide_eq_true_eq] at hp
    exact absurd (List.mem_map.mpr ⟨(c, h'), hm, hp⟩) hn
  · rfl

theorem eq_of_nodup_map {α β} (f : α → β) : ∀ (l : List α), (l.map f).Nodup →
    ∀ x ∈ l, ∀ y ∈ l, f x = f y → x = y
  | [], _, _, hx, _, _, _ => by cases hx
  | a :: l, hnd, x, hx, y, hy, hf => by
    simp only [List.map_cons, List.nodup_cons, List.mem_map, not_exists, not_and] at hnd
    rcases List.mem_cons.mp hx with rfl | hx' <;> rcases List.mem_cons.mp hy with rfl | hy'
    · rfl
    · exact absurd hf.symm (hnd.1 y hy')
    · exact absurd hf (hnd.1 x hx')
    · exact eq_of_nodup_map f l hnd.2 x hx' y hy' hf

/-- C13: a response re-enables sending -/
theorem response_reenables (s : St) (c h : Nat) (hi : Inv s) (hm : (c, h) ∈ s.req) :
    (request (response s c) h).2.2 = true := by
  apply distinct_never_withheld
  intro hmem
  simp only [response, List.mem_map, List.mem_filter] at hmem
  obtain ⟨e, ⟨he, hne⟩, heq⟩ := hmem
  -- two entries with the same hash are the same entry
  have hinj : e = (c, h) := eq_of_nodup_map (·.2) s.req hi.hashes e he (c, h) hm heq
  simp [hinj] at hne

/-- C13, refuted: after 100 notifications a lookup of the oldest promotes it, the next notification
    evicts the second oldest although it is among the last 100 -/
theorem last100_refuted :
    let s := ((List.replicate 100 Op.notify) ++ [Op.get 1, Op.notify]).foldl step {}
    (get s 2).2 = false ∧ 2 + 100 > s.msgNum := by decide +kernel

end Spine.Snd
