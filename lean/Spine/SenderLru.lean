import Spine.Sender
/-! C13, last-100 clause, the region where it holds: in a history without lookups
    (`DatagramForMsgCounter` promotes entries, which is what breaks the clause) the LRU holds exactly
    the most recent `cap` notification counters. -/
namespace Spine.Snd

def isGet : Op → Bool | .get _ => true | _ => false

/-- counters of the notifications issued by `ops` from state `s`, most recent first -/
def notified : St → List Op → List Nat
  | _, [] => []
  | s, op :: ops => notified (step s op) ops ++ (match op with | .notify => [s.msgNum + 1] | _ => [])

theorem take_append_take {α} (a b : List α) (n : Nat) : (a ++ b.take n).take n = (a ++ b).take n := by
  rw [List.take_append, List.take_append, List.take_take]
  congr 2
  omega

theorem notify_lru (s : St) (hl : s.lru.length ≤ s.cap) (hc : 0 < s.cap) :
    (notify s).1.lru = ((s.msgNum + 1) :: s.lru).take s.cap := by
  simp only [notify]
  split
  · rename_i hge
    have hlen : s.lru.length = s.cap := by omega
    obtain ⟨k, hk⟩ : ∃ k, s.cap = k + 1 := ⟨s.cap - 1, by omega⟩
    rw [hk, List.take_succ_cons, List.dropLast_eq_take]
    congr 1
    rw [hlen, hk]; rfl
  · rename_i hlt
    rw [List.take_of_length_le]
    simp only [List.length_cons]; omega

theorem step_cap (s : St) (op : Op) : (step s op).cap = s.cap := by
  cases op <;> simp [step, request, response, other, notify, get] <;> (try split) <;> (try split) <;> rfl

theorem step_lru_len (s : St) (op : Op) (hl : s.lru.length ≤ s.cap) (hc : 0 < s.cap) (hg : isGet op = false) :
    (step s op).lru.length ≤ (step s op).cap := by
  rw [step_cap]
  cases op with
  | request h => simp only [step, request]; split <;> simpa using hl
  | response r => simpa [step, response] using hl
  | other => simpa [step, other] using hl
  | notify => simp only [step]; rw [notify_lru s hl hc]; simp [List.length_take]; omega
  | get c => simp [isGet] at hg

/-- in a lookup-free history the LRU is the list of the most recent `cap` notification counters -/
theorem lru_eq_recent (ops : List Op) : ∀ (s : St), (∀ op ∈ ops, isGet op = false) →
    s.lru.length ≤ s.cap → 0 < s.cap →
    (ops.foldl step s).lru = (notified s ops ++ s.lru).take s.cap := by
  induction ops with
  | nil => intro s _ hl _; simp [notified, List.take_of_length_le hl]
  | cons op ops ih =>
    intro s hg hl hc
    have hg1 : isGet op = false := hg op (by simp)
    have hg2 : ∀ o ∈ ops, isGet o = false := fun o ho => hg o (by simp [ho])
    have hl' := step_lru_len s op hl hc hg1
    have hc' : 0 < (step s op).cap := by rw [step_cap]; exact hc
    rw [List.foldl_cons, ih (step s op) hg2 hl' hc', step_cap]
    cases op with
    | request h =>
      have : (step s (.request h)).lru = s.lru := by simp only [step, request]; split <;> rfl
      simp [notified, this]
    | response r => simp [notified, step, response]
    | other => simp [notified, step, other]
    | notify =>
      simp only [notified, step]
      rw [notify_lru s hl hc, take_append_take]
      simp [List.append_assoc]
    | get c => simp [isGet] at hg1

end Spine.Snd
