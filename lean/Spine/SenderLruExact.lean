import Spine.Sender
import Spine.SenderLru
/-! C13, last-100 clause, exact form: which notification counters does the LRU retain in an ARBITRARY
    history (lookups included)?  Answer: the first `cap` entries of the de-duplicated touch trace.
    A notification touches its fresh counter, a lookup that hits touches the counter looked up. -/
namespace Spine.Snd

/-- first occurrences only (the list is most-recent-first, so this keeps each counter's most recent touch) -/
def dedup : List Nat → List Nat
  | [] => []
  | x :: xs => x :: (dedup xs).filter (· ≠ x)

/-- what a single operation touches when run in state `s` -/
def touchOf (s : St) : Op → List Nat
  | .notify => [s.msgNum + 1]
  | .get c => if s.lru.contains c then [c] else []
  | _ => []

/-- 1 if the operation is a lookup that hits in state `s` -/
def hitOf (s : St) : Op → Nat
  | .get c => if s.lru.contains c then 1 else 0
  | _ => 0

/-- the counter a single operation notifies in state `s` -/
def notifOf (s : St) : Op → List Nat
  | .notify => [s.msgNum + 1]
  | _ => []

/-- the touch trace of a history run from state `s`, most recent first: a notification touches its new counter,
    a lookup that hits touches the counter looked up; nothing else touches the cache -/
def touches : St → List Op → List Nat
  | _, [] => []
  | s, op :: ops => touches (step s op) ops ++ touchOf s op

/-- number of lookups of the history that hit -/
def hits : St → List Op → Nat
  | _, [] => 0
  | s, op :: ops => hits (step s op) ops + hitOf s op

/-! ### list facts -/

theorem dedup_cons (x : Nat) (xs : List Nat) : dedup (x :: xs) = x :: (dedup xs).filter (· ≠ x) := rfl

theorem mem_dedup (l : List Nat) (x : Nat) : x ∈ dedup l ↔ x ∈ l := by
  induction l with
  | nil => simp [dedup]
  | cons y ys ih =>
    rw [dedup_cons]
    simp only [List.mem_cons, List.mem_filter, ih, decide_eq_true_eq]
    constructor
    · rintro (h | ⟨h, _⟩)
      · exact Or.inl h
      · exact Or.inr h
    · intro h
      by_cases hxy : x = y
      · exact Or.inl hxy
      · rcases h with h | h
        · exact Or.inl h
        · exact Or.inr ⟨h, hxy⟩

theorem dedup_nodup (l : List Nat) : (dedup l).Nodup := by
  induction l with
  | nil => simp [dedup]
  | cons y ys ih =>
    rw [dedup_cons, List.nodup_cons]
    refine ⟨?_, List.filter_sublist.nodup ih⟩
    simp [List.mem_filter]

theorem filter_ne_of_not_mem (l : List Nat) (x : Nat) (h : x ∉ l) : l.filter (· ≠ x) = l := by
  rw [List.filter_eq_self]
  intro a ha
  simp only [decide_eq_true_eq]
  intro hax; subst hax; exact h ha

theorem dedup_cons_fresh (n : Nat) (l : List Nat) (h : n ∉ l) : dedup (n :: l) = n :: dedup l := by
  rw [dedup_cons, filter_ne_of_not_mem]
  rwa [mem_dedup]

theorem dedup_of_nodup (l : List Nat) (h : l.Nodup) : dedup l = l := by
  induction l with
  | nil => rfl
  | cons y ys ih =>
    rw [List.nodup_cons] at h
    rw [dedup_cons_fresh y ys h.1, ih h.2]

theorem dedup_dedup (l : List Nat) : dedup (dedup l) = dedup l := dedup_of_nodup _ (dedup_nodup l)

/-- removing a counter that sits in the first `k+1` entries of a duplicate-free list commutes with truncation -/
theorem take_filter_ne (c : Nat) (l : List Nat) : ∀ (k : Nat), l.Nodup → c ∈ l.take (k + 1) →
    (l.take (k + 1)).filter (· ≠ c) = (l.filter (· ≠ c)).take k := by
  induction l with
  | nil => intro k _ h; simp at h
  | cons y ys ih =>
    intro k hnd hc
    rw [List.nodup_cons] at hnd
    rw [List.take_succ_cons] at hc ⊢
    by_cases hy : y = c
    · subst hy
      have hn : y ∉ ys.take k := fun h => hnd.1 (List.mem_of_mem_take h)
      simp only [List.filter_cons, ne_eq, not_true_eq_false, decide_false, Bool.false_eq_true, if_false]
      rw [filter_ne_of_not_mem _ _ hn, filter_ne_of_not_mem _ _ hnd.1]
    · have hc' : c ∈ ys.take k := by
        rcases List.mem_cons.mp hc with h | h
        · exact absurd h.symm hy
        · exact h
      cases k with
      | zero => simp at hc'
      | succ k' =>
        have hd : decide (y ≠ c) = true := by simp [hy]
        simp only [List.filter_cons, hd, if_true, List.take_succ_cons]
        rw [ih k' hnd.2 hc']

theorem mem_take_mono {α} (l : List α) (x : α) (j k : Nat) (hjk : j ≤ k) (h : x ∈ l.take j) : x ∈ l.take k := by
  have : l.take j = (l.take k).take j := by rw [List.take_take, Nat.min_eq_left hjk]
  rw [this] at h
  exact List.mem_of_mem_take h

theorem mem_take_filter (p : Nat → Bool) (x : Nat) (hp : p x = true) (m : List Nat) : ∀ k, x ∈ m.take k →
    x ∈ (m.filter p).take k := by
  induction m with
  | nil => intro k h; simp at h
  | cons y ys ih =>
    intro k h
    cases k with
    | zero => simp at h
    | succ k =>
      rw [List.take_succ_cons] at h
      rcases List.mem_cons.mp h with rfl | h
      · simp [hp]
      · have := ih k h
        simp only [List.filter_cons]
        split
        · rw [List.take_succ_cons]; exact List.mem_cons_of_mem _ this
        · exact mem_take_mono _ _ k (k + 1) (Nat.le_succ k) this

/-- the index of a counter in `dedup l` is at most the index of its first occurrence in `l` -/
theorem mem_take_dedup (x : Nat) (l : List Nat) : ∀ k, x ∈ l.take k → x ∈ (dedup l).take k := by
  induction l with
  | nil => intro k h; simp at h
  | cons y ys ih =>
    intro k h
    cases k with
    | zero => simp at h
    | succ k =>
      rw [dedup_cons, List.take_succ_cons]
      by_cases hxy : x = y
      · subst hxy; exact List.mem_cons_self
      · rw [List.take_succ_cons] at h
        rcases List.mem_cons.mp h with h | h
        · exact absurd h hxy
        · exact List.mem_cons_of_mem _ (mem_take_filter _ x (by simp [hxy]) _ k (ih k h))

/-! ### single steps -/

theorem step_msgNum_le (s : St) (op : Op) : s.msgNum ≤ (step s op).msgNum := by
  cases op with
  | request h => simp only [step, request]; split <;> simp
  | response r => simp [step, response]
  | other => simp [step, other]
  | notify => simp [step, notify]
  | get c => simp only [step, get]; split <;> simp

theorem foldl_cap (ops : List Op) : ∀ s : St, (ops.foldl step s).cap = s.cap := by
  induction ops with
  | nil => intro s; rfl
  | cons op ops ih => intro s; rw [List.foldl_cons, ih, step_cap]

theorem get_snd (s : St) (c : Nat) : (get s c).2 = s.lru.contains c := by
  simp only [get]; split <;> simp_all

/-- one step keeps the exact description: if the LRU is the truncated de-duplication of a trace `X`
    whose counters were all issued, then after `op` it is the truncated de-duplication of `touchOf op ++ X` -/
theorem step_exact (t : St) (X : List Nat) (hc : 0 < t.cap) (h1 : t.lru = (dedup X).take t.cap)
    (h2 : ∀ c ∈ X, c ≤ t.msgNum) (op : Op) :
    (step t op).lru = (dedup (touchOf t op ++ X)).take t.cap ∧
    ∀ c ∈ touchOf t op ++ X, c ≤ (step t op).msgNum := by
  have hmono := step_msgNum_le t op
  have hX : ∀ c ∈ X, c ≤ (step t op).msgNum := fun c hcX => Nat.le_trans (h2 c hcX) hmono
  cases op with
  | request h =>
    have : (step t (.request h)).lru = t.lru := by simp only [step, request]; split <;> rfl
    simp only [touchOf, List.nil_append]
    exact ⟨this.trans h1, hX⟩
  | response r =>
    simp only [touchOf, List.nil_append]
    exact ⟨h1, hX⟩
  | other =>
    simp only [touchOf, List.nil_append]
    exact ⟨h1, hX⟩
  | notify =>
    have hl : t.lru.length ≤ t.cap := by rw [h1, List.length_take]; exact Nat.min_le_left _ _
    have hfresh : t.msgNum + 1 ∉ X := fun hm => by have := h2 _ hm; omega
    simp only [touchOf, List.singleton_append]
    constructor
    · simp only [step]
      rw [notify_lru t hl hc, dedup_cons_fresh _ _ hfresh, h1]
      obtain ⟨k, hk⟩ : ∃ k, t.cap = k + 1 := ⟨t.cap - 1, by omega⟩
      rw [hk, List.take_succ_cons, List.take_succ_cons, List.take_take]
      congr 2
      omega
    · intro c hcm
      rcases List.mem_cons.mp hcm with rfl | hcm
      · simp [step, notify]
      · exact hX c hcm
  | get c =>
    by_cases hit : c ∈ t.lru
    · have hmem : c ∈ t.lru := hit
      have hstep : (step t (.get c)).lru = c :: t.lru.filter (· ≠ c) := by
        simp [step, get, hit]
      have htouch : touchOf t (.get c) = [c] := by simp [touchOf, hit]
      rw [htouch, List.singleton_append]
      constructor
      · rw [hstep, dedup_cons]
        obtain ⟨k, hk⟩ : ∃ k, t.cap = k + 1 := ⟨t.cap - 1, by omega⟩
        rw [hk] at h1 ⊢
        rw [List.take_succ_cons, h1]
        rw [h1] at hmem
        rw [take_filter_ne c _ k (dedup_nodup X) hmem]
      · intro d hd
        rcases List.mem_cons.mp hd with rfl | hd
        · rw [h1] at hmem
          exact hX d ((mem_dedup X d).mp (List.mem_of_mem_take hmem))
        · exact hX d hd
    · have hstep : step t (.get c) = t := by simp [step, get, hit]
      have htouch : touchOf t (.get c) = [] := by simp [touchOf, hit]
      rw [htouch, List.nil_append, hstep]
      exact ⟨h1, h2⟩

/-! ### histories -/

theorem touches_append (a b : List Op) : ∀ s : St,
    touches s (a ++ b) = touches (a.foldl step s) b ++ touches s a := by
  induction a with
  | nil => intro s; simp [touches]
  | cons o a ih =>
    intro s
    simp only [List.cons_append, touches, List.foldl_cons, ih, List.append_assoc]

theorem touches_snoc (ops : List Op) (op : Op) (s : St) :
    touches s (ops ++ [op]) = touchOf (ops.foldl step s) op ++ touches s ops := by
  rw [touches_append]; simp [touches]

theorem snoc_induction {α} {P : List α → Prop} (hnil : P []) (hsnoc : ∀ l a, P l → P (l ++ [a])) :
    ∀ l, P l := by
  intro l
  rw [← List.reverse_reverse l]
  generalize l.reverse = r
  induction r with
  | nil => exact hnil
  | cons a r ih => rw [List.reverse_cons]; exact hsnoc _ _ ih

/-- the exact description together with the freshness invariant that carries the induction -/
theorem lru_exact_inv (s : St) (hnd : s.lru.Nodup) (hle : ∀ c ∈ s.lru, c ≤ s.msgNum)
    (hlen : s.lru.length ≤ s.cap) (hc : 0 < s.cap) : ∀ ops : List Op,
    (ops.foldl step s).lru = (dedup (touches s ops ++ s.lru)).take s.cap ∧
    ∀ c ∈ touches s ops ++ s.lru, c ≤ (ops.foldl step s).msgNum := by
  apply snoc_induction
  · simp only [touches, List.nil_append, List.foldl_nil]
    exact ⟨by rw [dedup_of_nodup _ hnd, List.take_of_length_le hlen], hle⟩
  · intro ops op ih
    have hcap := foldl_cap ops s
    rw [List.foldl_append, List.foldl_cons, List.foldl_nil, touches_snoc, List.append_assoc]
    have := step_exact (ops.foldl step s) (touches s ops ++ s.lru) (by rw [hcap]; exact hc)
      (by rw [hcap]; exact ih.1) ih.2 op
    rw [hcap] at this
    exact this

/-- (1) EXACT retention, general start state: after any history (lookups included) the LRU is the first `cap`
    entries of the de-duplicated touch trace (followed by the initial content) -/
theorem lru_exact_from (ops : List Op) (s : St) (hnd : s.lru.Nodup) (hle : ∀ c ∈ s.lru, c ≤ s.msgNum)
    (hlen : s.lru.length ≤ s.cap) (hc : 0 < s.cap) :
    (ops.foldl step s).lru = (dedup (touches s ops ++ s.lru)).take s.cap :=
  (lru_exact_inv s hnd hle hlen hc ops).1

/-- the invariants used by `lru_exact_from` are preserved by every history -/
theorem lru_inv_preserved (ops : List Op) (s : St) (hnd : s.lru.Nodup) (hle : ∀ c ∈ s.lru, c ≤ s.msgNum)
    (hlen : s.lru.length ≤ s.cap) (hc : 0 < s.cap) :
    (ops.foldl step s).lru.Nodup ∧ (∀ c ∈ (ops.foldl step s).lru, c ≤ (ops.foldl step s).msgNum) ∧
    (ops.foldl step s).lru.length ≤ (ops.foldl step s).cap ∧ 0 < (ops.foldl step s).cap := by
  obtain ⟨h1, h2⟩ := lru_exact_inv s hnd hle hlen hc ops
  rw [foldl_cap, h1]
  refine ⟨(List.take_sublist _ _).nodup (dedup_nodup _), ?_, ?_, hc⟩
  · intro c hcm
    exact h2 c ((mem_dedup _ c).mp (List.mem_of_mem_take hcm))
  · rw [List.length_take]; exact Nat.min_le_left _ _

/-- (2) EXACT retention from the initial state -/
theorem lru_exact (ops : List Op) : (ops.foldl step {}).lru = (dedup (touches {} ops)).take 100 := by
  have := lru_exact_from ops {} (by simp) (by simp) (by simp) (by decide)
  simpa using this

/-- (3) a counter is retrievable iff it was touched and fewer than 100 distinct counters were touched after its
    most recent touch -/
theorem retrievable_iff (ops : List Op) (c : Nat) :
    (get (ops.foldl step {}) c).2 = true ↔ c ∈ (dedup (touches {} ops)).take 100 := by
  rw [get_snd, lru_exact]; simp

/-! ### the partial last-100 clause in histories WITH lookups -/

theorem notified_cons (s : St) (op : Op) (ops : List Op) :
    notified s (op :: ops) = notified (step s op) ops ++ notifOf s op := by
  cases op <;> rfl

theorem touches_length (ops : List Op) : ∀ s : St,
    (touches s ops).length = (notified s ops).length + hits s ops := by
  induction ops with
  | nil => intro s; rfl
  | cons op ops ih =>
    intro s
    rw [notified_cons]
    simp only [touches, hits, List.length_append, ih]
    cases op with
    | get c => by_cases hit : c ∈ s.lru <;> simp [touchOf, hitOf, notifOf, hit] <;> omega
    | notify => simp [touchOf, hitOf, notifOf]; omega
    | _ => simp [touchOf, hitOf, notifOf]

/-- a notification among the most recent `K - hits` notifications is among the most recent `K` touches -/
theorem mem_take_touches (c : Nat) (ops : List Op) : ∀ (s : St) (K : Nat),
    c ∈ (notified s ops).take (K - hits s ops) → c ∈ (touches s ops).take K := by
  induction ops with
  | nil => intro s K h; simp [notified] at h
  | cons op ops ih =>
    intro s K h
    rw [notified_cons] at h
    simp only [touches, hits] at h ⊢
    rw [List.take_append] at h ⊢
    rw [List.mem_append] at h ⊢
    rcases h with h | h
    · left
      exact ih _ K (mem_take_mono _ _ _ _ (by omega) h)
    · cases op with
      | notify =>
        right
        simp only [notifOf, touchOf, hitOf] at h ⊢
        have hlen := touches_length ops (step s .notify)
        have hpos : 0 < K - (hits (step s .notify) ops + 0) - (notified (step s .notify) ops).length := by
          cases hk : K - (hits (step s .notify) ops + 0) - (notified (step s .notify) ops).length with
          | zero => rw [hk] at h; simp at h
          | succ n => omega
        have hc : c = s.msgNum + 1 := by
          have := List.mem_of_mem_take h
          simpa using this
        obtain ⟨n, hn⟩ : ∃ n, K - (touches (step s .notify) ops).length = n + 1 :=
          ⟨K - (touches (step s .notify) ops).length - 1, by omega⟩
        rw [hn, hc]; simp
      | request _ => simp [notifOf] at h
      | response _ => simp [notifOf] at h
      | other => simp [notifOf] at h
      | get _ => simp [notifOf] at h

/-- (4), general start state: with `g` lookup hits in the history, each of the most recent `cap - g`
    notifications is still retrievable -/
theorem last_partial_wide_from (ops : List Op) (s : St) (hnd : s.lru.Nodup) (hle : ∀ c ∈ s.lru, c ≤ s.msgNum)
    (hlen : s.lru.length ≤ s.cap) (hc : 0 < s.cap) (c : Nat)
    (h : c ∈ (notified s ops).take (s.cap - hits s ops)) : (get (ops.foldl step s) c).2 = true := by
  rw [get_snd, lru_exact_from ops s hnd hle hlen hc]
  simp only [List.contains_iff_mem]
  apply mem_take_dedup
  rw [List.take_append, List.mem_append]
  exact Or.inl (mem_take_touches c ops s s.cap h)

/-- (4) with `g` lookup hits in the history, each of the most recent `100 - g` notifications is retrievable -/
theorem last100_partial_wide (ops : List Op) (c : Nat)
    (h : c ∈ (notified {} ops).take (100 - hits {} ops)) : (get (ops.foldl step {}) c).2 = true :=
  last_partial_wide_from ops {} (by simp) (by simp) (by simp) (by decide) c h

/-! ### non-vacuity -/

/-- 100 notifications, a lookup of the oldest, one more notification -/
def exHist : List Op := List.replicate 100 Op.notify ++ [Op.get 1, Op.notify]

example : hits {} exHist = 1 := by decide +kernel
example : (notified {} exHist).take (100 - hits {} exHist) = (List.range 99).map (101 - ·) := by decide +kernel
example : ∀ c ∈ (notified {} exHist).take 99, (get (exHist.foldl step {}) c).2 = true := by decide +kernel
/-- the bound `100 - g` is tight: counter 2 is the 100th most recent notification and is gone -/
example : (notified {} exHist)[99]? = some 2 ∧ (get (exHist.foldl step {}) 2).2 = false := by decide +kernel
/-- the promoted counter 1 is retrievable although it is the OLDEST notification (101st most recent) -/
example : (get (exHist.foldl step {}) 1).2 = true ∧ (notified {} exHist)[100]? = some 1 := by decide +kernel
/-- (3) on the example: the de-duplicated touch trace starts 101, 1, 100, 99, … and cuts off before 2 -/
example : (dedup (touches {} exHist)).take 4 = [101, 1, 100, 99] ∧
    1 ∈ (dedup (touches {} exHist)).take 100 ∧ 2 ∉ (dedup (touches {} exHist)).take 100 ∧
    (dedup (touches {} exHist)).length = 101 := by decide +kernel
/-- a miss touches nothing -/
example : touches {} [Op.notify, Op.get 7, Op.notify, Op.get 1, Op.get 1] = [1, 1, 2, 1] ∧
    dedup (touches {} [Op.notify, Op.get 7, Op.notify, Op.get 1, Op.get 1]) = [1, 2] ∧
    hits {} [Op.notify, Op.get 7, Op.notify, Op.get 1, Op.get 1] = 2 := by decide

end Spine.Snd
