/-! Prototype: ranked lock acquisition excludes deadlock (abstract theorem for C17) -/
namespace Spine.Lock

structure Thr where
  held : List Nat
  waiting : Option Nat

/-- every pending acquisition asks for a lock of strictly higher rank than every lock already held -/
def Disciplined (rank : Nat → Nat) (thrs : List Thr) : Prop :=
  ∀ t ∈ thrs, ∀ m, t.waiting = some m → ∀ h ∈ t.held, rank h < rank m

/-- a non-empty set of threads each waiting for a lock held by a member of the set -/
def Deadlocked (thrs : List Thr) : Prop :=
  ∃ D : List Thr, D ≠ [] ∧ (∀ t ∈ D, t ∈ thrs) ∧
    ∀ t ∈ D, ∃ m, t.waiting = some m ∧ ∃ t' ∈ D, m ∈ t'.held

theorem exists_max {α} (f : α → Nat) : ∀ (l : List α), l ≠ [] → ∃ x ∈ l, ∀ y ∈ l, f y ≤ f x
  | [], h => absurd rfl h
  | [a], _ => ⟨a, List.mem_singleton.mpr rfl, by intro y hy; simp at hy; subst hy; exact Nat.le_refl _⟩
  | a :: b :: l, _ => by
    obtain ⟨x, hx, hmax⟩ := exists_max f (b :: l) (by simp)
    by_cases h : f x ≤ f a
    · refine ⟨a, List.mem_cons_self, ?_⟩
      intro y hy
      rcases List.mem_cons.mp hy with rfl | hy
      · exact Nat.le_refl _
      · exact Nat.le_trans (hmax y hy) h
    · refine ⟨x, List.mem_cons_of_mem _ hx, ?_⟩
      intro y hy
      rcases List.mem_cons.mp hy with rfl | hy
      · omega
      · exact hmax y hy

theorem ranked_no_deadlock (rank : Nat → Nat) (thrs : List Thr)
    (hd : Disciplined rank thrs) : ¬ Deadlocked thrs := by
  rintro ⟨D, hne, hsub, hwait⟩
  let f : Thr → Nat := fun t => match t.waiting with | some m => rank m | none => 0
  obtain ⟨t, ht, hmax⟩ := exists_max f D hne
  obtain ⟨m, hm, t', ht', hheld⟩ := hwait t ht
  obtain ⟨m', hm', _⟩ := hwait t' ht'
  have h1 : rank m < rank m' := hd t' (hsub t' ht') m' hm' m hheld
  have h2 : f t' ≤ f t := hmax t' ht'
  simp only [f, hm, hm'] at h2
  omega

end Spine.Lock
