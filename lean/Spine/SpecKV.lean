import Spine.Update
/-!
# `Spec.KV` — the SPEC of C02: function data as a finite map from identifier to item

The statement of C02, written down once, without looking at how `model/update.go` works:
data is a map `Key → Option Item`; an update is applied by overlay / restrict / erase on that map.
Only the vocabulary of the abstraction is shared with the engine model (`Item`, `Shape` — which fields are
identifiers, which item field a selector / elements field names — and `Filter`, the pair of optional
selector and elements of a filter).  Where the statement leaves room the weaker reading is taken
(DESIGN §8 C02 **Spec**):

* partial update whose items carry identifiers: per identifier, the update's item is laid over the stored
  item (fields it does not mention are kept), unknown identifiers are added, unmentioned items are kept;
* identifier-less partial update: its single item is laid over every stored item;
* partial update with a selector: laid over the matching item (decided only when at most one item matches);
  items that do not match are unchanged;
* delete + selector: every matching item is removed; delete + elements: the named fields are cleared in every
  (matching) item; a delete filter combined with a partial update: delete first.

`applyChecked` is the executable form used by the `kv` op of `Drivers/Upd.lean`; the Go monitor
(`go/comp/update_test.go`, `specKV`) is an independent twin of it and both are compared on every case.
-/
namespace Spine.SpecKV
open Spine

abbrev Key := List Val
abbrev Map := Key → Option Item

/-- the identifier of an item: the values of its key fields, in declaration order -/
def keyOf (sh : Shape) (it : Item) : Key := sh.keys.map fun k => (it.get k.1).getD 0

/-- every key field is present -/
def complete (sh : Shape) (it : Item) : Bool := sh.keys.all fun k => (it.get k.1).isSome

/-- no key field is present -/
def keyless (sh : Shape) (it : Item) : Bool := sh.keys.all fun k => (it.get k.1).isNone

def hasKey (sh : Shape) (k : Key) (it : Item) : Bool := keyOf sh it == k

/-- abstraction: the list as a map (first item with that identifier; unique under `WF`) -/
def abs (sh : Shape) (l : List Item) : Map := fun k => l.find? (hasKey sh k)

/-- field-wise overlay: fields present in `u` win, the others are kept from `old` -/
def overlayField (u old : Item) (i : Nat) : Option Val :=
  match u.get i with
  | some v => some v
  | none => old.get i

def overlay (u old : Item) : Item := (List.range old.length).map (overlayField u old)

/-- does selector field `j` (value `v`) agree with the item? -/
def selFieldOK (sh : Shape) (it : Item) (j : Nat) (v : Option Val) : Bool :=
  match v with
  | none => true
  | some v => match (sh.selMap[j]?).join with
    | none => true
    | some i => it.get i == some v

def selMatchesFrom (sh : Shape) (it : Item) : Nat → List (Option Val) → Bool
  | _, [] => true
  | j, v :: rest => selFieldOK sh it j v && selMatchesFrom sh it (j + 1) rest

/-- the item matches the selector: every field the selector names has that value in the item -/
def selMatches (sh : Shape) (sel it : Item) : Bool := selMatchesFrom sh it 0 sel

/-- is item field `i` named by the elements value? -/
def named (sh : Shape) (el : Item) (i : Nat) : Bool :=
  (List.range el.length).any fun j => (el.get j).isSome && (sh.elMap[j]?).join == some i

def clearField (sh : Shape) (el it : Item) (i : Nat) : Option Val := if named sh el i then none else it.get i

/-- the item with the named fields cleared -/
def clear (sh : Shape) (el it : Item) : Item := (List.range it.length).map (clearField sh el it)

/-! ### the rules on maps -/

def mergeVal (u old : Option Item) : Option Item :=
  match u, old with
  | some b, some a => some (overlay b a)
  | some b, none => some b
  | none, x => x

/-- partial update with identifiers -/
def applyPartial (m u : Map) : Map := fun k => mergeVal (u k) (m k)

/-- identifier-less partial update -/
def applyAll (m : Map) (u0 : Item) : Map := fun k => (m k).map (overlay u0)

def selUpd (sh : Shape) (sel u0 it : Item) : Item := if selMatches sh sel it then overlay u0 it else it

/-- partial update with a selector -/
def applySel (sh : Shape) (m : Map) (sel u0 : Item) : Map := fun k => (m k).map (selUpd sh sel u0)

def keepUnless (sh : Shape) (sel it : Item) : Bool := !selMatches sh sel it

def clearIf (sh : Shape) (sel el it : Item) : Item := if selMatches sh sel it then clear sh el it else it

/-- delete filter -/
def applyDelete (sh : Shape) (m : Map) (f : Filter) : Map :=
  match f.sel, f.el with
  | some s, none => fun k => (m k).filter (keepUnless sh s)
  | none, some e => fun k => (m k).map (clear sh e)
  | some s, some e => fun k => (m k).map (clearIf sh s e)
  | none, none => m

/-- the partial part of an update (after the delete part) -/
def applyData (sh : Shape) (m : Map) (items : List Item) (fp : Option Filter) : Map :=
  match fp.bind (·.sel), items with
  | some s, u0 :: _ => applySel sh m s u0
  | some _, [] => m                      -- excluded by `wfUpdate` (the code panics: C05)
  | none, [] => m
  | none, u0 :: _ => if keyless sh u0 then applyAll m u0 else applyPartial m (abs sh items)

/-- one restricted-exchange update: delete first, then the data -/
def apply (sh : Shape) (m : Map) (items : List Item) (fp fd : Option Filter) : Map :=
  applyData sh (match fd with | some f => applyDelete sh m f | none => m) items fp

/-! ### well-formedness (the region in which the SPEC decides the result) -/

def wfItem (sh : Shape) (it : Item) : Bool := it.length == sh.n && complete sh it

def nodupKeys (sh : Shape) : List Item → Bool
  | [] => true
  | x :: xs => !(xs.any (hasKey sh (keyOf sh x))) && nodupKeys sh xs

/-- stored data: complete, pairwise distinct identifiers -/
def wfData (sh : Shape) (l : List Item) : Bool := l.all (wfItem sh) && nodupKeys sh l

/-- the item carries every field the selector names (otherwise `SelectorMatch` panics: C05) -/
def selFieldDefined (sh : Shape) (it : Item) (j : Nat) (v : Option Val) : Bool :=
  match v, (sh.selMap[j]?).join with
  | some _, some i => (it.get i).isSome
  | _, _ => true

def selDefinedFrom (sh : Shape) (it : Item) : Nat → List (Option Val) → Bool
  | _, [] => true
  | j, v :: rest => selFieldDefined sh it j v && selDefinedFrom sh it (j + 1) rest

def selDefined (sh : Shape) (sel it : Item) : Bool := selDefinedFrom sh it 0 sel

/-- the elements value names no key field, and the elements struct mirrors the item struct -/
def elOK (sh : Shape) (el : Item) : Bool :=
  sh.elN == sh.n && sh.keys.all fun k => !named sh el k.1

def wfDelete (sh : Shape) (l : List Item) (f : Filter) : Bool :=
  (match f.sel with | some s => l.all (selDefined sh s) | none => true) &&
  (match f.el with | some e => elOK sh e | none => true)

/-- `u0` does not re-key the item it is laid over -/
def sameKeys (sh : Shape) (u0 it : Item) : Bool :=
  sh.keys.all fun k => match u0.get k.1 with
    | none => true
    | some v => it.get k.1 == some v

def wfItems (sh : Shape) (items : List Item) : Bool :=
  items.all (fun it => it.length == sh.n) &&
  match items with
  | [] => true
  | [u0] => keyless sh u0 || complete sh u0
  | _ => items.all (complete sh) && nodupKeys sh items

/-- the stored data after the delete part, in stored order (`applyDelete` on lists) -/
def delList (sh : Shape) (old : List Item) : Option Filter → List Item
  | none => old
  | some f => match f.sel, f.el with
    | some s, none => old.filter (keepUnless sh s)
    | none, some e => old.map (clear sh e)
    | some s, some e => old.map (clearIf sh s e)
    | none, none => old

/-- the delete filter carries a selector or elements and is well-defined on the stored data -/
def fdOK (sh : Shape) (old : List Item) : Option Filter → Bool
  | none => true
  | some f => wfDelete sh old f && !(f.sel.isNone && f.el.isNone)

/-- the partial filter, if any, carries a selector and no elements; the selector is defined on every item
    of the data it is applied to (`cur`), matches at most one, and the update does not re-key that item -/
def fpOK (sh : Shape) (cur items : List Item) : Option Filter → Bool
  | none => true
  | some f => f.el.isNone && match f.sel, items with
    | none, _ => false
    | some _, [] => false
    | some s, u0 :: _ =>
      cur.all (selDefined sh s) && decide ((cur.filter (selMatches sh s)).length ≤ 1) &&
      (cur.filter (selMatches sh s)).all (sameKeys sh u0)

def fpReason (sh : Shape) (cur items : List Item) (f : Filter) : String :=
  if f.el.isSome then "partial-filter-with-elements" else
  match f.sel, items with
  | none, _ => "filter-without-selector-and-elements"
  | some _, [] => "selector-without-data"
  | some s, _ :: _ =>
    if !cur.all (selDefined sh s) then "selector-undefined"
    else if (cur.filter (selMatches sh s)).length > 1 then "selector-matches-several"
    else "selector-update-rekeys"

/-- reason why the SPEC does not decide the input, or `none` -/
def notDecided (sh : Shape) (old items : List Item) (fp fd : Option Filter) : Option String :=
  if !wfData sh old then some "stored-data-not-well-formed" else
  if sh.keys.isEmpty then some "type-without-identifiers" else
  if !wfItems sh items then some "update-items-not-well-formed" else
  if !fdOK sh old fd then some "delete-filter-undefined" else
  if !fpOK sh (delList sh old fd) items fp then
    some (match fp with | some f => fpReason sh (delList sh old fd) items f | none => "")
  else none

/-- insertion by identifier (lexicographic on the key values), only to print the map in a canonical order -/
def keyLt : Key → Key → Bool
  | x :: xs, y :: ys => if x != y then x < y else keyLt xs ys
  | _, _ => false

def insertByKey (sh : Shape) (x : Item) : List Item → List Item
  | [] => [x]
  | y :: ys => if keyLt (keyOf sh x) (keyOf sh y) then x :: y :: ys else y :: insertByKey sh x ys

def dedupKeys : List Key → List Key
  | [] => []
  | k :: ks => if ks.contains k then dedupKeys ks else k :: dedupKeys ks

/-- the map `apply …` tabulated over every identifier that occurs in the stored data or in the update -/
def tabulate (sh : Shape) (m : Map) (cands : List Key) : List Item :=
  ((dedupKeys cands).filterMap m).foldr (insertByKey sh) []

def applyChecked (sh : Shape) (old items : List Item) (fp fd : Option Filter) : Except String (List Item) :=
  match notDecided sh old items fp fd with
  | some why => .error why
  | none => .ok (tabulate sh (apply sh (abs sh old) items fp fd) ((old ++ items).map (keyOf sh)))

end Spine.SpecKV
