import Spine.EventsOrder
/-! C15, history-level consequences of the two invariants of the bus model: core handlers are served as soon as a
    publication has been handled; a handler that unsubscribed is in no later snapshot. -/
namespace Spine.Bus

theorem inv_run (evs : List Ev) : Inv (run evs) := by
  unfold run
  suffices ∀ s, Inv s → Inv (evs.foldl step s) from
    this {} ⟨by simp, by simp, by intro p h; simp [waiting, owed, findPub]⟩
  induction evs with
  | nil => intro s hs; exact hs
  | cons e es ih => intro s hs; exact ih _ (step_inv s e hs)

theorem oinv_run (evs : List Ev) : OInv (run evs) := by
  unfold run
  suffices ∀ s, OInv s → OInv (evs.foldl step s) from this {} ⟨by simp, by simp, by simp⟩
  induction evs with
  | nil => intro s h; exact h
  | cons e es ih => intro s h; exact ih _ (ostep s e h)

theorem run_append (pre post : List Ev) : run (pre ++ post) = post.foldl step (run pre) := by
  simp [run, List.foldl_append]

/-- once a publication has been handled (phase 1) or has returned (phase 2), every core handler of its snapshot has
    been served exactly once -/
theorem core_done_when_handled (evs : List Ev) (p : Nat) (q : Pub) (hq : findPub (run evs) p = some q)
    (hph : q.phase ≠ 0) (h : H) (hh : h ∈ q.snap) (hcore : h.1 = 0) :
    (run evs).delivered.count (p, h) = 1 := by
  have hi := inv_run evs
  have ho := oinv_run evs
  have hc := hi.cnt p h
  have hpend : (run evs).pending.count (p, h) = 0 := by
    apply List.count_eq_zero.mpr
    intro hm
    exact (ho.pen _ hm).1 hcore
  simp only [waiting, owed, hq, hph, false_and, if_false, hh, if_true] at hc
  omega

/-- the handler list does not gain `h` by any event other than `subscribe h` -/
theorem not_mem_handlers_step (s : St) (e : Ev) (h : H) (hn : h ∉ s.handlers) (hne : e ≠ .subscribe h) :
    h ∉ (step s e).handlers := by
  cases e with
  | subscribe x =>
    simp only [step]; split
    · exact hn
    · intro hm
      rcases List.mem_append.mp hm with hm | hm
      · exact hn hm
      · simp only [List.mem_singleton] at hm; subst hm; exact hne rfl
  | unsubscribe x => simp only [step]; intro hm; exact hn (List.mem_filter.mp hm).1
  | snapshot p => simp only [step]; split <;> exact hn
  | handle p =>
    simp only [step]; split
    · split <;> exact hn
    · exact hn
  | ret p =>
    simp only [step]; split
    · split <;> exact hn
    · exact hn
  | appRun p x => simp only [step]; split <;> exact hn

theorem not_mem_handlers (mid : List Ev) (h : H) : ∀ s : St, h ∉ s.handlers → Ev.subscribe h ∉ mid →
    h ∉ (mid.foldl step s).handlers := by
  induction mid with
  | nil => intro s hn _; exact hn
  | cons e es ih =>
    intro s hn hno
    refine ih _ (not_mem_handlers_step s e h hn ?_) (fun hm => hno (List.mem_cons_of_mem _ hm))
    intro he; exact hno (by simp [he])

/-- a publication's snapshot never changes -/
theorem snap_step (s : St) (e : Ev) (p : Nat) (q : Pub) (hq : findPub s p = some q) :
    ∃ q', findPub (step s e) p = some q' ∧ q'.snap = q.snap := by
  have sp : ∀ p' ph, ∃ q', (setPhase s p' ph).find? (·.id = p) = some q' ∧ q'.snap = q.snap := by
    intro p' ph
    rw [findPub_setPhase]
    unfold findPub at hq
    rw [hq]
    refine ⟨_, rfl, ?_⟩
    dsimp only
    split <;> rfl
  cases e with
  | subscribe x => simp only [step]; split <;> exact ⟨q, hq, rfl⟩
  | unsubscribe x => exact ⟨q, hq, rfl⟩
  | appRun p' x => simp only [step]; split <;> exact ⟨q, hq, rfl⟩
  | snapshot p' =>
    simp only [step]; split
    · exact ⟨q, hq, rfl⟩
    · rename_i hnone
      have hnone' : findPub s p' = none := by
        cases hf : findPub s p' with
        | none => rfl
        | some x => rw [hf] at hnone; simp at hnone
      have := findPub_append_new s ⟨p', s.handlers, 0⟩ p hnone'
      refine ⟨q, ?_, rfl⟩
      simp only [findPub] at this ⊢
      rw [this]
      by_cases hpp : p = p'
      · subst hpp; rw [hq] at hnone'; cases hnone'
      · simp only [hpp, if_false]; exact hq
  | handle p' =>
    simp only [step]; split
    · split
      · exact sp p' 1
      · exact ⟨q, hq, rfl⟩
    · exact ⟨q, hq, rfl⟩
  | ret p' =>
    simp only [step]; split
    · split
      · exact sp p' 2
      · exact ⟨q, hq, rfl⟩
    · exact ⟨q, hq, rfl⟩

theorem snap_steps (post : List Ev) (p : Nat) : ∀ (s : St) (q : Pub), findPub s p = some q →
    ∃ q', findPub (post.foldl step s) p = some q' ∧ q'.snap = q.snap := by
  induction post with
  | nil => intro s q hq; exact ⟨q, hq, rfl⟩
  | cons e es ih =>
    intro s q hq
    obtain ⟨q1, hq1, hs1⟩ := snap_step s e p q hq
    obtain ⟨q2, hq2, hs2⟩ := ih _ q1 hq1
    exact ⟨q2, hq2, hs2.trans hs1⟩

/-- a publication whose snapshot is taken while `h` is not subscribed never delivers to `h` -/
theorem not_subscribed_not_delivered (pre post : List Ev) (p : Nat) (h : H)
    (hfresh : findPub (run pre) p = none) (hn : h ∉ (run pre).handlers) :
    (run (pre ++ Ev.snapshot p :: post)).delivered.count (p, h) = 0 := by
  have hsnap : findPub (step (run pre) (.snapshot p)) p = some ⟨p, (run pre).handlers, 0⟩ := by
    have := findPub_append_new (run pre) ⟨p, (run pre).handlers, 0⟩ p hfresh
    have hst : step (run pre) (.snapshot p) = { run pre with pubs := (run pre).pubs ++ [⟨p, (run pre).handlers, 0⟩] } := by
      simp only [step]
      rw [hfresh]
      simp
    rw [hst]
    show ((run pre).pubs ++ [(⟨p, (run pre).handlers, 0⟩ : Pub)]).find? (fun x : Pub => decide (x.id = p)) = _
    rw [this]; simp
  rw [run_append, List.foldl_cons]
  obtain ⟨q', hq', hs'⟩ := snap_steps post p _ _ hsnap
  have hi : Inv (post.foldl step (step (run pre) (.snapshot p))) := by
    have := inv_run (pre ++ Ev.snapshot p :: post)
    rwa [run_append, List.foldl_cons] at this
  have hc := hi.cnt p h
  have hnot : h ∉ q'.snap := by rw [hs']; exact hn
  simp only [owed, hq', hnot, if_false] at hc
  omega

end Spine.Bus
