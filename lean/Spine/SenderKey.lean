import Spine.Sender
import Spine.SenderSpec
/-! C13 — WHAT "identical request" means: the request identity as a structured key.

`Spine.Snd.request` takes an abstract hash `h : Nat`. This file puts the step in front of it into the model: a request
is identified by its destination address (device, entity path, feature) and its command LIST (every command, in
order, and their number) — `Key` — and `Sender.hashForMessage` is a function `Key → Nat`. The keyed model
`requestK f` is `Snd.request` after `f`; the SPEC monitor at key level `SpecK` judges withholding by KEY equality
(it never sees a hash). `Key.hash` is a concrete injective encoding (the driver `drv_snd` uses it for the op `reqk`,
so the Go harness sends the structured identity, not a pre-collapsed id); `SenderKeyThm.lean` proves that the model
passes `SpecK` on every history iff (for the "if": whenever) `f` is injective, and that any `f` which identifies two
different keys — the first command only, a prefix, the destination without its feature … — is refuted by the
two-request history of those keys. Core Lean only (imported by the driver). -/
namespace Spine.SndK
open Spine.Snd

/-- destination feature address; `0` encodes an absent device / feature, otherwise id + 1 -/
structure Dest where
  device : Nat
  entity : List Nat
  feature : Nat
  deriving DecidableEq, Repr

/-- the identity of a request: destination and the whole command list -/
structure Key where
  dest : Dest
  cmds : List Nat
  deriving DecidableEq, Repr

/-- a pairing `ℕ × ℕ → ℕ⁺` (bijective; only injectivity is used) -/
def pair (a b : Nat) : Nat := 2 ^ a * (2 * b + 1)

/-- lists of numbers as numbers: `[] ↦ 0`, `a :: l ↦ pair a (encList l) > 0` -/
def encList : List Nat → Nat
  | [] => 0
  | a :: l => pair a (encList l)

/-- the key flattened: device, feature, length of the entity path, the entity path, the commands -/
def Key.flat (k : Key) : List Nat :=
  k.dest.device :: k.dest.feature :: k.dest.entity.length :: (k.dest.entity ++ k.cmds)

/-- the model's `hashForMessage`: an injective function of the WHOLE key (A-hash: SHA-256 of an injective rendering) -/
def Key.hash (k : Key) : Nat := encList k.flat

/-- which components of the key a hash function looks at (the regenerated facts `Spine.Generated.SenderHash`) -/
structure Coverage where
  device : Bool
  entity : Bool
  feature : Bool
  allCmds : Bool   -- the entire command list; `false`: only its first element
  deriving DecidableEq, Repr

def Coverage.full : Coverage := ⟨true, true, true, true⟩

/-- the part of a key a hash with the given coverage can see -/
def Key.proj (cov : Coverage) (k : Key) : Key :=
  { dest := { device := if cov.device then k.dest.device else 0,
              entity := if cov.entity then k.dest.entity else [],
              feature := if cov.feature then k.dest.feature else 0 },
    cmds := if cov.allCmds then k.cmds else k.cmds.take 1 }

/-- the hash of a tree whose `hashForMessage` has the given coverage -/
def hashWith (cov : Coverage) (k : Key) : Nat := (k.proj cov).hash

inductive OpK
  | request (k : Key) | response (ref : Nat) | other | notify | get (c : Nat)

def OpK.lower (f : Key → Nat) : OpK → Op
  | .request k => .request (f k)
  | .response r => .response r
  | .other => .other
  | .notify => .notify
  | .get c => .get c

/-- `Request` at key level: hash, then the cache logic of `Snd.request` -/
def requestK (f : Key → Nat) (s : St) (k : Key) : St × Nat × Bool := request s (f k)

def stepK (f : Key → Nat) (s : St) (op : OpK) : St := step s (op.lower f)

end Spine.SndK

namespace Spine.SndK.SpecK
/-- SPEC state at key level: (key, counter) of written, unanswered requests -/
abbrev U := List (Key × Nat)

inductive Obs
  | req (k : Key) (c : Nat) (written : Bool)
  | resp (ref : Nat)
  | other
  deriving DecidableEq, Repr

/-- the monitor of `Spine.Snd.Spec`, with request identity = key equality -/
def step (u : U) : Obs → Option U
  | .req k c true => some ((k, c) :: u.filter (·.1 ≠ k))
  | .req k c false => if (k, c) ∈ u then some u else none
  | .resp r => some (u.filter (·.2 ≠ r))
  | .other => some u

def run : U → List Obs → Option U
  | u, [] => some u
  | u, o :: os => match step u o with
    | none => none
    | some u' => run u' os

def Obs.lower (f : Key → Nat) : Obs → Spine.Snd.Spec.Obs
  | .req k c w => .req (f k) c w
  | .resp r => .resp r
  | .other => .other

end Spine.SndK.SpecK

namespace Spine.SndK
open Spine.Snd

def observeK (f : Key → Nat) (s : St) : OpK → SpecK.Obs
  | .request k => let r := requestK f s k; .req k r.2.1 r.2.2
  | .response r => .resp r
  | _ => .other

def observationsK (f : Key → Nat) : St → List OpK → List SpecK.Obs
  | _, [] => []
  | s, op :: ops => observeK f s op :: observationsK f (stepK f s op) ops

end Spine.SndK
