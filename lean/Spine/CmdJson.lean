import Spine.Cmd
import Spine.SchemaLookup
/-!
# Model.CmdJson — the commands of `Spine.Cmd` as VALUES of the JSON model, over the regenerated schema (C18)

`Spine.Cmd` describes a `model.CmdType` abstractly: which function, which filters, which pointer fields are
set (`Cmd α`, values opaque). `Spine.Json` describes `encoding/json` on typed values `V` of a schema type
`Ty`. This file connects the two, so that the property's first sentence can be stated END TO END:

* `cmdToV`  — the Go value a `Cmd V` stands for: a `V.strct` with one entry per field of `CmdType` (in the
  order of the regenerated table `cmdFields`), `Function` as `*string`, `Filter` as a slice of
  `FilterType` structs (`filterToV`, one entry per row of `filterFields`, `CmdControl` as
  `*CmdControlType{Delete, Partial}`), every other set field as a non-nil pointer to its value;
* `cmdOfV`  — the abstract reading of such a Go value (what the recognisers `CmdType.Data`,
  `ExtractFilter`, `FilterType.Data` look at);
* `tCmd` / `tFilter` — the `Ty` the two tables PREDICT for `CmdType` / `FilterType`; that they ARE the
  regenerated schema's types is decided by the kernel (`Spine.Props.C18.c18_cmd_schema_is_tables`);
* `wire`    — `cmdOfV ∘ Json.decode t ∘ Json.encode t ∘ cmdToV` with `t` the SCHEMA's `CmdType`;
* `e2e`     — build (`Spine.Cmd.build`), `wire`, recognise (`Spine.Cmd.recognise`).

Theorems: `Spine/CmdJsonThm.lean` (`wire_eq`: every well-formed command survives the wire up to `norm` of
its values), property statements in `Spine/Props/C18E2E.lean`.

Function names travel as JSON strings; `Spine.Cmd` knows them as keys (base-256 numerals):
`keyToString` / `keyOfString` convert, and that they are inverse on every registered function name is
decided over the regenerated table.
-/
namespace Spine.CmdJson
open Spine.Json Spine.Generated Spine.Cmd

def lookupIdx {α : Type} (i : Nat) : List (Nat × α) → Option α
  | [] => none
  | p :: rest => if i = p.1 then some p.2 else lookupIdx i rest

/-- one field of `CmdType` / `FilterType`, the common part of `CmdRow` and `FilterRow` -/
structure Slot where
  idx : Nat
  json : Key
  special : Bool      -- not one of the tagged pointer fields: `Function`, `Filter`, `CmdControl`, `FilterId`,
                      -- and the two untagged `*string` fields at the end of `CmdType` (never set by the API)
  tyKey : Key         -- Go name of the (pointed-to / element) type
deriving Repr, DecidableEq

def cmdSlot (r : CmdRow) : Slot := ⟨r.idx, r.json, r.skipped || !r.isPtr || !r.hasFct, r.ty⟩
def filterSlot (r : FilterRow) : Slot := ⟨r.idx, r.json, r.skipped || !r.isPtr, r.ty⟩
def cmdSlots : List Slot := cmdFields.map cmdSlot
def filterSlots : List Slot := filterFields.map filterSlot

/-- the schema of the Go struct type with the given name -/
def tyOf (k : Key) : Ty := match schemaTy? k with | some t => t | none => .struct []

def keyFilterType : Key := 0x46696c74657254797065              -- "FilterType"
def keyCmdType : Key := 0x436d6454797065                        -- "CmdType"
def keyFunctionType : Key := 0x46756e6374696f6e54797065        -- "FunctionType"

/-- the value of one field: a special field has its own value, a tagged pointer field is non-nil iff set -/
def slotV (sp : Slot → V) (set : List (Nat × V)) (s : Slot) : V :=
  if s.special then sp s else match lookupIdx s.idx set with | some v => .some v | none => .nil

/-- json name, `omitempty`, type of one field -/
def slotSpec (spTy : Slot → Ty) (s : Slot) : Key × Bool × Ty :=
  (s.json, true, if s.special then spTy s else .ptr (tyOf s.tyKey))

/-! ## FilterType -/

def tagV (b : Bool) : V := if b then .some (.strct []) else .nil

/-- `CmdControl *CmdControlType{Delete, Partial *ElementTagType}` -/
def ctlV {α : Type} (f : Filter α) : V := if f.ctl then .some (.strct [tagV f.delete, tagV f.part]) else .nil

def filterSp {α : Type} (f : Filter α) (s : Slot) : V := if s.tyKey == keyCmdControlType then ctlV f else .nil
def filterSpTy (s : Slot) : Ty := if s.tyKey == keyCmdControlType then .ptr (tyOf keyCmdControlType) else .ptr .num

def filterToV (f : Filter V) : V := .strct (filterSlots.map (slotV (filterSp f) f.set))

/-- the type the table `filterFields` predicts for `FilterType` -/
def tFilter : Ty := .struct (filterSlots.map (slotSpec filterSpTy))

/-! ## CmdType -/

def fnV : Option Key → V
  | some k => .some (.str (keyToString k))
  | none => .nil

def filtersV (fs : List (Filter V)) : V := if fs.isEmpty then .nil else .list (fs.map filterToV)

def cmdSp (c : Cmd V) (s : Slot) : V :=
  if s.tyKey == keyFunctionType then fnV c.function else if s.tyKey == keyFilterType then filtersV c.filter else .nil
def cmdSpTy (s : Slot) : Ty :=
  if s.tyKey == keyFunctionType then .ptr .str else if s.tyKey == keyFilterType then .slice tFilter else .ptr .str

def cmdToV (c : Cmd V) : V := .strct (cmdSlots.map (slotV (cmdSp c) c.data))

/-- the type the table `cmdFields` predicts for `CmdType` -/
def tCmd : Ty := .struct (cmdSlots.map (slotSpec cmdSpTy))

/-! ## reading a Go value back -/

def dataOf (p : Slot × V) : Option (Nat × V) :=
  if p.1.special then none else match p.2 with | .some v => some (p.1.idx, v) | _ => none

/-- the set tagged pointer fields, in field order -/
def setOfV (slots : List Slot) (vs : List V) : List (Nat × V) := (slots.zip vs).filterMap dataOf

def isSpecial (k : Key) (s : Slot) : Bool := s.special && s.tyKey == k

/-- the value of the special field whose type has the given name -/
def specialV (slots : List Slot) (vs : List V) (k : Key) : V :=
  match (slots.zip vs).find? (fun p => isSpecial k p.1) with | some p => p.2 | none => .nil

def isSomeV : V → Bool
  | .some _ => true
  | _ => false

def ctlOfV (set : List (Nat × V)) : V → Filter V
  | .some (.strct [d, p]) => ⟨true, isSomeV p, isSomeV d, set⟩
  | _ => ⟨false, false, false, set⟩

def filterOfV : V → Option (Filter V)
  | .strct vs => some (ctlOfV (setOfV filterSlots vs) (specialV filterSlots vs keyCmdControlType))
  | _ => none

def filtersOfV : List V → Option (List (Filter V))
  | [] => some []
  | v :: vs => match filterOfV v, filtersOfV vs with
    | some f, some fs => some (f :: fs)
    | _, _ => none

def fnOfV : V → Option Key
  | .some (.str s) => some (keyOfString s)
  | _ => none

def filterListOfV : V → Option (List (Filter V))
  | .list fs => filtersOfV fs
  | _ => some []

def cmdOfV : V → Option (Cmd V)
  | .strct vs =>
    match filterListOfV (specialV cmdSlots vs keyFilterType) with
    | some fs => some ⟨fnOfV (specialV cmdSlots vs keyFunctionType), fs, setOfV cmdSlots vs⟩
    | none => none
  | _ => none

/-! ## the wire, end to end -/

/-- the SCHEMA's `CmdType` (regenerated, G5) -/
def tCmdSchema : Ty := tyOf keyCmdType

/-- encode the command's Go value with the schema of `CmdType`, decode the JSON, read the value back -/
def wire (c : Cmd V) : Option (Cmd V) :=
  match decode tCmdSchema (encode tCmdSchema (cmdToV c)) with
  | some v => cmdOfV v
  | none => none

/-- build, encode to JSON, decode, recognise — with `Spine.Json` as the wire -/
def e2e (cfg : Cfg) (fn : FnRow) (sh : Shape) (a : Args V) : Except Panic (Option (Recognised V)) :=
  match build cfg fn sh a with
  | .error e => .error e
  | .ok c =>
    match wire c with
    | none => .ok none
    | some c' => recognise c'

/-! ## what the wire does to the values: `norm` with the type of the field they sit in -/

def slotAt (slots : List Slot) (i : Nat) : Option Slot := slots.find? (fun s => s.idx == i)

def normAt (slots : List Slot) (p : Nat × V) : Nat × V :=
  (p.1, match slotAt slots p.1 with | some s => norm (tyOf s.tyKey) p.2 | none => p.2)

def normFilter (f : Filter V) : Filter V := { f with set := f.set.map (normAt filterSlots) }
def normCmd (c : Cmd V) : Cmd V := ⟨c.function, c.filter.map normFilter, c.data.map (normAt cmdSlots)⟩

/-- Go type names of the values a command for `fn` is built from (tokens of `Spine.Cmd.tok`:
    0 `empty`, 1 `data` — the payload type; 2 `sel`, 4 `sel2` — the selectors type; 3 `el` — the elements type) -/
def tokTy (fn : FnRow) (n : Nat) : Key :=
  match n with
  | 0 => fn.payloadKey
  | 1 => fn.payloadKey
  | 3 => (elTy? fn).getD 0
  | _ => (selTy? fn).getD 0

/-- the arguments as the receiver sees them -/
def normArgs (fn : FnRow) (a : Args V) : Args V :=
  ⟨norm (tyOf fn.payloadKey) a.empty, norm (tyOf fn.payloadKey) a.data,
   norm (tyOf ((selTy? fn).getD 0)) a.sel, norm (tyOf ((elTy? fn).getD 0)) a.el,
   norm (tyOf ((selTy? fn).getD 0)) a.sel2⟩

/-- the arguments are values of the types the data model provides for the function -/
def argsTyped (fn : FnRow) (a : Args V) : Bool :=
  typed (tyOf fn.payloadKey) a.empty && typed (tyOf fn.payloadKey) a.data &&
  typed (tyOf ((selTy? fn).getD 0)) a.sel && typed (tyOf ((elTy? fn).getD 0)) a.el &&
  typed (tyOf ((selTy? fn).getD 0)) a.sel2

/-! ## decidable skeleton conditions on a command built from tokens -/

/-- the indices follow the field order and name tagged pointer fields only -/
def subIdx : List Nat → List Slot → Bool
  | [], _ => true
  | _ :: _, [] => false
  | i :: is, s :: ss => if i = s.idx then !s.special && subIdx is ss else subIdx (i :: is) ss

def tokTyped (slots : List Slot) (env : Nat → Key) (p : Nat × Nat) : Bool :=
  match slotAt slots p.1 with | some s => s.tyKey == env p.2 | none => false

def setSkel (slots : List Slot) (env : Nat → Key) (nset : List (Nat × Nat)) : Bool :=
  subIdx (nset.map (·.1)) slots && nset.all (tokTyped slots env)

def filterSkel (env : Nat → Key) (f : Filter Nat) : Bool := f.ctl && setSkel filterSlots env f.set

def fnKeyOk : Option Key → Bool
  | some k => keyOfString (keyToString k) == k
  | none => true

def cmdSkel (env : Nat → Key) (c : Cmd Nat) : Bool :=
  setSkel cmdSlots env c.data && c.filter.all (filterSkel env) && fnKeyOk c.function

/-! ## structural equality of schema types (no `DecidableEq` for the nested inductive `Ty`) -/

mutual
def tyBeq : Ty → Ty → Bool
  | .str, .str => true
  | .num, .num => true
  | .bool, .bool => true
  | .ptr a, .ptr b => tyBeq a b
  | .slice a, .slice b => tyBeq a b
  | .struct fs, .struct gs => fieldsBeq fs gs
  | _, _ => false
def fieldsBeq : List (Key × Bool × Ty) → List (Key × Bool × Ty) → Bool
  | [], [] => true
  | (k, o, t) :: fs, (k', o', t') :: gs => Nat.beq k k' && (o == o') && tyBeq t t' && fieldsBeq fs gs
  | _, _ => false
end

/-- facts about the regenerated tables the theorems of `CmdJsonThm` need; decided by the kernel in
    `Spine.Props.C18.c18_cmd_schema_is_tables` -/
def slotsOk (slots : List Slot) : Bool :=
  namesDistinct (slots.map (·.idx)) && slots.all (fun s => slotAt slots s.idx == some s)

def tablesOk : Bool :=
  slotsOk cmdSlots && slotsOk filterSlots &&
  tyBeq tCmdSchema tCmd && tyBeq (tyOf keyFilterType) tFilter &&
  tyBeq (tyOf keyCmdControlType) (.struct [(keyDelete, true, .ptr (.struct [])), (keyPartial, true, .ptr (.struct []))]) &&
  -- the special fields the readers look for exist
  (cmdSlots.find? (isSpecial keyFunctionType)).isSome && (cmdSlots.find? (isSpecial keyFilterType)).isSome &&
  (filterSlots.find? (isSpecial keyCmdControlType)).isSome

end Spine.CmdJson
