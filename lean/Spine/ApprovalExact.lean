import Spine.ApprovalThm
/-! C12 (repaired member), "every write gets exactly one of these outcomes": the claims on a write's outcome — armed
    timer, timeout in flight, outcomes produced — always number exactly one once the write has arrived. -/
namespace Spine.Appr

def Inv2 (s : St) : Prop := ∀ w, w ∈ s.seen → K s w = 1

theorem step_inv2 (s : St) (ev : Ev) (hnd : ev ≠ .drop) (h : Inv s) (h2 : Inv2 s) : Inv2 (step Cfg.clean s ev) := by
  cases ev with
  | drop => exact absurd rfl hnd
  | arrive w0 =>
    simp only [step]
    split
    · exact h2
    · rename_i hns
      have hns' : w0 ∉ s.seen := by simpa using hns
      intro w hw
      simp only [K, List.count_cons] at ⊢
      by_cases hww : w0 = w
      · subst hww
        have := (h w0).2 hns'
        simp only [K] at this
        simp; omega
      · have hw' : (w0 == w) = false := by simpa using hww
        have hin : w ∈ s.seen := by
          rcases List.mem_cons.mp hw with rfl | hin
          · exact absurd rfl hww
          · exact hin
        have := h2 w hin
        simp only [K] at this
        simp only [hw', Bool.false_eq_true, if_false, Nat.add_zero]
        exact this
  | lookup op w =>
    simp only [step]
    split
    · intro w' hw'; have := h2 w' hw'; simpa [K] using this
    · exact h2
  | commit op approve =>
    simp only [step]
    split
    · exact h2
    · rename_i x w hf
      have fin : ∀ (s' : St), s'.armed = s.armed → s'.fired = s.fired → s'.outcomes = s.outcomes →
          s'.seen = s.seen → Inv2 (finish Cfg.clean s' w approve) := by
        intro s' ha hfi ho hse w' hw'
        have hK : ∀ v, K s' v = K s v := by intro v; simp [K, ha, hfi, ho]
        rw [seen_finish, hse] at hw'
        rw [K_finish s' w approve w' (by rw [hK]; exact (h w).1), hK]
        exact h2 w' hw'
      have same : ∀ (s' : St), s'.armed = s.armed → s'.fired = s.fired → s'.outcomes = s.outcomes →
          s'.seen = s.seen → Inv2 s' := by
        intro s' ha hfi ho hse w' hw'
        have : K s' w' = K s w' := by simp [K, ha, hfi, ho]
        rw [this]; rw [hse] at hw'; exact h2 w' hw'
      split
      · split
        · exact same _ rfl rfl rfl rfl
        · exact fin _ rfl rfl rfl rfl
      · exact fin _ rfl rfl rfl rfl
  | timeoutTake w =>
    simp only [step]
    split
    · rename_i hc
      intro w' hw'
      have h1 := h2 w' hw'
      have hk := (h w).1
      simp only [K, count_filter_ne, List.count_cons] at h1 hk ⊢
      have hp := count_pos_of_contains _ _ hc
      by_cases hw : w' = w
      · subst hw; simp; omega
      · have hwb : (w == w') = false := by simpa using fun h' : w = w' => hw h'.symm
        simp only [hw, if_false, hwb, Bool.false_eq_true, Nat.add_zero]
        exact h1
    · exact h2
  | timeoutSend w =>
    simp only [step]
    split
    · rename_i hc
      intro w' hw'
      have h1 := h2 w' hw'
      have hk := (h w).1
      simp only [K, count_filter_ne, List.map_append, List.map_cons, List.map_nil, List.count_append,
        List.count_cons, List.count_nil] at h1 hk ⊢
      have hp := count_pos_of_contains _ _ hc
      by_cases hw : w' = w
      · subst hw; simp; omega
      · have hwb : (w == w') = false := by simpa using fun h' : w = w' => hw h'.symm
        simp only [hw, if_false, hwb, Bool.false_eq_true, Nat.add_zero]
        exact h1
    · exact h2

theorem run_invs (n : Nat) (evs : List Ev) (hnd : ∀ e ∈ evs, e ≠ .drop) :
    Inv (run Cfg.clean n evs) ∧ Inv2 (run Cfg.clean n evs) := by
  unfold run
  suffices ∀ s, Inv s → Inv2 s → Inv (evs.foldl (step Cfg.clean) s) ∧ Inv2 (evs.foldl (step Cfg.clean) s) from
    this _ (by intro v; simp [K]) (by intro v hv; simp at hv)
  induction evs with
  | nil => intro s h h2; exact ⟨h, h2⟩
  | cons e es ih =>
    intro s h h2
    exact ih (fun e' he' => hnd e' (List.mem_cons_of_mem _ he')) _ (step_inv s e h)
      (step_inv2 s e (hnd e List.mem_cons_self) h h2)

/-- C12 (repaired): under every interleaving, a write that has arrived and whose timer is neither armed nor in
    flight any more has exactly one outcome — and while the timer is armed or in flight it has none yet -/
theorem c12_exactly_one_outcome (n : Nat) (evs : List Ev) (hnd : ∀ e ∈ evs, e ≠ .drop) (w : Nat)
    (hw : w ∈ (run Cfg.clean n evs).seen) :
    ((run Cfg.clean n evs).outcomes.map (·.1)).count w
      = if w ∈ (run Cfg.clean n evs).armed ∨ w ∈ (run Cfg.clean n evs).fired then 0 else 1 := by
  have ⟨h, h2⟩ := run_invs n evs hnd
  have hk := h2 w hw
  simp only [K] at hk
  generalize run Cfg.clean n evs = s at hk ⊢
  by_cases ha : w ∈ s.armed
  · have := List.count_pos_iff.mpr ha
    simp [ha]; omega
  · by_cases hf : w ∈ s.fired
    · have := List.count_pos_iff.mpr hf
      simp [hf]; omega
    · have h1 := List.count_eq_zero.mpr ha
      have h2 := List.count_eq_zero.mpr hf
      simp [ha, hf]; omega

end Spine.Appr
