import Spine.Update
/-!
# The update engine as a family indexed by defect flags (DESIGN §4.7), for C04 / C11

`Spine.Update` transcribes `model/update.go` + `model/collection_operations.go` as written at the pinned
commit and is shared with C02. This file adds the flagged family on top of it without touching it:

* `mergeStrict`   (C04b) as written `Merge` reports failure of a remote write as soon as ANY stored item is
  not writable. Off = the candidate repair of DESIGN §9 / appendix C: failure only for an unwritable item the
  write addresses, and for an item a remote write would have to add.
* `selNilPanics`  (C05 site) as written `SelectorMatch` panics when the selector names a field the item does not
  carry. Off = the candidate repair: such an item does not match.
* `emptySelPanics` (C05 site) as written a partial filter with data and an empty list indexes `newData[0]`.
  Off = the candidate repair: the selector branch is skipped (`len(newData) > 0`).
* `inplaceAltersFlag` (C04, clause 1b) as written the in-place paths of a remote write (`copyToSelectedData`,
  `copyToAllData`, `RemoveElementFromItem` under `deleteFilteredData`) copy resp. clear the `writecheck` field like
  any other. Off = the candidate repair `fixes/c04/01-remote-write-keeps-changeability-flag.patch`: on a remote write the flag the
  item had is put back.

* `deleteStrict` (C04b, delete path) as written `deleteFilteredData` reports failure of a remote delete as soon as
  ANY stored item is not writable. Off = the repair `fixes/c04/02-…`: failure only for an unwritable item the
  filter addresses (no selector: every item; else the items the selector matches); other unwritable items are kept.

`updateListF_asWritten` proves that the member with all flags on IS `Spine.updateList`, so every theorem about
`updateList` is a theorem about the member the driver runs against the unchanged tree.
-/
namespace Spine

structure UCfg where
  mergeStrict : Bool := true
  selNilPanics : Bool := true
  emptySelPanics : Bool := true
  inplaceAltersFlag : Bool := true
  deleteStrict : Bool := true
deriving Repr, DecidableEq, Inhabited

def UCfg.asWritten : UCfg := {}

/-- SelectorMatch with the nil check of the repair (`itemF.Kind() != reflect.Ptr || itemF.IsNil()` ⇒ no match),
    field by field in the order of the code. An entry of `selMap` inside the item (`< n`) is compared; the entry
    `n` (the item field is not a pointer) and any other index the item does not carry is "no match". An entry
    `n + 1 + i` stands for a selector field of a NON-COMPARABLE struct type whose item field is `i` and whose values
    the code compares with `!=`: absent ⇒ no match, present ⇒ the comparison panics. (A tree that compares
    with `reflect.DeepEqual` never gets such an entry: the C02 harness then classifies the field as an ordinary
    compared field. In `selectorMatch`, the code as written, the same entry is out of range and panics always —
    which is what the unrepaired code does for such a field.) -/
def selectorMatchR.go (sh : Shape) (it : Item) : Nat → List (Option Val) → Outcome Bool
  | _, [] => .ok true
  | j, none :: rest => selectorMatchR.go sh it (j + 1) rest
  | j, some v :: rest => match (sh.selMap[j]?).join with
    | none => selectorMatchR.go sh it (j + 1) rest
    | some i =>
      if sh.n < i then
        match it.get (i - sh.n - 1) with
        | none => .ok false
        | some _ => .panic "SelectorMatch:uncomparable"
      else match it.get i with
        | none => .ok false
        | some w => if w != v then .ok false else selectorMatchR.go sh it (j + 1) rest

/-- SelectorMatch of the family: the repaired member answers "no match" where the code as written panics on an
    item that does not carry the selected field -/
def selectorMatchF (c : UCfg) (sh : Shape) (sel it : Item) : Outcome Bool :=
  if c.selNilPanics then selectorMatch sh sel it else selectorMatchR.go sh it 0 sel

/-- put back the flag the item had (`restoreWriteCheck` of the candidate repair) -/
def restoreFlag (sh : Shape) (saved x : Item) : Item :=
  match sh.flag with
  | none => x
  | some f => x.set f (saved.get f)

/-- shall this in-place write keep the flag the item had -/
def keepsFlag (c : UCfg) (remote : Bool) : Bool := remote && !c.inplaceAltersFlag

/-- `CopyNonNilDataFromItemToItem` as the in-place paths of the family use it -/
def copyNonNilF (c : UCfg) (sh : Shape) (remote : Bool) (nw x : Item) : Item :=
  if keepsFlag c remote then restoreFlag sh x (copyNonNil nw x) else copyNonNil nw x

/-- is the stored item `a` addressed by (some item of) the incoming list -/
def addressedBy (sh : Shape) (s2 : List Item) (a : Item) : Bool :=
  (lookupLast sh (hashKey sh a) s2).isSome

/-- the repaired `Merge` (appendix C): `success = false` only for an addressed unwritable item and for an
    incoming item whose identifier is not stored (a remote write cannot add) -/
def mergeFixed (sh : Shape) (remote : Bool) (s1 s2 : List Item) : List Item × Bool :=
  let first := s1.map (mergeItem sh remote s2)
  let blocked := s1.any fun a => addressedBy sh s2 a && !writeAllowed sh a
  let missing := s2.any fun b => !(s1.any fun a => hashKey sh a = hashKey sh b)
  let extra := if remote then [] else s2.filter fun b => !(s1.any fun a => hashKey sh a = hashKey sh b)
  (first ++ extra, !remote || !(blocked || missing))

def mergeF (c : UCfg) (sh : Shape) (remote : Bool) (s1 s2 : List Item) : List Item × Bool :=
  if c.mergeStrict then merge sh remote s1 s2 else mergeFixed sh remote s1 s2

def copyToSelectedF.go (c : UCfg) (sh : Shape) (remote : Bool) (sel nw : Item) : List Item → Outcome (List Item × Bool)
  | [] => .ok ([], true)
  | x :: xs => match selectorMatchF c sh sel x with
    | .panic s => .panic s
    | .ok false => match copyToSelectedF.go c sh remote sel nw xs with
      | .ok (r, b) => .ok (x :: r, b)
      | .panic s => .panic s
    | .ok true =>
      if !writeAllowed sh x && remote then
        match copyToSelectedF.go c sh remote sel nw xs with
        | .ok (r, _) => .ok (x :: r, false)
        | .panic s => .panic s
      else .ok (copyNonNilF c sh remote nw x :: xs, true)

def copyToSelectedF (c : UCfg) (sh : Shape) (remote : Bool) (ex : List Item) (sel nw : Item) :
    Outcome (List Item × Bool) := copyToSelectedF.go c sh remote sel nw ex

def copyToAllF (c : UCfg) (sh : Shape) (remote : Bool) (ex : List Item) (nw : Item) : List Item × Bool :=
  (ex.map fun x => if !writeAllowed sh x && remote then x else copyNonNilF c sh remote nw x,
   !(remote && ex.any fun x => !writeAllowed sh x))

/-- does the delete filter hit the item (no selector: every item) -/
def hitOf (c : UCfg) (sh : Shape) (f : Filter) (x : Item) : Outcome Bool :=
  match f.sel with
  | some sel => selectorMatchF c sh sel x
  | none => .ok true

/-- the item as the delete filter leaves it (elements removed from a hit item) -/
def delItem (c : UCfg) (sh : Shape) (remote : Bool) (f : Filter) (hit : Bool) (x : Item) : Item :=
  match f.el with
  | some el =>
    if hit then (if keepsFlag c remote then restoreFlag sh x (removeElements sh el x) else removeElements sh el x) else x
  | none => x

/-- is the item kept in the result (a selector without elements deletes the hit items) -/
def delKeep (f : Filter) (hit : Bool) : Bool :=
  match f.sel, f.el with
  | _, some _ => true
  | some _, none => !hit
  | none, none => true

def deleteFilteredF.go (c : UCfg) (sh : Shape) (remote : Bool) (f : Filter) :
    List Item → Outcome (List Item × List Item × Bool)
  | [] => .ok ([], [], true)
  | x :: xs =>
    if !writeAllowed sh x && remote then
      if c.deleteStrict then
        match deleteFilteredF.go c sh remote f xs with
        | .panic s => .panic s
        | .ok (ip, out, _) => .ok (x :: ip, out, false)
      else
        match hitOf c sh f x with
        | .panic s => .panic s
        | .ok hit =>
          match deleteFilteredF.go c sh remote f xs with
          | .panic s => .panic s
          | .ok (ip, out, ok) => .ok (x :: ip, x :: out, ok && !hit)
    else
      match hitOf c sh f x with
      | .panic s => .panic s
      | .ok hit =>
        match deleteFilteredF.go c sh remote f xs with
        | .panic s => .panic s
        | .ok (ip, out, ok) =>
          .ok (delItem c sh remote f hit x :: ip, if delKeep f hit then delItem c sh remote f hit x :: out else out, ok)

def deleteFilteredF (c : UCfg) (sh : Shape) (remote : Bool) (ex : List Item) (f : Filter) :
    Outcome (List Item × List Item × Bool) := deleteFilteredF.go c sh remote f ex

/-- the delete phase of `UpdateList`: (content of the caller's array, current list, current aliases the caller's
    array, success so far) -/
def deletePhaseF (c : UCfg) (sh : Shape) (remote : Bool) (ex : List Item) (fd : Option Filter) :
    Outcome (List Item × List Item × Bool × Bool) :=
  match fd with
  | none => .ok (ex, ex, true, true)
  | some f =>
    if f.sel.isNone && f.el.isNone then .ok (ex, ex, true, true) else
    match deleteFilteredF c sh remote ex f with
    | .panic s => .panic s
    | .ok (ip, out, ok) => if ok then .ok (ip, out, false, true) else .ok (ip, ip, true, false)

/-- the part of `UpdateList` after the filters: identifier-less copy to all, or merge + sort -/
def tailF (c : UCfg) (sh : Shape) (remote : Bool) (orig cur : List Item) (aliased ok0 : Bool) (nw : List Item) : Res :=
  match nw with
  | n0 :: _ =>
    if !hasIdentifiers sh n0 then
      let (r, ok1) := copyToAllF c sh remote cur n0
      ⟨if aliased then r else orig, r, ok0 && ok1, !aliased⟩
    else
      let (r, ok1) := mergeF c sh remote cur nw
      ⟨orig, sortData sh r, ok0 && ok1, true⟩
  | [] =>
    let (r, ok1) := mergeF c sh remote cur nw
    ⟨orig, sortData sh r, ok0 && ok1, true⟩

/-- the partial-filter phase -/
def partialPhaseF (c : UCfg) (sh : Shape) (remote : Bool) (orig cur : List Item) (aliased ok0 : Bool)
    (nw : List Item) (fp : Option Filter) : Outcome Res :=
  match fp with
  | some f =>
    match nw with
    | [] => if c.emptySelPanics then .panic "UpdateList:newData[0]" else .ok (tailF c sh remote orig cur aliased ok0 nw)
    | n0 :: _ => match f.sel with
      | none => .ok ⟨orig, cur, ok0, !aliased⟩
      | some sel => match copyToSelectedF c sh remote cur sel n0 with
        | .panic s => .panic s
        | .ok (r, ok1) => .ok ⟨if aliased then r else orig, r, ok0 && ok1, !aliased⟩
  | none => .ok (tailF c sh remote orig cur aliased ok0 nw)

/-- `model.UpdateList` of the family -/
def updateListF (c : UCfg) (sh : Shape) (remote : Bool) (ex nw : List Item) (fp fd : Option Filter) : Outcome Res :=
  match deletePhaseF c sh remote ex fd with
  | .panic s => .panic s
  | .ok (orig, cur, aliased, ok0) => partialPhaseF c sh remote orig cur aliased ok0 nw fp

/-! ### the member with all flags on is the transcription of the code as written -/

theorem selectorMatchF_asWritten (sh : Shape) (sel it : Item) :
    selectorMatchF .asWritten sh sel it = selectorMatch sh sel it := by
  simp [selectorMatchF, UCfg.asWritten]

/-- what the repaired member was before the entry `n + 1 + i` existed: every panic of the code as written
    becomes "no match" -/
def panicIsNoMatch : Outcome Bool → Outcome Bool
  | .panic _ => .ok false
  | .ok b => .ok b

/-- for every shape without an entry beyond `n` (all shapes of the C04 / C11 harnesses, and every C02 shape unless
    the tree compares non-comparable structs with `!=` behind a nil check) the repaired member is exactly
    "panic ⇒ no match" -/
theorem selectorMatchR_go_eq (sh : Shape) (it : Item)
    (h : ∀ (j i : Nat), (sh.selMap[j]?).join = some i → i ≤ sh.n) : ∀ (rest : List (Option Val)) (j : Nat),
    selectorMatchR.go sh it j rest = panicIsNoMatch (selectorMatch.go sh it j rest)
  | [], _ => rfl
  | none :: rest, j => by
    simp only [selectorMatchR.go, selectorMatch.go]
    exact selectorMatchR_go_eq sh it h rest (j + 1)
  | some v :: rest, j => by
    have ih := selectorMatchR_go_eq sh it h rest (j + 1)
    simp only [selectorMatchR.go, selectorMatch.go]
    cases hm : (sh.selMap[j]?).join with
    | none => simpa using ih
    | some i =>
      have hi : ¬ sh.n < i := Nat.not_lt.mpr (h j i hm)
      simp only [hi, if_false]
      cases it.get i with
      | none => rfl
      | some w =>
        by_cases hwv : w = v
        · subst hwv; simpa using ih
        · simp [hwv, panicIsNoMatch]

theorem selectorMatchF_repaired (c : UCfg) (hc : c.selNilPanics = false) (sh : Shape) (sel it : Item)
    (h : ∀ (j i : Nat), (sh.selMap[j]?).join = some i → i ≤ sh.n) :
    selectorMatchF c sh sel it = panicIsNoMatch (selectorMatch sh sel it) := by
  simp only [selectorMatchF, hc, Bool.false_eq_true, if_false]
  exact selectorMatchR_go_eq sh it h sel 0

theorem keepsFlag_asWritten (remote : Bool) : keepsFlag .asWritten remote = false := by
  simp [keepsFlag, UCfg.asWritten]

theorem copyNonNilF_asWritten (sh : Shape) (remote : Bool) (nw x : Item) :
    copyNonNilF .asWritten sh remote nw x = copyNonNil nw x := by
  simp [copyNonNilF, keepsFlag_asWritten]

theorem copyToAllF_asWritten (sh : Shape) (remote : Bool) (ex : List Item) (nw : Item) :
    copyToAllF .asWritten sh remote ex nw = copyToAll sh remote ex nw := by
  simp [copyToAllF, copyToAll, copyNonNilF_asWritten]

theorem copyToSelectedF_go_asWritten (sh : Shape) (remote : Bool) (sel nw : Item) (ex : List Item) :
    copyToSelectedF.go .asWritten sh remote sel nw ex = copyToSelected.go sh remote sel nw ex := by
  induction ex with
  | nil => rfl
  | cons x xs ih =>
    simp only [copyToSelectedF.go, copyToSelected.go, selectorMatchF_asWritten, copyNonNilF_asWritten, ih]
    cases selectorMatch sh sel x with
    | panic s => rfl
    | ok b =>
      cases b
      · cases copyToSelected.go sh remote sel nw xs with
        | panic s => rfl
        | ok t => rfl
      · simp only []
        split
        · cases copyToSelected.go sh remote sel nw xs with
          | panic s => rfl
          | ok t => rfl
        · rfl

theorem deleteFilteredF_go_asWritten (sh : Shape) (remote : Bool) (f : Filter) (ex : List Item) :
    deleteFilteredF.go .asWritten sh remote f ex = deleteFiltered.go sh remote f ex := by
  induction ex with
  | nil => rfl
  | cons x xs ih =>
    have hds : UCfg.asWritten.deleteStrict = true := rfl
    simp only [deleteFilteredF.go, deleteFiltered.go, hitOf, delItem, delKeep, selectorMatchF_asWritten,
      keepsFlag_asWritten, Bool.false_eq_true, if_false, hds, if_true, ih]
    split
    · cases deleteFiltered.go sh remote f xs with
      | panic s => rfl
      | ok t => rfl
    · obtain ⟨fs, fe⟩ := f
      cases fs with
      | none =>
        simp only []
        cases deleteFiltered.go sh remote ⟨none, fe⟩ xs with
        | panic s => rfl
        | ok t => cases fe <;> simp
      | some sel =>
        simp only []
        cases selectorMatch sh sel x with
        | panic s => rfl
        | ok hit =>
          simp only []
          cases deleteFiltered.go sh remote ⟨some sel, fe⟩ xs with
          | panic s => rfl
          | ok t => cases fe <;> cases hit <;> simp

theorem mergeF_asWritten (sh : Shape) (remote : Bool) (s1 s2 : List Item) :
    mergeF .asWritten sh remote s1 s2 = merge sh remote s1 s2 := by
  simp [mergeF, UCfg.asWritten]

theorem updateListF_asWritten (sh : Shape) (remote : Bool) (ex nw : List Item) (fp fd : Option Filter) :
    updateListF .asWritten sh remote ex nw fp fd = updateList sh remote ex nw fp fd := by
  unfold updateListF updateList deletePhaseF partialPhaseF tailF
  simp only [deleteFilteredF, copyToSelectedF, deleteFilteredF_go_asWritten, copyToSelectedF_go_asWritten,
    mergeF_asWritten, copyToAllF_asWritten, deleteFiltered, copyToSelected]
  have hc : UCfg.asWritten.emptySelPanics = true := rfl
  cases fd with
  | none =>
    cases fp with
    | none => cases nw <;> simp <;> (try (split <;> simp_all))
    | some f => cases nw <;> cases hs : f.sel <;> simp [hc, hs] <;> (try (split <;> simp_all))
  | some g =>
    by_cases hg : (g.sel.isNone && g.el.isNone) = true
    · simp only [hg, if_true]
      cases fp with
      | none => cases nw <;> simp <;> (try (split <;> simp_all))
      | some f => cases nw <;> cases hs : f.sel <;> simp [hc, hs] <;> (try (split <;> simp_all))
    · simp only [hg, if_false, Bool.false_eq_true]
      cases deleteFiltered.go sh remote g ex with
      | panic s => rfl
      | ok t =>
        obtain ⟨ip, out, ok⟩ := t
        cases ok <;> (cases fp with
          | none => cases nw <;> simp <;> (try (split <;> simp_all))
          | some f => cases nw <;> cases hs : f.sel <;> simp [hc, hs] <;> (try (split <;> simp_all)))

end Spine
