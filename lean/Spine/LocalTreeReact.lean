import Spine.LocalTree
/-! AddEntity / RemoveEntity as TWO events (C07, round 6): `change` — the entity joins / leaves `DeviceLocal.entities`
    under the device lock — and `announce` — the partial detailed-discovery notification is written to every
    subscriber. The sender writes synchronously: a subscriber may answer the notification with a detailed-discovery
    read that is served INSIDE the write, i.e. between `announce` and the end of the call (or a concurrent reader may
    fall into that window). `step` of `Spine.LocalTree` treats the call as one event; this file says what a read at
    the moment of the announcement meets, as a function of the ORDER of the two events (`Order`, regenerated from
    the source by generator `entitylocal`), and proves that the reply is the current tree — lists an entity announced
    as added, does not list an entity announced as removed, and equals the reply to a read after the call — exactly
    when the change comes first. Core Lean only. -/
namespace Spine.LTree

/-- the order of the two events inside AddEntity and inside RemoveEntity: `true` = the list changes before the
    notification is sent -/
structure Order where
  addChangeFirst : Bool
  removeChangeFirst : Bool
deriving DecidableEq, Repr

/-- the tree a read meets that is issued at the moment operation `o` announces itself -/
def treeAtAnnounce (ord : Order) (s : St) : Op → St
  | .attach k => if ord.addChangeFirst then (step s (.attach k)).1 else s
  | .detach k => if ord.removeChangeFirst then (step s (.detach k)).1 else s
  | o => (step s o).1

/-- the reply to the read peer p issues from inside the notification of `o` -/
def reactReply (ord : Order) (s : St) (o : Op) (p : Nat) : List Obs := (step (treeAtAnnounce ord s o) (.read p)).2

/-- change first: a read from inside the notification is answered like a read after the call -/
theorem react_reply_is_read_after (s : St) (o : Op) (p : Nat) :
    reactReply ⟨true, true⟩ s o p = (step (step s o).1 (.read p)).2 := by
  cases o <;> simp [reactReply, treeAtAnnounce]

/-- an entity announced as removed is not in the tree a read meets at that moment — iff the list changes first
    (for an entity that was part of the device) -/
theorem react_removed_not_listed_iff (ord : Order) (s : St) (k : Nat) (hk : k ∈ s.attached) :
    k ∉ (treeAtAnnounce ord s (.detach k)).attached ↔ ord.removeChangeFirst = true := by
  cases h : ord.removeChangeFirst <;> simp [treeAtAnnounce, step, h, hk]

/-- an entity announced as added is in the tree a read meets at that moment — iff the list changes first (for an
    entity that was not part of the device) -/
theorem react_added_listed_iff (ord : Order) (s : St) (k : Nat) (hk : k ∉ s.attached) :
    k ∈ (treeAtAnnounce ord s (.attach k)).attached ↔ ord.addChangeFirst = true := by
  cases h : ord.addChangeFirst <;> simp [treeAtAnnounce, step, h, hk]

/-- the same on the reply itself: the entity list of the reply -/
theorem react_reply_ents (ord : Order) (s : St) (o : Op) (p : Nat) :
    reactReply ord s o p = [.reply p (treeAtAnnounce ord s o).dev (replyEnts (treeAtAnnounce ord s o)) (replyFeats (treeAtAnnounce ord s o))] := by
  simp [reactReply, step]

theorem replyEnts_mem (s : St) (k : Nat) : (k ∈ (replyEnts s).map (·.1)) ↔ k ∈ s.attached := by
  simp [replyEnts]

end Spine.LTree
