/-! C15, mechanism "DeviceLocal registers itself as the core handler while peers are connected"
    (spine/device_local.go: SetupRemoteDevice subscribes the local device at core level on EVERY call — subscribe
    de-duplicates —, RemoveRemoteDevice unsubscribes it when the last peer is gone).

    `once = false` is the code as written. `once = true` is the member in which the subscription is made only the
    first time (a sync.Once that is never reset) — NOT the code as written; `Spine/Props/C15Gen.lean` checks on a fact
    regenerated from device_local.go that the subscription is an unconditional top-level statement. -/
namespace Spine.Bus.Conn

structure St where
  peers : List Nat := []         -- connected peers (keys of remoteDevices)
  subscribed : Bool := false     -- the local device is a core-level handler of the bus
  onceDone : Bool := false

inductive Ev
  | connect (p : Nat)            -- SetupRemoteDevice
  | disconnect (p : Nat)         -- RemoveRemoteDevice

def step (once : Bool) (s : St) : Ev → St
  | .connect p =>
    { peers := if p ∈ s.peers then s.peers else p :: s.peers,
      subscribed := if once && s.onceDone then s.subscribed else true,
      onceDone := true }
  | .disconnect p =>
    if p ∈ s.peers then
      let ps := s.peers.filter (· ≠ p)
      { s with peers := ps, subscribed := if ps.isEmpty then false else s.subscribed }
    else s

def run (once : Bool) (evs : List Ev) : St := evs.foldl (step once) {}

theorem step_inv (s : St) (e : Ev) (h : s.peers ≠ [] → s.subscribed = true) :
    (step false s e).peers ≠ [] → (step false s e).subscribed = true := by
  cases e with
  | connect p => intro _; simp [step]
  | disconnect p =>
    simp only [step]
    split
    · rename_i hp
      intro hne
      have hold : s.subscribed = true := h (by intro h0; rw [h0] at hp; cases hp)
      have : (s.peers.filter (· ≠ p)).isEmpty = false := by
        cases hf : s.peers.filter (· ≠ p) with
        | nil => exact absurd hf hne
        | cons a l => rfl
      show (if (s.peers.filter (· ≠ p)).isEmpty = true then false else s.subscribed) = true
      rw [this]
      simpa using hold
    · exact h

/-- as written: in every history of connections and disconnections, while a peer is connected the local device is
    subscribed at core level -/
theorem subscribed_while_connected (evs : List Ev) : (run false evs).peers ≠ [] → (run false evs).subscribed = true := by
  unfold run
  suffices ∀ s : St, (s.peers ≠ [] → s.subscribed = true) →
      ((evs.foldl (step false) s).peers ≠ [] → (evs.foldl (step false) s).subscribed = true) from
    this {} (by intro h; exact absurd rfl h)
  induction evs with
  | nil => intro s h; exact h
  | cons e es ih => intro s h; exact ih _ (step_inv s e h)

end Spine.Bus.Conn
