import Spine.C03Thm
/-! C03 over histories: the write gate follows a SPEC binding registry folded from the registry events of the
    history (granted, deleted, entity gone, peer gone). Agreement (`iff`) is proved for the repaired member of the
    family, soundness (accepted ⇒ the SPEC registry holds the binding) for every member; the members as written
    lose bindings the SPEC keeps (witnesses by `decide`). -/
namespace Spine.Disp

/-- what the C03 statement knows of one operation -/
inductive RegEv
  | granted (e : Entry)                       -- a binding request was accepted
  | deleted (e : Entry)                       -- a binding delete call was accepted
  | entityGone (p : Nat) (ent : List Nat)     -- peer `p` announced the removal of its entity `ent`
  | peerGone (p : Nat)                        -- the connection of peer `p` was removed
  | entitiesGone (p : Nat) (es : List (List Nat))   -- a full announcement of peer `p` no longer lists its entities `es`
  | other
deriving Repr, DecidableEq

/-- SPEC: the bindings in force, as a membership predicate, after one more registry event -/
def specStep (holds : Entry → Bool) : RegEv → Entry → Bool
  | .granted e => fun x => x = e || holds x
  | .deleted e => fun x => x ≠ e && holds x
  | .entityGone p ent => fun x => !(x.2.1 = p && x.2.2.1 = ent) && holds x
  | .peerGone p => fun x => x.2.1 ≠ p && holds x
  | .entitiesGone p es => fun x => !(x.2.1 = p && es.contains x.2.2.1) && holds x
  | .other => holds

def specFrom (holds : Entry → Bool) (evs : List RegEv) : Entry → Bool := evs.foldl specStep holds

/-- SPEC registry of a history that starts without bindings -/
def specReg (evs : List RegEv) : Entry → Bool := specFrom (fun _ => false) evs

/-- the registry event an operation amounts to in world `w` (a request counts when it is accepted) -/
def evOf (w : W) : Op → RegEv
  | .call p _ _ (.bind c s t) => if connected w p && callOk w p (.bind c s t) then .granted (s, p, c) else .other
  | .call p _ _ (.unbind c s) => if connected w p && callOk w p (.unbind c s) then .deleted (s, p, c) else .other
  | .entRem p e _ _ => if connected w p && remGo w p e then .entityGone p e else .other
  | .drop p => .peerGone p
  | .full p keep _ _ => if connected w p && !fullEmpty w p keep then .entitiesGone p (fullRemoved w p keep) else .other
  | _ => .other

def trace : W → List Op → List RegEv
  | _, [] => []
  | w, op :: ops => evOf w op :: trace (step w op).1 ops

/-- every binding is held by a feature of an entity its peer currently announces -/
def Inv (w : W) : Prop := ∀ b ∈ w.binds, hasEnt w b.2.1 b.2.2.1 = true

def Agree (w : W) (holds : Entry → Bool) : Prop := ∀ x, x ∈ w.binds ↔ holds x = true
def Sound (w : W) (holds : Entry → Bool) : Prop := ∀ x, x ∈ w.binds → holds x = true

/-- the DOMAIN of the model, as a decidable predicate on operations: the model knows an entity through its features, so
    every entity an operation announces as new must carry a feature of the announcement set — an "added" entry with at
    least one feature, a full notification whose listed entities all have features. Outside it (an entity announced
    WITHOUT features stays known to the code, featureless) the model leaves the code: `c06_agree_boundary_featureless`
    in `Props/C06Agree.lean`; the harness runs such histories judged by the SPEC monitors only. -/
def featured (fresh : Peer) : Op → Bool
  | .entAdd _ e _ _ => fresh.feats.any fun f => f.ent = e
  | .full _ keep _ _ => keep.all fun e => fresh.feats.any fun f => f.ent = e
  | _ => true

def opOk (fresh : Peer) (op : Op) : Prop := featured fresh op = true

instance (fresh : Peer) (op : Op) : Decidable (opOk fresh op) := by unfold opOk; infer_instance

/-! #### frame lemmas -/

theorem feats_answered (pr : Peer) (r : Option Nat) : (answered pr r).feats = pr.feats := by
  cases r <;> rfl

theorem feats_request (pr : Peer) (dst : Addr) (fn : Nat) : (request pr dst fn).1.feats = pr.feats := by
  unfold request; split <;> rfl

theorem hasEnt_congr (w w' : W) (q : Nat) (e : List Nat) (h : (w'.peers q).feats = (w.peers q).feats) :
    hasEnt w' q e = hasEnt w q e := by
  unfold hasEnt; rw [h]

theorem peers_record (w : W) (b : Bool) (d : Dg) : (record w b d).peers = w.peers := by
  unfold record; split <;> rfl

theorem cfg_record (w : W) (b : Bool) (d : Dg) : (record w b d).cfg = w.cfg := by
  unfold record; split <;> rfl

theorem fresh_record (w : W) (b : Bool) (d : Dg) : (record w b d).fresh = w.fresh := by
  unfold record; split <;> rfl

/-- a datagram changes neither the registries nor the announced features, nor the configuration -/
theorem frame_processCmd (w : W) (p : Nat) (d : Dg) :
    (processCmd w p d).1.binds = w.binds ∧ (processCmd w p d).1.cfg = w.cfg ∧ (processCmd w p d).1.fresh = w.fresh ∧
      ∀ q, ((processCmd w p d).1.peers q).feats = (w.peers q).feats := by
  have h0 : ∀ q, ((setPeer w p (answered (w.peers p) d.ref)).peers q).feats = (w.peers q).feats := by
    intro q
    simp only [setPeer]
    split
    · rename_i h; subst h; exact feats_answered _ _
    · rfl
  unfold processCmd
  cases hsrc : srcF w p d with
  | none => exact ⟨rfl, rfl, rfl, h0⟩
  | some rf =>
    cases hdst : dstF w d with
    | none =>
      simp only []
      split
      · exact ⟨rfl, rfl, rfl, h0⟩
      · split
        · exact ⟨rfl, rfl, rfl, h0⟩
        · exact ⟨rfl, rfl, rfl, fun q => by simp only [bump, sendN]; exact h0 q⟩
    | some lf =>
      simp only []
      split
      · exact ⟨rfl, rfl, rfl, h0⟩
      · have h1 : ∀ outs q, ((bump (record (setPeer w p (answered (w.peers p) d.ref)) (applies w p lf d) d) outs).peers q).feats
            = (w.peers q).feats := by
          intro outs q
          simp only [bump, sendN, peers_record]
          exact h0 q
        split
        · cases hreq : request ((bump (record (setPeer w p (answered (w.peers p) d.ref)) (applies w p lf d) d)
              ((if applies w p lf d = true then notifs w d else []) ++ tag p (responses w p lf rf d))).peers p) d.src d.fn with
          | mk pr' sent =>
            refine ⟨?_, ?_, ?_, ?_⟩
            · simp only [binds_setPeer, binds_bump, binds_record]
            · simp only [setPeer, bump, cfg_record]
            · simp only [setPeer, bump, fresh_record]
            · intro q
              simp only [setPeer]
              split
              · rename_i hq
                subst hq
                have := feats_request ((bump (record (setPeer w q (answered (w.peers q) d.ref)) (applies w q lf d) d)
                  ((if applies w q lf d = true then notifs w d else []) ++ tag q (responses w q lf rf d))).peers q) d.src d.fn
                rw [hreq] at this
                rw [this]
                exact h1 _ q
              · exact h1 _ q
        · refine ⟨?_, ?_, ?_, h1 _⟩
          · simp only [binds_bump, binds_record, binds_setPeer]
          · simp only [bump, cfg_record, setPeer]
          · simp only [bump, fresh_record, setPeer]

theorem feats_bump (w : W) (outs : List (Nat × Out)) (q : Nat) : ((bump w outs).peers q).feats = (w.peers q).feats := rfl

theorem inv_of_subset (w w' : W) (hinv : Inv w) (hsub : ∀ b ∈ w'.binds, b ∈ w.binds)
    (hf : ∀ b ∈ w'.binds, (w'.peers b.2.1).feats = (w.peers b.2.1).feats) : Inv w' := by
  intro b hb
  rw [hasEnt_congr w w' b.2.1 b.2.2.1 (hf b hb)]
  exact hinv b (hsub b hb)

theorem hasEnt_of_remF (w : W) (p : Nat) (c : Addr) (rf : RF) (h : remF w p c = some rf) : hasEnt w p c.1 = true := by
  unfold remF at h
  have hm := List.mem_of_find?_eq_some h
  have hp := List.find?_some h
  unfold hasEnt
  rw [List.any_eq_true]
  refine ⟨rf, hm, ?_⟩
  simp only [Bool.and_eq_true, decide_eq_true_eq] at hp
  simpa using hp.1

theorem entry_eq (x : Entry) (s : Addr) (p : Nat) (c : Addr) :
    ((x.2.1 = p ∧ x.2.2 = c) ∧ x.1 = s) ↔ x = (s, p, c) := by
  obtain ⟨x1, x2, x3⟩ := x
  constructor
  · rintro ⟨⟨h1, h2⟩, h3⟩; simp only at h1 h2 h3; subst h1; subst h2; subst h3; rfl
  · intro h; cases h; exact ⟨⟨rfl, rfl⟩, rfl⟩

/-- `RemoveBinding` drops the named entry in every member of the family -/
theorem unbindDrops_self (cfg : Cfg) (s : Addr) (p : Nat) (c : Addr) : unbindDrops cfg s p c (s, p, c) = true := by
  unfold unbindDrops; split <;> simp

theorem unbindDrops_clean (cfg : Cfg) (hc : cfg.unbindDisjunct = false) (s : Addr) (p : Nat) (c : Addr) (x : Entry) :
    unbindDrops cfg s p c x = true ↔ x = (s, p, c) := by
  unfold unbindDrops
  simp only [hc, Bool.false_eq_true, if_false, Bool.and_eq_true, decide_eq_true_eq]
  exact entry_eq x s p c

/-! #### node-management calls -/

theorem frame_processCall (w : W) (p : Nat) (ctr : Nat) (ack : Bool) (k : Call) :
    (processCall w p ctr ack k).1.cfg = w.cfg ∧ (processCall w p ctr ack k).1.fresh = w.fresh ∧
      ∀ q, ((processCall w p ctr ack k).1.peers q).feats = (w.peers q).feats := by
  unfold processCall
  split
  · exact ⟨rfl, rfl, fun _ => rfl⟩
  · split
    · cases k <;> exact ⟨rfl, rfl, fun _ => rfl⟩
    · exact ⟨rfl, rfl, fun _ => rfl⟩

/-- the registry after a call: changed by `callApply` iff the call was accepted -/
theorem binds_processCall (w : W) (p : Nat) (ctr : Nat) (ack : Bool) (k : Call) :
    (processCall w p ctr ack k).1.binds =
      if connected w p && callOk w p k then (callApply w p k).binds else w.binds := by
  unfold processCall
  cases hc : connected w p <;> cases hk : callOk w p k <;> simp [binds_bump]

theorem step_call_inv (w : W) (p ctr : Nat) (ack : Bool) (k : Call) (hinv : Inv w) :
    Inv (processCall w p ctr ack k).1 := by
  have hfr := (frame_processCall w p ctr ack k).2.2
  intro b hb
  rw [hasEnt_congr w _ b.2.1 b.2.2.1 (hfr b.2.1)]
  rw [binds_processCall] at hb
  split at hb
  · rename_i hok
    simp only [Bool.and_eq_true] at hok
    cases k with
    | bind c s t =>
      simp only [callApply, List.mem_append, List.mem_singleton] at hb
      rcases hb with hb | hb
      · exact hinv b hb
      · subst hb
        have hk := hok.2
        simp only [callOk] at hk
        split at hk
        · rename_i lf rf hl hr
          exact hasEnt_of_remF w p c rf hr
        · cases hk
    | unbind c s =>
      simp only [callApply, List.mem_filter] at hb
      exact hinv b hb.1
    | sub c s t => exact hinv b hb
    | unsub c s => exact hinv b hb
  · exact hinv b hb

theorem step_call_agree (w : W) (p ctr : Nat) (ack : Bool) (k : Call) (holds : Entry → Bool)
    (hc : w.cfg.unbindDisjunct = false) (hag : Agree w holds) :
    Agree (processCall w p ctr ack k).1 (specStep holds (evOf w (.call p ctr ack k))) := by
  intro x
  rw [binds_processCall]
  cases k with
  | bind c s t =>
    simp only [evOf]
    split
    · simp only [callApply, specStep, List.mem_append, List.mem_singleton, Bool.or_eq_true, decide_eq_true_eq]
      rw [hag x]; exact Or.comm
    · exact hag x
  | unbind c s =>
    simp only [evOf]
    split
    · simp only [callApply, specStep, List.mem_filter]
      rw [hag x]
      have := unbindDrops_clean w.cfg hc s p c x
      by_cases hx : x = (s, p, c)
      · subst hx
        simp [unbindDrops_self]
      · have hd : unbindDrops w.cfg s p c x = false := by
          cases h : unbindDrops w.cfg s p c x with
          | false => rfl
          | true => exact absurd (this.mp h) hx
        simp [hd, hx]
    · exact hag x
  | sub c s t =>
    simp only [evOf, specStep]
    split <;> exact hag x
  | unsub c s =>
    simp only [evOf, specStep]
    split <;> exact hag x

theorem step_call_sound (w : W) (p ctr : Nat) (ack : Bool) (k : Call) (holds : Entry → Bool) (hs : Sound w holds) :
    Sound (processCall w p ctr ack k).1 (specStep holds (evOf w (.call p ctr ack k))) := by
  intro x hx
  rw [binds_processCall] at hx
  cases k with
  | bind c s t =>
    simp only [evOf]
    split at hx
    · rename_i hok
      simp only [hok, if_true, specStep, Bool.or_eq_true, decide_eq_true_eq]
      simp only [callApply, List.mem_append, List.mem_singleton] at hx
      rcases hx with hx | hx
      · exact Or.inr (hs x hx)
      · exact Or.inl hx
    · rename_i hok
      simp only [hok, Bool.false_eq_true, if_false, specStep]
      exact hs x hx
  | unbind c s =>
    simp only [evOf]
    split at hx
    · rename_i hok
      simp only [callApply, List.mem_filter, Bool.not_eq_true'] at hx
      have hne : x ≠ (s, p, c) := by
        intro h
        rw [h, unbindDrops_self] at hx
        cases hx.2
      simp [hok, specStep, hne, hs x hx.1]
    · rename_i hok
      simp only [hok, Bool.false_eq_true, if_false, specStep]
      exact hs x hx
  | sub c s t =>
    simp only [evOf, specStep]
    split at hx <;> exact hs x hx
  | unsub c s =>
    simp only [evOf, specStep]
    split at hx <;> exact hs x hx

/-! #### entity removed / added, disconnect, connect -/

theorem entDrops_ent (cfg : Cfg) (p : Nat) (e : List Nat) (b : Entry) (h : entDrops cfg p e b = true) : b.2.2.1 = e := by
  unfold entDrops at h
  split at h
  · simpa using h
  · simp only [Bool.and_eq_true, decide_eq_true_eq] at h; exact h.2

theorem entDrops_own (cfg : Cfg) (p : Nat) (e : List Nat) (b : Entry) (h1 : b.2.1 = p) (h2 : b.2.2.1 = e) :
    entDrops cfg p e b = true := by
  unfold entDrops; split <;> simp [h1, h2]

theorem entDrops_clean (cfg : Cfg) (hc : cfg.entRemovalAnyPeer = false) (p : Nat) (e : List Nat) (b : Entry) :
    entDrops cfg p e b = true ↔ (b.2.1 = p ∧ b.2.2.1 = e) := by
  unfold entDrops
  simp [hc]

theorem binds_processEntRem (w : W) (p : Nat) (e : List Nat) (ctr : Nat) (ack : Bool) :
    (processEntRem w p e ctr ack).1.binds =
      if connected w p && remGo w p e then w.binds.filter (fun b => !entDrops w.cfg p e b) else w.binds := by
  unfold processEntRem
  cases hc : connected w p <;> cases hh : remGo w p e <;> simp [binds_bump, removeEnt]

theorem feats_processEntRem (w : W) (p : Nat) (e : List Nat) (ctr : Nat) (ack : Bool) (q : Nat) :
    ((processEntRem w p e ctr ack).1.peers q).feats =
      if (connected w p && remGo w p e) && q = p then (w.peers p).feats.filter (fun f => f.ent ≠ e)
      else (w.peers q).feats := by
  unfold processEntRem
  cases hc : connected w p <;> cases hh : remGo w p e <;> simp [bump, sendN, removeEnt, setPeer]
  split <;> simp_all

theorem frame_processEntRem (w : W) (p : Nat) (e : List Nat) (ctr : Nat) (ack : Bool) :
    (processEntRem w p e ctr ack).1.cfg = w.cfg ∧ (processEntRem w p e ctr ack).1.fresh = w.fresh := by
  unfold processEntRem
  cases hc : connected w p <;> cases hh : remGo w p e <;> simp [bump, removeEnt, setPeer]

theorem step_entRem_inv (w : W) (p : Nat) (e : List Nat) (ctr : Nat) (ack : Bool) (hinv : Inv w) :
    Inv (processEntRem w p e ctr ack).1 := by
  intro b hb
  rw [binds_processEntRem] at hb
  unfold hasEnt
  rw [feats_processEntRem]
  cases hgo : (connected w p && remGo w p e) with
  | false =>
    simp only [hgo, Bool.false_eq_true, if_false, Bool.false_and] at hb ⊢
    exact hinv b hb
  | true =>
    simp only [hgo, if_true, List.mem_filter, Bool.not_eq_true', Bool.true_and, decide_eq_true_eq] at hb ⊢
    have hold := hinv b hb.1
    by_cases hq : b.2.1 = p
    · simp only [hq, if_true]
      have hne : b.2.2.1 ≠ e := by
        intro h
        rw [entDrops_own w.cfg p e b hq h] at hb
        cases hb.2
      unfold hasEnt at hold
      rw [hq] at hold
      rw [List.any_eq_true] at hold ⊢
      obtain ⟨f, hf, hfe⟩ := hold
      have hfe' : f.ent = b.2.2.1 := by simpa using hfe
      exact ⟨f, List.mem_filter.mpr ⟨hf, by simpa [hfe'] using hne⟩, hfe⟩
    · simp only [hq, if_false]
      exact hold

theorem step_entRem_agree (w : W) (p : Nat) (e : List Nat) (ctr : Nat) (ack : Bool) (holds : Entry → Bool)
    (hc : w.cfg.entRemovalAnyPeer = false) (hag : Agree w holds) :
    Agree (processEntRem w p e ctr ack).1 (specStep holds (evOf w (.entRem p e ctr ack))) := by
  intro x
  rw [binds_processEntRem]
  simp only [evOf]
  split
  · simp only [specStep, List.mem_filter]
    rw [hag x]
    have := entDrops_clean w.cfg hc p e x
    by_cases hx : x.2.1 = p ∧ x.2.2.1 = e
    · have hd : entDrops w.cfg p e x = true := this.mpr hx
      simp [hd, hx.1, hx.2]
    · have hd : entDrops w.cfg p e x = false := by
        cases h : entDrops w.cfg p e x with
        | false => rfl
        | true => exact absurd (this.mp h) hx
      have hx' : (decide (x.2.1 = p) && decide (x.2.2.1 = e)) = false := by
        cases h : (decide (x.2.1 = p) && decide (x.2.2.1 = e)) with
        | false => rfl
        | true => simp only [Bool.and_eq_true, decide_eq_true_eq] at h; exact absurd h hx
      simp [hd, hx']
  · exact hag x

theorem step_entRem_sound (w : W) (p : Nat) (e : List Nat) (ctr : Nat) (ack : Bool) (holds : Entry → Bool)
    (hs : Sound w holds) :
    Sound (processEntRem w p e ctr ack).1 (specStep holds (evOf w (.entRem p e ctr ack))) := by
  intro x hx
  rw [binds_processEntRem] at hx
  simp only [evOf]
  split at hx
  · rename_i hgo
    simp only [List.mem_filter, Bool.not_eq_true'] at hx
    have hx' : (decide (x.2.1 = p) && decide (x.2.2.1 = e)) = false := by
      cases h : (decide (x.2.1 = p) && decide (x.2.2.1 = e)) with
      | false => rfl
      | true =>
        simp only [Bool.and_eq_true, decide_eq_true_eq] at h
        rw [entDrops_own w.cfg p e x h.1 h.2] at hx
        cases hx.2
    simp [hgo, specStep, hx', hs x hx.1]
  · rename_i hgo
    simp only [hgo, Bool.false_eq_true, if_false, specStep]
    exact hs x hx

theorem frame_processEntAdd (w : W) (p : Nat) (e : List Nat) (ctr : Nat) (ack : Bool) :
    (processEntAdd w p e ctr ack).1.binds = w.binds ∧ (processEntAdd w p e ctr ack).1.cfg = w.cfg ∧
      (processEntAdd w p e ctr ack).1.fresh = w.fresh := by
  unfold processEntAdd
  cases hc : connected w p <;> simp [bump, setPeer]

theorem feats_processEntAdd (w : W) (p : Nat) (e : List Nat) (ctr : Nat) (ack : Bool) (q : Nat) :
    ((processEntAdd w p e ctr ack).1.peers q).feats =
      if connected w p && q = p then
        ((w.peers p).feats.filter fun f => f.ent ≠ e) ++ (w.fresh.feats.filter fun f => f.ent = e)
      else (w.peers q).feats := by
  unfold processEntAdd
  cases hc : connected w p <;> simp [bump, sendN, setPeer]
  split <;> simp_all

theorem step_entAdd_inv (w : W) (p : Nat) (e : List Nat) (ctr : Nat) (ack : Bool) (hinv : Inv w)
    (hok : (w.fresh.feats.any fun f => f.ent = e) = true) : Inv (processEntAdd w p e ctr ack).1 := by
  intro b hb
  rw [(frame_processEntAdd w p e ctr ack).1] at hb
  have hold := hinv b hb
  unfold hasEnt
  rw [feats_processEntAdd]
  split
  · rename_i hgo
    simp only [Bool.and_eq_true, decide_eq_true_eq] at hgo
    unfold hasEnt at hold
    rw [hgo.2] at hold
    rw [List.any_eq_true] at hold hok ⊢
    by_cases hbe : b.2.2.1 = e
    · obtain ⟨f, hf, hfe⟩ := hok
      refine ⟨f, List.mem_append.mpr (Or.inr (List.mem_filter.mpr ⟨hf, hfe⟩)), ?_⟩
      simpa [hbe] using hfe
    · obtain ⟨f, hf, hfe⟩ := hold
      have hfe' : f.ent = b.2.2.1 := by simpa using hfe
      exact ⟨f, List.mem_append.mpr (Or.inl (List.mem_filter.mpr ⟨hf, by simpa [hfe'] using hbe⟩)), hfe⟩
  · exact hold

/-- with the invariant, a disconnect drops every binding the peer holds — in every member of the family -/
theorem drop_own (w : W) (p : Nat) (hinv : Inv w) (b : Entry) (hb : b ∈ w.binds) (hp : b.2.1 = p) :
    (((w.peers p).feats.map (·.ent)).any fun e => entDrops w.cfg p e b) = true := by
  have hold := hinv b hb
  unfold hasEnt at hold
  rw [hp] at hold
  rw [List.any_eq_true] at hold ⊢
  obtain ⟨f, hf, hfe⟩ := hold
  have hfe' : f.ent = b.2.2.1 := by simpa using hfe
  exact ⟨f.ent, List.mem_map.mpr ⟨f, hf, rfl⟩, entDrops_own w.cfg p f.ent b hp hfe'.symm⟩

theorem binds_dropPeer (w : W) (p : Nat) :
    (dropPeer w p).binds = w.binds.filter fun b => !(((w.peers p).feats.map (·.ent)).any fun e => entDrops w.cfg p e b) := rfl

theorem feats_dropPeer (w : W) (p q : Nat) :
    ((dropPeer w p).peers q).feats = if q = p then [] else (w.peers q).feats := by
  simp only [dropPeer, setPeer]
  split <;> rfl

theorem step_drop_inv (w : W) (p : Nat) (hinv : Inv w) : Inv (dropPeer w p) := by
  intro b hb
  rw [binds_dropPeer, List.mem_filter] at hb
  have hne : b.2.1 ≠ p := by
    intro h
    rw [drop_own w p hinv b hb.1 h] at hb
    cases hb.2
  unfold hasEnt
  rw [feats_dropPeer]
  simp only [hne, if_false]
  exact hinv b hb.1

theorem step_drop_sound (w : W) (p : Nat) (holds : Entry → Bool) (hinv : Inv w) (hs : Sound w holds) :
    Sound (dropPeer w p) (specStep holds (.peerGone p)) := by
  intro x hx
  rw [binds_dropPeer, List.mem_filter] at hx
  have hne : x.2.1 ≠ p := by
    intro h
    rw [drop_own w p hinv x hx.1 h] at hx
    cases hx.2
  simp [specStep, hne, hs x hx.1]

theorem step_drop_agree (w : W) (p : Nat) (holds : Entry → Bool) (hc : w.cfg.entRemovalAnyPeer = false)
    (hinv : Inv w) (hag : Agree w holds) : Agree (dropPeer w p) (specStep holds (.peerGone p)) := by
  intro x
  constructor
  · intro hx
    exact step_drop_sound w p holds hinv (fun y hy => (hag y).mp hy) x hx
  · intro hx
    simp only [specStep, Bool.and_eq_true, decide_eq_true_eq, ne_eq, decide_not, Bool.not_eq_true'] at hx
    rw [binds_dropPeer, List.mem_filter]
    refine ⟨(hag x).mpr hx.2, ?_⟩
    have hne : x.2.1 ≠ p := by simpa using hx.1
    simp only [Bool.not_eq_true']
    rw [List.any_eq_false]
    intro e _
    cases h : entDrops w.cfg p e x with
    | false => simp
    | true => exact absurd ((entDrops_clean w.cfg hc p e x).mp h).1 hne

theorem frame_connPeer (w : W) (p : Nat) :
    (connPeer w p).binds = w.binds ∧ (connPeer w p).cfg = w.cfg ∧ (connPeer w p).fresh = w.fresh := by
  unfold connPeer; split <;> exact ⟨rfl, rfl, rfl⟩

theorem step_conn_inv (w : W) (p : Nat) (hinv : Inv w) : Inv (connPeer w p) := by
  intro b hb
  rw [(frame_connPeer w p).1] at hb
  have hold := hinv b hb
  unfold connPeer
  split
  · rename_i hemp
    have hne : b.2.1 ≠ p := by
      intro h
      unfold hasEnt at hold
      rw [h] at hold
      have : (w.peers p).feats = [] := by simpa using hemp
      rw [this] at hold
      simp at hold
    unfold hasEnt
    simp only [setPeer, hne, if_false]
    exact hold
  · exact hold

theorem frame_localSet (w : W) (a : Addr) (fn v : Nat) :
    (localSet w a fn v).1.binds = w.binds ∧ (localSet w a fn v).1.cfg = w.cfg ∧ (localSet w a fn v).1.fresh = w.fresh ∧
      ∀ q, ((localSet w a fn v).1.peers q).feats = (w.peers q).feats := by
  unfold localSet
  split
  · split
    · exact ⟨rfl, rfl, rfl, fun _ => rfl⟩
    · exact ⟨rfl, rfl, rfl, fun _ => rfl⟩
  · exact ⟨rfl, rfl, rfl, fun _ => rfl⟩

/-! #### repeated discovery reply -/

theorem frame_processReann (w : W) (p ctr : Nat) (ref : Option Nat) (ack : Bool) :
    (processReann w p ctr ref ack).1.binds = w.binds ∧ (processReann w p ctr ref ack).1.cfg = w.cfg ∧
      (processReann w p ctr ref ack).1.fresh = w.fresh := by
  unfold processReann
  split <;> exact ⟨rfl, rfl, rfl⟩

theorem feats_processReann (w : W) (p ctr : Nat) (ref : Option Nat) (ack : Bool) (q : Nat) :
    ((processReann w p ctr ref ack).1.peers q).feats =
      if connected w p && q = p then w.fresh.feats else (w.peers q).feats := by
  unfold processReann
  cases hc : connected w p with
  | false => simp
  | true =>
    simp only [Bool.not_true, Bool.false_eq_true, if_false, Bool.true_and, decide_eq_true_eq, setPeer]
    split
    · simp only [sendN, feats_request]
    · rfl

/-- every entity a peer announces is one the announcements of a fresh peer contain (all announced features stem from
    the same announcement set) -/
def InvF (w : W) : Prop := ∀ q e, hasEnt w q e = true → (w.fresh.feats.any fun f => f.ent = e) = true

theorem invF_of (w w' : W) (hfresh : w'.fresh = w.fresh)
    (h : ∀ q f, f ∈ (w'.peers q).feats → f ∈ (w.peers q).feats ∨ f ∈ w.fresh.feats) (hF : InvF w) : InvF w' := by
  intro q e he
  unfold hasEnt at he
  rw [List.any_eq_true] at he
  obtain ⟨f, hf, hfe⟩ := he
  rw [hfresh]
  rcases h q f hf with h1 | h1
  · exact hF q e (by unfold hasEnt; rw [List.any_eq_true]; exact ⟨f, h1, hfe⟩)
  · rw [List.any_eq_true]; exact ⟨f, h1, hfe⟩

theorem step_reann_inv (w : W) (p ctr : Nat) (ref : Option Nat) (ack : Bool) (hinv : Inv w) (hF : InvF w) :
    Inv (processReann w p ctr ref ack).1 := by
  intro b hb
  rw [(frame_processReann w p ctr ref ack).1] at hb
  have hold := hinv b hb
  unfold hasEnt
  rw [feats_processReann]
  split
  · exact hF b.2.1 b.2.2.1 hold
  · exact hold

/-! #### full discovery notification -/

theorem binds_processFull (w : W) (p : Nat) (keep : List (List Nat)) (ctr : Nat) (ack : Bool) :
    (processFull w p keep ctr ack).1.binds =
      if connected w p && !fullEmpty w p keep then
        w.binds.filter fun b => !((fullRemoved w p keep).any fun e => entDrops w.cfg p e b)
      else w.binds := by
  unfold processFull
  cases hc : connected w p <;> cases he : fullEmpty w p keep <;> simp [binds_bump, applyFull, setPeer]

theorem feats_processFull (w : W) (p : Nat) (keep : List (List Nat)) (ctr : Nat) (ack : Bool) (q : Nat) :
    ((processFull w p keep ctr ack).1.peers q).feats =
      if (connected w p && !fullEmpty w p keep) && q = p then
        ((w.peers p).feats.filter fun f => !(fullRemoved w p keep).contains f.ent) ++
          (w.fresh.feats.filter fun f => (fullAdded w p keep).contains f.ent)
      else (w.peers q).feats := by
  unfold processFull
  cases hc : connected w p <;> cases he : fullEmpty w p keep
  · simp
  · simp
  · simp only [Bool.not_true, Bool.false_eq_true, if_false, Bool.not_false, Bool.true_and, if_true, decide_eq_true_eq,
      bump, sendN, applyFull, setPeer]
    split <;> simp_all
  · simp only [Bool.not_true, Bool.false_eq_true, if_false, if_true, Bool.and_false, Bool.false_and, setPeer]
    split
    · rename_i h; subst h; simp only [feats_request, sendN]
    · rfl

theorem frame_processFull (w : W) (p : Nat) (keep : List (List Nat)) (ctr : Nat) (ack : Bool) :
    (processFull w p keep ctr ack).1.cfg = w.cfg ∧ (processFull w p keep ctr ack).1.fresh = w.fresh := by
  unfold processFull
  cases hc : connected w p <;> cases he : fullEmpty w p keep <;> simp [bump, applyFull, setPeer]

theorem step_full_inv (w : W) (p : Nat) (keep : List (List Nat)) (ctr : Nat) (ack : Bool) (hinv : Inv w) :
    Inv (processFull w p keep ctr ack).1 := by
  intro b hb
  rw [binds_processFull] at hb
  unfold hasEnt
  rw [feats_processFull]
  cases hgo : (connected w p && !fullEmpty w p keep) with
  | false =>
    simp only [hgo, Bool.false_eq_true, if_false, Bool.false_and] at hb ⊢
    exact hinv b hb
  | true =>
    simp only [hgo, if_true, List.mem_filter, Bool.not_eq_true', Bool.true_and, decide_eq_true_eq] at hb ⊢
    have hold := hinv b hb.1
    by_cases hq : b.2.1 = p
    · simp only [hq, if_true]
      have hne : (fullRemoved w p keep).contains b.2.2.1 = false := by
        cases hcn : (fullRemoved w p keep).contains b.2.2.1 with
        | false => rfl
        | true =>
          have hm : b.2.2.1 ∈ fullRemoved w p keep := by simpa using hcn
          have : ((fullRemoved w p keep).any fun e => entDrops w.cfg p e b) = true := by
            rw [List.any_eq_true]; exact ⟨b.2.2.1, hm, entDrops_own w.cfg p b.2.2.1 b hq rfl⟩
          rw [this] at hb; cases hb.2
      unfold hasEnt at hold
      rw [hq] at hold
      rw [List.any_eq_true] at hold ⊢
      obtain ⟨f, hf, hfe⟩ := hold
      have hfe' : f.ent = b.2.2.1 := by simpa using hfe
      exact ⟨f, List.mem_append.mpr (Or.inl (List.mem_filter.mpr ⟨hf, by rw [hfe', hne]; rfl⟩)), hfe⟩
    · simp only [hq, if_false]
      exact hold

theorem step_full_sound (w : W) (p : Nat) (keep : List (List Nat)) (ctr : Nat) (ack : Bool) (holds : Entry → Bool)
    (hs : Sound w holds) :
    Sound (processFull w p keep ctr ack).1 (specStep holds (evOf w (.full p keep ctr ack))) := by
  intro x hx
  rw [binds_processFull] at hx
  simp only [evOf]
  split at hx
  · rename_i hgo
    simp only [List.mem_filter, Bool.not_eq_true'] at hx
    have hx' : (decide (x.2.1 = p) && (fullRemoved w p keep).contains x.2.2.1) = false := by
      cases h : (decide (x.2.1 = p) && (fullRemoved w p keep).contains x.2.2.1) with
      | false => rfl
      | true =>
        simp only [Bool.and_eq_true, decide_eq_true_eq] at h
        have hm : x.2.2.1 ∈ fullRemoved w p keep := by simpa using h.2
        have : ((fullRemoved w p keep).any fun e => entDrops w.cfg p e x) = true := by
          rw [List.any_eq_true]; exact ⟨x.2.2.1, hm, entDrops_own w.cfg p x.2.2.1 x h.1 rfl⟩
        rw [this] at hx; cases hx.2
    simp only [hgo, if_true, specStep, Bool.and_eq_true, Bool.not_eq_true']
    exact ⟨hx', hs x hx.1⟩
  · rename_i hgo
    simp only [hgo, Bool.false_eq_true, if_false, specStep]
    exact hs x hx

theorem step_full_agree (w : W) (p : Nat) (keep : List (List Nat)) (ctr : Nat) (ack : Bool) (holds : Entry → Bool)
    (hc : w.cfg.entRemovalAnyPeer = false) (hag : Agree w holds) :
    Agree (processFull w p keep ctr ack).1 (specStep holds (evOf w (.full p keep ctr ack))) := by
  intro x
  constructor
  · intro hx
    exact step_full_sound w p keep ctr ack holds (fun y hy => (hag y).mp hy) x hx
  · intro hx
    rw [binds_processFull]
    simp only [evOf] at hx
    split
    · rename_i hgo
      simp only [hgo, if_true, specStep, Bool.and_eq_true, Bool.not_eq_true'] at hx
      rw [List.mem_filter]
      refine ⟨(hag x).mpr hx.2, ?_⟩
      simp only [Bool.not_eq_true']
      rw [List.any_eq_false]
      intro e he
      cases h : entDrops w.cfg p e x with
      | false => simp
      | true =>
        have h' := (entDrops_clean w.cfg hc p e x).mp h
        have : (decide (x.2.1 = p) && (fullRemoved w p keep).contains x.2.2.1) = true := by
          simp only [Bool.and_eq_true, decide_eq_true_eq]
          exact ⟨h'.1, by rw [h'.2]; simpa using he⟩
        rw [this] at hx; cases hx.1
    · rename_i hgo
      simp only [hgo, Bool.false_eq_true, if_false, specStep] at hx
      exact (hag x).mpr hx

/-! #### one step, then histories -/

theorem step_frame (w : W) (op : Op) : (step w op).1.cfg = w.cfg ∧ (step w op).1.fresh = w.fresh := by
  cases op with
  | dg p d => exact ⟨(frame_processCmd w p d).2.1, (frame_processCmd w p d).2.2.1⟩
  | call p ctr ack k => exact ⟨(frame_processCall w p ctr ack k).1, (frame_processCall w p ctr ack k).2.1⟩
  | entRem p e ctr ack => exact frame_processEntRem w p e ctr ack
  | entAdd p e ctr ack => exact ⟨(frame_processEntAdd w p e ctr ack).2.1, (frame_processEntAdd w p e ctr ack).2.2⟩
  | drop p => exact ⟨rfl, rfl⟩
  | conn p => exact ⟨(frame_connPeer w p).2.1, (frame_connPeer w p).2.2⟩
  | setData a fn v => exact ⟨(frame_localSet w a fn v).2.1, (frame_localSet w a fn v).2.2.1⟩
  | reann p ctr ref ack => exact ⟨(frame_processReann w p ctr ref ack).2.1, (frame_processReann w p ctr ref ack).2.2⟩
  | full p keep ctr ack => exact frame_processFull w p keep ctr ack

theorem step_invF (w : W) (op : Op) (hF : InvF w) : InvF (step w op).1 := by
  refine invF_of w _ (step_frame w op).2 ?_ hF
  intro q f hf
  cases op with
  | dg p d => left; rw [show (step w (.dg p d)).1 = (processCmd w p d).1 from rfl, (frame_processCmd w p d).2.2.2 q] at hf; exact hf
  | call p ctr ack k =>
    left; rw [show (step w (.call p ctr ack k)).1 = (processCall w p ctr ack k).1 from rfl, (frame_processCall w p ctr ack k).2.2 q] at hf
    exact hf
  | entRem p e ctr ack =>
    left
    rw [show (step w (.entRem p e ctr ack)).1 = (processEntRem w p e ctr ack).1 from rfl, feats_processEntRem] at hf
    split at hf
    · rename_i hq
      simp only [Bool.and_eq_true, decide_eq_true_eq] at hq
      rw [hq.2]; exact (List.mem_filter.mp hf).1
    · exact hf
  | entAdd p e ctr ack =>
    rw [show (step w (.entAdd p e ctr ack)).1 = (processEntAdd w p e ctr ack).1 from rfl, feats_processEntAdd] at hf
    split at hf
    · rename_i hq
      simp only [Bool.and_eq_true, decide_eq_true_eq] at hq
      rw [List.mem_append] at hf
      rcases hf with hf | hf
      · left; rw [hq.2]; exact (List.mem_filter.mp hf).1
      · right; exact (List.mem_filter.mp hf).1
    · left; exact hf
  | drop p =>
    left
    rw [show (step w (.drop p)).1 = dropPeer w p from rfl, feats_dropPeer] at hf
    split at hf
    · cases hf
    · exact hf
  | conn p =>
    simp only [step, connPeer] at hf
    split at hf
    · simp only [setPeer] at hf
      split at hf
      · right; exact hf
      · left; exact hf
    · left; exact hf
  | setData a fn v =>
    left; rw [show (step w (.setData a fn v)).1 = (localSet w a fn v).1 from rfl, (frame_localSet w a fn v).2.2.2 q] at hf
    exact hf
  | reann p ctr ref ack =>
    rw [show (step w (.reann p ctr ref ack)).1 = (processReann w p ctr ref ack).1 from rfl, feats_processReann] at hf
    split at hf
    · right; exact hf
    · left; exact hf
  | full p keep ctr ack =>
    rw [show (step w (.full p keep ctr ack)).1 = (processFull w p keep ctr ack).1 from rfl, feats_processFull] at hf
    split at hf
    · rename_i hq
      simp only [Bool.and_eq_true, decide_eq_true_eq] at hq
      rw [List.mem_append] at hf
      rcases hf with hf | hf
      · left; rw [hq.2]; exact (List.mem_filter.mp hf).1
      · right; exact (List.mem_filter.mp hf).1
    · left; exact hf

theorem step_inv (w : W) (op : Op) (hinv : Inv w) (hF : InvF w) (hok : opOk w.fresh op) : Inv (step w op).1 := by
  cases op with
  | dg p d =>
    have hf := frame_processCmd w p d
    exact inv_of_subset w _ hinv (fun b hb => by rw [show (step w (.dg p d)).1 = (processCmd w p d).1 from rfl, hf.1] at hb; exact hb)
      (fun b _ => hf.2.2.2 b.2.1)
  | call p ctr ack k => exact step_call_inv w p ctr ack k hinv
  | entRem p e ctr ack => exact step_entRem_inv w p e ctr ack hinv
  | entAdd p e ctr ack => exact step_entAdd_inv w p e ctr ack hinv hok
  | drop p => exact step_drop_inv w p hinv
  | conn p => exact step_conn_inv w p hinv
  | setData a fn v =>
    have hf := frame_localSet w a fn v
    exact inv_of_subset w _ hinv (fun b hb => by rw [show (step w (.setData a fn v)).1 = (localSet w a fn v).1 from rfl, hf.1] at hb; exact hb)
      (fun b _ => hf.2.2.2 b.2.1)
  | reann p ctr ref ack => exact step_reann_inv w p ctr ref ack hinv hF
  | full p keep ctr ack => exact step_full_inv w p keep ctr ack hinv

theorem step_sound (w : W) (op : Op) (holds : Entry → Bool) (hinv : Inv w) (hs : Sound w holds) :
    Sound (step w op).1 (specStep holds (evOf w op)) := by
  cases op with
  | dg p d =>
    intro x hx
    rw [show (step w (.dg p d)).1 = (processCmd w p d).1 from rfl, (frame_processCmd w p d).1] at hx
    exact hs x hx
  | call p ctr ack k => exact step_call_sound w p ctr ack k holds hs
  | entRem p e ctr ack => exact step_entRem_sound w p e ctr ack holds hs
  | entAdd p e ctr ack =>
    intro x hx
    rw [show (step w (.entAdd p e ctr ack)).1 = (processEntAdd w p e ctr ack).1 from rfl, (frame_processEntAdd w p e ctr ack).1] at hx
    exact hs x hx
  | drop p => exact step_drop_sound w p holds hinv hs
  | conn p =>
    intro x hx
    rw [show (step w (.conn p)).1 = connPeer w p from rfl, (frame_connPeer w p).1] at hx
    exact hs x hx
  | setData a fn v =>
    intro x hx
    rw [show (step w (.setData a fn v)).1 = (localSet w a fn v).1 from rfl, (frame_localSet w a fn v).1] at hx
    exact hs x hx
  | reann p ctr ref ack =>
    intro x hx
    rw [show (step w (.reann p ctr ref ack)).1 = (processReann w p ctr ref ack).1 from rfl, (frame_processReann w p ctr ref ack).1] at hx
    exact hs x hx
  | full p keep ctr ack => exact step_full_sound w p keep ctr ack holds hs

theorem step_agree (w : W) (op : Op) (holds : Entry → Bool) (hu : w.cfg.unbindDisjunct = false)
    (he : w.cfg.entRemovalAnyPeer = false) (hinv : Inv w) (hag : Agree w holds) :
    Agree (step w op).1 (specStep holds (evOf w op)) := by
  cases op with
  | dg p d =>
    intro x
    rw [show (step w (.dg p d)).1 = (processCmd w p d).1 from rfl, (frame_processCmd w p d).1]
    exact hag x
  | call p ctr ack k => exact step_call_agree w p ctr ack k holds hu hag
  | entRem p e ctr ack => exact step_entRem_agree w p e ctr ack holds he hag
  | entAdd p e ctr ack =>
    intro x
    rw [show (step w (.entAdd p e ctr ack)).1 = (processEntAdd w p e ctr ack).1 from rfl, (frame_processEntAdd w p e ctr ack).1]
    exact hag x
  | drop p => exact step_drop_agree w p holds he hinv hag
  | conn p =>
    intro x
    rw [show (step w (.conn p)).1 = connPeer w p from rfl, (frame_connPeer w p).1]
    exact hag x
  | setData a fn v =>
    intro x
    rw [show (step w (.setData a fn v)).1 = (localSet w a fn v).1 from rfl, (frame_localSet w a fn v).1]
    exact hag x
  | reann p ctr ref ack =>
    intro x
    rw [show (step w (.reann p ctr ref ack)).1 = (processReann w p ctr ref ack).1 from rfl, (frame_processReann w p ctr ref ack).1]
    exact hag x
  | full p keep ctr ack => exact step_full_agree w p keep ctr ack holds he hag

theorem run_sound (ops : List Op) : ∀ (w : W) (holds : Entry → Bool), Inv w → InvF w → Sound w holds →
    (∀ op ∈ ops, opOk w.fresh op) → Sound (run w ops) (specFrom holds (trace w ops)) := by
  induction ops with
  | nil => intro w holds _ _ hs _; exact hs
  | cons op ops ih =>
    intro w holds hinv hF hs hok
    have hfr := step_frame w op
    exact ih (step w op).1 (specStep holds (evOf w op)) (step_inv w op hinv hF (hok op (List.mem_cons_self ..)))
      (step_invF w op hF) (step_sound w op holds hinv hs)
      (fun o ho => by rw [hfr.2]; exact hok o (List.mem_cons_of_mem _ ho))

theorem run_agree (ops : List Op) : ∀ (w : W) (holds : Entry → Bool), w.cfg.unbindDisjunct = false →
    w.cfg.entRemovalAnyPeer = false → Inv w → InvF w → Agree w holds → (∀ op ∈ ops, opOk w.fresh op) →
    Agree (run w ops) (specFrom holds (trace w ops)) := by
  induction ops with
  | nil => intro w holds _ _ _ _ hag _; exact hag
  | cons op ops ih =>
    intro w holds hu he hinv hF hag hok
    have hfr := step_frame w op
    exact ih (step w op).1 (specStep holds (evOf w op)) (by rw [hfr.1]; exact hu) (by rw [hfr.1]; exact he)
      (step_inv w op hinv hF (hok op (List.mem_cons_self ..))) (step_invF w op hF) (step_agree w op holds hu he hinv hag)
      (fun o ho => by rw [hfr.2]; exact hok o (List.mem_cons_of_mem _ ho))

/-- C03 over histories, repaired registries: after any history that starts without bindings, the write gate is open
    exactly for the functions announced writable and the bindings the SPEC registry holds at that moment — granted
    and not deleted since, holder still connected, holder's entity not removed since -/
theorem c03_follows_registry (w0 : W) (ops : List Op) (hu : w0.cfg.unbindDisjunct = false)
    (he : w0.cfg.entRemovalAnyPeer = false) (h0 : w0.binds = []) (hF : InvF w0) (hok : ∀ op ∈ ops, opOk w0.fresh op)
    (p : Nat) (lf : LF) (d : Dg) :
    gateOk (run w0 ops) p lf d = (writable lf d.fn && specReg (trace w0 ops) (d.dst, p, d.src)) := by
  have hag := run_agree ops w0 (fun _ => false) hu he (by intro b hb; rw [h0] at hb; cases hb) hF
    (by intro x; rw [h0]; simp) hok (d.dst, p, d.src)
  rw [Bool.eq_iff_iff, gateOk_iff, Bool.and_eq_true]
  exact ⟨fun h => ⟨h.1, hag.mp h.2⟩, fun h => ⟨h.1, hag.mpr h.2⟩⟩

/-- C03 over histories, every member of the family (also the code as written): the gate never opens for a binding
    the SPEC registry does not hold — the registry defects only lose bindings, they never invent or keep one -/
theorem c03_accepted_only_if_registry (w0 : W) (ops : List Op) (h0 : w0.binds = []) (hF : InvF w0)
    (hok : ∀ op ∈ ops, opOk w0.fresh op) (p : Nat) (lf : LF) (d : Dg) (hg : gateOk (run w0 ops) p lf d = true) :
    writable lf d.fn = true ∧ specReg (trace w0 ops) (d.dst, p, d.src) = true := by
  have hs := run_sound ops w0 (fun _ => false) (by intro b hb; rw [h0] at hb; cases hb) hF
    (by intro x hx; rw [h0] at hx; cases hx) hok (d.dst, p, d.src)
  have := (gateOk_iff _ p lf d).mp hg
  exact ⟨this.1, hs this.2⟩

/-! #### the code as written loses bindings the SPEC keeps -/

def witLF1 : LF := { ent := [1], feat := 1, typ := 1, role := .server, fds := [5], ops := [(5, true)] }
def witLF2 : LF := { ent := [2], feat := 2, typ := 1, role := .server, fds := [5], ops := [(5, true)] }
def witW : W :=
  { loc := [witLF1, witLF2], peers := fun _ => ⟨[], 0, []⟩, binds := [],
    fresh := ⟨[⟨[0], 0, [], 9, .special⟩, ⟨[1], 1, [5], 1, .client⟩], 3, []⟩ }
def witD (dst : Addr) : Dg := { src := ([1], 1), dst := dst, ctr := some 50, ref := none, cls := .write, ack := true, fn := 5, val := 7 }

/-- another peer's entity removal: conn 1, conn 2, peer 1 binds [1]/1 to [1]/1, peer 2 announces the removal of its
    entity [1] -/
def witEntOps : List Op := [.conn 1, .conn 2, .call 1 10 true (.bind ([1], 1) ([1], 1) 1), .entRem 2 [1] 11 false]

/-- deleting one of two bindings of a client feature: conn 1, bind [1]/1 to [1]/1 and to [2]/2, unbind the first -/
def witUnbindOps : List Op :=
  [.conn 1, .call 1 10 true (.bind ([1], 1) ([1], 1) 1), .call 1 11 true (.bind ([1], 1) ([2], 2) 1),
   .call 1 12 true (.unbind ([1], 1) ([1], 1))]

theorem c03_follows_registry_refuted_entity :
    witW.cfg = {} ∧ witW.binds = [] ∧ writable witLF1 5 = true ∧
      specReg (trace witW witEntOps) (([1], 1), 1, ([1], 1)) = true ∧
      gateOk (run witW witEntOps) 1 witLF1 (witD ([1], 1)) = false := by decide

theorem c03_follows_registry_refuted_unbind :
    witW.cfg = {} ∧ witW.binds = [] ∧ writable witLF2 5 = true ∧
      specReg (trace witW witUnbindOps) (([2], 2), 1, ([1], 1)) = true ∧
      gateOk (run witW witUnbindOps) 1 witLF2 (witD ([2], 2)) = false := by decide

end Spine.Disp
