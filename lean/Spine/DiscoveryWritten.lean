import Spine.DiscoveryPartial
/-! C06, the member as written: where it does agree with the specification.
    * a notification with a single entry (what the repository's fixtures exercise) is handled exactly as by the repaired
      member;
    * a notification whose entries all carry the same state change ends with the right set of known addresses. -/
namespace Spine.Disc

/-- one entry: whole message = that entry, the two members coincide (tree, events, outcome) -/
theorem single_entry_same (ei : EI) (feats : List F) (t : Tree) :
    notifyPartial ⟨[ei], feats⟩ t = notifyPartialFixed ⟨[ei], feats⟩ t := by
  unfold notifyPartial notifyPartialFixed
  cases hc : ei.chg <;>
    simp [hc, stepWritten, stepFixed, addAll, remAll, List.takeWhile]

theorem mem_addAll (m : Msg) (t : Tree) (a : List Nat) :
    a ∈ addrs (addAll m t).1 ↔ a ∈ addrs t ∨ a ∈ m.ents.map (·.addr) := by
  unfold addAll
  suffices ∀ (l : List EI) (acc : Tree × List Evt),
      a ∈ addrs (l.foldl (addOne m) acc).1 ↔ a ∈ addrs acc.1 ∨ a ∈ l.map (·.addr) from this m.ents (t, [])
  intro l
  induction l with
  | nil => intro acc; simp
  | cons ei l ih =>
    intro acc
    rw [List.foldl_cons, ih, mem_addOne]
    simp only [List.map_cons, List.mem_cons]
    constructor
    · rintro ((h | h) | h)
      · exact Or.inl h
      · exact Or.inr (Or.inl h)
      · exact Or.inr (Or.inr h)
    · rintro (h | h | h)
      · exact Or.inl (Or.inl h)
      · exact Or.inl (Or.inr h)
      · exact Or.inr h

theorem mem_remAll (m : Msg) (t : Tree) (a : List Nat) :
    a ∈ addrs (remAll m t).1 ↔ a ∈ addrs t ∧ a ∉ m.ents.map (·.addr) := by
  unfold remAll
  suffices ∀ (l : List EI) (acc : Tree × List Evt),
      a ∈ addrs (l.foldl remOne acc).1 ↔ a ∈ addrs acc.1 ∧ a ∉ l.map (·.addr) from this m.ents (t, [])
  intro l
  induction l with
  | nil => intro acc; simp
  | cons ei l ih =>
    intro acc
    rw [List.foldl_cons, ih, mem_remOne]
    simp only [List.map_cons, List.mem_cons, not_or]
    constructor
    · rintro ⟨⟨h, hne⟩, hn⟩; exact ⟨h, hne, hn⟩
    · rintro ⟨h, hne, hn⟩; exact ⟨⟨h, hne⟩, hn⟩

/-- as written, all entries `added`: after the loop the listed addresses are known in addition -/
theorem mem_foldWritten_added (m : Msg) (a : List Nat) : ∀ (l : List EI) (acc : Tree × List Evt),
    (∀ ei ∈ l, ei.chg = .added) →
    (a ∈ addrs (l.foldl (stepWritten m) acc).1 ↔ a ∈ addrs acc.1 ∨ (l ≠ [] ∧ a ∈ m.ents.map (·.addr)))
  | [], acc, _ => by simp
  | ei :: l, acc, h => by
    have h1 : ei.chg = .added := h ei (List.mem_cons_self ..)
    rw [List.foldl_cons, mem_foldWritten_added m a l _ (fun x hx => h x (List.mem_cons_of_mem _ hx))]
    simp only [stepWritten, h1, mem_addAll]
    constructor
    · rintro ((h | h) | ⟨_, h⟩)
      · exact Or.inl h
      · exact Or.inr ⟨by simp, h⟩
      · exact Or.inr ⟨by simp, h⟩
    · rintro (h | ⟨_, h⟩)
      · exact Or.inl (Or.inl h)
      · exact Or.inl (Or.inr h)

/-- as written, all entries `removed`: after the loop the listed addresses are unknown -/
theorem mem_foldWritten_removed (m : Msg) (a : List Nat) : ∀ (l : List EI) (acc : Tree × List Evt),
    (∀ ei ∈ l, ei.chg = .removed) →
    (a ∈ addrs (l.foldl (stepWritten m) acc).1 ↔ a ∈ addrs acc.1 ∧ ¬ (l ≠ [] ∧ a ∈ m.ents.map (·.addr)))
  | [], acc, _ => by simp
  | ei :: l, acc, h => by
    have h1 : ei.chg = .removed := h ei (List.mem_cons_self ..)
    rw [List.foldl_cons, mem_foldWritten_removed m a l _ (fun x hx => h x (List.mem_cons_of_mem _ hx))]
    simp only [stepWritten, h1, mem_remAll]
    constructor
    · rintro ⟨⟨h, hn⟩, _⟩
      exact ⟨h, fun hh => hn hh.2⟩
    · rintro ⟨h, hn⟩
      have hn' : a ∉ m.ents.map (·.addr) := fun hh => hn ⟨by simp, hh⟩
      exact ⟨⟨h, hn'⟩, fun hh => hn' hh.2⟩

theorem applyTo_fold_added (a : List Nat) : ∀ (l : List EI) (b : Bool), (∀ ei ∈ l, ei.chg = .added) →
    l.foldl (applyTo a) b = (b || decide (a ∈ l.map (·.addr)))
  | [], b, _ => by simp
  | ei :: l, b, h => by
    have h1 : ei.chg = .added := h ei (List.mem_cons_self ..)
    rw [List.foldl_cons, applyTo_fold_added a l _ (fun x hx => h x (List.mem_cons_of_mem _ hx))]
    by_cases ha : ei.addr = a
    · subst ha; simp [applyTo, h1]
    · have : ¬ a = ei.addr := fun h' => ha h'.symm
      simp [applyTo, ha, this]

theorem applyTo_fold_removed (a : List Nat) : ∀ (l : List EI) (b : Bool), (∀ ei ∈ l, ei.chg = .removed) →
    l.foldl (applyTo a) b = (b && !decide (a ∈ l.map (·.addr)))
  | [], b, _ => by simp
  | ei :: l, b, h => by
    have h1 : ei.chg = .removed := h ei (List.mem_cons_self ..)
    rw [List.foldl_cons, applyTo_fold_removed a l _ (fun x hx => h x (List.mem_cons_of_mem _ hx))]
    by_cases ha : ei.addr = a
    · subst ha; simp [applyTo, h1]
    · have : ¬ a = ei.addr := fun h' => ha h'.symm
      simp [applyTo, ha, this]

theorem any_none_false_of_added {l : List EI} (h : ∀ ei ∈ l, ei.chg = .added) : l.any (·.chg = .none) = false := by
  rw [List.any_eq_false]
  intro x hx
  simp [h x hx]

theorem any_none_false_of_removed {l : List EI} (h : ∀ ei ∈ l, ei.chg = .removed) : l.any (·.chg = .none) = false := by
  rw [List.any_eq_false]
  intro x hx
  simp [h x hx]

/-- C06 (partial, code as written): a notification whose entries are all `added` ends with the known addresses the
    specification demands -/
theorem written_all_added (m : Msg) (t : Tree) (a : List Nat) (hne : m.ents ≠ []) (h : ∀ ei ∈ m.ents, ei.chg = .added) :
    decide (a ∈ addrs (notifyPartial m t).1) = m.ents.foldl (applyTo a) (decide (a ∈ addrs t)) := by
  unfold notifyPartial
  have he : m.ents.isEmpty = false := by cases h' : m.ents with | nil => exact absurd h' hne | cons _ _ => rfl
  rw [he, any_none_false_of_added h, applyTo_fold_added a m.ents _ h]
  simp only [Bool.false_eq_true, if_false]
  have := mem_foldWritten_added m a m.ents (t, []) h
  by_cases h1 : a ∈ addrs t <;> by_cases h2 : a ∈ m.ents.map (·.addr) <;> simp_all

/-- … and likewise when they are all `removed` -/
theorem written_all_removed (m : Msg) (t : Tree) (a : List Nat) (hne : m.ents ≠ []) (h : ∀ ei ∈ m.ents, ei.chg = .removed) :
    decide (a ∈ addrs (notifyPartial m t).1) = m.ents.foldl (applyTo a) (decide (a ∈ addrs t)) := by
  unfold notifyPartial
  have he : m.ents.isEmpty = false := by cases h' : m.ents with | nil => exact absurd h' hne | cons _ _ => rfl
  rw [he, any_none_false_of_removed h, applyTo_fold_removed a m.ents _ h]
  simp only [Bool.false_eq_true, if_false]
  have := mem_foldWritten_removed m a m.ents (t, []) h
  by_cases h1 : a ∈ addrs t <;> by_cases h2 : a ∈ m.ents.map (·.addr) <;> simp_all

end Spine.Disc
