import Spine.UpdateF
import Spine.Store
/-! The per-type wrapper and `FunctionData.UpdateData` over the flagged engine family (`Spine.UpdateF`), for the
    C02 driver: the check probes the engine's defect flags on the tree under test and runs the matching member,
    so that a repair of a C04 / C05 engine site in /repo does not break C02's correspondence. The member with
    all flags on is the code as written — `updateStoreF_asWritten`, `updateDataF_asWritten` — and that is the
    member every C02 theorem (stated over `updateList` / `updateStore`) speaks about. -/
namespace Spine

def updateStoreF (c : UCfg) (sh : Shape) (remote persist : Bool) (store nw : List Item) (fp fd : Option Filter) :
    Outcome (List Item × List Item × Bool) :=
  match updateListF c sh remote store nw fp fd with
  | .panic s => .panic s
  | .ok r => .ok (if r.ok && persist then r.out else r.inplace, r.out, r.ok)

def updateDataF (c : UCfg) (sh : Shape) (remote persist fpNil fdNil : Bool) (store nw : List Item)
    (fp fd : Option Filter) : Outcome (List Item × Bool) :=
  if fpNil && fdNil && persist then .ok (nw, true) else
  match updateStoreF c sh remote persist store nw fp fd with
  | .panic s => .panic s
  | .ok (st, _, ok) => .ok (st, ok)

theorem updateStoreF_asWritten (sh : Shape) (remote persist : Bool) (store nw : List Item) (fp fd : Option Filter) :
    updateStoreF .asWritten sh remote persist store nw fp fd = updateStore sh remote persist store nw fp fd := by
  unfold updateStoreF updateStore
  rw [updateListF_asWritten]
  cases updateList sh remote store nw fp fd <;> rfl

theorem updateDataF_asWritten (sh : Shape) (remote persist fpNil fdNil : Bool) (store nw : List Item)
    (fp fd : Option Filter) :
    updateDataF .asWritten sh remote persist fpNil fdNil store nw fp fd
      = updateData sh remote persist fpNil fdNil store nw fp fd := by
  unfold updateDataF updateData
  rw [updateStoreF_asWritten]
  cases updateStore sh remote persist store nw fp fd <;> rfl

end Spine
