import Spine.BindSchedThm
/-! Linearisability of the repaired `AddBinding` in the registry family: every event list (start / look / commit of any
    number of requests by any number of peers, interleaved with any other registry calls) over static announced trees
    leaves the registry that the sequential history `Reg.run` of its linearisation points leaves — up to the ids, which
    the interleaved code draws in `look` order — and gives every request the answer the sequential call gets. -/
namespace Spine.BindSched
open Spine.Reg

/-! ### registries equal up to ids -/

/-- same trees, same subscriptions, same bindings up to their ids (and the id counter) -/
structure KeyEq (a b : Reg.St) : Prop where
  loc : a.loc = b.loc
  rem : a.rem = b.rem
  bare : a.bare = b.bare
  subs : a.subs = b.subs
  subNum : a.subNum = b.subNum
  binds : a.binds.map key = b.binds.map key

theorem KeyEq.rfl' (a : Reg.St) : KeyEq a a := ⟨rfl, rfl, rfl, rfl, rfl, rfl⟩

def unkey (k : Nat × List Nat × Nat × List Nat × Nat) : Entry := ⟨0, k.2.2.2.1, k.2.2.2.2, k.1, k.2.1, k.2.2.1⟩

/-- a predicate on entries that does not look at the id -/
def IdFree (f : Entry → Bool) : Prop := ∀ e, f e = f (unkey (key e))

theorem idFree_comp {f : Entry → Bool} (hf : IdFree f) : f = (f ∘ unkey) ∘ key := by
  funext e; exact hf e

theorem any_via_key (l : List Entry) {f : Entry → Bool} (hf : IdFree f) : l.any f = (l.map key).any (f ∘ unkey) := by
  induction l with
  | nil => rfl
  | cons e l ih => simp only [List.any_cons, List.map_cons, ih, Function.comp]; rw [← hf e]

theorem filter_via_key (l : List Entry) {f : Entry → Bool} (hf : IdFree f) :
    (l.filter f).map key = (l.map key).filter (f ∘ unkey) := by
  induction l with
  | nil => rfl
  | cons e l ih =>
    have he := hf e
    simp only [List.filter_cons, List.map_cons, Function.comp]
    cases hfe : f e
    · rw [hfe] at he; simp [← he, ih, Function.comp]
    · rw [hfe] at he; simp [← he, ih, Function.comp]

theorem any_idFree {l1 l2 : List Entry} (h : l1.map key = l2.map key) {f : Entry → Bool} (hf : IdFree f) :
    l1.any f = l2.any f := by
  rw [any_via_key l1 hf, any_via_key l2 hf, h]

theorem filter_idFree {l1 l2 : List Entry} (h : l1.map key = l2.map key) {f : Entry → Bool} (hf : IdFree f) :
    (l1.filter f).map key = (l2.filter f).map key := by
  rw [filter_via_key l1 hf, filter_via_key l2 hf, h]

/-- close one field of a `KeyEq` goal: by computation or by the corresponding field of the hypothesis -/
macro "keq_field " h:ident : tactic =>
  `(tactic| first | rfl | exact ($h).loc | exact ($h).rem | exact ($h).bare | exact ($h).subs | exact ($h).subNum
                  | exact ($h).binds)

theorem length_of_keys {l1 l2 : List Entry} (h : l1.map key = l2.map key) : l1.length = l2.length := by
  have := congrArg List.length h
  simpa using this

theorem idFree_is (p : Nat) (ce : List Nat) (cf : Nat) (se : List Nat) (sf : Nat) :
    IdFree (fun e => e.is p ce cf se sf) := fun _ => rfl
theorem idFree_server (se : List Nat) (sf : Nat) : IdFree (fun e => decide (e.sEnt = se) && decide (e.sFeat = sf)) :=
  fun _ => rfl
theorem idFree_unbindKeep (c : Cfg) (p cd : Nat) (ce : List Nat) (cf : Nat) (se : List Nat) (sf : Nat) :
    IdFree (unbindKeep c p cd ce cf se sf) := fun _ => rfl
theorem idFree_peerEnts (b : Bool) (p : Nat) (ents : List (List Nat)) :
    IdFree (fun e => !((b || decide (e.peer = p)) && ents.contains e.cEnt)) := fun _ => rfl
theorem idFree_peerEnt (b : Bool) (p : Nat) (ent : List Nat) :
    IdFree (fun e => !((b || decide (e.peer = p)) && decide (e.cEnt = ent))) := fun _ => rfl

theorem requestOk_congr {a b : Reg.St} (h : KeyEq a b) (p : Nat) (ce : List Nat) (cf : Nat) (se : List Nat) (sf t : Nat) :
    requestOk a p ce cf se sf t = requestOk b p ce cf se sf t := by
  unfold requestOk; rw [h.loc, h.rem]

theorem addBind_keyEq {a b : Reg.St} (h : KeyEq a b) (p : Nat) (ce : List Nat) (cf : Nat) (se : List Nat) (sf t : Nat) :
    KeyEq (addBind a p ce cf se sf t).1 (addBind b p ce cf se sf t).1 ∧
    (addBind a p ce cf se sf t).2 = (addBind b p ce cf se sf t).2 := by
  have h1 := requestOk_congr h p ce cf se sf t
  have h2 : a.binds.any (fun e => decide (e.sEnt = se) && decide (e.sFeat = sf)) =
      b.binds.any (fun e => decide (e.sEnt = se) && decide (e.sFeat = sf)) := any_idFree h.binds (idFree_server se sf)
  unfold addBind
  rw [h1, h2]
  by_cases hr : requestOk b p ce cf se sf t = true
  · by_cases hb : b.binds.any (fun e => decide (e.sEnt = se) && decide (e.sFeat = sf)) = true
    · simp only [hr, hb, Bool.not_true, Bool.false_eq_true, if_false, if_true, and_true]
      exact h
    · have hb' : b.binds.any (fun e => decide (e.sEnt = se) && decide (e.sFeat = sf)) = false := by simpa using hb
      simp only [hr, hb', Bool.not_true, Bool.false_eq_true, if_false, and_true]
      exact ⟨h.loc, h.rem, h.bare, h.subs, h.subNum, by simp [h.binds, key]⟩
  · have hr' : requestOk b p ce cf se sf t = false := by simpa using hr
    simp only [hr', Bool.not_false, if_true, and_true]
    exact h

theorem delBind_keyEq (c : Cfg) {a b : Reg.St} (h : KeyEq a b) (p cd : Nat) (ce : List Nat) (cf : Nat) (se : List Nat)
    (sf : Nat) : KeyEq (delBind c a p cd ce cf se sf).1 (delBind c b p cd ce cf se sf).1 := by
  have h2 : a.binds.any (fun e => e.is p ce cf se sf) = b.binds.any (fun e => e.is p ce cf se sf) :=
    any_idFree h.binds (idFree_is p ce cf se sf)
  have h3 := filter_idFree h.binds (idFree_unbindKeep c p cd ce cf se sf)
  have h4 := length_of_keys h3
  have h5 := length_of_keys h.binds
  unfold delBind
  rw [h.loc, h.rem]
  split
  · dsimp only
    split
    · exact h
    · rw [h2]
      split
      · exact h
      · rw [h4, h5]
        split
        · exact h
        · exact ⟨by keq_field h, by keq_field h, by keq_field h, by keq_field h, by keq_field h, h3⟩
  · exact h

theorem addSub_keyEq {a b : Reg.St} (h : KeyEq a b) (p : Nat) (ce : List Nat) (cf : Nat) (se : List Nat) (sf t : Nat) :
    KeyEq (addSub a p ce cf se sf t).1 (addSub b p ce cf se sf t).1 := by
  have h1 := requestOk_congr h p ce cf se sf t
  unfold addSub
  rw [h1, h.subs, h.subNum]
  split
  · exact h
  · split
    · exact ⟨by keq_field h, by keq_field h, by keq_field h, by keq_field h, by keq_field h, by keq_field h⟩
    · exact ⟨by keq_field h, by keq_field h, by keq_field h, by keq_field h, by keq_field h, by keq_field h⟩

theorem delSub_keyEq (c : Cfg) {a b : Reg.St} (h : KeyEq a b) (p cd : Nat) (ce : List Nat) (cf : Nat) (se : List Nat)
    (sf : Nat) : KeyEq (delSub c a p cd ce cf se sf).1 (delSub c b p cd ce cf se sf).1 := by
  unfold delSub
  rw [h.loc, h.rem, h.subs]
  split
  · split
    · exact h
    · dsimp only
      split
      · exact h
      · exact ⟨by keq_field h, by keq_field h, by keq_field h, by keq_field h, by keq_field h, by keq_field h⟩
  · exact h

/-- every call that leaves the trees alone maps registries equal up to ids to registries equal up to ids -/
theorem regStep_keyEq (c : Cfg) {a b : Reg.St} (h : KeyEq a b) (o : Reg.Op) (hs : (Ev.op o).static = true) :
    KeyEq (Reg.step c a o) (Reg.step c b o) := by
  cases o with
  | bind p ce cf se sf t => exact (addBind_keyEq h p ce cf se sf t).1
  | unbind p cd ce cf se sf => exact delBind_keyEq c h p cd ce cf se sf
  | sub p ce cf se sf t => exact addSub_keyEq h p ce cf se sf t
  | unsub p cd ce cf se sf => exact delSub_keyEq c h p cd ce cf se sf
  | drop p =>
    simp only [Reg.step, removePeer, knownEnts]
    rw [h.rem, h.bare, h.subs]
    exact ⟨by keq_field h, by keq_field h, by keq_field h, by keq_field h, by keq_field h, filter_idFree h.binds (idFree_peerEnts _ p _)⟩
  | dropEnt p ent => simp [Ev.static] at hs
  | bareEnt p ent => simp [Ev.static] at hs
  | subsPass p ent =>
    simp only [Reg.step, Reg.subsPass]
    rw [h.subs]
    exact ⟨by keq_field h, by keq_field h, by keq_field h, by keq_field h, by keq_field h, by keq_field h⟩
  | bindsPass p ent =>
    simp only [Reg.step, Reg.bindsPass]
    exact ⟨h.loc, h.rem, h.bare, h.subs, h.subNum, filter_idFree h.binds (idFree_peerEnt _ p ent)⟩

theorem regStep_trees (c : Cfg) (s : Reg.St) (o : Reg.Op) (hs : (Ev.op o).static = true) :
    (Reg.step c s o).loc = s.loc ∧ (Reg.step c s o).rem = s.rem := by
  cases o with
  | bind p ce cf se sf t => have := addBind_shape s p ce cf se sf t; exact ⟨this.2.2.2, this.2.2.1⟩
  | unbind p cd ce cf se sf => have := delBind_shape c s p cd ce cf se sf; exact ⟨this.2.2.2.2.2, this.2.2.2.2.1⟩
  | sub p ce cf se sf t => have := addSub_shape s p ce cf se sf t; exact ⟨this.2.2.2, this.2.2.1⟩
  | unsub p cd ce cf se sf => have := delSub_shape c s p cd ce cf se sf; exact ⟨this.2.2.2, this.2.2.1⟩
  | drop p => exact ⟨rfl, rfl⟩
  | dropEnt p ent => simp [Ev.static] at hs
  | bareEnt p ent => simp [Ev.static] at hs
  | subsPass p ent => exact ⟨rfl, rfl⟩
  | bindsPass p ent => exact ⟨rfl, rfl⟩

/-! ### requests in flight have passed their checks -/

theorem serverOk_congr {a b : Reg.St} (h : a.loc = b.loc) (r : Req) : serverOk a r = serverOk b r := by
  unfold serverOk; rw [h]
theorem clientOk_congr {a b : Reg.St} (h : a.rem = b.rem) (r : Req) : clientOk a r = clientOk b r := by
  unfold clientOk; rw [h]

theorem requestOk_split (s : Reg.St) (r : Req) :
    requestOk s r.p r.cEnt r.cFeat r.sEnt r.sFeat r.typ = (serverOk s r && clientOk s r) := by
  unfold requestOk serverOk clientOk
  cases findF s.loc r.sEnt r.sFeat <;> cases findF (s.rem r.p) r.cEnt r.cFeat <;> simp

structure PInv (s : St) : Prop where
  started : ∀ x ∈ s.started, serverOk s.reg x.2 = true
  looked : ∀ x ∈ s.looked, serverOk s.reg x.2.1 = true ∧ clientOk s.reg x.2.1 = true

theorem PInv.of_trees {s s' : St} (h : PInv s) (hl : s'.reg.loc = s.reg.loc) (hr : s'.reg.rem = s.reg.rem)
    (h1 : ∀ x ∈ s'.started, x ∈ s.started) (h2 : ∀ x ∈ s'.looked, x ∈ s.looked) : PInv s' :=
  ⟨fun x hx => by rw [serverOk_congr hl]; exact h.started x (h1 x hx),
   fun x hx => by rw [serverOk_congr hl, clientOk_congr hr]; exact h.looked x (h2 x hx)⟩

theorem addBind_refused (t : Reg.St) (r : Req) (h : (serverOk t r && clientOk t r) = false) :
    addBind t r.p r.cEnt r.cFeat r.sEnt r.sFeat r.typ = (t, false) := by
  unfold addBind
  rw [requestOk_split, h]
  simp

/-- the relation between the interleaved run and the sequential run of the linearisation points so far -/
structure Sim (s : St) (t : Reg.St) : Prop where
  keq : KeyEq s.reg t
  pinv : PInv s

/-- one event: the interleaved state stays related to the sequential state advanced by the event's linearisation
    point (if it has one), and the answer given at the event (if any) is the sequential call's answer -/
theorem step_sim (c : Cfg) (s : St) (t : Reg.St) (h : Sim s t) (e : Ev) (hs : e.static = true) :
    Sim (step c s e) ((match lin s e with | some o => [o] | none => []).foldl (Reg.step c) t) ∧
    (match outcome s e with | some b => [b] | none => []) =
      seqOutcomes c t (match lin s e with | some o => [o] | none => []) := by
  cases e with
  | start k r =>
    simp only [step, startStep, lin, outcome]
    by_cases hf : inFlight s k = true
    · simp only [hf, if_true, List.foldl_nil, seqOutcomes, and_true]; exact h
    · simp only [hf, Bool.false_eq_true, if_false]
      by_cases hok : serverOk s.reg r = true
      · simp only [hok, if_true, List.foldl_nil, seqOutcomes, and_true]
        refine ⟨h.keq, ⟨?_, h.pinv.looked⟩⟩
        intro x hx
        rcases List.mem_append.mp hx with hx | hx
        · exact h.pinv.started x hx
        · simp only [List.mem_singleton] at hx; subst hx; exact hok
      · have hok' : serverOk s.reg r = false := by simpa using hok
        have hT : (serverOk t r && clientOk t r) = false := by
          rw [← serverOk_congr h.keq.loc, hok']; rfl
        simp only [hok', Bool.false_eq_true, if_false, List.foldl_cons, List.foldl_nil, Req.op, Reg.step, seqOutcomes,
          List.append_nil, addBind_refused t r hT, and_true]
        exact h
  | look k =>
    simp only [step, lookStep, lin, outcome]
    cases hfind : s.started.find? (·.1 = k) with
    | none => simp only [List.foldl_nil, seqOutcomes, and_true]; exact h
    | some x =>
      obtain ⟨k', r⟩ := x
      have hmem := List.mem_of_find?_eq_some hfind
      have hsrv := h.pinv.started _ hmem
      dsimp only
      by_cases hok : clientOk s.reg r = true
      · simp only [hok, if_true, List.foldl_nil, seqOutcomes, and_true]
        refine ⟨⟨h.keq.loc, h.keq.rem, h.keq.bare, h.keq.subs, h.keq.subNum, h.keq.binds⟩, ⟨?_, ?_⟩⟩
        · intro y hy
          exact h.pinv.started y (List.mem_filter.mp hy).1
        · intro y hy
          rcases List.mem_append.mp hy with hy | hy
          · exact h.pinv.looked y hy
          · simp only [List.mem_singleton] at hy; subst hy; exact ⟨hsrv, hok⟩
      · have hok' : clientOk s.reg r = false := by simpa using hok
        have hT : (serverOk t r && clientOk t r) = false := by
          rw [← clientOk_congr h.keq.rem, hok']; simp
        simp only [hok', Bool.false_eq_true, if_false, List.foldl_cons, List.foldl_nil, Req.op, Reg.step, seqOutcomes,
          List.append_nil, addBind_refused t r hT, and_true]
        exact ⟨h.keq, ⟨fun y hy => h.pinv.started y (List.mem_filter.mp hy).1, h.pinv.looked⟩⟩
  | commit k =>
    simp only [step, commitStep, lin, outcome]
    cases hfind : s.looked.find? (·.1 = k) with
    | none => simp only [List.foldl_nil, seqOutcomes, and_true]; exact h
    | some x =>
      obtain ⟨k', r, id⟩ := x
      have hmem := List.mem_of_find?_eq_some hfind
      have hchk := h.pinv.looked _ hmem
      dsimp only at hchk ⊢
      have hreq : requestOk t r.p r.cEnt r.cFeat r.sEnt r.sFeat r.typ = true := by
        rw [requestOk_split, ← serverOk_congr h.keq.loc, ← clientOk_congr h.keq.rem, hchk.1, hchk.2]; rfl
      have hbnd : bound s.reg r = t.binds.any (fun e => decide (e.sEnt = r.sEnt) && decide (e.sFeat = r.sFeat)) :=
        any_idFree h.keq.binds (idFree_server r.sEnt r.sFeat)
      simp only [List.foldl_cons, List.foldl_nil, Req.op, Reg.step, seqOutcomes, List.append_nil]
      by_cases hb : bound s.reg r = true
      · have hb' := hbnd ▸ hb
        have hadd : addBind t r.p r.cEnt r.cFeat r.sEnt r.sFeat r.typ = (t, false) := by
          unfold addBind; simp [hreq, hb']
        simp only [hb, if_true, hadd, Bool.not_true, and_true]
        exact ⟨h.keq, ⟨h.pinv.started, fun y hy => h.pinv.looked y (List.mem_filter.mp hy).1⟩⟩
      · have hb0 : bound s.reg r = false := by simpa using hb
        have hb' := hbnd ▸ hb0
        have hadd : addBind t r.p r.cEnt r.cFeat r.sEnt r.sFeat r.typ =
            ({ t with bindNum := t.bindNum + 1,
                      binds := t.binds ++ [⟨t.bindNum + 1, r.sEnt, r.sFeat, r.p, r.cEnt, r.cFeat⟩] }, true) := by
          unfold addBind; simp [hreq, hb']
        simp only [hb0, Bool.false_eq_true, if_false, hadd, Bool.not_false, and_true]
        refine ⟨⟨h.keq.loc, h.keq.rem, h.keq.bare, h.keq.subs, h.keq.subNum, ?_⟩, ⟨?_, ?_⟩⟩
        · simp [h.keq.binds, key, entryOf]
        · exact h.pinv.started
        · intro y hy; exact h.pinv.looked y (List.mem_filter.mp hy).1
  | op o =>
    have htr := regStep_trees c s.reg o hs
    have hk := regStep_keyEq c h.keq o hs
    refine ⟨⟨by simpa [step, lin] using hk, ?_⟩, ?_⟩
    · exact h.pinv.of_trees (by simpa [step] using htr.1) (by simpa [step] using htr.2) (fun x hx => hx) (fun x hx => hx)
    · cases o with
      | bind p ce cf se sf ty =>
        simp only [outcome, lin, seqOutcomes, List.append_nil]
        rw [(addBind_keyEq h.keq p ce cf se sf ty).2]
      | _ => simp [outcome, lin, seqOutcomes]

theorem trace_cons (c : Cfg) (s : St) (e : Ev) (es : List Ev) :
    trace c s (e :: es) = (match lin s e with | some o => [o] | none => []) ++ trace c (step c s e) es := rfl

theorem outcomes_cons (c : Cfg) (s : St) (e : Ev) (es : List Ev) :
    outcomes c s (e :: es) = (match outcome s e with | some b => [b] | none => []) ++ outcomes c (step c s e) es := rfl

theorem seqOutcomes_append (c : Cfg) (t : Reg.St) (a b : List Reg.Op) :
    seqOutcomes c t (a ++ b) = seqOutcomes c t a ++ seqOutcomes c (a.foldl (Reg.step c) t) b := by
  induction a generalizing t with
  | nil => rfl
  | cons o os ih => simp only [List.cons_append, seqOutcomes, List.foldl_cons, ih, List.append_assoc]

theorem runFrom_sim (c : Cfg) (evs : List Ev) (hs : ∀ e ∈ evs, e.static = true) (s : St) (t : Reg.St) (h : Sim s t) :
    Sim (runFrom c s evs) ((trace c s evs).foldl (Reg.step c) t) ∧
    outcomes c s evs = seqOutcomes c t (trace c s evs) := by
  induction evs generalizing s t with
  | nil => exact ⟨h, rfl⟩
  | cons e es ih =>
    have h1 := step_sim c s t h e (hs e List.mem_cons_self)
    have h2 := ih (fun e' he' => hs e' (List.mem_cons_of_mem _ he')) _ _ h1.1
    rw [trace_cons, outcomes_cons, List.foldl_append, seqOutcomes_append, ← h1.2, ← h2.2]
    exact ⟨h2.1, rfl⟩

/-- LINEARISABILITY. Every member of the family, every event list over static announced trees — any number of
    requests of any number of peers, split at the program points of the repaired `AddBinding`, interleaved in any
    order with each other and with any other registry calls: the registry afterwards is the registry of the sequential
    history of the linearisation points (same trees, same subscriptions, same bindings up to ids), and the answers the
    requests get are the answers of the sequential calls, in the order in which the requests end. -/
theorem linearisable (c : Cfg) (loc : List Feat) (rem : Nat → List Feat) (evs : List Ev)
    (hs : ∀ e ∈ evs, e.static = true) :
    KeyEq (run c loc rem evs).reg (Reg.run c loc rem (trace c (init loc rem) evs)) ∧
    outcomes c (init loc rem) evs = seqOutcomes c { loc := loc, rem := rem } (trace c (init loc rem) evs) := by
  have h0 : Sim (init loc rem) { loc := loc, rem := rem } :=
    ⟨KeyEq.rfl' _, ⟨by simp [init], by simp [init]⟩⟩
  have := runFrom_sim c evs hs (init loc rem) _ h0
  exact ⟨this.1.keq, this.2⟩

end Spine.BindSched
