/-! C05, header layer of `DeviceLocal.ProcessCmd` over a datagram in which everything the code dereferences before
    it reaches the feature is optional. `guards = false` is the code as written, `true` the first group of repairs. -/
namespace Spine.Hdr

inductive Cls | read | reply | notify | write | call | result deriving DecidableEq, Repr

structure Raw where
  src : Option (List Nat × Nat)
  dst : Option (List Nat × Nat)
  cls : Option Cls
  ref : Option Nat
  msgCounter : Bool                -- the header carries a msgCounter
  cmds : Nat                       -- number of cmd elements
  filterWithoutCmdControl : Bool   -- some filter of cmd[0] lacks cmdControl
  resultData : Bool                -- cmd[0].resultData present
  errorNumber : Bool               -- … and carries an errorNumber
  srcKnown : Bool                  -- the source feature is announced
  dstKnown : Bool                  -- the destination feature exists
  responds : Bool                  -- the feature layer answers this datagram with a reply or result (B.12)
deriving Repr

inductive Pre
  | panic (site : String)
  | dropped                        -- returns an error, nothing is sent
  | errorResult                    -- answers with an error result and returns
  | proceed                        -- goes on to the write gate and the feature
deriving DecidableEq, Repr

/-- every reply or result copies the request's msgCounter into msgCounterReference; the sender's
    `PrintMessageOverview` dereferences it -/
def answerWith (guards : Bool) (d : Raw) (p : Pre) : Pre :=
  if !guards && !d.msgCounter then .panic "PrintMessageOverview(nil reference, outgoing)" else p

def pre (guards : Bool) (d : Raw) : Pre :=
  if guards && (d.src.isNone || d.dst.isNone) then .dropped else
  if d.dst.isNone then .panic "FeatureByAddress(nil destination)" else
  if d.cmds = 0 then .dropped else
  if !guards && d.filterWithoutCmdControl then .panic "ExtractFilter(nil cmdControl)" else
  if d.src.isNone then .panic "ProcessCmd(nil source)" else
  if !d.srcKnown then .dropped else
  if d.cls.isNone then answerWith guards d .errorResult else
  if !d.dstKnown then answerWith guards d .errorResult else
  -- PrintMessageOverview, evaluated although debug logging is off
  if !guards && (d.cls = some .reply || d.cls = some .result) && d.ref.isNone then .panic "PrintMessageOverview(nil reference)" else
  if !guards && d.cls = some .result && !(d.resultData && d.errorNumber) then .panic "PrintMessageOverview(nil result data)" else
  if d.responds then answerWith guards d .proceed else .proceed

/-- C05, header layer, as written: exactly these datagrams panic -/
theorem pre_panics_iff (d : Raw) :
    (∃ s, pre false d = .panic s) ↔
      (d.dst = none ∨
       (d.cmds ≠ 0 ∧ d.filterWithoutCmdControl = true) ∨
       (d.cmds ≠ 0 ∧ d.src = none) ∨
       (d.cmds ≠ 0 ∧ d.src ≠ none ∧ d.srcKnown = true ∧ d.msgCounter = false ∧
          (d.cls = none ∨ d.dstKnown = false ∨ d.responds = true)) ∨
       (d.cmds ≠ 0 ∧ d.src ≠ none ∧ d.srcKnown = true ∧ d.dstKnown = true ∧
          (((d.cls = some .reply ∨ d.cls = some .result) ∧ d.ref = none) ∨
           (d.cls = some .result ∧ (d.resultData = false ∨ d.errorNumber = false))))) := by
  unfold pre answerWith
  simp only [Bool.false_and, Bool.false_eq_true, if_false, Bool.not_false, Bool.true_and]
  repeat' split
  all_goals simp_all

/-- C05, header layer, repaired: no datagram panics -/
theorem pre_total (d : Raw) : ∀ s, pre true d ≠ .panic s := by
  intro s
  unfold pre answerWith
  simp only [Bool.true_and, Bool.not_true, Bool.false_and, Bool.false_eq_true, if_false]
  repeat' split
  all_goals simp_all

end Spine.Hdr
