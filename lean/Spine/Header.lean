/-! C05, header layer of `DeviceLocal.ProcessCmd` over a datagram in which everything the code dereferences before
    it reaches the feature is optional. The model is a family indexed by `Cfg`: every flag `false` is the code as
    written at the pinned commit, a flag `true` is the corresponding minimal repair (DESIGN §9, first repair group;
    `noResOnRes` is the C01 repair, which changes the outcome class of one row of this layer). -/
namespace Spine.Hdr

inductive Cls | read | reply | notify | write | call | result deriving DecidableEq, Repr

structure Raw where
  src : Option (List Nat × Nat)
  dst : Option (List Nat × Nat)
  cls : Option Cls
  ref : Option Nat
  msgCounter : Bool                -- the header carries a msgCounter
  cmds : Nat                       -- number of cmd elements
  filterWithoutCmdControl : Bool   -- some filter of cmd[0] lacks cmdControl
  resultData : Bool                -- cmd[0].resultData present
  errorNumber : Bool               -- … and carries an errorNumber
  srcKnown : Bool                  -- the source feature is announced
  dstKnown : Bool                  -- the destination feature exists
  responds : Bool                  -- the feature layer answers this datagram with a reply or result (B.12)
deriving Repr

inductive Pre
  | panic (site : String)
  | dropped                        -- returns an error, nothing is sent
  | errorResult                    -- answers with an error result and returns
  | proceed                        -- goes on to the write gate and the feature
deriving DecidableEq, Repr

/-- which repairs the tree under test contains (probed by the harness on the real code) -/
structure Cfg where
  addr : Bool        -- `ProcessCmd` rejects a datagram without source or destination address
  filter : Bool      -- `ExtractFilter` skips a filter without `cmdControl`
  pmo : Bool         -- `PrintMessageOverview` tolerates absent reference / result data (incoming and outgoing)
  noResOnRes : Bool  -- a `result` to an unknown destination is not answered (repair of C01)
deriving DecidableEq, Repr

def Cfg.asWritten : Cfg := ⟨false, false, false, false⟩
def Cfg.repaired : Cfg := ⟨true, true, true, true⟩

/-- every reply or result copies the request's msgCounter into msgCounterReference; the sender's
    `PrintMessageOverview` dereferences it -/
def answerWith (c : Cfg) (d : Raw) (p : Pre) : Pre :=
  if !c.pmo && !d.msgCounter then .panic "PrintMessageOverview(nil reference, outgoing)" else p

def pre (c : Cfg) (d : Raw) : Pre :=
  if c.addr && (d.src.isNone || d.dst.isNone) then .dropped else
  if d.dst.isNone then .panic "FeatureByAddress(nil destination)" else
  if d.cmds = 0 then .dropped else
  if !c.filter && d.filterWithoutCmdControl then .panic "ExtractFilter(nil cmdControl)" else
  if d.src.isNone then .panic "ProcessCmd(nil source)" else
  if !d.srcKnown then .dropped else
  if d.cls.isNone then answerWith c d .errorResult else
  if !d.dstKnown then
    (if c.noResOnRes && d.cls = some .result then .dropped else answerWith c d .errorResult) else
  -- PrintMessageOverview, evaluated although debug logging is off
  if !c.pmo && (d.cls = some .reply || d.cls = some .result) && d.ref.isNone then .panic "PrintMessageOverview(nil reference)" else
  if !c.pmo && d.cls = some .result && !(d.resultData && d.errorNumber) then .panic "PrintMessageOverview(nil result data)" else
  if d.responds then answerWith c d .proceed else .proceed

/-- C05, header layer, as written: exactly these datagrams panic -/
theorem pre_panics_iff (d : Raw) :
    (∃ s, pre Cfg.asWritten d = .panic s) ↔
      (d.dst = none ∨
       (d.cmds ≠ 0 ∧ d.filterWithoutCmdControl = true) ∨
       (d.cmds ≠ 0 ∧ d.src = none) ∨
       (d.cmds ≠ 0 ∧ d.src ≠ none ∧ d.srcKnown = true ∧ d.msgCounter = false ∧
          (d.cls = none ∨ d.dstKnown = false ∨ d.responds = true)) ∨
       (d.cmds ≠ 0 ∧ d.src ≠ none ∧ d.srcKnown = true ∧ d.dstKnown = true ∧
          (((d.cls = some .reply ∨ d.cls = some .result) ∧ d.ref = none) ∨
           (d.cls = some .result ∧ (d.resultData = false ∨ d.errorNumber = false))))) := by
  unfold pre answerWith Cfg.asWritten
  simp only [Bool.false_and, Bool.false_eq_true, if_false, Bool.not_false, Bool.true_and]
  repeat' split
  all_goals simp_all

/-- C05, header layer: a member with the three guards panics on no datagram (whatever the C01 flag) -/
theorem pre_total (c : Cfg) (ha : c.addr = true) (hf : c.filter = true) (hp : c.pmo = true) (d : Raw) :
    ∀ s, pre c d ≠ .panic s := by
  intro s
  unfold pre answerWith
  simp only [ha, hf, hp, Bool.true_and, Bool.not_true, Bool.false_and, Bool.false_eq_true, if_false]
  repeat' split
  all_goals simp_all

/-- the right-hand side of the family characterisation: each disjunct is switched off by its flag -/
def PanicGuard (c : Cfg) (d : Raw) : Prop :=
  ¬ (c.addr = true ∧ (d.src = none ∨ d.dst = none)) ∧
  (d.dst = none ∨
   (c.filter = false ∧ d.cmds ≠ 0 ∧ d.filterWithoutCmdControl = true) ∨
   (d.cmds ≠ 0 ∧ d.src = none) ∨
   (c.pmo = false ∧ d.cmds ≠ 0 ∧ d.src ≠ none ∧ d.srcKnown = true ∧ d.msgCounter = false ∧
      (d.cls = none ∨ (d.dstKnown = false ∧ ¬ (c.noResOnRes = true ∧ d.cls = some .result)) ∨
       (d.dstKnown = true ∧ d.responds = true))) ∨
   (c.pmo = false ∧ d.cmds ≠ 0 ∧ d.src ≠ none ∧ d.srcKnown = true ∧ d.dstKnown = true ∧
      (((d.cls = some .reply ∨ d.cls = some .result) ∧ d.ref = none) ∨
       (d.cls = some .result ∧ (d.resultData = false ∨ d.errorNumber = false)))))

set_option linter.unusedSimpArgs false

macro "hdr_family" d:ident : tactic => `(tactic|
  (unfold pre answerWith PanicGuard
   simp only [Bool.false_and, Bool.true_and, Bool.false_eq_true, if_false, Bool.not_false, Bool.not_true, if_true,
     false_and, not_false_eq_true, true_and, and_true]
   cases hs : ($d).src <;> cases hd : ($d).dst <;>
     try simp only [Option.isNone_none, Option.isNone_some, Bool.or_true, Bool.true_or, Bool.or_false, if_true, if_false,
       Bool.false_eq_true]
   all_goals (repeat' split)
   all_goals simp_all))

theorem family_0000 (d : Raw) : (∃ s, pre ⟨false, false, false, false⟩ d = .panic s) ↔ PanicGuard ⟨false, false, false, false⟩ d := by hdr_family d
theorem family_0001 (d : Raw) : (∃ s, pre ⟨false, false, false, true⟩ d = .panic s) ↔ PanicGuard ⟨false, false, false, true⟩ d := by hdr_family d
theorem family_0010 (d : Raw) : (∃ s, pre ⟨false, false, true, false⟩ d = .panic s) ↔ PanicGuard ⟨false, false, true, false⟩ d := by hdr_family d
theorem family_0011 (d : Raw) : (∃ s, pre ⟨false, false, true, true⟩ d = .panic s) ↔ PanicGuard ⟨false, false, true, true⟩ d := by hdr_family d
theorem family_0100 (d : Raw) : (∃ s, pre ⟨false, true, false, false⟩ d = .panic s) ↔ PanicGuard ⟨false, true, false, false⟩ d := by hdr_family d
theorem family_0101 (d : Raw) : (∃ s, pre ⟨false, true, false, true⟩ d = .panic s) ↔ PanicGuard ⟨false, true, false, true⟩ d := by hdr_family d
theorem family_0110 (d : Raw) : (∃ s, pre ⟨false, true, true, false⟩ d = .panic s) ↔ PanicGuard ⟨false, true, true, false⟩ d := by hdr_family d
theorem family_0111 (d : Raw) : (∃ s, pre ⟨false, true, true, true⟩ d = .panic s) ↔ PanicGuard ⟨false, true, true, true⟩ d := by hdr_family d
theorem family_1000 (d : Raw) : (∃ s, pre ⟨true, false, false, false⟩ d = .panic s) ↔ PanicGuard ⟨true, false, false, false⟩ d := by hdr_family d
theorem family_1001 (d : Raw) : (∃ s, pre ⟨true, false, false, true⟩ d = .panic s) ↔ PanicGuard ⟨true, false, false, true⟩ d := by hdr_family d
theorem family_1010 (d : Raw) : (∃ s, pre ⟨true, false, true, false⟩ d = .panic s) ↔ PanicGuard ⟨true, false, true, false⟩ d := by hdr_family d
theorem family_1011 (d : Raw) : (∃ s, pre ⟨true, false, true, true⟩ d = .panic s) ↔ PanicGuard ⟨true, false, true, true⟩ d := by hdr_family d
theorem family_1100 (d : Raw) : (∃ s, pre ⟨true, true, false, false⟩ d = .panic s) ↔ PanicGuard ⟨true, true, false, false⟩ d := by hdr_family d
theorem family_1101 (d : Raw) : (∃ s, pre ⟨true, true, false, true⟩ d = .panic s) ↔ PanicGuard ⟨true, true, false, true⟩ d := by hdr_family d
theorem family_1110 (d : Raw) : (∃ s, pre ⟨true, true, true, false⟩ d = .panic s) ↔ PanicGuard ⟨true, true, true, false⟩ d := by hdr_family d
theorem family_1111 (d : Raw) : (∃ s, pre ⟨true, true, true, true⟩ d = .panic s) ↔ PanicGuard ⟨true, true, true, true⟩ d := by hdr_family d

/-- the family: for every member, exactly which datagrams panic -/
theorem pre_panics_iff_cfg (c : Cfg) (d : Raw) : (∃ s, pre c d = .panic s) ↔ PanicGuard c d := by
  obtain ⟨a, f, p, n⟩ := c
  cases a <;> cases f <;> cases p <;> cases n
  · exact family_0000 d
  · exact family_0001 d
  · exact family_0010 d
  · exact family_0011 d
  · exact family_0100 d
  · exact family_0101 d
  · exact family_0110 d
  · exact family_0111 d
  · exact family_1000 d
  · exact family_1001 d
  · exact family_1010 d
  · exact family_1011 d
  · exact family_1100 d
  · exact family_1101 d
  · exact family_1110 d
  · exact family_1111 d

end Spine.Hdr
