import Spine.LocalTree
/-! Lemmas and invariants of the local device tree model (C07). -/
namespace Spine.LTree

theorem upd_same (pool : Nat → Ent) (k : Nat) (e : Ent) : upd pool k e k = e := by simp [upd]
theorem upd_other (pool : Nat → Ent) (k : Nat) (e : Ent) (j : Nat) (h : j ≠ k) : upd pool k e j = pool j := by
  simp [upd, h]

/-! ### invariants of one entity object -/

/-- feature numbers of an entity are pairwise distinct and below the generator -/
def EntFresh (e : Ent) : Prop := (e.feats.map (·.id)).Nodup ∧ ∀ f ∈ e.feats, f.id < e.nextId

/-- at most one feature per type and role -/
def OnePer (e : Ent) : Prop := ∀ typ role, (e.feats.filter fun f => f.typ = typ && f.role = role).length ≤ 1

/-- no function is registered twice on a feature -/
def FnsNodup (e : Ent) : Prop := ∀ f ∈ e.feats, (f.fns.map (·.fn)).Nodup

def EntInv (e : Ent) : Prop := EntFresh e ∧ OnePer e ∧ FnsNodup e

theorem entInv_empty (et : Nat) : EntInv { etype := et } :=
  ⟨⟨by simp, by simp⟩, by intro t r; simp, by intro f hf; simp at hf⟩

theorem nmFns_nodup (fset : Nat) : ((nmFns fset).map (·.fn)).Nodup := by
  unfold nmFns
  split <;> decide

theorem entInv_devInfo (cfg : DevCfg) : EntInv (devInfo cfg) := by
  refine ⟨⟨by simp [devInfo], by simp [devInfo]⟩, ?_, ?_⟩
  rotate_left
  · intro f hf
    simp only [devInfo, List.mem_cons, List.not_mem_nil, or_false] at hf
    rcases hf with rfl | rfl
    · exact nmFns_nodup cfg.fset
    · decide
  intro t r
  simp only [devInfo, List.filter_cons, List.filter_nil]
  by_cases h1 : nmType = t ∧ 2 = r
  · obtain ⟨rfl, rfl⟩ := h1; simp [nmType, dcType]
  · by_cases h2 : dcType = t ∧ 1 = r
    · obtain ⟨rfl, rfl⟩ := h2; simp [nmType, dcType]
    · have e1 : (decide (nmType = t) && decide (2 = r)) = false := by
        simp only [Bool.and_eq_false_imp, decide_eq_true_eq, decide_eq_false_iff_not]
        intro a b; exact h1 ⟨a, b⟩
      have e2 : (decide (dcType = t) && decide (1 = r)) = false := by
        simp only [Bool.and_eq_false_imp, decide_eq_true_eq, decide_eq_false_iff_not]
        intro a b; exact h2 ⟨a, b⟩
      simp [e1, e2]

/-! ### updFeat -/

theorem updFeat_ids (fs : List Feat) (id : Nat) (g : Feat → Feat) (hg : ∀ f, (g f).id = f.id) :
    (updFeat fs id g).map (·.id) = fs.map (·.id) := by
  induction fs with
  | nil => rfl
  | cons f fs ih =>
    simp only [updFeat]
    split
    · simp [hg]
    · simp [ih]

theorem updFeat_mem (fs : List Feat) (id : Nat) (g : Feat → Feat) (x : Feat) (hx : x ∈ updFeat fs id g) :
    x ∈ fs ∨ ∃ f ∈ fs, x = g f := by
  induction fs with
  | nil => simp [updFeat] at hx
  | cons f fs ih =>
    simp only [updFeat] at hx
    split at hx
    · rcases List.mem_cons.mp hx with rfl | hx
      · exact Or.inr ⟨f, List.mem_cons_self, rfl⟩
      · exact Or.inl (List.mem_cons_of_mem _ hx)
    · rcases List.mem_cons.mp hx with rfl | hx
      · exact Or.inl List.mem_cons_self
      · rcases ih hx with h | ⟨f', hf', rfl⟩
        · exact Or.inl (List.mem_cons_of_mem _ h)
        · exact Or.inr ⟨f', List.mem_cons_of_mem _ hf', rfl⟩

theorem updFeat_filter_length (fs : List Feat) (id : Nat) (g : Feat → Feat) (p : Feat → Bool)
    (hg : ∀ f, p (g f) = p f) : ((updFeat fs id g).filter p).length = (fs.filter p).length := by
  induction fs with
  | nil => rfl
  | cons f fs ih =>
    simp only [updFeat]
    split
    · simp only [List.filter_cons, hg]
      split <;> simp
    · simp only [List.filter_cons]
      split <;> simp [ih]

theorem entInv_updFeat (e : Ent) (h : EntInv e) (id : Nat) (g : Feat → Feat)
    (hid : ∀ f, (g f).id = f.id) (htyp : ∀ f, (g f).typ = f.typ) (hrole : ∀ f, (g f).role = f.role)
    (hfns : ∀ f, (f.fns.map (·.fn)).Nodup → ((g f).fns.map (·.fn)).Nodup) :
    EntInv { e with feats := updFeat e.feats id g } := by
  obtain ⟨⟨h1, h2⟩, h3, h4⟩ := h
  refine ⟨⟨?_, ?_⟩, ?_, ?_⟩
  · simp only [updFeat_ids e.feats id g hid]; exact h1
  · intro x hx
    rcases updFeat_mem e.feats id g x hx with hx | ⟨f, hf, rfl⟩
    · exact h2 x hx
    · rw [hid]; exact h2 f hf
  · intro t r
    have := updFeat_filter_length e.feats id g (fun f => f.typ = t && f.role = r) (by intro f; simp [htyp, hrole])
    simp only [this]
    exact h3 t r
  · intro x hx
    rcases updFeat_mem e.feats id g x hx with hx | ⟨f, hf, rfl⟩
    · exact h4 x hx
    · exact hfns f (h4 f hf)

/-! ### AddFunctionType -/

theorem featAddFn_client (f : Feat) (fn : Nat) (r w cap : Bool) (h : f.role = 0) : featAddFn f fn r w cap = f := by
  simp [featAddFn, h]

theorem featAddFn_again (f : Feat) (fn : Nat) (r w cap : Bool) (h : fn ∈ f.fns.map (·.fn)) : featAddFn f fn r w cap = f := by
  have : f.fns.any (·.fn = fn) = true := by
    obtain ⟨x, hx, rfl⟩ := List.mem_map.mp h
    exact List.any_eq_true.mpr ⟨x, hx, by simp⟩
  simp [featAddFn, this]

theorem featAddFn_new (f : Feat) (fn : Nat) (r w cap : Bool) (hr : f.role ≠ 0) (h : fn ∉ f.fns.map (·.fn)) :
    featAddFn f fn r w cap = { f with fns := f.fns ++ [⟨fn, r, w, w && cap⟩] } := by
  have : f.fns.any (·.fn = fn) = false := by
    rw [List.any_eq_false]
    intro x hx hc
    exact h (List.mem_map.mpr ⟨x, hx, by simpa using hc⟩)
  simp [featAddFn, hr, this]

theorem featAddFn_fns_nodup (f : Feat) (fn : Nat) (r w cap : Bool) (h : (f.fns.map (·.fn)).Nodup) :
    ((featAddFn f fn r w cap).fns.map (·.fn)).Nodup := by
  by_cases hr : f.role = 0
  · rw [featAddFn_client f fn r w cap hr]; exact h
  · by_cases hm : fn ∈ f.fns.map (·.fn)
    · rw [featAddFn_again f fn r w cap hm]; exact h
    · rw [featAddFn_new f fn r w cap hr hm]
      simp only [List.map_append, List.map_cons, List.map_nil]
      rw [List.nodup_append]
      refine ⟨h, by simp, ?_⟩
      intro a ha b hb
      simp only [List.mem_singleton] at hb; subst hb
      intro hab; subst hab; exact hm ha

theorem featAddFn_id (f : Feat) (fn : Nat) (r w cap : Bool) : (featAddFn f fn r w cap).id = f.id := by
  unfold featAddFn; split; rfl; split <;> rfl
theorem featAddFn_typ (f : Feat) (fn : Nat) (r w cap : Bool) : (featAddFn f fn r w cap).typ = f.typ := by
  unfold featAddFn; split; rfl; split <;> rfl
theorem featAddFn_role (f : Feat) (fn : Nat) (r w cap : Bool) : (featAddFn f fn r w cap).role = f.role := by
  unfold featAddFn; split; rfl; split <;> rfl

/-! ### GetOrAddFeature -/

theorem findTR_some (e : Ent) (typ role : Nat) (f : Feat) (h : findTR e typ role = some f) :
    f ∈ e.feats ∧ f.typ = typ ∧ f.role = role := by
  refine ⟨List.mem_of_find?_eq_some h, ?_⟩
  have := List.find?_some h
  simpa using this

theorem findTR_none (e : Ent) (typ role : Nat) (h : findTR e typ role = none) :
    (e.feats.filter fun f => f.typ = typ && f.role = role) = [] := by
  rw [List.filter_eq_nil_iff]
  intro f hf
  have := List.find?_eq_none.mp h f hf
  simpa using this

theorem entInv_getOrAdd (e : Ent) (h : EntInv e) (typ role : Nat) : EntInv (entGetOrAdd e typ role).1 := by
  unfold entGetOrAdd
  split
  · exact h
  · rename_i hn
    obtain ⟨⟨h1, h2⟩, h3, h4⟩ := h
    refine ⟨⟨?_, ?_⟩, ?_, ?_⟩
    · simp only [List.map_append, List.map_cons, List.map_nil]
      rw [List.nodup_append]
      refine ⟨h1, by simp, ?_⟩
      intro a ha b hb
      simp only [List.mem_singleton] at hb; subst hb
      obtain ⟨f, hf, rfl⟩ := List.mem_map.mp ha
      have := h2 f hf
      omega
    · intro f hf
      rcases List.mem_append.mp hf with hf | hf
      · exact Nat.lt_succ_of_lt (h2 f hf)
      · simp only [List.mem_singleton] at hf; subst hf; exact Nat.lt_succ_self _
    · intro t r
      simp only [List.filter_append, List.length_append]
      by_cases htr : typ = t ∧ role = r
      · obtain ⟨rfl, rfl⟩ := htr
        rw [findTR_none e typ role hn]; simp
      · have : (decide (typ = t) && decide (role = r)) = false := by
          simp only [Bool.and_eq_false_imp, decide_eq_true_eq, decide_eq_false_iff_not]
          intro a b; exact htr ⟨a, b⟩
        simp [this]; exact h3 t r
    · intro f hf
      rcases List.mem_append.mp hf with hf | hf
      · exact h4 f hf
      · simp only [List.mem_singleton] at hf; subst hf; simp

/-! ### the state invariant, for every history -/

def Inv (s : St) : Prop := (∀ k, EntInv (s.pool k)) ∧ s.subs.Nodup

theorem inv_init (cfg : DevCfg) : Inv (init cfg) := by
  refine ⟨?_, by simp [init]⟩
  intro k
  simp only [init]
  split
  · exact entInv_devInfo cfg
  · exact entInv_empty 0

theorem inv_upd (s : St) (h : Inv s) (k : Nat) (e : Ent) (he : EntInv e) (att : List Nat) (uc : Bool) :
    Inv { s with pool := upd s.pool k e, attached := att, ucData := uc } := by
  refine ⟨?_, h.2⟩
  intro j
  by_cases hj : j = k
  · subst hj; simp only [upd_same]; exact he
  · simp only [upd_other _ _ _ _ hj]; exact h.1 j

theorem inv_step (s : St) (h : Inv s) (o : Op) : Inv (step s o).1 := by
  cases o with
  | attach k => exact ⟨h.1, h.2⟩
  | detach k => exact ⟨h.1, h.2⟩
  | renew k et => exact inv_upd s h k _ (entInv_empty et) s.attached s.ucData
  | feat k typ role =>
    simp only [step]
    exact inv_upd s h k _ (entInv_getOrAdd (s.pool k) (h.1 k) typ role) s.attached s.ucData
  | nextId k =>
    refine inv_upd s h k _ ?_ s.attached s.ucData
    obtain ⟨⟨h1, h2⟩, h3, h4⟩ := h.1 k
    exact ⟨⟨h1, fun f hf => Nat.lt_succ_of_lt (h2 f hf)⟩, h3, h4⟩
  | addFn k fid fn r w cap =>
    refine inv_upd s h k _ ?_ s.attached s.ucData
    exact entInv_updFeat (s.pool k) (h.1 k) fid _ (fun f => featAddFn_id f fn r w cap) (fun f => featAddFn_typ f fn r w cap)
      (fun f => featAddFn_role f fn r w cap) (fun f hf => featAddFn_fns_nodup f fn r w cap hf)
  | setDescr k fid d =>
    refine inv_upd s h k _ ?_ s.attached s.ucData
    exact entInv_updFeat (s.pool k) (h.1 k) fid _ (fun _ => rfl) (fun _ => rfl) (fun _ => rfl) (fun _ hf => hf)
  | sub p =>
    simp only [step]
    split
    · exact h
    · rename_i hp
      refine ⟨h.1, ?_⟩
      simp only
      rw [List.nodup_append]
      refine ⟨h.2, by simp, ?_⟩
      intro a ha b hb
      simp only [List.mem_singleton] at hb; subst hb
      intro hab; subst hab; exact hp ha
  | unsub p => exact ⟨h.1, h.2.filter _⟩
  | addUc k => exact ⟨h.1, h.2⟩
  | read p => exact h
  | destRead p known => exact h

theorem inv_run (cfg : DevCfg) (ops : List Op) : Inv (run cfg ops) := by
  unfold run
  suffices ∀ s, Inv s → Inv (ops.foldl (fun s o => (step s o).1) s) from this (init cfg) (inv_init cfg)
  induction ops with
  | nil => intro s h; exact h
  | cons o os ih => intro s h; exact ih _ (inv_step s h o)

/-! ### the entity list of a valid history has no duplicates -/

theorem attached_step (s : St) (o : Op) (h : s.attached.Nodup) (hok : o.ok s) : (step s o).1.attached.Nodup := by
  cases o with
  | attach k =>
    simp only [step]
    rw [List.nodup_append]
    refine ⟨h, by simp, ?_⟩
    intro a ha b hb
    simp only [List.mem_singleton] at hb; subst hb
    intro hab; subst hab; exact hok ha
  | detach k => exact h.filter _
  | sub p => simp only [step]; split <;> exact h
  | feat k typ role => exact h
  | _ => exact h

theorem attached_fold (ops : List Op) : ∀ s : St, s.attached.Nodup → validFrom s ops →
    (ops.foldl (fun s o => (step s o).1) s).attached.Nodup := by
  induction ops with
  | nil => intro s h _; exact h
  | cons o os ih => intro s h hv; exact ih _ (attached_step s o h hv.1) hv.2

theorem attached_run (cfg : DevCfg) (ops : List Op) (hv : validFrom (init cfg) ops) : (run cfg ops).attached.Nodup :=
  attached_fold ops (init cfg) (by simp [init]) hv

/-! ### the reply -/

theorem mem_replyEnts (s : St) (k et : Nat) : (k, et) ∈ replyEnts s ↔ k ∈ s.attached ∧ et = (s.pool k).etype := by
  simp only [replyEnts, List.mem_map, Prod.mk.injEq]
  constructor
  · rintro ⟨k', hk', rfl, rfl⟩; exact ⟨hk', rfl⟩
  · rintro ⟨hk, rfl⟩; exact ⟨k, hk, rfl, rfl⟩

theorem mem_replyFeats (s : St) (k : Nat) (f : Feat) : (k, f) ∈ replyFeats s ↔ k ∈ s.attached ∧ f ∈ (s.pool k).feats := by
  simp only [replyFeats, List.mem_flatMap, List.mem_map, Prod.mk.injEq]
  constructor
  · rintro ⟨k', hk', f', hf', rfl, rfl⟩; exact ⟨hk', hf'⟩
  · rintro ⟨hk, hf⟩; exact ⟨k, hk, f, hf, rfl, rfl⟩

theorem find_of_nodup (fs : List Feat) (h : (fs.map (·.id)).Nodup) (f : Feat) (hf : f ∈ fs) :
    fs.find? (·.id = f.id) = some f := by
  induction fs with
  | nil => simp at hf
  | cons x xs ih =>
    simp only [List.map_cons, List.nodup_cons] at h
    rcases List.mem_cons.mp hf with rfl | hf
    · simp
    · have hne : x.id ≠ f.id := by
        intro he
        exact h.1 (List.mem_map.mpr ⟨f, hf, he.symm⟩)
      simp only [List.find?_cons, hne, decide_false]
      exact ih h.2 hf

theorem resolves (s : St) (h : Inv s) (k : Nat) (f : Feat) (hm : (k, f) ∈ replyFeats s) :
    resolve s k f.id = some f := by
  obtain ⟨hk, hf⟩ := (mem_replyFeats s k f).mp hm
  simp only [resolve, hk, if_true]
  exact find_of_nodup _ (h.1 k).1.1 f hf

theorem nodup_map_pair (k : Nat) (l : List Nat) (h : l.Nodup) : (l.map fun i => (k, i)).Nodup := by
  induction l with
  | nil => simp
  | cons a l ih =>
    simp only [List.nodup_cons] at h
    simp only [List.map_cons, List.nodup_cons, List.mem_map, Prod.mk.injEq, true_and, exists_eq_right]
    exact ⟨h.1, ih h.2⟩

theorem addrs_nodup (pool : Nat → Ent) (hp : ∀ k, ((pool k).feats.map (·.id)).Nodup) (ks : List Nat) (hk : ks.Nodup) :
    (ks.flatMap fun k => (pool k).feats.map fun f => (k, f.id)).Nodup := by
  induction ks with
  | nil => simp
  | cons k ks ih =>
    simp only [List.nodup_cons] at hk
    simp only [List.flatMap_cons]
    rw [List.nodup_append]
    refine ⟨?_, ih hk.2, ?_⟩
    · have := nodup_map_pair k _ (hp k)
      rw [List.map_map] at this
      exact this
    · intro a ha b hb
      obtain ⟨f, _, rfl⟩ := List.mem_map.mp ha
      obtain ⟨k', hk', hb'⟩ := List.mem_flatMap.mp hb
      obtain ⟨f', _, rfl⟩ := List.mem_map.mp hb'
      intro hab
      simp only [Prod.mk.injEq] at hab
      exact hk.1 (hab.1 ▸ hk')

theorem replyFeats_addrs (s : St) :
    (replyFeats s).map (fun p => (p.1, p.2.id)) = s.attached.flatMap fun k => (s.pool k).feats.map fun f => (k, f.id) := by
  simp only [replyFeats, List.map_flatMap, List.map_map]
  rfl

/-- with distinct numbers, `updFeat … f.id g` replaces exactly the feature f -/
theorem updFeat_of_nodup (fs : List Feat) (h : (fs.map (·.id)).Nodup) (f : Feat) (hf : f ∈ fs) (g : Feat → Feat) :
    g f ∈ updFeat fs f.id g ∧ ∀ x ∈ fs, x.id ≠ f.id → x ∈ updFeat fs f.id g := by
  induction fs with
  | nil => simp at hf
  | cons y ys ih =>
    simp only [List.map_cons, List.nodup_cons] at h
    simp only [updFeat]
    by_cases hy : y.id = f.id
    · have hfy : f = y := by
        rcases List.mem_cons.mp hf with rfl | hf'
        · rfl
        · exact absurd (List.mem_map.mpr ⟨f, hf', hy.symm⟩) h.1
      subst hfy
      simp only [if_true]
      refine ⟨List.mem_cons_self, ?_⟩
      intro x hx hne
      rcases List.mem_cons.mp hx with rfl | hx
      · exact absurd rfl hne
      · exact List.mem_cons_of_mem _ hx
    · simp only [hy, if_false]
      have hf' : f ∈ ys := by
        rcases List.mem_cons.mp hf with rfl | hf'
        · exact absurd rfl hy
        · exact hf'
      obtain ⟨i1, i2⟩ := ih h.2 hf'
      refine ⟨List.mem_cons_of_mem _ i1, ?_⟩
      intro x hx hne
      rcases List.mem_cons.mp hx with rfl | hx
      · exact List.mem_cons_self
      · exact List.mem_cons_of_mem _ (i2 x hx hne)

/-! ### notifications -/

/-- partial detailed-discovery notifications addressed to peer p -/
def discTo (p : Nat) : Obs → Bool
  | .notify q _ _ _ _ => q = p
  | _ => false

theorem filter_map_nodup (l : List Nat) (hl : l.Nodup) (g : Nat → Obs) (p : Nat)
    (hg : ∀ q, discTo p (g q) = decide (q = p)) :
    (l.map g).filter (discTo p) = if p ∈ l then [g p] else [] := by
  induction l with
  | nil => simp
  | cons q qs ih =>
    simp only [List.nodup_cons] at hl
    simp only [List.map_cons, List.filter_cons, hg]
    by_cases hq : q = p
    · subst hq
      simp only [decide_true, if_true, List.mem_cons, true_or]
      rw [ih hl.2]
      simp [hl.1]
    · have hq' : p ≠ q := fun h => hq h.symm
      simp only [hq, decide_false, List.mem_cons, hq', false_or]
      exact ih hl.2

theorem filter_ucNotify (l : List Nat) (p : Nat) : (l.map Obs.ucNotify).filter (discTo p) = [] := by
  induction l with
  | nil => rfl
  | cons q qs ih => simp [List.filter_cons, discTo, ih]

/-! ### the device description never changes; partial write is announced only together with write -/

theorem dev_step (s : St) (o : Op) : (step s o).1.dev = s.dev := by
  cases o with
  | sub p => simp only [step]; split <;> rfl
  | feat k typ role => simp only [step]
  | _ => rfl

theorem dev_run (cfg : DevCfg) (ops : List Op) : (run cfg ops).dev = cfg := by
  unfold run
  suffices ∀ s : St, (ops.foldl (fun s o => (step s o).1) s).dev = s.dev from this (init cfg)
  induction ops with
  | nil => intro s; rfl
  | cons o os ih => intro s; simp only [List.foldl_cons]; rw [ih, dev_step]

def PartOk (e : Ent) : Prop := ∀ f ∈ e.feats, ∀ x ∈ f.fns, x.wpart = true → x.write = true

theorem partOk_devInfo (cfg : DevCfg) : PartOk (devInfo cfg) := by
  intro f hf x hx hw
  simp only [devInfo, List.mem_cons, List.not_mem_nil, or_false] at hf
  rcases hf with rfl | rfl
  · simp only [nmFns] at hx
    rcases List.mem_append.mp hx with hx | hx
    · simp only [List.mem_cons, List.not_mem_nil, or_false] at hx
      rcases hx with rfl | rfl | rfl | rfl | rfl | rfl | rfl | rfl <;> simp at hw
    · split at hx
      · simp at hx
      · simp only [List.mem_singleton] at hx; subst hx; simp at hw
  · simp only [List.mem_singleton] at hx; subst hx; simp at hw

theorem partOk_featAddFn (f : Feat) (fn : Nat) (r w cap : Bool) (h : ∀ x ∈ f.fns, x.wpart = true → x.write = true) :
    ∀ x ∈ (featAddFn f fn r w cap).fns, x.wpart = true → x.write = true := by
  unfold featAddFn
  split
  · exact h
  · split
    · exact h
    · intro x hx hw
      rcases List.mem_append.mp hx with hx | hx
      · exact h x hx hw
      · simp only [List.mem_singleton] at hx; subst hx
        simp only [Bool.and_eq_true] at hw; exact hw.1

theorem partOk_updFeat (e : Ent) (h : PartOk e) (id : Nat) (g : Feat → Feat)
    (hg : ∀ f, (∀ x ∈ f.fns, x.wpart = true → x.write = true) → ∀ x ∈ (g f).fns, x.wpart = true → x.write = true) :
    PartOk { e with feats := updFeat e.feats id g } := by
  intro f hf
  rcases updFeat_mem e.feats id g f hf with hf | ⟨f', hf', rfl⟩
  · exact h f hf
  · exact hg f' (h f' hf')

theorem partOk_step (s : St) (h : ∀ k, PartOk (s.pool k)) (o : Op) : ∀ k, PartOk ((step s o).1.pool k) := by
  have updk : ∀ (k : Nat) (e : Ent), PartOk e → ∀ j, PartOk (upd s.pool k e j) := by
    intro k e he j
    by_cases hj : j = k
    · subst hj; simp only [upd_same]; exact he
    · simp only [upd_other _ _ _ _ hj]; exact h j
  cases o with
  | attach k => exact h
  | detach k => exact h
  | renew k et => exact updk k _ (by intro f hf; simp at hf)
  | feat k typ role =>
    simp only [step]
    refine updk k _ ?_
    unfold entGetOrAdd
    split
    · exact h k
    · intro f hf
      rcases List.mem_append.mp hf with hf | hf
      · exact h k f hf
      · simp only [List.mem_singleton] at hf; subst hf; intro x hx; simp at hx
  | nextId k => exact updk k _ (h k)
  | addFn k fid fn r w cap =>
    exact updk k _ (partOk_updFeat (s.pool k) (h k) fid _ (fun f hf => partOk_featAddFn f fn r w cap hf))
  | setDescr k fid d => exact updk k _ (partOk_updFeat (s.pool k) (h k) fid _ (fun f hf => hf))
  | sub p => simp only [step]; split <;> exact h
  | unsub p => exact h
  | addUc k => exact h
  | read p => exact h
  | destRead p known => exact h

theorem partOk_run (cfg : DevCfg) (ops : List Op) : ∀ k, PartOk ((run cfg ops).pool k) := by
  unfold run
  suffices ∀ s : St, (∀ k, PartOk (s.pool k)) → ∀ k, PartOk ((ops.foldl (fun s o => (step s o).1) s).pool k) from
    this (init cfg) (by
      intro k
      simp only [init]
      split
      · exact partOk_devInfo cfg
      · intro f hf; simp at hf)
  induction ops with
  | nil => intro s h; exact h
  | cons o os ih => intro s h; exact ih _ (partOk_step s h o)

/-- observations addressed to peer p -/
def toPeer (p : Nat) (o : Obs) : Bool := peerOf o == some p

/-- what a healthy peer receives does not depend on which other peers fail -/
theorem delivered_to_healthy (failing : List Nat) (p : Nat) (hp : p ∉ failing) (os : List Obs) :
    (delivered failing os).filter (toPeer p) = os.filter (toPeer p) := by
  unfold delivered
  rw [List.filter_filter]
  apply List.filter_congr
  intro o _
  cases hq : peerOf o with
  | none => simp [toPeer, hq]
  | some q =>
    by_cases hqp : q = p
    · subst hqp; simp [toPeer, hq, hp]
    · simp [toPeer, hq, hqp]

/-- … and a failing peer receives nothing -/
theorem delivered_to_failing (failing : List Nat) (p : Nat) (hp : p ∈ failing) (os : List Obs) :
    (delivered failing os).filter (toPeer p) = [] := by
  rw [List.filter_eq_nil_iff]
  intro o ho
  simp only [delivered, List.mem_filter] at ho
  cases hq : peerOf o with
  | none => simp [toPeer, hq]
  | some q =>
    have := ho.2
    simp only [hq, Bool.not_eq_true', List.contains_eq_mem, decide_eq_false_iff_not] at this
    simp only [toPeer, hq, beq_iff_eq, Option.some.injEq]
    intro h; subst h; exact this hp

theorem discTo_toPeer (p : Nat) (o : Obs) (h : discTo p o = true) : toPeer p o = true := by
  cases o <;> simp_all [discTo, toPeer, peerOf]

end Spine.LTree
