/-! Subscription and binding registries (spine/subscription_manager.go, binding_manager.go) as seen through
    node-management calls; remote trees static; no re-announcement (object identity = address identity).
    `Cfg` selects, per defect, the code as written (true) or the minimal repair (false). -/
namespace Spine.Reg

inductive Role | client | server | special deriving DecidableEq, Repr

structure Feat where
  ent : List Nat
  feat : Nat
  typ : Nat          -- 0 = Generic
  role : Role
deriving DecidableEq, Repr

structure Entry where
  id : Nat
  sEnt : List Nat
  sFeat : Nat
  peer : Nat
  cEnt : List Nat
  cFeat : Nat
deriving DecidableEq, Repr

structure Cfg where
  delSubByDevice : Bool := true     -- RemoveSubscription matches the device address named in the request, whoever sends it
  delBindByDevice : Bool := true    -- RemoveBinding does the same
  unbindDisjunct : Bool := true     -- RemoveBinding drops entries with the same client OR the same server
  dropBindsAnyPeer : Bool := true   -- RemoveBindingsForEntity compares the binding's entity address only
deriving Repr, DecidableEq

def Cfg.clean : Cfg :=
  { delSubByDevice := false, delBindByDevice := false, unbindDisjunct := false, dropBindsAnyPeer := false }

structure St where
  loc : List Feat
  rem : Nat → List Feat          -- announced features per peer
  /-- entities of a peer that are known WITHOUT features (announced again by an `added` entry that lists none: the
      entity object stays, its features are dropped, entries of its former features stay in the registries) -/
  bare : Nat → List (List Nat) := fun _ => []
  subs : List Entry := []
  binds : List Entry := []
  subNum : Nat := 0
  bindNum : Nat := 0

def findF (fs : List Feat) (ent : List Nat) (feat : Nat) : Option Feat :=
  fs.find? fun f => f.ent = ent && f.feat = feat

def roleTypeOk (f : Feat) (want : Role) (typ : Nat) : Bool :=
  (f.role = .special || f.role = want) && (f.typ = typ || f.typ = 0)

/-- does the entry record the pair (server, client of peer q)? -/
def Entry.is (e : Entry) (q : Nat) (cEnt : List Nat) (cFeat : Nat) (sEnt : List Nat) (sFeat : Nat) : Bool :=
  e.peer = q && e.cEnt = cEnt && e.cFeat = cFeat && e.sEnt = sEnt && e.sFeat = sFeat

/-- the conditions under which a subscription or binding request is acceptable at all -/
def requestOk (s : St) (p : Nat) (cEnt : List Nat) (cFeat : Nat) (sEnt : List Nat) (sFeat : Nat) (typ : Nat) : Bool :=
  match findF s.loc sEnt sFeat, findF (s.rem p) cEnt cFeat with
  | some sv, some cl => roleTypeOk sv .server typ && roleTypeOk cl .client typ
  | _, _ => false

def addSub (s : St) (p : Nat) (cEnt : List Nat) (cFeat : Nat) (sEnt : List Nat) (sFeat : Nat) (typ : Nat) : St × Bool :=
  if !requestOk s p cEnt cFeat sEnt sFeat typ then (s, false) else
  -- the id is drawn before the duplicate check
  if s.subs.any (·.is p cEnt cFeat sEnt sFeat) then ({ s with subNum := s.subNum + 1 }, false)
  else ({ s with subNum := s.subNum + 1, subs := s.subs ++ [⟨s.subNum + 1, sEnt, sFeat, p, cEnt, cFeat⟩] }, true)

/-- whose entries a delete call from peer `p` naming device `cDev` (0 = omitted, k = device of peer k) addresses -/
def target (byDevice : Bool) (p cDev : Nat) : Option Nat :=
  if cDev = 0 || cDev = p then some p else if byDevice then some cDev else none

def delSub (c : Cfg) (s : St) (p cDev : Nat) (cEnt : List Nat) (cFeat : Nat) (sEnt : List Nat) (sFeat : Nat) : St × Bool :=
  match findF (s.rem p) cEnt cFeat, findF s.loc sEnt sFeat with
  | some _, some _ =>
    match target c.delSubByDevice p cDev with
    | none => (s, false)
    | some q =>
      let keep := s.subs.filter fun e => !e.is q cEnt cFeat sEnt sFeat
      if keep.length = s.subs.length then (s, false) else ({ s with subs := keep }, true)
  | _, _ => (s, false)

def addBind (s : St) (p : Nat) (cEnt : List Nat) (cFeat : Nat) (sEnt : List Nat) (sFeat : Nat) (typ : Nat) : St × Bool :=
  if !requestOk s p cEnt cFeat sEnt sFeat typ then (s, false) else
  if s.binds.any (fun e => e.sEnt = sEnt && e.sFeat = sFeat) then (s, false) else
  ({ s with bindNum := s.bindNum + 1, binds := s.binds ++ [⟨s.bindNum + 1, sEnt, sFeat, p, cEnt, cFeat⟩] }, true)

/-- the retain condition of the loop in RemoveBinding -/
def unbindKeep (c : Cfg) (p cDev : Nat) (cEnt : List Nat) (cFeat : Nat) (sEnt : List Nat) (sFeat : Nat) (e : Entry) : Bool :=
  if c.unbindDisjunct then
    -- as written: an entry survives only if its client address differs AND its server differs
    !(match target c.delBindByDevice p cDev with
      | some q => e.peer = q && e.cEnt = cEnt && e.cFeat = cFeat
      | none => false) && !(e.sEnt = sEnt && e.sFeat = sFeat)
  else
    !(match target c.delBindByDevice p cDev with
      | some q => e.is q cEnt cFeat sEnt sFeat
      | none => false)

def delBind (c : Cfg) (s : St) (p cDev : Nat) (cEnt : List Nat) (cFeat : Nat) (sEnt : List Nat) (sFeat : Nat) : St × Bool :=
  match findF (s.rem p) cEnt cFeat, findF s.loc sEnt sFeat with
  | some _, some sv =>
    if !(sv.role = .special || sv.role = .server) then (s, false) else
    -- HasLocalFeatureRemoteBinding(server, the requester's own client feature)
    if !(s.binds.any (·.is p cEnt cFeat sEnt sFeat)) then (s, false) else
    let keep := s.binds.filter (unbindKeep c p cDev cEnt cFeat sEnt sFeat)
    if keep.length = s.binds.length then (s, false) else ({ s with binds := keep }, true)
  | _, _ => (s, false)

/-- the entities of peer `p` the stack knows: those with announced features and the bare ones -/
def knownEnts (s : St) (p : Nat) : List (List Nat) := (s.rem p).map (·.ent) ++ s.bare p

/-- RemoveRemoteDevice on its original domain — a peer all of whose entities are known through their features (no bare
    entity): kept for the cascade bridge of the discovery model; `removePeer` is the operation of the family. -/
def dropPeer (c : Cfg) (s : St) (p : Nat) : St :=
  let ents := (s.rem p).map (·.ent)
  { s with subs := s.subs.filter fun e => !(e.peer = p && ents.contains e.cEnt),
           binds := s.binds.filter fun e => !((c.dropBindsAnyPeer || e.peer = p) && ents.contains e.cEnt) }

/-- RemoveRemoteDevice: per known entity of the peer (with or without features) -/
def removePeer (c : Cfg) (s : St) (p : Nat) : St :=
  let ents := knownEnts s p
  { s with subs := s.subs.filter fun e => !(e.peer = p && ents.contains e.cEnt),
           binds := s.binds.filter fun e => !((c.dropBindsAnyPeer || e.peer = p) && ents.contains e.cEnt) }

/-- A remote entity is announced as removed (processNotifyDetailedDiscoveryData, removal branch):
    RemoveEntityByAddress (exact address), RemoveSubscriptionsForEntity (device and entity address),
    RemoveBindingsForEntity (entity address only, as written). The entity's features are no longer announced. -/
def dropEntity (c : Cfg) (s : St) (p : Nat) (ent : List Nat) : St :=
  if !((s.rem p).map (·.ent)).contains ent then s else
  { s with rem := fun q => if q = p then (s.rem p).filter (fun f => !(f.ent = ent)) else s.rem q,
           subs := s.subs.filter fun e => !(e.peer = p && e.cEnt = ent),
           binds := s.binds.filter fun e => !((c.dropBindsAnyPeer || e.peer = p) && e.cEnt = ent) }

/-- One entry of a discovery notification that announces `ent` as removed, as the code (from repair 711ee79 on)
    processes it: the device information entity [0] is KEPT (the entry is skipped); an entity known through its
    features goes with the cascade `dropEntity`; an entity known without features goes too, with the stale entries of
    its former features; an unknown entity changes nothing. `dropEntity` itself is the cascade for an entity that is
    announced with features and is not [0] — its domain. -/
def removeEntity (c : Cfg) (s : St) (p : Nat) (ent : List Nat) : St :=
  if ent = [0] then s else
  if ((s.rem p).map (·.ent)).contains ent then
    let s' := dropEntity c s p ent
    { s' with bare := fun q => if q = p then (s.bare p).filter (· ≠ ent) else s.bare q }
  else if (s.bare p).contains ent then
    { s with bare := fun q => if q = p then (s.bare p).filter (· ≠ ent) else s.bare q,
             subs := s.subs.filter fun e => !(e.peer = p && e.cEnt = ent),
             binds := s.binds.filter fun e => !((c.dropBindsAnyPeer || e.peer = p) && e.cEnt = ent) }
  else s

/-- An `added` entry for `ent` that lists no features: a known entity loses its features (its registry entries stay,
    now stale), an unknown one becomes known; either way the entity is bare afterwards. -/
def bareEntity (s : St) (p : Nat) (ent : List Nat) : St :=
  { s with rem := fun q => if q = p then (s.rem p).filter (fun f => !(f.ent = ent)) else s.rem q,
           bare := fun q => if q = p then ent :: (s.bare p).filter (· ≠ ent) else s.bare q }

/-- SubscriptionManager.Subscriptions(peer) / BindingManager.Bindings(peer): filter by the entry's connection -/
def subsOf (s : St) (p : Nat) : List Entry := s.subs.filter (·.peer = p)
def bindsOf (s : St) (p : Nat) : List Entry := s.binds.filter (·.peer = p)

def notifyTargets (s : St) (sEnt : List Nat) (sFeat : Nat) : List (Nat × List Nat × Nat) :=
  (s.subs.filter fun e => e.sEnt = sEnt && e.sFeat = sFeat).map fun e => (e.peer, e.cEnt, e.cFeat)

/-- One pass of RemoveSubscriptionsForEntity: one critical section of the subscription manager. A teardown is a
    sequence of such passes (per entity, subscriptions first, then bindings); calls of other peers may be processed
    between any two of them. -/
def subsPass (s : St) (p : Nat) (ent : List Nat) : St :=
  { s with subs := s.subs.filter fun e => !(e.peer = p && e.cEnt = ent) }

/-- one pass of RemoveBindingsForEntity -/
def bindsPass (c : Cfg) (s : St) (p : Nat) (ent : List Nat) : St :=
  { s with binds := s.binds.filter fun e => !((c.dropBindsAnyPeer || e.peer = p) && e.cEnt = ent) }

/-- NotifySubscribers: the loop over the entries on the feature. A send to a connection that cannot be written to
    fails; `stop = false` is the code (the error is ignored, the loop goes on), `stop = true` the member that leaves the
    loop at the first failure. The result lists the notifications that were written. -/
def sendLoop (stop : Bool) (fails : Nat → Bool) : List (Nat × List Nat × Nat) → List (Nat × List Nat × Nat)
  | [] => []
  | t :: ts => if fails t.1 then (if stop then [] else sendLoop stop fails ts) else t :: sendLoop stop fails ts

/-- the notifications written for a change of server feature (sEnt, sFeat) when the connections in `fails` cannot be
    written to -/
def delivered (s : St) (fails : Nat → Bool) (sEnt : List Nat) (sFeat : Nat) : List (Nat × List Nat × Nat) :=
  sendLoop false fails (notifyTargets s sEnt sFeat)

/-- one call, drop, entity removal or single pass of a teardown; a history is a list of these -/
inductive Op
  | bind (p : Nat) (cEnt : List Nat) (cFeat : Nat) (sEnt : List Nat) (sFeat typ : Nat)
  | unbind (p cDev : Nat) (cEnt : List Nat) (cFeat : Nat) (sEnt : List Nat) (sFeat : Nat)
  | sub (p : Nat) (cEnt : List Nat) (cFeat : Nat) (sEnt : List Nat) (sFeat typ : Nat)
  | unsub (p cDev : Nat) (cEnt : List Nat) (cFeat : Nat) (sEnt : List Nat) (sFeat : Nat)
  | drop (p : Nat)
  | dropEnt (p : Nat) (ent : List Nat)
  | subsPass (p : Nat) (ent : List Nat)
  | bindsPass (p : Nat) (ent : List Nat)
  | bareEnt (p : Nat) (ent : List Nat)

def step (c : Cfg) (s : St) : Op → St
  | .bind p ce cf se sf t => (addBind s p ce cf se sf t).1
  | .unbind p cd ce cf se sf => (delBind c s p cd ce cf se sf).1
  | .sub p ce cf se sf t => (addSub s p ce cf se sf t).1
  | .unsub p cd ce cf se sf => (delSub c s p cd ce cf se sf).1
  | .drop p => removePeer c s p
  | .dropEnt p ent => removeEntity c s p ent
  | .bareEnt p ent => bareEntity s p ent
  | .subsPass p ent => subsPass s p ent
  | .bindsPass p ent => bindsPass c s p ent

end Spine.Reg
