/-! Event-sourced model of the write-approval machinery of FeatureLocal (addPendingApproval, ApproveOrDenyWrite,
    the timeout function), one peer. `Cfg` selects the code as written (true) or the minimal repair (false). -/
namespace Spine.Appr

inductive Out | applied | error deriving DecidableEq, Repr

structure Cfg where
  tallyReset : Bool := true         -- the peer's tally map is re-created when the current write has no entry yet
  ignoreStop : Bool := true         -- the result of timer.Stop() is ignored
deriving Repr

def Cfg.clean : Cfg := { tallyReset := false, ignoreStop := false }

structure St where
  nCb : Nat
  seen : List Nat := []               -- message counters of writes that arrived (they are unique per connection)
  pending : List Nat := []            -- pendingWriteApprovals: writes whose timer entry exists
  armed : List Nat := []              -- timers neither fired nor stopped
  tally : Option (List (Nat × Nat)) := none   -- writeApprovalReceived[ski]; none = no map for the peer yet
  lookups : List (Nat × Nat) := []    -- (verdict op, write): between the pending lookup and the commit
  fired : List Nat := []              -- timeout function between its two halves
  outcomes : List (Nat × Out) := []
  presented : List (Nat × Nat) := []  -- (write, callback index): invocations of the approval callbacks

inductive Ev
  | arrive (w : Nat)
  | lookup (op w : Nat)
  | commit (op : Nat) (approve : Bool)
  | timeoutTake (w : Nat)
  | timeoutSend (w : Nat)
  | drop                                -- the peer's connection is removed (CleanWriteApprovalCaches): timers stopped,
                                        -- pending and tally maps forgotten. Writes here are write INSTANCES (a peer
                                        -- that reconnects and reuses a counter sends a new instance, a new `w`); the
                                        -- counter-keyed maps of the code are modelled in `Spine/ApprovalConn.lean`

def bump (c : Cfg) (t : Option (List (Nat × Nat))) (w : Nat) : List (Nat × Nat) × Nat :=
  match t with
  | some m => match m.find? (·.1 = w) with
    | some (_, n) => ((m.filter (·.1 ≠ w)) ++ [(w, n + 1)], n + 1)
    | none => if c.tallyReset then ([(w, 1)], 1) else (m ++ [(w, 1)], 1)
  | none => ([(w, 1)], 1)

/-- the tail of ApproveOrDenyWrite once the verdict is final -/
def finish (c : Cfg) (s : St) (w : Nat) (approve : Bool) : St :=
  let stopped := s.armed.contains w                 -- what timer.Stop() returns
  let s := { s with armed := s.armed.filter (· ≠ w),
                    tally := s.tally.map (·.filter (·.1 ≠ w)),
                    pending := s.pending.filter (· ≠ w) }
  if c.ignoreStop || stopped then { s with outcomes := s.outcomes ++ [(w, if approve then .applied else .error)] }
  else s                                            -- repaired: the timeout has taken the write, it answers

def step (c : Cfg) (s : St) : Ev → St
  | .arrive w =>
    if s.seen.contains w then s
    else { s with seen := w :: s.seen, pending := w :: s.pending, armed := w :: s.armed,
                  presented := s.presented ++ (List.range s.nCb).map (fun i => (w, i)) }
  | .lookup op w => if s.pending.contains w then { s with lookups := (op, w) :: s.lookups } else s
  | .commit op approve =>
    match s.lookups.find? (·.1 = op) with
    | none => s
    | some (_, w) =>
      let s := { s with lookups := s.lookups.filter (·.1 ≠ op) }
      if s.nCb > 1 && approve then
        let (m, n) := bump c s.tally w
        let s := { s with tally := some m }
        if n < s.nCb then s else finish c s w approve
      else finish c s w approve
  | .timeoutTake w =>
    if s.armed.contains w then
      { s with armed := s.armed.filter (· ≠ w), pending := s.pending.filter (· ≠ w), fired := w :: s.fired }
    else s
  | .timeoutSend w =>
    if s.fired.contains w then
      { s with fired := s.fired.filter (· ≠ w), outcomes := s.outcomes ++ [(w, .error)] }
    else s
  | .drop => { s with pending := [], armed := [], tally := none }

def run (c : Cfg) (n : Nat) (evs : List Ev) : St := evs.foldl (step c) { nCb := n }

/-- as written: two pending writes, two callbacks, every callback approves both before any timeout:
    both writes end with the timeout error -/
theorem tally_reset_witness :
    (run {} 2 [.arrive 1, .arrive 2,
            .lookup 10 1, .commit 10 true, .lookup 11 2, .commit 11 true,
            .lookup 12 1, .commit 12 true, .lookup 13 2, .commit 13 true,
            .timeoutTake 1, .timeoutSend 1, .timeoutTake 2, .timeoutSend 2]).outcomes
      = [(1, .error), (2, .error)] := by decide

/-- repaired tally: the same schedule applies both writes -/
example :
    (run Cfg.clean 2 [.arrive 1, .arrive 2,
            .lookup 10 1, .commit 10 true, .lookup 11 2, .commit 11 true,
            .lookup 12 1, .commit 12 true, .lookup 13 2, .commit 13 true,
            .timeoutTake 1, .timeoutSend 1, .timeoutTake 2, .timeoutSend 2]).outcomes
      = [(1, .applied), (2, .applied)] := by decide

/-- as written: the timeout fires between the verdict's lookup and its commit:
    the write gets an error result and is applied as well -/
theorem verdict_races_timeout_witness :
    (run {} 1 [.arrive 1, .lookup 10 1, .timeoutTake 1, .timeoutSend 1, .commit 10 true]).outcomes
      = [(1, .error), (1, .applied)] := by decide

end Spine.Appr
