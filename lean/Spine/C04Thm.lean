import Spine.UpdateF
import Spine.UpdateThm
import Spine.SortThm
/-!
# C04 — lemmas about remote writes through the update engine (every member of the family)

* `Prot sh ex r`: `r` has the length of `ex` and every element of `ex` that is not writable sits unchanged at its
  position in `r`.
* `updateListF_remote_protects`: whatever the shape of a remote write (delete filter with selector and / or
  elements, partial filter with selector, identifier-less, identifier-based, combinations) and whichever member
  of the family: the caller's array afterwards protects the unwritable elements position by position, and every
  unwritable element is still a member of the returned list.
* `updateListF_all_writable_accepts`: on a list without unwritable elements a remote write whose delete filter
  names no elements is accepted.
* `merge_success_applied`: a successful remote merge has overlaid every addressed element.
* `mergeFixed_verdict_addressed`, `mergeItem_unaddressed`: in the repaired `Merge` the verdict is a function of the
  addressed elements alone and unaddressed elements pass through unchanged.
-/
namespace Spine

/-- position-wise protection of the unwritable elements -/
def Prot (sh : Shape) : List Item → List Item → Prop
  | [], [] => True
  | x :: xs, y :: ys => (writeAllowed sh x = false → y = x) ∧ Prot sh xs ys
  | _, _ => False

theorem Prot.refl (sh : Shape) : ∀ l, Prot sh l l
  | [] => trivial
  | _ :: xs => ⟨fun _ => rfl, Prot.refl sh xs⟩

theorem Prot.trans (sh : Shape) : ∀ {a b c : List Item}, Prot sh a b → Prot sh b c → Prot sh a c
  | [], [], [], _, _ => trivial
  | x :: xs, y :: ys, z :: zs, h1, h2 => by
    refine ⟨fun hx => ?_, Prot.trans sh h1.2 h2.2⟩
    have hy := h1.1 hx
    rw [hy] at h2
    exact h2.1 hx
  | [], [], _ :: _, _, h2 => by simp [Prot] at h2
  | [], _ :: _, _, h1, _ => by simp [Prot] at h1
  | _ :: _, [], _, h1, _ => by simp [Prot] at h1
  | _ :: _, _ :: _, [], _, h2 => by simp [Prot] at h2

theorem Prot.length (sh : Shape) : ∀ {a b : List Item}, Prot sh a b → b.length = a.length
  | [], [], _ => rfl
  | _ :: xs, _ :: ys, h => by simp [Prot.length sh h.2]
  | [], _ :: _, h => by simp [Prot] at h
  | _ :: _, [], h => by simp [Prot] at h

theorem Prot.mem (sh : Shape) : ∀ {a b : List Item}, Prot sh a b → ∀ e ∈ a, writeAllowed sh e = false → e ∈ b
  | [], [], _, e, he, _ => by cases he
  | x :: xs, y :: ys, h, e, he, hw => by
    rcases List.mem_cons.mp he with rfl | he'
    · rw [h.1 hw]; exact List.mem_cons_self
    · exact List.mem_cons_of_mem _ (Prot.mem sh h.2 e he' hw)
  | [], _ :: _, h, _, _, _ => by simp [Prot] at h
  | _ :: _, [], h, _, _, _ => by simp [Prot] at h

/-! ### the four engine functions on a remote write -/

theorem copyToSelectedF_protects (c : UCfg) (sh : Shape) (sel nw : Item) :
    ∀ (ex r : List Item) (b : Bool), copyToSelectedF.go c sh true sel nw ex = .ok (r, b) → Prot sh ex r
  | [], r, b, h => by
    simp only [copyToSelectedF.go, Outcome.ok.injEq, Prod.mk.injEq] at h
    obtain ⟨rfl, _⟩ := h; trivial
  | x :: xs, r, b, h => by
    simp only [copyToSelectedF.go] at h
    cases hm : selectorMatchF c sh sel x with
    | panic s => rw [hm] at h; simp at h
    | ok m =>
      rw [hm] at h
      cases m with
      | false =>
        simp only at h
        cases hrec : copyToSelectedF.go c sh true sel nw xs with
        | panic s => rw [hrec] at h; simp at h
        | ok rb =>
          obtain ⟨r', b'⟩ := rb
          rw [hrec] at h
          simp only [Outcome.ok.injEq, Prod.mk.injEq] at h
          obtain ⟨rfl, _⟩ := h
          exact ⟨fun _ => rfl, copyToSelectedF_protects c sh sel nw xs r' b' hrec⟩
      | true =>
        simp only [Bool.and_true] at h
        by_cases hw : writeAllowed sh x = true
        · simp only [hw, Bool.not_true, Bool.false_eq_true, if_false, Outcome.ok.injEq, Prod.mk.injEq] at h
          obtain ⟨rfl, _⟩ := h
          exact ⟨fun hx => (by rw [hw] at hx; cases hx), Prot.refl sh xs⟩
        · have hw' : writeAllowed sh x = false := by simpa using hw
          simp only [hw', Bool.not_false, if_true] at h
          cases hrec : copyToSelectedF.go c sh true sel nw xs with
          | panic s => rw [hrec] at h; simp at h
          | ok rb =>
            obtain ⟨r', b'⟩ := rb
            rw [hrec] at h
            simp only [Outcome.ok.injEq, Prod.mk.injEq] at h
            obtain ⟨rfl, _⟩ := h
            exact ⟨fun _ => rfl, copyToSelectedF_protects c sh sel nw xs r' b' hrec⟩

theorem copyToAllF_protects (c : UCfg) (sh : Shape) (nw : Item) : ∀ ex : List Item, Prot sh ex (copyToAllF c sh true ex nw).1
  | [] => trivial
  | x :: xs => by
    refine ⟨fun hx => by simp [hx], ?_⟩
    exact copyToAllF_protects c sh nw xs

/-- the delete phase: unwritable elements stay in place in the caller's array, and a delete that succeeded has kept
    every unwritable element in its result (in the member as written there was none) -/
theorem deleteFilteredF_protects (c : UCfg) (sh : Shape) (f : Filter) :
    ∀ (ex ip out : List Item) (ok : Bool), deleteFilteredF.go c sh true f ex = .ok (ip, out, ok) →
      Prot sh ex ip ∧ (ok = true → ∀ e ∈ ex, writeAllowed sh e = false → e ∈ out)
  | [], ip, out, ok, h => by
    simp only [deleteFilteredF.go, Outcome.ok.injEq, Prod.mk.injEq] at h
    obtain ⟨rfl, _, _⟩ := h
    exact ⟨trivial, fun _ e he => (by cases he)⟩
  | x :: xs, ip, out, ok, h => by
    simp only [deleteFilteredF.go, Bool.and_true] at h
    by_cases hw : writeAllowed sh x = true
    · simp only [hw, Bool.not_true, Bool.false_eq_true, if_false] at h
      cases hm : hitOf c sh f x with
      | panic s => rw [hm] at h; simp at h
      | ok hit =>
        rw [hm] at h
        simp only at h
        cases hrec : deleteFilteredF.go c sh true f xs with
        | panic s => rw [hrec] at h; simp at h
        | ok t =>
          obtain ⟨ip', out', ok'⟩ := t
          rw [hrec] at h
          have ih := deleteFilteredF_protects c sh f xs ip' out' ok' hrec
          simp only [Outcome.ok.injEq, Prod.mk.injEq] at h
          obtain ⟨rfl, rfl, rfl⟩ := h
          refine ⟨⟨fun hx => (by rw [hw] at hx; cases hx), ih.1⟩, fun hok e he hwe => ?_⟩
          rcases List.mem_cons.mp he with rfl | he'
          · rw [hw] at hwe; cases hwe
          · have := ih.2 hok e he' hwe
            split
            · exact List.mem_cons_of_mem _ this
            · exact this
    · have hw' : writeAllowed sh x = false := by simpa using hw
      simp only [hw', Bool.not_false, if_true] at h
      by_cases hds : c.deleteStrict = true
      · simp only [hds, if_true] at h
        cases hrec : deleteFilteredF.go c sh true f xs with
        | panic s => rw [hrec] at h; simp at h
        | ok t =>
          obtain ⟨ip', out', ok'⟩ := t
          rw [hrec] at h
          simp only [Outcome.ok.injEq, Prod.mk.injEq] at h
          obtain ⟨rfl, _, rfl⟩ := h
          exact ⟨⟨fun _ => rfl, (deleteFilteredF_protects c sh f xs ip' out' ok' hrec).1⟩, fun hok => (by cases hok)⟩
      · simp only [hds, Bool.false_eq_true, if_false] at h
        cases hm : hitOf c sh f x with
        | panic s => rw [hm] at h; simp at h
        | ok hit =>
          rw [hm] at h
          simp only at h
          cases hrec : deleteFilteredF.go c sh true f xs with
          | panic s => rw [hrec] at h; simp at h
          | ok t =>
            obtain ⟨ip', out', ok'⟩ := t
            rw [hrec] at h
            have ih := deleteFilteredF_protects c sh f xs ip' out' ok' hrec
            simp only [Outcome.ok.injEq, Prod.mk.injEq] at h
            obtain ⟨rfl, rfl, rfl⟩ := h
            refine ⟨⟨fun _ => rfl, ih.1⟩, fun hok e he hwe => ?_⟩
            simp only [Bool.and_eq_true] at hok
            rcases List.mem_cons.mp he with rfl | he'
            · exact List.mem_cons_self
            · exact List.mem_cons_of_mem _ (ih.2 hok.1 e he' hwe)

theorem mergeItem_unwritable (sh : Shape) (s2 : List Item) (a : Item) (hw : writeAllowed sh a = false) :
    mergeItem sh true s2 a = a := by
  unfold mergeItem
  cases lookupLast sh (hashKey sh a) s2 <;> simp [hw]

theorem mergeF_fst (c : UCfg) (sh : Shape) (s1 s2 : List Item) :
    (mergeF c sh true s1 s2).1 = s1.map (mergeItem sh true s2) := by
  unfold mergeF
  split <;> simp [merge, mergeFixed]

theorem map_mergeItem_protects (sh : Shape) (s2 : List Item) : ∀ s1 : List Item, Prot sh s1 (s1.map (mergeItem sh true s2))
  | [] => trivial
  | x :: xs => ⟨fun hx => mergeItem_unwritable sh s2 x hx, map_mergeItem_protects sh s2 xs⟩

/-! ### `UpdateList` as a whole -/

/-- the delete phase of a remote write: the caller's array protects the unwritable elements; the current list is
    that array, or a fresh list in which case no element was unwritable -/
theorem deletePhaseF_protects (c : UCfg) (sh : Shape) (ex : List Item) (fd : Option Filter)
    (orig cur : List Item) (aliased ok0 : Bool) (h : deletePhaseF c sh true ex fd = .ok (orig, cur, aliased, ok0)) :
    Prot sh ex orig ∧ (aliased = true → cur = orig) ∧
      (aliased = false → ∀ e ∈ ex, writeAllowed sh e = false → e ∈ cur) := by
  unfold deletePhaseF at h
  cases fd with
  | none =>
    simp only [Outcome.ok.injEq, Prod.mk.injEq] at h
    obtain ⟨rfl, rfl, rfl, _⟩ := h
    exact ⟨Prot.refl sh _, fun _ => rfl, fun h => by cases h⟩
  | some f =>
    simp only at h
    split at h
    · simp only [Outcome.ok.injEq, Prod.mk.injEq] at h
      obtain ⟨rfl, rfl, rfl, _⟩ := h
      exact ⟨Prot.refl sh _, fun _ => rfl, fun h => by cases h⟩
    · unfold deleteFilteredF at h
      cases hd : deleteFilteredF.go c sh true f ex with
      | panic s => rw [hd] at h; simp at h
      | ok t =>
        obtain ⟨ip, out, ok⟩ := t
        rw [hd] at h
        have hp := deleteFilteredF_protects c sh f ex ip out ok hd
        cases ok with
        | true =>
          simp only [if_true, Outcome.ok.injEq, Prod.mk.injEq] at h
          obtain ⟨rfl, rfl, rfl, _⟩ := h
          exact ⟨hp.1, fun h => (by cases h), fun _ => hp.2 rfl⟩
        | false =>
          simp only [Bool.false_eq_true, if_false, Outcome.ok.injEq, Prod.mk.injEq] at h
          obtain ⟨rfl, rfl, rfl, _⟩ := h
          exact ⟨hp.1, fun _ => rfl, fun h => by cases h⟩

/-- membership form used for the returned list: if the current list is not the caller's array, nothing was
    unwritable -/
theorem mem_of_phase (sh : Shape) {ex orig cur out : List Item} {aliased : Bool}
    (hp : Prot sh ex orig) (ha : aliased = true → cur = orig)
    (hn : aliased = false → ∀ e ∈ ex, writeAllowed sh e = false → e ∈ cur)
    (hout : Prot sh cur out) : ∀ e ∈ ex, writeAllowed sh e = false → e ∈ out := by
  intro e he hw
  cases aliased with
  | true =>
    have := ha rfl; subst this
    exact Prot.mem sh hout e (Prot.mem sh hp e he hw) hw
  | false => exact Prot.mem sh hout e (hn rfl e he hw) hw

theorem tailF_protects (c : UCfg) (sh : Shape) {ex orig cur : List Item} {aliased : Bool} (ok0 : Bool) (nw : List Item)
    (hp : Prot sh ex orig) (ha : aliased = true → cur = orig)
    (hn : aliased = false → ∀ e ∈ ex, writeAllowed sh e = false → e ∈ cur) :
    Prot sh ex (tailF c sh true orig cur aliased ok0 nw).inplace ∧
      ∀ e ∈ ex, writeAllowed sh e = false → e ∈ (tailF c sh true orig cur aliased ok0 nw).out := by
  have hmerge : ∀ nw, ∀ e ∈ ex, writeAllowed sh e = false → e ∈ sortData sh (mergeF c sh true cur nw).1 := by
    intro nw e he hw
    have hpm : Prot sh cur (mergeF c sh true cur nw).1 := by
      rw [mergeF_fst]; exact map_mergeItem_protects sh nw cur
    have := mem_of_phase sh hp ha hn hpm e he hw
    exact (sortData_perm sh _).symm.subset this
  unfold tailF
  cases nw with
  | nil => exact ⟨hp, hmerge []⟩
  | cons n0 rest =>
    simp only
    split
    · have hc := copyToAllF_protects c sh n0 cur
      refine ⟨?_, mem_of_phase sh hp ha hn hc⟩
      cases aliased with
      | true => have := ha rfl; subst this; simpa using Prot.trans sh hp hc
      | false => simpa using hp
    · exact ⟨hp, hmerge _⟩

/-- C04, clause 1a on the engine: a remote write of ANY shape, in EVERY member of the family, that does not panic
    leaves each unwritable element unchanged at its position in the caller's (= the stored) array and keeps it,
    identical, in the list it returns -/
theorem updateListF_remote_protects (c : UCfg) (sh : Shape) (ex nw : List Item) (fp fd : Option Filter) (r : Res)
    (h : updateListF c sh true ex nw fp fd = .ok r) :
    Prot sh ex r.inplace ∧ ∀ e ∈ ex, writeAllowed sh e = false → e ∈ r.out := by
  unfold updateListF at h
  cases hd : deletePhaseF c sh true ex fd with
  | panic s => rw [hd] at h; simp at h
  | ok t =>
    obtain ⟨orig, cur, aliased, ok0⟩ := t
    rw [hd] at h
    obtain ⟨hp, ha, hn⟩ := deletePhaseF_protects c sh ex fd orig cur aliased ok0 hd
    simp only at h
    unfold partialPhaseF at h
    cases fp with
    | none =>
      simp only [Outcome.ok.injEq] at h
      subst h
      exact tailF_protects c sh ok0 nw hp ha hn
    | some f =>
      cases nw with
      | nil =>
        simp only at h
        split at h
        · simp at h
        · simp only [Outcome.ok.injEq] at h
          subst h
          exact tailF_protects c sh ok0 [] hp ha hn
      | cons n0 rest =>
        simp only at h
        cases hs : f.sel with
        | none =>
          rw [hs] at h
          simp only [Outcome.ok.injEq] at h
          subst h
          exact ⟨hp, mem_of_phase sh hp ha hn (Prot.refl sh cur)⟩
        | some sel =>
          rw [hs] at h
          simp only at h
          unfold copyToSelectedF at h
          cases hc : copyToSelectedF.go c sh true sel n0 cur with
          | panic s => rw [hc] at h; simp at h
          | ok rb =>
            obtain ⟨r', ok1⟩ := rb
            rw [hc] at h
            simp only [Outcome.ok.injEq] at h
            subst h
            have hcp := copyToSelectedF_protects c sh sel n0 cur r' ok1 hc
            refine ⟨?_, mem_of_phase sh hp ha hn hcp⟩
            cases aliased with
            | true => have := ha rfl; subst this; simpa using Prot.trans sh hp hcp
            | false => simpa using hp

/-! ### on lists without unwritable elements -/

theorem copyToSelectedF_all_writable (c : UCfg) (sh : Shape) (remote : Bool) (sel nw : Item) :
    ∀ (ex r : List Item) (b : Bool), ex.all (writeAllowed sh) = true →
      copyToSelectedF.go c sh remote sel nw ex = .ok (r, b) → b = true
  | [], r, b, _, h => by
    simp only [copyToSelectedF.go, Outcome.ok.injEq, Prod.mk.injEq] at h
    exact h.2.symm
  | x :: xs, r, b, hall, h => by
    simp only [List.all_cons, Bool.and_eq_true] at hall
    simp only [copyToSelectedF.go] at h
    cases hm : selectorMatchF c sh sel x with
    | panic s => rw [hm] at h; simp at h
    | ok m =>
      rw [hm] at h
      cases m with
      | false =>
        simp only at h
        cases hrec : copyToSelectedF.go c sh remote sel nw xs with
        | panic s => rw [hrec] at h; simp at h
        | ok rb =>
          obtain ⟨r', b'⟩ := rb
          rw [hrec] at h
          simp only [Outcome.ok.injEq, Prod.mk.injEq] at h
          obtain ⟨_, rfl⟩ := h
          exact copyToSelectedF_all_writable c sh remote sel nw xs r' b' hall.2 hrec
      | true =>
        simp only [hall.1, Bool.not_true, Bool.false_and, Bool.false_eq_true, if_false, Outcome.ok.injEq, Prod.mk.injEq] at h
        exact h.2.symm

theorem copyToAll_all_writable (c : UCfg) (sh : Shape) (remote : Bool) (ex : List Item) (nw : Item)
    (hall : ex.all (writeAllowed sh) = true) : (copyToAllF c sh remote ex nw).2 = true := by
  simp only [copyToAllF, Bool.not_eq_true', Bool.and_eq_false_imp]
  intro _
  rw [List.any_eq_false]
  intro x hx
  rw [List.all_eq_true] at hall
  simp [hall x hx]

theorem merge_all_writable (sh : Shape) (s1 s2 : List Item) (hall : s1.all (writeAllowed sh) = true) :
    (merge sh true s1 s2).2 = true := by
  simp [merge, hall]

/-- a delete filter without elements on a list without unwritable elements: accepted, and what remains is a
    sub-list of what was there (hence again without unwritable elements) -/
theorem deleteFilteredF_sel_all_writable (c : UCfg) (sh : Shape) (remote : Bool) (fs : Option Item) :
    ∀ (ex ip out : List Item) (ok : Bool), ex.all (writeAllowed sh) = true →
      deleteFilteredF.go c sh remote ⟨fs, none⟩ ex = .ok (ip, out, ok) →
      ok = true ∧ ip = ex ∧ out.all (writeAllowed sh) = true
  | [], ip, out, ok, _, h => by
    simp only [deleteFilteredF.go, Outcome.ok.injEq, Prod.mk.injEq] at h
    obtain ⟨rfl, rfl, rfl⟩ := h
    exact ⟨rfl, rfl, rfl⟩
  | x :: xs, ip, out, ok, hall, h => by
    simp only [List.all_cons, Bool.and_eq_true] at hall
    simp only [deleteFilteredF.go, hall.1, Bool.not_true, Bool.false_and, Bool.false_eq_true, if_false] at h
    cases hm : hitOf c sh ⟨fs, none⟩ x with
    | panic s => rw [hm] at h; simp at h
    | ok hit =>
      rw [hm] at h
      simp only at h
      cases hrec : deleteFilteredF.go c sh remote ⟨fs, none⟩ xs with
      | panic s => rw [hrec] at h; simp at h
      | ok t =>
        obtain ⟨ip', out', ok'⟩ := t
        rw [hrec] at h
        obtain ⟨rfl, rfl, ho⟩ := deleteFilteredF_sel_all_writable c sh remote fs xs ip' out' ok' hall.2 hrec
        simp only [delItem, Outcome.ok.injEq, Prod.mk.injEq] at h
        obtain ⟨rfl, rfl, rfl⟩ := h
        refine ⟨rfl, rfl, ?_⟩
        split <;> simp [hall.1, ho]

/-- C04 on lists without unwritable elements (code as written): a remote write whose delete filter names no
    elements is accepted — so the error clause is vacuous there and acceptance does not depend on anything -/
theorem updateList_all_writable_accepts (sh : Shape) (ex nw : List Item) (fp fd : Option Filter) (r : Res)
    (hall : ex.all (writeAllowed sh) = true) (hel : ∀ f, fd = some f → f.el = none)
    (h : updateListF .asWritten sh true ex nw fp fd = .ok r) : r.ok = true := by
  unfold updateListF at h
  -- the delete phase succeeds and leaves a list without unwritable elements
  have hdel : ∀ orig cur aliased ok0, deletePhaseF .asWritten sh true ex fd = .ok (orig, cur, aliased, ok0) →
      ok0 = true ∧ cur.all (writeAllowed sh) = true := by
    intro orig cur aliased ok0 hd
    unfold deletePhaseF at hd
    cases fd with
    | none =>
      simp only [Outcome.ok.injEq, Prod.mk.injEq] at hd
      obtain ⟨_, rfl, _, rfl⟩ := hd
      exact ⟨rfl, hall⟩
    | some f =>
      have hf := hel f rfl
      obtain ⟨fs, fe⟩ := f
      simp only at hf; subst hf
      simp only at hd
      split at hd
      · simp only [Outcome.ok.injEq, Prod.mk.injEq] at hd
        obtain ⟨_, rfl, _, rfl⟩ := hd
        exact ⟨rfl, hall⟩
      · unfold deleteFilteredF at hd
        cases hg : deleteFilteredF.go .asWritten sh true ⟨fs, none⟩ ex with
        | panic s => rw [hg] at hd; simp at hd
        | ok t =>
          obtain ⟨ip, out, ok⟩ := t
          rw [hg] at hd
          obtain ⟨rfl, rfl, ho⟩ := deleteFilteredF_sel_all_writable .asWritten sh true fs ex ip out ok hall hg
          simp only [if_true, Outcome.ok.injEq, Prod.mk.injEq] at hd
          obtain ⟨_, rfl, _, rfl⟩ := hd
          exact ⟨rfl, ho⟩
  cases hd : deletePhaseF .asWritten sh true ex fd with
  | panic s => rw [hd] at h; simp at h
  | ok t =>
    obtain ⟨orig, cur, aliased, ok0⟩ := t
    rw [hd] at h
    obtain ⟨rfl, hcur⟩ := hdel orig cur aliased ok0 hd
    simp only at h
    have htail : ∀ nw, (tailF .asWritten sh true orig cur aliased true nw).ok = true := by
      intro nw
      unfold tailF
      cases nw with
      | nil => simp [mergeF_asWritten, merge_all_writable sh cur [] hcur]
      | cons n0 rest =>
        simp only
        split
        · simp [copyToAll_all_writable .asWritten sh true cur n0 hcur]
        · simp [mergeF_asWritten, merge_all_writable sh cur _ hcur]
    unfold partialPhaseF at h
    cases fp with
    | none =>
      simp only [Outcome.ok.injEq] at h
      subst h; exact htail nw
    | some f =>
      cases nw with
      | nil =>
        simp only at h
        split at h
        · simp at h
        · simp only [Outcome.ok.injEq] at h
          subst h; exact htail []
      | cons n0 rest =>
        simp only at h
        cases hs : f.sel with
        | none =>
          rw [hs] at h
          simp only [Outcome.ok.injEq] at h
          subst h; rfl
        | some sel =>
          rw [hs] at h
          simp only at h
          unfold copyToSelectedF at h
          cases hc : copyToSelectedF.go .asWritten sh true sel n0 cur with
          | panic s => rw [hc] at h; simp at h
          | ok rb =>
            obtain ⟨r', ok1⟩ := rb
            rw [hc] at h
            simp only [Outcome.ok.injEq] at h
            subst h
            simp [copyToSelectedF_all_writable .asWritten sh true sel n0 cur r' ok1 hcur hc]

/-! ### success has applied the changes (merge path) -/

/-- a field the incoming item carries, other than the flag, is what the merged item carries -/
theorem updateFields_remote_applied (sh : Shape) (a b : Item) (j : Nat) (hj : j < b.length)
    (hb : (b.get j).isSome = true) (hf : sh.flag ≠ some j) : (updateFields sh true a b).get j = b.get j := by
  rw [get_updateFields sh true a b j hj]
  have : (sh.flag == some j) = false := by simpa using hf
  cases hg : b.get j with
  | none => rw [hg] at hb; cases hb
  | some v => simp [this]

/-- C04, clause 4 on the merge path (code as written): a remote merge answered with success has replaced every
    addressed element by the overlay of the incoming item (the last one with that identifier) -/
theorem merge_success_applied (sh : Shape) (s1 s2 : List Item) (hok : (merge sh true s1 s2).2 = true)
    (a : Item) (ha : a ∈ s1) (b : Item) (hl : lookupLast sh (hashKey sh a) s2 = some b) :
    mergeItem sh true s2 a = updateFields sh true a b ∧ mergeItem sh true s2 a ∈ (merge sh true s1 s2).1 := by
  have hall : s1.all (writeAllowed sh) = true := by simpa [merge] using hok
  rw [List.all_eq_true] at hall
  refine ⟨by simp [mergeItem, hl, hall a ha], ?_⟩
  simp only [merge, if_true, List.append_nil, List.mem_map]
  exact ⟨a, ha, rfl⟩

/-! ### the repaired `Merge` -/

theorem mergeItem_unaddressed (sh : Shape) (remote : Bool) (s2 : List Item) (a : Item)
    (hu : addressedBy sh s2 a = false) : mergeItem sh remote s2 a = a := by
  unfold addressedBy at hu
  unfold mergeItem
  cases hl : lookupLast sh (hashKey sh a) s2 with
  | none => rfl
  | some b => rw [hl] at hu; simp at hu

theorem lookupLast_isSome_of_mem (sh : Shape) (k : List Val) : ∀ (s2 : List Item) (b : Item), b ∈ s2 → hashKey sh b = k →
    (lookupLast sh k s2).isSome = true
  | x :: xs, b, hb, hk => by
    simp only [lookupLast]
    cases hr : lookupLast sh k xs with
    | some y => rfl
    | none =>
      rcases List.mem_cons.mp hb with rfl | hb'
      · simp [hk]
      · have := lookupLast_isSome_of_mem sh k xs b hb' hk
        rw [hr] at this; cases this

theorem any_filter_eq (p q : Item → Bool) : ∀ l : List Item, (l.filter p).any q = l.any fun x => p x && q x
  | [] => rfl
  | x :: xs => by
    simp only [List.filter_cons, List.any_cons]
    cases hp : p x <;> simp [any_filter_eq p q xs]

/-- C04, clause 2 for the repaired `Merge`: the verdict of a remote merge is a function of the addressed elements
    alone — two stores with the same addressed elements get the same answer -/
theorem mergeFixed_verdict_addressed (sh : Shape) (s1 s2 : List Item) :
    (mergeFixed sh true s1 s2).2 = (mergeFixed sh true (s1.filter (addressedBy sh s2)) s2).2 := by
  have hblocked : (s1.any fun a => addressedBy sh s2 a && !writeAllowed sh a) =
      ((s1.filter (addressedBy sh s2)).any fun a => addressedBy sh s2 a && !writeAllowed sh a) := by
    rw [any_filter_eq]
    congr 1; funext a
    cases addressedBy sh s2 a <;> simp
  have hmissing : (s2.any fun b => !(s1.any fun a => hashKey sh a = hashKey sh b)) =
      (s2.any fun b => !((s1.filter (addressedBy sh s2)).any fun a => hashKey sh a = hashKey sh b)) := by
    rw [Bool.eq_iff_iff]
    simp only [List.any_eq_true, Bool.not_eq_true', List.any_eq_false, decide_eq_true_eq, List.mem_filter]
    constructor
    · rintro ⟨b, hb, hn⟩
      exact ⟨b, hb, fun a ha => hn a ha.1⟩
    · rintro ⟨b, hb, hn⟩
      refine ⟨b, hb, fun a ha hk => hn a ⟨ha, ?_⟩ hk⟩
      unfold addressedBy
      exact lookupLast_isSome_of_mem sh _ s2 b hb hk.symm
  simp only [mergeFixed, Bool.not_true, Bool.false_or]
  rw [← hblocked, ← hmissing]

theorem mergeF_fixed (c : UCfg) (hc : c.mergeStrict = false) (sh : Shape) (remote : Bool) (s1 s2 : List Item) :
    mergeF c sh remote s1 s2 = mergeFixed sh remote s1 s2 := by
  simp [mergeF, hc]

/-- what a success of the repaired `Merge` means: nothing the write names is missing, no addressed element is
    unwritable -/
theorem mergeFixed_success (sh : Shape) (s1 s2 : List Item) (hok : (mergeFixed sh true s1 s2).2 = true) :
    (∀ b ∈ s2, ∃ a ∈ s1, hashKey sh a = hashKey sh b) ∧
    (∀ a ∈ s1, addressedBy sh s2 a = true → writeAllowed sh a = true) := by
  have hb : (s1.any fun a => addressedBy sh s2 a && !writeAllowed sh a) = false ∧
      (s2.any fun b => !(s1.any fun a => hashKey sh a = hashKey sh b)) = false := by
    have : ((s1.any fun a => addressedBy sh s2 a && !writeAllowed sh a) ||
        (s2.any fun b => !(s1.any fun a => hashKey sh a = hashKey sh b))) = false := by
      simpa [mergeFixed] using hok
    exact Bool.or_eq_false_iff.mp this
  refine ⟨fun b hb' => ?_, fun a ha had => ?_⟩
  · have := List.any_eq_false.mp hb.2 b hb'
    simp only [Bool.not_eq_true, Bool.not_eq_false', List.any_eq_true, decide_eq_true_eq] at this
    exact this
  · have := List.any_eq_false.mp hb.1 a ha
    simp only [had, Bool.true_and, Bool.not_eq_true, Bool.not_eq_false'] at this
    exact this

/-- C04, clause 4 for the repaired `Merge`: a remote merge answered with success has, for EVERY incoming item, a
    stored element with its identifier, and has replaced every addressed element by the overlay of the incoming
    item (the last one with that identifier) -/
theorem mergeFixed_success_applied (sh : Shape) (s1 s2 : List Item) (hok : (mergeFixed sh true s1 s2).2 = true) :
    (∀ b ∈ s2, ∃ a ∈ s1, hashKey sh a = hashKey sh b) ∧
    ∀ a ∈ s1, ∀ b, lookupLast sh (hashKey sh a) s2 = some b →
      mergeItem sh true s2 a = updateFields sh true a b ∧ mergeItem sh true s2 a ∈ (mergeFixed sh true s1 s2).1 := by
  obtain ⟨h1, h2⟩ := mergeFixed_success sh s1 s2 hok
  refine ⟨h1, fun a ha b hl => ⟨?_, ?_⟩⟩
  · have : writeAllowed sh a = true := h2 a ha (by simp [addressedBy, hl])
    simp [mergeItem, hl, this]
  · simp only [mergeFixed, if_true, List.append_nil, List.mem_map]
    exact ⟨a, ha, rfl⟩

/-! ### the repaired `deleteFilteredData` -/

/-- does the delete filter leave the item alone -/
def notHit (c : UCfg) (sh : Shape) (f : Filter) (x : Item) : Bool :=
  match hitOf c sh f x with
  | .ok false => true
  | _ => false

/-- C04, clause 2 for the repaired delete path: the verdict of a remote delete is "no unwritable element is hit" —
    a function of the elements the filter addresses alone -/
theorem deleteFilteredF_fixed_verdict (c : UCfg) (hc : c.deleteStrict = false) (sh : Shape) (f : Filter) :
    ∀ (ex ip out : List Item) (ok : Bool), deleteFilteredF.go c sh true f ex = .ok (ip, out, ok) →
      ok = ex.all fun x => writeAllowed sh x || notHit c sh f x
  | [], ip, out, ok, h => by
    simp only [deleteFilteredF.go, Outcome.ok.injEq, Prod.mk.injEq] at h
    obtain ⟨_, _, rfl⟩ := h; rfl
  | x :: xs, ip, out, ok, h => by
    simp only [deleteFilteredF.go, Bool.and_true, hc, Bool.false_eq_true, if_false] at h
    by_cases hw : writeAllowed sh x = true
    · simp only [hw, Bool.not_true, Bool.false_eq_true, if_false] at h
      cases hm : hitOf c sh f x with
      | panic s => rw [hm] at h; simp at h
      | ok hit =>
        rw [hm] at h
        simp only at h
        cases hrec : deleteFilteredF.go c sh true f xs with
        | panic s => rw [hrec] at h; simp at h
        | ok t =>
          obtain ⟨ip', out', ok'⟩ := t
          rw [hrec] at h
          simp only [Outcome.ok.injEq, Prod.mk.injEq] at h
          obtain ⟨_, _, rfl⟩ := h
          simp [hw, deleteFilteredF_fixed_verdict c hc sh f xs ip' out' ok' hrec]
    · have hw' : writeAllowed sh x = false := by simpa using hw
      simp only [hw', Bool.not_false, if_true] at h
      cases hm : hitOf c sh f x with
      | panic s => rw [hm] at h; simp at h
      | ok hit =>
        rw [hm] at h
        simp only at h
        cases hrec : deleteFilteredF.go c sh true f xs with
        | panic s => rw [hrec] at h; simp at h
        | ok t =>
          obtain ⟨ip', out', ok'⟩ := t
          rw [hrec] at h
          simp only [Outcome.ok.injEq, Prod.mk.injEq] at h
          obtain ⟨_, _, rfl⟩ := h
          rw [deleteFilteredF_fixed_verdict c hc sh f xs ip' out' ok' hrec]
          cases hit <;> simp [hw', notHit, hm, Bool.and_comm]

/-- … hence two stores with the same addressed (hit or failing-to-decide) elements get the same answer -/
theorem deleteFilteredF_fixed_irrelevant (c : UCfg) (hc : c.deleteStrict = false) (sh : Shape) (f : Filter)
    (ex ex' ip out ip' out' : List Item) (ok ok' : Bool)
    (h : deleteFilteredF.go c sh true f ex = .ok (ip, out, ok))
    (h' : deleteFilteredF.go c sh true f ex' = .ok (ip', out', ok'))
    (hsame : ex.filter (fun x => !notHit c sh f x) = ex'.filter (fun x => !notHit c sh f x)) : ok = ok' := by
  rw [deleteFilteredF_fixed_verdict c hc sh f ex ip out ok h, deleteFilteredF_fixed_verdict c hc sh f ex' ip' out' ok' h']
  have key : ∀ l : List Item, (l.all fun x => writeAllowed sh x || notHit c sh f x) =
      ((l.filter fun x => !notHit c sh f x).all fun x => writeAllowed sh x) := by
    intro l
    induction l with
    | nil => rfl
    | cons x xs ih =>
      simp only [List.all_cons, List.filter_cons, ih]
      cases hn : notHit c sh f x <;> simp
  rw [key ex, key ex', hsame]

/-- … and an element the filter does not hit is still in the result, unchanged (every member) -/
theorem deleteFilteredF_unaddressed_kept (c : UCfg) (sh : Shape) (remote : Bool) (f : Filter) :
    ∀ (ex ip out : List Item) (ok : Bool), deleteFilteredF.go c sh remote f ex = .ok (ip, out, ok) → ok = true →
      ∀ x ∈ ex, notHit c sh f x = true → x ∈ out
  | [], ip, out, ok, _, _, x, hx, _ => by cases hx
  | y :: ys, ip, out, ok, h, hok, x, hx, hn => by
    simp only [deleteFilteredF.go] at h
    have hrest : ∀ ip' out' ok', deleteFilteredF.go c sh remote f ys = .ok (ip', out', ok') → ok' = true →
        x ∈ ys → x ∈ out' := fun ip' out' ok' hr ho hm =>
      deleteFilteredF_unaddressed_kept c sh remote f ys ip' out' ok' hr ho x hm hn
    split at h
    · split at h
      · cases hrec : deleteFilteredF.go c sh remote f ys with
        | panic s => rw [hrec] at h; simp at h
        | ok t =>
          obtain ⟨ip', out', ok'⟩ := t
          rw [hrec] at h
          simp only [Outcome.ok.injEq, Prod.mk.injEq] at h
          obtain ⟨_, _, rfl⟩ := h
          cases hok
      · cases hm : hitOf c sh f y with
        | panic s => rw [hm] at h; simp at h
        | ok hit =>
          rw [hm] at h
          simp only at h
          cases hrec : deleteFilteredF.go c sh remote f ys with
          | panic s => rw [hrec] at h; simp at h
          | ok t =>
            obtain ⟨ip', out', ok'⟩ := t
            rw [hrec] at h
            simp only [Outcome.ok.injEq, Prod.mk.injEq] at h
            obtain ⟨_, rfl, rfl⟩ := h
            simp only [Bool.and_eq_true] at hok
            rcases List.mem_cons.mp hx with rfl | hx'
            · exact List.mem_cons_self
            · exact List.mem_cons_of_mem _ (hrest ip' out' ok' hrec hok.1 hx')
    · cases hm : hitOf c sh f y with
      | panic s => rw [hm] at h; simp at h
      | ok hit =>
        rw [hm] at h
        simp only at h
        cases hrec : deleteFilteredF.go c sh remote f ys with
        | panic s => rw [hrec] at h; simp at h
        | ok t =>
          obtain ⟨ip', out', ok'⟩ := t
          rw [hrec] at h
          simp only [Outcome.ok.injEq, Prod.mk.injEq] at h
          obtain ⟨_, rfl, rfl⟩ := h
          rcases List.mem_cons.mp hx with rfl | hx'
          · -- the item itself: not hit, so it is kept as it is
            have hh : hit = false := by
              simp only [notHit, hm] at hn
              cases hit <;> simp_all
            subst hh
            have hk : delKeep f false = true := by
              unfold delKeep; cases f.sel <;> cases f.el <;> rfl
            have hd : delItem c sh remote f false x = x := by
              unfold delItem; cases f.el <;> simp
            simp [hk, hd]
          · have := hrest ip' out' ok' hrec hok hx'
            split
            · exact List.mem_cons_of_mem _ this
            · exact this

/-! ### the repaired in-place paths keep the flag -/

theorem get_restoreFlag (sh : Shape) (f : Nat) (hf : sh.flag = some f) (saved x : Item) (hl : f < x.length) :
    (restoreFlag sh saved x).get f = saved.get f := by
  simp [restoreFlag, hf, Item.get, List.getElem?_set_self hl]

theorem restoreFlag_length (sh : Shape) (saved x : Item) : (restoreFlag sh saved x).length = x.length := by
  unfold restoreFlag; cases sh.flag <;> simp

theorem copyNonNil_length (nw x : Item) : (copyNonNil nw x).length = x.length := by
  unfold copyNonNil; split <;> simp

/-- C04, clause 1b for the member with `inplaceAltersFlag` off: whatever a selector or identifier-less remote write
    carries, the item it overlays keeps its flag -/
theorem copyNonNilF_keeps_flag (c : UCfg) (hc : c.inplaceAltersFlag = false) (sh : Shape) (f : Nat)
    (hf : sh.flag = some f) (nw x : Item) (hl : f < x.length) : (copyNonNilF c sh true nw x).get f = x.get f := by
  simp only [copyNonNilF, keepsFlag, hc, Bool.not_false, Bool.and_self, if_true]
  exact get_restoreFlag sh f hf x _ (by rw [copyNonNil_length]; exact hl)

/-! ### the flag clause for a whole `UpdateList` call of the member whose in-place paths put the flag back -/

/-- position by position the flag is the same (and an item wide enough to carry the flag stays so) -/
def FlagSame (f : Nat) : List Item → List Item → Prop
  | [], [] => True
  | x :: xs, y :: ys => ((f < x.length → y.get f = x.get f ∧ f < y.length)) ∧ FlagSame f xs ys
  | _, _ => False

theorem FlagSame.refl (f : Nat) : ∀ l, FlagSame f l l
  | [] => trivial
  | _ :: xs => ⟨fun h => ⟨rfl, h⟩, FlagSame.refl f xs⟩

theorem FlagSame.trans (f : Nat) : ∀ {a b c : List Item}, FlagSame f a b → FlagSame f b c → FlagSame f a c
  | [], [], [], _, _ => trivial
  | x :: xs, y :: ys, z :: zs, h1, h2 => by
    refine ⟨fun hx => ?_, FlagSame.trans f h1.2 h2.2⟩
    obtain ⟨e1, w1⟩ := h1.1 hx
    obtain ⟨e2, w2⟩ := h2.1 w1
    exact ⟨e2.trans e1, w2⟩
  | [], [], _ :: _, _, h2 => by simp [FlagSame] at h2
  | [], _ :: _, _, h1, _ => by simp [FlagSame] at h1
  | _ :: _, [], _, h1, _ => by simp [FlagSame] at h1
  | _ :: _, _ :: _, [], _, h2 => by simp [FlagSame] at h2

/-- every item is wide enough to carry the flag -/
def Wide (f : Nat) (l : List Item) : Prop := ∀ x ∈ l, f < x.length

theorem FlagSame.wide (f : Nat) : ∀ {a b : List Item}, FlagSame f a b → Wide f a → Wide f b
  | [], [], _, _ => fun _ hx => by cases hx
  | x :: xs, y :: ys, h, hw => by
    intro z hz
    rcases List.mem_cons.mp hz with rfl | hz'
    · exact (h.1 (hw x List.mem_cons_self)).2
    · exact FlagSame.wide f h.2 (fun a ha => hw a (List.mem_cons_of_mem _ ha)) z hz'
  | [], _ :: _, h, _ => by simp [FlagSame] at h
  | _ :: _, [], h, _ => by simp [FlagSame] at h

theorem Wide.sublist {f : Nat} {a b : List Item} (h : a.Sublist b) (hw : Wide f b) : Wide f a :=
  fun x hx => hw x (h.subset hx)

theorem copyNonNilF_flagItem (c : UCfg) (hc : c.inplaceAltersFlag = false) (sh : Shape) (f : Nat) (hf : sh.flag = some f)
    (nw x : Item) (hl : f < x.length) :
    (copyNonNilF c sh true nw x).get f = x.get f ∧ f < (copyNonNilF c sh true nw x).length := by
  refine ⟨copyNonNilF_keeps_flag c hc sh f hf nw x hl, ?_⟩
  simp only [copyNonNilF, keepsFlag, hc, Bool.not_false, Bool.and_self, if_true, restoreFlag_length, copyNonNil_length]
  exact hl

theorem removeElements_length (sh : Shape) (el x : Item) : (removeElements sh el x).length = x.length := by
  unfold removeElements; split <;> simp

theorem delItem_flagItem (c : UCfg) (hc : c.inplaceAltersFlag = false) (sh : Shape) (f : Nat) (hf : sh.flag = some f)
    (flt : Filter) (hit : Bool) (x : Item) (hl : f < x.length) :
    (delItem c sh true flt hit x).get f = x.get f ∧ f < (delItem c sh true flt hit x).length := by
  unfold delItem
  cases flt.el with
  | none => exact ⟨rfl, hl⟩
  | some el =>
    cases hit with
    | false => exact ⟨rfl, hl⟩
    | true =>
      simp only [keepsFlag, hc, Bool.not_false, Bool.and_self, if_true]
      exact ⟨get_restoreFlag sh f hf x _ (by rw [removeElements_length]; exact hl),
        by rw [restoreFlag_length, removeElements_length]; exact hl⟩

theorem copyToSelectedF_flags (c : UCfg) (hc : c.inplaceAltersFlag = false) (sh : Shape) (f : Nat) (hf : sh.flag = some f)
    (sel nw : Item) :
    ∀ (ex r : List Item) (b : Bool), copyToSelectedF.go c sh true sel nw ex = .ok (r, b) → FlagSame f ex r
  | [], r, b, h => by
    simp only [copyToSelectedF.go, Outcome.ok.injEq, Prod.mk.injEq] at h
    obtain ⟨rfl, _⟩ := h; trivial
  | x :: xs, r, b, h => by
    simp only [copyToSelectedF.go] at h
    cases hm : selectorMatchF c sh sel x with
    | panic s => rw [hm] at h; simp at h
    | ok m =>
      rw [hm] at h
      have hrecur : ∀ r' b', copyToSelectedF.go c sh true sel nw xs = .ok (r', b') → FlagSame f (x :: xs) (x :: r') :=
        fun r' b' hr => ⟨fun hx => ⟨rfl, hx⟩, copyToSelectedF_flags c hc sh f hf sel nw xs r' b' hr⟩
      cases m with
      | false =>
        simp only at h
        cases hrec : copyToSelectedF.go c sh true sel nw xs with
        | panic s => rw [hrec] at h; simp at h
        | ok rb =>
          obtain ⟨r', b'⟩ := rb
          rw [hrec] at h
          simp only [Outcome.ok.injEq, Prod.mk.injEq] at h
          obtain ⟨rfl, _⟩ := h
          exact hrecur r' b' hrec
      | true =>
        simp only at h
        split at h
        · cases hrec : copyToSelectedF.go c sh true sel nw xs with
          | panic s => rw [hrec] at h; simp at h
          | ok rb =>
            obtain ⟨r', b'⟩ := rb
            rw [hrec] at h
            simp only [Outcome.ok.injEq, Prod.mk.injEq] at h
            obtain ⟨rfl, _⟩ := h
            exact hrecur r' b' hrec
        · simp only [Outcome.ok.injEq, Prod.mk.injEq] at h
          obtain ⟨rfl, _⟩ := h
          exact ⟨fun hx => copyNonNilF_flagItem c hc sh f hf nw x hx, FlagSame.refl f xs⟩

theorem copyToAllF_flags (c : UCfg) (hc : c.inplaceAltersFlag = false) (sh : Shape) (f : Nat) (hf : sh.flag = some f)
    (nw : Item) : ∀ ex : List Item, FlagSame f ex (copyToAllF c sh true ex nw).1
  | [] => trivial
  | x :: xs => by
    refine ⟨fun hx => ?_, copyToAllF_flags c hc sh f hf nw xs⟩
    show (if (!writeAllowed sh x && true) = true then x else copyNonNilF c sh true nw x).get f = x.get f ∧
      f < (if (!writeAllowed sh x && true) = true then x else copyNonNilF c sh true nw x).length
    split
    · exact ⟨rfl, hx⟩
    · exact copyNonNilF_flagItem c hc sh f hf nw x hx

/-- the delete phase: position by position in the caller's array; its result list corresponds one to one to a
    sub-list of the stored elements with the same flags -/
theorem deleteFilteredF_flags (c : UCfg) (hc : c.inplaceAltersFlag = false) (sh : Shape) (f : Nat) (hf : sh.flag = some f)
    (flt : Filter) :
    ∀ (ex ip out : List Item) (ok : Bool), deleteFilteredF.go c sh true flt ex = .ok (ip, out, ok) →
      FlagSame f ex ip ∧ ∃ src, src.Sublist ex ∧ FlagSame f src out
  | [], ip, out, ok, h => by
    simp only [deleteFilteredF.go, Outcome.ok.injEq, Prod.mk.injEq] at h
    obtain ⟨rfl, rfl, _⟩ := h
    exact ⟨trivial, [], List.Sublist.refl _, trivial⟩
  | x :: xs, ip, out, ok, h => by
    simp only [deleteFilteredF.go] at h
    split at h
    · split at h
      · cases hrec : deleteFilteredF.go c sh true flt xs with
        | panic s => rw [hrec] at h; simp at h
        | ok t =>
          obtain ⟨ip', out', ok'⟩ := t
          rw [hrec] at h
          obtain ⟨i1, src, i2, i3⟩ := deleteFilteredF_flags c hc sh f hf flt xs ip' out' ok' hrec
          simp only [Outcome.ok.injEq, Prod.mk.injEq] at h
          obtain ⟨rfl, rfl, _⟩ := h
          exact ⟨⟨fun hx => ⟨rfl, hx⟩, i1⟩, src, List.Sublist.cons _ i2, i3⟩
      · cases hm : hitOf c sh flt x with
        | panic s => rw [hm] at h; simp at h
        | ok hit =>
          rw [hm] at h
          simp only at h
          cases hrec : deleteFilteredF.go c sh true flt xs with
          | panic s => rw [hrec] at h; simp at h
          | ok t =>
            obtain ⟨ip', out', ok'⟩ := t
            rw [hrec] at h
            obtain ⟨i1, src, i2, i3⟩ := deleteFilteredF_flags c hc sh f hf flt xs ip' out' ok' hrec
            simp only [Outcome.ok.injEq, Prod.mk.injEq] at h
            obtain ⟨rfl, rfl, _⟩ := h
            exact ⟨⟨fun hx => ⟨rfl, hx⟩, i1⟩, x :: src, List.Sublist.cons₂ _ i2, ⟨fun hx => ⟨rfl, hx⟩, i3⟩⟩
    · cases hm : hitOf c sh flt x with
      | panic s => rw [hm] at h; simp at h
      | ok hit =>
        rw [hm] at h
        simp only at h
        cases hrec : deleteFilteredF.go c sh true flt xs with
        | panic s => rw [hrec] at h; simp at h
        | ok t =>
          obtain ⟨ip', out', ok'⟩ := t
          rw [hrec] at h
          obtain ⟨i1, src, i2, i3⟩ := deleteFilteredF_flags c hc sh f hf flt xs ip' out' ok' hrec
          simp only [Outcome.ok.injEq, Prod.mk.injEq] at h
          obtain ⟨rfl, rfl, _⟩ := h
          have hitem := fun hx => delItem_flagItem c hc sh f hf flt hit x hx
          refine ⟨⟨hitem, i1⟩, ?_⟩
          split
          · exact ⟨x :: src, List.Sublist.cons₂ _ i2, ⟨hitem, i3⟩⟩
          · exact ⟨src, List.Sublist.cons _ i2, i3⟩

theorem mergeItem_flagItem (sh : Shape) (f : Nat) (hf : sh.flag = some f) (s2 : List Item) (hs2 : Wide f s2)
    (a : Item) (hl : f < a.length) :
    (mergeItem sh true s2 a).get f = a.get f ∧ f < (mergeItem sh true s2 a).length := by
  unfold mergeItem
  cases hlk : lookupLast sh (hashKey sh a) s2 with
  | none => exact ⟨rfl, hl⟩
  | some b =>
    have hb := hs2 b (lookupLast_mem sh _ s2 b hlk).1
    simp only
    split
    · exact ⟨updateFields_flag sh a b f hf hb, by rw [updateFields_length]; exact hb⟩
    · exact ⟨rfl, hl⟩

theorem map_mergeItem_flags (sh : Shape) (f : Nat) (hf : sh.flag = some f) (s2 : List Item) (hs2 : Wide f s2) :
    ∀ s1 : List Item, FlagSame f s1 (s1.map (mergeItem sh true s2))
  | [] => trivial
  | x :: xs => ⟨fun hx => mergeItem_flagItem sh f hf s2 hs2 x hx, map_mergeItem_flags sh f hf s2 hs2 xs⟩

/-- the returned list corresponds one to one, up to the order `SortData` gives it, to a sub-list of the stored
    elements with the same flags -/
def FlagsKept (f : Nat) (ex out : List Item) : Prop := ∃ src mid, src.Sublist ex ∧ FlagSame f src mid ∧ out.Perm mid

theorem deletePhaseF_flags (c : UCfg) (hc : c.inplaceAltersFlag = false) (sh : Shape) (f : Nat) (hf : sh.flag = some f)
    (ex : List Item) (fd : Option Filter) (orig cur : List Item) (aliased ok0 : Bool)
    (h : deletePhaseF c sh true ex fd = .ok (orig, cur, aliased, ok0)) :
    FlagSame f ex orig ∧ (aliased = true → cur = orig) ∧ ∃ src, src.Sublist ex ∧ FlagSame f src cur := by
  unfold deletePhaseF at h
  have hsame : ∀ o c' a k, (Outcome.ok (ex, ex, true, true) : Outcome (List Item × List Item × Bool × Bool)) = .ok (o, c', a, k) →
      FlagSame f ex o ∧ (a = true → c' = o) ∧ ∃ src, src.Sublist ex ∧ FlagSame f src c' := by
    intro o c' a k e
    simp only [Outcome.ok.injEq, Prod.mk.injEq] at e
    obtain ⟨rfl, rfl, _, _⟩ := e
    exact ⟨FlagSame.refl f _, fun _ => rfl, ex, List.Sublist.refl _, FlagSame.refl f _⟩
  cases fd with
  | none => exact hsame _ _ _ _ h
  | some flt =>
    simp only at h
    split at h
    · exact hsame _ _ _ _ h
    · unfold deleteFilteredF at h
      cases hd : deleteFilteredF.go c sh true flt ex with
      | panic s => rw [hd] at h; simp at h
      | ok t =>
        obtain ⟨ip, out, ok⟩ := t
        rw [hd] at h
        obtain ⟨i1, src, i2, i3⟩ := deleteFilteredF_flags c hc sh f hf flt ex ip out ok hd
        cases ok with
        | true =>
          simp only [if_true, Outcome.ok.injEq, Prod.mk.injEq] at h
          obtain ⟨rfl, rfl, rfl, _⟩ := h
          exact ⟨i1, fun h => (by cases h), src, i2, i3⟩
        | false =>
          simp only [Bool.false_eq_true, if_false, Outcome.ok.injEq, Prod.mk.injEq] at h
          obtain ⟨rfl, rfl, rfl, _⟩ := h
          exact ⟨i1, fun _ => rfl, ex, List.Sublist.refl _, i1⟩

theorem tailF_flags (c : UCfg) (hc : c.inplaceAltersFlag = false) (sh : Shape) (f : Nat) (hf : sh.flag = some f)
    {ex orig cur src : List Item} {aliased : Bool} (ok0 : Bool) (nw : List Item) (hnw : Wide f nw)
    (hp : FlagSame f ex orig) (ha : aliased = true → cur = orig) (hs : src.Sublist ex) (hc' : FlagSame f src cur) :
    FlagSame f ex (tailF c sh true orig cur aliased ok0 nw).inplace ∧
      FlagsKept f ex (tailF c sh true orig cur aliased ok0 nw).out := by
  have hmerge : ∀ nw, Wide f nw → FlagsKept f ex (sortData sh (mergeF c sh true cur nw).1) := by
    intro nw hnw
    refine ⟨src, cur.map (mergeItem sh true nw), hs, FlagSame.trans f hc' (map_mergeItem_flags sh f hf nw hnw cur), ?_⟩
    rw [mergeF_fst]
    exact sortData_perm sh _
  unfold tailF
  cases nw with
  | nil => exact ⟨hp, hmerge [] (fun x hx => by cases hx)⟩
  | cons n0 rest =>
    simp only
    split
    · have hall := copyToAllF_flags c hc sh f hf n0 cur
      refine ⟨?_, src, _, hs, FlagSame.trans f hc' hall, List.Perm.refl _⟩
      cases aliased with
      | true => have := ha rfl; subst this; simpa using FlagSame.trans f hp hall
      | false => simpa using hp
    · exact ⟨hp, hmerge _ hnw⟩

/-- C04, clause 1b for the member whose in-place paths put the flag back (`inplaceAltersFlag` off), for a WHOLE
    remote `UpdateList` call of any shape: position by position the stored array keeps every flag, and the returned
    list corresponds one to one (up to `SortData`'s order) to a sub-list of the stored elements with the same flags.
    `Wide`: the incoming items are wide enough to carry the flag (they are values of the list's item type). -/
theorem updateListF_remote_flags (c : UCfg) (hc : c.inplaceAltersFlag = false) (sh : Shape) (f : Nat)
    (hf : sh.flag = some f) (ex nw : List Item) (hnw : Wide f nw) (fp fd : Option Filter) (r : Res)
    (h : updateListF c sh true ex nw fp fd = .ok r) :
    FlagSame f ex r.inplace ∧ FlagsKept f ex r.out := by
  unfold updateListF at h
  cases hd : deletePhaseF c sh true ex fd with
  | panic s => rw [hd] at h; simp at h
  | ok t =>
    obtain ⟨orig, cur, aliased, ok0⟩ := t
    rw [hd] at h
    obtain ⟨hp, ha, src, hs, hcur⟩ := deletePhaseF_flags c hc sh f hf ex fd orig cur aliased ok0 hd
    simp only at h
    unfold partialPhaseF at h
    cases fp with
    | none =>
      simp only [Outcome.ok.injEq] at h
      subst h
      exact tailF_flags c hc sh f hf ok0 nw hnw hp ha hs hcur
    | some flt =>
      cases nw with
      | nil =>
        simp only at h
        split at h
        · simp at h
        · simp only [Outcome.ok.injEq] at h
          subst h
          exact tailF_flags c hc sh f hf ok0 [] hnw hp ha hs hcur
      | cons n0 rest =>
        simp only at h
        cases hsel : flt.sel with
        | none =>
          rw [hsel] at h
          simp only [Outcome.ok.injEq] at h
          subst h
          exact ⟨hp, src, cur, hs, hcur, List.Perm.refl _⟩
        | some sel =>
          rw [hsel] at h
          simp only at h
          unfold copyToSelectedF at h
          cases hcs : copyToSelectedF.go c sh true sel n0 cur with
          | panic s => rw [hcs] at h; simp at h
          | ok rb =>
            obtain ⟨r', ok1⟩ := rb
            rw [hcs] at h
            simp only [Outcome.ok.injEq] at h
            subst h
            have hsel' := copyToSelectedF_flags c hc sh f hf sel n0 cur r' ok1 hcs
            refine ⟨?_, src, r', hs, FlagSame.trans f hcur hsel', List.Perm.refl _⟩
            cases aliased with
            | true => have := ha rfl; subst this; simpa using FlagSame.trans f hp hsel'
            | false => simpa using hp

end Spine
