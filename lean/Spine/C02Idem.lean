import Spine.C02Refine
import Spine.UpdateF
/-!
# C02: order on multi-key identifiers, idempotence at list level, several matches, members of the family (lemmas)

Lemmas behind `Spine/Props/C02.lean`, on top of `C02Refine.lean`.
-/
namespace Spine
open SpecKV

/-! ### `lexLt`, the comparator of `SortData` on complete numeric key tuples, is a strict total order -/

theorem lexLt_cons (x y : Nat) (xs ys : List Nat) :
    lexLt (x :: xs) (y :: ys) = true ↔ x < y ∨ (x = y ∧ lexLt xs ys = true) := by
  simp only [lexLt]
  by_cases h : x = y
  · subst h; simp
  · simp [h]

theorem lexLt_irrefl (u : List Nat) : lexLt u u = false := by
  cases h : lexLt u u with
  | false => rfl
  | true => have := lexLt_asymm u u h; rw [h] at this; cases this

theorem lexLt_trans : ∀ (u v w : List Nat), lexLt u v = true → lexLt v w = true → lexLt u w = true
  | [], _, _, h, _ => by simp [lexLt] at h
  | _ :: _, [], _, h, _ => by simp [lexLt] at h
  | _ :: _, _ :: _, [], _, h => by simp [lexLt] at h
  | x :: xs, y :: ys, z :: zs, h1, h2 => by
    rw [lexLt_cons] at h1 h2 ⊢
    rcases h1 with h1 | ⟨rfl, h1⟩ <;> rcases h2 with h2 | ⟨rfl, h2⟩
    · exact Or.inl (Nat.lt_trans h1 h2)
    · exact Or.inl h1
    · exact Or.inl h2
    · exact Or.inr ⟨rfl, lexLt_trans xs ys zs h1 h2⟩

/-- on tuples of one length: neither less than the other ⇒ equal (the order is total) -/
theorem lexLt_total : ∀ (u v : List Nat), u.length = v.length → lexLt u v = false → lexLt v u = false → u = v
  | [], [], _, _, _ => rfl
  | [], _ :: _, h, _, _ => by simp at h
  | _ :: _, [], h, _, _ => by simp at h
  | x :: xs, y :: ys, hl, h1, h2 => by
    simp only [List.length_cons, Nat.add_right_cancel_iff] at hl
    have h1' : ¬ (x < y ∨ (x = y ∧ lexLt xs ys = true)) := by rw [← lexLt_cons]; simp [h1]
    have h2' : ¬ (y < x ∨ (y = x ∧ lexLt ys xs = true)) := by rw [← lexLt_cons]; simp [h2]
    have hxy : x = y := by omega
    subst hxy
    have e1 : lexLt xs ys = false := by
      cases h : lexLt xs ys with
      | false => rfl
      | true => exact absurd (Or.inr ⟨rfl, h⟩) h1'
    have e2 : lexLt ys xs = false := by
      cases h : lexLt ys xs with
      | false => rfl
      | true => exact absurd (Or.inr ⟨rfl, h⟩) h2'
    rw [lexLt_total xs ys hl e1 e2]

/-! the same facts for `less`, the comparator itself, on items with complete numeric identifiers:
    irreflexive, asymmetric, transitive, negatively transitive (so "incomparable" is transitive: a strict weak
    order), and incomparable items have the same identifier (the order on identifiers is total) -/

theorem less_irrefl (sh : Shape) (a : Item) (ha : Keyed sh a) : less sh a a = false := by
  rw [less_eq_lexLt sh a a ha ha]; exact lexLt_irrefl _

theorem less_asymm (sh : Shape) (a b : Item) (ha : Keyed sh a) (hb : Keyed sh b) (h : less sh a b = true) :
    less sh b a = false := by
  rw [less_eq_lexLt sh a b ha hb] at h
  rw [less_eq_lexLt sh b a hb ha]; exact lexLt_asymm _ _ h

theorem less_trans (sh : Shape) (a b c : Item) (ha : Keyed sh a) (hb : Keyed sh b) (hc : Keyed sh c)
    (h1 : less sh a b = true) (h2 : less sh b c = true) : less sh a c = true := by
  rw [less_eq_lexLt sh a b ha hb] at h1
  rw [less_eq_lexLt sh b c hb hc] at h2
  rw [less_eq_lexLt sh a c ha hc]; exact lexLt_trans _ _ _ h1 h2

theorem less_negtrans (sh : Shape) (a b c : Item) (ha : Keyed sh a) (hb : Keyed sh b) (hc : Keyed sh c)
    (h1 : less sh a b = false) (h2 : less sh b c = false) : less sh a c = false := by
  rw [less_eq_lexLt sh a b ha hb] at h1
  rw [less_eq_lexLt sh b c hb hc] at h2
  rw [less_eq_lexLt sh a c ha hc]
  exact lexLt_negtrans _ _ _ (by simp [keyVec_length]) (by simp [keyVec_length]) h2 h1

theorem less_total (sh : Shape) (a b : Item) (ha : Keyed sh a) (hb : Keyed sh b)
    (h1 : less sh a b = false) (h2 : less sh b a = false) : keyOf sh a = keyOf sh b := by
  rw [less_eq_lexLt sh a b ha hb] at h1
  rw [less_eq_lexLt sh b a hb ha] at h2
  exact lexLt_total (keyVec sh a) (keyVec sh b) (by simp [keyVec_length]) h1 h2

/-- ordered (no later item is less than an earlier one) + pairwise distinct complete numeric identifiers ⇒ the
    identifier tuples increase STRICTLY in lexicographic order along the list -/
theorem strict_of_sorted (sh : Shape) (l : List Item) (hk : ∀ a ∈ l, Keyed sh a)
    (hn : (l.map (keyOf sh)).Nodup) (hs : Sorted sh l) :
    l.Pairwise fun a b => lexLt (keyOf sh a) (keyOf sh b) = true := by
  unfold Sorted at hs
  have hne : l.Pairwise fun a b => keyOf sh a ≠ keyOf sh b := by
    have := List.pairwise_map.mp hn
    exact this
  have hboth := hs.and hne
  apply List.Pairwise.imp_of_mem _ hboth
  intro a b ha hb ⟨h1, h2⟩
  rw [less_eq_lexLt sh b a (hk b hb) (hk a ha)] at h1
  cases h : lexLt (keyOf sh a) (keyOf sh b) with
  | true => rfl
  | false =>
    exact absurd (lexLt_total (keyVec sh a) (keyVec sh b) (by simp [keyVec_length]) h h1) h2

/-! ### when two lists are the same list -/

/-- same identifier sequence + same map ⇒ same list -/
theorem eq_of_keys_abs (sh : Shape) (l₁ l₂ : List Item) (h1 : WF sh l₁) (h2 : WF sh l₂)
    (hk : l₁.map (keyOf sh) = l₂.map (keyOf sh)) (ha : abs sh l₁ = abs sh l₂) : l₁ = l₂ := by
  have hlen : l₁.length = l₂.length := by simpa using congrArg List.length hk
  apply List.ext_getElem hlen
  intro i hi1 hi2
  have hki : keyOf sh l₁[i] = keyOf sh l₂[i] := by
    have := congrArg (fun l => l[i]?) hk
    simpa [hi1, hi2] using this
  have e1 := abs_eq_some sh l₁ h1 l₁[i] (List.getElem_mem hi1)
  have e2 := abs_eq_some sh l₂ h2 l₂[i] (List.getElem_mem hi2)
  rw [ha, hki, e2] at e1
  exact (Option.some.inj e1).symm

theorem sublist_eq_of_subset {α} : ∀ (s t : List α), s.Sublist t → t.Nodup → (∀ x ∈ t, x ∈ s) → s = t
  | _, _, .slnil, _, _ => rfl
  | s, a :: t, .cons _ hst, hn, hsub => by
    have has : a ∈ s := hsub a List.mem_cons_self
    exact absurd (hst.subset has) (List.nodup_cons.mp hn).1
  | a :: s, _ :: t, .cons_cons _ hst, hn, hsub => by
    have hn' := List.nodup_cons.mp hn
    congr 1
    apply sublist_eq_of_subset s t hst hn'.2
    intro x hx
    rcases List.mem_cons.mp (hsub x (List.mem_cons_of_mem _ hx)) with rfl | h
    · exact absurd hx hn'.1
    · exact h

/-- strictly increasing sequences with the same members are equal -/
theorem strict_unique {α} (lt : α → α → Prop) (hasym : ∀ a b, lt a b → ¬ lt b a) :
    ∀ (s t : List α), s.Pairwise lt → t.Pairwise lt → (∀ x, x ∈ s ↔ x ∈ t) → s = t
  | [], [], _, _, _ => rfl
  | [], b :: t, _, _, h => absurd ((h b).mpr List.mem_cons_self) (by simp)
  | a :: s, [], _, _, h => absurd ((h a).mp List.mem_cons_self) (by simp)
  | a :: s, b :: t, hs, ht, h => by
    have hs' := List.pairwise_cons.mp hs
    have ht' := List.pairwise_cons.mp ht
    have hirr : ∀ x, ¬ lt x x := fun x hx => hasym x x hx hx
    have hab : a = b := by
      rcases List.mem_cons.mp ((h a).mp List.mem_cons_self) with e | hat
      · exact e
      · rcases List.mem_cons.mp ((h b).mpr List.mem_cons_self) with e | hbs
        · exact e.symm
        · exact absurd (ht'.1 a hat) (hasym a b (hs'.1 b hbs))
    subst hab
    congr 1
    apply strict_unique lt hasym s t hs'.2 ht'.2
    intro x
    constructor
    · intro hx
      rcases List.mem_cons.mp ((h x).mp (List.mem_cons_of_mem _ hx)) with e | hxt
      · subst e; exact absurd (hs'.1 x hx) (hirr x)
      · exact hxt
    · intro hx
      rcases List.mem_cons.mp ((h x).mpr (List.mem_cons_of_mem _ hx)) with e | hxs
      · subst e; exact absurd (ht'.1 x hx) (hirr x)
      · exact hxs

theorem mem_keys_iff_abs (sh : Shape) (l : List Item) (k : Key) :
    k ∈ l.map (keyOf sh) ↔ abs sh l k ≠ none := by
  constructor
  · intro hk habs
    obtain ⟨a, ha, rfl⟩ := List.mem_map.mp hk
    exact (abs_eq_none sh l _).mp habs a ha rfl
  · intro hne
    cases h : abs sh l k with
    | none => exact absurd h hne
    | some a =>
      obtain ⟨ha, hk⟩ := abs_some_mem sh l k a h
      exact List.mem_map.mpr ⟨a, ha, hk⟩

/-- with numeric identifiers: ordered + same map ⇒ same list -/
theorem eq_of_sorted_abs (sh : Shape) (hu : ∀ k ∈ sh.keys, k.2 = .uint) (l₁ l₂ : List Item)
    (h1 : WF sh l₁) (h2 : WF sh l₂) (s1 : Sorted sh l₁) (s2 : Sorted sh l₂) (ha : abs sh l₁ = abs sh l₂) :
    l₁ = l₂ := by
  apply eq_of_keys_abs sh l₁ l₂ h1 h2 _ ha
  have p1 := strict_of_sorted sh l₁ (keyed_of_wf sh hu l₁ h1) h1.nodup s1
  have p2 := strict_of_sorted sh l₂ (keyed_of_wf sh hu l₂ h2) h2.nodup s2
  apply strict_unique (fun u v => lexLt u v = true)
    (fun a b hab hba => by rw [lexLt_asymm a b hab] at hba; cases hba)
  · exact List.pairwise_map.mpr p1
  · exact List.pairwise_map.mpr p2
  · intro k
    rw [mem_keys_iff_abs, mem_keys_iff_abs, ha]

/-! ### what a decided update returns, explicitly -/

/-- the hypotheses `notDecided … = none` stands for -/
theorem decided_unpack (sh : Shape) (st nw : List Item) (fp fd : Option Filter)
    (h : notDecided sh st nw fp fd = none) :
    WF sh st ∧ sh.keys ≠ [] ∧
    (∀ f, fd = some f → wfDelete sh st f = true ∧ (f.sel.isNone && f.el.isNone) = false) ∧
    DataOK sh (curOf sh st fd) nw fp := by
  unfold notDecided at h
  by_cases h1 : wfData sh st = true
  · by_cases h2 : sh.keys.isEmpty = true
    · simp [h1, h2] at h
    · by_cases h3 : wfItems sh nw = true
      · by_cases h4 : fdOK sh st fd = true
        · by_cases h5 : fpOK sh (delList sh st fd) nw fp = true
          · have hs := wf_of_wfData sh st h1
            have hne : sh.keys ≠ [] := by
              intro hnil; rw [hnil] at h2; exact h2 rfl
            rw [delList_eq_curOf sh st fd hs h4] at h5
            refine ⟨hs, hne, ?_, dataOK_of_checks sh hne _ nw fp h3 h5⟩
            intro f hf
            subst hf
            simp only [fdOK, Bool.and_eq_true, Bool.not_eq_true'] at h4
            exact h4
          · simp [h1, h2, h3, h4, h5] at h
        · simp [h1, h2, h3, h4] at h
      · simp [h1, h2, h3] at h
  · simp [h1] at h

theorem wf_curOf (sh : Shape) (st : List Item) (fd : Option Filter) (hs : WF sh st)
    (hfd : ∀ f, fd = some f → wfDelete sh st f = true ∧ (f.sel.isNone && f.el.isNone) = false) :
    WF sh (curOf sh st fd) := by
  cases fd with
  | none => exact hs
  | some f => exact (refines_delete sh st f hs (hfd f rfl).1).1

/-- the result list of a decided data part, case by case -/
theorem out_data (sh : Shape) (hne : sh.keys ≠ []) (cur nw : List Item) (fp : Option Filter) (hs : WF sh cur)
    (hd : DataOK sh cur nw fp) :
    ∀ r, updateList sh false cur nw fp none = .ok r →
      (∀ n0 rest, nw = n0 :: rest → fp = none → hasIdentifiers sh n0 = true →
        r.out = sortData sh (merge sh false cur nw).1) ∧
      (nw = [] → fp = none → r.out = sortData sh (merge sh false cur nw).1) ∧
      (∀ u0, nw = [u0] → fp = none → hasIdentifiers sh u0 = false → r.out = cur.map (overlay u0)) ∧
      (∀ u0 rest sel, nw = u0 :: rest → fp = some ⟨some sel, none⟩ → r.out = cur.map (selUpd sh sel u0)) := by
  intro r hr
  cases hd with
  | withIds _ h =>
    have hpath : ∀ n0 rest, nw = n0 :: rest → hasIdentifiers sh n0 = true := by
      intro n0 rest hnw
      rw [hasIdentifiers_eq_complete]
      exact h.complete n0 (hnw ▸ List.mem_cons_self)
    rw [updateList_merge_path sh false cur nw hpath] at hr
    injection hr with hr
    subst hr
    refine ⟨fun _ _ _ _ _ => rfl, fun _ _ => rfl, ?_, fun _ _ _ _ hfp => (by cases hfp)⟩
    intro u0 hnw _ hno
    rw [hpath u0 [] hnw] at hno; cases hno
  | keyless u0 hl hkl =>
    have hnid : hasIdentifiers sh u0 = false := by
      rw [hasIdentifiers_eq_complete]
      cases hks : sh.keys with
      | nil => exact absurd hks hne
      | cons k ks =>
        simp only [keyless, hks, List.all_cons, Bool.and_eq_true] at hkl
        simp only [complete, hks, List.all_cons]
        cases hg : u0.get k.1 with
        | none => simp
        | some v => rw [hg] at hkl; simp at hkl
    rw [updateList_all_path sh cur u0 [] hnid] at hr
    injection hr with hr
    subst hr
    have hmap : cur.map (copyNonNil u0) = cur.map (overlay u0) :=
      List.map_congr_left fun a ha => copyNonNil_eq_overlay u0 a (hl.trans (hs.len a ha).symm)
    refine ⟨?_, fun h => (by cases h), ?_, fun _ _ _ _ hfp => (by cases hfp)⟩
    · intro n0 rest hnw _ hid
      injection hnw with h1 _
      subst h1
      rw [hnid] at hid; cases hid
    · intro u hnw _ _
      injection hnw with h1 _
      subst h1
      exact hmap
  | selector u0 rest sel hl hdef h1 hsk =>
    rw [updateList_selector_path sh cur u0 rest sel none _ _ (copyToSelected_local sh sel u0 cur hdef h1)] at hr
    injection hr with hr
    subst hr
    have hmap : cur.map (selCopy sh sel u0) = cur.map (selUpd sh sel u0) := by
      apply List.map_congr_left
      intro a ha
      simp only [selCopy, selUpd]
      rw [copyNonNil_eq_overlay u0 a (hl.trans (hs.len a ha).symm)]
    refine ⟨fun _ _ _ hfp => (by cases hfp), fun _ hfp => (by cases hfp), fun _ _ hfp => (by cases hfp), ?_⟩
    intro u r' s hnw hfp
    injection hnw with e1 _
    injection hfp with e2
    injection e2 with e3 _
    injection e3 with e4
    subst e1; subst e4
    exact hmap

/-- a decided update with a delete filter returns what the data part returns on `curOf` -/
theorem decided_reduce (sh : Shape) (st nw : List Item) (fp fd : Option Filter) (_hs : WF sh st)
    (hfd : ∀ f, fd = some f → wfDelete sh st f = true ∧ (f.sel.isNone && f.el.isNone) = false) :
    view (updateList sh false st nw fp fd) = view (updateList sh false (curOf sh st fd) nw fp none) := by
  cases fd with
  | none => rfl
  | some f =>
    obtain ⟨hwd, hnonempty⟩ := hfd f rfl
    have hsel : ∀ s, f.sel = some s → ∀ x ∈ st, selDefined sh s x = true := by
      intro s hfs x hx
      simp only [wfDelete, hfs, Bool.and_eq_true, List.all_eq_true] at hwd
      exact hwd.1 x hx
    obtain ⟨ip, hdel⟩ := deleteFiltered_local sh st f hsel
    exact updateList_delete_view sh st nw fp f ip _ hnonempty hdel

theorem view_out (o₁ o₂ : Outcome Res) (h : view o₁ = view o₂) (r : Res) (hr : o₁ = .ok r) :
    ∃ r₂, o₂ = .ok r₂ ∧ r₂.out = r.out ∧ r₂.ok = r.ok := by
  subst hr
  cases o₂ with
  | panic s => simp [view] at h
  | ok r₂ =>
    simp only [view, Outcome.ok.injEq, Prod.mk.injEq] at h
    exact ⟨r₂, rfl, h.1.symm, h.2.symm⟩

/-! ### applying the same update a second time -/

theorem applyData_support (sh : Shape) (m : Map) (nw : List Item) (fp : Option Filter) (k : Key)
    (hm : m k = none) (hn : abs sh nw k = none) : applyData sh m nw fp k = none := by
  unfold applyData
  cases hsel : fp.bind (·.sel) with
  | some s =>
    cases nw with
    | nil => simpa using hm
    | cons u0 rest => simp [applySel, hm]
  | none =>
    cases nw with
    | nil => simpa using hm
    | cons u0 rest =>
      simp only
      split
      · simp [applyAll, hm]
      · simp [applyPartial, hm, hn, mergeVal]

/-- the SPEC gives nothing at an identifier that neither the data nor the update carries -/
theorem apply_support (sh : Shape) (l nw : List Item) (fp fd : Option Filter) (k : Key)
    (hl : abs sh l k = none) (hn : abs sh nw k = none) : SpecKV.apply sh (abs sh l) nw fp fd k = none := by
  simp only [SpecKV.apply]
  apply applyData_support sh _ nw fp k _ hn
  cases fd with
  | none => exact hl
  | some f =>
    obtain ⟨fs, fe⟩ := f
    cases fs <;> cases fe <;> simp [applyDelete, hl]

/-- **the region in which the rules themselves give the same data twice**: the second application is decided by
    the SPEC, and at every identifier of the data after the first application or of the update, applying the
    rules to that data gives that data. (Decidable; the monitor of `go/comp/update_test.go` evaluates the same
    condition on the SPEC's own result. Outside it see `c02_rules_not_idempotent_witness`.) -/
def idempotentRegion (sh : Shape) (st nw : List Item) (fp fd : Option Filter) : Bool :=
  match updateList sh false st nw fp fd with
  | .ok r => (notDecided sh r.out nw fp fd).isNone &&
      ((r.out ++ nw).map (keyOf sh)).all fun k =>
        decide (SpecKV.apply sh (abs sh r.out) nw fp fd k = abs sh r.out k)
  | .panic _ => false

theorem region_unpack (sh : Shape) (st nw : List Item) (fp fd : Option Filter) (r : Res)
    (hr : updateList sh false st nw fp fd = .ok r) (hreg : idempotentRegion sh st nw fp fd = true) :
    notDecided sh r.out nw fp fd = none ∧ SpecKV.apply sh (abs sh r.out) nw fp fd = abs sh r.out := by
  simp only [idempotentRegion, hr, Bool.and_eq_true, Option.isNone_iff_eq_none, List.all_eq_true,
    decide_eq_true_eq] at hreg
  refine ⟨hreg.1, ?_⟩
  funext k
  by_cases hk : k ∈ (r.out ++ nw).map (keyOf sh)
  · exact hreg.2 k hk
  · have h1 : abs sh r.out k = none := by
      cases h : abs sh r.out k with
      | none => rfl
      | some a =>
        exfalso; apply hk
        obtain ⟨ha, hka⟩ := abs_some_mem sh r.out k a h
        exact List.mem_map.mpr ⟨a, List.mem_append_left _ ha, hka⟩
    have h2 : abs sh nw k = none := by
      cases h : abs sh nw k with
      | none => rfl
      | some a =>
        exfalso; apply hk
        obtain ⟨ha, hka⟩ := abs_some_mem sh nw k a h
        exact List.mem_map.mpr ⟨a, List.mem_append_right _ ha, hka⟩
    rw [apply_support sh r.out nw fp fd k h1 h2, h1]

/-- **idempotence as maps, every shape, all seven filter shapes** -/
theorem idem_map (sh : Shape) (hk : Tables.structKeyLast sh.keys = true) (st nw : List Item) (fp fd : Option Filter)
    (hreg : idempotentRegion sh st nw fp fd = true) :
    ∀ r, updateList sh false st nw fp fd = .ok r →
      ∃ r', updateList sh false r.out nw fp fd = .ok r' ∧ r'.ok = true ∧ wfData sh r'.out = true ∧
        abs sh r'.out = abs sh r.out := by
  intro r hr
  obtain ⟨hdec2, hfix⟩ := region_unpack sh st nw fp fd r hr hreg
  obtain ⟨r', hr', hok, hwf, habs⟩ := refines_decided sh hk r.out nw fp fd hdec2
  exact ⟨r', hr', hok, hwf, habs.trans hfix⟩

theorem keys_map (sh : Shape) (l : List Item) (f : Item → Item) (hf : KeepsKeys sh l f) :
    (l.map f).map (keyOf sh) = l.map (keyOf sh) := by
  rw [List.map_map]
  exact List.map_congr_left fun a ha => keyOf_congr sh _ a (hf.keys a ha)

/-- the delete part never reorders or adds: the identifiers it leaves are a sublist of the stored ones -/
theorem keys_sublist_curOf (sh : Shape) (st : List Item) (fd : Option Filter) (hs : WF sh st)
    (hfd : ∀ f, fd = some f → wfDelete sh st f = true ∧ (f.sel.isNone && f.el.isNone) = false) :
    ((curOf sh st fd).map (keyOf sh)).Sublist (st.map (keyOf sh)) := by
  cases fd with
  | none => exact List.Sublist.refl _
  | some f =>
    obtain ⟨hw, _⟩ := hfd f rfl
    obtain ⟨fs, fe⟩ := f
    have hkeep : ∀ e, elOK sh e = true → KeepsKeys sh st (removeElements sh e) := by
      intro e he
      have hn : ∀ a ∈ st, sh.elN = a.length := by
        intro a ha
        simp only [elOK, Bool.and_eq_true, beq_iff_eq] at he
        rw [he.1, hs.len a ha]
      refine ⟨fun a _ => removeElements_length sh e a, ?_⟩
      intro a ha k hk
      rw [removeElements_eq_clear sh e a (hn a ha)]
      exact get_clear_key sh e a he k hk
    cases fs with
    | none =>
      cases fe with
      | none => exact List.Sublist.refl _
      | some e =>
        have he : elOK sh e = true := by simpa [wfDelete] using hw
        simp only [curOf, afterDelete]
        rw [keys_map sh st _ (hkeep e he)]
        exact List.Sublist.refl _
    | some s =>
      cases fe with
      | none =>
        simp only [curOf, afterDelete]
        exact List.Sublist.map _ List.filter_sublist
      | some e =>
        have he : elOK sh e = true := by
          simp only [wfDelete, Bool.and_eq_true] at hw
          exact hw.2
        have hk' := hkeep e he
        have hkk : KeepsKeys sh st (remIf sh s e) := by
          refine ⟨?_, ?_⟩
          · intro a ha
            simp only [remIf]; split
            · exact hk'.len a ha
            · rfl
          · intro a ha k hk
            simp only [remIf]; split
            · exact hk'.keys a ha k hk
            · rfl
        simp only [curOf, afterDelete]
        rw [keys_map sh st _ hkk]
        exact List.Sublist.refl _

/-- a data part that does not sort (one identifier-less item, or a selector) keeps the identifier sequence -/
theorem keys_unsorted_data (sh : Shape) (hne : sh.keys ≠ []) (cur nw : List Item) (fp : Option Filter)
    (hs : WF sh cur) (hd : DataOK sh cur nw fp)
    (hns : fp ≠ none ∨ ∃ u0, nw = [u0] ∧ hasIdentifiers sh u0 = false) :
    ∀ r, updateList sh false cur nw fp none = .ok r → r.out.map (keyOf sh) = cur.map (keyOf sh) := by
  intro r hr
  obtain ⟨_, _, h3, h4⟩ := out_data sh hne cur nw fp hs hd r hr
  cases hd with
  | withIds _ h =>
    rcases hns with hfp | ⟨u0, hnw, hno⟩
    · exact absurd rfl hfp
    · exfalso
      rw [hasIdentifiers_eq_complete, h.complete u0 (hnw ▸ List.mem_cons_self)] at hno
      cases hno
  | keyless u0 hl hkl =>
    have hnid : hasIdentifiers sh u0 = false := by
      rw [hasIdentifiers_eq_complete]
      cases hks : sh.keys with
      | nil => exact absurd hks hne
      | cons k ks =>
        simp only [keyless, hks, List.all_cons, Bool.and_eq_true] at hkl
        simp only [complete, hks, List.all_cons]
        cases hg : u0.get k.1 with
        | none => simp
        | some v => rw [hg] at hkl; simp at hkl
    rw [h3 u0 rfl rfl hnid]
    exact keys_map sh cur _
      ⟨fun a _ => overlay_length u0 a,
       fun a ha => get_overlay_key sh u0 a (hs.complete a ha) (sameKeys_of_keyless sh u0 a hkl)⟩
  | selector u0 rest sel hl hdef h1 hsk =>
    rw [h4 u0 rest sel rfl rfl]
    apply keys_map sh cur _
    refine ⟨?_, ?_⟩
    · intro a _
      simp only [selUpd]; split
      · exact overlay_length u0 a
      · rfl
    · intro a ha k hk
      simp only [selUpd]; split
      · rename_i hm
        exact get_overlay_key sh u0 a (hs.complete a ha) (hsk a ha hm) k hk
      · rfl

/-- **idempotence as lists, any kind of identifier, for updates whose data part does not sort**: a partial
    update with a selector, or one identifier-less item — with or without a delete filter -/
theorem idem_unsorted (sh : Shape) (hk : Tables.structKeyLast sh.keys = true) (st nw : List Item)
    (fp fd : Option Filter) (hreg : idempotentRegion sh st nw fp fd = true)
    (hns : fp ≠ none ∨ ∃ u0, nw = [u0] ∧ hasIdentifiers sh u0 = false) :
    ∀ r, updateList sh false st nw fp fd = .ok r →
      ∃ r', updateList sh false r.out nw fp fd = .ok r' ∧ r'.out = r.out ∧ r'.ok = true := by
  intro r hr
  obtain ⟨r', hr', hok, hwf', habs⟩ := idem_map sh hk st nw fp fd hreg r hr
  refine ⟨r', hr', ?_, hok⟩
  obtain ⟨hdec2, _⟩ := region_unpack sh st nw fp fd r hr hreg
  obtain ⟨hs2, hne, hfd2, hdata2⟩ := decided_unpack sh r.out nw fp fd hdec2
  have hwf'' := wf_of_wfData sh _ hwf'
  -- the second application, reduced to its data part on what its delete part leaves
  obtain ⟨r₂, hr₂, hout₂, _⟩ := view_out _ _ (decided_reduce sh r.out nw fp fd hs2 hfd2) r' hr'
  have hkeys : r'.out.map (keyOf sh) = (curOf sh r.out fd).map (keyOf sh) := by
    rw [← hout₂]
    exact keys_unsorted_data sh hne _ nw fp (wf_curOf sh r.out fd hs2 hfd2) hdata2 hns r₂ hr₂
  have hsub : (r'.out.map (keyOf sh)).Sublist (r.out.map (keyOf sh)) := by
    rw [hkeys]; exact keys_sublist_curOf sh r.out fd hs2 hfd2
  have heq := sublist_eq_of_subset _ _ hsub hs2.nodup (by
    intro k hkm
    rw [mem_keys_iff_abs] at hkm ⊢
    rw [habs]; exact hkm)
  exact eq_of_keys_abs sh r'.out r.out hwf'' hs2 heq habs

theorem sorted_out_withIds (sh : Shape) (hne : sh.keys ≠ []) (hu : ∀ k ∈ sh.keys, k.2 = .uint)
    (hk : Tables.structKeyLast sh.keys = true) (cur nw : List Item) (hs : WF sh cur) (hn : WF sh nw) :
    ∀ r, updateList sh false cur nw none none = .ok r → Sorted sh r.out := by
  intro r hr
  have hpath : ∀ n0 rest, nw = n0 :: rest → hasIdentifiers sh n0 = true := by
    intro n0 rest hnw
    rw [hasIdentifiers_eq_complete]
    exact hn.complete n0 (hnw ▸ List.mem_cons_self)
  rw [updateList_merge_path sh false cur nw hpath] at hr
  injection hr with hr
  subst hr
  have hne' : sh.keys.isEmpty = false := by
    cases h' : sh.keys with
    | nil => exact absurd h' hne
    | cons _ _ => rfl
  exact sortData_sorted sh _ hne' (keyed_of_wf sh hu _ (wf_merge sh hk cur nw hs hn))

/-- **idempotence as lists, numeric identifiers, all seven filter shapes**: in the region where the rules give the
    same data twice, applying the same update to the result of its first application returns exactly that
    result — whatever the order of the stored data was before -/
theorem idem_list (sh : Shape) (hu : ∀ k ∈ sh.keys, k.2 = .uint) (hk : Tables.structKeyLast sh.keys = true)
    (st nw : List Item) (fp fd : Option Filter) (hdec : notDecided sh st nw fp fd = none)
    (hreg : idempotentRegion sh st nw fp fd = true) :
    ∀ r, updateList sh false st nw fp fd = .ok r →
      ∃ r', updateList sh false r.out nw fp fd = .ok r' ∧ r'.out = r.out ∧ r'.ok = true := by
  intro r hr
  obtain ⟨hs, hne, hfd, hdata⟩ := decided_unpack sh st nw fp fd hdec
  cases hdata with
  | keyless u0 hl hkl =>
    refine idem_unsorted sh hk st _ _ fd hreg (Or.inr ⟨u0, rfl, ?_⟩) r hr
    rw [hasIdentifiers_eq_complete]
    cases hks : sh.keys with
    | nil => exact absurd hks hne
    | cons k ks =>
      simp only [keyless, hks, List.all_cons, Bool.and_eq_true] at hkl
      simp only [complete, hks, List.all_cons]
      cases hg : u0.get k.1 with
      | none => simp
      | some v => rw [hg] at hkl; simp at hkl
  | selector u0 rest sel hl hdef h1 hsk =>
    exact idem_unsorted sh hk st _ _ fd hreg (Or.inl (by simp)) r hr
  | withIds _ hn =>
    obtain ⟨r', hr', hok, hwf', habs⟩ := idem_map sh hk st nw none fd hreg r hr
    refine ⟨r', hr', ?_, hok⟩
    obtain ⟨hdec2, _⟩ := region_unpack sh st nw none fd r hr hreg
    obtain ⟨hs2, _, hfd2, _⟩ := decided_unpack sh r.out nw none fd hdec2
    -- both results come out of Merge + SortData
    obtain ⟨r₁, hr₁, hout₁, _⟩ := view_out _ _ (decided_reduce sh st nw none fd hs hfd) r hr
    obtain ⟨r₂, hr₂, hout₂, _⟩ := view_out _ _ (decided_reduce sh r.out nw none fd hs2 hfd2) r' hr'
    have s1 : Sorted sh r.out := by
      rw [← hout₁]; exact sorted_out_withIds sh hne hu hk _ nw (wf_curOf sh st fd hs hfd) hn r₁ hr₁
    have s2 : Sorted sh r'.out := by
      rw [← hout₂]; exact sorted_out_withIds sh hne hu hk _ nw (wf_curOf sh r.out fd hs2 hfd2) hn r₂ hr₂
    exact eq_of_sorted_abs sh hu r'.out r.out (wf_of_wfData sh _ hwf') hs2 s2 s1 habs

/-! ### a selector that matches several items -/

/-- partial update with a selector, any number of matching items: the code stops at the FIRST match — the items
    before it (which do not match) and all items after it (matching or not, they are not even looked at) are
    unchanged, the first match receives the overlay -/
theorem copyToSelected_first_match (sh : Shape) (sel u0 : Item) : ∀ (pre : List Item) (x : Item) (post : List Item),
    (∀ y ∈ pre, selectorMatch sh sel y = .ok false) → selectorMatch sh sel x = .ok true →
    copyToSelected sh false (pre ++ x :: post) sel u0 = .ok (pre ++ copyNonNil u0 x :: post, true)
  | [], x, post, _, hx => by
    simp [copyToSelected, copyToSelected.go, hx]
  | y :: pre, x, post, hpre, hx => by
    have ih := copyToSelected_first_match sh sel u0 pre x post (fun z hz => hpre z (List.mem_cons_of_mem _ hz)) hx
    unfold copyToSelected at ih ⊢
    simp only [List.cons_append, copyToSelected.go, hpre y List.mem_cons_self, ih]

/-- … and when no item matches nothing changes -/
theorem copyToSelected_no_match (sh : Shape) (sel u0 : Item) : ∀ (ex : List Item),
    (∀ y ∈ ex, selectorMatch sh sel y = .ok false) → copyToSelected sh false ex sel u0 = .ok (ex, true)
  | [], _ => rfl
  | y :: ex, h => by
    have ih := copyToSelected_no_match sh sel u0 ex (fun z hz => h z (List.mem_cons_of_mem _ hz))
    unfold copyToSelected at ih ⊢
    simp only [copyToSelected.go, h y List.mem_cons_self, ih]

theorem mergeItem_nil (sh : Shape) (a : Item) : mergeItem sh false [] a = a := by
  simp [mergeItem, lookupLast]

theorem merge_nil (sh : Shape) (l : List Item) : (merge sh false l []).1 = l := by
  rw [(merge_local_eq sh l []).1]
  simp only [List.filter_nil, List.append_nil]
  conv => rhs; rw [← List.map_id l]
  exact List.map_congr_left fun a _ => mergeItem_nil sh a

/-- delete filter with a selector and nothing else, any number of matching items (the selector defined on every
    stored item): the update returns a permutation (`SortData`) of exactly the items that do not match —
    EVERY matching item is removed, every other item is kept as it is -/
theorem delete_removes_all (sh : Shape) (s : Item) (st : List Item)
    (hd : ∀ x ∈ st, selDefined sh s x = true) :
    ∃ r, updateList sh false st [] none (some ⟨some s, none⟩) = .ok r ∧ r.ok = true ∧
      r.out = sortData sh (st.filter (keepUnless sh s)) ∧
      ∀ x, x ∈ r.out ↔ (x ∈ st ∧ selMatches sh s x = false) := by
  have hdel : deleteFiltered sh false st ⟨some s, none⟩ = .ok (st, st.filter (keepUnless sh s), true) :=
    deleteFiltered_sel sh s st hd
  have hv := updateList_delete_view sh st [] none ⟨some s, none⟩ st _ (by simp) hdel
  rw [updateList_merge_path sh false _ [] (fun _ _ h => by cases h)] at hv
  obtain ⟨r, hr, hout, hok⟩ := view_ok _ _ _ hv
  have hout' : r.out = sortData sh (st.filter (keepUnless sh s)) := by
    rw [hout]; show sortData sh (merge sh false _ []).1 = _; rw [merge_nil]
  refine ⟨r, hr, ?_, hout', ?_⟩
  · rw [hok]; exact (merge_local_eq sh (st.filter (keepUnless sh s)) []).2
  · intro x
    rw [hout', (sortData_perm sh _).mem_iff, List.mem_filter]
    simp [keepUnless]

/-! ### the repaired `SelectorMatch` (nil check, deep comparison) is total and decides equality -/

/-- for a shape whose selector entries all lie within `0..n` — every C02 shape on a tree with the nil check and
    `reflect.DeepEqual` (`c02_repaired_selectors_total`) — the repaired `SelectorMatch` never panics and answers
    exactly the SPEC's `selMatches`: every field the selector sets names an item field that is present and holds
    the selector's value -/
theorem selectorMatchR_go_decides (sh : Shape) (it : Item)
    (h : ∀ (j i : Nat), (sh.selMap[j]?).join = some i → i ≤ sh.n) : ∀ (rest : List (Option Val)) (j : Nat),
    selectorMatchR.go sh it j rest = .ok (selMatchesFrom sh it j rest)
  | [], _ => rfl
  | none :: rest, j => by
    simp only [selectorMatchR.go, selMatchesFrom, selFieldOK, Bool.true_and]
    exact selectorMatchR_go_decides sh it h rest (j + 1)
  | some v :: rest, j => by
    have ih := selectorMatchR_go_decides sh it h rest (j + 1)
    simp only [selectorMatchR.go, selMatchesFrom, selFieldOK]
    cases hm : (sh.selMap[j]?).join with
    | none => simpa using ih
    | some i =>
      have hi : ¬ sh.n < i := Nat.not_lt.mpr (h j i hm)
      simp only [hi, if_false]
      cases hg : it.get i with
      | none => simp
      | some w =>
        by_cases hwv : w = v
        · subst hwv; simpa using ih
        · simp [hwv]

theorem selectorMatchF_decides (c : UCfg) (hc : c.selNilPanics = false) (sh : Shape) (sel it : Item)
    (h : ∀ (j i : Nat), (sh.selMap[j]?).join = some i → i ≤ sh.n) :
    selectorMatchF c sh sel it = .ok (selMatches sh sel it) := by
  simp only [selectorMatchF, hc, Bool.false_eq_true, if_false]
  exact selectorMatchR_go_decides sh it h sel 0

/-! ### on the inputs the SPEC decides every member of the engine family is the code as written -/

theorem selectorMatchR_go_defined (sh : Shape) (it : Item) (hl : it.length ≤ sh.n) :
    ∀ (rest : List (Option Val)) (j : Nat), selDefinedFrom sh it j rest = true →
    selectorMatchR.go sh it j rest = .ok (selMatchesFrom sh it j rest)
  | [], _, _ => rfl
  | none :: rest, j, hd => by
    simp only [selDefinedFrom, Bool.and_eq_true] at hd
    simp only [selectorMatchR.go, selMatchesFrom, selFieldOK, Bool.true_and]
    exact selectorMatchR_go_defined sh it hl rest (j + 1) hd.2
  | some v :: rest, j, hd => by
    simp only [selDefinedFrom, Bool.and_eq_true] at hd
    have ih := selectorMatchR_go_defined sh it hl rest (j + 1) hd.2
    simp only [selectorMatchR.go, selMatchesFrom, selFieldOK]
    cases hm : (sh.selMap[j]?).join with
    | none => simpa using ih
    | some i =>
      have h1 := hd.1
      simp only [selFieldDefined, hm] at h1
      have hi : ¬ sh.n < i := by
        intro hlt
        rw [get_none_of_ge it i (by omega)] at h1
        simp at h1
      simp only [hi, if_false]
      cases hg : it.get i with
      | none => rw [hg] at h1; simp at h1
      | some w =>
        by_cases hwv : w = v
        · subst hwv; simpa using ih
        · simp [hwv]

/-- where the selector is defined on the item, every member's `SelectorMatch` is the code as written -/
theorem selectorMatchF_defined (c : UCfg) (sh : Shape) (sel it : Item) (hl : it.length ≤ sh.n)
    (hd : selDefined sh sel it = true) : selectorMatchF c sh sel it = selectorMatch sh sel it := by
  unfold selectorMatchF
  split
  · rfl
  · rw [selectorMatch_eq sh sel it hd]
    exact selectorMatchR_go_defined sh it hl sel 0 hd

theorem copyNonNilF_local (c : UCfg) (sh : Shape) (nw x : Item) : copyNonNilF c sh false nw x = copyNonNil nw x := by
  simp [copyNonNilF, keepsFlag]

theorem copyToAllF_local (c : UCfg) (sh : Shape) (ex : List Item) (nw : Item) :
    copyToAllF c sh false ex nw = copyToAll sh false ex nw := by
  simp [copyToAllF, copyToAll, copyNonNilF_local]

theorem mergeF_local (c : UCfg) (sh : Shape) (s1 s2 : List Item) : mergeF c sh false s1 s2 = merge sh false s1 s2 := by
  unfold mergeF
  split
  · rfl
  · simp [mergeFixed, merge]

theorem copyToSelectedF_go_local (c : UCfg) (sh : Shape) (sel nw : Item) : ∀ (ex : List Item),
    (∀ x ∈ ex, x.length ≤ sh.n ∧ selDefined sh sel x = true) →
    copyToSelectedF.go c sh false sel nw ex = copyToSelected.go sh false sel nw ex
  | [], _ => rfl
  | x :: xs, h => by
    have hx := h x List.mem_cons_self
    have ih := copyToSelectedF_go_local c sh sel nw xs (fun y hy => h y (List.mem_cons_of_mem _ hy))
    simp only [copyToSelectedF.go, copyToSelected.go, selectorMatchF_defined c sh sel x hx.1 hx.2,
      copyNonNilF_local, ih]
    cases selectorMatch sh sel x with
    | panic s => rfl
    | ok b =>
      cases b
      · cases copyToSelected.go sh false sel nw xs with
        | panic s => rfl
        | ok t => rfl
      · simp

theorem deleteFilteredF_go_local (c : UCfg) (sh : Shape) (f : Filter) : ∀ (ex : List Item),
    (∀ s, f.sel = some s → ∀ x ∈ ex, x.length ≤ sh.n ∧ selDefined sh s x = true) →
    deleteFilteredF.go c sh false f ex = deleteFiltered.go sh false f ex
  | [], _ => rfl
  | x :: xs, h => by
    have ih := deleteFilteredF_go_local c sh f xs (fun s hs y hy => h s hs y (List.mem_cons_of_mem _ hy))
    obtain ⟨fs, fe⟩ := f
    cases fs with
    | none =>
      simp only [deleteFilteredF.go, deleteFiltered.go, hitOf, delItem, delKeep, keepsFlag, Bool.and_false,
        Bool.false_eq_true, if_false, ih, Bool.false_and]
      cases deleteFiltered.go sh false ⟨none, fe⟩ xs with
      | panic s => rfl
      | ok t => cases fe <;> simp
    | some sel =>
      have hx := h sel rfl x List.mem_cons_self
      simp only [deleteFilteredF.go, deleteFiltered.go, hitOf, delItem, delKeep, keepsFlag, Bool.and_false,
        Bool.false_eq_true, if_false, ih, Bool.false_and, selectorMatchF_defined c sh sel x hx.1 hx.2]
      cases selectorMatch sh sel x with
      | panic s => rfl
      | ok hit =>
        simp only []
        cases deleteFiltered.go sh false ⟨some sel, fe⟩ xs with
        | panic s => rfl
        | ok t => cases fe <;> cases hit <;> simp

/-- the data part, every member -/
theorem partialPhaseF_local (c : UCfg) (sh : Shape) (orig cur : List Item) (aliased : Bool) (nw : List Item)
    (fp : Option Filter) (hs : WF sh cur) (hd : DataOK sh cur nw fp) :
    partialPhaseF c sh false orig cur aliased true nw fp =
      partialPhaseF .asWritten sh false orig cur aliased true nw fp := by
  cases hd with
  | withIds _ h =>
    simp only [partialPhaseF, tailF, mergeF_local, copyToAllF_local]
  | keyless u0 hl hkl =>
    simp only [partialPhaseF, tailF, mergeF_local, copyToAllF_local]
  | selector u0 rest sel hl hdef h1 hsk =>
    have hh : ∀ x ∈ cur, x.length ≤ sh.n ∧ selDefined sh sel x = true :=
      fun x hx => ⟨Nat.le_of_eq (hs.len x hx), hdef x hx⟩
    simp only [partialPhaseF, copyToSelectedF, copyToSelectedF_go_local c sh sel u0 cur hh,
      copyToSelectedF_go_local .asWritten sh sel u0 cur hh]

/-- **every member of the family is the code as written on the inputs the SPEC decides**: a repaired engine site
    (remote-write verdicts, nil check and deep comparison in `SelectorMatch`, the selector with an empty list, the
    changeability flag on in-place writes, the verdict of remote deletes) only changes behaviour on remote writes
    or on inputs the SPEC does not decide — so every C02 theorem stated over `updateList` holds verbatim for
    the member the check runs against the repaired tree -/
theorem updateListF_decided (c : UCfg) (sh : Shape) (st nw : List Item) (fp fd : Option Filter)
    (h : notDecided sh st nw fp fd = none) :
    updateListF c sh false st nw fp fd = updateList sh false st nw fp fd := by
  obtain ⟨hs, _, hfd, hdata⟩ := decided_unpack sh st nw fp fd h
  rw [← updateListF_asWritten]
  unfold updateListF deletePhaseF
  cases fd with
  | none =>
    simp only []
    exact partialPhaseF_local c sh st st true nw fp hs hdata
  | some f =>
    obtain ⟨hwd, hnonempty⟩ := hfd f rfl
    have hsel : ∀ s, f.sel = some s → ∀ x ∈ st, selDefined sh s x = true := by
      intro s hfs x hx
      simp only [wfDelete, hfs, Bool.and_eq_true, List.all_eq_true] at hwd
      exact hwd.1 x hx
    have hh : ∀ s, f.sel = some s → ∀ x ∈ st, x.length ≤ sh.n ∧ selDefined sh s x = true :=
      fun s hfs x hx => ⟨Nat.le_of_eq (hs.len x hx), hsel s hfs x hx⟩
    obtain ⟨ip, hdel⟩ := deleteFiltered_local sh st f hsel
    have e1 : deleteFilteredF c sh false st f = .ok (ip, afterDelete sh st f, true) := by
      unfold deleteFilteredF; rw [deleteFilteredF_go_local c sh f st hh]; exact hdel
    have e2 : deleteFilteredF .asWritten sh false st f = .ok (ip, afterDelete sh st f, true) := by
      unfold deleteFilteredF; rw [deleteFilteredF_go_local .asWritten sh f st hh]; exact hdel
    simp only [hnonempty, Bool.false_eq_true, if_false, e1, e2, if_true]
    exact partialPhaseF_local c sh ip _ false nw fp (wf_curOf sh st (some f) hs hfd) hdata

end Spine
