import Spine.UseCaseThm
/-! The EntityLocal use-case operations as events: as written each is copy (DataCopy) ; modify ; store (SetData)
    without a lock of its own; repaired, one mutex makes the read-modify-write one event. -/
namespace Spine.UC

structure CSt where
  reg : Reg := []
  copies : List (Nat × Reg) := []      -- operation ↦ the copy it works on

inductive CEv
  | copy (op : Nat)
  | store (op : Nat) (o : Op)
  | atomic (o : Op)

def cstep (s : CSt) : CEv → CSt
  | .copy op => { s with copies := (op, s.reg) :: s.copies }
  | .store op o =>
    match s.copies.find? (·.1 = op) with
    | none => s
    | some (_, r) => { reg := apply r o, copies := s.copies.filter (·.1 ≠ op) }
  | .atomic o => { s with reg := apply s.reg o }

def crun (evs : List CEv) : CSt := evs.foldl cstep {}

/-- as written: two entities declare a use case concurrently, the first declaration is lost -/
theorem lost_update_witness :
    lookup (crun [.copy 1, .copy 2,
                  .store 1 (.add [1] 1 ⟨1, 0, true, [], 0⟩),
                  .store 2 (.add [2] 1 ⟨1, 0, true, [], 0⟩)]).reg [1] 1 1 = none := by decide

def atomicOps : List CEv → Option (List Op)
  | [] => some []
  | .atomic o :: rest => (atomicOps rest).map (o :: ·)
  | _ :: _ => none

theorem crun_atomic (evs : List CEv) (ops : List Op) (h : atomicOps evs = some ops) (s : CSt) :
    (evs.foldl cstep s).reg = ops.foldl apply s.reg := by
  induction evs generalizing ops s with
  | nil => simp only [atomicOps, Option.some.injEq] at h; subst h; rfl
  | cons e es ih =>
    cases e with
    | copy op => simp [atomicOps] at h
    | store op o => simp [atomicOps] at h
    | atomic o =>
      simp only [atomicOps, Option.map_eq_some_iff] at h
      obtain ⟨ops', hops', rfl⟩ := h
      simp only [List.foldl_cons, cstep]
      exact ih ops' hops' _

/-- C20 (repaired code, concurrent use): whatever the order in which the serialised operations take effect, the
    registry is the specification map folded over that order -/
theorem c20_concurrent (evs : List CEv) (ops : List Op) (h : atomicOps evs = some ops) (hok : ∀ op ∈ ops, op.ok) :
    lookup (crun evs).reg = ops.foldl specStep (fun _ _ _ => none) := by
  unfold crun
  rw [crun_atomic evs ops h {}]
  exact (c20_refines ops hok).2

/-! ### the code as written: which schedules are harmless, and the full statement refuted -/

/-- a schedule of the code as written in which no two read-modify-write cycles overlap: every `copy k` is
    directly followed by its own `store k o` (serialised `atomic` events are allowed in between) -/
def calmOps : Option Nat → List CEv → Option (List Op)
  | none, [] => some []
  | some _, [] => none
  | none, .atomic o :: rest => (calmOps none rest).map (o :: ·)
  | none, .copy k :: rest => calmOps (some k) rest
  | some k, .store k' o :: rest => if k = k' then (calmOps none rest).map (o :: ·) else none
  | none, .store _ _ :: _ => none
  | some _, .copy _ :: _ => none
  | some _, .atomic _ :: _ => none

/-- the operations of a well-formed schedule of the code as written, in the order of their stores
    (every store must find its copy; `none` if a store comes without a copy) -/
def storeOrder : List Nat → List CEv → Option (List Op)
  | _, [] => some []
  | open_, .copy k :: rest => storeOrder (k :: open_) rest
  | open_, .store k o :: rest => if open_.contains k then (storeOrder (open_.erase k) rest).map (o :: ·) else none
  | open_, .atomic o :: rest => (storeOrder open_ rest).map (o :: ·)

/-- what the state looks like between the events of a calm schedule -/
def CalmSt (p : Option Nat) (s : CSt) : Prop :=
  match p with
  | none => s.copies = []
  | some k => s.copies = [(k, s.reg)]

theorem crun_calm (evs : List CEv) : ∀ (p : Option Nat) (ops : List Op), calmOps p evs = some ops →
    ∀ (s : CSt), CalmSt p s → (evs.foldl cstep s).reg = ops.foldl apply s.reg := by
  induction evs with
  | nil =>
    intro p ops h s _
    cases p with
    | none => simp only [calmOps, Option.some.injEq] at h; subst h; rfl
    | some k => simp [calmOps] at h
  | cons e es ih =>
    intro p ops h s hs
    cases p with
    | none =>
      cases e with
      | store k o => simp [calmOps] at h
      | atomic o =>
        simp only [calmOps, Option.map_eq_some_iff] at h
        obtain ⟨ops', hops', rfl⟩ := h
        simp only [List.foldl_cons, cstep]
        exact ih none ops' hops' _ hs
      | copy k =>
        simp only [calmOps] at h
        simp only [List.foldl_cons]
        have hs' : s.copies = [] := hs
        have := ih (some k) ops h (cstep s (.copy k)) (by simp [CalmSt, cstep, hs'])
        simpa [cstep] using this
    | some k =>
      cases e with
      | copy k' => simp [calmOps] at h
      | atomic o => simp [calmOps] at h
      | store k' o =>
        simp only [calmOps] at h
        split at h
        · rename_i hk; subst hk
          simp only [Option.map_eq_some_iff] at h
          obtain ⟨ops', hops', rfl⟩ := h
          have hs' : s.copies = [(k, s.reg)] := hs
          have hst : cstep s (.store k o) = { reg := apply s.reg o, copies := [] } := by
            simp [cstep, hs']
          simp only [List.foldl_cons, hst]
          exact ih none ops' hops' _ rfl
        · simp at h

/-- C20, code as written, PARTIAL: as long as no two read-modify-write cycles overlap, the registry is the
    specification map folded over the operations -/
theorem c20_concurrent_partial (evs : List CEv) (ops : List Op) (h : calmOps none evs = some ops) (hok : ∀ op ∈ ops, op.ok) :
    lookup (crun evs).reg = ops.foldl specStep (fun _ _ _ => none) := by
  unfold crun
  rw [crun_calm evs none ops h {} rfl]
  exact (c20_refines ops hok).2

/-- the witness schedule is well formed, its two operations work on different entities and are valid API use -/
def lostEvs : List CEv :=
  [.copy 1, .copy 2, .store 1 (.add [1] 1 ⟨1, 0, true, [], 0⟩), .store 2 (.add [2] 1 ⟨1, 0, true, [], 0⟩)]
def lostOps : List Op := [.add [1] 1 ⟨1, 0, true, [], 0⟩, .add [2] 1 ⟨1, 0, true, [], 0⟩]

/-- C20, code as written, REFUTED: the full-strength statement "for every well-formed schedule the registry is the
    specification map folded over the operations in store order" fails on copy₁ copy₂ store₁ store₂ -/
theorem c20_concurrent_refuted :
    ¬ (∀ (evs : List CEv) (ops : List Op), storeOrder [] evs = some ops → (∀ op ∈ ops, op.ok) →
        lookup (crun evs).reg = ops.foldl specStep (fun _ _ _ => none)) := by
  intro hall
  have h := hall lostEvs lostOps (by rfl) (by
    intro op hop
    simp only [lostOps, List.mem_cons, List.not_mem_nil, or_false] at hop
    rcases hop with rfl | rfl <;> exact ⟨by decide, by decide⟩)
  have h1 : lookup (crun lostEvs).reg [1] 1 1 = none := lost_update_witness
  have h2 : (lostOps.foldl specStep (fun _ _ _ => none)) [1] 1 1 = some ⟨1, 0, true, [], 0⟩ := by decide
  rw [h] at h1
  rw [h1] at h2
  exact absurd h2 (by simp)

end Spine.UC
