import Spine.UseCaseThm
/-! The EntityLocal use-case operations as events: as written each is copy (DataCopy) ; modify ; store (SetData)
    without a lock of its own; repaired, one mutex makes the read-modify-write one event. -/
namespace Spine.UC

structure CSt where
  reg : Reg := []
  copies : List (Nat × Reg) := []      -- operation ↦ the copy it works on

inductive CEv
  | copy (op : Nat)
  | store (op : Nat) (o : Op)
  | atomic (o : Op)

def cstep (s : CSt) : CEv → CSt
  | .copy op => { s with copies := (op, s.reg) :: s.copies }
  | .store op o =>
    match s.copies.find? (·.1 = op) with
    | none => s
    | some (_, r) => { reg := apply r o, copies := s.copies.filter (·.1 ≠ op) }
  | .atomic o => { s with reg := apply s.reg o }

def crun (evs : List CEv) : CSt := evs.foldl cstep {}

/-- as written: two entities declare a use case concurrently, the first declaration is lost -/
theorem lost_update_witness :
    lookup (crun [.copy 1, .copy 2,
                  .store 1 (.add [1] 1 ⟨1, 0, true, []⟩),
                  .store 2 (.add [2] 1 ⟨1, 0, true, []⟩)]).reg [1] 1 1 = none := by decide

def atomicOps : List CEv → Option (List Op)
  | [] => some []
  | .atomic o :: rest => (atomicOps rest).map (o :: ·)
  | _ :: _ => none

theorem crun_atomic (evs : List CEv) (ops : List Op) (h : atomicOps evs = some ops) (s : CSt) :
    (evs.foldl cstep s).reg = ops.foldl apply s.reg := by
  induction evs generalizing ops s with
  | nil => simp only [atomicOps, Option.some.injEq] at h; subst h; rfl
  | cons e es ih =>
    cases e with
    | copy op => simp [atomicOps] at h
    | store op o => simp [atomicOps] at h
    | atomic o =>
      simp only [atomicOps, Option.map_eq_some_iff] at h
      obtain ⟨ops', hops', rfl⟩ := h
      simp only [List.foldl_cons, cstep]
      exact ih ops' hops' _

/-- C20 (repaired code, concurrent use): whatever the order in which the serialised operations take effect, the
    registry is the specification map folded over that order -/
theorem c20_concurrent (evs : List CEv) (ops : List Op) (h : atomicOps evs = some ops) (hok : ∀ op ∈ ops, op.ok) :
    lookup (crun evs).reg = ops.foldl specStep (fun _ _ _ => none) := by
  unfold crun
  rw [crun_atomic evs ops h {}]
  exact (c20_refines ops hok).2

end Spine.UC
