import Spine.TeardownKeys
import Spine.RegistryThm
/-! C10 — the one-number registry model `Spine.Reg` is the abstraction of the identity-key model `Spine.TdK`:
    peer := connection (SKI); the entities of a peer := the entities of the connected device with that SKI.
    On every state of the invariant `TdK.Inv`, for every choice of comparisons that names peer and entity, the device
    teardown of `TdK` projects to `Reg.removePeer` of the repaired member, and the entity removal to the two passes. -/
namespace Spine.TdK

def entsOf (s : St) (p : Nat) : List (List Nat) :=
  match forSki s p with
  | some c => c.ents
  | none => []

def absEntry (e : Entry) : Reg.Entry := ⟨e.id, e.sEnt, e.sFeat, e.cl.ski, e.cl.ent, e.cFeat⟩

/-- the registry half of a `TdK` state as a `Reg` state: the entities of a peer are known "bare" (this model carries no
    feature lists) -/
def abs (s : St) : Reg.St :=
  { loc := [], rem := fun _ => [], bare := entsOf s, subs := s.subs.map absEntry, binds := s.binds.map absEntry }

theorem forSki_of_mem (s : St) (hm : IsMap s.conns) (c : Conn) (hc : c ∈ s.conns) : forSki s c.ski = some c := by
  unfold forSki
  cases h : s.conns.find? (·.ski == c.ski) with
  | none =>
    have := (List.find?_eq_none.1 h) c hc
    simp at this
  | some c' =>
    have hm' := List.mem_of_find?_eq_some h
    have hs : c'.ski = c.ski := by simpa using List.find?_some h
    rw [hm c' hm' c hc hs]

theorem abs_sane (s : St) (h : Inv s) : Reg.Sane (abs s) := by
  have key : ∀ es : List Entry, (∀ e ∈ es, ∃ c ∈ s.conns, c.ski = e.cl.ski ∧ c.dev = e.cl.dev ∧ e.cl.ent ∈ c.ents) →
      ∀ e ∈ es.map absEntry, (Reg.knownEnts (abs s) e.peer).contains e.cEnt = true := by
    intro es href e he
    obtain ⟨e0, he0, rfl⟩ := List.mem_map.1 he
    obtain ⟨c, hc, hs, _, hin⟩ := href e0 he0
    have hf := forSki_of_mem s h.isMap c hc
    simp only [Reg.knownEnts, abs, absEntry, List.map_nil, List.nil_append, entsOf]
    rw [← hs, hf]
    simpa using hin
  exact ⟨key s.subs h.subsRef, key s.binds h.bindsRef⟩

theorem map_filter_abs (es : List Entry) (k : Nat) :
    (es.filter (fun e => e.cl.ski != k)).map absEntry = (es.map absEntry).filter (fun e => decide (e.peer ≠ k)) := by
  induction es with
  | nil => rfl
  | cons e es ih =>
    by_cases h : e.cl.ski = k
    · simp [List.filter_cons, absEntry, h, ih] 
    · simp [List.filter_cons, absEntry, h, ih]

/-- Cross-model agreement: on the invariant, whatever each clean-up compares (as long as it names peer and entity), the
    device teardown of the key model is `Reg.removePeer` of the repaired one-number model. -/
theorem drop_agrees_reg (F : Facts) (hF : F.ok = true) (s : St) (hs : Inv s) (k : Nat) (c : Conn) (hk : forSki s k = some c) :
    (abs (drop F s k).1).subs = (Reg.removePeer Reg.Cfg.clean (abs s) k).subs ∧
    (abs (drop F s k).1).binds = (Reg.removePeer Reg.Cfg.clean (abs s) k).binds := by
  have ex := drop_exact F hF s hs k c hk
  have rg := Reg.c10_drop_exact (abs s) (abs_sane s hs) k
  rw [rg.1, rg.2]
  simp only [abs]
  rw [ex.1, ex.2.1]
  exact ⟨map_filter_abs s.subs k, map_filter_abs s.binds k⟩

end Spine.TdK
