import Spine.Update
/-! Prototype: FunctionData store with Go's sharing made explicit: structs hold a slice (array id, length),
    the store points to a struct, DataCopy copies the struct, the filter-less fast path adopts the caller's struct. -/
namespace Spine.Heap
open Spine

structure H where
  arrays : List (List Item) := []                 -- ArrId = index
  structs : List (Option (Nat × Nat)) := []       -- StructId = index; list field: nil or (array, length)
  store : Option Nat := none                      -- r.data

def H.newArr (h : H) (l : List Item) : H × Nat := ({ h with arrays := h.arrays ++ [l] }, h.arrays.length)
def H.newStruct (h : H) (v : Option (Nat × Nat)) : H × Nat := ({ h with structs := h.structs ++ [v] }, h.structs.length)

def H.slice (h : H) (v : Option (Nat × Nat)) : List Item :=
  match v with
  | none => []
  | some (a, n) => ((h.arrays[a]?).getD []).take n

def H.readStruct (h : H) (s : Nat) : List Item := h.slice ((h.structs[s]?).join)

/-- a full update without filters, persisting: the store adopts the caller's value -/
def full (h : H) (items : List Item) : H × Nat :=
  let (h, v) := if items.isEmpty then (h, none) else let (h, a) := h.newArr items; (h, some (a, items.length))
  let (h, s) := h.newStruct v
  ({ h with store := some s }, s)

/-- DataCopy: a copy of the struct, sharing the backing array -/
def dataCopy (h : H) : H × Option Nat :=
  match h.store with
  | none => (h, none)
  | some s => let (h, c) := h.newStruct ((h.structs[s]?).join); (h, some c)

/-- UpdateData with a filter or without persistence: through the per-type UpdateList -/
def update (sh : Shape) (h : H) (remote persist : Bool) (nw : List Item) (fp fd : Option Filter) : H × Option Bool :=
  -- r.data == nil ⇒ r.data = new(T)
  let (h, s) := match h.store with
    | some s => (h, s)
    | none => let (h, s) := h.newStruct none; ({ h with store := some s }, s)
  let cur := (h.structs[s]?).join
  let ex := h.slice cur
  match updateList sh remote ex nw fp fd with
  | .panic _ => (h, none)
  | .ok r =>
    -- in-place effects on the existing backing array
    let h := match cur with
      | some (a, n) => { h with arrays := h.arrays.set a (r.inplace ++ ((h.arrays[a]?).getD []).drop n) }
      | none => h
    if r.ok && persist then
      if r.fresh then
        if r.out.isEmpty then ({ h with structs := h.structs.set s none }, some true)
        else
          let (h, a) := h.newArr r.out
          ({ h with structs := h.structs.set s (some (a, r.out.length)) }, some true)
      else (h, some true)
    else (h, some r.ok)

end Spine.Heap
