import Spine.UpdateF
/-!
# The function-data store with Go's sharing made explicit (DESIGN §4.4, appendix B.15) — C04 / C11

A value of a list type (`*T` with its one slice field) is a *struct* holding a slice header `(array id, length)`
or nil; arrays are the backing arrays. The store (`FunctionData.data`) points to a struct. `DataCopy` copies the
struct (sharing the array). A filter-less persisting `UpdateData` *adopts the caller's struct* (`r.data = newData`,
`spine/function_data.go`), so the value handed in — and the event payload, which is the same pointer — later
sees even re-assignments of the list. Engine writes go in place or to fresh arrays exactly as the code does
(`Res.inplace`, `Res.fresh` of `Spine.Update`).

`Cfg.fastpathRemote` (C04a): as written the fast path is taken for remote writes as well. Off = the candidate
repair of appendix C (`restricted := remoteWrite && r.data != nil && SupportsPartialWrite()`).
-/
namespace Spine.Heap
open Spine

structure Cfg where
  fastpathRemote : Bool := true
  u : UCfg := {}
deriving Repr, DecidableEq, Inhabited

def Cfg.asWritten : Cfg := {}

abbrev Slice := Option (Nat × Nat)      -- nil or (array id, length)

structure H where
  arrays : List (List Item) := []       -- ArrId = index
  structs : List Slice := []            -- StructId = index; the list field of a value
  store : Option Nat := none            -- r.data

def H.slice (h : H) (v : Slice) : List Item :=
  match v with
  | none => []
  | some (a, n) => ((h.arrays[a]?).getD []).take n

def H.field (h : H) (s : Nat) : Slice := (h.structs[s]?).join

def H.readStruct (h : H) (s : Nat) : List Item := h.slice (h.field s)

/-- the stored list as the application reads it -/
def H.readStore (h : H) : List Item :=
  match h.store with
  | none => []
  | some s => h.readStruct s

/-- a new backing array for a non-empty list (an empty list is a nil slice) -/
def H.allocList (h : H) (l : List Item) : H × Slice :=
  if l.isEmpty then (h, none) else ({ h with arrays := h.arrays ++ [l] }, some (h.arrays.length, l.length))

def H.allocStruct (h : H) (v : Slice) : H × Nat := ({ h with structs := h.structs ++ [v] }, h.structs.length)

/-- a value built by the caller: a struct with its own array -/
def H.allocValue (h : H) (l : List Item) : H × Nat :=
  let (h1, v) := h.allocList l
  h1.allocStruct v

/-- DataCopy: a copy of the struct, sharing the backing array -/
def dataCopy (h : H) : H × Option Nat :=
  match h.store with
  | none => (h, none)
  | some s => let (h, c) := h.allocStruct (h.field s); (h, some c)

/-- the `*FilterType` argument: nil, a filter without selector / elements (`Data()` fails), or one with data -/
inductive FArg
  | nil
  | nodata
  | data (f : Filter)
deriving Repr

def FArg.isNil : FArg → Bool
  | .nil => true
  | _ => false

def FArg.toOpt : FArg → Option Filter
  | .data f => some f
  | _ => none

/-- outcome of `FunctionData.UpdateData`: panic, or (success, handle of the value handed in, handle of the data
    returned to the caller — nil on failure) -/
inductive UpdRes
  | panic
  | done (ok : Bool) (input : Nat) (ret : Option Nat)
deriving Repr, DecidableEq

/-- `r.data == nil ⇒ r.data = new(T)` -/
def H.ensureStore (h : H) : H × Nat :=
  match h.store with
  | some s => (h, s)
  | none => let (h, s) := h.allocStruct none; ({ h with store := some s }, s)

/-- the in-place effect of an engine call on the backing array of the stored slice -/
def H.writeBack (h : H) (cur : Slice) (inplace : List Item) : H :=
  match cur with
  | some (a, n) => { h with arrays := h.arrays.set a (inplace ++ ((h.arrays[a]?).getD []).drop n) }
  | none => h

/-- the engine path of `UpdateData` (any filter, or no persistence): the per-type `UpdateList` on the store -/
def engine (c : Cfg) (sh : Shape) (h : H) (remote persist : Bool) (nw : List Item) (fp fd : Option Filter)
    (inp : Nat) : H × UpdRes :=
  let (h, s) := h.ensureStore
  let cur := h.field s
  match updateListF c.u sh remote (h.slice cur) nw fp fd with
  | .panic _ => (h, .panic)
  | .ok r =>
    let h := h.writeBack cur r.inplace
    if r.fresh then
      let (h, v) := h.allocList r.out
      let h := if r.ok && persist then { h with structs := h.structs.set s v } else h
      if r.ok then let (h, o) := h.allocStruct v; (h, .done true inp (some o)) else (h, .done false inp none)
    else
      -- the returned slice is the stored one (same array, same length); assigning it back changes nothing
      if r.ok then let (h, o) := h.allocStruct cur; (h, .done true inp (some o)) else (h, .done false inp none)

/-- does this call take the replace fast path -/
def fastPath (c : Cfg) (h : H) (remote persist : Bool) (fp fd : FArg) : Bool :=
  fp.isNil && fd.isNil && persist && !(remote && !c.fastpathRemote && h.store.isSome)

/-- `FunctionData.UpdateData(remoteWrite, persist, newData, filterPartial, filterDelete)` -/
def updateData (c : Cfg) (sh : Shape) (h : H) (remote persist : Bool) (nw : List Item) (fp fd : FArg) : H × UpdRes :=
  let (h, inp) := h.allocValue nw
  if fastPath c h remote persist fp fd then
    ({ h with store := some inp }, .done true inp (some inp))
  else engine c sh h remote persist nw fp.toOpt fd.toOpt inp

/-- shorthand used by the witnesses: a local, persisting, filter-less update (`SetData`) -/
def full (h : H) (items : List Item) : H × Nat :=
  let (h, inp) := h.allocValue items
  ({ h with store := some inp }, inp)

end Spine.Heap
