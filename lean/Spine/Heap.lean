import Spine.UpdateF
/-!
# The function-data store with Go's sharing made explicit (DESIGN §4.4, appendix B.15) — C04 / C11

A value of a list type (`*T` with its one slice field) is a *struct* holding a slice header `(array id, length)`
or nil; arrays are the backing arrays. The store (`FunctionData.data`) points to a struct. `DataCopy` copies the
struct (sharing the array). A filter-less persisting `UpdateData` *adopts the caller's struct* (`r.data = newData`,
`spine/function_data.go`), so the value handed in — and the event payload, which is the same pointer — later
sees even re-assignments of the list. Engine writes go in place or to fresh arrays exactly as the code does
(`Res.inplace`, `Res.fresh` of `Spine.Update`).

`Cfg.fastpathRemote` (C04a): as written the fast path is taken for remote writes as well. Off = the candidate
repair of appendix C (`restricted := remoteWrite && r.data != nil && SupportsPartialWrite()`).
`Cfg.fastpathAdopts` (C11b): as written the fast path stores the caller's pointer. Off = the repair
`fixes/c04/04-…`: the store keeps a one-level copy of the value (a struct of its own sharing the array) and hands
the caller's own pointer back.
-/
namespace Spine.Heap
open Spine

structure Cfg where
  fastpathRemote : Bool := true
  fastpathAdopts : Bool := true
  u : UCfg := {}
deriving Repr, DecidableEq, Inhabited

def Cfg.asWritten : Cfg := {}

abbrev Slice := Option (Nat × Nat)      -- nil or (array id, length)

structure H where
  arrays : List (List Item) := []       -- ArrId = index
  structs : List Slice := []            -- StructId = index; the list field of a value
  store : Option Nat := none            -- r.data

def H.slice (h : H) (v : Slice) : List Item :=
  match v with
  | none => []
  | some (a, n) => ((h.arrays[a]?).getD []).take n

def H.field (h : H) (s : Nat) : Slice := (h.structs[s]?).join

def H.readStruct (h : H) (s : Nat) : List Item := h.slice (h.field s)

/-- the stored list as the application reads it -/
def H.readStore (h : H) : List Item :=
  match h.store with
  | none => []
  | some s => h.readStruct s

/-- a new backing array for a non-empty list (an empty list is a nil slice) -/
def H.allocList (h : H) (l : List Item) : H × Slice :=
  if l.isEmpty then (h, none) else ({ h with arrays := h.arrays ++ [l] }, some (h.arrays.length, l.length))

def H.allocStruct (h : H) (v : Slice) : H × Nat := ({ h with structs := h.structs ++ [v] }, h.structs.length)

/-- a value built by the caller: a struct with its own array -/
def H.allocValue (h : H) (l : List Item) : H × Nat := (h.allocList l).1.allocStruct (h.allocList l).2

/-- DataCopy: a copy of the struct, sharing the backing array -/
def dataCopy (h : H) : H × Option Nat :=
  match h.store with
  | none => (h, none)
  | some s => ((h.allocStruct (h.field s)).1, some (h.allocStruct (h.field s)).2)

/-- the `*FilterType` argument: nil, a filter without selector / elements (`Data()` fails), or one with data -/
inductive FArg
  | nil
  | nodata
  | data (f : Filter)
deriving Repr

def FArg.isNil : FArg → Bool
  | .nil => true
  | _ => false

def FArg.toOpt : FArg → Option Filter
  | .data f => some f
  | _ => none

/-- outcome of `FunctionData.UpdateData`: panic, or (success, handle of the value handed in, handle of the data
    returned to the caller — nil on failure) -/
inductive UpdRes
  | panic
  | done (ok : Bool) (input : Nat) (ret : Option Nat)
deriving Repr, DecidableEq

/-- `r.data == nil ⇒ r.data = new(T)` -/
def H.ensureStore (h : H) : H × Nat :=
  match h.store with
  | some s => (h, s)
  | none => ({ (h.allocStruct none).1 with store := some h.structs.length }, h.structs.length)

/-- the in-place effect of an engine call on the backing array of the stored slice -/
def H.writeBack (h : H) (cur : Slice) (inplace : List Item) : H :=
  match cur with
  | some (a, n) => { h with arrays := h.arrays.set a (inplace ++ ((h.arrays[a]?).getD []).drop n) }
  | none => h

/-- what the engine's result does to the heap: in-place effects on the stored array; a fresh result list gets a
    new array and, if the call succeeded and persists, becomes the stored list (a result that is the stored
    slice itself — same array, same length — changes nothing when assigned back); the data handed back to the
    caller (on success) is a struct of its own around the result slice -/
def applyRes (h1 : H) (s : Nat) (persist : Bool) (inp : Nat) (r : Res) : H × UpdRes :=
  let cur := h1.field s
  let h2 := h1.writeBack cur r.inplace
  let v : Slice := if r.fresh then (h2.allocList r.out).2 else cur
  let h3 := if r.fresh then (h2.allocList r.out).1 else h2
  let h4 := if r.fresh && r.ok && persist then { h3 with structs := h3.structs.set s v } else h3
  if r.ok then ((h4.allocStruct v).1, .done true inp (some (h4.allocStruct v).2)) else (h4, .done false inp none)

/-- the engine path of `UpdateData` (any filter, or no persistence): the per-type `UpdateList` on the store -/
def engine (c : Cfg) (sh : Shape) (h : H) (remote persist : Bool) (nw : List Item) (fp fd : Option Filter)
    (inp : Nat) : H × UpdRes :=
  let h1 := h.ensureStore.1
  let s := h.ensureStore.2
  match updateListF c.u sh remote (h1.slice (h1.field s)) nw fp fd with
  | .panic _ => (h1, .panic)
  | .ok r => applyRes h1 s persist inp r

/-- does this call take the replace fast path -/
def fastPath (c : Cfg) (h : H) (remote persist : Bool) (fp fd : FArg) : Bool :=
  fp.isNil && fd.isNil && persist && !(remote && !c.fastpathRemote && h.store.isSome)

/-- `FunctionData.UpdateData(remoteWrite, persist, newData, filterPartial, filterDelete)` -/
def updateData (c : Cfg) (sh : Shape) (h : H) (remote persist : Bool) (nw : List Item) (fp fd : FArg) : H × UpdRes :=
  let h0 := (h.allocValue nw).1
  let inp := (h.allocValue nw).2
  if fastPath c h0 remote persist fp fd then
    if c.fastpathAdopts then ({ h0 with store := some inp }, .done true inp (some inp))
    else ({ (h0.allocStruct (h0.field inp)).1 with store := some (h0.allocStruct (h0.field inp)).2 }, .done true inp (some inp))
  else engine c sh h0 remote persist nw fp.toOpt fd.toOpt inp

/-- shorthand used by the witnesses: a local, persisting, filter-less update (`SetData`) -/
def full (h : H) (items : List Item) : H × Nat :=
  ({ (h.allocValue items).1 with store := some (h.allocValue items).2 }, (h.allocValue items).2)

end Spine.Heap
