import Spine.TeardownKeys
/-! C10 — the PENDING WRITE APPROVALS over identity keys: `Spine.TdK` extended by what `FeatureLocal` keeps per write that
    waits for the application's verdict (`pendingWriteApprovals` / `pendingWriteMessages`).

    Key of a pending approval, as the code has it: the map key (SKI, msgCounter) on one local server feature, and — in the
    stored message — the CONNECTION OBJECT (`msg.DeviceRemote`, here the connection EPOCH: how many connections that SKI
    has had) and the ENTITY OBJECT of the writing client feature (`msg.EntityRemote`, here (SKI, epoch, entity address)).
    `CleanWriteApprovalCaches(ski)` drops the SKI's map; `cleanWriteApprovalCachesForEntity(ski, entity)` drops the
    entries of that SKI whose message came from that entity object; `ApproveOrDenyWrite(msg, …)` takes the write pending
    under (SKI, counter) only if it was stored by the SAME connection object. A re-connection under the same SKI is a new
    epoch, hence a different key.  Core Lean only (imported by `drv_tdk`). -/
namespace Spine.TdK

structure Pend where
  ski : Nat
  epoch : Nat              -- which connection of that SKI stored it (identity of `msg.DeviceRemote`)
  ctr : Nat                -- msgCounter of the write: the key within the SKI's map
  ent : List Nat           -- entity of the writing client feature (with ski and epoch: identity of `msg.EntityRemote`)
  cFeat : Nat
  srv : List Nat × Nat     -- the local server feature that holds the pending approval
deriving DecidableEq, Repr

structure PSt where
  s : St
  pends : List Pend := []
  epochs : List (Nat × Nat) := []    -- SKI ↦ number of connections it has had so far
deriving Repr

def epochOf (p : PSt) (k : Nat) : Nat :=
  match p.epochs.find? (·.1 == k) with
  | some e => e.2
  | none => 0

/-- same slot of the same feature's map: (SKI, counter) -/
def Pend.slot (x : Pend) (k ctr : Nat) (srv : List Nat × Nat) : Bool := x.ski == k && x.ctr == ctr && x.srv == srv

/-- SetupRemoteDevice + discovery reply: a new connection object for that SKI -/
def pconnect (p : PSt) (c : Conn) : PSt :=
  if (forSki p.s c.ski).isSome then p else
  { p with s := connect p.s c, epochs := (c.ski, epochOf p c.ski + 1) :: p.epochs.filter (·.1 != c.ski) }

/-- the write gate: connection `k`'s client feature (ent, cf) is bound to the server feature -/
def bound (s : St) (k : Nat) (ent : List Nat) (cf : Nat) (srv : List Nat × Nat) : Bool :=
  s.binds.any fun e => e.cl.ski == k && e.cl.ent == ent && e.cFeat == cf && (e.sEnt, e.sFeat) == srv

/-- a write of connection `k` to a server feature with approval callbacks: stored under (k, ctr) by the current connection
    object, if the gate lets it through (a map: an entry in the same slot is replaced) -/
def pwrite (p : PSt) (k ctr : Nat) (ent : List Nat) (cf : Nat) (srv : List Nat × Nat) : PSt × Bool :=
  match forSki p.s k with
  | none => (p, false)
  | some c =>
    if c.ents.contains ent && bound p.s k ent cf srv then
      ({ p with pends := p.pends.filter (fun x => !x.slot k ctr srv) ++ [⟨k, epochOf p k, ctr, ent, cf, srv⟩] }, true)
    else (p, false)

/-- is the verdict for the message (k, epoch, ctr) on `srv` taken: something is pending in that slot AND it was stored by
    the same connection object -/
def taken (p : PSt) (k epoch ctr : Nat) (srv : List Nat × Nat) : Bool :=
  p.pends.any fun x => x.slot k ctr srv && x.epoch == epoch

/-- ApproveOrDenyWrite (one approval callback): a taken verdict empties the slot -/
def presolve (p : PSt) (k epoch ctr : Nat) (srv : List Nat × Nat) : PSt × Bool :=
  if taken p k epoch ctr srv then ({ p with pends := p.pends.filter (fun x => !x.slot k ctr srv) }, true) else (p, false)

/-- RemoveRemoteDeviceConnection: for a connected SKI also `CleanWriteApprovalCaches(ski)` on every local feature (for an
    unknown SKI `RemoveRemoteDevice` returns before the caches) -/
def pdrop (F : Facts) (p : PSt) (k : Nat) : PSt × List Ev :=
  match forSki p.s k with
  | none => (p, (drop F p.s k).2)
  | some _ => ({ p with s := (drop F p.s k).1, pends := p.pends.filter (·.ski != k) }, (drop F p.s k).2)

/-- an effective removal entry also runs `cleanWriteApprovalCachesForEntity(ski, entity object)` on every local feature -/
def pdropEntity (F : Facts) (p : PSt) (k : Nat) (ent : List Nat) : PSt × List Ev :=
  match forSki p.s k with
  | none => (p, [])
  | some c =>
    if ent == [0] || !c.ents.contains ent then (p, []) else
    ({ p with s := (dropEntity F p.s k ent).1,
              pends := p.pends.filter (fun x => !(x.ski == k && x.epoch == epochOf p k && x.ent == ent)) },
     (dropEntity F p.s k ent).2)

inductive POp
  | base (op : Op)                                  -- entry / book of `TdK` (connect, drop, dropEnt are routed below)
  | write (k ctr : Nat) (ent : List Nat) (cf : Nat) (srv : List Nat × Nat)
  | verdict (k epoch ctr : Nat) (srv : List Nat × Nat)
deriving Repr

def pstep (F : Facts) (p : PSt) : POp → PSt
  | .base (.connect c) => pconnect p c
  | .base (.drop k) => (pdrop F p k).1
  | .base (.dropEnt k e) => (pdropEntity F p k e).1
  | .base op => { p with s := step F p.s op }
  | .write k ctr ent cf srv => (pwrite p k ctr ent cf srv).1
  | .verdict k e ctr srv => (presolve p k e ctr srv).1

def prun (F : Facts) (p : PSt) (ops : List POp) : PSt := ops.foldl (pstep F) p

/-! ## the invariant: every pending approval was stored by the CURRENT connection object of a connected SKI, for one of
    its entities -/

structure PInv (p : PSt) : Prop where
  live : ∀ x ∈ p.pends, ∃ c ∈ p.s.conns, c.ski = x.ski ∧ x.ent ∈ c.ents
  cur : ∀ x ∈ p.pends, x.epoch = epochOf p x.ski

theorem epochOf_cons_self (p : PSt) (k n : Nat) (l : List (Nat × Nat)) : epochOf { p with epochs := (k, n) :: l } k = n := by
  simp [epochOf]

theorem epochOf_cons_other (p : PSt) (k q n : Nat) (hq : q ≠ k) :
    epochOf { p with epochs := (k, n) :: p.epochs.filter (·.1 != k) } q = epochOf p q := by
  have hkq : (k == q) = false := by simpa using fun h : k = q => hq h.symm
  simp only [epochOf, List.find?_cons, hkq]
  rw [find?_filter_of_imp]
  intro a _ ha
  have : a.1 = q := by simpa using ha
  simp [this, hq]

/-- DEVICE TEARDOWN, key level: exactly the pending approvals stored under that SKI go (all of them, only them) -/
theorem pdrop_pends (F : Facts) (p : PSt) (k : Nat) (c : Conn) (hk : forSki p.s k = some c) :
    (pdrop F p k).1.pends = p.pends.filter (·.ski != k) := by
  unfold pdrop; rw [hk]

theorem pdrop_state (F : Facts) (p : PSt) (k : Nat) : (pdrop F p k).1.s = (drop F p.s k).1 ∧ (pdrop F p k).2 = (drop F p.s k).2 := by
  unfold pdrop
  cases hk : forSki p.s k with
  | none => exact ⟨by unfold drop; rw [hk], rfl⟩
  | some c => exact ⟨rfl, rfl⟩

/-- ENTITY REMOVAL, key level: on the invariant, exactly the pending approvals of writes from (that SKI, that entity) go —
    the entity OBJECT the code compares is the current connection's, and every pending approval of the SKI is of the
    current connection -/
theorem pdropEntity_pends (F : Facts) (p : PSt) (hp : PInv p) (k : Nat) (c : Conn) (hk : forSki p.s k = some c)
    (ent : List Nat) (h0 : ent ≠ [0]) (hent : c.ents.contains ent = true) :
    (pdropEntity F p k ent).1.pends = p.pends.filter (fun x => !(x.ski == k && x.ent == ent)) := by
  have h0' : (ent == [0]) = false := by simpa using h0
  unfold pdropEntity
  simp only [hk, h0', hent, Bool.not_true, Bool.or_self, Bool.false_eq_true, if_false]
  apply filter_congr_mem
  intro x hx
  by_cases hs : x.ski = k
  · have := hp.cur x hx
    rw [hs] at this
    simp [hs, this]
  · have hsb : (x.ski == k) = false := by simpa using hs
    simp [hsb]

theorem pdropEntity_state (F : Facts) (p : PSt) (k : Nat) (ent : List Nat) :
    (pdropEntity F p k ent).1.s = (dropEntity F p.s k ent).1 ∧ (pdropEntity F p k ent).2 = (dropEntity F p.s k ent).2 := by
  unfold pdropEntity dropEntity
  cases forSki p.s k with
  | none => exact ⟨rfl, rfl⟩
  | some c => dsimp only; split <;> exact ⟨rfl, rfl⟩

/-- a verdict for a message of an EARLIER connection of the SKI is never taken, whatever is pending in that slot now -/
theorem stale_verdict_ignored (p : PSt) (hp : PInv p) (k epoch ctr : Nat) (srv : List Nat × Nat) (he : epoch ≠ epochOf p k) :
    taken p k epoch ctr srv = false := by
  unfold taken
  rw [List.any_eq_false]
  intro x hx
  by_cases hs : x.ski = k
  · have := hp.cur x hx
    rw [hs] at this
    have hne : (x.epoch == epoch) = false := by rw [this]; simpa using fun h => he h.symm
    simp [hne]
  · simp [Pend.slot, hs]

/-- after the teardown no verdict for that SKI is taken, of whichever connection, counter and feature -/
theorem pdrop_none_taken (F : Facts) (p : PSt) (k : Nat) (c : Conn) (hk : forSki p.s k = some c) (epoch ctr : Nat) (srv : List Nat × Nat) :
    taken (pdrop F p k).1 k epoch ctr srv = false := by
  unfold taken
  rw [pdrop_pends F p k c hk, List.any_eq_false]
  intro x hx
  have := (List.mem_filter.1 hx).2
  have hs : (x.ski == k) = false := by simpa using this
  simp [Pend.slot, hs]

theorem any_filter_other {α : Type} (l : List α) (keep f : α → Bool) (h : ∀ a, f a = true → keep a = true) :
    (l.filter keep).any f = l.any f := by
  induction l with
  | nil => rfl
  | cons a l ih =>
    cases hk : keep a with
    | true => simp [hk, ih]
    | false =>
      have hf : f a = false := by
        cases hfa : f a with
        | false => rfl
        | true => rw [h a hfa] at hk; exact absurd hk (by simp)
      simp [hk, ih, hf]

/-- the verdicts of every other SKI are taken exactly as before a teardown / an entity removal about `k` -/
theorem others_taken (p : PSt) (k q epoch ctr : Nat) (srv : List Nat × Nat) (hq : q ≠ k) (keep : Pend → Bool)
    (hkeep : ∀ x, x.ski ≠ k → keep x = true) :
    taken { p with pends := p.pends.filter keep } q epoch ctr srv = taken p q epoch ctr srv := by
  unfold taken
  apply any_filter_other
  intro x hx
  apply hkeep
  simp only [Pend.slot, Bool.and_eq_true, beq_iff_eq] at hx
  rw [hx.1.1.1]; exact hq

/-! ## the invariant holds along every history -/

theorem pinv_of_eq (p p' : PSt) (h : PInv p) (hp : p'.pends = p.pends) (he : p'.epochs = p.epochs)
    (hc : ∀ x ∈ p.pends, ∀ c ∈ p.s.conns, c.ski = x.ski → x.ent ∈ c.ents → ∃ c' ∈ p'.s.conns, c'.ski = x.ski ∧ x.ent ∈ c'.ents) : PInv p' := by
  constructor
  · intro x hx
    rw [hp] at hx
    obtain ⟨c, hc', hs, he'⟩ := h.live x hx
    exact hc x hx c hc' hs he'
  · intro x hx
    rw [hp] at hx
    have := h.cur x hx
    simpa [epochOf, he] using this

theorem pinv_pconnect (p : PSt) (h : PInv p) (c : Conn) : PInv (pconnect p c) := by
  unfold pconnect
  by_cases hk : (forSki p.s c.ski).isSome = true
  · simp [hk]; exact h
  · simp only [hk, Bool.false_eq_true, if_false]
    have hnone : forSki p.s c.ski = none := by simpa using hk
    have hconn : (connect p.s c).conns = p.s.conns ++ [c] := by unfold connect; simp [hnone]
    have hk' : ∀ x ∈ p.s.conns, x.ski ≠ c.ski := by
      unfold forSki at hnone
      intro x hx; simpa using (List.find?_eq_none.1 hnone) x hx
    constructor
    · intro x hx
      obtain ⟨c', hc', r⟩ := h.live x hx
      exact ⟨c', by rw [hconn]; simp [hc'], r⟩
    · intro x hx
      obtain ⟨c', hc', hs, _⟩ := h.live x hx
      have hne : x.ski ≠ c.ski := by rw [← hs]; exact hk' c' hc'
      have := epochOf_cons_other p c.ski x.ski (epochOf p c.ski + 1) hne
      simp only [epochOf] at this ⊢
      rw [this]
      exact h.cur x hx

theorem pinv_pwrite (p : PSt) (h : PInv p) (k ctr : Nat) (ent : List Nat) (cf : Nat) (srv : List Nat × Nat) :
    PInv (pwrite p k ctr ent cf srv).1 := by
  unfold pwrite
  cases hk : forSki p.s k with
  | none => exact h
  | some c =>
    obtain ⟨hmem, hski⟩ := forSki_some hk
    dsimp only
    split
    · rename_i hc
      simp only [Bool.and_eq_true] at hc
      constructor
      · intro x hx
        simp only [List.mem_append, List.mem_singleton] at hx
        rcases hx with hx | rfl
        · exact h.live x (List.mem_filter.1 hx).1
        · exact ⟨c, hmem, hski, by simpa using hc.1⟩
      · intro x hx
        simp only [List.mem_append, List.mem_singleton] at hx
        rcases hx with hx | rfl
        · exact h.cur x (List.mem_filter.1 hx).1
        · rfl
    · exact h

theorem pinv_presolve (p : PSt) (h : PInv p) (k e ctr : Nat) (srv : List Nat × Nat) : PInv (presolve p k e ctr srv).1 := by
  unfold presolve
  split
  · exact ⟨fun x hx => h.live x (List.mem_filter.1 hx).1, fun x hx => h.cur x (List.mem_filter.1 hx).1⟩
  · exact h

theorem pinv_pdrop (F : Facts) (hF : F.ok = true) (p : PSt) (hs : Inv p.s) (h : PInv p) (k : Nat) : PInv (pdrop F p k).1 := by
  cases hk : forSki p.s k with
  | none => unfold pdrop; rw [hk]; exact h
  | some c =>
    have ex := drop_exact F hF p.s hs k c hk
    unfold pdrop; rw [hk]
    constructor
    · intro x hx
      have hx' := List.mem_filter.1 hx
      obtain ⟨c', hc', hs', he'⟩ := h.live x hx'.1
      refine ⟨c', ?_, hs', he'⟩
      show c' ∈ (drop F p.s k).1.conns
      rw [ex.2.2.2.2, List.mem_filter]
      exact ⟨hc', by rw [hs']; exact hx'.2⟩
    · intro x hx
      exact h.cur x (List.mem_filter.1 hx).1

theorem pinv_pdropEntity (F : Facts) (hF : F.ok = true) (p : PSt) (hs : Inv p.s) (h : PInv p) (k : Nat) (ent : List Nat) :
    PInv (pdropEntity F p k ent).1 := by
  cases hk : forSki p.s k with
  | none => unfold pdropEntity; rw [hk]; exact h
  | some c =>
    by_cases hcond : (ent == [0] || !c.ents.contains ent) = true
    · unfold pdropEntity; simp only [hk, hcond, if_true]; exact h
    · have hcond' : (ent == [0] || !c.ents.contains ent) = false := by simpa using hcond
      simp only [Bool.or_eq_false_iff, Bool.not_eq_false'] at hcond'
      have h0 : ent ≠ [0] := by simpa using hcond'.1
      have hpe := pdropEntity_pends F p h k c hk ent h0 hcond'.2
      have hst := (pdropEntity_state F p k ent).1
      have hconns : (dropEntity F p.s k ent).1.conns = p.s.conns.map (dropConnEnt k ent) := by
        unfold dropEntity
        simp only [hk, hcond'.1, hcond'.2, Bool.not_true, Bool.or_self, Bool.false_eq_true, if_false]
      have hep : (pdropEntity F p k ent).1.epochs = p.epochs := by
        unfold pdropEntity
        simp only [hk, hcond'.1, hcond'.2, Bool.not_true, Bool.or_self, Bool.false_eq_true, if_false]
      constructor
      · intro x hx
        rw [hpe] at hx
        have hx' := List.mem_filter.1 hx
        obtain ⟨c', hc', hs', he'⟩ := h.live x hx'.1
        refine ⟨dropConnEnt k ent c', ?_, by rw [dropConnEnt_ski]; exact hs', ?_⟩
        · rw [hst, hconns]; exact List.mem_map.2 ⟨c', hc', rfl⟩
        · unfold dropConnEnt
          by_cases hck : (c'.ski == k) = true
          · simp only [hck, if_true, List.mem_filter]
            refine ⟨he', ?_⟩
            have hek : (x.ski == k) = true := by rw [← hs']; exact hck
            have := hx'.2
            simp only [hek, Bool.true_and, Bool.not_eq_true', beq_eq_false_iff_ne] at this
            simpa using this
          · simp only [hck, Bool.false_eq_true, if_false]; exact he'
      · intro x hx
        rw [hpe] at hx
        have := h.cur x (List.mem_filter.1 hx).1
        simpa [epochOf, hep] using this

theorem conns_addEntry (s : St) (b : Bool) (id k : Nat) (e : List Nat) (cf : Nat) (se : List Nat) (sf : Nat) :
    (addEntry s b id k e cf se sf).conns = s.conns := by
  unfold addEntry
  cases forSki s k with
  | none => rfl
  | some c => dsimp only; split
              · rfl
              · cases b <;> rfl

theorem conns_addBook (s : St) (b : Bool) (x : Book) : (addBook s b x).conns = s.conns := by
  unfold addBook
  cases forAddress s x.dev with
  | none => rfl
  | some _ => cases b <;> rfl

theorem pinv_same_conns (p : PSt) (h : PInv p) (s' : St) (hc : s'.conns = p.s.conns) : PInv { p with s := s' } :=
  ⟨fun x hx => by obtain ⟨c, hc', r⟩ := h.live x hx; exact ⟨c, by rw [hc]; exact hc', r⟩, fun x hx => h.cur x hx⟩

/-- the assumption on histories (as for `TdK.okRun`): a connection announces a device address no connected device has -/
def pokOp (p : PSt) : POp → Bool
  | .base op => okOp p.s op
  | _ => true

def pokRun (F : Facts) : PSt → List POp → Bool
  | _, [] => true
  | p, op :: ops => pokOp p op && pokRun F (pstep F p op) ops

theorem pinv_step (F : Facts) (hF : F.ok = true) (p : PSt) (hs : Inv p.s) (h : PInv p) (op : POp) (hok : pokOp p op = true) :
    Inv (pstep F p op).s ∧ PInv (pstep F p op) := by
  cases op with
  | base op =>
    cases op with
    | connect c =>
      refine ⟨?_, pinv_pconnect p h c⟩
      show Inv (pconnect p c).s
      unfold pconnect
      by_cases hk : (forSki p.s c.ski).isSome = true
      · simp only [hk, if_true]; exact hs
      · simp only [hk, Bool.false_eq_true, if_false]; exact inv_connect p.s hs c hok
    | entry b id k e cf se sf =>
      exact ⟨inv_addEntry p.s hs b id k e cf se sf, pinv_same_conns p h _ (conns_addEntry p.s b id k e cf se sf)⟩
    | book b x => exact ⟨inv_addBook p.s hs b x, pinv_same_conns p h _ (conns_addBook p.s b x)⟩
    | drop k =>
      refine ⟨?_, pinv_pdrop F hF p hs h k⟩
      show Inv (pdrop F p k).1.s
      rw [(pdrop_state F p k).1]; exact inv_drop F hF p.s hs k
    | dropEnt k e =>
      refine ⟨?_, pinv_pdropEntity F hF p hs h k e⟩
      show Inv (pdropEntity F p k e).1.s
      rw [(pdropEntity_state F p k e).1]; exact inv_dropEntity F hF p.s hs k e
  | write k ctr ent cf srv =>
    refine ⟨?_, pinv_pwrite p h k ctr ent cf srv⟩
    show Inv (pwrite p k ctr ent cf srv).1.s
    unfold pwrite
    cases forSki p.s k with
    | none => exact hs
    | some c => dsimp only; split <;> exact hs
  | verdict k e ctr srv =>
    refine ⟨?_, pinv_presolve p h k e ctr srv⟩
    show Inv (presolve p k e ctr srv).1.s
    unfold presolve; split <;> exact hs

theorem pinv_run (F : Facts) (hF : F.ok = true) : ∀ (ops : List POp) (p : PSt), Inv p.s → PInv p → pokRun F p ops = true →
    Inv (prun F p ops).s ∧ PInv (prun F p ops) := by
  intro ops
  induction ops with
  | nil => intro p hs h _; exact ⟨hs, h⟩
  | cons op ops ih =>
    intro p hs h hok
    simp only [pokRun, Bool.and_eq_true] at hok
    have := pinv_step F hF p hs h op hok.1
    exact ih (pstep F p op) this.1 this.2 hok.2

theorem pinv_empty : PInv { s := { conns := [] } } :=
  ⟨fun x hx => by simp at hx, fun x hx => by simp at hx⟩

end Spine.TdK
