import Spine.Num
/-! C19: the float expressions of `NewScaledNumberType` / `GetValue` as DATA (regenerated from the source by the
    translator generator `scaledexpr`, `Spine/Generated/ScaledExpr.lean`) and their evaluation over the binary64
    model `Spine.Num`. The theorems of `Spine/Props/C19Scaled.lean` say that the expressions found in the source
    evaluate to what the hand-written model computes (`scaledProduct`, `getValue` of the member the source
    denotes), so the model's intermediate `product` and `GetValue` are tied to the code's text, and the harness
    evaluates the same trees with the operations of the Go runtime. Core Lean only. -/
namespace Spine.FExpr
open Spine.Num

/-- expression trees (`bad` = something the generator could not render) -/
inductive E where
  | param | number | scale | decimals
  | const (c : Int)
  | floatOf (x : E)
  | neg (x : E)
  | mul (l r : E)
  | div (l r : E)
  | pow (l r : E)
  | bad
deriving DecidableEq, Repr

structure Env where
  param : Dbl
  number : Int
  scale : Int
  decimals : Nat

/-- integer-valued expressions -/
def evalI (env : Env) : E → Option Int
  | .number => some env.number
  | .scale => some env.scale
  | .decimals => some env.decimals
  | .const c => some c
  | .neg x => (evalI env x).map (- ·)
  | _ => none

/-- the exponent of a power of ten: an integer under conversions to float and negations -/
def evalExp (env : Env) : E → Option Int
  | .floatOf x => evalI env x
  | .neg x => (evalExp env x).map (- ·)
  | e => evalI env e

/-- float-valued expressions over `Spine.Num` (`math.Pow` only with base 10, as `Num.pow10`) -/
def evalF (env : Env) : E → Option Dbl
  | .param => some env.param
  | .floatOf x => (evalI env x).map ofInt
  | .mul l r => match evalF env l, evalF env r with
    | some a, some b => some (Num.mul a b)
    | _, _ => none
  | .div l r => match evalF env l, evalF env r with
    | some a, some b => some (Num.div a b)
    | _, _ => none
  | .pow (.const 10) r => (evalExp env r).map pow10
  | _ => none

/-- binary64 multiplication is commutative -/
theorem mul_comm (a b : Dbl) : Num.mul a b = Num.mul b a := by
  have h1 : (a.neg != b.neg) = (b.neg != a.neg) := by cases a.neg <;> cases b.neg <;> rfl
  have h2 : mulRat a b = mulRat b a := by
    unfold mulRat
    rw [Nat.mul_comm a.m b.m, Int.add_comm a.e b.e]
  unfold Num.mul
  rw [h1, h2]

/-- is the expression a quotient? -/
def isDiv : E → Bool
  | .div _ _ => true
  | _ => false

theorem decimalsCapped_le (v : Dbl) : decimalsCapped v ≤ 4 := by
  unfold decimalsCapped
  repeat' split
  all_goals omega

end Spine.FExpr
