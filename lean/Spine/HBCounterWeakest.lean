import Spine.HBCounter
/-! C16, counter clause: `Calm` (no counter is drawn while a refresh is in flight) is not only sufficient for strict
    growth (`c16_counter_increasing`) but the weakest such condition on draws: EVERY draw made while another stream's
    refresh is in flight can be continued to a schedule in which the stored counter goes down. -/
namespace Spine.HBC

/-- every counter in flight has been drawn: it does not exceed `num` -/
def Drawn (s : St) : Prop := ∀ x ∈ s.inflight, x.2 ≤ s.num

theorem step_drawn (s : St) (e : Ev) (h : Drawn s) : Drawn (step s e) := by
  cases e with
  | draw k =>
    simp only [step]
    split
    · exact h
    · intro x hx
      rcases List.mem_cons.mp hx with rfl | hx
      · exact Nat.le_refl _
      · exact Nat.le_succ_of_le (h x hx)
  | store k =>
    simp only [step]
    split
    · intro x hx
      exact h x (List.mem_filter.mp hx).1
    · exact h

theorem run_drawn (evs : List Ev) : Drawn (run evs) := by
  unfold run
  suffices ∀ s, Drawn s → Drawn (evs.foldl step s) from this {} (by intro x hx; cases hx)
  induction evs with
  | nil => intro s h; exact h
  | cons e es ih => intro s h; exact ih _ (step_drawn s e h)

theorem filter_ne_self (l : List (Nat × Nat)) (k : Nat) (h : l.any (·.1 = k) = false) :
    l.filter (·.1 ≠ k) = l := by
  rw [List.filter_eq_self]
  intro x hx
  have := List.any_eq_false.mp h x hx
  simpa using this

/-- a draw by stream `k` while the refresh of another stream is in flight, continued by `store k` and the store of
    that other refresh: the stored sequence ends `…, num + 1, v` with `v ≤ num` -/
theorem overtake (s : St) (hd : Drawn s) (k j v : Nat) (rest : List (Nat × Nat))
    (hin : s.inflight = (j, v) :: rest) (hk : s.inflight.any (·.1 = k) = false) :
    ([Ev.draw k, .store k, .store j].foldl step s).stored = s.stored ++ [s.num + 1, v] ∧ v < s.num + 1 := by
  have hv : v ≤ s.num := hd (j, v) (by rw [hin]; exact List.mem_cons_self)
  refine ⟨?_, Nat.lt_succ_of_le hv⟩
  have hne : (decide (j = k)) = false := by
    have := hk; rw [hin] at this
    simp only [List.any_cons, Bool.or_eq_false_iff] at this
    exact this.1
  simp only [List.foldl_cons, List.foldl_nil, step, hk, Bool.false_eq_true, if_false]
  simp only [List.find?_cons, decide_true, List.filter_cons, ne_eq, not_true_eq_false, decide_false,
    Bool.false_eq_true, if_false]
  rw [filter_ne_self s.inflight k hk, hin]
  simp [List.find?_cons]

/-- Calm is the weakest condition on draws: whenever a schedule contains a draw that is not calm — stream `k` draws
    while some other stream's refresh is in flight — it has a continuation in which the stored counters are not
    strictly increasing. (A stream that draws while its OWN refresh is in flight does not exist: it is sequential;
    the model makes that draw a no-op.) -/
theorem calm_is_weakest (evs : List Ev) (k : Nat) (h1 : (run evs).inflight ≠ [])
    (h2 : (run evs).inflight.any (·.1 = k) = false) :
    ∃ j, ¬ (run (evs ++ [.draw k, .store k, .store j])).stored.Pairwise (· < ·) := by
  cases hin : (run evs).inflight with
  | nil => exact absurd hin h1
  | cons x rest =>
    obtain ⟨j, v⟩ := x
    refine ⟨j, ?_⟩
    have h := overtake (run evs) (run_drawn evs) k j v rest hin h2
    have hr : run (evs ++ [.draw k, .store k, .store j]) = [Ev.draw k, .store k, .store j].foldl step (run evs) := by
      simp [run, List.foldl_append]
    rw [hr, h.1]
    intro hp
    rw [List.pairwise_append] at hp
    have := hp.2.1
    simp only [List.pairwise_cons, List.mem_singleton, forall_eq, List.not_mem_nil, false_imp_iff, implies_true,
      List.Pairwise.nil, and_true] at this
    omega

end Spine.HBC
