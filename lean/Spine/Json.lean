/-! Schema-directed model of encoding/json for the shapes of the spine data model (DESIGN appendix B.4);
    the generic round-trip theorem is in `Spine/JsonThm.lean`.

    Object keys / json names are `Key := Nat`: the bytes of the name read as a base-256 numeral (an
    injective coding, see `keyOfString` / `keyToString`). The regenerated schema (`Spine/Generated/Schema.lean`)
    has ~4 000 field names and `wf` compares them pairwise per struct; the kernel does that on `Nat`
    literals by GMP arithmetic in seconds, on `String`s not at all. -/
namespace Spine.Json

/-- a json name as a number: its bytes as a base-256 numeral (hex literal = ASCII text) -/
abbrev Key := Nat

def keyOfString (s : String) : Key := s.toUTF8.foldl (fun acc b => acc * 256 + b.toNat) 0

def keyBytes : Nat → Key → List UInt8 → List UInt8
  | 0, _, acc => acc
  | fuel + 1, k, acc => if k = 0 then acc else keyBytes fuel (k / 256) (UInt8.ofNat (k % 256) :: acc)

def keyToString (k : Key) : String :=
  match String.fromUTF8? (ByteArray.mk (keyBytes (k + 1) k []).toArray) with
  | some s => s
  | none => "?"

inductive Ty
  | str | num | bool
  | ptr (t : Ty)
  | slice (t : Ty)
  | struct (fs : List (Key × Bool × Ty))   -- json name, omitempty, type

inductive V
  | str (s : String) | num (n : Int) | bool (b : Bool)
  | nil | some (v : V) | list (vs : List V) | strct (fs : List V)
deriving Inhabited

inductive J
  | str (s : String) | num (n : Int) | bool (b : Bool) | null
  | arr (xs : List J) | obj (kvs : List (Key × J))
deriving Inhabited

def isEmptyV : V → Bool
  | .nil => true
  | .list [] => true
  | _ => false

mutual
def encode : Ty → V → J
  | .str, .str s => .str s
  | .num, .num n => .num n
  | .bool, .bool b => .bool b
  | .ptr _, .nil => .null
  | .ptr t, .some v => encode t v
  | .slice _, .nil => .null
  | .slice t, .list vs => .arr (encodeList t vs)
  | .struct fs, .strct vs => .obj (encodeFields fs vs)
  | _, _ => .null
def encodeList : Ty → List V → List J
  | _, [] => []
  | t, v :: vs => encode t v :: encodeList t vs
def encodeFields : List (Key × Bool × Ty) → List V → List (Key × J)
  | (name, oe, t) :: fs, v :: vs =>
    if oe && isEmptyV v then encodeFields fs vs else (name, encode t v) :: encodeFields fs vs
  | _, _ => []
end

def lookup (k : Key) : List (Key × J) → Option J
  | [] => none
  | (k', j) :: rest => if k = k' then some j else lookup k rest

mutual
def decode : Ty → J → Option V
  | .str, .str s => some (.str s)
  | .num, .num n => some (.num n)
  | .bool, .bool b => some (.bool b)
  | .ptr _, .null => some .nil
  | .ptr t, j => (decode t j).map .some
  | .slice _, .null => some .nil
  | .slice t, .arr xs => (decodeList t xs).map .list
  | .struct fs, .obj kvs => (decodeFields fs kvs).map .strct
  | _, _ => none
def decodeList : Ty → List J → Option (List V)
  | _, [] => some []
  | t, x :: xs => do let v ← decode t x; let vs ← decodeList t xs; pure (v :: vs)
def decodeFields : List (Key × Bool × Ty) → List (Key × J) → Option (List V)
  | [], _ => some []
  | (name, _, t) :: fs, kvs => do
    let v ← match lookup name kvs with
      | none => pure V.nil          -- absent: zero value of a pointer / slice field
      | some j => decode t j
    let vs ← decodeFields fs kvs
    pure (v :: vs)
end

/-- types whose encoding is never `null` -/
def nonNull : Ty → Bool
  | .ptr _ => false
  | .slice _ => false
  | _ => true

def nullable (t : Ty) : Bool := !nonNull t

/-- the json names of a struct's fields -/
def names (fs : List (Key × Bool × Ty)) : List Key := fs.map (·.1)

/-- pairwise distinct (kept outside the recursion over `Ty` and on plain `Nat`s: this is the quadratic
    part of `wf`, 29 000 comparisons for `FilterType`, and the kernel evaluates it on literals) -/
def namesDistinct : List Key → Bool
  | [] => true
  | k :: ks => !(ks.contains k) && namesDistinct ks

mutual
/-- well-formed schema: pointers point to non-nullable types, slice elements are non-nullable,
    `omitempty` only on pointer and slice fields (nullable types), json names distinct per struct -/
def wf : Ty → Bool
  | .str => true | .num => true | .bool => true
  | .ptr t => nonNull t && wf t
  | .slice t => nonNull t && wf t
  | .struct fs => namesDistinct (names fs) && wfFields fs
def wfFields : List (Key × Bool × Ty) → Bool
  | [] => true
  | (_, oe, t) :: fs => (!oe || nullable t) && wf t && wfFields fs
end

mutual
def typed : Ty → V → Bool
  | .str, .str _ => true
  | .num, .num _ => true
  | .bool, .bool _ => true
  | .ptr _, .nil => true
  | .ptr t, .some v => typed t v
  | .slice _, .nil => true
  | .slice t, .list vs => typedList t vs
  | .struct fs, .strct vs => typedFields fs vs
  | _, _ => false
def typedList : Ty → List V → Bool
  | _, [] => true
  | t, v :: vs => typed t v && typedList t vs
def typedFields : List (Key × Bool × Ty) → List V → Bool
  | [], [] => true
  | (_, _, t) :: fs, v :: vs => typed t v && typedFields fs vs
  | _, _ => false
end

mutual
/-- decoding does not distinguish an absent list from an empty one when the field is `omitempty` -/
def norm : Ty → V → V
  | .ptr t, .some v => .some (norm t v)
  | .slice t, .list vs => .list (normList t vs)
  | .struct fs, .strct vs => .strct (normFields fs vs)
  | _, v => v
def normList : Ty → List V → List V
  | _, [] => []
  | t, v :: vs => norm t v :: normList t vs
def normFields : List (Key × Bool × Ty) → List V → List V
  | (_, oe, t) :: fs, v :: vs => (if oe && isEmptyV v then V.nil else norm t v) :: normFields fs vs
  | _, _ => []
end

mutual
/-- equivalence of values up to "absent and empty lists are not distinguished" -/
def equivV : V → V → Bool
  | .str a, .str b => decide (a = b)
  | .num a, .num b => decide (a = b)
  | .bool a, .bool b => decide (a = b)
  | .nil, .nil => true
  | .nil, .list [] => true
  | .list [], .nil => true
  | .some a, .some b => equivV a b
  | .list as, .list bs => equivList as bs
  | .strct as, .strct bs => equivList as bs
  | _, _ => false
def equivList : List V → List V → Bool
  | [], [] => true
  | a :: as, b :: bs => equivV a b && equivList as bs
  | _, _ => false
end

end Spine.Json
