import Spine.Json
import Spine.Generated.Schema
/-! Lookups in the regenerated schema (G5), shared by the C18 property modules. -/
namespace Spine.Json
open Spine.Generated

def fieldsOf : Ty → List (Key × Bool × Ty)
  | .struct fs => fs
  | _ => []

/-- the schema of the Go struct type with the given name key -/
def schemaTy? (k : Key) : Option Ty := (schema.find? fun p => Nat.beq p.2.1 k).map (·.2.2)

end Spine.Json
