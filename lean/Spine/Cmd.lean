import Spine.Json
import Spine.Generated.Functions
import Spine.Generated.CmdTables
/-!
# Model.Cmd — the command builders and recognisers of spine-go as table lookups (C18)

Transcribes, over the REGENERATED tables `Spine.Generated.cmdFields` / `filterFields` / `functions`:

* `model.CmdType.SetDataForFunction`, `CmdType.Data`, `CmdType.ExtractFilter`      (model/commandframe_additions.go)
* `model.FilterType.SetDataForFunction`, `FilterType.Data`
* `spine.FunctionDataCmd.ReadCmdType`, `ReplyCmdType`, `NotifyOrWriteCmdType`,
  `filtersForSelectorsElements`, `createCmd`                                        (spine/function_data_cmd.go)

including their failure modes: no field whose tag matches ⇒ nothing is set and nothing is reported
(a selector or elements value is silently dropped); a value whose type is not the field's type ⇒ panic
(`reflect.Value.Set` / `Convert`).

Values (payload, selectors, elements) are a type parameter `α`: none of the functions inspects them, so
whatever is proved with tokens (`α := Nat`) is what happens to every value; what encoding and decoding
do to the values themselves is the generic theorem `Spine.Json.decode_encode` over the schema.

The wire is modelled at the level of object keys (`W α`): which json names are present in the `cmd`
object and in each `filter` object. That is exactly the part of `encoding/json`'s behaviour on
`CmdType` / `FilterType` that the tables determine; `Spine.Props.C18.c18_tables_match_schema` proves
that these key lists are the field names of the regenerated schema of the two structs.

Defect flag (DESIGN §4.7): `Cfg.deleteByRef` — `filtersForSelectorsElements` passes `&deleteSelector` /
`&deleteElements` (a `*interface{}`) to `SetDataForFunction`, whose `reflect.Value.Convert` then panics
(function_data_cmd.go:68,71). `asWritten` has the flag on, `clean` is the repaired member.
-/
namespace Spine.Cmd
open Spine.Json Spine.Generated

structure Cfg where
  deleteByRef : Bool
deriving Repr, DecidableEq

instance instDecidableEqExcept {ε α : Type} [DecidableEq ε] [DecidableEq α] : DecidableEq (Except ε α) := fun a b =>
  match a, b with
  | .ok x, .ok y => if h : x = y then isTrue (h ▸ rfl) else isFalse (fun e => h (Except.ok.inj e))
  | .error x, .error y => if h : x = y then isTrue (h ▸ rfl) else isFalse (fun e => h (Except.error.inj e))
  | .ok _, .error _ => isFalse (fun e => nomatch e)
  | .error _, .ok _ => isFalse (fun e => nomatch e)

def asWritten : Cfg := ⟨true⟩
def clean : Cfg := ⟨false⟩

/-- why a builder or recogniser panics -/
inductive Panic
  | cmdFieldType        -- CmdType.SetDataForFunction: value type ≠ type of the field the tag lookup found
  | filterFieldType     -- FilterType.SetDataForFunction: value type ≠ type of the field found
  | deleteByRef         -- …: the value is a `*interface{}` (the flagged defect)
  | noCmdControl        -- ExtractFilter dereferences a nil CmdControl
deriving Repr, DecidableEq

/-- a value together with the Go type it has (name key of the pointed-to type) -/
structure Typed (α : Type) where
  ty : Key
  val : α
deriving Repr, DecidableEq

/-- `model.FilterType`: the set pointer fields, ascending field index -/
structure Filter (α : Type) where
  ctl : Bool := true              -- CmdControl non-nil
  part : Bool := false         -- CmdControl.Partial non-nil
  delete : Bool := false          -- CmdControl.Delete non-nil
  set : List (Nat × α) := []      -- FilterType field index ↦ value (FilterId included, never set by the API)
deriving Repr, DecidableEq

/-- `model.CmdType` -/
structure Cmd (α : Type) where
  function : Option Key := none   -- `Function`; `some 0` is the empty string
  filter : List (Filter α) := []
  data : List (Nat × α) := []     -- every other non-nil pointer field: CmdType field index ↦ value, ascending
deriving Repr, DecidableEq

variable {α : Type}

def insertAt (i : Nat) (a : α) : List (Nat × α) → List (Nat × α)
  | [] => [(i, a)]
  | (j, b) :: rest =>
    if i < j then (i, a) :: (j, b) :: rest
    else if i = j then (i, a) :: rest
    else (j, b) :: insertAt i a rest

/-! ## tag lookups (the loops of the four reflection functions) -/

/-- the loop of `CmdType.SetDataForFunction`: first pointer field other than `Function`/`Filter` whose
    `fct` tag exists and equals the function -/
def cmdMatch (k : Key) (r : CmdRow) : Bool := Nat.beq r.fct k && (r.hasFct && (r.isPtr && !r.skipped))
def cmdFieldFor (k : Key) : Option CmdRow := cmdFields.find? (cmdMatch k)

/-- the loop of `FilterType.SetDataForFunction` (`typ`: 1 selector, 2 elements) -/
def filterMatch (typ : Nat) (k : Key) (r : FilterRow) : Bool :=
  Nat.beq r.fct k && (Nat.beq r.typ typ && (!Nat.beq r.typ 0 && (r.hasFct && (r.hasTyp && (r.isPtr && !r.skipped)))))
def filterFieldFor (typ : Nat) (k : Key) : Option FilterRow := filterFields.find? (filterMatch typ k)

def cmdRow? (i : Nat) : Option CmdRow := cmdFields.find? (fun r => Nat.beq r.idx i)
def filterRow? (i : Nat) : Option FilterRow := filterFields.find? (fun r => Nat.beq r.idx i)

/-- `CmdType.SetDataForFunction(fct, data)` for a typed non-nil pointer (a nil `*T` is `new(T)`: the
    caller passes the empty value) -/
def setCmdData (c : Cmd α) (k : Key) (d : Typed α) : Except Panic (Cmd α) :=
  match cmdFieldFor k with
  | none => .ok c                                   -- no tag names the function: nothing happens
  | some r => if r.ty == d.ty then .ok { c with data := insertAt r.idx d.val c.data } else .error .cmdFieldType

/-- `createCmd` -/
def createCmd (k : Key) (d : Typed α) : Except Panic (Cmd α) := setCmdData {} k d

/-- `FilterType.SetDataForFunction(tagType, fct, data)`; `byRef`: data is a `*interface{}` -/
def setFilterData (f : Filter α) (typ : Nat) (k : Key) (d : Typed α) (byRef : Bool) : Except Panic (Filter α) :=
  match filterFieldFor typ k with
  | none => .ok f                                   -- silently dropped
  | some r =>
    if byRef then .error .deleteByRef
    else if r.ty == d.ty then .ok { f with set := insertAt r.idx d.val f.set } else .error .filterFieldType

/-- `addSelectorToFilter` / `addElementToFilter` when a value is given -/
def addToFilter (typ : Nat) (k : Key) (byRef : Bool) (f : Filter α) : Option (Typed α) → Except Panic (Filter α)
  | some d => setFilterData f typ k d byRef
  | none => .ok f

/-- first half of `filtersForSelectorsElements`: the delete filter, if a delete selector or delete elements
    is given (the defect flag says whether their ADDRESS is passed on) -/
def deleteFilters (cfg : Cfg) (k : Key) (delSel delEl : Option (Typed α)) : Except Panic (List (Filter α)) :=
  if delSel.isSome || delEl.isSome then
    match addToFilter 1 k cfg.deleteByRef { delete := true } delSel with
    | .error e => .error e
    | .ok f =>
      match addToFilter 2 k cfg.deleteByRef f delEl with
      | .error e => .error e
      | .ok f => .ok [f]
  else .ok []

/-- second half: the partial filter, if a partial selector or read elements is given -/
def partialFilters (k : Key) (partSel readEl : Option (Typed α)) : Except Panic (List (Filter α)) :=
  if partSel.isSome || readEl.isSome then
    match addToFilter 1 k false { part := true } partSel with
    | .error e => .error e
    | .ok f =>
      match addToFilter 2 k false f readEl with
      | .error e => .error e
      | .ok f => .ok [f]
  else .ok []

/-- `filtersForSelectorsElements` (appends to `filters`; the delete filter is built first) -/
def filtersFor (cfg : Cfg) (k : Key) (filters : List (Filter α))
    (delSel partSel delEl readEl : Option (Typed α)) : Except Panic (List (Filter α)) :=
  match deleteFilters cfg k delSel delEl with
  | .error e => .error e
  | .ok d =>
    match partialFilters k partSel readEl with
    | .error e => .error e
    | .ok p => .ok (filters ++ d ++ p)

def filterEmptyPartial : List (Filter α) := [{ part := true }]

/-- `if len(filters) > 0 { cmd.Filter = filters; cmd.Function = … }` -/
def withFilters (cmd : Cmd α) (fn : Key) (filters : List (Filter α)) : Cmd α :=
  if filters.isEmpty then cmd else { cmd with filter := filters, function := some fn }

/-- `ReadCmdType(partialSelector, elements)`; `empty` is the encoding of `new(T)` -/
def readCmd (cfg : Cfg) (fn : FnRow) (empty : α) (sel el : Option (Typed α)) : Except Panic (Cmd α) :=
  match createCmd fn.key ⟨fn.payloadKey, empty⟩ with
  | .error e => .error e
  | .ok cmd =>
    match filtersFor cfg fn.key [] none sel none el with
    | .error e => .error e
    | .ok filters => .ok (withFilters cmd 0 filters)

/-- `ReplyCmdType(partial)`; `data` is the copy of the stored data (or `new(T)` when nothing is stored) -/
def replyCmd (fn : FnRow) (data : α) (part : Bool) : Except Panic (Cmd α) :=
  match createCmd fn.key ⟨fn.payloadKey, data⟩ with
  | .error e => .error e
  | .ok cmd => .ok (if part then { cmd with filter := filterEmptyPartial, function := some 0 } else cmd)

/-- `NotifyOrWriteCmdType(deleteSelector, partialSelector, partialWithoutSelector, deleteElements)` -/
def notifyOrWriteCmd (cfg : Cfg) (fn : FnRow) (data : α) (delSel partSel : Option (Typed α))
    (partialWithoutSelector : Bool) (delEl : Option (Typed α)) : Except Panic (Cmd α) :=
  match createCmd fn.key ⟨fn.payloadKey, data⟩ with
  | .error e => .error e
  | .ok cmd =>
    if partialWithoutSelector then
      .ok { cmd with filter := filterEmptyPartial, function := some fn.key }
    else
      match filtersFor cfg fn.key [] delSel partSel delEl none with
      | .error e => .error e
      | .ok filters => .ok (withFilters cmd fn.key filters)

/-! ## arguments of type `any` -/

/-- How a selectors / elements argument (Go type `any`) arrives: the untyped nil, a nil pointer of some
    type (what a wrapper forwarding a typed argument passes), or a pointer to a value. -/
inductive ArgForm (α : Type)
  | untypedNil
  | typedNil (ty : Key)
  | value (t : Typed α)

/-- `util.IsNil` as `filtersForSelectorsElements` uses it: both nil forms mean "absent". -/
def ArgForm.present : ArgForm α → Option (Typed α)
  | .untypedNil => none
  | .typedNil _ => none
  | .value t => some t

def readCmdAny (cfg : Cfg) (fn : FnRow) (empty : α) (sel el : ArgForm α) : Except Panic (Cmd α) :=
  readCmd cfg fn empty sel.present el.present

def notifyOrWriteCmdAny (cfg : Cfg) (fn : FnRow) (data : α) (delSel partSel : ArgForm α)
    (partialWithoutSelector : Bool) (delEl : ArgForm α) : Except Panic (Cmd α) :=
  notifyOrWriteCmd cfg fn data delSel.present partSel.present partialWithoutSelector delEl.present

/-! ## recognisers -/

structure CmdData (α : Type) where
  field : Nat                  -- index of the CmdType field (its Go name is `FieldName`)
  function : Option Key        -- nil for an empty `fct`
  ty : Key                     -- Go type of `Value`
  value : α
deriving Repr, DecidableEq

/-- `CmdType.Data`: the first non-nil pointer field other than `Function`/`Filter` that has an `fct` tag -/
def cmdData (c : Cmd α) : Option (CmdData α) :=
  c.data.findSome? fun (i, a) =>
    match cmdRow? i with
    | some r => if r.isPtr && !r.skipped && r.hasFct then
        some ⟨i, if r.fct == 0 then none else some r.fct, r.ty, a⟩ else none
    | none => none

structure FilterData (α : Type) where
  function : Key
  selector : Option (Typed α)
  elements : Option (Typed α)
deriving Repr, DecidableEq

def filterDataStep (acc : Key × Option (Typed α) × Option (Typed α)) (p : Nat × α) :
    Key × Option (Typed α) × Option (Typed α) :=
  match filterRow? p.1 with
  | some r =>
    if r.isPtr && !r.skipped && r.hasFct && r.fct != 0 && r.hasTyp && r.typ != 0 then
      (r.fct, (if r.typ == 1 then some ⟨r.ty, p.2⟩ else acc.2.1), (if r.typ == 2 then some ⟨r.ty, p.2⟩ else acc.2.2))
    else acc
  | none => acc

/-- `FilterType.Data`: every non-nil tagged field; the last one decides `function`; error when none -/
def filterData (f : Filter α) : Option (FilterData α) :=
  let r := f.set.foldl filterDataStep (0, none, none)
  if r.1 == 0 then none else some ⟨r.1, r.2.1, r.2.2⟩

def extractStep (acc : Except Panic (Option (Filter α) × Option (Filter α))) (f : Filter α) :
    Except Panic (Option (Filter α) × Option (Filter α)) :=
  match acc with
  | .error e => .error e
  | .ok (p, d) =>
    if !f.ctl then .error .noCmdControl
    else if f.part then .ok (some f, d)
    else if f.delete then .ok (p, some f)
    else .ok (p, d)

/-- `CmdType.ExtractFilter` -/
def extractFilter (c : Cmd α) : Except Panic (Option (Filter α) × Option (Filter α)) :=
  c.filter.foldl extractStep (.ok (none, none))

/-! ## the wire at the level of object keys -/

inductive W (α : Type)
  | val (a : α)                       -- an encoded payload / selectors / elements value (opaque here)
  | name (k : Key)                    -- a string value (the function name), as its key
  | obj (kvs : List (Key × W α))
  | arr (xs : List (W α))

def keyPartial : Key := 0x7061727469616c      -- "partial"
def keyDelete : Key := 0x64656c657465         -- "delete"
def keyCmdControlType : Key := 0x436d64436f6e74726f6c54797065   -- "CmdControlType"

def functionRow? : Option CmdRow := cmdFields.find? fun r => r.skipped && r.isPtr
def filterSliceRow? : Option CmdRow := cmdFields.find? fun r => r.skipped && !r.isPtr
def ctlRow? : Option FilterRow := filterFields.find? fun r => r.skipped && r.ty == keyCmdControlType

def jsonOfCmdIdx (i : Nat) : Key := match cmdRow? i with | some r => r.json | none => 0
def jsonOfFilterIdx (i : Nat) : Key := match filterRow? i with | some r => r.json | none => 0

def lookupW (k : Key) : List (Key × W α) → Option (W α)
  | [] => none
  | (k', w) :: rest => if Nat.beq k k' then some w else lookupW k rest

/-- encoding/json on a `FilterType`: the non-nil fields in field order, under their json names -/
def encodeFilter (f : Filter α) : W α :=
  let ctl : List (Key × W α) :=
    if f.ctl then
      [((match ctlRow? with | some r => r.json | none => 0),
        W.obj ((if f.delete then [(keyDelete, W.obj [])] else []) ++ (if f.part then [(keyPartial, W.obj [])] else [])))]
    else []
  -- FilterId (index 0) precedes CmdControl (index 1); everything else follows
  W.obj ((f.set.filter fun p => Nat.beq p.1 0).map (fun p => (jsonOfFilterIdx p.1, W.val p.2)) ++ ctl ++
         (f.set.filter fun p => !Nat.beq p.1 0).map (fun p => (jsonOfFilterIdx p.1, W.val p.2)))

/-- encoding/json on a `CmdType` -/
def encodeCmd (c : Cmd α) : W α :=
  W.obj ((match c.function with
            | some k => [((match functionRow? with | some r => r.json | none => 0), W.name k)]
            | none => []) ++
         (if c.filter.isEmpty then [] else
            [((match filterSliceRow? with | some r => r.json | none => 0), W.arr (c.filter.map encodeFilter))]) ++
         c.data.map (fun p => (jsonOfCmdIdx p.1, W.val p.2)))

def cmdRowByJson? (k : Key) : Option CmdRow := cmdFields.find? (fun r => Nat.beq r.json k)
def filterRowByJson? (k : Key) : Option FilterRow := filterFields.find? (fun r => Nat.beq r.json k)

/-- encoding/json's object decoder goes through the KEYS of the object and looks up the field of each;
    unknown keys are ignored -/
def decodeFilterStep (f : Filter α) (kv : Key × W α) : Filter α :=
  match filterRowByJson? kv.1 with
  | none => f
  | some r =>
    if r.skipped && Nat.beq r.ty keyCmdControlType then
      match kv.2 with
      | .obj cs => { f with ctl := true, part := (lookupW keyPartial cs).isSome, delete := (lookupW keyDelete cs).isSome }
      | _ => f
    else if r.isPtr then
      match kv.2 with
      | .val a => { f with set := insertAt r.idx a f.set }
      | _ => f
    else f

def decodeFilter : W α → Option (Filter α)
  | .obj kvs => some (kvs.foldl decodeFilterStep { ctl := false })
  | _ => none

def decodeFilters : List (W α) → Option (List (Filter α))
  | [] => some []
  | w :: ws => match decodeFilter w, decodeFilters ws with
    | some f, some fs => some (f :: fs)
    | _, _ => none

def decodeCmdStep (c : Option (Cmd α)) (kv : Key × W α) : Option (Cmd α) :=
  match c with
  | none => none
  | some c =>
    match cmdRowByJson? kv.1 with
    | none => some c
    | some r =>
      if r.skipped then
        if r.isPtr then (match kv.2 with | .name k => some { c with function := some k } | _ => some c)
        else (match kv.2 with
          | .arr ws => (decodeFilters ws).map fun fs => { c with filter := fs }
          | _ => some c)
      else if r.isPtr then (match kv.2 with | .val a => some { c with data := insertAt r.idx a c.data } | _ => some c)
      else some c

def decodeCmd : W α → Option (Cmd α)
  | .obj kvs => kvs.foldl decodeCmdStep (some {})
  | _ => none

/-! ## the nine command shapes of the property, plus the six combinations the API also allows: together every
    way of calling the three builders in which an argument is not ignored (see `CmdGrid.lean`) -/

inductive Shape
  | read | readSel | readEl | reply | full | part | partSel | delSel | delEl
  | readSelEl | replyPartial | delSelPartSel
  | partSelDelEl | delSelDelEl | delSelPartSelDelEl
deriving Repr, DecidableEq

def Shape.nine : List Shape := [.read, .readSel, .readEl, .reply, .full, .part, .partSel, .delSel, .delEl]
def Shape.all : List Shape := Shape.nine ++ [.readSelEl, .replyPartial, .delSelPartSel,
  .partSelDelEl, .delSelDelEl, .delSelPartSelDelEl]

def Shape.usesSel : Shape → Bool
  | .readSel | .partSel | .delSel | .readSelEl | .delSelPartSel => true
  | .partSelDelEl | .delSelDelEl | .delSelPartSelDelEl => true
  | _ => false
def Shape.usesEl : Shape → Bool
  | .readEl | .delEl | .readSelEl => true
  | .partSelDelEl | .delSelDelEl | .delSelPartSelDelEl => true
  | _ => false
def Shape.usesDelete : Shape → Bool
  | .delSel | .delEl | .delSelPartSel => true
  | .partSelDelEl | .delSelDelEl | .delSelPartSelDelEl => true
  | _ => false

def expectRow? (fn : FnRow) : Option ExpectRow := filterExpect.find? (fun e => Nat.beq e.fn fn.key)

/-- Go type of the selectors value the data model provides for the function -/
def selTy? (fn : FnRow) : Option Key :=
  match expectRow? fn with
  | some e => (match e.sel with | some i => (filterRow? i).map (·.ty) | none => none)
  | none => none
def elTy? (fn : FnRow) : Option Key :=
  match expectRow? fn with
  | some e => (match e.el with | some i => (filterRow? i).map (·.ty) | none => none)
  | none => none

/-- a shape applies to a function when the data model defines the selectors / elements type it needs -/
def applicable (fn : FnRow) (sh : Shape) : Bool :=
  (!sh.usesSel || (selTy? fn).isSome) && (!sh.usesEl || (elTy? fn).isSome)

/-- the values a command is built from -/
structure Args (α : Type) where
  empty : α      -- encoding of new(T)
  data : α       -- the function's data (reply, notify, write)
  sel : α
  el : α
  sel2 : α       -- second selector of `delSelPartSel`

/-- the command the API builds for a function and a shape -/
def build (cfg : Cfg) (fn : FnRow) (sh : Shape) (a : Args α) : Except Panic (Cmd α) :=
  let sel : Option (Typed α) := (selTy? fn).map (⟨·, a.sel⟩)
  let sel2 : Option (Typed α) := (selTy? fn).map (⟨·, a.sel2⟩)
  let el : Option (Typed α) := (elTy? fn).map (⟨·, a.el⟩)
  match sh with
  | .read => readCmd cfg fn a.empty none none
  | .readSel => readCmd cfg fn a.empty sel none
  | .readEl => readCmd cfg fn a.empty none el
  | .readSelEl => readCmd cfg fn a.empty sel el
  | .reply => replyCmd fn a.data false
  | .replyPartial => replyCmd fn a.data true
  | .full => notifyOrWriteCmd cfg fn a.data none none false none
  | .part => notifyOrWriteCmd cfg fn a.data none none true none
  | .partSel => notifyOrWriteCmd cfg fn a.data none sel false none
  | .delSel => notifyOrWriteCmd cfg fn a.data sel none false none
  | .delEl => notifyOrWriteCmd cfg fn a.data none none false el
  | .delSelPartSel => notifyOrWriteCmd cfg fn a.data sel sel2 false none
  | .partSelDelEl => notifyOrWriteCmd cfg fn a.data none sel false el
  | .delSelDelEl => notifyOrWriteCmd cfg fn a.data sel none false el
  | .delSelPartSelDelEl => notifyOrWriteCmd cfg fn a.data sel sel2 false el

/-- what the receiving side recognises (`CmdType.Data`, `ExtractFilter`, `FilterType.Data`) -/
structure Recognised (α : Type) where
  function : Option Key                                   -- `CmdData.Function`
  payloadTy : Key                                         -- Go type of `CmdData.Value`
  payload : α
  part : Option (Option (Typed α) × Option (Typed α))  -- partial filter: (selector, elements)
  delete : Option (Option (Typed α) × Option (Typed α))
deriving Repr, DecidableEq

def filterPair (f : Filter α) : Option (Typed α) × Option (Typed α) :=
  match filterData f with
  | some d => (d.selector, d.elements)
  | none => (none, none)

/-- a filter that carries a selector or elements names a function; it must be the command's -/
def filterFunctionOk (k : Key) (f : Option (Filter α)) : Bool :=
  match f with
  | some f => (match filterData f with | some d => d.function == k | none => true)
  | none => true

def recognise (c : Cmd α) : Except Panic (Option (Recognised α)) :=
  match extractFilter c with
  | .error e => .error e
  | .ok (p, d) =>
    match cmdData c with
    | none => .ok none
    | some cd =>
      if (match cd.function with | some k => filterFunctionOk k p && filterFunctionOk k d | none => true) then
        .ok (some ⟨cd.function, cd.ty, cd.value, p.map filterPair, d.map filterPair⟩)
      else .ok none

/-- SPEC: what the property demands to be recognised for a function, a shape and the values -/
def expected (fn : FnRow) (sh : Shape) (a : Args α) : Recognised α :=
  let sel : Option (Typed α) := (selTy? fn).map (⟨·, a.sel⟩)
  let sel2 : Option (Typed α) := (selTy? fn).map (⟨·, a.sel2⟩)
  let el : Option (Typed α) := (elTy? fn).map (⟨·, a.el⟩)
  let r : Recognised α := ⟨some fn.key, fn.payloadKey, a.data, none, none⟩
  match sh with
  | .read => { r with payload := a.empty }
  | .readSel => { r with payload := a.empty, part := some (sel, none) }
  | .readEl => { r with payload := a.empty, part := some (none, el) }
  | .readSelEl => { r with payload := a.empty, part := some (sel, el) }
  | .reply => r
  | .replyPartial => { r with part := some (none, none) }
  | .full => r
  | .part => { r with part := some (none, none) }
  | .partSel => { r with part := some (sel, none) }
  | .delSel => { r with delete := some (sel, none) }
  | .delEl => { r with delete := some (none, el) }
  | .delSelPartSel => { r with delete := some (sel, none), part := some (sel2, none) }
  | .partSelDelEl => { r with delete := some (none, el), part := some (sel, none) }
  | .delSelDelEl => { r with delete := some (sel, el) }
  | .delSelPartSelDelEl => { r with delete := some (sel, el), part := some (sel2, none) }

/-- build, encode, decode, recognise -/
def roundtrip (cfg : Cfg) (fn : FnRow) (sh : Shape) (a : Args α) : Except Panic (Option (Recognised α)) :=
  match build cfg fn sh a with
  | .error e => .error e
  | .ok c =>
    match decodeCmd (encodeCmd c) with
    | none => .ok none
    | some c' => recognise c'

/-! ## tag coherence per function -/

/-- the code's own lookup finds the field the data model provides for the function's selectors -/
def selectorTagOk (fn : FnRow) : Bool :=
  match expectRow? fn with
  | some e => (match e.sel with
    | some i => (filterFieldFor 1 fn.key).map (·.idx) == some i
    | none => true)
  | none => false
def elementsTagOk (fn : FnRow) : Bool :=
  match expectRow? fn with
  | some e => (match e.el with
    | some i => (filterFieldFor 2 fn.key).map (·.idx) == some i
    | none => true)
  | none => false

/-- the function has a row in the regenerated list of failing tags -/
def selFailing (fn : FnRow) : Bool := tagFailing.any fun r => r.1 == fn.key && r.2.1 == 1
def elFailing (fn : FnRow) : Bool := tagFailing.any fun r => r.1 == fn.key && r.2.1 == 2

/-- a shape whose selector / elements would hit a failing tag row of the function -/
def tagBad (fn : FnRow) (sh : Shape) : Bool := (sh.usesSel && selFailing fn) || (sh.usesEl && elFailing fn)

/-- tokens for `decide`: five distinct values -/
def tok : Args Nat := ⟨0, 1, 2, 3, 4⟩

end Spine.Cmd
