import Spine.UpdateThm
import Spine.SortThm
namespace Spine

theorem keyed_updateFields (sh : Shape) (a b : Item) (hb : Keyed sh b) : Keyed sh (updateFields sh false a b) := by
  intro k hk
  have ⟨h1, h2⟩ := hb k hk
  refine ⟨h1, ?_⟩
  have hlt : k.1 < b.length := by
    rcases Nat.lt_or_ge k.1 b.length with h | h
    · exact h
    · rw [get_none_of_ge b k.1 h] at h2; simp at h2
  rw [merge_local_overlay sh a b k.1 hlt]
  cases hg : b.get k.1 with
  | none => rw [hg] at h2; simp at h2
  | some v => rfl

theorem keyed_merge (sh : Shape) (s1 s2 : List Item) (h1 : ∀ a ∈ s1, Keyed sh a) (h2 : ∀ b ∈ s2, Keyed sh b) :
    ∀ x ∈ (merge sh false s1 s2).1, Keyed sh x := by
  intro x hx
  simp only [merge, Bool.false_eq_true, if_false, List.mem_append, List.mem_map, List.mem_filter] at hx
  rcases hx with ⟨a, ha, rfl⟩ | ⟨hx, _⟩
  · unfold mergeItem
    cases hl : lookupLast sh (hashKey sh a) s2 with
    | none => exact h1 a ha
    | some b =>
      simp only [Bool.not_false, Bool.true_or, if_true]
      exact keyed_updateFields sh a b (h2 b (lookupLast_mem sh _ s2 b hl).1)
  · exact h2 x hx

theorem hasIdentifiers_of_keyed (sh : Shape) (b : Item) (h : Keyed sh b) : hasIdentifiers sh b = true := by
  simp only [hasIdentifiers, List.all_eq_true]
  intro k hk
  exact (h k hk).2

/-- C02, partial update without selector (the merge path): if the stored list and the update carry complete,
    pairwise distinct numeric identifiers, so does the result, and it is ordered by identifier -/
theorem c02_merge_unique_sorted (sh : Shape) (hne : sh.keys.isEmpty = false) (s1 s2 : List Item)
    (hk1 : ∀ a ∈ s1, Keyed sh a) (hk2 : ∀ b ∈ s2, Keyed sh b)
    (hn1 : (s1.map (hashKey sh)).Nodup) (hn2 : (s2.map (hashKey sh)).Nodup) :
    let out := sortData sh (merge sh false s1 s2).1
    (out.map (hashKey sh)).Nodup ∧ Sorted sh out ∧ ∀ x ∈ out, Keyed sh x := by
  intro out
  have hperm : out.Perm (merge sh false s1 s2).1 := sortData_perm sh _
  have hkm := keyed_merge sh s1 s2 hk1 hk2
  refine ⟨?_, sortData_sorted sh _ hne hkm, fun x hx => hkm x (hperm.subset hx)⟩
  have hnd := merge_local_nodup sh s1 s2 hn1 hn2 (fun b hb => hasIdentifiers_of_keyed sh b (hk2 b hb))
  exact (hperm.map _).nodup_iff.mpr hnd

end Spine
