import Spine.RegObj
/-! C08, duplicate check with object identity: the region in which the code as written (comparison of the feature
    objects by `reflect.DeepEqual`) still keeps the pairs distinct — histories without a repeated announcement. -/
namespace Spine.RegObj

def Ev.isReannounce : Ev → Bool
  | .reannounce .. => true
  | _ => false

/-- without re-announcement nobody ever gets a new generation: every object is of generation 0 -/
def Gen0 (s : St) : Prop := s.gens = [] ∧ ∀ e ∈ s.subs, e.obj.gen = 0

theorem genOf_of_nil (s : St) (h : s.gens = []) (p e : Nat) : genOf s p e = 0 := by
  simp [genOf, h]

theorem touch_gen (p : Nat) (c : FAddr) (g v : Nat) (e : Entry) : (touch p c g v e).obj.gen = e.obj.gen := by
  unfold touch
  split
  · rename_i h
    simp only [Bool.and_eq_true, decide_eq_true_eq] at h
    exact h.2.symm
  · rfl

theorem step_gen0 (b : Bool) (s : St) (h : Gen0 s) (ev : Ev) (hn : ev.isReannounce = false) : Gen0 (step b s ev) := by
  cases ev with
  | sub p c sv =>
    simp only [step]
    split
    · exact h
    · refine ⟨h.1, ?_⟩
      intro e he
      rcases List.mem_append.mp he with he | he
      · exact h.2 e he
      · simp only [List.mem_singleton] at he
        subst he
        exact genOf_of_nil s h.1 p c.1
  | unsub p c sv =>
    exact ⟨h.1, fun e he => h.2 e (List.mem_filter.mp he).1⟩
  | data p c v =>
    refine ⟨h.1, ?_⟩
    intro e he
    simp only [step] at he
    obtain ⟨e', he', rfl⟩ := List.mem_map.mp he
    rw [touch_gen]
    exact h.2 e' he'
  | reannounce p e => simp [Ev.isReannounce] at hn

theorem step_pairs_gen0 (s : St) (hg : Gen0 s) (h : (pairs s).Nodup) (ev : Ev) : (pairs (step true s ev)).Nodup := by
  cases ev with
  | sub p c sv =>
    simp only [step]
    split
    · exact h
    · rename_i hnd
      simp only [pairs, List.map_append, List.map_cons, List.map_nil] at h ⊢
      rw [List.nodup_append]
      refine ⟨h, by simp, ?_⟩
      intro a ha b hb
      simp only [List.mem_singleton] at hb; subst hb
      obtain ⟨e, he, rfl⟩ := List.mem_map.mp ha
      intro heq
      apply hnd
      rw [List.any_eq_true]
      refine ⟨e, he, ?_⟩
      simp only [Prod.mk.injEq] at heq
      have hgen : e.obj.gen = (curObj s p c).gen := by
        rw [hg.2 e he]
        exact (genOf_of_nil s hg.1 p c.1).symm
      simp [isDup, deepEq, heq.1, heq.2.1, heq.2.2, hgen]
  | unsub p c sv =>
    simp only [step, pairs] at h ⊢
    exact (List.filter_sublist.map _).nodup h
  | data p c v =>
    simp only [step, pairs] at h ⊢
    rw [pairs_map_touch]
    exact h
  | reannounce p e => exact h

/-- C08, the code as written, partial: under every history of requests, deletions and data *without a repeated
    announcement* no pair is subscribed twice -/
theorem pairs_nodup_no_reannounce (evs : List Ev) (hn : ∀ e ∈ evs, e.isReannounce = false) :
    (pairs (run true evs)).Nodup := by
  unfold run
  suffices ∀ s : St, Gen0 s → (pairs s).Nodup → (pairs (evs.foldl (step true) s)).Nodup from
    this {} ⟨rfl, by simp⟩ (by simp [pairs])
  induction evs with
  | nil => intro s _ h; exact h
  | cons e es ih =>
    intro s hg h
    exact ih (fun e' he' => hn e' (List.mem_cons_of_mem _ he')) _
      (step_gen0 true s hg e (hn e List.mem_cons_self)) (step_pairs_gen0 s hg h e)

/-- … hence at most one notification per pair and change there -/
theorem fanout_once_no_reannounce (evs : List Ev) (hn : ∀ e ∈ evs, e.isReannounce = false) (sv : FAddr) :
    (fanout (run true evs) sv).Nodup := by
  have h := pairs_nodup_no_reannounce evs hn
  unfold pairs at h
  unfold fanout
  generalize (run true evs).subs = l at h ⊢
  induction l with
  | nil => simp
  | cons e l ih =>
    simp only [List.map_cons, List.nodup_cons] at h
    simp only [List.filter_cons]
    split
    · rename_i hs
      have hs' : e.server = sv := by simpa using hs
      simp only [List.map_cons, List.nodup_cons]
      refine ⟨?_, ih h.2⟩
      intro hm
      obtain ⟨e', he', heq⟩ := List.mem_map.mp hm
      have he'' := List.mem_filter.mp he'
      have hs'' : e'.server = sv := by simpa using he''.2
      apply h.1
      refine List.mem_map.mpr ⟨e', he''.1, ?_⟩
      simp only [Prod.mk.injEq] at heq
      simp [hs', hs'', heq.1, heq.2]
    · exact ih h.2

end Spine.RegObj
