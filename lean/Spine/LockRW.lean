import Spine.Lock
import Spine.LockTables
/-!
# Reader/writer locks in the deadlock model (C17)

`Spine.Lock` knows one kind of hold. Go's `sync.RWMutex` has two, and its blocking rule is not
"blocked while somebody holds it": an `RLock` also waits while a writer is QUEUED (writer
preference). That is what makes recursive read-locking deadlock — a goroutine that holds `RLock m`
and asks for `RLock m` again blocks forever as soon as another goroutine has called `Lock m` in
between, although no thread holds `m` exclusively.

This module states the blocking rule of `sync.Mutex` / `sync.RWMutex` (`blockedBy`), defines the
deadlocked states of that finer model (`Deadlocked`: a non-empty set of threads each blocked by a
member of the set) and proves that forgetting the modes (`abs`: held = exclusive ++ shared, waiting
for the mutex in either mode) maps every such state to a `Lock.Deadlocked` state. Hence the ranked
edge table excludes reader/writer deadlocks too, provided the edges were extracted with a shared
acquisition counted as an acquisition and a shared hold as a hold — which is how `go/lockgraph`
extracts them, and what the dynamic cross-check observes (`Spine.LockObs`).

Hand-written, independent of the generated tables, core Lean only.
-/
namespace Spine.LockRW
open Spine Spine.LockTables

/-- what a thread asks for -/
inductive Want
  | lock (m : Nat)   -- Mutex.Lock / RWMutex.Lock
  | rlock (m : Nat)  -- RWMutex.RLock
deriving DecidableEq, Repr

def Want.mutex : Want → Nat
  | .lock m => m
  | .rlock m => m

structure Thr where
  wheld : List Nat          -- held exclusively
  rheld : List Nat          -- held in shared mode
  waiting : Option Want
deriving Repr

/-- `t'` is a reason why `t` cannot proceed (Go's rule): a `Lock` waits for every holder in either
    mode; an `RLock` waits for an exclusive holder and for every QUEUED writer -/
def blockedBy (t t' : Thr) : Prop :=
  match t.waiting with
  | some (.lock m) => m ∈ t'.wheld ∨ m ∈ t'.rheld
  | some (.rlock m) => m ∈ t'.wheld ∨ t'.waiting = some (.lock m)
  | none => False

instance (t t' : Thr) : Decidable (blockedBy t t') := by
  unfold blockedBy
  cases t.waiting with
  | none => infer_instance
  | some w => cases w <;> infer_instance

/-- a non-empty set of threads each of which is blocked by a member of the set: none of them can
    ever proceed, whatever the other threads do -/
def Deadlocked (thrs : List Thr) : Prop :=
  ∃ D : List Thr, D ≠ [] ∧ (∀ t ∈ D, t ∈ thrs) ∧ ∀ t ∈ D, ∃ t' ∈ D, blockedBy t t'

/-- forget the modes -/
def abs (t : Thr) : Lock.Thr := ⟨t.wheld ++ t.rheld, t.waiting.map Want.mutex⟩

/-- in a deadlocked set every member waits for a mutex that a member HOLDS (in some mode): directly,
    or — a reader behind a queued writer — because that writer in turn waits for a holder -/
theorem holder_in_set (D : List Thr) (hD : ∀ t ∈ D, ∃ t' ∈ D, blockedBy t t') :
    ∀ t ∈ D, ∃ m, (abs t).waiting = some m ∧ ∃ t' ∈ D, m ∈ (abs t').held := by
  intro t ht
  obtain ⟨t', ht', hb⟩ := hD t ht
  unfold blockedBy at hb
  cases hw : t.waiting with
  | none => rw [hw] at hb; exact absurd hb id
  | some w =>
    rw [hw] at hb
    cases w with
    | lock m =>
      refine ⟨m, by simp [abs, hw, Want.mutex], t', ht', ?_⟩
      simp only [abs, List.mem_append]; exact hb
    | rlock m =>
      refine ⟨m, by simp [abs, hw, Want.mutex], ?_⟩
      rcases hb with hx | hq
      · exact ⟨t', ht', by simp only [abs, List.mem_append]; exact Or.inl hx⟩
      · -- the queued writer t' is itself blocked by a holder of m
        obtain ⟨t'', ht'', hb'⟩ := hD t' ht'
        unfold blockedBy at hb'
        rw [hq] at hb'
        exact ⟨t'', ht'', by simp only [abs, List.mem_append]; exact hb'⟩

/-- **Refinement.** Every deadlocked state of the reader/writer model is, with the modes forgotten,
    a deadlocked state of the plain model. -/
theorem deadlocked_abs (thrs : List Thr) (h : Deadlocked thrs) : Lock.Deadlocked (thrs.map abs) := by
  obtain ⟨D, hne, hsub, hD⟩ := h
  refine ⟨D.map abs, by simpa using hne, ?_, ?_⟩
  · intro a ha
    obtain ⟨t, ht, rfl⟩ := List.mem_map.mp ha
    exact List.mem_map.mpr ⟨t, hsub t ht, rfl⟩
  · intro a ha
    obtain ⟨t, ht, rfl⟩ := List.mem_map.mp ha
    obtain ⟨m, hm, t', ht', hh⟩ := holder_in_set D hD t ht
    exact ⟨m, hm, abs t', List.mem_map.mpr ⟨t', ht', rfl⟩, hh⟩

/-- ranked edges exclude reader/writer deadlock in every state whose mode-forgetting image respects
    the edges (a shared acquisition counts as an acquisition, a shared hold as a hold) -/
theorem ranked_edges_no_rw_deadlock (rank : Nat → Nat) (edges : List (Nat × Nat))
    (hr : Ranked rank edges) (thrs : List Thr) (he : RespectsEdges edges (thrs.map abs)) :
    ¬ Deadlocked thrs :=
  fun h => ranked_edges_no_deadlock rank edges hr _ he (deadlocked_abs thrs h)

/-- a thread that asks for a mutex it already holds — in ANY combination of modes: Lock in Lock,
    Lock in RLock (upgrade), RLock in Lock, RLock in RLock (recursive read lock) — respects an edge
    table only if the table has the self-edge -/
theorem reacquire_needs_self_edge (edges : List (Nat × Nat)) (t : Thr) (w : Want)
    (hw : t.waiting = some w) (hh : w.mutex ∈ t.wheld ∨ w.mutex ∈ t.rheld)
    (hr : thrRespects edges (abs t)) : (w.mutex, w.mutex) ∈ edges := by
  unfold thrRespects at hr
  simp only [abs, hw, Option.map_some] at hr
  exact hr _ (by simp only [List.mem_append]; exact hh)

/-- a ranked table has no self-edge -/
theorem ranked_no_self_edge (rank : Nat → Nat) (edges : List (Nat × Nat)) (hr : Ranked rank edges) :
    ∀ e ∈ edges, e.1 ≠ e.2 := by
  intro e he heq
  have := hr e he
  rw [heq] at this
  exact Nat.lt_irrefl _ this

/-- hence no thread of a state that respects a ranked table ever asks for a mutex it holds -/
theorem ranked_no_reacquire (rank : Nat → Nat) (edges : List (Nat × Nat)) (hr : Ranked rank edges)
    (thrs : List Thr) (he : RespectsEdges edges (thrs.map abs)) :
    ∀ t ∈ thrs, ∀ w, t.waiting = some w → w.mutex ∉ t.wheld ∧ w.mutex ∉ t.rheld := by
  intro t ht w hw
  have hr' := he (abs t) (List.mem_map.mpr ⟨t, ht, rfl⟩)
  have hno := ranked_no_self_edge rank edges hr
  constructor
  · intro h
    exact hno _ (reacquire_needs_self_edge edges t w hw (Or.inl h) hr') rfl
  · intro h
    exact hno _ (reacquire_needs_self_edge edges t w hw (Or.inr h) hr') rfl

/-! ## the recursive read lock -/

/-- goroutine A holds `RLock 1` and asks for `RLock 1` again; goroutine W has called `Lock 1` -/
def recursiveRLock : List Thr := [⟨[], [1], some (.rlock 1)⟩, ⟨[], [], some (.lock 1)⟩]

/-- … is deadlocked in the reader/writer model although nobody holds the mutex exclusively -/
theorem recursiveRLock_deadlocked : Deadlocked recursiveRLock := by
  refine ⟨recursiveRLock, by simp [recursiveRLock], fun _ h => h, ?_⟩
  intro t ht
  simp only [recursiveRLock, List.mem_cons, List.not_mem_nil, or_false] at ht
  rcases ht with rfl | rfl
  · exact ⟨⟨[], [], some (.lock 1)⟩, by simp [recursiveRLock], by simp [blockedBy]⟩
  · exact ⟨⟨[], [1], some (.rlock 1)⟩, by simp [recursiveRLock], by simp [blockedBy]⟩

/-- without the queued writer the second RLock is not blocked: the plain "somebody holds it" rule
    would wrongly call this state deadlocked only through the self-wait, the finer model does not -/
theorem reader_alone_not_deadlocked : ¬ Deadlocked [⟨[], [1], some (.rlock 1)⟩] := by
  rintro ⟨D, hne, hsub, hD⟩
  cases D with
  | nil => exact hne rfl
  | cons t D =>
    obtain ⟨t', ht', hb⟩ := hD t List.mem_cons_self
    have e1 := hsub t List.mem_cons_self
    have e2 := hsub t' ht'
    simp only [List.mem_cons, List.not_mem_nil, or_false] at e1 e2
    subst e1; subst e2
    simp [blockedBy] at hb

end Spine.LockRW
