import Spine.DiscoveryEvents
import Spine.DiscoveryPartial
/-! C06, repaired member, events of partial notifications: an entity-added event exactly when an entry makes an unknown
    address known, an entity-removed event exactly when an entry makes a known address unknown — counted per address
    along the per-address specification `applyTo`. -/
namespace Spine.Disc

/-- SPEC: how often address `a` appears / disappears while the entries are applied in order -/
def appearances (a : List Nat) : Bool → List EI → Nat × Nat
  | _, [] => (0, 0)
  | known, ei :: l =>
    ((appearances a (applyTo a known ei) l).1 + (if (!known && applyTo a known ei) then 1 else 0),
     (appearances a (applyTo a known ei) l).2 + (if (known && !applyTo a known ei) then 1 else 0))

theorem count_add_step (m : Msg) (acc : Tree × List Evt) (ei : EI) (a : List Nat) :
    (stepFixed m acc ei).2.count (.add a) = acc.2.count (.add a) +
      (if (!decide (a ∈ addrs acc.1) && applyTo a (decide (a ∈ addrs acc.1)) ei) then 1 else 0) := by
  unfold stepFixed applyTo
  cases hc : ei.chg with
  | added =>
    simp only [count_add_addOne]
    by_cases ha : ei.addr = a <;> by_cases hk : a ∈ addrs acc.1
    · subst ha; simp [hk]
    · subst ha; simp [hk]
    · have : ¬ a = ei.addr := fun h => ha h.symm
      simp [ha, hk, this]
    · have : ¬ a = ei.addr := fun h => ha h.symm
      simp [ha, hk, this]
  | removed =>
    simp only [count_add_remOne]
    by_cases ha : ei.addr = a <;> by_cases hk : a ∈ addrs acc.1 <;> simp [ha, hk]
  | none => by_cases ha : ei.addr = a <;> by_cases hk : a ∈ addrs acc.1 <;> simp [ha, hk]

theorem count_rem_step (m : Msg) (acc : Tree × List Evt) (ei : EI) (a : List Nat) :
    (stepFixed m acc ei).2.count (.rem a) = acc.2.count (.rem a) +
      (if (decide (a ∈ addrs acc.1) && !applyTo a (decide (a ∈ addrs acc.1)) ei) then 1 else 0) := by
  unfold stepFixed applyTo
  cases hc : ei.chg with
  | added =>
    simp only [count_rem_addOne]
    by_cases ha : ei.addr = a <;> by_cases hk : a ∈ addrs acc.1 <;> simp [ha, hk]
  | removed =>
    simp only [count_rem_remOne]
    by_cases ha : ei.addr = a <;> by_cases hk : a ∈ addrs acc.1
    · subst ha; simp [hk]
    · subst ha; simp [hk]
    · have : ¬ a = ei.addr := fun h => ha h.symm
      simp [ha, hk, this]
    · have : ¬ a = ei.addr := fun h => ha h.symm
      simp [ha, hk, this]
  | none => by_cases ha : ei.addr = a <;> by_cases hk : a ∈ addrs acc.1 <;> simp [ha, hk]

/-- C06 (repaired), events refine the specification: for every tree, every entry list and every address -/
theorem c06_events_refine (m : Msg) : ∀ (l : List EI) (acc : Tree × List Evt) (a : List Nat),
    (l.foldl (stepFixed m) acc).2.count (.add a)
        = acc.2.count (.add a) + (appearances a (decide (a ∈ addrs acc.1)) l).1 ∧
    (l.foldl (stepFixed m) acc).2.count (.rem a)
        = acc.2.count (.rem a) + (appearances a (decide (a ∈ addrs acc.1)) l).2
  | [], _, _ => by simp [appearances]
  | ei :: l, acc, a => by
    have ih := c06_events_refine m l (stepFixed m acc ei) a
    rw [List.foldl_cons, ih.1, ih.2, count_add_step, count_rem_step, decide_mem_step]
    simp only [appearances]
    omega

/-- … for the notification handler itself -/
theorem c06_partial_events (m : Msg) (t : Tree) (a : List Nat) (hne : m.ents ≠ [])
    (hall : m.ents.any (·.chg = .none) = false) :
    (notifyPartialFixed m t).2.1.count (.add a) = (appearances a (decide (a ∈ addrs t)) m.ents).1 ∧
    (notifyPartialFixed m t).2.1.count (.rem a) = (appearances a (decide (a ∈ addrs t)) m.ents).2 := by
  unfold notifyPartialFixed
  have : m.ents.isEmpty = false := by cases h : m.ents with | nil => exact absurd h hne | cons _ _ => rfl
  rw [this, hall]
  simp only [Bool.false_eq_true, if_false]
  have := c06_events_refine m m.ents (t, []) a
  simpa using this

theorem appearances_untouched (a : List Nat) : ∀ (l : List EI) (b : Bool), (∀ ei ∈ l, ei.addr ≠ a) →
    appearances a b l = (0, 0)
  | [], _, _ => rfl
  | ei :: l, b, h => by
    have h1 : ei.addr ≠ a := h ei (List.mem_cons_self ..)
    have hb : applyTo a b ei = b := by simp [applyTo, h1]
    simp only [appearances, hb, appearances_untouched a l b (fun x hx => h x (List.mem_cons_of_mem _ hx))]
    cases b <;> rfl

/-- an address that at most one entry names: one event iff it really appeared / disappeared (the symmetric difference
    of the entity sets before and after) -/
theorem appearances_once (a : List Nat) : ∀ (l : List EI) (b : Bool), (l.filter (·.addr = a)).length ≤ 1 →
    appearances a b l = ((if (!b && l.foldl (applyTo a) b) then 1 else 0), (if (b && !l.foldl (applyTo a) b) then 1 else 0))
  | [], b, _ => by cases b <;> rfl
  | ei :: l, b, h => by
    by_cases h1 : ei.addr = a
    · have hrest : ∀ x ∈ l, x.addr ≠ a := by
        intro x hx hxa
        have hlen : (l.filter (·.addr = a)).length = 0 := by
          simp only [List.filter_cons, h1, decide_true, if_true, List.length_cons] at h
          omega
        have : x ∈ l.filter (·.addr = a) := List.mem_filter.mpr ⟨hx, by simpa using hxa⟩
        rw [List.length_eq_zero_iff] at hlen
        rw [hlen] at this
        exact absurd this List.not_mem_nil
      simp only [appearances, appearances_untouched a l _ hrest, List.foldl_cons, applyTo_untouched a l _ hrest]
      simp
    · have hb : applyTo a b ei = b := by simp [applyTo, h1]
      have hlen : (l.filter (·.addr = a)).length ≤ 1 := by
        simpa [List.filter_cons, h1] using h
      simp only [appearances, hb, List.foldl_cons, appearances_once a l b hlen]
      cases b <;> simp

/-- non-vacuity: [1] appears, [2] disappears, [1,1] is added and removed again in the same notification
    (two events, no net change) -/
example : (notifyPartialFixed ⟨[⟨[1], 1, .added, none⟩, ⟨[2], 1, .removed, none⟩, ⟨[1, 1], 1, .added, none⟩,
      ⟨[1, 1], 1, .removed, none⟩], []⟩ [⟨[0], 0, none, []⟩, ⟨[2], 1, none, []⟩]).2.1
    = [.add [1], .rem [2], .add [1, 1], .rem [1, 1]] := by decide

end Spine.Disc
