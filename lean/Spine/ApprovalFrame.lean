import Spine.ApprovalThm
/-! C12, lemmas: which components of the approval model a step touches (frame lemmas), presentation of a write
    to the callbacks, and the region in which the code as written coincides with the repaired member. -/
namespace Spine.Appr

theorem nCb_finish (c : Cfg) (s : St) (w : Nat) (a : Bool) : (finish c s w a).nCb = s.nCb := by
  unfold finish; dsimp only; split <;> rfl

theorem presented_finish (c : Cfg) (s : St) (w : Nat) (a : Bool) : (finish c s w a).presented = s.presented := by
  unfold finish; dsimp only; split <;> rfl

theorem lookups_finish (c : Cfg) (s : St) (w : Nat) (a : Bool) : (finish c s w a).lookups = s.lookups := by
  unfold finish; dsimp only; split <;> rfl

theorem fired_finish (c : Cfg) (s : St) (w : Nat) (a : Bool) : (finish c s w a).fired = s.fired := by
  unfold finish; dsimp only; split <;> rfl

/-- the number of callbacks never changes -/
theorem nCb_step (c : Cfg) (s : St) (e : Ev) : (step c s e).nCb = s.nCb := by
  cases e with
  | arrive w => simp only [step]; split <;> rfl
  | lookup op w => simp only [step]; split <;> rfl
  | commit op a =>
    simp only [step]
    split
    · rfl
    · split
      · split
        · rfl
        · rw [nCb_finish]
      · rw [nCb_finish]
  | timeoutTake w => simp only [step]; split <;> rfl
  | timeoutSend w => simp only [step]; split <;> rfl
  | drop => rfl

theorem nCb_run (c : Cfg) (n : Nat) (evs : List Ev) : (run c n evs).nCb = n := by
  unfold run
  suffices ∀ s : St, (evs.foldl (step c) s).nCb = s.nCb from this _
  induction evs with
  | nil => intro s; rfl
  | cons e es ih => intro s; simp only [List.foldl_cons]; rw [ih, nCb_step]

/-- only an arrival changes `seen` -/
theorem seen_step_other (c : Cfg) (s : St) (e : Ev) (h : ∀ w, e ≠ .arrive w) : (step c s e).seen = s.seen := by
  cases e with
  | arrive w => exact absurd rfl (h w)
  | lookup op w => simp only [step]; split <;> rfl
  | commit op a =>
    simp only [step]
    split
    · rfl
    · split
      · split
        · rfl
        · rw [seen_finish]
      · rw [seen_finish]
  | timeoutTake w => simp only [step]; split <;> rfl
  | timeoutSend w => simp only [step]; split <;> rfl
  | drop => rfl

/-- only an arrival invokes callbacks -/
theorem presented_step_other (c : Cfg) (s : St) (e : Ev) (h : ∀ w, e ≠ .arrive w) :
    (step c s e).presented = s.presented := by
  cases e with
  | arrive w => exact absurd rfl (h w)
  | lookup op w => simp only [step]; split <;> rfl
  | commit op a =>
    simp only [step]
    split
    · rfl
    · split
      · split
        · rfl
        · rw [presented_finish]
      · rw [presented_finish]
  | timeoutTake w => simp only [step]; split <;> rfl
  | timeoutSend w => simp only [step]; split <;> rfl
  | drop => rfl

theorem count_range_pairs (w0 n w i : Nat) :
    (((List.range n).map (fun j => (w0, j))).count (w, i)) = if w = w0 ∧ i < n then 1 else 0 := by
  induction n with
  | zero => simp
  | succ k ih =>
    rw [List.range_succ, List.map_append, List.count_append, ih]
    simp only [List.map_cons, List.map_nil, List.count_cons, List.count_nil]
    by_cases hw : w = w0
    · subst hw
      by_cases hi : i < k
      · have : ¬ k = i := by omega
        have h2 : i < k + 1 := by omega
        simp [hi, this, h2]
      · by_cases hik : i = k
        · subst hik; simp
        · have h2 : ¬ i < k + 1 := by omega
          have h3 : ¬ k = i := fun h => hik h.symm
          simp [hi, h2, h3]
    · have : ¬ w0 = w := fun h => hw h.symm
      simp [hw, this]

/-- presentation invariant: the pair (write, callback) has been presented exactly once if the write has arrived and
    the callback exists, and never otherwise -/
def PresInv (s : St) : Prop :=
  ∀ w i, s.presented.count (w, i) = if w ∈ s.seen ∧ i < s.nCb then 1 else 0

theorem presInv_step (c : Cfg) (s : St) (e : Ev) (h : PresInv s) : PresInv (step c s e) := by
  by_cases harr : ∃ w0, e = .arrive w0
  · obtain ⟨w0, rfl⟩ := harr
    simp only [step]
    split
    · exact h
    · rename_i hns
      have hns' : w0 ∉ s.seen := by simpa using hns
      intro w i
      simp only [List.count_append, count_range_pairs, h w i, List.mem_cons]
      by_cases hw : w = w0
      · subst hw
        by_cases hi : i < s.nCb <;> simp [hns', hi]
      · by_cases hm : w ∈ s.seen <;> by_cases hi : i < s.nCb <;> simp [hw, hm, hi]
  · have hne : ∀ w, e ≠ .arrive w := fun w hw => harr ⟨w, hw⟩
    intro w i
    rw [presented_step_other c s e hne, seen_step_other c s e hne, nCb_step]
    exact h w i

theorem presInv_run (c : Cfg) (n : Nat) (evs : List Ev) : PresInv (run c n evs) := by
  unfold run
  suffices ∀ s, PresInv s → PresInv (evs.foldl (step c) s) from this _ (by intro w i; simp)
  induction evs with
  | nil => intro s h; exact h
  | cons e es ih => intro s h; exact ih _ (presInv_step c s e h)

/-! ### where the code as written coincides with the repaired member -/

/-- no verdict is between its pending lookup and its commit for a write whose timer is no longer armed -/
def NoStale (s : St) : Prop := ∀ x ∈ s.lookups, x.2 ∈ s.armed

/-- `NoStale` holds in every state the schedule passes through (on the run of member `c`) -/
def Quiet (c : Cfg) : St → List Ev → Prop
  | _, [] => True
  | s, e :: es => NoStale s ∧ Quiet c (step c s e) es

theorem finish_cfg_agree (c : Cfg) (s : St) (w : Nat) (a : Bool) (h : w ∈ s.armed) :
    finish c s w a = finish Cfg.clean s w a := by
  have hc : s.armed.contains w = true := by simpa using h
  unfold finish
  simp only [hc, Bool.or_true, if_true, Cfg.clean]

theorem bump_cfg_agree (c : Cfg) (t : Option (List (Nat × Nat))) (w : Nat) (h : c.tallyReset = false) :
    bump c t w = bump Cfg.clean t w := by
  unfold bump
  rw [h]
  rfl

theorem step_cfg_agree (c : Cfg) (s : St) (e : Ev) (hs : NoStale s) (ht : c.tallyReset = false ∨ s.nCb ≤ 1) :
    step c s e = step Cfg.clean s e := by
  cases e with
  | arrive w => rfl
  | lookup op w => rfl
  | timeoutTake w => rfl
  | timeoutSend w => rfl
  | drop => rfl
  | commit op a =>
    simp only [step]
    split
    · rfl
    · rename_i x w hf
      have hmem : (x, w) ∈ s.lookups := List.mem_of_find?_eq_some hf
      have harmed : w ∈ s.armed := hs _ hmem
      by_cases hb : (decide (s.nCb > 1) && a) = true
      · simp only [hb, if_true]
        have hn : ¬ s.nCb ≤ 1 := by
          simp only [Bool.and_eq_true, decide_eq_true_eq] at hb; omega
        have htr : c.tallyReset = false := by
          rcases ht with h | h
          · exact h
          · exact absurd h hn
        rw [bump_cfg_agree c _ _ htr]
        split
        · rfl
        · exact finish_cfg_agree c _ w a harmed
      · simp only [hb]
        exact finish_cfg_agree c _ w a harmed

theorem run_cfg_agree (c : Cfg) (evs : List Ev) :
    ∀ s : St, Quiet c s evs → (c.tallyReset = false ∨ s.nCb ≤ 1) →
      evs.foldl (step c) s = evs.foldl (step Cfg.clean) s := by
  induction evs with
  | nil => intro s _ _; rfl
  | cons e es ih =>
    intro s hq ht
    simp only [List.foldl_cons]
    have hstep := step_cfg_agree c s e hq.1 ht
    rw [← hstep]
    apply ih _ hq.2
    rw [nCb_step]; exact ht

end Spine.Appr
