/-! Prototype: event-sourced interleaving model of BindingManager.AddBinding (check and insert in
    separate critical sections) and of the repaired variant (one critical section). -/
namespace Spine.Bind

structure Entry where
  id : Nat
  server : Nat
  client : Nat
deriving DecidableEq, Repr

structure St where
  next : Nat := 1
  entries : List Entry := []
  passed : List (Nat × Nat × Nat) := []   -- (op, server, client): operations between check and insert
deriving Repr

inductive Ev
  | check (op server client : Nat)    -- BindingsOnFeature(server) under the lock; remembers a pass
  | insert (op : Nat)                 -- append under the lock
  | atomicAdd (server client : Nat)   -- repaired code: check and append in one critical section
  | remove (server client : Nat)

def onServer (s : St) (srv : Nat) : List Entry := s.entries.filter (·.server = srv)

def step (s : St) : Ev → St
  | .check op srv cl =>
    if (onServer s srv).isEmpty then { s with passed := (op, srv, cl) :: s.passed } else s
  | .insert op =>
    match s.passed.find? (·.1 = op) with
    | none => s
    | some (_, srv, cl) =>
      { next := s.next + 1, entries := s.entries ++ [⟨s.next, srv, cl⟩],
        passed := s.passed.filter (·.1 ≠ op) }
  | .atomicAdd srv cl =>
    if (onServer s srv).isEmpty then { s with next := s.next + 1, entries := s.entries ++ [⟨s.next, srv, cl⟩] } else s
  | .remove srv cl => { s with entries := s.entries.filter fun e => !(e.server = srv && e.client = cl) }

def run (evs : List Ev) : St := evs.foldl step {}

def AtMostOne (s : St) : Prop := ∀ srv, (onServer s srv).length ≤ 1

/-- the code as it is: two requests from different connections interleave -/
theorem current_code_violates :
    ¬ AtMostOne (run [.check 1 7 100, .check 2 7 200, .insert 1, .insert 2]) := by
  intro h; have := h 7; revert this; decide

def repaired : Ev → Bool | .atomicAdd .. => true | .remove .. => true | _ => false

theorem filter_append_len (l : List Entry) (e : Entry) (srv : Nat) :
    ((l ++ [e]).filter (·.server = srv)).length
      = (l.filter (·.server = srv)).length + (if e.server = srv then 1 else 0) := by
  simp [List.filter_append]; split <;> simp_all

theorem step_repaired (s : St) (ev : Ev) (hr : repaired ev = true) (h : AtMostOne s) : AtMostOne (step s ev) := by
  cases ev with
  | check => simp [repaired] at hr
  | insert => simp [repaired] at hr
  | atomicAdd srv cl =>
    intro srv'
    simp only [step]
    split
    · rename_i hemp
      simp only [onServer, filter_append_len]
      by_cases hs : srv = srv'
      · subst hs
        have : (s.entries.filter (·.server = srv)).length = 0 := by
          simpa [onServer, List.isEmpty_iff] using hemp
        simp [this]
      · have := h srv'; simp [onServer] at this; simp [hs]; exact this
    · exact h srv'
  | remove srv cl =>
    intro srv'
    have := h srv'
    simp only [step, onServer] at *
    have hsub : ((s.entries.filter fun e => !(e.server = srv && e.client = cl)).filter (·.server = srv')).length
        ≤ (s.entries.filter (·.server = srv')).length :=
      (List.Sublist.filter _ List.filter_sublist).length_le
    omega

/-- repaired code: at most one binding per server feature for every event list, i.e. every
    interleaving of any number of requests -/
theorem repaired_at_most_one (evs : List Ev) (hr : ∀ e ∈ evs, repaired e = true) : AtMostOne (run evs) := by
  suffices ∀ s, AtMostOne s → AtMostOne (evs.foldl step s) from this {} (by intro srv; simp [onServer])
  induction evs with
  | nil => intro s h; exact h
  | cons e es ih =>
    intro s h
    exact ih (fun e' he' => hr e' (List.mem_cons_of_mem _ he')) _ (step_repaired s e (hr e List.mem_cons_self) h)

end Spine.Bind

namespace Spine.Bind

/-! the code as written, partial: requests that do not overlap -/

/-- a call that runs alone: the check immediately followed by the insertion of the same request -/
inductive Call
  | add (op server client : Nat)
  | remove (server client : Nat)

def Call.evs : Call → List Ev
  | .add op srv cl => [.check op srv cl, .insert op]
  | .remove srv cl => [.remove srv cl]

theorem call_step (s : St) (h : AtMostOne s) (hp : s.passed = []) (c : Call) :
    AtMostOne (c.evs.foldl step s) ∧ (c.evs.foldl step s).passed = [] := by
  cases c with
  | add op srv cl =>
    simp only [Call.evs, List.foldl_cons, List.foldl_nil]
    by_cases hemp : (onServer s srv).isEmpty = true
    · have h1 : step s (.check op srv cl) = { s with passed := [(op, srv, cl)] } := by
        simp [step, hemp, hp]
      rw [h1]
      simp only [step, List.find?_cons, decide_true, List.filter_cons, ne_eq, not_true_eq_false, decide_false,
        List.filter_nil]
      refine ⟨?_, by simp⟩
      intro srv'
      simp only [onServer, filter_append_len]
      by_cases hs : srv = srv'
      · subst hs
        have : (s.entries.filter (·.server = srv)).length = 0 := by
          simpa [onServer, List.isEmpty_iff] using hemp
        simp [this]
      · have := h srv'; simp [onServer] at this; simp [hs]; exact this
    · have h1 : step s (.check op srv cl) = s := by simp [step, hemp]
      rw [h1]
      have h2 : step s (.insert op) = s := by simp [step, hp]
      rw [h2]
      exact ⟨h, hp⟩
  | remove srv cl =>
    simp only [Call.evs, List.foldl_cons, List.foldl_nil]
    exact ⟨step_repaired s (.remove srv cl) rfl h, by simp [step, hp]⟩

/-- the code as written: at most one binding per server feature as long as requests do not overlap -/
theorem sequential_at_most_one (calls : List Call) : AtMostOne (run (calls.flatMap Call.evs)) := by
  unfold run
  suffices ∀ s : St, AtMostOne s → s.passed = [] →
      AtMostOne ((calls.flatMap Call.evs).foldl step s) from this {} (by intro srv; simp [onServer]) rfl
  induction calls with
  | nil => intro s h _; exact h
  | cons c cs ih =>
    intro s h hp
    rw [List.flatMap_cons, List.foldl_append]
    have := call_step s h hp c
    exact ih _ this.1 this.2

end Spine.Bind
