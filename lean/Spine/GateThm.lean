import Spine.Gate
/-! Theorems about the event-sourced gate / registry model `Spine.Gate` (C03): for every schedule, a write that changed
    the data passed the gate while the registry — as it stood after exactly the registry operations executed before
    its snapshot — held its binding, and its function was announced writable. Agreement with `Spine.Disp`. -/
namespace Spine.Gate
open Spine.Disp

/-- what the gate established for a write, stated against the history of registry operations -/
def Justified (s : St) (w : Pend) : Prop :=
  w.seen ≤ s.hist.length ∧ (w.ok = true → w.wr = true ∧ w.e ∈ regFold s.cfg s.b0 (s.hist.take w.seen))

structure Inv (s : St) : Prop where
  binds : s.binds = regFold s.cfg s.b0 s.hist
  pend : ∀ w ∈ s.pend, Justified s w
  applied : ∀ w ∈ s.applied, Justified s w ∧ w.ok = true

theorem verdict_iff (b : List Entry) (e : Entry) (wr : Bool) : verdict b e wr = true ↔ wr = true ∧ e ∈ b := by
  simp [verdict]

theorem regFold_snoc (cfg : Cfg) (b : List Entry) (ops : List RegOp) (r : RegOp) :
    regFold cfg b (ops ++ [r]) = regApply cfg (regFold cfg b ops) r := by
  simp [regFold, List.foldl_append]

theorem justified_reg (s : St) (r : RegOp) (w : Pend) (h : Justified s w) : Justified (stepReg s r) w := by
  obtain ⟨hle, hok⟩ := h
  refine ⟨?_, ?_⟩
  · simp only [stepReg, List.length_append, List.length_singleton]; omega
  · intro ho
    have := hok ho
    simp only [stepReg]
    rw [List.take_append_of_le_length hle]
    exact this

theorem inv_init (cfg : Cfg) (b0 : List Entry) : Inv (init cfg b0) :=
  ⟨rfl, fun _ h => absurd h List.not_mem_nil, fun _ h => absurd h List.not_mem_nil⟩

theorem inv_step (s : St) (ev : Ev) (h : Inv s) : Inv (step s ev) := by
  cases ev with
  | gate i e wr =>
    simp only [step, stepGate]
    split
    · exact h
    · refine ⟨h.binds, ?_, h.applied⟩
      intro w hw
      rcases List.mem_cons.mp hw with rfl | hw
      · refine ⟨Nat.le_refl _, fun ho => ?_⟩
        simp only [List.take_length]
        have := (verdict_iff _ _ _).mp ho
        rw [h.binds] at this
        exact this
      · exact h.pend w hw
  | apply i =>
    simp only [step, stepApply]
    split
    · exact h
    · rename_i w hf
      have hw : w ∈ s.pend := List.mem_of_find?_eq_some hf
      have hp : ∀ x ∈ s.pend.filter (·.id ≠ i), Justified s x := fun x hx => h.pend x (List.mem_filter.mp hx).1
      split
      · rename_i hok
        refine ⟨h.binds, hp, ?_⟩
        intro x hx
        rcases List.mem_cons.mp hx with rfl | hx
        · exact ⟨h.pend _ hw, hok⟩
        · exact h.applied x hx
      · exact ⟨h.binds, hp, h.applied⟩
  | reg r =>
    simp only [step]
    refine ⟨?_, ?_, ?_⟩
    · simp only [stepReg]; rw [regFold_snoc, ← h.binds]
    · intro w hw; exact justified_reg s r w (h.pend w hw)
    · intro w hw; exact ⟨justified_reg s r w (h.applied w hw).1, (h.applied w hw).2⟩
  | clean p ent =>
    simp only [step, stepClean]
    exact ⟨h.binds, fun w hw => h.pend w (List.mem_filter.mp hw).1, h.applied⟩

theorem cfg_step (s : St) (ev : Ev) : (step s ev).cfg = s.cfg ∧ (step s ev).b0 = s.b0 := by
  cases ev with
  | gate i e wr => simp only [step, stepGate]; split <;> exact ⟨rfl, rfl⟩
  | apply i =>
    simp only [step, stepApply]
    split
    · exact ⟨rfl, rfl⟩
    · split <;> exact ⟨rfl, rfl⟩
  | reg r => exact ⟨rfl, rfl⟩
  | clean p ent => exact ⟨rfl, rfl⟩

theorem inv_run (evs : List Ev) : ∀ s, Inv s → Inv (run s evs) := by
  induction evs with
  | nil => intro s h; exact h
  | cons ev evs ih => intro s h; exact ih _ (inv_step s ev h)

theorem cfg_run (evs : List Ev) : ∀ s, (run s evs).cfg = s.cfg ∧ (run s evs).b0 = s.b0 := by
  induction evs with
  | nil => intro s; exact ⟨rfl, rfl⟩
  | cons ev evs ih =>
    intro s
    have := ih (step s ev)
    exact ⟨this.1.trans (cfg_step s ev).1, this.2.trans (cfg_step s ev).2⟩

/-- All schedules: whatever the interleaving of any number of writes (gate, apply), registry operations and clean-ups,
    a write that changed the data was announced writable and its binding was in the registry as it stood after exactly
    the first `seen` registry operations — the moment its gate took the snapshot. -/
theorem applied_bound_at_gate (cfg : Cfg) (b0 : List Entry) (evs : List Ev) (w : Pend)
    (hw : w ∈ (run (init cfg b0) evs).applied) :
    w.wr = true ∧ w.seen ≤ (run (init cfg b0) evs).hist.length ∧
      w.e ∈ regFold cfg b0 ((run (init cfg b0) evs).hist.take w.seen) := by
  have hinv := inv_run evs _ (inv_init cfg b0)
  obtain ⟨⟨hle, hj⟩, hok⟩ := hinv.applied w hw
  have hc := cfg_run evs (init cfg b0)
  have := hj hok
  rw [hc.1, hc.2] at this
  exact ⟨this.1, hle, this.2⟩

/-- a registry operation after the snapshot never turns a refused write into an applied one, and a pending write is
    applied only through its own `apply` event -/
theorem applied_step_mono (s : St) (ev : Ev) (w : Pend) (hw : w ∈ (step s ev).applied) :
    w ∈ s.applied ∨ (ev = .apply w.id ∧ w ∈ s.pend ∧ w.ok = true) := by
  cases ev with
  | gate i e wr => simp only [step, stepGate] at hw; split at hw <;> exact .inl hw
  | apply i =>
    simp only [step, stepApply] at hw
    split at hw
    · exact .inl hw
    · rename_i x hf
      split at hw
      · rename_i hok
        rcases List.mem_cons.mp hw with rfl | hw
        · have hid : w.id = i := by simpa using List.find?_some hf
          exact .inr ⟨by rw [hid], List.mem_of_find?_eq_some hf, hok⟩
        · exact .inl hw
      · exact .inl hw
  | reg r => exact .inl hw
  | clean p ent => exact .inl hw

/-- after the clean-up of entity `ent` of connection `p` none of its writes is waiting any more: an approval that
    arrives later finds nothing to apply -/
theorem clean_discards (s : St) (p : Nat) (ent : List Nat) (w : Pend) (hw : w ∈ (stepClean s p ent).pend)
    (hp : w.e.2.1 = p) (he : w.e.2.2.1 = ent) : w.ok = false := by
  simp only [stepClean, List.mem_filter, Bool.not_eq_true', Bool.and_eq_false_iff, decide_eq_false_iff_not] at hw
  rcases hw.2 with (h | h) | h
  · exact h
  · exact absurd hp h
  · exact absurd he h


/-! ### a write that is not waiting with a positive verdict is never applied later -/

/-- write `i` has passed the gate and no entry of it is waiting with a positive verdict -/
def Settled (s : St) (i : Nat) : Prop :=
  i ∈ s.used ∧ (∀ w ∈ s.pend, w.id = i → w.ok = false) ∧ ∀ w ∈ s.applied, w.id ≠ i

theorem settled_step (s : St) (ev : Ev) (i : Nat) (h : Settled s i) : Settled (step s ev) i := by
  obtain ⟨hu, hp, ha⟩ := h
  cases ev with
  | gate j e wr =>
    simp only [step, stepGate]
    split
    · exact ⟨hu, hp, ha⟩
    · rename_i hj
      refine ⟨List.mem_cons_of_mem _ hu, ?_, ha⟩
      intro w hw hid
      rcases List.mem_cons.mp hw with rfl | hw
      · simp only at hid
        subst hid
        exact absurd (List.contains_iff_mem.mpr hu) hj
      · exact hp w hw hid
  | apply j =>
    simp only [step, stepApply]
    split
    · exact ⟨hu, hp, ha⟩
    · rename_i x hf
      have hx : x ∈ s.pend := List.mem_of_find?_eq_some hf
      have hpf : ∀ w ∈ s.pend.filter (·.id ≠ j), w.id = i → w.ok = false :=
        fun w hw hid => hp w (List.mem_filter.mp hw).1 hid
      split
      · rename_i hok
        refine ⟨hu, hpf, ?_⟩
        intro w hw
        rcases List.mem_cons.mp hw with rfl | hw
        · intro hid
          have := hp w hx hid
          rw [this] at hok
          cases hok
        · exact ha w hw
      · exact ⟨hu, hpf, ha⟩
  | reg r => exact ⟨hu, hp, ha⟩
  | clean p ent =>
    simp only [step, stepClean]
    exact ⟨hu, fun w hw hid => hp w (List.mem_filter.mp hw).1 hid, ha⟩

theorem settled_run (evs : List Ev) : ∀ (s : St) (i : Nat), Settled s i → Settled (run s evs) i := by
  induction evs with
  | nil => intro s i h; exact h
  | cons ev evs ih => intro s i h; exact ih _ i (settled_step s ev i h)

/-- All continuations: once the clean-up of entity `ent` of connection `p` has run, a write of that entity that had
    passed the gate and had not been applied yet is never applied — whatever events follow (approvals, grants of a
    new binding, re-use of the id by a later gate event, …). -/
theorem cleaned_never_applied (s : St) (p : Nat) (ent : List Nat) (i : Nat) (hu : i ∈ s.used)
    (hmine : ∀ w ∈ s.pend, w.id = i → w.e.2.1 = p ∧ w.e.2.2.1 = ent) (hna : ∀ w ∈ s.applied, w.id ≠ i)
    (evs : List Ev) : ∀ w ∈ (run (stepClean s p ent) evs).applied, w.id ≠ i := by
  have h : Settled (stepClean s p ent) i := by
    refine ⟨hu, ?_, hna⟩
    intro w hw hid
    have hw0 : w ∈ s.pend := by
      simp only [stepClean] at hw
      exact (List.mem_filter.mp hw).1
    exact clean_discards s p ent w hw (hmine w hw0 hid).1 (hmine w hw0 hid).2
  exact (settled_run evs _ i h).2.2

/-- likewise a write the gate has refused is never applied, whatever follows (a binding granted later included) -/
theorem refused_never_applied (s : St) (i : Nat) (e : Entry) (wr : Bool) (hfresh : s.used.contains i = false)
    (hv : verdict s.binds e wr = false) (hna : ∀ w ∈ s.applied, w.id ≠ i) (hnp : ∀ w ∈ s.pend, w.id ≠ i)
    (evs : List Ev) : ∀ w ∈ (run (stepGate s i e wr) evs).applied, w.id ≠ i := by
  have h : Settled (stepGate s i e wr) i := by
    simp only [stepGate, hfresh, Bool.false_eq_true, if_false]
    refine ⟨List.mem_cons_self, ?_, hna⟩
    intro w hw hid
    rcases List.mem_cons.mp hw with rfl | hw
    · exact hv
    · exact absurd hid (hnp w hw)
  exact (settled_run evs _ i h).2.2

/-! ### agreement with the sequential dispatch world -/

/-- the verdict of the gate event is the write gate of `Disp.processCmd` on the same registry -/
theorem gate_agrees (w : W) (p : Nat) (lf : LF) (d : Dg) :
    gateOk w p lf d = verdict w.binds (d.dst, p, d.src) (writable lf d.fn) := by
  simp only [gateOk, verdict]
  congr 1
  rw [Bool.eq_iff_iff]
  simp only [List.any_eq_true, List.contains_iff_mem, Bool.and_eq_true, decide_eq_true_eq]
  constructor
  · rintro ⟨b, hb, ⟨h1, h2⟩, h3⟩
    obtain ⟨b1, b2, b3⟩ := b
    simp only at h1 h2 h3
    subst h1; subst h2; subst h3
    exact hb
  · intro h
    exact ⟨_, h, ⟨rfl, rfl⟩, rfl⟩

/-- the registry operations are the dispatch world's: an accepted binding call, an accepted delete call, the removal
    of an entity — same family over the defect flags -/
theorem reg_agrees (w : W) (p : Nat) (c s : Addr) (t : Nat) (ent : List Nat) :
    (callApply w p (.bind c s t)).binds = regApply w.cfg w.binds (.grant (s, p, c)) ∧
    (callApply w p (.unbind c s)).binds = regApply w.cfg w.binds (.delete s p c) ∧
    (removeEnt w p ent).binds = regApply w.cfg w.binds (.entGone p ent) :=
  ⟨rfl, rfl, rfl⟩

end Spine.Gate
