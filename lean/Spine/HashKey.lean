/-!
# The identity of items as the code computes it: `hashKey` as a STRING (model/collection_operations.go)

`hashKey` walks the fields tagged `eebus:"key"` in declaration order and builds a string: it stops at the first
nil part; a uint part contributes its decimal text, a string part itself, a struct part (an address) the text of
its `String()` method — and ends the walk; before a part the separator `|` is written iff the text so far is not
empty. `Merge`, `ToMap` identify items by that string. `Spine.hashKey` (Update.lean) abstracts the parts to numbers
and the string to the list of the present prefix; this file models the string itself (characters as their codes)
and proves for which kinds of identifier the string identifies the tuple, with kernel-checked collisions for
the rest. `Spine/Props/C02.lean` decides over the regenerated table that every list type has one of the kinds
proved injective; `go/comp/update_test.go` replays the statements on the real code (`updIdentityProbes`) and runs
the correspondence with adversarial concrete identifier values (`updTrickyFill`).
-/
namespace Spine.HashKey

local notation "Ch" => Nat
def sep : Ch := 124      -- '|'
def isDigit (c : Ch) : Bool := decide (48 ≤ c ∧ c ≤ 57)

/-! ### decimal text of a number (Go's `%d`) -/

def decAux : Nat → Nat → List Ch
  | 0, n => [48 + n % 10]
  | f + 1, n => if n < 10 then [48 + n] else decAux f (n / 10) ++ [48 + n % 10]

def dec (n : Nat) : List Ch := decAux n n

def val (l : List Ch) : Nat := l.foldl (fun acc c => acc * 10 + (c - 48)) 0

theorem val_snoc (l : List Ch) (c : Ch) : val (l ++ [c]) = val l * 10 + (c - 48) := by
  simp [val, List.foldl_append]

theorem val_decAux : ∀ (f n : Nat), n ≤ f → val (decAux f n) = n
  | 0, n, h => by
    have : n = 0 := by omega
    subst this; simp [decAux, val]
  | f + 1, n, h => by
    simp only [decAux]
    split
    · simp [val]
    · rw [val_snoc, val_decAux f (n / 10) (by omega)]
      have := Nat.div_add_mod n 10
      omega

theorem dec_inj (a b : Nat) (h : dec a = dec b) : a = b := by
  have ha := val_decAux a a (Nat.le_refl a)
  have hb := val_decAux b b (Nat.le_refl b)
  unfold dec at h
  rw [h] at ha
  omega

theorem decAux_digits : ∀ (f n : Nat) (c : Ch), c ∈ decAux f n → isDigit c = true
  | 0, n, c, h => by
    simp only [decAux, List.mem_singleton] at h
    subst h
    have := Nat.mod_lt n (show 10 > 0 by omega)
    simp only [isDigit, decide_eq_true_eq]; omega
  | f + 1, n, c, h => by
    simp only [decAux] at h
    split at h
    · simp only [List.mem_singleton] at h
      subst h
      simp only [isDigit, decide_eq_true_eq]; omega
    · rcases List.mem_append.mp h with h | h
      · exact decAux_digits f (n / 10) c h
      · simp only [List.mem_singleton] at h
        subst h
        have := Nat.mod_lt n (show 10 > 0 by omega)
        simp only [isDigit, decide_eq_true_eq]; omega

theorem dec_digits (n : Nat) : ∀ c ∈ dec n, isDigit c = true := fun c h => decAux_digits n n c h

theorem decAux_ne_nil : ∀ (f n : Nat), decAux f n ≠ []
  | 0, _ => by simp [decAux]
  | f + 1, n => by
    simp only [decAux]
    split <;> simp

theorem dec_ne_nil (n : Nat) : dec n ≠ [] := decAux_ne_nil n n

/-! ### reading a text up to the first character of another class -/

/-- two texts that each consist of a run of `p`-characters followed by a non-`p` character agree ⇒ the runs,
    the stoppers and the rests agree -/
theorem run_stop_unique {α} (p : α → Bool) : ∀ (a a' : List α) (b b' : α) (c c' : List α),
    (∀ x ∈ a, p x = true) → (∀ x ∈ a', p x = true) → p b = false → p b' = false →
    a ++ b :: c = a' ++ b' :: c' → a = a' ∧ b = b' ∧ c = c'
  | [], [], b, b', c, c', _, _, _, _, h => by
    simp only [List.nil_append, List.cons.injEq] at h; exact ⟨rfl, h.1, h.2⟩
  | [], x :: a', b, b', c, c', _, ha', hb, _, h => by
    simp only [List.nil_append, List.cons_append, List.cons.injEq] at h
    have := ha' x List.mem_cons_self
    rw [← h.1, hb] at this; cases this
  | x :: a, [], b, b', c, c', ha, _, _, hb', h => by
    simp only [List.nil_append, List.cons_append, List.cons.injEq] at h
    have := ha x List.mem_cons_self
    rw [h.1, hb'] at this; cases this
  | x :: a, y :: a', b, b', c, c', ha, ha', hb, hb', h => by
    simp only [List.cons_append, List.cons.injEq] at h
    obtain ⟨h1, h2, h3⟩ := run_stop_unique p a a' b b' c c' (fun z hz => ha z (List.mem_cons_of_mem _ hz))
      (fun z hz => ha' z (List.mem_cons_of_mem _ hz)) hb hb' h.2
    exact ⟨by rw [h.1, h1], h2, h3⟩

/-- a run of `p`-characters is never equal to a run followed by a non-`p` character -/
theorem run_ne_run_stop {α} (p : α → Bool) (a a' : List α) (b' : α) (c' : List α)
    (ha : ∀ x ∈ a, p x = true) (hb' : p b' = false) : a ≠ a' ++ b' :: c' := by
  intro h
  have : b' ∈ a := by rw [h]; simp
  rw [ha b' this] at hb'; cases hb'

/-! ### numbers joined by a separator that is not a digit -/

/-- what follows the first number -/
def tailJ (c : Ch) : List Nat → List Ch
  | [] => []
  | m :: rest => c :: (dec m ++ tailJ c rest)

def joinNums (c : Ch) : List Nat → List Ch
  | [] => []
  | n :: rest => dec n ++ tailJ c rest

theorem tailJ_inj (c : Ch) (hc : isDigit c = false) : ∀ (xs ys : List Nat), tailJ c xs = tailJ c ys → xs = ys
  | [], [], _ => rfl
  | [], _ :: _, h => by simp [tailJ] at h
  | _ :: _, [], h => by simp [tailJ] at h
  | x :: xs, y :: ys, h => by
    simp only [tailJ, List.cons.injEq, true_and] at h
    cases xs with
    | nil =>
      cases ys with
      | nil =>
        simp only [tailJ, List.append_nil] at h
        rw [dec_inj x y h]
      | cons y2 ys =>
        simp only [tailJ, List.append_nil] at h
        exact absurd h (run_ne_run_stop isDigit _ _ c _ (dec_digits x) hc)
    | cons x2 xs =>
      cases ys with
      | nil =>
        simp only [tailJ, List.append_nil] at h
        exact absurd h.symm (run_ne_run_stop isDigit _ _ c _ (dec_digits y) hc)
      | cons y2 ys =>
        have h' : dec x ++ c :: (dec x2 ++ tailJ c xs) = dec y ++ c :: (dec y2 ++ tailJ c ys) := by
          simpa [tailJ] using h
        obtain ⟨h1, _, h3⟩ := run_stop_unique isDigit _ _ c c _ _ (dec_digits x) (dec_digits y) hc hc h'
        have ih := tailJ_inj c hc (x2 :: xs) (y2 :: ys) (by simp [tailJ, h3])
        rw [dec_inj x y h1, ih]

/-- the joined text determines the list of numbers (no separator is written before the first) -/
theorem joinNums_inj (c : Ch) (hc : isDigit c = false) (xs ys : List Nat) (h : joinNums c xs = joinNums c ys) :
    xs = ys := by
  have key : tailJ c xs = tailJ c ys := by
    cases xs with
    | nil =>
      cases ys with
      | nil => rfl
      | cons y ys =>
        simp only [joinNums] at h
        have : dec y ++ tailJ c ys ≠ [] := by simp [dec_ne_nil]
        exact absurd h.symm this
    | cons x xs =>
      cases ys with
      | nil =>
        simp only [joinNums] at h
        have : dec x ++ tailJ c xs ≠ [] := by simp [dec_ne_nil]
        exact absurd h this
      | cons y ys =>
        simp only [joinNums] at h
        simp only [tailJ, h]
  exact tailJ_inj c hc xs ys key

theorem joinNums_snoc (c : Ch) : ∀ (pre : List Nat) (n : Nat),
    joinNums c (pre ++ [n]) = (if (joinNums c pre).isEmpty then [] else joinNums c pre ++ [c]) ++ dec n
  | [], n => by simp [joinNums, tailJ]
  | [m], n => by
    have : (dec m).isEmpty = false := by
      cases h : dec m with
      | nil => exact absurd h (dec_ne_nil m)
      | cons _ _ => rfl
    simp [joinNums, tailJ, this]
  | m :: m2 :: pre, n => by
    have ih := joinNums_snoc c (m2 :: pre) n
    have hne : (joinNums c (m2 :: pre)).isEmpty = false := by
      cases h : joinNums c (m2 :: pre) with
      | nil => simp [joinNums, dec_ne_nil] at h
      | cons _ _ => rfl
    have hne' : (joinNums c (m :: m2 :: pre)).isEmpty = false := by
      cases h : joinNums c (m :: m2 :: pre) with
      | nil => simp [joinNums, dec_ne_nil] at h
      | cons _ _ => rfl
    rw [hne] at ih
    rw [hne']
    simp only [Bool.false_eq_true, if_false] at ih ⊢
    have e1 : joinNums c ((m :: m2 :: pre) ++ [n]) = dec m ++ c :: joinNums c ((m2 :: pre) ++ [n]) := by
      simp [joinNums, tailJ]
    have e2 : joinNums c (m :: m2 :: pre) = dec m ++ c :: joinNums c (m2 :: pre) := by
      simp [joinNums, tailJ]
    rw [e1, ih, e2]
    simp

/-! ### the hash text -/

inductive Part
  | uint (n : Nat)
  | str (s : List Ch)
  | struct (s : List Ch)     -- the text of the address's `String()`

def Part.text : Part → List Ch
  | .uint n => dec n
  | .str s => s
  | .struct s => s

def Part.stops : Part → Bool
  | .struct _ => true
  | _ => false

/-- `hashKey`, faithfully: the accumulated text; the separator is written iff the text so far is not empty -/
def render : List Ch → List (Option Part) → List Ch
  | acc, [] => acc
  | acc, none :: _ => acc
  | acc, some p :: rest =>
    if p.stops then (if acc.isEmpty then [] else acc ++ [sep]) ++ p.text
    else render ((if acc.isEmpty then [] else acc ++ [sep]) ++ p.text) rest

def hashText (parts : List (Option Part)) : List Ch := render [] parts

/-- the present prefix of an identifier: the parts before the first absent one -/
def presentPrefix : List (Option Nat) → List Nat
  | some n :: rest => n :: presentPrefix rest
  | _ => []

def uints (xs : List (Option Nat)) : List (Option Part) := xs.map (Option.map Part.uint)

theorem render_uints (pre : List Nat) : ∀ (xs : List (Option Nat)),
    render (joinNums sep pre) (uints xs) = joinNums sep (pre ++ presentPrefix xs)
  | [] => by simp [uints, render, presentPrefix]
  | none :: rest => by simp [uints, render, presentPrefix]
  | some n :: rest => by
    have ih := render_uints (pre ++ [n]) rest
    rw [joinNums_snoc] at ih
    simp only [uints, List.map_cons, Option.map_some, render, Part.stops, Bool.false_eq_true, if_false, Part.text]
    simp only [uints] at ih
    rw [ih, presentPrefix]
    simp

/-- **identifiers made of numbers only (1, 2 or 3 parts — any number)**: the hash text IS the decimal texts of the
    present prefix joined by `|` … -/
theorem hashText_uints (xs : List (Option Nat)) : hashText (uints xs) = joinNums sep (presentPrefix xs) := by
  have := render_uints [] xs
  simpa [hashText, joinNums] using this

/-- … hence two such identifiers have the same hash text if and only if their present prefixes are equal:
    complete identifiers are told apart whatever their values (`12|3` vs `1|23`, the largest uint, …); incomplete
    ones are identified with every identifier that has the same parts before the first absent one -/
theorem hashText_uints_inj (xs ys : List (Option Nat)) :
    hashText (uints xs) = hashText (uints ys) ↔ presentPrefix xs = presentPrefix ys := by
  rw [hashText_uints, hashText_uints]
  constructor
  · exact joinNums_inj sep (by decide) _ _
  · intro h; rw [h]

theorem presentPrefix_complete (ns : List Nat) : presentPrefix (ns.map some) = ns := by
  induction ns with
  | nil => rfl
  | cons n ns ih => simp [presentPrefix, ih]

/-- complete numeric identifiers: injective -/
theorem hashText_complete_uints_inj (ns ms : List Nat)
    (h : hashText (uints (ns.map some)) = hashText (uints (ms.map some))) : ns = ms := by
  have := (hashText_uints_inj _ _).mp h
  rwa [presentPrefix_complete, presentPrefix_complete] at this

/-- **number + string** (measurementId + valueType): the text is the number, and — if the string part is present —
    the separator and the string -/
theorem hashText_uint_str (a : Nat) (s : Option (List Ch)) :
    hashText [some (.uint a), s.map Part.str] = dec a ++ (match s with | none => [] | some t => sep :: t) := by
  have hne : (dec a).isEmpty = false := by
    cases h : dec a with
    | nil => exact absurd h (dec_ne_nil a)
    | cons _ _ => rfl
  cases s with
  | none => simp [hashText, render, Part.stops, Part.text]
  | some t => simp [hashText, render, Part.stops, Part.text, hne]

/-- … injective for ALL strings — empty, containing the separator, looking like numbers — and it tells an absent
    string part from an empty one -/
theorem hashText_uint_str_inj (a b : Nat) (s t : Option (List Ch))
    (h : hashText [some (.uint a), s.map Part.str] = hashText [some (.uint b), t.map Part.str]) : a = b ∧ s = t := by
  rw [hashText_uint_str, hashText_uint_str] at h
  have hs : isDigit sep = false := by decide
  cases s with
  | none =>
    cases t with
    | none => simp only [List.append_nil] at h; exact ⟨dec_inj a b h, rfl⟩
    | some t' =>
      simp only [List.append_nil] at h
      exact absurd h (run_ne_run_stop isDigit _ _ sep _ (dec_digits a) hs)
  | some s' =>
    cases t with
    | none =>
      simp only [List.append_nil] at h
      exact absurd h.symm (run_ne_run_stop isDigit _ _ sep _ (dec_digits b) hs)
    | some t' =>
      obtain ⟨h1, _, h3⟩ := run_stop_unique isDigit _ _ sep sep _ _ (dec_digits a) (dec_digits b) hs hs h
      exact ⟨dec_inj a b h1, by rw [h3]⟩

/-- **address key** (one struct part): the hash text is the address text; an absent address and an address with an
    empty text give the same, empty, hash -/
theorem hashText_struct (t : Option (List Ch)) : hashText [t.map Part.struct] = t.getD [] := by
  cases t <;> simp [hashText, render, Part.stops, Part.text]

/-! ### the address texts (`String()` in model/commondatatypes_additions.go) -/

def colon : Ch := 58
def lbr : Ch := 91
def rbr : Ch := 93
def comma : Ch := 44

/-- DeviceAddressType: the device string (absent = empty) -/
def devText (d : Option (List Ch)) : List Ch := d.getD []

/-- EntityAddressType: `device:[e1,e2,…]:` -/
def entText (d : Option (List Ch)) (ents : List Nat) : List Ch :=
  devText d ++ colon :: lbr :: (joinNums comma ents ++ [rbr, colon])

/-- FeatureAddressType: `device:[e1,e2,…]:feature` -/
def featText (d : Option (List Ch)) (ents : List Nat) (f : Option Nat) : List Ch :=
  entText d ents ++ (match f with | some n => dec n | none => [])

def isNumOrComma (c : Ch) : Bool := isDigit c || c == comma

theorem joinNums_chars (ents : List Nat) : ∀ c ∈ joinNums comma ents, isNumOrComma c = true := by
  suffices h : ∀ (l : List Nat), (∀ c ∈ tailJ comma l, isNumOrComma c = true) by
    intro c hc
    cases ents with
    | nil => simp [joinNums] at hc
    | cons n rest =>
      rcases List.mem_append.mp hc with h1 | h1
      · simp [isNumOrComma, dec_digits n c h1]
      · exact h rest c h1
  intro l
  induction l with
  | nil => intro c hc; simp [tailJ] at hc
  | cons m rest ih =>
    intro c hc
    simp only [tailJ, List.mem_cons, List.mem_append] at hc
    rcases hc with rfl | h1 | h1
    · decide
    · simp [isNumOrComma, dec_digits m c h1]
    · exact ih c h1

/-- the reversed feature address text: digits of the feature, `:]`, the entity list reversed, `[:`, the device -/
theorem featText_reverse (d : Option (List Ch)) (ents : List Nat) (f : Option Nat) :
    (featText d ents f).reverse =
      (match f with | some n => dec n | none => []).reverse ++
        colon :: rbr :: ((joinNums comma ents).reverse ++ lbr :: colon :: (devText d).reverse) := by
  simp [featText, entText]

/-- **the address texts identify the address** — up to an absent vs empty device part (and, in Go, a nil vs empty
    entity list, which the model does not distinguish): device strings may contain any character, `:`, `[`, `|`
    included -/
theorem featText_inj (d d' : Option (List Ch)) (e e' : List Nat) (f f' : Option Nat)
    (h : featText d e f = featText d' e' f') : devText d = devText d' ∧ e = e' ∧ f = f' := by
  have hr := congrArg List.reverse h
  rw [featText_reverse, featText_reverse] at hr
  have hcolon : isDigit colon = false := by decide
  have hdig : ∀ (g : Option Nat), ∀ x ∈ (match g with | some n => dec n | none => []).reverse, isDigit x = true := by
    intro g x hx
    cases g with
    | none => simp at hx
    | some n => exact dec_digits n x (List.mem_reverse.mp hx)
  obtain ⟨h1, _, h2⟩ := run_stop_unique isDigit _ _ colon colon _ _ (hdig f) (hdig f') hcolon hcolon hr
  have hf : f = f' := by
    have h1' := congrArg List.reverse h1
    simp only [List.reverse_reverse] at h1'
    cases f with
    | none =>
      cases f' with
      | none => rfl
      | some n => exact absurd h1'.symm (dec_ne_nil n)
    | some n =>
      cases f' with
      | none => exact absurd h1' (dec_ne_nil n)
      | some m => rw [dec_inj n m h1']
  simp only [List.cons.injEq, true_and] at h2
  have hl : isNumOrComma lbr = false := by decide
  have hch : ∀ (l : List Nat), ∀ x ∈ (joinNums comma l).reverse, isNumOrComma x = true :=
    fun l x hx => joinNums_chars l x (List.mem_reverse.mp hx)
  obtain ⟨h3, _, h4⟩ := run_stop_unique isNumOrComma _ _ lbr lbr _ _ (hch e) (hch e') hl hl h2
  have he : e = e' := by
    have := congrArg List.reverse h3
    simp only [List.reverse_reverse] at this
    exact joinNums_inj comma (by decide) e e' this
  simp only [List.cons.injEq, true_and] at h4
  have hd := congrArg List.reverse h4
  simp only [List.reverse_reverse] at hd
  exact ⟨hd, he, hf⟩

theorem entText_inj (d d' : Option (List Ch)) (e e' : List Nat) (h : entText d e = entText d' e') :
    devText d = devText d' ∧ e = e' := by
  have := featText_inj d d' e e' none none (by simp [featText, h])
  exact ⟨this.1, this.2.1⟩

/-! ### collisions (kernel-checked) -/

/-- incomplete identifiers: the hash is the present PREFIX — parts after the first absent one are ignored -/
theorem collision_incomplete_same_prefix :
    hashText (uints [some 1, none, some 3]) = hashText (uints [some 1, none, some 4]) ∧
    hashText (uints [none, some 2, some 3]) = hashText (uints [none, some 5, some 6]) ∧
    hashText (uints [none, some 2, some 3]) = [] := by decide

/-- a degenerate address: device part absent vs empty — and both collide with "no address at all" -/
theorem collision_empty_device :
    hashText [some (.struct (devText none))] = hashText [some (.struct (devText (some [])))] ∧
    hashText [some (.struct (devText none))] = hashText [none] := by decide

/-- a kind of identifier that does NOT occur in the data model (`c02_key_kinds` decides that over the regenerated
    table) and would not be injective: a string part BEFORE another part — `("a|b","c")` vs `("a","b|c")`, and an
    empty first string swallows the separator: `("", 1)` vs `(1)` -/
theorem collision_string_before_another_part :
    hashText [some (.str [97, 124, 98]), some (.str [99])] = hashText [some (.str [97]), some (.str [98, 124, 99])] ∧
    hashText [some (.str []), some (.uint 1)] = hashText [some (.uint 1)] := by decide

end Spine.HashKey
