import Spine.JsonThm
import Spine.JsonNorm
import Spine.PeriodJson
/-!
# The generic JSON round trip COMPOSED with TimePeriodType's own (un)marshaler

`Spine.Json` treats every struct alike; `model.TimePeriodType` has its own `MarshalJSON` / `UnmarshalJSON`
(`Spine.PeriodJson`, class level). Here the two are composed, as a theorem:

* A MARKING `Mk` says which struct nodes of a value are `TimePeriodType`s. (The schema type `Ty` cannot say
  it: `TimestampIntervalType` has the very same fields and no marshaler of its own — so the theorems below
  are proved for EVERY marking that marks nodes of the period's shape only; `encoding/json` is the instance
  that marks the nodes whose Go type is `TimePeriodType`, the one type `schemaCustom` lists.)
* `encodeM now` = rewrite every marked node with `marshalV now` (what `MarshalJSON` does to its temporary
  copy), then encode as a plain struct; `decodeM now'` = decode as a plain struct, then rewrite every marked
  node with `unmarshalV now'` (`UnmarshalJSON`: decode into the temporary copy, `setTimePeriodTypeEndTime`).
* Time strings are classified and formatted by an abstract `Codec` (parsing, formatting and rounding are
  C19's subject): only `cls (fmtRel d) = rel d` and `cls (fmtAbs t) = abs t` are assumed of it.

Main theorem `decodeM_encodeM`: the round trip returns the normal form of the value with every marked node
replaced by `rtV` of it, and `rtV` is, class for class, `Spine.PeriodJson.roundtrip` (`tpOfV_rtV`), the
identity on every period that is not end-only (`rtV_id`).
-/
namespace Spine.JsonPeriod
open Spine.Json Spine.PeriodJson

inductive Mk
  | none                       -- no period at or below this node
  | custom                     -- this struct node is a `TimePeriodType`
  | ptr (m : Mk)
  | slice (m : Mk)
  | struct (ms : List Mk)

def keyStartTime : Key := 0x737461727454696d65    -- "startTime"
def keyEndTime : Key := 0x656e6454696d65          -- "endTime"

/-- the schema of `TimePeriodType` (and of its temporary copy `tempTimePeriodType`) -/
def tTP : Ty := .struct [(keyStartTime, true, .ptr .str), (keyEndTime, true, .ptr .str)]

mutual
def mapM (g : V → V) : Mk → V → V
  | .custom, v => g v
  | .ptr m, .some v => .some (mapM g m v)
  | .slice m, .list vs => .list (mapMList g m vs)
  | .struct ms, .strct vs => .strct (mapMFields g ms vs)
  | _, v => v
def mapMList (g : V → V) : Mk → List V → List V
  | _, [] => []
  | m, v :: vs => mapM g m v :: mapMList g m vs
def mapMFields (g : V → V) : List Mk → List V → List V
  | m :: ms, v :: vs => mapM g m v :: mapMFields g ms vs
  | _, vs => vs
end

mutual
/-- the marking fits the type: `custom` only on nodes of the period's shape -/
def mkOk : Mk → Ty → Bool
  | .none, _ => true
  | .custom, .struct [(k1, true, .ptr .str), (k2, true, .ptr .str)] => k1 == keyStartTime && k2 == keyEndTime
  | .ptr m, .ptr t => mkOk m t
  | .slice m, .slice t => mkOk m t
  | .struct ms, .struct fs => mkOkFields ms fs
  | _, _ => false
def mkOkFields : List Mk → List (Key × Bool × Ty) → Bool
  | [], _ => true
  | m :: ms, (_, _, t) :: fs => mkOk m t && mkOkFields ms fs
  | _ :: _, [] => false
end

/-! ## the (un)marshaler on values -/

structure Codec where
  cls : String → TV
  fmtRel : Int → String
  fmtAbs : Int → String
  cls_rel : ∀ d, cls (fmtRel d) = .rel d
  cls_abs : ∀ t, cls (fmtAbs t) = .abs t

def timeOfV (c : Codec) : V → Option TV
  | .some (.str s) => some (c.cls s)
  | _ => Option.none

def tpOfV (c : Codec) : V → TP
  | .strct [s, e] => ⟨timeOfV c s, timeOfV c e⟩
  | _ => ⟨Option.none, Option.none⟩

/-- `MarshalJSON`: an end-only period is written with its end as a duration (a duration in normal form, a
    date-time as the duration from now); everything else as it is -/
def marshalV (c : Codec) (now : Int) : V → V
  | .strct [.nil, .some (.str s)] =>
    match c.cls s with
    | .abs t => .strct [.nil, .some (.str (c.fmtRel (t - now)))]
    | .rel d => .strct [.nil, .some (.str (c.fmtRel d))]
    | .junk => .strct [.nil, .some (.str s)]
  | v => v

/-- `UnmarshalJSON`: an end-only period with a duration as end gets the date-time now + duration -/
def unmarshalV (c : Codec) (now : Int) : V → V
  | .strct [.nil, .some (.str s)] =>
    match c.cls s with
    | .rel d => .strct [.nil, .some (.str (c.fmtAbs (now + d)))]
    | _ => .strct [.nil, .some (.str s)]
  | v => v

def rtV (c : Codec) (n n' : Int) (v : V) : V := unmarshalV c n' (marshalV c n v)

def encodeM (c : Codec) (now : Int) (m : Mk) (t : Ty) (v : V) : J := encode t (mapM (marshalV c now) m v)
def decodeM (c : Codec) (now : Int) (m : Mk) (t : Ty) (j : J) : Option V :=
  (decode t j).map (mapM (unmarshalV c now) m)

/-! ## class level: the value functions ARE `Spine.PeriodJson` -/

/-- a typed value of the period's shape -/
theorem typed_tTP_cases (v : V) (h : typed tTP v = true) :
    ∃ s e, v = .strct [s, e] ∧ (s = .nil ∨ ∃ x, s = .some (.str x)) ∧ (e = .nil ∨ ∃ x, e = .some (.str x)) := by
  have leaf : ∀ w : V, typed (.ptr .str) w = true → (w = .nil ∨ ∃ x, w = .some (.str x)) := by
    intro w hw
    match w with
    | .nil => exact Or.inl rfl
    | .some (.str x) => exact Or.inr ⟨x, rfl⟩
    | .some (.num _) | .some (.bool _) | .some .nil | .some (.some _) | .some (.list _) | .some (.strct _) =>
      simp [typed] at hw
    | .str _ | .num _ | .bool _ | .list _ | .strct _ => simp [typed] at hw
  match v with
  | .strct [s, e] =>
    simp only [tTP, typed, typedFields, Bool.and_eq_true] at h
    exact ⟨s, e, rfl, leaf s h.1, leaf e h.2.1⟩
  | .strct [] | .strct [_] | .strct (_ :: _ :: _ :: _) => simp [tTP, typed, typedFields] at h
  | .str _ | .num _ | .bool _ | .nil | .some _ | .list _ => simp [tTP, typed] at h

theorem tpOfV_marshalV (c : Codec) (n : Int) (v : V) (h : typed tTP v = true) :
    tpOfV c (marshalV c n v) = marshal n (tpOfV c v) := by
  obtain ⟨s, e, rfl, hs, he⟩ := typed_tTP_cases v h
  rcases hs with rfl | ⟨x, rfl⟩ <;> rcases he with rfl | ⟨y, rfl⟩
  · simp [marshalV, tpOfV, timeOfV, marshal, endOnly]
  · simp only [marshalV, tpOfV, timeOfV, marshal, endOnly]
    cases hc : c.cls y <;> simp [tpOfV, timeOfV, hc, c.cls_rel]
  · simp [marshalV, tpOfV, timeOfV, marshal, endOnly]
  · simp [marshalV, tpOfV, timeOfV, marshal, endOnly]

theorem tpOfV_unmarshalV (c : Codec) (n : Int) (v : V) (h : typed tTP v = true) :
    tpOfV c (unmarshalV c n v) = unmarshal n (tpOfV c v) := by
  obtain ⟨s, e, rfl, hs, he⟩ := typed_tTP_cases v h
  rcases hs with rfl | ⟨x, rfl⟩ <;> rcases he with rfl | ⟨y, rfl⟩
  · simp [unmarshalV, tpOfV, timeOfV, unmarshal, endOnly]
  · simp only [unmarshalV, tpOfV, timeOfV, unmarshal, endOnly]
    cases hc : c.cls y <;> simp [tpOfV, timeOfV, hc, c.cls_abs]
  · simp [unmarshalV, tpOfV, timeOfV, unmarshal, endOnly]
  · simp [unmarshalV, tpOfV, timeOfV, unmarshal, endOnly]

theorem typed_marshalV (c : Codec) (n : Int) (v : V) (h : typed tTP v = true) : typed tTP (marshalV c n v) = true := by
  obtain ⟨s, e, rfl, hs, he⟩ := typed_tTP_cases v h
  rcases hs with rfl | ⟨x, rfl⟩ <;> rcases he with rfl | ⟨y, rfl⟩
  · exact h
  · simp only [marshalV]; cases c.cls y <;> simp [tTP, typed, typedFields]
  · exact h
  · exact h

theorem typed_unmarshalV (c : Codec) (n : Int) (v : V) (h : typed tTP v = true) : typed tTP (unmarshalV c n v) = true := by
  obtain ⟨s, e, rfl, hs, he⟩ := typed_tTP_cases v h
  rcases hs with rfl | ⟨x, rfl⟩ <;> rcases he with rfl | ⟨y, rfl⟩
  · exact h
  · simp only [unmarshalV]; cases c.cls y <;> simp [tTP, typed, typedFields]
  · exact h
  · exact h

/-- class for class, the value-level round trip of a period is `Spine.PeriodJson.roundtrip` -/
theorem tpOfV_rtV (c : Codec) (n n' : Int) (v : V) (h : typed tTP v = true) :
    tpOfV c (rtV c n n' v) = roundtrip n n' (tpOfV c v) := by
  unfold rtV roundtrip
  rw [tpOfV_unmarshalV c n' _ (typed_marshalV c n v h), tpOfV_marshalV c n v h]

/-- a period that is not end-only, or whose end is unparsable, comes back as the IDENTICAL strings -/
theorem rtV_id (c : Codec) (n n' : Int) (v : V) (h : typed tTP v = true)
    (hp : endOnly (tpOfV c v) = false ∨ (tpOfV c v).stop = some .junk) : rtV c n n' v = v := by
  obtain ⟨s, e, rfl, hs, he⟩ := typed_tTP_cases v h
  rcases hs with rfl | ⟨x, rfl⟩ <;> rcases he with rfl | ⟨y, rfl⟩
  · rfl
  · simp only [tpOfV, timeOfV, endOnly] at hp
    rcases hp with hp | hp
    · simp at hp
    · simp only [Option.some.injEq] at hp
      simp [rtV, marshalV, unmarshalV, hp]
  · rfl
  · rfl

/-! ## the composition -/

theorem mkOk_custom_ty (t : Ty) (h : mkOk .custom t = true) : t = tTP := by
  match t with
  | .struct [(k1, true, .ptr .str), (k2, true, .ptr .str)] =>
    simp only [mkOk, Bool.and_eq_true, beq_iff_eq] at h
    rw [h.1, h.2]; rfl
  | .str | .num | .bool | .ptr _ | .slice _ => simp [mkOk] at h
  | .struct [] => simp [mkOk] at h
  | .struct [_] => simp [mkOk] at h
  | .struct (_ :: _ :: _ :: _) => simp [mkOk] at h
  | .struct [(_, false, _), _] => simp [mkOk] at h
  | .struct [(_, true, .str), _] | .struct [(_, true, .num), _] | .struct [(_, true, .bool), _]
  | .struct [(_, true, .slice _), _] | .struct [(_, true, .struct _), _] => simp [mkOk] at h
  | .struct [(_, true, .ptr .num), _] | .struct [(_, true, .ptr .bool), _] | .struct [(_, true, .ptr (.ptr _)), _]
  | .struct [(_, true, .ptr (.slice _)), _] | .struct [(_, true, .ptr (.struct _)), _] => simp [mkOk] at h
  | .struct [(_, true, .ptr .str), (_, false, _)] => simp [mkOk] at h
  | .struct [(_, true, .ptr .str), (_, true, .str)] | .struct [(_, true, .ptr .str), (_, true, .num)]
  | .struct [(_, true, .ptr .str), (_, true, .bool)] | .struct [(_, true, .ptr .str), (_, true, .slice _)]
  | .struct [(_, true, .ptr .str), (_, true, .struct _)] => simp [mkOk] at h
  | .struct [(_, true, .ptr .str), (_, true, .ptr .num)] | .struct [(_, true, .ptr .str), (_, true, .ptr .bool)]
  | .struct [(_, true, .ptr .str), (_, true, .ptr (.ptr _))] | .struct [(_, true, .ptr .str), (_, true, .ptr (.slice _))]
  | .struct [(_, true, .ptr .str), (_, true, .ptr (.struct _))] => simp [mkOk] at h

mutual
/-- rewriting the marked nodes with a function that keeps periods well typed keeps the value well typed -/
theorem typed_mapM (g : V → V) (hg : ∀ v, typed tTP v = true → typed tTP (g v) = true) (m : Mk) (t : Ty) (v : V)
    (hm : mkOk m t = true) (ht : typed t v = true) : typed t (mapM g m v) = true := by
  match m, t, v with
  | .custom, t, v =>
    have := mkOk_custom_ty t hm
    subst this
    simp only [mapM]; exact hg v ht
  | .ptr m, .ptr t, .some v =>
    simp only [mkOk] at hm
    simp only [typed] at ht
    simp only [mapM, typed]; exact typed_mapM g hg m t v hm ht
  | .slice m, .slice t, .list vs =>
    simp only [mkOk] at hm
    simp only [typed] at ht
    simp only [mapM, typed]; exact typedList_mapM g hg m t vs hm ht
  | .struct ms, .struct fs, .strct vs =>
    simp only [mkOk] at hm
    simp only [typed] at ht
    simp only [mapM, typed]; exact typedFields_mapM g hg ms fs vs hm ht
  | .none, _, v => simp only [mapM]; exact ht
  | .ptr _, .ptr _, .nil => simp only [mapM]; exact ht
  | .slice _, .slice _, .nil => simp only [mapM]; exact ht
  | .ptr _, .ptr _, .str _ | .ptr _, .ptr _, .num _ | .ptr _, .ptr _, .bool _ | .ptr _, .ptr _, .list _
  | .ptr _, .ptr _, .strct _ => simp [typed] at ht
  | .slice _, .slice _, .str _ | .slice _, .slice _, .num _ | .slice _, .slice _, .bool _ | .slice _, .slice _, .some _
  | .slice _, .slice _, .strct _ => simp [typed] at ht
  | .struct _, .struct _, .str _ | .struct _, .struct _, .num _ | .struct _, .struct _, .bool _
  | .struct _, .struct _, .nil | .struct _, .struct _, .some _ | .struct _, .struct _, .list _ => simp [typed] at ht
  | .ptr _, .str, _ | .ptr _, .num, _ | .ptr _, .bool, _ | .ptr _, .slice _, _ | .ptr _, .struct _, _ => simp [mkOk] at hm
  | .slice _, .str, _ | .slice _, .num, _ | .slice _, .bool, _ | .slice _, .ptr _, _ | .slice _, .struct _, _ => simp [mkOk] at hm
  | .struct _, .str, _ | .struct _, .num, _ | .struct _, .bool, _ | .struct _, .ptr _, _ | .struct _, .slice _, _ => simp [mkOk] at hm
theorem typedList_mapM (g : V → V) (hg : ∀ v, typed tTP v = true → typed tTP (g v) = true) (m : Mk) (t : Ty) (vs : List V)
    (hm : mkOk m t = true) (ht : typedList t vs = true) : typedList t (mapMList g m vs) = true := by
  match vs with
  | [] => simp [mapMList, typedList]
  | v :: vs =>
    simp only [typedList, Bool.and_eq_true] at ht
    simp only [mapMList, typedList, Bool.and_eq_true]
    exact ⟨typed_mapM g hg m t v hm ht.1, typedList_mapM g hg m t vs hm ht.2⟩
theorem typedFields_mapM (g : V → V) (hg : ∀ v, typed tTP v = true → typed tTP (g v) = true) (ms : List Mk)
    (fs : List (Key × Bool × Ty)) (vs : List V)
    (hm : mkOkFields ms fs = true) (ht : typedFields fs vs = true) : typedFields fs (mapMFields g ms vs) = true := by
  match ms, fs, vs with
  | [], _, vs => simp only [mapMFields]; exact ht
  | m :: ms, (k, o, t) :: fs, v :: vs =>
    simp only [mkOkFields, Bool.and_eq_true] at hm
    simp only [typedFields, Bool.and_eq_true] at ht
    simp only [mapMFields, typedFields, Bool.and_eq_true]
    exact ⟨typed_mapM g hg m t v hm.1 ht.1, typedFields_mapM g hg ms fs vs hm.2 ht.2⟩
  | _ :: _, [], _ => simp [mkOkFields] at hm
  | _ :: _, _ :: _, [] => simp [typedFields] at ht
end

/-- COMPOSITION, raw form: encoding with `MarshalJSON` at the marked nodes and decoding with `UnmarshalJSON`
    at the marked nodes is: rewrite the periods for the wire, take the normal form, rewrite the periods
    at the receiver. For every well-formed type, every valid marking, every well-typed value. -/
theorem decodeM_encodeM_raw (c : Codec) (n n' : Int) (m : Mk) (t : Ty) (v : V)
    (hwf : wf t = true) (hm : mkOk m t = true) (ht : typed t v = true) :
    decodeM c n' m t (encodeM c n m t v) =
      some (mapM (unmarshalV c n') m (norm t (mapM (marshalV c n) m v))) := by
  unfold decodeM encodeM
  rw [decode_encode t _ hwf (typed_mapM _ (typed_marshalV c n) m t v hm ht)]
  rfl

/-! ## the composition, final form: `norm` and the period rewriting commute -/

theorem norm_tTP (v : V) (h : typed tTP v = true) : norm tTP v = v := by
  obtain ⟨s, e, rfl, hs, he⟩ := typed_tTP_cases v h
  rcases hs with rfl | ⟨x, rfl⟩ <;> rcases he with rfl | ⟨y, rfl⟩ <;>
    simp [tTP, norm, normFields, isEmptyV]

theorem not_empty_of_tTP (v : V) (h : typed tTP v = true) : isEmptyV v = false := by
  obtain ⟨s, e, rfl, _, _⟩ := typed_tTP_cases v h
  rfl

/-- rewriting periods never makes a value empty or non-empty (so `omitempty` decides the same) -/
theorem isEmptyV_mapM (g : V → V) (hg : ∀ v, typed tTP v = true → typed tTP (g v) = true) (m : Mk) (t : Ty) (v : V)
    (hm : mkOk m t = true) (ht : typed t v = true) : isEmptyV (mapM g m v) = isEmptyV v := by
  match m, v with
  | .custom, v =>
    have := mkOk_custom_ty t hm
    subst this
    simp only [mapM]
    rw [not_empty_of_tTP v ht, not_empty_of_tTP _ (hg v ht)]
  | .ptr m, .some v => simp [mapM, isEmptyV]
  | .slice m, .list [] => simp [mapM, mapMList]
  | .slice m, .list (_ :: _) => simp [mapM, mapMList, isEmptyV]
  | .struct ms, .strct vs => simp [mapM, isEmptyV]
  | .none, v => simp [mapM]
  | .ptr _, .nil | .ptr _, .str _ | .ptr _, .num _ | .ptr _, .bool _ | .ptr _, .list _ | .ptr _, .strct _ => simp [mapM]
  | .slice _, .nil | .slice _, .str _ | .slice _, .num _ | .slice _, .bool _ | .slice _, .some _ | .slice _, .strct _ => simp [mapM]
  | .struct _, .nil | .struct _, .str _ | .struct _, .num _ | .struct _, .bool _ | .struct _, .some _ | .struct _, .list _ => simp [mapM]

theorem mapM_nil_of_empty (g : V → V) (m : Mk) (t : Ty) (v : V)
    (hm : mkOk m t = true) (ht : typed t v = true) (he : isEmptyV v = true) : mapM g m .nil = .nil := by
  match m with
  | .custom =>
    have := mkOk_custom_ty t hm
    subst this
    rw [not_empty_of_tTP v ht] at he
    exact absurd he (by simp)
  | .none | .ptr _ | .slice _ | .struct _ => simp [mapM]

mutual
theorem norm_mapM (g : V → V) (hg : ∀ v, typed tTP v = true → typed tTP (g v) = true) (m : Mk) (t : Ty) (v : V)
    (hm : mkOk m t = true) (ht : typed t v = true) : norm t (mapM g m v) = mapM g m (norm t v) := by
  match m, t, v with
  | .custom, t, v =>
    have := mkOk_custom_ty t hm
    subst this
    simp only [mapM]
    rw [norm_tTP _ (hg v ht), norm_tTP v ht]
  | .ptr m, .ptr t, .some v =>
    simp only [mkOk] at hm
    simp only [typed] at ht
    simp only [mapM, norm, norm_mapM g hg m t v hm ht]
  | .slice m, .slice t, .list vs =>
    simp only [mkOk] at hm
    simp only [typed] at ht
    simp only [mapM, norm, normList_mapM g hg m t vs hm ht]
  | .struct ms, .struct fs, .strct vs =>
    simp only [mkOk] at hm
    simp only [typed] at ht
    simp only [mapM, norm, normFields_mapM g hg ms fs vs hm ht]
  | .none, _, v => simp only [mapM]
  | .ptr _, .ptr _, .nil => simp only [mapM, norm]
  | .slice _, .slice _, .nil => simp only [mapM, norm]
  | .ptr _, .ptr _, .str _ | .ptr _, .ptr _, .num _ | .ptr _, .ptr _, .bool _ | .ptr _, .ptr _, .list _
  | .ptr _, .ptr _, .strct _ => simp [typed] at ht
  | .slice _, .slice _, .str _ | .slice _, .slice _, .num _ | .slice _, .slice _, .bool _ | .slice _, .slice _, .some _
  | .slice _, .slice _, .strct _ => simp [typed] at ht
  | .struct _, .struct _, .str _ | .struct _, .struct _, .num _ | .struct _, .struct _, .bool _
  | .struct _, .struct _, .nil | .struct _, .struct _, .some _ | .struct _, .struct _, .list _ => simp [typed] at ht
  | .ptr _, .str, _ | .ptr _, .num, _ | .ptr _, .bool, _ | .ptr _, .slice _, _ | .ptr _, .struct _, _ => simp [mkOk] at hm
  | .slice _, .str, _ | .slice _, .num, _ | .slice _, .bool, _ | .slice _, .ptr _, _ | .slice _, .struct _, _ => simp [mkOk] at hm
  | .struct _, .str, _ | .struct _, .num, _ | .struct _, .bool, _ | .struct _, .ptr _, _ | .struct _, .slice _, _ => simp [mkOk] at hm
theorem normList_mapM (g : V → V) (hg : ∀ v, typed tTP v = true → typed tTP (g v) = true) (m : Mk) (t : Ty) (vs : List V)
    (hm : mkOk m t = true) (ht : typedList t vs = true) : normList t (mapMList g m vs) = mapMList g m (normList t vs) := by
  match vs with
  | [] => simp [mapMList, normList]
  | v :: vs =>
    simp only [typedList, Bool.and_eq_true] at ht
    simp only [mapMList, normList, norm_mapM g hg m t v hm ht.1, normList_mapM g hg m t vs hm ht.2]
theorem normFields_mapM (g : V → V) (hg : ∀ v, typed tTP v = true → typed tTP (g v) = true) (ms : List Mk)
    (fs : List (Key × Bool × Ty)) (vs : List V)
    (hm : mkOkFields ms fs = true) (ht : typedFields fs vs = true) :
    normFields fs (mapMFields g ms vs) = mapMFields g ms (normFields fs vs) := by
  match ms, fs, vs with
  | [], _, vs => simp only [mapMFields]
  | m :: ms, (k, o, t) :: fs, v :: vs =>
    simp only [mkOkFields, Bool.and_eq_true] at hm
    simp only [typedFields, Bool.and_eq_true] at ht
    simp only [mapMFields, normFields, isEmptyV_mapM g hg m t v hm.1 ht.1,
      normFields_mapM g hg ms fs vs hm.2 ht.2]
    by_cases he : (o && isEmptyV v) = true
    · simp only [he, if_true]
      simp only [Bool.and_eq_true] at he
      rw [mapM_nil_of_empty g m t v hm.1 ht.1 he.2]
    · simp only [he, if_false, Bool.false_eq_true, norm_mapM g hg m t v hm.1 ht.1]
  | _ :: _, [], _ => simp [mkOkFields] at hm
  | _ :: _, _ :: _, [] => simp [typedFields] at ht
end

mutual
theorem mapM_fuse (g1 g2 : V → V) (m : Mk) (v : V) : mapM g1 m (mapM g2 m v) = mapM (fun x => g1 (g2 x)) m v := by
  match m, v with
  | .custom, v => simp only [mapM]
  | .ptr m, .some v => simp only [mapM, mapM_fuse g1 g2 m v]
  | .slice m, .list vs => simp only [mapM, mapMList_fuse g1 g2 m vs]
  | .struct ms, .strct vs => simp only [mapM, mapMFields_fuse g1 g2 ms vs]
  | .none, v => simp only [mapM]
  | .ptr _, .nil | .ptr _, .str _ | .ptr _, .num _ | .ptr _, .bool _ | .ptr _, .list _ | .ptr _, .strct _ => simp only [mapM]
  | .slice _, .nil | .slice _, .str _ | .slice _, .num _ | .slice _, .bool _ | .slice _, .some _ | .slice _, .strct _ => simp only [mapM]
  | .struct _, .nil | .struct _, .str _ | .struct _, .num _ | .struct _, .bool _ | .struct _, .some _ | .struct _, .list _ => simp only [mapM]
theorem mapMList_fuse (g1 g2 : V → V) (m : Mk) (vs : List V) :
    mapMList g1 m (mapMList g2 m vs) = mapMList (fun x => g1 (g2 x)) m vs := by
  match vs with
  | [] => simp only [mapMList]
  | v :: vs => simp only [mapMList, mapM_fuse g1 g2 m v, mapMList_fuse g1 g2 m vs]
theorem mapMFields_fuse (g1 g2 : V → V) (ms : List Mk) (vs : List V) :
    mapMFields g1 ms (mapMFields g2 ms vs) = mapMFields (fun x => g1 (g2 x)) ms vs := by
  match ms, vs with
  | [], vs => simp only [mapMFields]
  | _ :: _, [] => simp only [mapMFields]
  | m :: ms, v :: vs => simp only [mapMFields, mapM_fuse g1 g2 m v, mapMFields_fuse g1 g2 ms vs]
end

/-- COMPOSITION: for every well-formed type, every valid marking of its `TimePeriodType` nodes and every
    well-typed value, encoding (with `MarshalJSON` at the marked nodes, at time `n`) and decoding (with
    `UnmarshalJSON` at the marked nodes, at time `n'`) yields the NORMAL FORM of the value (absent / empty
    lists) in which every marked period `p` is replaced by `rtV c n n' p` — which is, class for class,
    `Spine.PeriodJson.roundtrip n n'` (`tpOfV_rtV`) and the identical strings unless the period is end-only
    with a parsable end (`rtV_id`). -/
theorem decodeM_encodeM (c : Codec) (n n' : Int) (m : Mk) (t : Ty) (v : V)
    (hwf : wf t = true) (hm : mkOk m t = true) (ht : typed t v = true) :
    decodeM c n' m t (encodeM c n m t v) = some (mapM (rtV c n n') m (norm t v)) := by
  rw [decodeM_encodeM_raw c n n' m t v hwf hm ht, norm_mapM _ (typed_marshalV c n) m t v hm ht, mapM_fuse]
  rfl

/-- with no period marked the composition is the plain theorem -/
theorem decodeM_encodeM_none (c : Codec) (n n' : Int) (t : Ty) (v : V)
    (hwf : wf t = true) (ht : typed t v = true) :
    decodeM c n' .none t (encodeM c n .none t v) = some (norm t v) := by
  rw [decodeM_encodeM c n n' .none t v hwf (by simp [mkOk]) ht]
  simp [mapM]

end Spine.JsonPeriod
