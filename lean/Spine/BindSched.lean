import Spine.Registry
/-! C09, schedule clause inside the registry family: `BindingManager.AddBinding` of the repaired code as the program
    points it consists of, over the state of `Spine.Reg` (real role / type checks, any number of peers with identical
    numbering, every other registry call as an atomic step in between).

    spine/binding_manager.go AddBinding:
      1. `start`  — FeatureByAddress(server) on the local device, serverFeatureType present, checkRoleAndType(server):
                    reads the local tree only; on failure the request ends with an error. (yield point
                    `AddBinding.checked` follows)
      2. `look`   — FeatureByAddress(client) on the requester's tree, checkRoleAndType(client) — on failure the request
                    ends with an error —, then `bindingId()`: an atomic fetch-add on the id counter, OUTSIDE the region of
                    c.mux (so ids are drawn in `look` order, not in `commit` order, and a request refused in step 3 has
                    consumed an id)
      3. `commit` — c.mux.Lock; scan of the entries for the server address; append; event; Unlock: one exclusive
                    region (regenerated fact `addBindingOneRegion`).
    Any interleaving of any number of requests and other calls is a list of these events. -/
namespace Spine.BindSched
open Spine.Reg

structure Req where
  p : Nat
  cEnt : List Nat
  cFeat : Nat
  sEnt : List Nat
  sFeat : Nat
  typ : Nat
deriving DecidableEq, Repr

/-- the server half of `Reg.requestOk` (local tree only) -/
def serverOk (s : Reg.St) (r : Req) : Bool :=
  match findF s.loc r.sEnt r.sFeat with
  | some sv => roleTypeOk sv .server r.typ
  | none => false

/-- the client half (the requester's announced tree) -/
def clientOk (s : Reg.St) (r : Req) : Bool :=
  match findF (s.rem r.p) r.cEnt r.cFeat with
  | some cl => roleTypeOk cl .client r.typ
  | none => false

/-- the scan inside the region: is there an entry on the requested server address? -/
def bound (s : Reg.St) (r : Req) : Bool := s.binds.any (fun e => e.sEnt = r.sEnt && e.sFeat = r.sFeat)

def entryOf (id : Nat) (r : Req) : Entry := ⟨id, r.sEnt, r.sFeat, r.p, r.cEnt, r.cFeat⟩

/-- the sequential call a request is, in the registry family -/
def Req.op (r : Req) : Reg.Op := .bind r.p r.cEnt r.cFeat r.sEnt r.sFeat r.typ

structure St where
  reg : Reg.St
  /-- requests between `start` and `look` (parked at the yield point), by request number -/
  started : List (Nat × Req) := []
  /-- requests between `look` and `commit`, with the id they drew -/
  looked : List (Nat × Req × Nat) := []

inductive Ev
  | start (k : Nat) (r : Req)
  | look (k : Nat)
  | commit (k : Nat)
  /-- any other registry call (a complete critical section of its manager), also a sequential bind -/
  | op (o : Reg.Op)

def inFlight (s : St) (k : Nat) : Bool := s.started.any (·.1 = k) || s.looked.any (·.1 = k)

def startStep (s : St) (k : Nat) (r : Req) : St :=
  if inFlight s k then s
  else if serverOk s.reg r then { s with started := s.started ++ [(k, r)] } else s

def lookStep (s : St) (k : Nat) : St :=
  match s.started.find? (·.1 = k) with
  | none => s
  | some (_, r) =>
    if clientOk s.reg r then
      { reg := { s.reg with bindNum := s.reg.bindNum + 1 },
        started := s.started.filter (·.1 ≠ k),
        looked := s.looked ++ [(k, r, s.reg.bindNum + 1)] }
    else { s with started := s.started.filter (·.1 ≠ k) }

def commitStep (s : St) (k : Nat) : St :=
  match s.looked.find? (·.1 = k) with
  | none => s
  | some (_, r, id) =>
    if bound s.reg r then { s with looked := s.looked.filter (·.1 ≠ k) }
    else { s with reg := { s.reg with binds := s.reg.binds ++ [entryOf id r] }, looked := s.looked.filter (·.1 ≠ k) }

def step (c : Cfg) (s : St) : Ev → St
  | .start k r => startStep s k r
  | .look k => lookStep s k
  | .commit k => commitStep s k
  | .op o => { s with reg := Reg.step c s.reg o }

/-- the answer a request gets at this event, if it ends here (`some true` = granted) -/
def outcome (s : St) : Ev → Option Bool
  | .start k r => if inFlight s k then none else if serverOk s.reg r then none else some false
  | .look k => match s.started.find? (·.1 = k) with
    | none => none
    | some (_, r) => if clientOk s.reg r then none else some false
  | .commit k => match s.looked.find? (·.1 = k) with
    | none => none
    | some (_, r, _) => some (!bound s.reg r)
  | .op (.bind p ce cf se sf t) => some (addBind s.reg p ce cf se sf t).2
  | .op _ => none

/-- the sequential call this event is linearised as: a request takes effect, as ONE `Reg.Op.bind`, at the event at
    which it ends — at `start` or `look` if a check fails there, at `commit` otherwise -/
def lin (s : St) : Ev → Option Reg.Op
  | .start k r => if inFlight s k then none else if serverOk s.reg r then none else some r.op
  | .look k => match s.started.find? (·.1 = k) with
    | none => none
    | some (_, r) => if clientOk s.reg r then none else some r.op
  | .commit k => match s.looked.find? (·.1 = k) with
    | none => none
    | some (_, r, _) => some r.op
  | .op o => some o

def init (loc : List Feat) (rem : Nat → List Feat) : St := { reg := { loc := loc, rem := rem } }

def runFrom (c : Cfg) (s : St) (evs : List Ev) : St := evs.foldl (step c) s

def run (c : Cfg) (loc : List Feat) (rem : Nat → List Feat) (evs : List Ev) : St := runFrom c (init loc rem) evs

/-- the sequential history an event list is equivalent to: its linearisation points in order -/
def trace (c : Cfg) : St → List Ev → List Reg.Op
  | _, [] => []
  | s, e :: es => (match lin s e with | some o => [o] | none => []) ++ trace c (step c s e) es

/-- the answers in the order in which the requests end -/
def outcomes (c : Cfg) : St → List Ev → List Bool
  | _, [] => []
  | s, e :: es => (match outcome s e with | some b => [b] | none => []) ++ outcomes c (step c s e) es

/-- the answers of the bind calls of a sequential history -/
def seqOutcomes (c : Cfg) : Reg.St → List Reg.Op → List Bool
  | _, [] => []
  | t, o :: os =>
    (match o with
     | .bind p ce cf se sf ty => [(addBind t p ce cf se sf ty).2]
     | _ => []) ++ seqOutcomes c (Reg.step c t o) os

/-- calls that leave the announced trees as they are (everything but an entity removal / a featureless announcement) -/
def Ev.static : Ev → Bool
  | .op (.dropEnt _ _) => false
  | .op (.bareEnt _ _) => false
  | _ => true

end Spine.BindSched
