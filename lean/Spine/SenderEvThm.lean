import Spine.SenderEv
import Spine.SenderThm
/-! Lemmas about the event-sourced request/response model `Spine.SndEv` (C13). -/
namespace Spine.SndEv
open Spine.Snd Spine.Snd.Spec

theorem spec_run_append (a b : List Obs) :
    ∀ u, Spec.run u (a ++ b) = (Spec.run u a).bind (fun u' => Spec.run u' b) := by
  induction a with
  | nil => intro u; simp [Spec.run]
  | cons o os ih =>
    intro u
    simp only [List.cons_append, Spec.run]
    cases Spec.step u o with
    | none => simp
    | some u' => simpa using ih u'

/-- invariant of the event-sourced model, both members -/
structure EInv (f : Bool) (s : St) : Prop where
  base : Snd.Inv s.base
  heldCtr : ∀ x, s.held = some x → x.2.1 ≤ s.base.msgNum
  heldHash : f = false → ∀ x, s.held = some x → x.2.2 ∉ s.base.req.map (·.2)

theorem remember_inv (b : Snd.St) (c h : Nat) (hi : Snd.Inv b) (hc : c ≤ b.msgNum)
    (hh : h ∉ b.req.map (·.2)) : Snd.Inv (remember b c h) := by
  have hsub := evict_sublist b
  refine ⟨?_, ?_, ?_⟩
  · simp only [remember, List.map_append, List.map_cons, List.map_nil]
    rw [List.nodup_append]
    refine ⟨(hsub.map _).nodup hi.hashes, by simp, ?_⟩
    intro a ha x hx
    simp only [List.mem_singleton] at hx
    subst hx
    intro heq; subst heq
    exact hh ((hsub.map _).subset ha)
  · intro e he
    simp only [remember, List.mem_append, List.mem_singleton] at he
    rcases he with he | rfl
    · exact hi.ctrs e (hsub.subset he)
    · exact hc
  · simp only [remember, List.length_append, List.length_cons, List.length_nil]
    have := evict_length b hi.bound
    have hl : (remember b c h).limit = b.limit := rfl
    omega

theorem step_msgNum_le (b : Snd.St) (o : Snd.Op) : b.msgNum ≤ (Snd.step b o).msgNum := by
  cases o with
  | request h => simp only [Snd.step, request]; split <;> simp
  | response r => simp [Snd.step, response]
  | other => simp [Snd.step, other]
  | notify => simp [Snd.step, notify]
  | get c => simp only [Snd.step, Snd.get]; split <;> simp

def isRequest : Snd.Op → Bool | .request _ => true | _ => false

theorem plain_req_sub (b : Snd.St) (o : Snd.Op) (hn : isRequest o = false) :
    ∀ e ∈ (Snd.step b o).req, e ∈ b.req := by
  cases o with
  | request h => simp [isRequest] at hn
  | response r => intro e he; simp only [Snd.step, response] at he; exact (List.mem_filter.mp he).1
  | other => intro e he; simpa [Snd.step, other] using he
  | notify => intro e he; simpa [Snd.step, notify] using he
  | get c => intro e he; simp only [Snd.step, Snd.get] at he; split at he <;> exact he

theorem plainStep_eq (s : St) (o : Snd.Op) (hn : isRequest o = false) :
    plainStep s o = { s with base := Snd.step s.base o } := by
  cases o <;> simp [isRequest] at hn <;> rfl

theorem step_inv (f : Bool) (s : St) (ev : Ev) (hi : EInv f s) : EInv f (step f s ev) := by
  cases ev with
  | reqBegin op h =>
    simp only [step]
    split
    · exact hi
    · simp only [beginFree]
      split
      · exact hi
      · rename_i hnone
        have hh : h ∉ s.base.req.map (·.2) := find?_none_not_mem _ _ hnone
        have hb : Snd.Inv { s.base with msgNum := s.base.msgNum + 1 } :=
          ⟨hi.base.hashes, fun e he => Nat.le_succ_of_le (hi.base.ctrs e he), hi.base.bound⟩
        cases f with
        | true =>
          refine ⟨?_, ?_, (by intro hf; cases hf)⟩
          · simp only [beginMiss, if_true]
            exact remember_inv _ _ _ hb (Nat.le_refl _) hh
          · intro x hx
            simp only [beginMiss, Option.some.injEq] at hx
            subst hx
            simp [beginMiss, remember]
        | false =>
          refine ⟨?_, ?_, ?_⟩
          · simpa [beginMiss] using hb
          · intro x hx
            simp only [beginMiss, Option.some.injEq] at hx
            subst hx
            simp [beginMiss]
          · intro _ x hx
            simp only [beginMiss, Option.some.injEq] at hx
            subst hx
            simpa [beginMiss] using hh
  | reqEnd op =>
    simp only [step]
    split
    · rename_i x hx
      simp only [endHeld]
      split
      · cases f with
        | true =>
          exact ⟨by simpa using hi.base, (by intro y hy; cases hy), (by intro hf; cases hf)⟩
        | false =>
          refine ⟨?_, (by intro y hy; cases hy), (by intro _ y hy; cases hy)⟩
          simp only [Bool.false_eq_true, if_false]
          exact remember_inv _ _ _ hi.base (hi.heldCtr x hx) (hi.heldHash rfl x hx)
      · exact hi
    · exact hi
  | plain o =>
    simp only [step]
    cases hr : isRequest o with
    | true =>
      cases o with
      | request h => exact hi
      | _ => simp [isRequest] at hr
    | false =>
      rw [plainStep_eq s o hr]
      refine ⟨Snd.step_inv _ _ hi.base, ?_, ?_⟩
      · intro x hx
        exact Nat.le_trans (hi.heldCtr x hx) (step_msgNum_le _ _)
      · intro hf x hx hm
        obtain ⟨e, he, heq⟩ := List.mem_map.mp hm
        exact hi.heldHash hf x hx (List.mem_map.mpr ⟨e, plain_req_sub _ _ hr e he, heq⟩)

theorem init_inv (f : Bool) : EInv f {} :=
  ⟨⟨by simp, by simp, by simp⟩, (by intro x hx; cases hx), (by intro _ x hx; cases hx)⟩

theorem run_inv (f : Bool) (evs : List Ev) : ∀ s, EInv f s → EInv f (run f s evs) := by
  induction evs with
  | nil => intro s h; exact h
  | cons e es ih => intro s h; exact ih _ (step_inv f s e h)

/-! ## MODEL ⊨ SPEC under all interleavings (repaired member), and under calm ones (as written) -/

/-- coupling with the SPEC state: what the model remembers — and, as written, the request in flight — is
    written and unanswered for the SPEC -/
structure Coupled (f : Bool) (s : St) (u : U) : Prop where
  req : ∀ c h, (c, h) ∈ s.base.req → (h, c) ∈ u
  held : f = false → ∀ x, s.held = some x → (x.2.2, x.2.1) ∈ u

theorem remember_mem (b : Snd.St) (c h : Nat) : ∀ e ∈ (remember b c h).req, e ∈ b.req ∨ e = (c, h) := by
  intro e he
  simp only [remember, List.mem_append, List.mem_singleton] at he
  rcases he with he | he
  · exact Or.inl (evict_subset b e he)
  · exact Or.inr he

/-- one event: the monitor accepts what is observed and the coupling is kept — in the repaired member always, as
    written when the event is calm -/
theorem step_coupled (f : Bool) (s : St) (u : U) (ev : Ev) (hc : Coupled f s u)
    (hcalm : f = false → calmEv s ev = true) :
    ∃ u', Spec.run u (observe s ev) = some u' ∧ Coupled f (step f s ev) u' := by
  cases ev with
  | reqBegin op h =>
    simp only [step, observe]
    split
    · exact ⟨u, rfl, hc⟩
    · rename_i hfree
      simp only [beginFree]
      split
      · rename_i e hf
        have hm := List.mem_of_find?_eq_some hf
        have hp := List.find?_some hf
        simp only [decide_eq_true_eq] at hp
        refine ⟨u, ?_, hc⟩
        have : (h, e.1) ∈ u := by
          have := hc.req e.1 e.2 hm
          rw [hp] at this; exact this
        simp [Spec.run, Spec.step, this]
      · rename_i hnone
        refine ⟨(h, s.base.msgNum + 1) :: u.filter (·.1 ≠ h), by simp [Spec.run, Spec.step], ?_⟩
        have hkeep : ∀ c' h', (c', h') ∈ s.base.req → (h', c') ∈ (h, s.base.msgNum + 1) :: u.filter (·.1 ≠ h) := by
          intro c' h' hm
          have hne : h' ≠ h := by
            intro heq; subst heq
            have := List.find?_eq_none.mp hnone (c', h') hm
            simp at this
          simp [List.mem_filter, hc.req c' h' hm, hne]
        cases f with
        | true =>
          refine ⟨?_, (by intro hf; cases hf)⟩
          intro c' h' hm
          simp only [beginMiss, if_true] at hm
          rcases remember_mem _ _ _ _ hm with hm | hm
          · exact hkeep c' h' hm
          · simp only [Prod.mk.injEq] at hm
            obtain ⟨rfl, rfl⟩ := hm
            simp
        | false =>
          refine ⟨?_, ?_⟩
          · intro c' h' hm
            exact hkeep c' h' (by simpa [beginMiss] using hm)
          · intro _ x hx
            simp only [beginMiss, Option.some.injEq] at hx
            subst hx
            simp
  | reqEnd op =>
    refine ⟨u, by simp [observe, Spec.run], ?_⟩
    simp only [step]
    split
    · rename_i x hx
      simp only [endHeld]
      split
      · cases f with
        | true => exact ⟨(by simpa using hc.req), (by intro hf; cases hf)⟩
        | false =>
          refine ⟨?_, (by intro _ y hy; cases hy)⟩
          intro c' h' hm
          simp only [Bool.false_eq_true, if_false] at hm
          rcases remember_mem _ _ _ _ hm with hm | hm
          · exact hc.req c' h' hm
          · simp only [Prod.mk.injEq] at hm
            obtain ⟨rfl, rfl⟩ := hm
            exact hc.held rfl x hx
      · exact hc
    · exact hc
  | plain o =>
    cases o with
    | request h => exact ⟨u, by simp [observe, Spec.run], hc⟩
    | response r =>
      refine ⟨u.filter (·.2 ≠ r), by simp [observe, Spec.run, Spec.step], ?_⟩
      refine ⟨?_, ?_⟩
      · intro c h hm
        simp only [step, plainStep, Snd.step, response, List.mem_filter, decide_eq_true_eq] at hm
        simp [List.mem_filter, hc.req c h hm.1, hm.2]
      · intro hf x hx
        have hcl := hcalm hf
        simp only [step, plainStep] at hx
        simp only [calmEv, hx, bne_iff_ne, ne_eq] at hcl
        simp [List.mem_filter, hc.held hf x hx, hcl]
    | other =>
      exact ⟨u, by simp [observe, Spec.run], ⟨fun c h hm => hc.req c h (by simpa [step, plainStep, Snd.step, other] using hm),
        fun hf x hx => hc.held hf x (by simpa [step, plainStep] using hx)⟩⟩
    | notify =>
      exact ⟨u, by simp [observe, Spec.run], ⟨fun c h hm => hc.req c h (by simpa [step, plainStep, Snd.step, notify] using hm),
        fun hf x hx => hc.held hf x (by simpa [step, plainStep] using hx)⟩⟩
    | get c =>
      refine ⟨u, by simp [observe, Spec.run], ⟨?_, fun hf x hx => hc.held hf x (by simpa [step, plainStep] using hx)⟩⟩
      intro c' h hm
      simp only [step, plainStep, Snd.step, Snd.get] at hm
      split at hm <;> exact hc.req c' h hm

theorem run_coupled (f : Bool) (evs : List Ev) : ∀ (s : St) (u : U), Coupled f s u →
    (f = false → calm f s evs = true) → (Spec.run u (observations f s evs)).isSome := by
  induction evs with
  | nil => intro s u _ _; simp [observations, Spec.run]
  | cons ev evs ih =>
    intro s u hc hcalm
    have h1 : f = false → calmEv s ev = true := fun hf => by
      have := hcalm hf
      simp only [calm, Bool.and_eq_true] at this
      exact this.1
    have h2 : f = false → calm f (step f s ev) evs = true := fun hf => by
      have := hcalm hf
      simp only [calm, Bool.and_eq_true] at this
      exact this.2
    obtain ⟨u', hu, hc'⟩ := step_coupled f s u ev hc h1
    simp only [observations, spec_run_append, hu, Option.bind_some]
    exact ih _ _ hc' h2

theorem init_coupled (f : Bool) : Coupled f {} [] :=
  ⟨(by intro c h hm; simp at hm), (by intro _ x hx; cases hx)⟩

/-! ## the sequential model is the non-overlapping fragment, in both members -/

theorem seq_request (f : Bool) (s : St) (op h : Nat) (hfree : s.held = none) :
    step f (step f s (.reqBegin op h)) (.reqEnd op) = { base := (Snd.request s.base h).1, held := none } := by
  cases s with
  | mk b held =>
    simp only at hfree
    subst hfree
    cases hfind : b.req.find? (·.2 = h) with
    | some e =>
      simp [step, beginFree, Snd.request, hfind]
    | none =>
      cases f <;> simp [step, beginFree, Snd.request, hfind, beginMiss, endHeld, remember] <;> rfl

/-- a sequential history as an event list: every request runs to its end before the next operation -/
def expand : List Snd.Op → List Ev
  | [] => []
  | .request h :: ops => .reqBegin 0 h :: .reqEnd 0 :: expand ops
  | o :: ops => .plain o :: expand ops

theorem seq_refines (f : Bool) (ops : List Snd.Op) : ∀ b : Snd.St,
    run f { base := b, held := none } (expand ops) = { base := ops.foldl Snd.step b, held := none } := by
  induction ops with
  | nil => intro b; rfl
  | cons o ops ih =>
    intro b
    cases o with
    | request h =>
      simp only [expand, run, List.foldl_cons]
      have := seq_request f { base := b, held := none } 0 h rfl
      rw [this]
      exact ih _
    | response r => simpa [expand, run, step, plainStep] using ih (Snd.step b (.response r))
    | other => simpa [expand, run, step, plainStep] using ih (Snd.step b .other)
    | notify => simpa [expand, run, step, plainStep] using ih (Snd.step b .notify)
    | get c => simpa [expand, run, step, plainStep] using ih (Snd.step b (.get c))

end Spine.SndEv
