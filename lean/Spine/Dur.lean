/-! C19, durations: `period.NewOf` followed by `DurationApprox`, in units of 100 ms, for durations below 3277 days
    (beyond that the library switches to approximate years and months). String rendering and parsing of the
    period (assumption A-period) sit between the two and are not modelled. -/
namespace Spine.Dur

structure Period where
  days : Nat
  hours : Nat
  minutes : Nat
  tenths : Nat          -- seconds in tenths
deriving DecidableEq, Repr

def unitsPerHour : Nat := 36000
def unitsPerMinute : Nat := 600

/-- period.NewOf for a non-negative duration of `n` units of 100 ms, first two cases -/
def newOf (n : Nat) : Option Period :=
  let totalHours := n / unitsPerHour
  if totalHours < 3277 then
    some ⟨0, totalHours, n % unitsPerHour / unitsPerMinute, n % unitsPerMinute⟩
  else
    let totalDays := totalHours / 24
    if totalDays < 3277 then
      some ⟨totalDays, totalHours - totalDays * 24, n % unitsPerHour / unitsPerMinute, n % unitsPerMinute⟩
    else none                                  -- years and months, approximate: outside the theorem

/-- Period.DurationApprox for a period without years and months -/
def approx (p : Period) : Nat :=
  (p.days * 24 + p.hours) * unitsPerHour + p.minutes * unitsPerMinute + p.tenths

/-- C19: every duration that is a whole multiple of 100 ms and shorter than 3277 days survives the conversion
    exactly -/
theorem c19_duration_exact (n : Nat) (h : n / unitsPerHour / 24 < 3277) :
    (newOf n).map approx = some n := by
  unfold newOf approx unitsPerHour unitsPerMinute at *
  simp only
  split
  · simp only [Option.map_some, Option.some.injEq]; omega
  · simp only [h, if_true, Option.map_some, Option.some.injEq]; omega

/-- the first duration the library no longer represents exactly: 3277 days -/
example : newOf (3277 * 24 * 36000) = none := by decide

end Spine.Dur
