/-! C19, durations: `period.NewOf` followed by `Period.DurationApprox` (rickb777/date v1.21.1,
    `period/period.go:97-132, 407-442`), in units of 100 ms, as integer arithmetic on the field tuple.
    Below 3277 days the round trip is exact; from 3277 days on the library switches to approximate
    years (365.2425 d) and months (30.4369 d when splitting, 30.436875 d when summing) and drops
    minutes and seconds. String rendering and parsing of the period in between (assumption A-period:
    `Parse (String p)` has the same `DurationApprox` as `p`; the parser only moves whole multiples of
    24 h from the hours into the days field) is not modelled.
    Core Lean only (imported by `Drivers/Num.lean`). -/
namespace Spine.Dur

structure Period where
  years : Nat
  months : Nat
  days : Nat
  hours : Nat
  minutes : Nat
  tenths : Nat          -- seconds in tenths
deriving DecidableEq, Repr

def unitsPerHour : Nat := 36000
def unitsPerMinute : Nat := 600

/-- third case of `period.NewOf` (≥ 3277 days): approximate years and months, whole hours -/
def newOfLong (totalHours : Nat) : Period :=
  let totalDays := totalHours / 24
  let years := 10000 * totalDays / 3652425
  let months := 10000 * totalDays / 304369 - 12 * years
  ⟨years, months, (totalDays * 10000 - 304369 * months - 3652425 * years) / 10000,
   totalHours - totalDays * 24, 0, 0⟩

/-- is the duration (in units of 100 ms) one for which `newOfLong` transcribes the library? In the third
    case of `period.NewOf` the months are `⌊days/30.4369⌋ - 12·⌊days/365.2425⌋` in SIGNED arithmetic: in a
    narrow band just above a whole number of years (about 10^-6 of all long durations, first near 103 years
    in the runs of the check) the difference is -1, the library builds a period with fields of mixed sign
    and writes a text it refuses to read (`-P-272Y1M-30DT-21H`). The natural subtraction below would
    silently give 0 there, so those durations are OUTSIDE the model (the driver answers `range`, the
    theorems carry `monthsOk`); they lie inside the known finding `duration-ge-3277-days`. -/
def monthsOk (n : Nat) : Bool :=
  let totalDays := n / unitsPerHour / 24
  totalDays < 3277 || 12 * (10000 * totalDays / 3652425) ≤ 10000 * totalDays / 304369

/-- period.NewOf for a non-negative duration of `n` units of 100 ms (fields fit `int16` tenths for
    `n` below 3276 years) -/
def newOf (n : Nat) : Period :=
  let totalHours := n / unitsPerHour
  if totalHours < 3277 then
    ⟨0, 0, 0, totalHours, n % unitsPerHour / unitsPerMinute, n % unitsPerMinute⟩
  else
    let totalDays := totalHours / 24
    if totalDays < 3277 then
      ⟨0, 0, totalDays, totalHours - totalDays * 24, n % unitsPerHour / unitsPerMinute, n % unitsPerMinute⟩
    else newOfLong totalHours

/-- Period.DurationApprox in units of 100 ms: a year is 31 556 952 s, a month 2 629 746 s -/
def approx (p : Period) : Nat :=
  p.years * 315569520 + p.months * 26297460 +
  (p.days * 24 + p.hours) * unitsPerHour + p.minutes * unitsPerMinute + p.tenths

/-- `NewDurationType(d).GetTimeDuration()` for `d` = `z` units of 100 ms, either sign
    (`NewOf` negates, converts, and negates every field) -/
def roundTrip (z : Int) : Int := if z < 0 then -((approx (newOf z.natAbs) : Nat) : Int) else (approx (newOf z.natAbs) : Nat)

/-- the same for a duration in nanoseconds: `NewOf` drops what is below 100 ms -/
def roundTripNs (ns : Int) : Int :=
  if ns < 0 then -((approx (newOf (ns.natAbs / 100000000)) * 100000000 : Nat) : Int)
  else (approx (newOf (ns.natAbs / 100000000)) * 100000000 : Nat)

/-- C19: every duration that is a whole multiple of 100 ms and shorter than 3277 days survives the conversion
    exactly -/
theorem c19_duration_exact (n : Nat) (h : n / unitsPerHour / 24 < 3277) :
    approx (newOf n) = n := by
  unfold newOf approx unitsPerHour unitsPerMinute at *
  simp only
  split
  · simp only; omega
  · simp only [h, if_true]; omega

/-- … for either sign -/
theorem c19_duration_exact_signed (z : Int) (h : z.natAbs / unitsPerHour / 24 < 3277) :
    roundTrip z = z := by
  unfold roundTrip
  rw [c19_duration_exact _ h]
  split <;> omega

/-- the first duration the library no longer represents exactly: 3277 days come back as
    8 years 11 months 20 days = 3276 d 17 h 53 m 42 s -/
theorem duration_3277_days_inexact :
    newOf (3277 * 24 * 36000) = ⟨8, 11, 20, 0, 0, 0⟩ ∧
    approx (newOf (3277 * 24 * 36000)) = (((3276 * 24 + 17) * 60 + 53) * 60 + 42) * 10 := by decide

/-- 10 years of 365 days (87600 h) come back as 87599 h 42 m 54 s -/
theorem duration_10_years_inexact :
    newOf (3650 * 24 * 36000) = ⟨9, 11, 28, 0, 0, 0⟩ ∧
    approx (newOf (3650 * 24 * 36000)) = (87599 * 60 + 42) * 600 + 540 := by decide

end Spine.Dur
