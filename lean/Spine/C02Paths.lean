import Spine.C02Refine
/-!
# How an update reaches the function-data store (C02: "whether received as reply or notify from a peer or applied
# through the local API")

`go/updpaths` regenerates, from the SSA form of the tree under test, one row per (entry point, command classifier,
arguments at the call of `FunctionDataInterface.UpdateDataAny`): `Spine/Generated/UpdPaths.lean`. This file holds
the row type, the row predicates and the model-level consequence: if every reply / notify / local-API row hands
`(remoteWrite, persist) = (false, true)` to the store — decided over the regenerated table in `Props/C02.lean` — a
history of restricted updates is folded by one and the same engine call whichever entry point each update took.
-/
namespace Spine.Paths
open Spine

structure UpdPath where
  rootType : String
  rootMethod : String
  /-- the `model.CmdClassifierType` constants that guard the call (message entry points), else `[]` -/
  label : List String
  /-- abstract value of the argument: "true" | "false" | "param" (a parameter of the entry point) | "?" -/
  remote : String
  persist : String
  /-- "nil" | "param" | "field:<Name>" (a field of the message handed to the entry point) | "?" -/
  fpart : String
  fdel : String
  /-- number of distinct call sites with these values -/
  sites : Nat
deriving Repr, DecidableEq

/-- the entry points of the property statement -/
inductive Entry
  | reply
  | notify
  | localUpdate   -- FeatureLocal.UpdateData
  | localSet      -- FeatureLocal.SetData
deriving Repr, DecidableEq

def Entry.all : List Entry := [.reply, .notify, .localUpdate, .localSet]

/-- is the row a path of this entry kind -/
def Entry.covers (e : Entry) (p : UpdPath) : Bool :=
  match e with
  | .reply => p.rootMethod == "HandleMessage" && p.label.contains "reply"
  | .notify => p.rootMethod == "HandleMessage" && p.label.contains "notify"
  | .localUpdate => p.rootType == "FeatureLocal" && p.rootMethod == "UpdateData"
  | .localSet => p.rootType == "FeatureLocal" && p.rootMethod == "SetData"

def flagOf (s : String) : Option Bool := if s == "true" then some true else if s == "false" then some false else none

/-- `(remoteWrite, persist)` of a row, if both are constants -/
def UpdPath.flags (p : UpdPath) : Option (Bool × Bool) :=
  match flagOf p.remote, flagOf p.persist with
  | some r, some q => some (r, q)
  | _, _ => none

/-- `(remoteWrite, persist)` an entry kind hands to the store according to the table: defined iff the table has a
    row for it and all its rows agree -/
def entryFlags (tbl : List UpdPath) (e : Entry) : Option (Bool × Bool) :=
  match (tbl.filter e.covers).map UpdPath.flags with
  | [] => none
  | f :: fs => if fs.all (· == f) then f else none

/-- a write path: guarded by the classifier `write`, or the approval entry point -/
def UpdPath.isWrite (p : UpdPath) : Bool :=
  p.label.contains "write" || p.rootMethod == "ApproveOrDenyWrite"

/-- row predicate: classifier-guarded rows carry exactly one of reply / notify / write; reply, notify and the
    local API store with `remoteWrite = false`, persisting; a write stores with `remoteWrite = true`, persisting;
    `FeatureRemote.UpdateData` hands its own `persist` on; filters are handed on (from the message, from the
    caller) or absent (`SetData`, node management) — never invented -/
def pathOK (p : UpdPath) : Bool :=
  let filtersOK := (p.fpart == "nil" || p.fpart == "param" || p.fpart == "field:FilterPartial") &&
                   (p.fdel == "nil" || p.fdel == "param" || p.fdel == "field:FilterDelete")
  filtersOK &&
  (if p.isWrite then p.remote == "true" && p.persist == "true" && (p.label == ["write"] || p.label == [])
   else if p.rootMethod == "HandleMessage" then
     (p.label == ["reply"] || p.label == ["notify"] || p.label == ["notify", "reply"]) && p.remote == "false" && p.persist == "true"
   else if p.rootType == "FeatureLocal" && p.rootMethod == "SetData" then
     p.remote == "false" && p.persist == "true" && p.fpart == "nil" && p.fdel == "nil"
   else if p.rootType == "FeatureLocal" && p.rootMethod == "UpdateData" then
     p.remote == "false" && p.persist == "true" && p.fpart == "param" && p.fdel == "param"
   else if p.rootType == "FeatureRemote" && p.rootMethod == "UpdateData" then
     p.remote == "false" && p.persist == "param" && p.fpart == "param" && p.fdel == "param"
   else false)

/-- a history of restricted updates, each tagged with the entry point it came through; the arguments the store
    gets are those of the table -/
def runVia (tbl : List UpdPath) (sh : Shape) : List Item → List (Entry × Upd) → Option (List Item)
  | st, [] => some st
  | st, (e, u) :: us =>
    match entryFlags tbl e with
    | none => none
    | some (remote, persist) =>
      match updateStore sh remote persist st u.items u.fp u.fd with
      | .panic _ => none
      | .ok (store, _, _) => runVia tbl sh store us

/-- if the table gives every entry kind `(false, true)`, the entry kinds are irrelevant: the history is folded by
    the one engine call `runStore` is defined with -/
theorem runVia_eq_runStore (tbl : List UpdPath) (h : ∀ e : Entry, entryFlags tbl e = some (false, true))
    (sh : Shape) : ∀ (us : List (Entry × Upd)) (st : List Item), runVia tbl sh st us = runStore sh st (us.map (·.2))
  | [], st => rfl
  | (e, u) :: us, st => by
    simp only [runVia, h e, List.map_cons, runStore]
    cases updateStore sh false true st u.items u.fp u.fd with
    | panic s => rfl
    | ok t =>
      obtain ⟨store, out, ok⟩ := t
      exact runVia_eq_runStore tbl h sh us store

end Spine.Paths
