import Spine.C03Reg
/-! C01 lifted over histories: the local feature table is never changed by a step, so the per-datagram theorem
    applies in the world of every moment. -/
namespace Spine.Disp

theorem loc_record (w : W) (b : Bool) (d : Dg) : (record w b d).loc = w.loc := by
  unfold record; split <;> rfl

theorem loc_processCmd (w : W) (p : Nat) (d : Dg) : (processCmd w p d).1.loc = w.loc := by
  unfold processCmd
  cases srcF w p d with
  | none => rfl
  | some rf =>
    cases dstF w d with
    | none =>
      simp only []
      split
      · rfl
      · split <;> rfl
    | some lf =>
      simp only []
      split
      · rfl
      · split
        · cases request ((bump (record (setPeer w p (answered (w.peers p) d.ref)) (applies w p lf d) d)
              ((if applies w p lf d = true then notifs w d else []) ++ tag p (responses w p lf rf d))).peers p) d.src d.fn with
          | mk pr' sent => simp only [setPeer, bump, loc_record]
        · simp only [setPeer, bump, loc_record]

theorem loc_step (w : W) (op : Op) : (step w op).1.loc = w.loc := by
  cases op with
  | dg p d => exact loc_processCmd w p d
  | call p ctr ack k =>
    simp only [step, processCall]
    split
    · rfl
    · split
      · cases k <;> rfl
      · rfl
  | entRem p e ctr ack =>
    simp only [step, processEntRem]
    split
    · rfl
    · simp only [bump]; split <;> rfl
  | entAdd p e ctr ack => simp only [step, processEntAdd]; split <;> rfl
  | drop p => rfl
  | conn p => simp only [step, connPeer]; split <;> rfl
  | setData a fn v =>
    simp only [step, localSet]
    split
    · split <;> rfl
    · rfl
  | reann p ctr ref ack => simp only [step, processReann]; split <;> rfl
  | full p keep ctr ack =>
    simp only [step, processFull]
    split
    · rfl
    · split <;> rfl

theorem loc_run (ops : List Op) : ∀ w : W, (run w ops).loc = w.loc := by
  induction ops with
  | nil => intro w; rfl
  | cons op ops ih => intro w; exact (ih (step w op).1).trans (loc_step w op)

theorem cfg_run (ops : List Op) : ∀ w : W, (run w ops).cfg = w.cfg := by
  induction ops with
  | nil => intro w; rfl
  | cons op ops ih => intro w; exact (ih (step w op).1).trans (step_frame w op).1

/-- C01 over histories: after any history of datagrams, registry calls, entity notifications, disconnects and
    connects, the next datagram is answered with exactly the prescribed responses on the sender's connection -/
theorem c01_history (w0 : W) (ops : List Op) (p : Nat) (d : Dg) (hwf : NoCrash w0 d) (hNM : nmReadOnly w0)
    (hx : w0.cfg.resultOnResult = true → ¬ resultToUnknown (run w0 ops) d) :
    (processCmd (run w0 ops) p d).2.filterMap kindOf = (expected (run w0 ops) p d).map fun r => (p, r) := by
  apply c01_exact_partial _ p d (by intro h; rw [cfg_run] at h; exact hwf h)
  · intro lf hlf; rw [loc_run] at hlf; exact hNM lf hlf
  · rw [cfg_run]; exact hx

end Spine.Disp
