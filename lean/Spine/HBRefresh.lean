import Spine.HBCounter
/-! C16: (1) every refresh is notified to every subscriber — the counter model of `HBCounter.lean` extended with the
    subscribers of the device-diagnosis feature and the notify datagrams written (`SetData` → `NotifySubscribers`:
    one `Notify` per registry entry on the feature, device_local.go; that the registry holds each subscriber once is
    C08). (2) stop is final — one stream with its ticker channel (capacity one), its stop channel and a refresh in
    two steps. -/
namespace Spine.HBR

structure St where
  core : HBC.St := {}
  subs : List Nat := []               -- subscribers (registry entries on the feature)
  notes : List (Nat × Nat) := []      -- notify datagrams written: (subscriber, counter), oldest first

inductive Ev
  | refresh (e : HBC.Ev)              -- a draw or a store of some stream
  | subscribe (p : Nat)
  | unsubscribe (p : Nat)

/-- one notify per subscriber for every counter stored -/
def fanout (subs : List Nat) (vs : List Nat) : List (Nat × Nat) := vs.flatMap fun v => subs.map fun p => (p, v)

def step (s : St) : Ev → St
  | .refresh e =>
    let c' := HBC.step s.core e
    { s with core := c', notes := s.notes ++ fanout s.subs (c'.stored.drop s.core.stored.length) }
  | .subscribe p => if s.subs.contains p then s else { s with subs := s.subs ++ [p] }
  | .unsubscribe p => { s with subs := s.subs.filter (· ≠ p) }

def run (subs : List Nat) (evs : List Ev) : St := evs.foldl step { subs := subs }

/-- the counters subscriber `p` has been notified of, in order -/
def received (s : St) (p : Nat) : List Nat := (s.notes.filter (·.1 = p)).map (·.2)

/-- what a step of the counter model adds to the stored counters -/
def added (c : HBC.St) : HBC.Ev → List Nat
  | .draw _ => []
  | .store k => match c.inflight.find? (·.1 = k) with
    | some (_, v) => [v]
    | none => []

theorem stored_step (c : HBC.St) (e : HBC.Ev) : (HBC.step c e).stored = c.stored ++ added c e := by
  cases e with
  | draw k => simp only [HBC.step, added]; split <;> simp
  | store k =>
    simp only [HBC.step, added]
    cases hf : c.inflight.find? (fun x => decide (x.1 = k)) with
    | none => simp
    | some x => obtain ⟨a, v⟩ := x; simp

theorem drop_stored (c : HBC.St) (e : HBC.Ev) : (HBC.step c e).stored.drop c.stored.length = added c e := by
  rw [stored_step]; simp

theorem filter_map_pair (subs : List Nat) (p v : Nat) :
    ((subs.map fun q => (q, v)).filter (·.1 = p)).map (·.2) = (subs.filter (· = p)).map fun _ => v := by
  induction subs with
  | nil => rfl
  | cons q qs ih =>
    simp only [List.map_cons, List.filter_cons]
    by_cases h : q = p
    · simp [h, ih]
    · simp [h, ih]

theorem filter_eq_singleton (subs : List Nat) (p : Nat) (hn : subs.Nodup) (hp : p ∈ subs) :
    subs.filter (· = p) = [p] := by
  induction subs with
  | nil => cases hp
  | cons q qs ih =>
    have ⟨hq, hqs⟩ := List.nodup_cons.mp hn
    simp only [List.filter_cons]
    by_cases h : q = p
    · subst h
      have : qs.filter (· = q) = [] := by
        rw [List.filter_eq_nil_iff]
        intro a ha heq
        have : a = q := by simpa using heq
        exact hq (this ▸ ha)
      simp [this]
    · have hp' : p ∈ qs := by
        rcases List.mem_cons.mp hp with rfl | h'
        · exact absurd rfl h
        · exact h'
      simp [h, ih hqs hp']

theorem received_fanout (subs : List Nat) (vs : List Nat) (p : Nat) (hn : subs.Nodup) (hp : p ∈ subs) :
    ((fanout subs vs).filter (·.1 = p)).map (·.2) = vs := by
  induction vs with
  | nil => rfl
  | cons v vs ih =>
    simp only [fanout, List.flatMap_cons, List.filter_append, List.map_append] at ih ⊢
    rw [filter_map_pair, filter_eq_singleton subs p hn hp, ih]
    rfl

/-- invariant while the subscriber set is fixed: every subscriber has received exactly the stored counters -/
theorem refresh_inv (subs : List Nat) (hn : subs.Nodup) (p : Nat) (hp : p ∈ subs) (es : List HBC.Ev) :
    ∀ s : St, s.subs = subs → received s p = s.core.stored →
      received ((es.map Ev.refresh).foldl step s) p = ((es.map Ev.refresh).foldl step s).core.stored ∧
      ((es.map Ev.refresh).foldl step s).core = es.foldl HBC.step s.core := by
  induction es with
  | nil => intro s _ h; exact ⟨h, rfl⟩
  | cons e es ih =>
    intro s hs h
    simp only [List.map_cons, List.foldl_cons]
    apply ih
    · simp only [step]; exact hs
    · simp only [step, received, List.filter_append, List.map_append]
      rw [drop_stored, stored_step, hs, received_fanout subs _ p hn hp]
      simp only [received] at h
      rw [h]

/-! ### stop is final -/

/-- one heartbeat stream: the ticker's channel holds at most one tick; a refresh is taken from it and later stored -/
structure Stream where
  ready : Bool := false        -- a tick waits in ticker.C
  inflight : Bool := false     -- the stream is between `<-ticker.C` and the end of `SetData`
  stopped : Bool := false      -- the stop channel has been closed (StopHeartbeat / RemoveEntity has returned)
  exited : Bool := false
  afterStop : Nat := 0         -- refreshes completed after the stop
  total : Nat := 0

inductive SEv
  | tick      -- the ticker fires (a tick is dropped when one is already waiting)
  | take      -- select chose `<-ticker.C`
  | store     -- the refresh completes
  | stop      -- close(stopC)
  | exit      -- select chose `<-stopC`

def sstep (s : Stream) : SEv → Stream
  | .tick => if s.exited then s else { s with ready := true }
  | .take => if s.ready && !s.inflight && !s.exited then { s with ready := false, inflight := true } else s
  | .store => if s.inflight then
      { s with inflight := false, total := s.total + 1, afterStop := if s.stopped then s.afterStop + 1 else s.afterStop }
    else s
  | .stop => { s with stopped := true }
  | .exit => if s.stopped && !s.inflight then { s with exited := true } else s

/-- A-inflight for one stream: the ticker does not fire while a refresh is in flight, nor between the stop and the
    moment the stream notices it (both take far less than one period) -/
def Prompt : Stream → List SEv → Prop
  | _, [] => True
  | s, .tick :: es => s.inflight = false ∧ s.stopped = false ∧ Prompt (sstep s .tick) es
  | s, e :: es => Prompt (sstep s e) es

/-- what may still complete after the stop: a refresh in flight or a tick already waiting — never both -/
def credit (s : Stream) : Nat := (if s.inflight then 1 else 0) + (if s.ready && !s.exited then 1 else 0)

structure SInv (s : Stream) : Prop where
  one : s.stopped = true → s.afterStop + credit s ≤ 1
  pre : s.stopped = false → s.afterStop = 0 ∧ credit s ≤ 1

theorem sstep_inv (s : Stream) (e : SEv) (h : SInv s) (hp : e = .tick → s.inflight = false ∧ s.stopped = false) :
    SInv (sstep s e) := by
  obtain ⟨ready, inflight, stopped, exited, a, t⟩ := s
  obtain ⟨h1, h2⟩ := h
  cases e <;> cases ready <;> cases inflight <;> cases stopped <;> cases exited <;>
    (refine ⟨?_, ?_⟩ <;> simp_all [sstep, credit] <;> omega)

end Spine.HBR
