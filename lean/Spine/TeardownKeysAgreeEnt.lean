import Spine.TeardownKeysAgree
import Spine.TeardownServe
/-! C10 — cross-model agreement for the ENTITY removal: on every state of the invariant `TdK.Inv`, for every choice of
    comparisons that names peer and entity, one removal entry of the identity-key model (`TdK.dropEntity`) projects — under
    the abstraction peer := connection of `TeardownKeysAgree` — to `Reg.removeEntity` of the repaired one-number model:
    registries AND the known entities of every peer, for EVERY entity address ([0], unknown entities and unknown
    connections included: then nothing changes on either side). `TeardownKeysAgree.drop_agrees_reg` is the device half. -/
namespace Spine.TdK

theorem map_filter_abs_ent (es : List Entry) (k : Nat) (ent : List Nat) :
    (es.filter (fun e => !(e.cl.ski == k && e.cl.ent == ent))).map absEntry =
    (es.map absEntry).filter (fun e => !(decide (e.peer = k) && decide (e.cEnt = ent))) := by
  rw [List.filter_map]
  congr 1
  apply filter_congr_mem
  intro e _
  by_cases h1 : e.cl.ski = k <;> by_cases h2 : e.cl.ent = ent <;> simp [absEntry, h1, h2]

theorem forSki_dropEntity_self (F : Facts) (s : St) (k : Nat) (c : Conn) (hk : forSki s k = some c) (ent : List Nat)
    (h0 : (ent == [0]) = false) (hent : c.ents.contains ent = true) :
    forSki (dropEntity F s k ent).1 k = some { c with ents := c.ents.filter (· != ent) } := by
  obtain ⟨_, hski⟩ := forSki_some hk
  unfold dropEntity
  simp only [hk, h0, hent, Bool.not_true, Bool.or_self, Bool.false_eq_true, if_false]
  simp only [forSki, List.find?_map]
  have hp : ((fun x : Conn => x.ski == k) ∘ dropConnEnt k ent) = (fun x => x.ski == k) := by
    funext x; simp [Function.comp, dropConnEnt_ski]
  rw [hp]
  have : s.conns.find? (fun x => x.ski == k) = some c := hk
  rw [this]
  simp [dropConnEnt, hski]

/-- Cross-model agreement, entity removal: registries and known entities of `TdK.dropEntity` project to
    `Reg.removeEntity` of the repaired member. -/
theorem dropEntity_agrees_reg (F : Facts) (hF : F.ok = true) (s : St) (hs : Inv s) (k : Nat) (ent : List Nat) :
    (abs (dropEntity F s k ent).1).subs = (Reg.removeEntity Reg.Cfg.clean (abs s) k ent).subs ∧
    (abs (dropEntity F s k ent).1).binds = (Reg.removeEntity Reg.Cfg.clean (abs s) k ent).binds ∧
    (∀ q, (abs (dropEntity F s k ent).1).bare q = (Reg.removeEntity Reg.Cfg.clean (abs s) k ent).bare q) := by
  have same : (dropEntity F s k ent).1 = s → Reg.removeEntity Reg.Cfg.clean (abs s) k ent = abs s →
      (abs (dropEntity F s k ent).1).subs = (Reg.removeEntity Reg.Cfg.clean (abs s) k ent).subs ∧
      (abs (dropEntity F s k ent).1).binds = (Reg.removeEntity Reg.Cfg.clean (abs s) k ent).binds ∧
      (∀ q, (abs (dropEntity F s k ent).1).bare q = (Reg.removeEntity Reg.Cfg.clean (abs s) k ent).bare q) := by
    intro h1 h2; rw [h1, h2]; exact ⟨rfl, rfl, fun _ => rfl⟩
  by_cases h0 : ent = [0]
  · subst h0
    apply same
    · rw [dropEntity_zero]
    · simp [Reg.removeEntity]
  · have h0' : (ent == [0]) = false := by simpa using h0
    cases hk : forSki s k with
    | none =>
      apply same
      · unfold dropEntity; rw [hk]
      · simp [Reg.removeEntity, h0, abs, entsOf, hk]
    | some c =>
      by_cases hent : c.ents.contains ent = true
      · have ex := dropEntity_exact F hF s hs k c hk ent h0 hent
        have hbare : ((abs s).bare k).contains ent = true := by simp only [abs, entsOf, hk]; exact hent
        have hreg : Reg.removeEntity Reg.Cfg.clean (abs s) k ent =
            { abs s with bare := fun q => if q = k then ((abs s).bare k).filter (· ≠ ent) else (abs s).bare q,
                         subs := (abs s).subs.filter fun e => !(e.peer = k && e.cEnt = ent),
                         binds := (abs s).binds.filter fun e => !((Reg.Cfg.clean.dropBindsAnyPeer || e.peer = k) && e.cEnt = ent) } := by
          unfold Reg.removeEntity
          rw [if_neg h0]
          have hrem : (((abs s).rem k).map (·.ent)).contains ent = false := by simp [abs]
          rw [hrem, hbare]
          simp
        rw [hreg]
        refine ⟨?_, ?_, ?_⟩
        · simp only [abs]; rw [ex.1]; exact map_filter_abs_ent s.subs k ent
        · simp only [abs]; rw [ex.2.1, map_filter_abs_ent s.binds k ent]
          simp [Reg.Cfg.clean]
        · intro q
          by_cases hq : q = k
          · subst hq
            simp only [abs, entsOf, if_true]
            rw [forSki_dropEntity_self F s q c hk ent h0' hent, hk]
            apply filter_congr_mem
            intro e _
            by_cases he : e = ent <;> simp [he]
          · simp only [abs, entsOf, if_neg hq]
            rw [TdS.forSki_dropEntity_other F s k q ent hq]
      · have hent' : c.ents.contains ent = false := by simpa using hent
        apply same
        · unfold dropEntity; simp only [hk, hent', Bool.not_false, Bool.or_true, if_true]
        · have hb : ((abs s).bare k).contains ent = false := by simp only [abs, entsOf, hk]; exact hent'
          unfold Reg.removeEntity
          rw [if_neg h0]
          have hrem : (((abs s).rem k).map (·.ent)).contains ent = false := by simp [abs]
          rw [hrem, hb]
          simp

end Spine.TdK
