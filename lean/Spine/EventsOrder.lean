import Spine.EventsThm
/-! C15, ordering clauses: of one publication no application handler runs before a core handler, and every core
    delivery has happened when the publication returns. -/
namespace Spine.Bus

/-- `x` is delivered before `y`: never an application delivery before a core delivery of the same publication -/
def Ordered (x y : Nat × H) : Prop := ¬ (x.1 = y.1 ∧ x.2.1 ≠ 0 ∧ y.2.1 = 0)

def StartedIn (pubs : List Pub) (p : Nat) : Prop := ∃ q, pubs.find? (·.id = p) = some q ∧ q.phase ≠ 0
def Started (s : St) (p : Nat) : Prop := StartedIn s.pubs p

structure OInv (s : St) : Prop where
  ord : s.delivered.Pairwise Ordered
  del : ∀ x ∈ s.delivered, Started s x.1
  pen : ∀ x ∈ s.pending, x.2.1 ≠ 0 ∧ Started s x.1

theorem started_setPhase (s : St) (p ph p' : Nat) (hph : ph ≠ 0) (h : Started s p') :
    StartedIn (setPhase s p ph) p' := by
  obtain ⟨q, hq, hp⟩ := h
  unfold StartedIn
  rw [findPub_setPhase, hq]
  refine ⟨_, rfl, ?_⟩
  dsimp only
  split
  · exact hph
  · exact hp

theorem findPub_id (s : St) (p : Nat) (q : Pub) (h : findPub s p = some q) : q.id = p := by
  unfold findPub at h
  have := List.find?_some h
  simpa using this

theorem ostep (s : St) (ev : Ev) (hi : OInv s) : OInv (step s ev) := by
  cases ev with
  | subscribe h =>
    simp only [step]; split
    · exact hi
    · exact ⟨hi.ord, hi.del, hi.pen⟩
  | unsubscribe h => exact ⟨hi.ord, hi.del, hi.pen⟩
  | snapshot p =>
    simp only [step]; split
    · exact hi
    · rename_i hnone
      have hnone' : findPub s p = none := by simpa using hnone
      have keep : ∀ p', Started s p' → StartedIn (s.pubs ++ [⟨p, s.handlers, 0⟩]) p' := by
        intro p' ⟨q, hq, hp⟩
        refine ⟨q, ?_, hp⟩
        have := findPub_append_new s ⟨p, s.handlers, 0⟩ p' hnone'
        simp only at this
        rw [this]
        by_cases hpp : p' = p
        · subst hpp; unfold findPub at hnone'; rw [hnone'] at hq; cases hq
        · simp only [hpp, if_false]; exact hq
      exact ⟨hi.ord, fun x hx => keep _ (hi.del x hx), fun x hx => ⟨(hi.pen x hx).1, keep _ (hi.pen x hx).2⟩⟩
  | handle p =>
    simp only [step]
    split
    · rename_i q hq
      split
      · rename_i hph
        have hqid := findPub_id s p q hq
        have keep : ∀ p', Started s p' → StartedIn (setPhase s p 1) p' :=
          fun p' h => started_setPhase s p 1 p' (by decide) h
        have now : StartedIn (setPhase s p 1) p := by
          unfold StartedIn
          rw [findPub_setPhase]
          unfold findPub at hq
          rw [hq]
          exact ⟨_, rfl, by simp [hqid]⟩
        refine ⟨?_, ?_, ?_⟩
        · rw [List.pairwise_append]
          refine ⟨hi.ord, ?_, ?_⟩
          · apply List.Pairwise.imp_of_mem (R := fun _ _ => True)
            · intro a b ha _ _
              obtain ⟨h, hh, rfl⟩ := List.mem_map.mp ha
              have h0 : h.1 = 0 := by simpa using (List.mem_filter.mp hh).2
              unfold Ordered
              rintro ⟨-, hne, -⟩
              exact hne h0
            · exact List.pairwise_of_forall (fun _ _ => trivial)
          · intro x hx y hy
            obtain ⟨h, hh, rfl⟩ := List.mem_map.mp hy
            unfold Ordered
            rintro ⟨hxp, -, -⟩
            obtain ⟨q', hq', hp'⟩ := hi.del x hx
            simp only at hxp
            unfold findPub at hq
            rw [hxp, hq] at hq'
            cases hq'
            exact hp' hph
        · intro x hx
          rcases List.mem_append.mp hx with hx | hx
          · exact keep _ (hi.del x hx)
          · obtain ⟨h, _, rfl⟩ := List.mem_map.mp hx; exact now
        · intro x hx
          rcases List.mem_append.mp hx with hx | hx
          · exact ⟨(hi.pen x hx).1, keep _ (hi.pen x hx).2⟩
          · obtain ⟨h, hh, rfl⟩ := List.mem_map.mp hx
            exact ⟨by simpa using (List.mem_filter.mp hh).2, now⟩
      · exact hi
    · exact hi
  | ret p =>
    simp only [step]
    split
    · split
      · have keep : ∀ p', Started s p' → StartedIn (setPhase s p 2) p' :=
          fun p' h => started_setPhase s p 2 p' (by decide) h
        exact ⟨hi.ord, fun x hx => keep _ (hi.del x hx), fun x hx => ⟨(hi.pen x hx).1, keep _ (hi.pen x hx).2⟩⟩
      · exact hi
    · exact hi
  | appRun p h =>
    simp only [step]
    split
    · rename_i hc
      have hmem : (p, h) ∈ s.pending := by simpa using hc
      refine ⟨?_, ?_, ?_⟩
      · rw [List.pairwise_append]
        refine ⟨hi.ord, by simp, ?_⟩
        intro x _ y hy
        simp only [List.mem_singleton] at hy; subst hy
        unfold Ordered
        rintro ⟨-, -, h0⟩
        exact (hi.pen _ hmem).1 h0
      · intro x hx
        rcases List.mem_append.mp hx with hx | hx
        · exact hi.del x hx
        · simp only [List.mem_singleton] at hx; subst hx; exact (hi.pen _ hmem).2
      · intro x hx
        exact hi.pen x (List.mem_of_mem_erase hx)
    · exact hi

/-- C15, "core first": in every history, publications overlapping or not, the deliveries of one publication are
    ordered core before application -/
theorem c15_core_before_application (evs : List Ev) : (run evs).delivered.Pairwise Ordered := by
  have : OInv (run evs) := by
    unfold run
    suffices ∀ s, OInv s → OInv (evs.foldl step s) from this {} ⟨by simp, by simp, by simp⟩
    induction evs with
    | nil => intro s h; exact h
    | cons e es ih => intro s h; exact ih _ (ostep s e h)
  exact this.ord

/-- C15, "the stack's internal handlers have finished before publication returns": the step that makes a
    publication return adds no delivery, and every core handler of its snapshot has been served by then
    (phase 1 is only reached through `handle`, which delivers to all of them) -/
theorem ret_delivers_nothing (s : St) (p : Nat) : (step s (.ret p)).delivered = s.delivered := by
  simp only [step]
  split
  · split <;> rfl
  · rfl

theorem handle_serves_core (s : St) (p : Nat) (q : Pub) (hq : findPub s p = some q) (hph : q.phase = 0) (h : H)
    (hh : h ∈ q.snap) (hcore : h.1 = 0) : (p, h) ∈ (step s (.handle p)).delivered := by
  simp only [step, hq, hph, if_true]
  apply List.mem_append_right
  exact List.mem_map.mpr ⟨h, List.mem_filter.mpr ⟨hh, by simpa using hcore⟩, rfl⟩

/-- C15, "subscribing twice has no additional effect" -/
theorem c15_double_subscribe_noop (s : St) (h : H) :
    step (step s (.subscribe h)) (.subscribe h) = step s (.subscribe h) := by
  simp only [step]
  split
  · simp
  · simp

/-- C15, "a handler receives nothing that is published after its unsubscription returned": right after the
    unsubscription the handler is in no later snapshot until it subscribes again -/
theorem c15_unsubscribed_not_in_snapshot (s : St) (h : H) : h ∉ (step s (.unsubscribe h)).handlers := by
  simp [step]

/-- non-vacuity: two overlapping publications, the second handled first -/
example : (run [.subscribe (0, 1), .subscribe (1, 2), .snapshot 1, .snapshot 2, .handle 2, .appRun 2 (1, 2), .handle 1,
    .ret 2, .ret 1, .appRun 1 (1, 2)]).delivered = [(2, (0, 1)), (2, (1, 2)), (1, (0, 1)), (1, (1, 2))] := by decide

end Spine.Bus
