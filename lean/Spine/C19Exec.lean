import Spine.Num
import Spine.C19
import Spine.RndSound
/-! C19: the executable model `Spine.Num` (repaired member) meets clause (a), assembled from the lemmas over
    the rounding relation (`Spine/C19.lean`). The only link between the executable `rnd` and the relation
    is `RndSound`, proved in `Spine/RndSound.lean` (and, independently, asserted by the driver on every
    rounding of every run). Uses Mathlib tactics through `Spine.C19`; not imported by any driver. -/
namespace Spine.Num
open Spine.Rnd


theorem rnd_zero (d : Nat) : rnd 0 d = (0, 0) := by unfold rnd; simp

theorem tenPow_pos (n : Nat) : 0 < tenPow n := by unfold tenPow; positivity

theorem nearestJ_neg (v : Dbl) (n : Nat) (he : v.e < 0) :
    nearestJ v n = (2 * (v.m * 10 ^ n) + 2 ^ (-v.e).toNat) / (2 * 2 ^ (-v.e).toNat) := by
  unfold nearestJ tenPow
  rw [if_neg (by omega), Nat.shiftRight_eq_div_pow, Nat.one_shiftLeft, pow_succ, Nat.mul_comm (2 ^ _) 2]

/-- the decimals search succeeds at `d` digits for the double nearest to `k / 10^d` -/
theorem roundTrips_self (hs : RndSound) (k d : Nat) (hk : 0 < k) (hkb : k < 2 ^ 50) :
    roundTrips ⟨false, (rnd k (tenPow d)).1, (rnd k (tenPow d)).2⟩ d = true := by
  have hv := hs k (tenPow d) hk (tenPow_pos d)
  have hS : 0 < tenPow d := tenPow_pos d
  have he : (rnd k (tenPow d)).2 < 0 := isRnd_exp_neg hS (by nlinarith) hv
  unfold roundTrips
  simp only
  have hj : nearestJ ⟨false, (rnd k (tenPow d)).1, (rnd k (tenPow d)).2⟩ d = k := by
    rw [nearestJ_neg _ _ he]
    simp only
    obtain ⟨E, hE⟩ : ∃ E : Nat, (rnd k (tenPow d)).2 = -(E : Int) := ⟨(-(rnd k (tenPow d)).2).toNat, by omega⟩
    rw [hE] at hv ⊢
    simp only [neg_neg, Int.toNat_natCast]
    exact nearest_recovers k (10 ^ d) _ E hkb (Nat.one_le_pow _ _ (by norm_num)) (by simpa [tenPow] using hv)
  rw [hj]
  simp

theorem decimalsCapped_le4 (v : Dbl) : decimalsCapped v ≤ 4 := by
  unfold decimalsCapped
  repeat' split
  all_goals omega

theorem decimalsCapped_lt4 (v : Dbl) (h : decimalsCapped v < 4) :
    roundTrips v (decimalsCapped v) = true := by
  unfold decimalsCapped at h ⊢
  by_cases h0 : roundTrips v 0 = true
  · simp [h0]
  · by_cases h1 : roundTrips v 1 = true
    · simp [h0, h1]
    · by_cases h2 : roundTrips v 2 = true
      · simp [h0, h1, h2]
      · by_cases h3 : roundTrips v 3 = true
        · simp [h0, h1, h2, h3]
        · simp [h0, h1, h2, h3] at h

theorem decimalsCapped_le (v : Dbl) (d : Nat) (hd : d ≤ 4) (h : roundTrips v d = true) :
    decimalsCapped v ≤ d := by
  unfold decimalsCapped
  by_cases h0 : roundTrips v 0 = true
  · simp [h0]
  · by_cases h1 : roundTrips v 1 = true
    · have : d ≠ 0 := by rintro rfl; exact h0 h
      simp [h0, h1]; omega
    · by_cases h2 : roundTrips v 2 = true
      · have : d ≠ 0 := by rintro rfl; exact h0 h
        have : d ≠ 1 := by rintro rfl; exact h1 h
        simp [h0, h1, h2]; omega
      · by_cases h3 : roundTrips v 3 = true
        · have : d ≠ 0 := by rintro rfl; exact h0 h
          have : d ≠ 1 := by rintro rfl; exact h1 h
          have : d ≠ 2 := by rintro rfl; exact h2 h
          simp [h0, h1, h2, h3]; omega
        · have : d ≠ 0 := by rintro rfl; exact h0 h
          have : d ≠ 1 := by rintro rfl; exact h1 h
          have : d ≠ 2 := by rintro rfl; exact h2 h
          have : d ≠ 3 := by rintro rfl; exact h3 h
          simp [h0, h1, h2, h3]; omega

/-- a successful step of the decimals search yields a decimal that rounds to `v` -/
theorem roundTrips_isRnd (hs : RndSound) (v : Dbl) (n : Nat) (hm : 2 ^ 52 ≤ v.m)
    (h : roundTrips v n = true) : 0 < nearestJ v n ∧ IsRnd (nearestJ v n) (10 ^ n) v.m v.e := by
  unfold roundTrips at h
  simp only [Bool.and_eq_true, Bool.or_eq_true, beq_iff_eq] at h
  obtain ⟨h1, h2⟩ := h
  have hj : 0 < nearestJ v n := by
    rcases Nat.eq_zero_or_pos (nearestJ v n) with h0 | hpos
    · rw [h0, rnd_zero] at h1
      simp only at h1
      omega
    · exact hpos
  refine ⟨hj, ?_⟩
  have hw := hs (nearestJ v n) (tenPow n) hj (tenPow_pos n)
  rcases h2 with h2 | h2
  · omega
  · rw [h1, h2] at hw
    simpa [tenPow] using hw

/-- the five powers of ten are exactly represented: `10^n = m * 2^-E` -/
theorem pow10_exact : ∀ n : Fin 5,
    (pow10 (n.val : Int)).neg = false ∧ (pow10 (n.val : Int)).e < 0 ∧
    (pow10 (n.val : Int)).m = 10 ^ n.val * 2 ^ (-(pow10 (n.val : Int)).e).toNat ∧
    0 < (pow10 (n.val : Int)).m := by decide +kernel

theorem pow10_exact' (n : Nat) (hn : n ≤ 4) :
    (pow10 (n : Int)).neg = false ∧ (pow10 (n : Int)).e < 0 ∧
    (pow10 (n : Int)).m = 10 ^ n * 2 ^ (-(pow10 (n : Int)).e).toNat ∧ 0 < (pow10 (n : Int)).m :=
  pow10_exact ⟨n, by omega⟩

/-- the conversion of an integer below 2^52 to a double is exact -/
theorem isRnd_int_exact {j mj : Nat} {ej : Int} (hj : j < 2 ^ 51) (h : IsRnd j 1 mj ej) :
    ej < 0 ∧ mj = j * 2 ^ (-ej).toNat := by
  have he : ej < 0 := isRnd_exp_neg (by norm_num) (by omega) h
  refine ⟨he, ?_⟩
  unfold IsRnd at h
  obtain ⟨_, _, h3, h4, _, _⟩ := h
  have hz : ej.toNat = 0 := by omega
  simp only [hz, pow_zero, mul_one] at h3 h4
  omega

theorem roundMag_neg (a : Dbl) (he : a.e < 0) :
    roundMag a = roundHalfUp a.m (-a.e).toNat := by
  unfold roundMag roundHalfUp
  rw [if_neg (by omega), Nat.shiftRight_eq_div_pow, Nat.one_shiftLeft, pow_succ, Nat.mul_comm (2 ^ _) 2]

theorem mulRat_neg (a b : Dbl) (he : a.e + b.e < 0) :
    mulRat a b = (a.m * b.m, 2 ^ (-(a.e + b.e)).toNat) := by
  unfold mulRat
  simp only
  rw [if_neg (by omega), Nat.one_shiftLeft]

theorem parseDec_natCast (k d : Nat) :
    parseDec (k : Int) d = ⟨false, (rnd k (tenPow d)).1, (rnd k (tenPow d)).2⟩ := by
  unfold parseDec ofRat
  simp

theorem withSign_false (x : Nat) : withSign false x = (x : Int) := by simp [withSign]

/-- the heart of clause (a) for the repaired member, positive `k`: `number` is the numerator `j` of the
    shortest decimal, `scale = -nd`, and `j * 10^-nd = k * 10^-d` -/
theorem newScaled_pos (hs : RndSound) (k d : Nat) (hd : d ≤ 4) (hk : 0 < k) (hkb : k < 2 ^ 50) :
    ∃ j nd : Nat, nd ≤ d ∧ 0 < j ∧ j * 10 ^ (d - nd) = k ∧
      newScaled .repaired (parseDec (k : Int) d) = ((j : Int), -(nd : Int)) ∧
      IsRnd j (10 ^ nd) (rnd k (tenPow d)).1 (rnd k (tenPow d)).2 := by
  rw [parseDec_natCast]
  have hv := hs k (tenPow d) hk (tenPow_pos d)
  have hS : 0 < tenPow d := tenPow_pos d
  have he : (rnd k (tenPow d)).2 < 0 := isRnd_exp_neg hS (by nlinarith) hv
  have hrt := roundTrips_self hs k d hk hkb
  generalize hm : (rnd k (tenPow d)).1 = m at *
  generalize hee : (rnd k (tenPow d)).2 = e at *
  have hm52 : 2 ^ 52 ≤ m := hv.1
  have hv' : IsRnd k (10 ^ d) m e := by simpa [tenPow] using hv
  have hnd : decimalsCapped ⟨false, m, e⟩ ≤ d := decimalsCapped_le _ d hd hrt
  generalize hndv : decimalsCapped ⟨false, m, e⟩ = nd at *
  -- the decimal found
  obtain ⟨j, hjpos, hjr⟩ : ∃ j : Nat, 0 < j ∧ IsRnd j (10 ^ nd) m e ∧
      (nd < 4 → j = nearestJ ⟨false, m, e⟩ nd) := by
    by_cases h4 : nd < 4
    · have := roundTrips_isRnd hs ⟨false, m, e⟩ nd hm52 (by rw [← hndv]; exact decimalsCapped_lt4 _ (by omega))
      exact ⟨_, this.1, this.2, fun _ => rfl⟩
    · have : nd = 4 := by omega
      have : d = 4 := by omega
      subst_vars
      exact ⟨k, hk, hv', fun h => absurd h (by omega)⟩
  obtain ⟨hjr, _⟩ := hjr
  -- it denotes the same number
  have hT : 0 < 10 ^ nd := by positivity
  have hsplit : 10 ^ d = 10 ^ (d - nd) * 10 ^ nd := by rw [← pow_add]; congr 1; omega
  have huniq : j * 10 ^ (d - nd) = k := by
    apply decimal_unique (by positivity : 0 < 10 ^ d) hkb _ hv'
    exact isRnd_congr hT (by positivity) (by rw [hsplit]; ring) hjr
  have hjb : j < 2 ^ 50 := by
    have : 1 ≤ 10 ^ (d - nd) := Nat.one_le_pow _ _ (by norm_num)
    calc j = j * 1 := by ring
      _ ≤ j * 10 ^ (d - nd) := Nat.mul_le_mul_left _ this
      _ = k := huniq
      _ < 2 ^ 50 := hkb
  refine ⟨j, nd, hnd, hjpos, huniq, ?_, hjr⟩
  -- the product and its rounding
  obtain ⟨hpn, hpe, hpm, hppos⟩ := pow10_exact' nd (by omega)
  obtain ⟨E, hE⟩ : ∃ E : Nat, e = -(E : Int) := ⟨(-e).toNat, by omega⟩
  have hsum : ((⟨false, m, e⟩ : Dbl).e + (pow10 (nd : Int)).e) < 0 := by simp only; omega
  have hmr := mulRat_neg ⟨false, m, e⟩ (pow10 (nd : Int)) hsum
  simp only at hmr
  have hprodpos : 0 < m * (pow10 (nd : Int)).m := Nat.mul_pos (by omega) hppos
  have hp := hs (m * (pow10 (nd : Int)).m) (2 ^ (-(e + (pow10 (nd : Int)).e)).toNat) hprodpos (by positivity)
  generalize hm' : (rnd (m * (pow10 (nd : Int)).m) (2 ^ (-(e + (pow10 (nd : Int)).e)).toNat)).1 = m' at *
  generalize he' : (rnd (m * (pow10 (nd : Int)).m) (2 ^ (-(e + (pow10 (nd : Int)).e)).toNat)).2 = e' at *
  -- as the product of the double by T over 2^E
  have hexp : (-(e + (pow10 (nd : Int)).e)).toNat = E + (-(pow10 (nd : Int)).e).toNat := by omega
  have hp2 : IsRnd (m * 10 ^ nd) (2 ^ E) m' e' := by
    apply isRnd_congr (by positivity) (by positivity) _ hp
    rw [hexp, pow_add, hpm]; ring
  have hjr' : IsRnd j (10 ^ nd) m (-(E : Int)) := by rw [← hE]; exact hjr
  have hT4 : 10 ^ nd ≤ 10 ^ 4 := Nat.pow_le_pow_right (by norm_num) (by omega)
  have he'neg : e' < 0 := by
    apply isRnd_exp_neg (by positivity : 0 < 2 ^ E) _ hp2
    obtain ⟨_, h1a, _⟩ := isRnd_neg j (10 ^ nd) m E hjr'
    have h2E : 1 ≤ 2 ^ E := Nat.one_le_two_pow
    nlinarith
  obtain ⟨E', hE'⟩ : ∃ E' : Nat, e' = -(E' : Int) := ⟨(-e').toNat, by omega⟩
  have hrec := Rnd.c19_round_recovers j (10 ^ nd) m m' E E' hjpos hjb hT hjr' (by rw [← hE']; exact hp2)
  -- unfold the model
  have hprod : scaledProduct ⟨false, m, e⟩ = ⟨false, m', e'⟩ := by
    unfold scaledProduct mul ofRat
    rw [hndv, hmr, hpn]
    simp only [hm', he']
    rfl
  have hnum : toInt .repaired (scaledProduct ⟨false, m, e⟩) = (j : Int) := by
    rw [hprod]
    have h0 : ∀ x : Dbl, toInt .repaired x = roundToInt x := by intro x; simp [toInt, Cfg.repaired]
    rw [h0]
    unfold roundToInt
    simp only
    rw [withSign_false, roundMag_neg _ (by simpa using he'neg)]
    simp only
    rw [hE']
    simp only [neg_neg, Int.toNat_natCast]
    exact_mod_cast hrec
  unfold newScaled
  simp only [hnum, hndv]
  have : ((j : Int) != 0) = true := by simp; omega
  simp [this]

theorem ofInt_natCast (j : Nat) : ofInt (j : Int) = ⟨false, (rnd j 1).1, (rnd j 1).2⟩ := by
  unfold ofInt ofRat
  simp

theorem divRat_ge (a b : Dbl) (he : 0 ≤ a.e - b.e) :
    divRat a b = (a.m * 2 ^ (a.e - b.e).toNat, b.m) := by
  unfold divRat
  simp only
  rw [if_pos (by omega), Nat.shiftLeft_eq]

theorem divRat_lt (a b : Dbl) (he : a.e - b.e < 0) :
    divRat a b = (a.m, b.m * 2 ^ (-(a.e - b.e)).toNat) := by
  unfold divRat
  simp only
  rw [if_neg (by omega), Nat.shiftLeft_eq]

/-- `GetValue` of the repaired member returns the double nearest to `j * 10^-nd` -/
theorem getValue_pos (hs : RndSound) (j nd m : Nat) (e : Int) (hnd : nd ≤ 4) (hj : 0 < j)
    (hjb : j < 2 ^ 50) (hjr : IsRnd j (10 ^ nd) m e) :
    getValue .repaired (j : Int) (-(nd : Int)) = ⟨false, m, e⟩ := by
  have hi := hs j 1 hj (by norm_num)
  obtain ⟨hej, hmj⟩ := isRnd_int_exact (by omega) hi
  obtain ⟨hpn, hpe, hpm, hppos⟩ := pow10_exact' nd hnd
  have hT : 0 < 10 ^ nd := by positivity
  unfold getValue
  rw [ofInt_natCast]
  generalize (rnd j 1).1 = mj at *
  generalize (rnd j 1).2 = ej at *
  have hmjpos : 0 < mj := by rw [hmj]; positivity
  by_cases h0 : nd = 0
  · -- scale 0: the product by 1
    subst h0
    have hc : (decide (-((0 : Nat) : Int) < 0) && !Cfg.repaired.inexactPower) = false := by simp
    rw [hc]
    simp only [Bool.false_eq_true, if_false]
    have hsum : ((⟨false, mj, ej⟩ : Dbl).e + (pow10 (-((0 : Nat) : Int))).e) < 0 := by
      simp only [Nat.cast_zero, neg_zero] at hpe ⊢; omega
    unfold mul ofRat
    rw [mulRat_neg _ _ hsum]
    simp only [Nat.cast_zero, neg_zero] at hpn hpe hpm hppos ⊢
    have hp := hs (mj * (pow10 0).m) (2 ^ (-(ej + (pow10 0).e)).toNat) (Nat.mul_pos hmjpos hppos) (by positivity)
    have hexp : (-(ej + (pow10 0).e)).toNat = (-ej).toNat + (-(pow10 0).e).toNat := by omega
    have hq : mj * (pow10 0).m * 10 ^ 0 = j * 2 ^ (-(ej + (pow10 0).e)).toNat := by
      rw [hexp, pow_add, hpm, hmj]; ring
    have hp2 := isRnd_congr (by positivity) (by positivity) hq hp
    obtain ⟨e1, e2⟩ := isRnd_unique (by positivity) hp2 hjr
    rw [hpn, e1, e2]
    rfl
  · have hc : (decide (-(nd : Int) < 0) && !Cfg.repaired.inexactPower) = true := by
      simp [Cfg.repaired]; omega
    rw [hc]
    simp only [if_true, neg_neg]
    unfold div ofRat
    rw [hpn]
    by_cases hge : 0 ≤ ej - (pow10 (nd : Int)).e
    · rw [divRat_ge _ _ (by simpa using hge)]
      simp only
      have hp := hs (mj * 2 ^ (ej - (pow10 (nd : Int)).e).toNat) (pow10 (nd : Int)).m (by positivity) hppos
      have hexp : (-(pow10 (nd : Int)).e).toNat = (ej - (pow10 (nd : Int)).e).toNat + (-ej).toNat := by omega
      have hq : mj * 2 ^ (ej - (pow10 (nd : Int)).e).toNat * 10 ^ nd = j * (pow10 (nd : Int)).m := by
        rw [hpm, hmj, hexp, pow_add]; ring
      have hp2 := isRnd_congr hppos hT hq hp
      obtain ⟨e1, e2⟩ := isRnd_unique hT hp2 hjr
      rw [e1, e2]
      rfl
    · rw [divRat_lt _ _ (by simpa using hge)]
      simp only
      have hp := hs mj ((pow10 (nd : Int)).m * 2 ^ (-(ej - (pow10 (nd : Int)).e)).toNat) hmjpos (by positivity)
      have hexp : (-ej).toNat = (-(pow10 (nd : Int)).e).toNat + (-(ej - (pow10 (nd : Int)).e)).toNat := by omega
      have hq : mj * 10 ^ nd = j * ((pow10 (nd : Int)).m * 2 ^ (-(ej - (pow10 (nd : Int)).e)).toNat) := by
        rw [hpm, hmj, hexp, pow_add]; ring
      have hp2 := isRnd_congr (by positivity) hT hq hp
      obtain ⟨e1, e2⟩ := isRnd_unique hT hp2 hjr
      rw [e1, e2]
      rfl

theorem parseDec_neg (k : Int) (d : Nat) (hk : k ≠ 0) : parseDec (-k) d = (parseDec k d).negate := by
  unfold parseDec ofRat Dbl.negate
  have h1 : (-k).natAbs = k.natAbs := Int.natAbs_neg k
  have h2 : decide (-k < 0) = !decide (k < 0) := by
    by_cases h : k < 0
    · have : ¬ (-k < 0) := by omega
      simp only [h, this, decide_true, decide_false, Bool.not_true]
    · have : -k < 0 := by omega
      simp only [h, this, decide_true, decide_false, Bool.not_false]
  simp only [h1, h2]

theorem zero_cases : ∀ d : Fin 5,
    newScaled .repaired (parseDec 0 d.val) = (0, 0) ∧ getValue .repaired 0 0 = parseDec 0 d.val := by
  decide +kernel

/-- clause (a) for the repaired member of the executable model, all `d ≤ 4`, `|k| < 2^50`, given that
    the executable `rnd` is correctly rounded -/
theorem repaired_exact (hs : RndSound) (k : Int) (d : Nat) (hd : d ≤ 4) (hk : k.natAbs < 2 ^ 50) :
    (newScaled .repaired (parseDec k d)).1 * 10 ^ d =
      k * 10 ^ (-(newScaled .repaired (parseDec k d)).2).toNat ∧
    -4 ≤ (newScaled .repaired (parseDec k d)).2 ∧ (newScaled .repaired (parseDec k d)).2 ≤ 0 ∧
    getValue .repaired (newScaled .repaired (parseDec k d)).1 (newScaled .repaired (parseDec k d)).2 =
      parseDec k d := by
  -- positive case, reused for the negative one
  have pos : ∀ K : Nat, 0 < K → K < 2 ^ 50 → ∃ j nd : Nat, nd ≤ d ∧ 0 < j ∧
      (j : Int) * 10 ^ d = (K : Int) * 10 ^ nd ∧
      newScaled .repaired (parseDec (K : Int) d) = ((j : Int), -(nd : Int)) ∧
      getValue .repaired (j : Int) (-(nd : Int)) = parseDec (K : Int) d := by
    intro K hK hKb
    obtain ⟨j, nd, hnd, hj, huniq, hns, hjr⟩ := newScaled_pos hs K d hd hK hKb
    have hjb : j < 2 ^ 50 := by
      have : 1 ≤ 10 ^ (d - nd) := Nat.one_le_pow _ _ (by norm_num)
      calc j = j * 1 := by ring
        _ ≤ j * 10 ^ (d - nd) := Nat.mul_le_mul_left _ this
        _ = K := huniq
        _ < 2 ^ 50 := hKb
    refine ⟨j, nd, hnd, hj, ?_, hns, ?_⟩
    · have hsplit : 10 ^ d = 10 ^ (d - nd) * 10 ^ nd := by rw [← pow_add]; congr 1; omega
      have : j * 10 ^ d = K * 10 ^ nd := by rw [← huniq, hsplit]; ring
      exact_mod_cast this
    · rw [getValue_pos hs j nd _ _ (by omega) hj hjb hjr, parseDec_natCast]
  rcases lt_trichotomy k 0 with hneg | hzero | hpos
  · -- negative: sign symmetry
    obtain ⟨K, rfl⟩ : ∃ K : Nat, k = -(K : Int) := ⟨k.natAbs, by omega⟩
    have hK : 0 < K := by omega
    obtain ⟨j, nd, hnd, hj, heq, hns, hgv⟩ := pos K hK (by simpa using hk)
    have hKne : (K : Int) ≠ 0 := by omega
    have hjne : (j : Int) ≠ 0 := by omega
    rw [parseDec_neg _ _ hKne, newScaled_negate, hns]
    simp only
    refine ⟨?_, by omega, by omega, ?_⟩
    · have : (-(-(nd : Int))).toNat = nd := by omega
      rw [this]
      linarith
    · rw [getValue_neg _ _ _ hjne, hgv]
  · subst hzero
    have := zero_cases ⟨d, by omega⟩
    simp only at this
    rw [this.1]
    simp only
    refine ⟨by simp, by omega, by omega, this.2⟩
  · obtain ⟨K, rfl⟩ : ∃ K : Nat, k = (K : Int) := ⟨k.natAbs, by omega⟩
    have hK : 0 < K := by omega
    obtain ⟨j, nd, hnd, hj, heq, hns, hgv⟩ := pos K hK (by simpa using hk)
    rw [hns]
    simp only
    refine ⟨?_, by omega, by omega, hgv⟩
    have : (-(-(nd : Int))).toNat = nd := by omega
    rw [this]
    exact heq

/-- clause (a) for the repaired member, unconditionally -/
theorem repaired_exact_all (k : Int) (d : Nat) (hd : d ≤ 4) (hk : k.natAbs < 2 ^ 50) :
    (newScaled .repaired (parseDec k d)).1 * 10 ^ d =
      k * 10 ^ (-(newScaled .repaired (parseDec k d)).2).toNat ∧
    -4 ≤ (newScaled .repaired (parseDec k d)).2 ∧ (newScaled .repaired (parseDec k d)).2 ≤ 0 ∧
    getValue .repaired (newScaled .repaired (parseDec k d)).1 (newScaled .repaired (parseDec k d)).2 =
      parseDec k d := repaired_exact rnd_sound k d hd hk

/-! ### clause (b): within 10^-4 below 2^53 / 10^4 -/

theorem roundMag_nonpos (a : Dbl) (he : a.e ≤ 0) : roundMag a = roundHalfUp a.m (-a.e).toNat := by
  rcases eq_or_lt_of_le he with h0 | hlt
  · unfold roundMag roundHalfUp
    rw [if_pos (by omega), h0]
    simp only [neg_zero, Int.toNat_zero, pow_zero, Nat.shiftLeft_eq, mul_one]
    omega
  · exact roundMag_neg a hlt

theorem truncMag_nonpos (a : Dbl) (he : a.e ≤ 0) : truncMag a = a.m / 2 ^ (-a.e).toNat := by
  rcases eq_or_lt_of_le he with h0 | hlt
  · unfold truncMag
    rw [if_pos (by omega), h0]
    simp [Nat.shiftLeft_eq]
  · unfold truncMag
    rw [if_neg (by omega), Nat.shiftRight_eq_div_pow]

/-- the product `value * Pow(10, decimals)` of the model is the correctly rounded product -/
theorem scaledProduct_isRnd (m : Nat) (e : Int) (hm : 0 < m) (he : e < 0) :
    ∃ m' e', scaledProduct ⟨false, m, e⟩ = ⟨false, m', e'⟩ ∧
      IsRnd (m * 10 ^ decimalsCapped ⟨false, m, e⟩) (2 ^ (-e).toNat) m' e' := by
  generalize hndv : decimalsCapped ⟨false, m, e⟩ = nd
  have hnd4 : nd ≤ 4 := by rw [← hndv]; exact decimalsCapped_le4 _
  obtain ⟨hpn, hpe, hpm, hppos⟩ := pow10_exact' nd hnd4
  have hsum : ((⟨false, m, e⟩ : Dbl).e + (pow10 (nd : Int)).e) < 0 := by simp only; omega
  have hmr := mulRat_neg ⟨false, m, e⟩ (pow10 (nd : Int)) hsum
  simp only at hmr
  have hp := rnd_isRnd (m * (pow10 (nd : Int)).m) (2 ^ (-(e + (pow10 (nd : Int)).e)).toNat)
    (Nat.mul_pos hm hppos) (by positivity)
  have hexp : (-(e + (pow10 (nd : Int)).e)).toNat = (-e).toNat + (-(pow10 (nd : Int)).e).toNat := by omega
  have hq : m * (pow10 (nd : Int)).m * 2 ^ (-e).toNat =
      m * 10 ^ nd * 2 ^ (-(e + (pow10 (nd : Int)).e)).toNat := by
    rw [hexp, pow_add, hpm]; ring
  refine ⟨_, _, ?_, isRnd_congr (by positivity) (by positivity) hq hp⟩
  unfold scaledProduct mul ofRat
  rw [hndv, hmr, hpn]
  rfl

/-- clause (b) on a positive double `v = m * 2^e` with `v * 10^4 ≤ 2^53 - 1`: the number differs from
    `v * 10^decimals` by at most `10^decimals / 10^4` (cross-multiplied), for the member that rounds, and
    for the member that truncates when the decimals count is 4 -/
theorem close_pos (cfg : Cfg) (m : Nat) (e : Int) (hm1 : 2 ^ 52 ≤ m) (hm2 : m < 2 ^ 53)
    (hb : m * 10 ^ 4 + 2 ^ (-e).toNat ≤ 2 ^ 53 * 2 ^ (-e).toNat)
    (hcase : cfg.truncScaled = false ∨ decimalsCapped ⟨false, m, e⟩ = 4) :
    ∃ num : Nat, toInt cfg (scaledProduct ⟨false, m, e⟩) = (num : Int) ∧
      num * 2 ^ (-e).toNat * 10 ^ 4 ≤
        m * 10 ^ decimalsCapped ⟨false, m, e⟩ * 10 ^ 4 + 2 ^ (-e).toNat * 10 ^ decimalsCapped ⟨false, m, e⟩ ∧
      m * 10 ^ decimalsCapped ⟨false, m, e⟩ * 10 ^ 4 ≤
        num * 2 ^ (-e).toNat * 10 ^ 4 + 2 ^ (-e).toNat * 10 ^ decimalsCapped ⟨false, m, e⟩ := by
  -- e < 0, and 2^E > 5000
  have he : e < 0 := by
    by_contra hcon
    have : (-e).toNat = 0 := by omega
    rw [this] at hb
    omega
  have hE : 10 ^ 4 < 2 * 2 ^ (-e).toNat := by nlinarith
  obtain ⟨m', e', hprod, hp⟩ := scaledProduct_isRnd m e (by omega) he
  generalize hndv : decimalsCapped ⟨false, m, e⟩ = nd at *
  have hnd4 : nd ≤ 4 := by rw [← hndv]; exact decimalsCapped_le4 _
  have hT4 : 10 ^ nd ≤ 10 ^ 4 := Nat.pow_le_pow_right (by norm_num) hnd4
  have hTpos : 0 < 10 ^ nd := by positivity
  generalize hEE : (-e).toNat = E at *
  have hA : 0 < 2 ^ E := by positivity
  -- the product is below 2^53: non-positive exponent
  have he' : e' ≤ 0 := by
    apply isRnd_exp_nonpos hA _ hp
    nlinarith
  obtain ⟨E', hE'⟩ : ∃ E' : Nat, e' = -(E' : Int) := ⟨(-e').toNat, by omega⟩
  rw [hE'] at hp
  rw [hprod]
  by_cases hround : cfg.truncScaled = false
  · -- math.Round
    have hnum : toInt cfg ⟨false, m', e'⟩ = (roundHalfUp m' E' : Int) := by
      unfold toInt roundToInt
      rw [hround]
      simp only [Bool.false_eq_true, if_false]
      rw [withSign_false, roundMag_nonpos _ (by simpa using he')]
      simp only [hE', neg_neg, Int.toNat_natCast]
    refine ⟨roundHalfUp m' E', hnum, ?_⟩
    by_cases h4 : nd = 4
    · obtain ⟨c1, c2⟩ := round_close (m * 10 ^ nd) m' E E' hp
      subst h4
      constructor <;> nlinarith
    · -- fewer than 4 decimals: the decimal is recovered exactly
      have hlt : nd < 4 := by omega
      have hrt := roundTrips_isRnd rnd_sound ⟨false, m, e⟩ nd hm1
        (by rw [← hndv]; exact decimalsCapped_lt4 _ (by omega))
      simp only at hrt
      obtain ⟨hjpos, hjr⟩ := hrt
      generalize nearestJ ⟨false, m, e⟩ nd = j at *
      have heq : e = -(E : Int) := by omega
      rw [heq] at hjr
      obtain ⟨_, j1, j2⟩ := isRnd_neg j (10 ^ nd) m E hjr
      have hT3 : 10 * 10 ^ nd ≤ 10 ^ 4 := by
        calc 10 * 10 ^ nd = 10 ^ (nd + 1) := by rw [pow_succ]; ring
          _ ≤ 10 ^ 4 := Nat.pow_le_pow_right (by norm_num) (by omega)
      have hjb : j < 2 ^ 50 := by
        by_contra hcon
        rw [not_lt] at hcon
        have : 2 ^ 50 * 2 ^ E ≤ j * 2 ^ E := Nat.mul_le_mul_right _ hcon
        nlinarith
      have hrec := Rnd.c19_round_recovers j (10 ^ nd) m m' E E' hjpos hjb hTpos hjr hp
      rw [hrec]
      constructor <;> nlinarith
  · -- math.Trunc with 4 decimals
    have htr : cfg.truncScaled = true := by simpa using hround
    have h4 : nd = 4 := by
      rcases hcase with h | h
      · exact absurd h hround
      · exact h
    have hnum : toInt cfg ⟨false, m', e'⟩ = ((m' / 2 ^ E' : Nat) : Int) := by
      unfold toInt truncToInt
      rw [htr]
      simp only [if_true]
      rw [withSign_false, truncMag_nonpos _ (by simpa using he')]
      simp only [hE', neg_neg, Int.toNat_natCast]
    refine ⟨m' / 2 ^ E', hnum, ?_⟩
    obtain ⟨c1, c2⟩ := trunc_close (m * 10 ^ nd) m' E E' hp
    subst h4
    constructor <;> nlinarith

/-- clause (b) for every normal double of either sign with `|v| * 10^4 ≤ 2^53 - 1`:
    `|number * 10^scale - v| ≤ 10^-4`, multiplied through by `2^E * 10^4 * 10^-scale` (`v = ±m * 2^-E`) -/
theorem close_all (cfg : Cfg) (v : Dbl) (hm1 : 2 ^ 52 ≤ v.m) (hm2 : v.m < 2 ^ 53)
    (hb : v.m * 10 ^ 4 + 2 ^ (-v.e).toNat ≤ 2 ^ 53 * 2 ^ (-v.e).toNat)
    (hcase : cfg.truncScaled = false ∨ decimalsCapped v = 4) :
    ((newScaled cfg v).1 * 2 ^ (-v.e).toNat * 10 ^ 4 -
        withSign v.neg v.m * 10 ^ (-(newScaled cfg v).2).toNat * 10 ^ 4).natAbs ≤
      2 ^ (-v.e).toNat * 10 ^ (-(newScaled cfg v).2).toNat := by
  obtain ⟨neg, m, e⟩ := v
  simp only at hm1 hm2 hb ⊢
  -- the positive double
  have hcase' : cfg.truncScaled = false ∨ decimalsCapped ⟨false, m, e⟩ = 4 := by
    rcases hcase with h | h
    · exact Or.inl h
    · exact Or.inr h
  obtain ⟨num, hnum, c1, c2⟩ := close_pos cfg m e hm1 hm2 hb hcase'
  have key : ((newScaled cfg ⟨false, m, e⟩).1 * 2 ^ (-e).toNat * 10 ^ 4 -
        (m : Int) * 10 ^ (-(newScaled cfg ⟨false, m, e⟩).2).toNat * 10 ^ 4).natAbs ≤
      2 ^ (-e).toNat * 10 ^ (-(newScaled cfg ⟨false, m, e⟩).2).toNat := by
    unfold newScaled
    simp only [hnum]
    generalize decimalsCapped ⟨false, m, e⟩ = nd at *
    generalize (-e).toNat = E at *
    by_cases h0 : num = 0
    · subst h0
      simp only [Nat.cast_zero, bne_self_eq_false, Bool.false_eq_true, if_false, neg_zero,
        Int.toNat_zero, pow_zero, mul_one, zero_mul, zero_sub, Int.natAbs_neg]
      have : m * 10 ^ 4 ≤ 2 ^ E := by
        apply Nat.le_of_mul_le_mul_right (c := 10 ^ nd) _ (by positivity)
        calc m * 10 ^ 4 * 10 ^ nd = m * 10 ^ nd * 10 ^ 4 := by ring
          _ ≤ 0 * 2 ^ E * 10 ^ 4 + 2 ^ E * 10 ^ nd := c2
          _ = 2 ^ E * 10 ^ nd := by ring
      have h2 : ((m : Int) * 10 ^ 4).natAbs = m * 10 ^ 4 := by
        rw [show ((m : Int) * 10 ^ 4) = ((m * 10 ^ 4 : Nat) : Int) by push_cast; ring]
        exact Int.natAbs_natCast _
      rw [h2]; exact this
    · have hne : ((num : Int) != 0) = true := by simp; omega
      simp only [hne, if_true, neg_neg, Int.toNat_natCast]
      have c1' : (num : Int) * 2 ^ E * 10 ^ 4 ≤ (m : Int) * 10 ^ nd * 10 ^ 4 + 2 ^ E * 10 ^ nd := by
        exact_mod_cast c1
      have c2' : (m : Int) * 10 ^ nd * 10 ^ 4 ≤ (num : Int) * 2 ^ E * 10 ^ 4 + 2 ^ E * 10 ^ nd := by
        exact_mod_cast c2
      rw [← Int.ofNat_le, Int.natCast_natAbs]
      push_cast
      rw [abs_le]
      constructor <;> linarith
  cases neg
  · simpa [withSign] using key
  · have hv : (⟨true, m, e⟩ : Dbl) = (⟨false, m, e⟩ : Dbl).negate := rfl
    rw [hv, newScaled_negate]
    simp only [withSign, if_true]
    have : (-(newScaled cfg ⟨false, m, e⟩).1 * 2 ^ (-e).toNat * 10 ^ 4 -
        -(m : Int) * 10 ^ (-(newScaled cfg ⟨false, m, e⟩).2).toNat * 10 ^ 4) =
      -((newScaled cfg ⟨false, m, e⟩).1 * 2 ^ (-e).toNat * 10 ^ 4 -
        (m : Int) * 10 ^ (-(newScaled cfg ⟨false, m, e⟩).2).toNat * 10 ^ 4) := by ring
    rw [this, Int.natAbs_neg]
    exact key

end Spine.Num
