import Spine.Dispatch
/-! C03, "at the moment it is processed", for ALL schedules: an event-sourced model (DESIGN §4.5) of the write gate and
    the binding registry as SEPARATE critical sections.

    In the code a write is not one atomic step: `ProcessCmd` takes a snapshot of the bindings on the addressed feature
    (`BindingManager.BindingsOnFeature`, one region of the manager's mutex) and decides on it (`gate`); the data is
    changed later — at once by `processWrite`, or, when the application registered a write-approval callback, only
    when the approval arrives (`ApproveOrDenyWrite` → `processWrite`, no second look at the registry) (`apply`). In
    between, other connections and the application run registry operations, each one region of the same mutex
    (`reg`): a granted binding, `RemoveBinding`, one `RemoveBindingsForEntity` pass of an entity removal or of a
    disconnect. Removing a remote entity also discards its pending writes (`cleanWriteApprovalCachesForEntity`,
    `clean`). An event whose write is not at that program point is a no-op, so all interleavings of any number of
    writes and registry operations = all event lists.

    The registry operations are those of `Spine.Disp` (`callApply`, `removeEnt`: same family over the C09 / C10 defect
    flags, see `reg_agrees_*`), the verdict is `Spine.Disp.gateOk` (`gate_agrees`). Core Lean only (driver `drv_gate`). -/
namespace Spine.Gate
open Spine.Disp

inductive RegOp
  | grant (e : Entry)                          -- `AddBinding` accepted: the entry is appended
  | delete (s : Addr) (p : Nat) (c : Addr)     -- `RemoveBinding` for (server, connection, client)
  | entGone (p : Nat) (ent : List Nat)         -- one `RemoveBindingsForEntity` pass
deriving Repr

def regApply (cfg : Cfg) (b : List Entry) : RegOp → List Entry
  | .grant e => b ++ [e]
  | .delete s p c => b.filter fun x => !unbindDrops cfg s p c x
  | .entGone p ent => b.filter fun x => !entDrops cfg p ent x

def regFold (cfg : Cfg) (b : List Entry) (ops : List RegOp) : List Entry := ops.foldl (regApply cfg) b

/-- a write between gate and apply: id, (server, connection, client), function announced writable, verdict of the
    gate, number of registry operations that had been executed when the snapshot was taken -/
structure Pend where
  id : Nat
  e : Entry
  wr : Bool
  ok : Bool
  seen : Nat
deriving Repr

structure St where
  cfg : Cfg := Cfg.clean
  b0 : List Entry := []          -- the registry at the start
  binds : List Entry := []
  hist : List RegOp := []        -- the registry operations executed so far, in order
  pend : List Pend := []
  used : List Nat := []          -- write ids that have passed the gate
  applied : List Pend := []      -- writes that changed the data
  refused : List Nat := []       -- writes answered with an error

inductive Ev
  | gate (i : Nat) (e : Entry) (wr : Bool)
  | apply (i : Nat)
  | reg (r : RegOp)
  | clean (p : Nat) (ent : List Nat)
deriving Repr

def verdict (binds : List Entry) (e : Entry) (wr : Bool) : Bool := wr && binds.contains e

def stepGate (s : St) (i : Nat) (e : Entry) (wr : Bool) : St :=
  if s.used.contains i then s else
  { s with used := i :: s.used, pend := ⟨i, e, wr, verdict s.binds e wr, s.hist.length⟩ :: s.pend }

def stepApply (s : St) (i : Nat) : St :=
  match s.pend.find? (·.id = i) with
  | none => s
  | some w =>
    let s' := { s with pend := s.pend.filter (·.id ≠ i) }
    if w.ok then { s' with applied := w :: s.applied } else { s' with refused := i :: s.refused }

def stepReg (s : St) (r : RegOp) : St := { s with binds := regApply s.cfg s.binds r, hist := s.hist ++ [r] }

/-- the pending writes of entity `ent` of connection `p` are discarded — except those the gate has already refused
    (their error result is sent inside `ProcessCmd`, they never wait) -/
def stepClean (s : St) (p : Nat) (ent : List Nat) : St :=
  { s with pend := s.pend.filter fun w => !(w.ok && w.e.2.1 = p && w.e.2.2.1 = ent) }

def step (s : St) : Ev → St
  | .gate i e wr => stepGate s i e wr
  | .apply i => stepApply s i
  | .reg r => stepReg s r
  | .clean p ent => stepClean s p ent

def run (s : St) (evs : List Ev) : St := evs.foldl step s

def init (cfg : Cfg) (b0 : List Entry) : St := { cfg := cfg, b0 := b0, binds := b0 }

/-- what the driver reports for an event -/
def obs (s : St) : Ev → String
  | .gate i e wr => if s.used.contains i then "-" else if verdict s.binds e wr then "ok" else "denied"
  | .apply i =>
    match s.pend.find? (·.id = i) with
    | none => "gone"
    | some w => if w.ok then "applied" else "error"
  | .reg _ => "reg"
  | .clean _ _ => "clean"

end Spine.Gate
