import Spine.TimeText
/-! C19, clause S3b: theorems about the byte-level model `Spine.TimeText` (core Lean, `omega`).

    * the calendar: `civil_spec` — the civil date of every day number is a valid date of the proleptic
      Gregorian calendar and `daysOf` of it is that day number (400/100/4/1-year cycles, leap years, the lengths
      of the months);
    * digits: a field written with two (four) digits is read back by `getnum` (the year);
    * `parse_date`, `parse_time` — `time.parse` over the elements `2006-01-02` and `15:04:05` reads what
      `Time.AppendFormat` wrote, and leaves the rest of text and layout;
    * `parse_written` — for every layout of the family `2006-01-02T15:04:05` + optional `.999…` + (literal bytes |
      one zone element): the text `…Z` written for an instant is accepted iff the tail is the literal `Z` or the
      element `Z07:00`, and then read as that instant;
    * `written_is_read` — `GetTime ∘ NewDateTimeTypeFromTime = Round(second)` for EVERY list of layouts of the
      family that contains an accepting one, every instant of the years 0000–9999, every fraction, every zone. -/
namespace Spine.TimeText

theorem year_parts (a b c e : Nat) (hb : b ≤ 3) (hc : c ≤ 24) (he : e ≤ 3) :
    (400 * a + 100 * b + 4 * c + e) / 4 = 100 * a + 25 * b + c ∧
    (400 * a + 100 * b + 4 * c + e) / 100 = 4 * a + b ∧
    (400 * a + 100 * b + 4 * c + e) / 400 = a := by omega

/-- the cycle decomposition of a day number -/
theorem cycles (N : Nat) : ∃ a b c e doy : Nat, yearDoy N = (400 * a + 100 * b + 4 * c + e, doy) ∧
    b ≤ 3 ∧ c ≤ 24 ∧ e ≤ 3 ∧ N = 146097 * a + 36524 * b + 1461 * c + 365 * e + doy ∧ doy ≤ 365 ∧
    (doy = 365 → e = 3 ∧ (c < 24 ∨ b = 3)) := by
  simp only [yearDoy]
  generalize ha : N / 146097 = a
  generalize hr : N % 146097 = r
  have hN : N = 146097 * a + r := by omega
  have hr' : r < 146097 := by omega
  generalize hb : (if r / 36524 ≥ 4 then 3 else r / 36524) = b
  have hb3 : b ≤ 3 := by split at hb <;> omega
  have hr2 : r - 36524 * b ≤ 36524 ∧ 36524 * b ≤ r ∧ (r - 36524 * b = 36524 → b = 3) := by split at hb <;> omega
  generalize hr2g : r - 36524 * b = r2 at *
  generalize hc : r2 / 1461 = c
  generalize hr3 : r2 % 1461 = r3
  have hc24 : c ≤ 24 := by omega
  have hr2e : r2 = 1461 * c + r3 := by omega
  have hr3' : r3 < 1461 := by omega
  generalize he : (if r3 / 365 ≥ 4 then 3 else r3 / 365) = e
  have he3 : e ≤ 3 := by split at he <;> omega
  have hd : r3 - 365 * e ≤ 365 ∧ 365 * e ≤ r3 ∧ (r3 - 365 * e = 365 → e = 3) := by split at he <;> omega
  refine ⟨a, b, c, e, r3 - 365 * e, rfl, hb3, hc24, he3, by omega, hd.1, ?_⟩
  intro h365
  refine ⟨hd.2.2 h365, ?_⟩
  omega

theorem yearDoy_spec (N : Nat) :
    365 * (yearDoy N).1 + (yearDoy N).1 / 4 - (yearDoy N).1 / 100 + (yearDoy N).1 / 400 + (yearDoy N).2 = N ∧
    (yearDoy N).2 ≤ 365 ∧
    ((yearDoy N).2 = 365 → ((yearDoy N).1 + 1) % 4 = 0 ∧ (((yearDoy N).1 + 1) % 100 ≠ 0 ∨ ((yearDoy N).1 + 1) % 400 = 0)) := by
  obtain ⟨a, b, c, e, doy, h, hb, hc, he, hN, hd, hl⟩ := cycles N
  rw [h]
  obtain ⟨h4, h100, h400⟩ := year_parts a b c e hb hc he
  simp only [h4, h100, h400]
  refine ⟨by omega, hd, ?_⟩
  intro h365
  obtain ⟨he3, hcb⟩ := hl h365
  omega

theorem monthDay_spec (doy : Nat) (h : doy ≤ 365) :
    let md := monthDay doy
    1 ≤ md.1 ∧ md.1 ≤ 12 ∧ 1 ≤ md.2 ∧
    (153 * (if md.1 > 2 then md.1 - 3 else md.1 + 9) + 2) / 5 + md.2 - 1 = doy ∧
    (md.1 = 2 → md.2 ≤ 29 ∧ (md.2 = 29 → doy = 365)) ∧
    ((md.1 = 4 ∨ md.1 = 6 ∨ md.1 = 9 ∨ md.1 = 11) → md.2 ≤ 30) ∧ md.2 ≤ 31 := by
  simp only [monthDay]
  have hmp : (5 * doy + 2) / 153 ≤ 11 := by omega
  by_cases h10 : (5 * doy + 2) / 153 < 10
  · have e1 : (5 * doy + 2) / 153 + 3 > 2 := by omega
    simp only [if_pos h10, if_pos e1]
    omega
  · have e1 : ¬ ((5 * doy + 2) / 153 - 9 > 2) := by omega
    simp only [if_neg h10, if_neg e1]
    omega

theorem isLeap_iff (y : Nat) : isLeap y = true ↔ y % 4 = 0 ∧ (y % 100 ≠ 0 ∨ y % 400 = 0) := by
  simp [isLeap]

/-- the calendar round trip: the civil date of a day number is a valid date and has that day number -/
theorem civil_spec (N : Nat) :
    1 ≤ (civil N).2.1 ∧ (civil N).2.1 ≤ 12 ∧ 1 ≤ (civil N).2.2 ∧
    (civil N).2.2 ≤ daysIn (civil N).2.1 (civil N).1 ∧
    daysOf (civil N).1 (civil N).2.1 (civil N).2.2 = N := by
  obtain ⟨hN, hd, hl⟩ := yearDoy_spec N
  obtain ⟨m1, m12, d1, hdoy, hfeb, h30, h31⟩ := monthDay_spec (yearDoy N).2 hd
  simp only [civil]
  generalize (yearDoy N).1 = Y at *
  generalize (yearDoy N).2 = doy at *
  generalize (monthDay doy).1 = m at *
  generalize (monthDay doy).2 = d at *
  refine ⟨m1, m12, d1, ?_, ?_⟩
  · simp only [daysIn]
    by_cases hm2 : m = 2
    · have hle : m ≤ 2 := by omega
      simp only [hm2, if_true]
      obtain ⟨h29, h29'⟩ := hfeb hm2
      by_cases hlp : isLeap (Y + 1) = true
      · simp [hlp]; exact h29
      · simp [hlp]
        by_cases hd29 : d = 29
        · exact absurd ((isLeap_iff _).2 (hl (h29' hd29))) hlp
        · omega
    · simp only [if_neg hm2]
      by_cases hm : (m = 4 || m = 6 || m = 9 || m = 11) = true
      · simp only [hm, if_true]
        apply h30
        have hm' : ((m = 4 ∨ m = 6) ∨ m = 9) ∨ m = 11 := by simpa using hm
        omega
      · simp only [hm]
        simpa using h31
  · simp only [daysOf]
    by_cases hm : m ≤ 2
    · have hm' : ¬ m > 2 := by omega
      simp only [if_pos hm, if_neg hm'] at hdoy ⊢
      have : Y + 1 - 1 = Y := by omega
      rw [this]
      omega
    · have hm' : m > 2 := by omega
      simp only [if_neg hm, if_pos hm'] at hdoy ⊢
      omega


/-! ## Digits -/

theorem isDigit_dig (x : Nat) : isDigit (dig x) = true := by
  have h : 48 ≤ 48 + x % 10 ∧ 48 + x % 10 ≤ 57 := by omega
  simp [isDigit, dig, h.2]

theorem dval_dig (x : Nat) : dval (dig x) = x % 10 := by
  simp only [dval, dig]; omega

theorem two_digits (x : Nat) (h : x < 100) : x / 10 % 10 * 10 + x % 10 = x := by omega

theorem four_digits (y : Nat) (h : y < 10000) :
    y / 1000 % 10 * 1000 + y / 100 % 10 * 100 + y / 10 % 10 * 10 + y % 10 = y := by omega

theorem get2_fmt2 (x : Nat) (h : x < 100) (v : Text) : get2 (fmt2 x ++ v) = some (x, v) := by
  simp only [fmt2, List.cons_append, List.nil_append, get2, isDigit_dig, Bool.and_self, if_true, dval_dig,
    two_digits x h]

theorem get12_fmt2 (x : Nat) (h : x < 100) (v : Text) : get12 (fmt2 x ++ v) = some (x, v) := by
  simp only [fmt2, List.cons_append, List.nil_append, get12, isDigit_dig, if_true, dval_dig, two_digits x h]

/-! ## Reading what was written, element by element -/

def canonDate : List Elem := [.year, .lit 45, .month, .lit 45, .day]
def canonTime : List Elem := [.hour, .lit 58, .minute, .lit 58, .second]
def canonDT : List Elem := canonDate ++ .lit 84 :: canonTime

theorem parse_date (y m d : Nat) (hy : y < 10000) (hm1 : 1 ≤ m) (hm : m ≤ 12) (hd : d < 100)
    (es : List Elem) (v : Text) (f : Fields) :
    parseElems (canonDate ++ es) (fmtYear y ++ 45 :: (fmt2 m ++ 45 :: (fmt2 d ++ v))) f =
      parseElems es v { f with year := y, month := some m, day := some d } := by
  have hm0 : ¬ (m = 0 ∨ 12 < m) := by omega
  simp only [canonDate, List.cons_append, List.nil_append, fmtYear, if_pos hy, parseElems, isDigit_dig,
    Bool.and_self, if_true, dval_dig, four_digits y hy, get2_fmt2 m (by omega), get2_fmt2 d hd,
    Bool.or_eq_true, decide_eq_true_eq, if_neg hm0]

theorem parse_time (h mi s : Nat) (hh : h < 24) (hmi : mi < 60) (hs : s < 60)
    (es : List Elem) (v : Text) (f : Fields) :
    parseElems (canonTime ++ es) (fmt2 h ++ 58 :: (fmt2 mi ++ 58 :: (fmt2 s ++ v))) f =
      match (if isFrac (nextStd es) then none else takeFrac v) with
      | some (ns, v'') => parseElems es v'' { f with hour := h, minute := mi, second := s, ns := ns }
      | none => parseElems es v { f with hour := h, minute := mi, second := s } := by
  have h1 : ¬ 24 ≤ h := by omega
  have h2 : ¬ 60 ≤ mi := by omega
  have h3 : ¬ 60 ≤ s := by omega
  simp only [canonTime, List.cons_append, List.nil_append, parseElems, get12_fmt2 h (by omega),
    get2_fmt2 mi (by omega), get2_fmt2 s (by omega), if_neg h1, if_neg h2, if_neg h3, if_true]
  generalize (if isFrac (nextStd es) = true then none else takeFrac v) = o
  cases o <;> rfl

/-! ## The wall clock of an instant and back -/

theorem daysIn_shift (m y : Nat) : daysIn m (y + 400) = daysIn m y := by
  have e : isLeap (y + 400) = isLeap y := by
    have a : (y + 400) % 4 = y % 4 := by omega
    have b : (y + 400) % 100 = y % 100 := by omega
    have c : (y + 400) % 400 = y % 400 := by omega
    simp only [isLeap, a, b, c]
  simp only [daysIn, e]

/-- days before 1 March of the year `Y` (counted from March) -/
def yearDays (Y : Nat) : Nat := 365 * Y + Y / 4 - Y / 100 + Y / 400

theorem yearDays_step (Y : Nat) : yearDays Y + 364 ≤ yearDays (Y + 1) := by unfold yearDays; omega

theorem yearDays_mono {a b : Nat} (h : a ≤ b) : yearDays a ≤ yearDays b := by
  induction b with
  | zero => have : a = 0 := by omega
            subst this; exact Nat.le_refl _
  | succ n ih =>
    by_cases hn : a ≤ n
    · have := yearDays_step n
      have := ih hn
      omega
    · have : a = n + 1 := by omega
      subst this; exact Nat.le_refl _

/-- the seconds of an instant from its wall clock in UTC (what `Date(…)` computes at the end of `time.parse`) -/
def secOfWall (y m d hh mi ss : Nat) : Int :=
  ((daysOf (y + 400) m d : Nat) - ((epochShift + shift400 : Nat) : Int)) * 86400 + ((hh * 3600 + mi * 60 + ss : Nat) : Int)

/-- every instant of the years 0000–9999 (as seen in its zone) has a wall clock with four-digit year, valid
    month and day, and the wall clock determines the instant -/
theorem wall_spec (sec : Int) (ns : Nat) (off : Int) (h0 : minSec ≤ sec + off) (h1 : sec + off ≤ maxSec) :
    ∃ w, wallOf sec ns off = some w ∧ w.year < 10000 ∧ 1 ≤ w.month ∧ w.month ≤ 12 ∧ 1 ≤ w.day ∧
      w.day ≤ daysIn w.month w.year ∧ w.day ≤ 31 ∧ w.hour < 24 ∧ w.minute < 60 ∧ w.second < 60 ∧ w.ns = ns ∧
      w.off = off ∧ secOfWall w.year w.month w.day w.hour w.minute w.second = sec + off := by
  unfold minSec at h0
  unfold maxSec at h1
  have hs : ¬ (sec + off + ((epochShift + shift400 : Nat) : Int) * 86400 < 0) := by
    simp only [epochShift, shift400]; omega
  simp only [wallOf, splitSec, if_neg hs]
  generalize hN : (sec + off + ((epochShift + shift400 : Nat) : Int) * 86400).toNat / 86400 = N
  generalize ht : (sec + off + ((epochShift + shift400 : Nat) : Int) * 86400).toNat % 86400 = t
  have hNt : sec + off + ((epochShift + shift400 : Nat) : Int) * 86400 = ((N * 86400 + t : Nat) : Int) := by omega
  have htb : t < 86400 := by omega
  simp only [epochShift, shift400] at hNt hN
  have hNlo : 146097 - 60 ≤ N := by omega
  have hNhi : N ≤ 146097 - 60 + 3652425 - 1 := by omega
  obtain ⟨m1, m12, d1, dIn, hdays⟩ := civil_spec N
  generalize hc : civil N = c at *
  obtain ⟨y, m, d⟩ := c
  simp only at m1 m12 d1 dIn hdays ⊢
  have d31 : d ≤ 31 := by
    have : daysIn m y ≤ 31 := by
      unfold daysIn; repeat' split
      all_goals omega
    omega
  have hy : 400 ≤ y ∧ y < 10400 := by
    have fold : ∀ Y, 365 * Y + Y / 4 - Y / 100 + Y / 400 = yearDays Y := fun _ => rfl
    have e398 : yearDays 398 = 145366 := by decide
    have e399 : yearDays 399 = 145731 := by decide
    have e10399 : yearDays 10399 = 3798156 := by decide
    have e10400 : yearDays 10400 = 3798522 := by decide
    simp only [daysOf] at hdays
    by_cases hm : m ≤ 2
    · have hm' : ¬ m > 2 := by omega
      simp only [if_pos hm, if_neg hm', fold] at hdays
      constructor
      · apply Decidable.byContradiction; intro hlt
        have := @yearDays_mono (y - 1) 398 (by omega)
        omega
      · apply Decidable.byContradiction; intro hge
        have := @yearDays_mono 10399 (y - 1) (by omega)
        omega
    · have hm' : m > 2 := by omega
      simp only [if_neg hm, if_pos hm', fold] at hdays
      constructor
      · apply Decidable.byContradiction; intro hlt
        have := @yearDays_mono y 399 (by omega)
        omega
      · apply Decidable.byContradiction; intro hge
        have := @yearDays_mono 10400 y (by omega)
        omega
  have hy4 : ¬ y < 400 := by omega
  simp only [if_neg hy4]
  have hyy : y - 400 + 400 = y := by omega
  refine ⟨_, rfl, by simp only; omega, m1, m12, d1, ?_, d31, by simp only; omega, by simp only; omega,
    by simp only; omega, rfl, rfl, ?_⟩
  · simp only
    rw [← daysIn_shift, hyy]; exact dIn
  · simp only [secOfWall, hyy, hdays, epochShift, shift400]
    omega

theorem instantOf_valid (y m d hh mi ss ns : Nat) (u : Bool) (hd1 : 1 ≤ d) (hd : d ≤ daysIn m y) :
    instantOf ⟨y, some m, some d, hh, mi, ss, ns, u, none⟩ = some ⟨secOfWall y m d hh mi ss, ns, 0⟩ := by
  have h : ¬ d = 0 := by omega
  cases u <;> simp [instantOf, h, hd, secOfWall]

/-! ## The family of layouts of the `DateTimeType` getter -/

def lits (bs : List Nat) : List Elem := bs.map .lit

theorem parse_lits (bs : List Nat) (v : Text) (f : Fields) :
    parseElems (lits bs) v f = if v = bs then some f else none := by
  induction bs generalizing v with
  | nil => cases v <;> simp [lits, parseElems]
  | cons b bs ih =>
    cases v with
    | nil => simp [lits, parseElems]
    | cons c v' =>
      have e : lits (b :: bs) = .lit b :: lits bs := rfl
      simp only [e, parseElems, ih]
      by_cases hc : c = b
      · subst hc; simp
      · simp [hc]

/-- the optional fraction element `.999…` (any number of nines, dot or comma) -/
def fracPart : Option (Nat × Bool) → List Elem
  | none => []
  | some (n, c) => [.frac true n c]

/-- what may follow: literal bytes, or one zone element -/
inductive Tail where
  | lits (bs : List Nat)
  | zone (iso : Bool)
deriving DecidableEq, Repr

def Tail.elems : Tail → List Elem
  | .lits bs => Spine.TimeText.lits bs
  | .zone iso => [.zone iso]

/-- does the tail accept the letter `Z`? -/
def Tail.acceptsZ : Tail → Bool
  | .lits bs => bs == [90]
  | .zone iso => iso

def Tail.isZone : Tail → Bool
  | .lits _ => false
  | .zone _ => true

/-- the text of a wall clock in the canonical form `2006-01-02T15:04:05` -/
def canonText (w : Wall) (v : Text) : Text :=
  fmtYear w.year ++ 45 :: (fmt2 w.month ++ 45 :: (fmt2 w.day ++ 84 :: (fmt2 w.hour ++ 58 :: (fmt2 w.minute ++ 58 :: (fmt2 w.second ++ v)))))

theorem fmtWall_canonDT (w : Wall) (es : List Elem) :
    fmtWall (canonDT ++ es) w = canonText w (fmtWall es w) := by
  simp only [fmtWall, canonDT, canonDate, canonTime, canonText, List.cons_append, List.nil_append,
    List.flatMap_cons, fmtElem]

theorem takeFrac_Z : takeFrac [90] = none := rfl

/-- EVERY layout of the family reads the text written for a whole-second instant in UTC (`…Z`) as that
    instant's wall clock — or refuses it: accepted iff the tail is the literal `Z` or the element `Z07:00` -/
theorem parse_written (w : Wall) (hy : w.year < 10000) (hm1 : 1 ≤ w.month) (hm : w.month ≤ 12) (hd : w.day ≤ 31)
    (hh : w.hour < 24) (hmi : w.minute < 60) (hs : w.second < 60) (fr : Option (Nat × Bool)) (tl : Tail) :
    parseElems (canonDT ++ (fracPart fr ++ tl.elems)) (canonText w [90]) {} =
      if tl.acceptsZ then
        some ⟨w.year, some w.month, some w.day, w.hour, w.minute, w.second, 0, tl.isZone, none⟩
      else none := by
  have e : canonDT ++ (fracPart fr ++ tl.elems) = canonDate ++ (.lit 84 :: (canonTime ++ (fracPart fr ++ tl.elems))) := by
    simp only [canonDT, List.append_assoc, List.cons_append]
  have hz : (if isFrac (nextStd (fracPart fr ++ tl.elems)) = true then none else takeFrac [90]) = none := by
    split <;> rfl
  rw [e, canonText, parse_date _ _ _ hy hm1 hm (by omega)]
  simp only [parseElems, if_true]
  rw [parse_time _ _ _ hh hmi hs, hz]
  simp only
  have hfr : ∀ f : Fields, parseElems (fracPart fr ++ tl.elems) [90] f = parseElems tl.elems [90] f := by
    intro f
    cases fr with
    | none => rfl
    | some nc => obtain ⟨n, c⟩ := nc; simp only [fracPart, List.cons_append, List.nil_append, parseElems, takeFrac_Z]
  rw [hfr]
  cases tl with
  | lits bs =>
    simp only [Tail.elems, parse_lits, Tail.acceptsZ, Tail.isZone]
    by_cases hb : bs = [90]
    · subst hb; simp
    · have hb' : ¬ ([90] = bs) := fun h => hb h.symm
      simp [hb, hb']
  | zone iso =>
    cases iso <;> simp [Tail.elems, parseElems, Tail.acceptsZ, Tail.isZone, takeZone]

/-! ## Recognising the family, and the round trip for every list of layouts of the family -/

def allLits : List Elem → Option (List Nat)
  | [] => some []
  | .lit b :: es => (allLits es).map (b :: ·)
  | _ => none

theorem allLits_sound : ∀ (t : List Elem) (bs : List Nat), allLits t = some bs → t = lits bs
  | [], bs, h => by simp only [allLits, Option.some.injEq] at h; subst h; rfl
  | .lit b :: es, bs, h => by
    simp only [allLits, Option.map_eq_some_iff] at h
    obtain ⟨bs', h1, h2⟩ := h
    subst h2
    have := allLits_sound es bs' h1
    subst this; rfl
  | .year :: _, _, h | .month :: _, _, h | .day :: _, _, h | .hour :: _, _, h | .minute :: _, _, h
  | .second :: _, _, h | .frac _ _ _ :: _, _, h | .zone _ :: _, _, h | .other :: _, _, h => by
    simp [allLits] at h

def isZoneElem : List Elem → Option Bool
  | [.zone iso] => some iso
  | _ => none

def classifyTail (t : List Elem) : Option Tail :=
  match isZoneElem t with
  | some iso => some (.zone iso)
  | none => (allLits t).map .lits

theorem isZoneElem_sound (t : List Elem) (iso : Bool) (h : isZoneElem t = some iso) : t = [.zone iso] := by
  unfold isZoneElem at h
  split at h
  · simp only [Option.some.injEq] at h; subst h; rfl
  · exact absurd h (by simp)

theorem classifyTail_sound (t : List Elem) (tl : Tail) (h : classifyTail t = some tl) : t = tl.elems := by
  unfold classifyTail at h
  split at h
  · rename_i iso hz
    simp only [Option.some.injEq] at h; subst h
    exact isZoneElem_sound t iso hz
  · simp only [Option.map_eq_some_iff] at h
    obtain ⟨bs, h1, h2⟩ := h
    subst h2
    exact allLits_sound t bs h1

def splitFrac : List Elem → Option (Nat × Bool) × List Elem
  | .frac true n c :: t => (some (n, c), t)
  | t => (none, t)

theorem splitFrac_sound (r : List Elem) : r = fracPart (splitFrac r).1 ++ (splitFrac r).2 := by
  unfold splitFrac
  split <;> rfl

/-- a layout of the family: `2006-01-02T15:04:05`, an optional `.999…`, then literal bytes or one zone element -/
def classify (es : List Elem) : Option (Option (Nat × Bool) × Tail) :=
  if es.take 11 = canonDT then
    (classifyTail (splitFrac (es.drop 11)).2).map fun tl => ((splitFrac (es.drop 11)).1, tl)
  else none

theorem classify_sound (es : List Elem) (fr : Option (Nat × Bool)) (tl : Tail) (h : classify es = some (fr, tl)) :
    es = canonDT ++ (fracPart fr ++ tl.elems) := by
  unfold classify at h
  split at h
  · rename_i h11
    simp only [Option.map_eq_some_iff, Prod.mk.injEq] at h
    obtain ⟨tl', h1, h2, h3⟩ := h
    subst h3
    have := classifyTail_sound _ _ h1
    rw [← h11, ← this, ← h2, ← splitFrac_sound, List.take_append_drop]
  · exact absurd h (by simp)

/-- does the layout accept a text that ends in the letter `Z`? -/
def acceptsZ (es : List Elem) : Bool :=
  match classify es with
  | some (_, tl) => tl.acceptsZ
  | none => false

theorem getTime_first (t : Text) (i : Instant) : ∀ (ls : List (List Elem)),
    (∀ es ∈ ls, parse es t = some i ∨ parse es t = none) → (∃ es ∈ ls, parse es t = some i) →
    getTime ls t = some i
  | [], _, hex => by obtain ⟨es, hm, _⟩ := hex; exact absurd hm (by simp)
  | es :: rest, hall, hex => by
    simp only [getTime]
    rcases hall es (by simp) with h | h
    · simp only [h]
    · simp only [h]
      apply getTime_first t i rest (fun e he => hall e (by simp [he]))
      obtain ⟨e, hm, hp⟩ := hex
      simp only [List.mem_cons] at hm
      rcases hm with rfl | hm
      · rw [h] at hp; exact absurd hp (by simp)
      · exact ⟨e, hm, hp⟩

/-- one layout of the family on the text written for the wall clock `w` (in UTC) -/
theorem parse_family (w : Wall) (hy : w.year < 10000) (hm1 : 1 ≤ w.month) (hm : w.month ≤ 12) (hd1 : 1 ≤ w.day)
    (hdIn : w.day ≤ daysIn w.month w.year) (hd : w.day ≤ 31) (hh : w.hour < 24) (hmi : w.minute < 60) (hs : w.second < 60)
    (es : List Elem) (fr : Option (Nat × Bool)) (tl : Tail) (hc : classify es = some (fr, tl)) :
    parse es (canonText w [90]) =
      if tl.acceptsZ then some ⟨secOfWall w.year w.month w.day w.hour w.minute w.second, 0, 0⟩ else none := by
  rw [classify_sound es fr tl hc]
  unfold parse
  rw [parse_written w hy hm1 hm hd hh hmi hs fr tl]
  by_cases ha : tl.acceptsZ = true
  · simp only [ha, if_true]
    exact instantOf_valid _ _ _ _ _ _ _ _ hd1 hdIn
  · simp only [ha]
    rfl

/-- `GetTime (NewDateTimeTypeFromTime t) = t.Round(time.Second)`: for EVERY formatting layout `…Z` / `…Z07:00`,
    EVERY list of parsing layouts of the family that contains an accepting one, EVERY instant whose rounding to
    the second lies in the years 0000–9999, EVERY fraction of a second and EVERY zone it is presented in -/
theorem written_is_read (fmtEs : List Elem)
    (hf : fmtEs = canonDT ++ [.lit 90] ∨ fmtEs = canonDT ++ [.zone true]) (ls : List (List Elem))
    (hcls : ls.all (fun es => (classify es).isSome) = true) (hacc : ls.any acceptsZ = true)
    (sec : Int) (ns : Nat) (off : Int) (h0 : minSec ≤ roundSec sec ns) (h1 : roundSec sec ns ≤ maxSec) :
    ∃ t, newDateTimeTypeFromTime fmtEs true true sec ns off = some t ∧
      getTime ls t = some ⟨roundSec sec ns, 0, 0⟩ := by
  obtain ⟨w, hw, hy, hm1, hm, hd1, hdIn, hd, hh, hmi, hs, _, hoff, hsec⟩ :=
    wall_spec (roundSec sec ns) 0 0 (by omega) (by omega)
  refine ⟨canonText w [90], ?_, ?_⟩
  · simp only [newDateTimeTypeFromTime, if_true, format, hw, Option.map_some]
    rcases hf with rfl | rfl
    · rw [fmtWall_canonDT]; rfl
    · rw [fmtWall_canonDT]
      simp only [fmtWall, List.flatMap_cons, List.flatMap_nil, fmtElem, fmtZone, hoff, List.append_nil]
      rfl
  · have hsec' : secOfWall w.year w.month w.day w.hour w.minute w.second = roundSec sec ns := by omega
    apply getTime_first
    · intro es hes
      have hc := (List.all_eq_true.mp hcls) es hes
      obtain ⟨⟨fr, tl⟩, hcl⟩ := Option.isSome_iff_exists.mp hc
      rw [parse_family w hy hm1 hm hd1 hdIn hd hh hmi hs es fr tl hcl, hsec']
      by_cases ha : tl.acceptsZ = true
      · left; simp [ha]
      · right; simp [ha]
    · obtain ⟨es, hes, ha⟩ := List.any_eq_true.mp hacc
      refine ⟨es, hes, ?_⟩
      unfold acceptsZ at ha
      split at ha
      · rename_i fr tl hcl
        rw [parse_family w hy hm1 hm hd1 hdIn hd hh hmi hs es fr tl hcl, hsec']
        simp [ha]
      · exact absurd ha (by simp)

/-! ## The getters of `DateType` and `TimeType`: the plain form and the form with `Z`

The stack only READS these two types. For every list of layouts of the family (`2006-01-02` resp. `15:04:05` with an
optional `.999…`, then literal bytes or one zone element), in any order: the plain text and the text with `Z` of every
date of the years 0000–9999 resp. every time of day are read as midnight UTC of that date resp. that time on
1 January of the year 0 — provided some layout of the list accepts the suffix. -/

/-- does the tail accept the suffix (`[]` or `Z`)? -/
def Tail.acceptsSuffix (tl : Tail) (v : Text) : Bool :=
  match tl with
  | .lits bs => bs == v
  | .zone iso => iso && v == [90]

theorem parse_tail (tl : Tail) (v : Text) (hv : v = [] ∨ v = [90]) (f : Fields) :
    (parseElems tl.elems v f).isSome = tl.acceptsSuffix v ∧
    ∀ g, parseElems tl.elems v f = some g → g.year = f.year ∧ g.month = f.month ∧ g.day = f.day ∧ g.hour = f.hour ∧
      g.minute = f.minute ∧ g.second = f.second ∧ g.ns = f.ns ∧ g.zoff = f.zoff := by
  cases tl with
  | lits bs =>
    simp only [Tail.elems, parse_lits, Tail.acceptsSuffix]
    by_cases hb : v = bs
    · subst hb; simp
    · have hb' : ¬ (bs = v) := fun h => hb h.symm
      simp [hb, hb']
  | zone iso =>
    rcases hv with rfl | rfl <;> cases iso <;> simp [Tail.elems, parseElems, Tail.acceptsSuffix, takeZone]

theorem instantOf_eq (f g : Fields) (hy : g.year = f.year) (hm : g.month = f.month) (hd : g.day = f.day)
    (hh : g.hour = f.hour) (hmi : g.minute = f.minute) (hs : g.second = f.second) (hn : g.ns = f.ns)
    (hz : g.zoff = f.zoff) (hzn : f.zoff = none) : instantOf g = instantOf f := by
  unfold instantOf
  rw [hy, hm, hd, hh, hmi, hs, hn, hz, hzn]
  cases g.utc <;> cases f.utc <;> rfl

def dateText (w : Wall) (v : Text) : Text := fmtYear w.year ++ 45 :: (fmt2 w.month ++ 45 :: (fmt2 w.day ++ v))

def timeText (h mi s : Nat) (v : Text) : Text := fmt2 h ++ 58 :: (fmt2 mi ++ 58 :: (fmt2 s ++ v))

/-- one layout of the date family on the plain / `Z` text of a date -/
theorem parse_date_layout (w : Wall) (hy : w.year < 10000) (hm1 : 1 ≤ w.month) (hm : w.month ≤ 12) (hd1 : 1 ≤ w.day)
    (hdIn : w.day ≤ daysIn w.month w.year) (hd : w.day ≤ 31) (tl : Tail) (v : Text) (hv : v = [] ∨ v = [90]) :
    parse (canonDate ++ tl.elems) (dateText w v) =
      if tl.acceptsSuffix v then some ⟨secOfWall w.year w.month w.day 0 0 0, 0, 0⟩ else none := by
  unfold parse
  rw [dateText, parse_date _ _ _ hy hm1 hm (by omega)]
  obtain ⟨h1, h2⟩ := parse_tail tl v hv { ({} : Fields) with year := w.year, month := some w.month, day := some w.day }
  cases hp : parseElems tl.elems v { ({} : Fields) with year := w.year, month := some w.month, day := some w.day } with
  | none =>
    rw [hp] at h1
    have : tl.acceptsSuffix v = false := by simpa using h1.symm
    simp [this]
  | some g =>
    rw [hp] at h1
    have ha : tl.acceptsSuffix v = true := by simpa using h1.symm
    obtain ⟨e1, e2, e3, e4, e5, e6, e7, e8⟩ := h2 g hp
    simp only [ha, if_true]
    rw [instantOf_eq { ({} : Fields) with year := w.year, month := some w.month, day := some w.day } g e1 e2 e3 e4 e5 e6 e7 e8 rfl]
    exact instantOf_valid _ _ _ _ _ _ _ _ hd1 hdIn

/-- one layout of the time-of-day family on the plain / `Z` text of a time of day -/
theorem parse_time_layout (h mi s : Nat) (hh : h < 24) (hmi : mi < 60) (hs : s < 60) (fr : Option (Nat × Bool))
    (tl : Tail) (v : Text) (hv : v = [] ∨ v = [90]) :
    parse (canonTime ++ (fracPart fr ++ tl.elems)) (timeText h mi s v) =
      if tl.acceptsSuffix v then some ⟨secOfWall 0 1 1 h mi s, 0, 0⟩ else none := by
  have hz : (if isFrac (nextStd (fracPart fr ++ tl.elems)) = true then none else takeFrac v) = none := by
    rcases hv with rfl | rfl <;> split <;> rfl
  have hfr : ∀ f : Fields, parseElems (fracPart fr ++ tl.elems) v f = parseElems tl.elems v f := by
    intro f
    cases fr with
    | none => rfl
    | some nc =>
      obtain ⟨n, c⟩ := nc
      have : takeFrac v = none := by rcases hv with rfl | rfl <;> rfl
      simp only [fracPart, List.cons_append, List.nil_append, parseElems, this]
  unfold parse
  rw [timeText, parse_time _ _ _ hh hmi hs, hz]
  simp only
  rw [hfr]
  obtain ⟨h1, h2⟩ := parse_tail tl v hv { ({} : Fields) with hour := h, minute := mi, second := s }
  cases hp : parseElems tl.elems v { ({} : Fields) with hour := h, minute := mi, second := s } with
  | none =>
    rw [hp] at h1
    have : tl.acceptsSuffix v = false := by simpa using h1.symm
    simp [this]
  | some g =>
    rw [hp] at h1
    have ha : tl.acceptsSuffix v = true := by simpa using h1.symm
    obtain ⟨e1, e2, e3, e4, e5, e6, e7, e8⟩ := h2 g hp
    simp only [ha, if_true]
    rw [instantOf_eq { ({} : Fields) with hour := h, minute := mi, second := s } g e1 e2 e3 e4 e5 e6 e7 e8 rfl]
    simp [instantOf, daysIn, isLeap, secOfWall]

/-- a layout of the family with the given prefix: prefix, an optional `.999…` (where a fraction makes sense), then
    literal bytes or one zone element -/
def classifyWith (pre : List Elem) (withFrac : Bool) (es : List Elem) : Option (Option (Nat × Bool) × Tail) :=
  if es.take pre.length = pre then
    if withFrac then
      (classifyTail (splitFrac (es.drop pre.length)).2).map fun tl => ((splitFrac (es.drop pre.length)).1, tl)
    else (classifyTail (es.drop pre.length)).map fun tl => (none, tl)
  else none

theorem classifyWith_sound (pre : List Elem) (withFrac : Bool) (es : List Elem) (fr : Option (Nat × Bool)) (tl : Tail)
    (h : classifyWith pre withFrac es = some (fr, tl)) :
    es = pre ++ (fracPart fr ++ tl.elems) ∧ (withFrac = false → fr = none) := by
  unfold classifyWith at h
  split at h
  · rename_i hpre
    cases withFrac with
    | true =>
      simp only [if_true, Option.map_eq_some_iff, Prod.mk.injEq] at h
      obtain ⟨tl', h1, h2, h3⟩ := h
      subst h3
      have := classifyTail_sound _ _ h1
      refine ⟨?_, fun hf => absurd hf (by simp)⟩
      rw [← this, ← h2, ← splitFrac_sound]
      conv => lhs; rw [← List.take_append_drop pre.length es, hpre]
    | false =>
      simp only [Bool.false_eq_true, if_false, Option.map_eq_some_iff, Prod.mk.injEq] at h
      obtain ⟨tl', h1, h2, h3⟩ := h
      subst h3
      have := classifyTail_sound _ _ h1
      refine ⟨?_, fun _ => h2.symm⟩
      rw [← h2, ← this]
      simp only [fracPart, List.nil_append]
      conv => lhs; rw [← List.take_append_drop pre.length es, hpre]
  · exact absurd h (by simp)

def acceptsWith (pre : List Elem) (withFrac : Bool) (v : Text) (es : List Elem) : Bool :=
  match classifyWith pre withFrac es with
  | some (_, tl) => tl.acceptsSuffix v
  | none => false

/-- `(*DateType).GetTime` on the plain / `Z` text of any date of the years 0000–9999: midnight UTC of that date -/
theorem date_is_read (ls : List (List Elem)) (v : Text) (hv : v = [] ∨ v = [90])
    (hcls : ls.all (fun es => (classifyWith canonDate false es).isSome) = true)
    (hacc : ls.any (acceptsWith canonDate false v) = true)
    (sec : Int) (h0 : minSec ≤ sec) (h1 : sec ≤ maxSec) :
    ∃ w, wallOf sec 0 0 = some w ∧
      getTime ls (dateText w v) = some ⟨sec - ((w.hour * 3600 + w.minute * 60 + w.second : Nat) : Int), 0, 0⟩ := by
  obtain ⟨w, hw, hy, hm1, hm, hd1, hdIn, hd, _, _, _, _, _, hsec⟩ := wall_spec sec 0 0 (by omega) (by omega)
  refine ⟨w, hw, ?_⟩
  have hmid : secOfWall w.year w.month w.day 0 0 0 = sec - ((w.hour * 3600 + w.minute * 60 + w.second : Nat) : Int) := by
    simp only [secOfWall, epochShift, shift400, Nat.zero_mul, Nat.add_zero, Int.add_zero, Int.natCast_zero, Int.ofNat_zero] at hsec ⊢
    generalize (daysOf (w.year + 400) w.month w.day : Nat) = D at *
    omega
  have one : ∀ es fr tl, classifyWith canonDate false es = some (fr, tl) →
      parse es (dateText w v) = if tl.acceptsSuffix v then some ⟨sec - ((w.hour * 3600 + w.minute * 60 + w.second : Nat) : Int), 0, 0⟩ else none := by
    intro es fr tl hc
    obtain ⟨he, hfr⟩ := classifyWith_sound _ _ es fr tl hc
    have : fr = none := hfr rfl
    subst this
    rw [he]
    simp only [fracPart, List.nil_append]
    rw [parse_date_layout w hy hm1 hm hd1 hdIn hd tl v hv, hmid]
  apply getTime_first
  · intro es hes
    have hc := (List.all_eq_true.mp hcls) es hes
    obtain ⟨⟨fr, tl⟩, hcl⟩ := Option.isSome_iff_exists.mp hc
    rw [one es fr tl hcl]
    by_cases ha : tl.acceptsSuffix v = true
    · left; simp [ha]
    · right; simp [ha]
  · obtain ⟨es, hes, ha⟩ := List.any_eq_true.mp hacc
    refine ⟨es, hes, ?_⟩
    unfold acceptsWith at ha
    split at ha
    · rename_i fr tl hcl
      rw [one es fr tl hcl]
      simp [ha]
    · exact absurd ha (by simp)

/-- `(*TimeType).GetTime` on the plain / `Z` text of any time of day: that time on 1 January of the year 0, UTC -/
theorem tod_is_read (ls : List (List Elem)) (v : Text) (hv : v = [] ∨ v = [90])
    (hcls : ls.all (fun es => (classifyWith canonTime true es).isSome) = true)
    (hacc : ls.any (acceptsWith canonTime true v) = true)
    (h mi s : Nat) (hh : h < 24) (hmi : mi < 60) (hs : s < 60) :
    getTime ls (timeText h mi s v) = some ⟨minSec + ((h * 3600 + mi * 60 + s : Nat) : Int), 0, 0⟩ := by
  have hmid : secOfWall 0 1 1 h mi s = minSec + ((h * 3600 + mi * 60 + s : Nat) : Int) := by
    have e : daysOf (0 + 400) 1 1 = 146037 := by decide
    unfold secOfWall minSec
    rw [e]
    simp only [epochShift, shift400]
    omega
  have one : ∀ es fr tl, classifyWith canonTime true es = some (fr, tl) →
      parse es (timeText h mi s v) = if tl.acceptsSuffix v then some ⟨minSec + ((h * 3600 + mi * 60 + s : Nat) : Int), 0, 0⟩ else none := by
    intro es fr tl hc
    obtain ⟨he, _⟩ := classifyWith_sound _ _ es fr tl hc
    rw [he, parse_time_layout h mi s hh hmi hs fr tl v hv, hmid]
  apply getTime_first
  · intro es hes
    have hc := (List.all_eq_true.mp hcls) es hes
    obtain ⟨⟨fr, tl⟩, hcl⟩ := Option.isSome_iff_exists.mp hc
    rw [one es fr tl hcl]
    by_cases ha : tl.acceptsSuffix v = true
    · left; simp [ha]
    · right; simp [ha]
  · obtain ⟨es, hes, ha⟩ := List.any_eq_true.mp hacc
    refine ⟨es, hes, ?_⟩
    unfold acceptsWith at ha
    split at ha
    · rename_i fr tl hcl
      rw [one es fr tl hcl]
      simp [ha]
    · exact absurd ha (by simp)

end Spine.TimeText
