import Spine.SenderKey
/-! C13 — lemmas about the keyed request model (`Spine.SndK`): the encoding is injective; key-level SPEC and
    hash-level SPEC agree exactly when the hash is injective; a hash that identifies two keys is refuted. -/
namespace Spine.SndK
open Spine.Snd

theorem pair_succ (a b : Nat) : pair (a + 1) b = 2 * pair a b := by
  unfold pair
  rw [Nat.pow_succ, Nat.mul_comm (2 ^ a) 2, Nat.mul_assoc]

theorem pair_zero (b : Nat) : pair 0 b = 2 * b + 1 := by simp [pair]

theorem pair_pos (a b : Nat) : 0 < pair a b := by
  induction a with
  | zero => rw [pair_zero]; omega
  | succ a ih => rw [pair_succ]; omega

theorem pair_inj : ∀ (a a' b b' : Nat), pair a b = pair a' b' → a = a' ∧ b = b'
  | 0, 0, b, b', h => by rw [pair_zero, pair_zero] at h; omega
  | 0, a' + 1, b, b', h => by rw [pair_zero, pair_succ] at h; omega
  | a + 1, 0, b, b', h => by rw [pair_zero, pair_succ] at h; omega
  | a + 1, a' + 1, b, b', h => by
    rw [pair_succ, pair_succ] at h
    have := pair_inj a a' b b' (by omega)
    omega

theorem encList_inj : ∀ (l l' : List Nat), encList l = encList l' → l = l'
  | [], [], _ => rfl
  | [], a :: l, h => by have := pair_pos a (encList l); simp only [encList] at h; omega
  | a :: l, [], h => by have := pair_pos a (encList l); simp only [encList] at h; omega
  | a :: l, a' :: l', h => by
    simp only [encList] at h
    obtain ⟨h1, h2⟩ := pair_inj _ _ _ _ h
    rw [h1, encList_inj l l' h2]

theorem Key.flat_inj (k k' : Key) (h : k.flat = k'.flat) : k = k' := by
  obtain ⟨⟨d, e, f⟩, c⟩ := k
  obtain ⟨⟨d', e', f'⟩, c'⟩ := k'
  simp only [Key.flat, List.cons.injEq] at h
  obtain ⟨h1, h2, h3, h4⟩ := h
  have := List.append_inj h4 h3
  simp [h1, h2, this.1, this.2]

/-- the model's hash identifies a request with its WHOLE key -/
theorem Key.hash_inj (k k' : Key) (h : k.hash = k'.hash) : k = k' :=
  Key.flat_inj k k' (encList_inj _ _ h)

theorem Key.proj_full (k : Key) : k.proj Coverage.full = k := by
  simp [Key.proj, Coverage.full]

/-! ### key-level SPEC vs hash-level SPEC -/

/-- the hash-level image of a key-level SPEC state -/
def lowerU (f : Key → Nat) (u : SpecK.U) : Spec.U := u.map (fun e => (f e.1, e.2))

theorem mem_lowerU (f : Key → Nat) (hinj : ∀ k k', f k = f k' → k = k') (u : SpecK.U) (k : Key) (c : Nat) :
    (f k, c) ∈ lowerU f u ↔ (k, c) ∈ u := by
  unfold lowerU
  constructor
  · intro h
    obtain ⟨⟨k', c'⟩, hm, he⟩ := List.mem_map.mp h
    simp only [Prod.mk.injEq] at he
    have := hinj _ _ he.1
    rw [← this, ← he.2]; exact hm
  · intro h
    exact List.mem_map.mpr ⟨(k, c), h, rfl⟩

/-- with an injective hash one monitor step commutes with hashing -/
theorem step_lower (f : Key → Nat) (hinj : ∀ k k', f k = f k' → k = k') (u : SpecK.U) (o : SpecK.Obs) :
    Spec.step (lowerU f u) (o.lower f) = (SpecK.step u o).map (lowerU f) := by
  cases o with
  | req k c w =>
    cases w with
    | true =>
      simp only [SpecK.Obs.lower, Spec.step, SpecK.step, Option.map_some, lowerU, List.map_cons, List.filter_map]
      congr 2
      apply congrArg
      apply List.filter_congr
      intro e _
      simp only [Function.comp]
      by_cases hk : e.1 = k
      · simp [hk]
      · have : f e.1 ≠ f k := fun h => hk (hinj _ _ h)
        simp [hk, this]
    | false =>
      simp only [SpecK.Obs.lower, Spec.step, SpecK.step]
      by_cases hm : (k, c) ∈ u
      · have := (mem_lowerU f hinj u k c).mpr hm
        simp [hm, this]
      · have : (f k, c) ∉ lowerU f u := fun h => hm ((mem_lowerU f hinj u k c).mp h)
        simp [hm, this]
  | resp r =>
    simp only [SpecK.Obs.lower, Spec.step, SpecK.step, Option.map_some, lowerU, List.filter_map]
    congr 1
  | other => simp [SpecK.Obs.lower, Spec.step, SpecK.step]

theorem run_lower (f : Key → Nat) (hinj : ∀ k k', f k = f k' → k = k') (obs : List SpecK.Obs) :
    ∀ u : SpecK.U, Spec.run (lowerU f u) (obs.map (·.lower f)) = (SpecK.run u obs).map (lowerU f) := by
  induction obs with
  | nil => intro u; simp [Spec.run, SpecK.run]
  | cons o os ih =>
    intro u
    simp only [List.map_cons, Spec.run, SpecK.run, step_lower f hinj u o]
    cases h : SpecK.step u o with
    | none => simp
    | some u' => simpa using ih u'

/-- the key-level observations of the keyed model are, hashed, the observations of `Spine.Snd` -/
theorem observationsK_lower (f : Key → Nat) (ops : List OpK) :
    ∀ s : St, (observationsK f s ops).map (·.lower f) = observations s (ops.map (·.lower f)) := by
  induction ops with
  | nil => intro s; rfl
  | cons op ops ih =>
    intro s
    simp only [observationsK, List.map_cons, observations, stepK]
    rw [ih]
    congr 1
    cases op <;> rfl

/-- MODEL ⊨ SPEC at key level, for every hash function that is injective on keys, on every history -/
theorem keyed_satisfies_spec (f : Key → Nat) (hinj : ∀ k k', f k = f k' → k = k') (ops : List OpK) :
    (SpecK.run [] (observationsK f {} ops)).isSome := by
  have h := run_lower f hinj (observationsK f {} ops) []
  rw [observationsK_lower] at h
  have hs := model_satisfies_spec (ops.map (·.lower f)) {} [] (by intro c h hm; simp at hm)
  have hl : lowerU f [] = [] := rfl
  rw [hl] at h
  rw [h] at hs
  cases hr : SpecK.run [] (observationsK f {} ops) with
  | none => rw [hr] at hs; simp at hs
  | some _ => rfl

/-- a hash that identifies two DIFFERENT keys is refuted: the second request is withheld although no identical
    request is unanswered ("a different request is never withheld" fails on the two-request history) -/
theorem collision_refuted (f : Key → Nat) (k1 k2 : Key) (hne : k1 ≠ k2) (heq : f k1 = f k2) :
    SpecK.run [] (observationsK f {} [.request k1, .request k2]) = none ∧
    (requestK f (stepK f {} (.request k1)) k2).2 = (1, false) := by
  have hne' : ¬ (k2 = k1) := fun h => hne h.symm
  simp [observationsK, observeK, requestK, stepK, OpK.lower, step, request, evict, SpecK.run, SpecK.step, heq, hne']

end Spine.SndK
