/-! C08, duplicate check with object identity: subscription entries hold the client *object*; a repeated `added`
    announcement of an entity keeps the entity object but replaces all its feature objects; `reflect.DeepEqual` on two
    feature objects with equal address, type and role compares their cached data. `byObject = true` is the code as
    written, `false` the repair (compare the client by address). -/
namespace Spine.RegObj

structure Obj where
  gen : Nat          -- generation of the owning entity's feature list when the object was created
  data : Nat         -- 0 = no cached data, otherwise an id of the cached value
deriving DecidableEq, Repr

abbrev FAddr := Nat × Nat        -- (entity, feature)

structure Entry where
  id : Nat
  server : FAddr           -- local server feature — local objects are never replaced
  peer : Nat
  client : FAddr           -- remote client feature address
  obj : Obj                -- the client object held by the entry
deriving DecidableEq, Repr

structure St where
  gens : List ((Nat × Nat) × Nat) := []        -- (peer, entity) ↦ generation, default 0
  data : List ((Nat × FAddr) × Nat) := []      -- cached data of the *current* objects, default 0
  nextGen : Nat := 1
  subs : List Entry := []
  subNum : Nat := 0

def genOf (s : St) (p e : Nat) : Nat := ((s.gens.find? (·.1 = (p, e))).map (·.2)).getD 0
def dataOf (s : St) (p : Nat) (c : FAddr) : Nat := ((s.data.find? (·.1 = (p, c))).map (·.2)).getD 0
def curObj (s : St) (p : Nat) (c : FAddr) : Obj := ⟨genOf s p c.1, dataOf s p c⟩

inductive Ev
  | sub (p : Nat) (client server : FAddr)       -- a well-formed request (addresses exist, roles and types fit)
  | unsub (p : Nat) (client server : FAddr)
  | data (p : Nat) (client : FAddr) (v : Nat)   -- the client feature sends a value; it is cached on its current object
  | reannounce (p e : Nat)                      -- entity `e` of peer `p` is announced as added again

/-- DeepEqual on two feature objects with the same address, type, role and owning entity -/
def deepEq (a b : Obj) : Bool := a.gen = b.gen || a.data = b.data

def isDup (byObject : Bool) (p : Nat) (c sv : FAddr) (o : Obj) (e : Entry) : Bool :=
  e.server = sv && e.peer = p && e.client = c && (if byObject then deepEq e.obj o else true)

def touch (p : Nat) (c : FAddr) (g v : Nat) (e : Entry) : Entry :=
  if e.peer = p && e.client = c && e.obj.gen = g then { e with obj := ⟨g, v⟩ } else e

def step (byObject : Bool) (s : St) : Ev → St
  | .sub p c sv =>
    if s.subs.any (isDup byObject p c sv (curObj s p c)) then { s with subNum := s.subNum + 1 }
    else { s with subNum := s.subNum + 1, subs := s.subs ++ [⟨s.subNum + 1, sv, p, c, curObj s p c⟩] }
  | .unsub p c sv => { s with subs := s.subs.filter fun e => !(e.server = sv && e.peer = p && e.client = c) }
  | .data p c v =>
    -- entries holding this very object see the new data (they hold a pointer to it)
    { s with data := ((p, c), v) :: s.data.filter (·.1 ≠ (p, c)), subs := s.subs.map (touch p c (genOf s p c.1) v) }
  | .reannounce p e =>
    { s with gens := ((p, e), s.nextGen) :: s.gens.filter (·.1 ≠ (p, e)), nextGen := s.nextGen + 1,
             data := s.data.filter fun d => (d.1.1, d.1.2.1) ≠ (p, e) }

/-- the result sent for a request: a duplicate is refused -/
def granted (byObject : Bool) (s : St) (p : Nat) (c sv : FAddr) : Bool := !s.subs.any (isDup byObject p c sv (curObj s p c))

def run (b : Bool) (evs : List Ev) : St := evs.foldl (step b) {}

/-- notifications sent for one change of server feature `sv`: one per entry -/
def fanout (s : St) (sv : FAddr) : List (Nat × FAddr) := (s.subs.filter (·.server = sv)).map fun e => (e.peer, e.client)

def pairs (s : St) : List (FAddr × Nat × FAddr) := s.subs.map fun e => (e.server, e.peer, e.client)

/-- as written: after the client sent data and its entity was announced again, the same pair is subscribed a
    second time and every change is notified twice -/
theorem double_subscription_witness :
    fanout (run true [.sub 1 (1, 1) (1, 1), .data 1 (1, 1) 5, .reannounce 1 1, .sub 1 (1, 1) (1, 1)]) (1, 1)
      = [(1, (1, 1)), (1, (1, 1))] := by decide

/-- repaired: the pair is recognised, one notification -/
example :
    fanout (run false [.sub 1 (1, 1) (1, 1), .data 1 (1, 1) 5, .reannounce 1 1, .sub 1 (1, 1) (1, 1)]) (1, 1)
      = [(1, (1, 1))] := by decide

/-- without cached data the re-announcement is harmless even as written -/
example :
    fanout (run true [.sub 1 (1, 1) (1, 1), .reannounce 1 1, .sub 1 (1, 1) (1, 1)]) (1, 1) = [(1, (1, 1))] := by decide

theorem touch_keeps (p : Nat) (c : FAddr) (g v : Nat) (e : Entry) :
    ((touch p c g v e).server, (touch p c g v e).peer, (touch p c g v e).client) = (e.server, e.peer, e.client) := by
  unfold touch; split <;> rfl

theorem pairs_map_touch (l : List Entry) (p : Nat) (c : FAddr) (g v : Nat) :
    (l.map (touch p c g v)).map (fun e => (e.server, e.peer, e.client)) = l.map fun e => (e.server, e.peer, e.client) := by
  rw [List.map_map]
  apply List.map_congr_left
  intro e _
  exact touch_keeps p c g v e

/-- C08 (repaired): under every history of requests, deletions, data and re-announcements no pair is subscribed
    twice — hence one notification per pair and change -/
theorem c08_pairs_nodup (evs : List Ev) : (pairs (run false evs)).Nodup := by
  unfold run
  suffices ∀ s : St, (pairs s).Nodup → (pairs (evs.foldl (step false) s)).Nodup from this {} (by simp [pairs])
  induction evs with
  | nil => intro s h; exact h
  | cons e es ih =>
    intro s h
    apply ih
    cases e with
    | sub p c sv =>
      simp only [step]
      split
      · exact h
      · rename_i hnd
        simp only [pairs, List.map_append, List.map_cons, List.map_nil] at h ⊢
        rw [List.nodup_append]
        refine ⟨h, by simp, ?_⟩
        intro a ha b hb
        simp only [List.mem_singleton] at hb; subst hb
        obtain ⟨e, he, rfl⟩ := List.mem_map.mp ha
        intro heq
        apply hnd
        rw [List.any_eq_true]
        refine ⟨e, he, ?_⟩
        simp only [Prod.mk.injEq] at heq
        simp [isDup, heq.1, heq.2.1, heq.2.2]
    | unsub p c sv =>
      simp only [step, pairs] at h ⊢
      exact (List.filter_sublist.map _).nodup h
    | data p c v =>
      simp only [step, pairs] at h ⊢
      rw [pairs_map_touch]
      exact h
    | reannounce p e => exact h

/-- C08 (repaired), fan-out: a change of a server feature is notified at most once to each (peer, client feature),
    under every history -/
theorem c08_fanout_once (evs : List Ev) (sv : FAddr) : (fanout (run false evs) sv).Nodup := by
  have h := c08_pairs_nodup evs
  unfold pairs at h
  unfold fanout
  generalize (run false evs).subs = l at h ⊢
  induction l with
  | nil => simp
  | cons e l ih =>
    simp only [List.map_cons, List.nodup_cons] at h
    simp only [List.filter_cons]
    split
    · rename_i hs
      have hs' : e.server = sv := by simpa using hs
      simp only [List.map_cons, List.nodup_cons]
      refine ⟨?_, ih h.2⟩
      intro hm
      obtain ⟨e', he', heq⟩ := List.mem_map.mp hm
      have he'' := List.mem_filter.mp he'
      have hs'' : e'.server = sv := by simpa using he''.2
      apply h.1
      refine List.mem_map.mpr ⟨e', he''.1, ?_⟩
      simp only [Prod.mk.injEq] at heq
      simp [hs', hs'', heq.1, heq.2]
    · exact ih h.2

/-- … and exactly to the registered pairs of that feature -/
theorem c08_fanout_exact (s : St) (sv : FAddr) (p : Nat) (c : FAddr) :
    (p, c) ∈ fanout s sv ↔ (sv, p, c) ∈ pairs s := by
  simp only [fanout, pairs, List.mem_map, List.mem_filter, decide_eq_true_eq, Prod.mk.injEq]
  constructor
  · rintro ⟨e, ⟨he, hs⟩, hp, hc⟩; exact ⟨e, he, hs, hp, hc⟩
  · rintro ⟨e, he, hs, hp, hc⟩; exact ⟨e, ⟨he, hs⟩, hp, hc⟩

/-- and the converse half of `c08_granted_iff` for well-formed requests: repaired, a request is refused only if the
    pair is registered -/
theorem c08_refused_only_if_registered (s : St) (p : Nat) (c sv : FAddr) :
    granted false s p c sv = false ↔ (sv, p, c) ∈ pairs s := by
  simp only [granted, Bool.not_eq_false', List.any_eq_true, pairs, List.mem_map]
  constructor
  · rintro ⟨e, he, hd⟩
    refine ⟨e, he, ?_⟩
    simp [isDup] at hd
    simp [hd.1.1, hd.1.2, hd.2]
  · rintro ⟨e, he, heq⟩
    refine ⟨e, he, ?_⟩
    simp only [Prod.mk.injEq] at heq
    simp [isDup, heq.1, heq.2.1, heq.2.2]

/-- as written the same statement fails: a registered pair is granted again -/
theorem c08_granted_iff_refuted :
    let s := run true [.sub 1 (1, 1) (1, 1), .data 1 (1, 1) 5, .reannounce 1 1]
    granted true s 1 (1, 1) (1, 1) = true ∧ ((1, 1), 1, (1, 1)) ∈ pairs s := by decide

end Spine.RegObj
