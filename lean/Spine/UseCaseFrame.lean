import Spine.UseCaseLock
/-! C20: frame (isolation) over whole histories and schedules, no store of a lock holder is lost, and the wire
    encoding of the read path is injective and self-delimiting. -/
namespace Spine.UC

/-- the entity an operation is issued on (the receiver of the `EntityLocal` method) -/
def Op.ent : Op → List Nat
  | .add e _ _ => e
  | .remove e _ _ => e
  | .setAvail e _ _ _ => e
  | .removeAll e => e

/-- which helper of `model.NodeManagementUseCaseDataType` `apply` transcribes for an operation: 1 `AddUseCaseSupport`
    (`UC.add`), 2 `SetAvailability` (`UC.setAvail`), 3 `RemoveUseCaseSupport` (`UC.remove`), 4
    `RemoveUseCaseDataForAddress` (`UC.removeAll`). The translator regenerates, for each `EntityLocal` operation, the
    helper the source applies between copy and store (`Spine.Props.C20Gen.c20_operations_apply_their_helper`). -/
def Op.helper : Op → Nat
  | .add .. => 1
  | .setAvail .. => 2
  | .remove .. => 3
  | .removeAll _ => 4

/-- the sub-history of the operations issued on entity `e` -/
def onEnt (e : List Nat) (ops : List Op) : List Op := ops.filter fun o => o.ent = e

/-! ### the SPEC map is a product over entities -/

theorem specStep_other (σ : Spec) (op : Op) (e' : List Nat) (h : op.ent ≠ e') :
    specStep σ op e' = σ e' := by
  have h' : e' ≠ op.ent := fun x => h x.symm
  funext a' n'
  cases op <;> simp only [specStep, Op.ent] at * <;> simp [h']

theorem specStep_congr (σ₁ σ₂ : Spec) (op : Op) (e' : List Nat) (h : σ₁ e' = σ₂ e') :
    specStep σ₁ op e' = specStep σ₂ op e' := by
  by_cases he : op.ent = e'
  · funext a' n'
    have hh : ∀ a n, σ₁ e' a n = σ₂ e' a n := fun a n => by rw [h]
    cases op with
    | add e a s => simp only [specStep]; split <;> simp [hh]
    | remove e a n => simp only [specStep]; split <;> simp [hh]
    | setAvail e a n b =>
      simp only [Op.ent] at he; subst he
      simp only [specStep]; split <;> simp [hh]
    | removeAll e => simp only [specStep]; split <;> simp [hh]
  · rw [specStep_other σ₁ op e' he, specStep_other σ₂ op e' he, h]

/-- what the SPEC map says about entity e' after a history depends only on the operations issued on e' -/
theorem spec_frame (e' : List Nat) (ops : List Op) : ∀ σ₁ σ₂ : Spec, σ₁ e' = σ₂ e' →
    (ops.foldl specStep σ₁) e' = ((onEnt e' ops).foldl specStep σ₂) e' := by
  induction ops with
  | nil => intro σ₁ σ₂ h; simpa [onEnt] using h
  | cons op ops ih =>
    intro σ₁ σ₂ h
    by_cases he : op.ent = e'
    · have : onEnt e' (op :: ops) = op :: onEnt e' ops := by simp [onEnt, he]
      rw [this]
      exact ih _ _ (specStep_congr σ₁ σ₂ op e' h)
    · have : onEnt e' (op :: ops) = onEnt e' ops := by simp [onEnt, he]
      rw [this]
      exact ih _ _ (by rw [specStep_other σ₁ op e' he, h])

theorem onEnt_ok (e' : List Nat) (ops : List Op) (hok : ∀ op ∈ ops, op.ok) : ∀ op ∈ onEnt e' ops, op.ok :=
  fun op h => hok op (List.mem_filter.mp h).1

/-- FRAME over histories: after any history, what the registry answers about entity e' is what it would answer had
    only the operations issued on e' been performed — operations on other entities (add, remove, set-availability,
    remove-all alike) never show, however they are interleaved with those on e'. -/
theorem frame_history (ops : List Op) (hok : ∀ op ∈ ops, op.ok) (e' : List Nat) :
    lookup (ops.foldl apply []) e' = lookup ((onEnt e' ops).foldl apply []) e' := by
  rw [(c20_refines ops hok).2, (c20_refines (onEnt e' ops) (onEnt_ok e' ops hok)).2]
  exact spec_frame e' ops _ _ rfl

/-! ### under the lock no store is lost -/

/-- in every state a schedule can reach: a store by the operation that holds the lock and has copied has exactly
    the operation's effect on the CURRENT registry (not on a stale copy), and is appended to the sequentialisation -/
theorem store_effect (s : LSt) (h : LInv s) (k : Nat) (o : Op) (hh : s.holder = some k)
    (hc : (s.copies.find? (·.1 = k)).isSome) :
    (lstep s (.store k o)).reg = apply s.reg o ∧ (lstep s (.store k o)).doneBy = s.doneBy ++ [(s.nacq, o)] := by
  cases hf : s.copies.find? (·.1 = k) with
  | none => simp [hf] at hc
  | some c =>
    obtain ⟨k', r⟩ := c
    have hm : (k', r) ∈ s.copies := List.mem_of_find?_eq_some hf
    have hr : r = s.reg := (h.1 (k', r) hm).2
    subst hr
    simp [lstep, hh, hf]

/-- … and a copy by the holder does put a copy there: after `acquire k` on a free lock and `copy k` the operation is
    in the position `store_effect` needs -/
theorem copy_ready (s : LSt) (k : Nat) (hh : s.holder = some k) :
    (lstep s (.copy k)).holder = some k ∧ ((lstep s (.copy k)).copies.find? (·.1 = k)).isSome := by
  simp [lstep, hh]

/-! ### the wire: injective, self-delimiting -/

theorem decode_encode_append (r : Reg) (w : Wire) :
    decode (encode r ++ w) = if w = [] then some r else none := by
  have := decMany_enc decInfo encInfo decInfo_enc r w
  cases w with
  | nil => simp only [List.append_nil] at this ⊢; simp [decode, encode, this]
  | cons x xs => simp [decode, encode, this]

/-- two registries with the same wire encoding are the same registry -/
theorem encode_injective (r r' : Reg) (h : encode r = encode r') : r = r' := by
  have h1 := decode_encode r
  rw [h, decode_encode r'] at h1
  exact (Option.some.inj h1).symm

end Spine.UC
