/-! DeviceLocal.ProcessCmd + FeatureLocal/NodeManagement.HandleMessage + the Sender's counter and request cache,
    for datagrams with empty payloads; static trees; no subscriptions. Responses are computed by pure functions,
    the state (message counter, unanswered-request cache) is threaded separately. -/
namespace Spine.Disp

inductive Role | client | server | special deriving DecidableEq, Repr
inductive Cls | read | reply | notify | write | call | result deriving DecidableEq, Repr

structure LF where          -- local feature
  ent : List Nat
  feat : Nat
  typ : Nat
  role : Role
  fds : List Nat            -- functions with function data (CreateFunctionData for the type)
  ops : List (Nat × Bool)   -- announced functions with their write flag
  nm : Bool := false
deriving Repr

structure RF where          -- remote feature of a peer
  ent : List Nat
  feat : Nat
  fds : List Nat
deriving Repr

structure Dg where
  src : List Nat × Nat
  dst : List Nat × Nat
  ctr : Nat
  ref : Option Nat
  cls : Cls
  ack : Bool
  fn : Nat                  -- payload function; 900 = resultData, 901 = discovery data, 902 = use case data
deriving Repr

inductive Out
  | reply (ref : Nat) (fn : Nat) (src dst : List Nat × Nat)
  | result (ref : Nat) (err : Nat) (src dst : List Nat × Nat)
  | readReq (fn : Nat) (src dst : List Nat × Nat)
  | panic
deriving Repr

structure Peer where
  feats : List RF
  msgNum : Nat
  req : List (Nat × (List Nat × Nat) × Nat)   -- counter, destination, function of unanswered requests
deriving Repr

structure W where
  loc : List LF
  peers : Nat → Peer
  binds : List ((List Nat × Nat) × Nat × (List Nat × Nat))   -- server, peer, client
  written : List ((List Nat × Nat) × Nat) := []              -- (local feature, function) whose data a peer has set

def srcF (w : W) (p : Nat) (d : Dg) : Option RF :=
  (w.peers p).feats.find? fun f => f.ent = d.src.1 && f.feat = d.src.2

def dstF (w : W) (d : Dg) : Option LF :=
  w.loc.find? fun f => f.ent = d.dst.1 && f.feat = d.dst.2

/-- PrintMessageOverview dereferences the reference of a reply / result and the result data of a result -/
def panics (d : Dg) : Bool :=
  ((d.cls = .reply || d.cls = .result) && d.ref.isNone) || (d.cls = .result && d.fn ≠ 900)

/-- verdict of HandleMessage for everything but writes: error number or acceptance, and whether a reply was sent -/
def handle (lf : LF) (rf : RF) (d : Dg) : Option Nat × Bool :=
  if lf.nm then
    if d.fn = 900 then (none, false)                         -- processResult
    else if d.fn = 901 || d.fn = 902 then
      match d.cls with
      | .read => (none, true)
      | .reply => (none, false)
      | .notify => (none, false)
      | _ => (some 1, false)
    else (some 6, false)
  else
    match d.cls with
    | .result => if d.fn = 900 then (none, false) else (some 1, false)
    | .read =>
      if lf.role = .client then (some 7, false)
      else if lf.fds.contains d.fn then (none, true) else (some 1, false)
    | .reply => if rf.fds.contains d.fn then (none, false) else (some 1, false)
    | .notify => if rf.fds.contains d.fn then (none, false) else (some 1, false)
    | .write => (none, false)
    | .call => (some 1, false)

/-- the write gate of ProcessCmd: function announced writable, writer bound to the feature -/
def gateOk (w : W) (p : Nat) (lf : LF) (d : Dg) : Bool :=
  (lf.ops.any fun o => o.1 = d.fn && o.2) &&
  (w.binds.any fun b => b.1 = d.dst && b.2.1 = p && b.2.2 = d.src)

def res (d : Dg) (e : Nat) : Out := .result d.ctr e d.dst d.src

/-- the replies and results emitted for a datagram whose source and destination features are known -/
def responses (w : W) (p : Nat) (lf : LF) (rf : RF) (d : Dg) : List Out :=
  if d.cls = .write && !gateOk w p lf d then [res d 1]
  else if d.cls = .write && !lf.nm then
    if lf.fds.contains d.fn then (if d.ack then [res d 0] else []) else [res d 1]
  else match handle lf rf d with
    | (some e, _) => if d.cls ≠ .result then [res d e] else []
    | (none, replied) =>
      (if replied then [Out.reply d.ctr d.fn d.dst d.src] else []) ++
      (if d.ack && (d.cls = .call || d.cls = .reply || d.cls = .notify) then [res d 0] else [])

/-- after a failing notify the stack asks for the data itself, if the local feature knows the function -/
def wantsRead (w : W) (p : Nat) (lf : LF) (rf : RF) (d : Dg) : Bool :=
  d.cls = .notify && !(d.cls = .write && !gateOk w p lf d) && (handle lf rf d).1.isSome && lf.fds.contains d.fn

def sendN (pr : Peer) (n : Nat) : Peer := { pr with msgNum := pr.msgNum + n }

def request (pr : Peer) (dst : List Nat × Nat) (fn : Nat) : Peer × Bool :=
  if pr.req.any (fun e => e.2.1 = dst && e.2.2 = fn) then (pr, false) else
  let c := pr.msgNum + 1
  let req := if pr.req.length > 20 then
      match (pr.req.map (·.1)).min? with
      | some lo => pr.req.filter (·.1 ≠ lo)
      | none => pr.req
    else pr.req
  ({ pr with msgNum := c, req := req ++ [(c, dst, fn)] }, true)

def answered (pr : Peer) (ref : Option Nat) : Peer :=
  match ref with
  | some r => { pr with req := pr.req.filter (·.1 ≠ r) }
  | none => pr

def setPeer (w : W) (p : Nat) (pr : Peer) : W := { w with peers := fun q => if q = p then pr else w.peers q }

/-- does the datagram change the addressed feature's data: only an authorised write of a function the feature holds -/
def applies (w : W) (p : Nat) (lf : LF) (d : Dg) : Bool :=
  d.cls = .write && gateOk w p lf d && !lf.nm && lf.fds.contains d.fn

def record (w : W) (p : Nat) (lf : LF) (d : Dg) : W :=
  if applies w p lf d then { w with written := (d.dst, d.fn) :: w.written } else w

def processCmd (w : W) (p : Nat) (d : Dg) : W × List Out :=
  let pr := answered (w.peers p) d.ref       -- a reference to an unanswered request re-enables it
  match srcF w p d with
  | none => (setPeer w p pr, [])
  | some rf =>
    match dstF w d with
    | none => (setPeer w p (sendN pr 1), [res d 4])      -- as written: also in answer to a result
    | some lf =>
      if panics d then (setPeer w p pr, [.panic]) else
      let outs := responses w p lf rf d
      let pr := sendN pr outs.length
      let w' := record w p lf d
      if wantsRead w p lf rf d then
        let (pr', sent) := request pr d.src d.fn
        (setPeer w' p pr', outs ++ (if sent then [.readReq d.fn d.dst d.src] else []))
      else (setPeer w' p pr, outs)

end Spine.Disp
