/-! DeviceLocal.ProcessCmd + FeatureLocal/NodeManagement.HandleMessage + the Sender's counter and request cache
    + the binding / subscription registries as far as the write gate and the notification fan-out of an accepted
    write need them (grant, delete, entity removed, disconnect), for several connected peers.
    Payloads are abstract: a function id and, for data the local features hold, a value id (the identity of the
    operation that set it: a remote write, or `SetData` / `UpdateData` of the local application); a read replies with
    the current value id, a notification carries it.
    Responses are computed by pure functions, the state (message counters, unanswered-request caches, registries,
    announced remote features) is threaded separately.

    The model is a family (DESIGN §4.7): `Cfg` selects, per known defect, the code as written (`true`) or the
    minimal repair (`false`). -/
namespace Spine.Disp

inductive Role | client | server | special deriving DecidableEq, Repr
inductive Cls | read | reply | notify | write | call | result deriving DecidableEq, Repr

abbrev Addr := List Nat × Nat                 -- entity address, feature number

/-- defect flags; `true` = the code as written at the pinned commit -/
structure Cfg where
  /-- `ProcessCmd` answers a datagram to an unknown local feature with an error result before it looks at the
      classifier, hence also a `result` (C01) -/
  resultOnResult : Bool := true
  /-- `RemoveBinding` keeps an entry only if it differs in the client address *and* in the server feature, so it
      drops every entry that shares one of the two (C09) -/
  unbindDisjunct : Bool := true
  /-- `RemoveBindingsForEntity` compares the entity address only, not the device: a peer's entity removal or
      disconnect also drops the bindings other peers hold for an equally numbered entity (C10) -/
  entRemovalAnyPeer : Bool := true
  /-- `PrintMessageOverview` dereferences the reference of a reply / result, the result data and its error number,
      for incoming and for outgoing datagrams (C05): such datagrams panic, and so does answering a request without
      msgCounter. Off: they are processed like any other datagram (the answer to a request without counter carries
      no reference). -/
  overviewPanics : Bool := true
deriving DecidableEq, Repr

def Cfg.clean : Cfg :=
  { resultOnResult := false, unbindDisjunct := false, entRemovalAnyPeer := false, overviewPanics := false }

structure LF where          -- local feature
  ent : List Nat
  feat : Nat
  typ : Nat                 -- feature type; 0 = Generic
  role : Role
  fds : List Nat            -- functions with function data (CreateFunctionData for the type)
  ops : List (Nat × Bool)   -- announced functions with their write flag
  nm : Bool := false
deriving Repr

structure RF where          -- remote feature of a peer
  ent : List Nat
  feat : Nat
  fds : List Nat
  typ : Nat := 0
  role : Role := .client
deriving Repr

structure Dg where
  src : Addr
  dst : Addr
  ctr : Option Nat          -- msgCounter (absent: not well-formed, but the repaired code serves it)
  ref : Option Nat
  cls : Cls
  ack : Bool
  fn : Nat                  -- payload function; 900 = resultData, 901 = discovery data, 902 = use case data,
                            -- 903 = destination list data, 904 = subscription data, 905 = binding data
  bad : Bool := false       -- a write payload the update engine rejects (abstract input: e.g. a partial write of a
                            -- function whose data type supports no partial update)
  val : Nat := 0            -- value id of a write payload
  noErr : Bool := false     -- the result data (fn = 900) carries no error number
  dstDev : Option Nat := some 0   -- device part of the destination address as sent; `some 0` = the local device's
  srcDev : Option Nat := some 0   -- device part of the SOURCE address as the header claims it: `some 0` = the sending
                                  -- peer's own device address, `none` = omitted, `some k` = the device address of peer k.
                                  -- Nothing reads it: the source feature is resolved on the SENDING connection
                                  -- (`srcF w p`), and the gate compares the resolved feature (`c03_claimed_source_device_irrelevant`)
deriving Repr

inductive Out
  | reply (ref : Option Nat) (fn : Nat) (src dst : Addr) (val : Nat) (sdev : Option Nat)   -- value id carried, device part of the source
  | result (ref : Option Nat) (err : Nat) (src dst : Addr) (sdev : Option Nat)
  | readReq (fn : Nat) (src dst : Addr)
  | notify (fn : Nat) (src dst : Addr) (val : Nat)
  | subReq                                  -- the local node management asks the peer's for a subscription (a `call`)
  | panic
deriving Repr, DecidableEq

structure Peer where
  feats : List RF
  msgNum : Nat
  req : List (Nat × Addr × Nat)   -- counter, destination, function of unanswered requests
deriving Repr

/-- a registry entry: local server feature, peer (connection), the peer's client feature -/
abbrev Entry := Addr × Nat × Addr

structure W where
  loc : List LF
  peers : Nat → Peer
  binds : List Entry
  subs : List Entry := []
  written : List (Addr × Nat) := []              -- (local feature, function) whose data a peer has set
  data : Addr → Nat → Nat := fun _ _ => 0        -- current value id per local feature and function (0 = never set)
  cfg : Cfg := {}
  fresh : Peer := ⟨[], 0, []⟩                     -- a peer right after connection and discovery reply
  nmData : Nat → Nat := fun _ => 0               -- node management: current value id of the data it computes for function
                                                 -- 901 (detailed discovery: the local tree), 902 (use cases), 903
                                                 -- (destination list); changed only by the local tree operations of
                                                 -- `Spine/DispatchTree.lean` (0 = never set)

def srcF (w : W) (p : Nat) (d : Dg) : Option RF :=
  (w.peers p).feats.find? fun f => f.ent = d.src.1 && f.feat = d.src.2

def dstF (w : W) (d : Dg) : Option LF :=
  w.loc.find? fun f => f.ent = d.dst.1 && f.feat = d.dst.2

/-- what the unrepaired PrintMessageOverview trips over in an incoming datagram: a reply / result without reference,
    a result without result data or without error number -/
def inPanics (d : Dg) : Bool :=
  ((d.cls = .reply || d.cls = .result) && d.ref.isNone) || (d.cls = .result && (d.fn ≠ 900 || d.noErr))

/-- well-formed as far as this layer is concerned: counter present and nothing `inPanics` names -/
def wf (d : Dg) : Bool := !inPanics d && d.ctr.isSome

/-- verdict of NodeManagement.HandleMessage (empty payloads): error number or acceptance, and whether a reply was sent -/
def handleNM (d : Dg) : Option Nat × Bool :=
  if d.fn = 900 then (if d.noErr then (some 1, false) else (none, false))   -- processResult
  else if d.fn = 901 || d.fn = 902 then
    match d.cls with
    | .read => (none, true)
    | .reply => (none, false)
    | .notify => (none, false)
    | _ => (some 1, false)
  else if d.fn = 903 then                                  -- destination list: only the read is implemented
    match d.cls with
    | .read => (none, true)
    | _ => (some 1, false)
  else if d.fn = 904 || d.fn = 905 then                    -- subscription / binding data are read by `call`
    match d.cls with
    | .call => (none, true)
    | _ => (some 1, false)
  else (some 6, false)

/-- verdict of FeatureLocal.HandleMessage for everything but writes -/
def handleF (lf : LF) (rf : RF) (d : Dg) : Option Nat × Bool :=
  match d.cls with
  | .result => if d.fn = 900 && !d.noErr then (none, false) else (some 1, false)
  | .read =>
    if lf.role = .client then (some 7, false)
    else if lf.fds.contains d.fn then (none, true) else (some 1, false)
  | .reply => if rf.fds.contains d.fn then (none, false) else (some 1, false)
  | .notify => if rf.fds.contains d.fn then (none, false) else (some 1, false)
  | .write => (none, false)
  | .call => (some 1, false)

def handle (lf : LF) (rf : RF) (d : Dg) : Option Nat × Bool :=
  if lf.nm then handleNM d else handleF lf rf d

/-- the function is announced writable on the feature -/
def writable (lf : LF) (fn : Nat) : Bool := lf.ops.any fun o => o.1 = fn && o.2

/-- the write gate of ProcessCmd: function announced writable, writer bound to the feature -/
def gateOk (w : W) (p : Nat) (lf : LF) (d : Dg) : Bool :=
  writable lf d.fn && (w.binds.any fun b => b.1 = d.dst && b.2.1 = p && b.2.2 = d.src)

def res (d : Dg) (e : Nat) : Out := .result d.ctr e d.dst d.src (some 0)

/-- the error result for an unknown destination echoes the destination address as sent, device part included -/
def resU (d : Dg) : Out := .result d.ctr 4 d.dst d.src d.dstDev

/-- what a reply carries: the current value id of the function's data; node management computes its data — the
    number of the caller's subscriptions / bindings for subscription / binding data, else the current value id of the
    data it derives from the local tree / the use-case list (`W.nmData`) -/
def replyVal (w : W) (p : Nat) (lf : LF) (d : Dg) : Nat :=
  if lf.nm then
    (if d.fn = 904 then (w.subs.filter fun s => s.2.1 = p).length
     else if d.fn = 905 then (w.binds.filter fun s => s.2.1 = p).length else w.nmData d.fn)
  else w.data d.dst d.fn

/-- the replies and results emitted for a datagram whose source and destination features are known -/
def responses (w : W) (p : Nat) (lf : LF) (rf : RF) (d : Dg) : List Out :=
  if d.cls = .write && !gateOk w p lf d then [res d 1]
  else if d.cls = .write && !lf.nm then
    if lf.fds.contains d.fn && !d.bad then (if d.ack then [res d 0] else []) else [res d 1]
  else match handle lf rf d with
    | (some e, _) => if d.cls ≠ .result then [res d e] else []
    | (none, replied) =>
      (if replied then [Out.reply d.ctr d.fn d.dst d.src (replyVal w p lf d) (some 0)] else []) ++
      (if d.ack && (d.cls = .call || d.cls = .reply || d.cls = .notify) then [res d 0] else [])

/-- after a failing notify the stack asks for the data itself, if the local feature knows the function -/
def wantsRead (w : W) (p : Nat) (lf : LF) (rf : RF) (d : Dg) : Bool :=
  d.cls = .notify && !(d.cls = .write && !gateOk w p lf d) && (handle lf rf d).1.isSome && lf.fds.contains d.fn

def sendN (pr : Peer) (n : Nat) : Peer := { pr with msgNum := pr.msgNum + n }

def request (pr : Peer) (dst : Addr) (fn : Nat) : Peer × Bool :=
  if pr.req.any (fun e => e.2.1 = dst && e.2.2 = fn) then (pr, false) else
  let c := pr.msgNum + 1
  let req := if pr.req.length > 20 then
      match (pr.req.map (·.1)).min? with
      | some lo => pr.req.filter (·.1 ≠ lo)
      | none => pr.req
    else pr.req
  ({ pr with msgNum := c, req := req ++ [(c, dst, fn)] }, true)

def answered (pr : Peer) (ref : Option Nat) : Peer :=
  match ref with
  | some r => { pr with req := pr.req.filter (·.1 ≠ r) }
  | none => pr

def setPeer (w : W) (p : Nat) (pr : Peer) : W := { w with peers := fun q => if q = p then pr else w.peers q }

/-- does the datagram change the addressed feature's data: only an authorised write of a function the feature holds,
    with a payload the update engine accepts -/
def applies (w : W) (p : Nat) (lf : LF) (d : Dg) : Bool :=
  d.cls = .write && gateOk w p lf d && !lf.nm && lf.fds.contains d.fn && !d.bad

def setData (f : Addr → Nat → Nat) (a : Addr) (fn v : Nat) : Addr → Nat → Nat :=
  fun a' fn' => if a' = a ∧ fn' = fn then v else f a' fn'

def record (w : W) (app : Bool) (d : Dg) : W :=
  if app then { w with written := (d.dst, d.fn) :: w.written, data := setData w.data d.dst d.fn d.val } else w

/-- the notifications a data change fans out: one per subscription on the feature, in registry order, carrying the
    new value -/
def notifsAt (w : W) (a : Addr) (fn v : Nat) : List (Nat × Out) :=
  (w.subs.filter fun s => s.1 = a).map fun s => (s.2.1, Out.notify fn a s.2.2 v)

def notifs (w : W) (d : Dg) : List (Nat × Out) := notifsAt w d.dst d.fn d.val

/-- every message written to a connection draws a counter there -/
def count (q : Nat) (outs : List (Nat × Out)) : Nat := (outs.filter fun o => o.1 = q).length

def bump (w : W) (outs : List (Nat × Out)) : W :=
  { w with peers := fun q => sendN (w.peers q) (count q outs) }

def tag (p : Nat) (outs : List Out) : List (Nat × Out) := outs.map fun o => (p, o)

/-- does the unrepaired PrintMessageOverview panic on this step: on the incoming datagram, or on the first answer to
    a request without counter (approximated as "before anything is done"; such requests are not driven against the
    pinned code) -/
def crashes (w : W) (p : Nat) (lf : LF) (rf : RF) (d : Dg) : Bool :=
  w.cfg.overviewPanics && (inPanics d || (d.ctr.isNone && !(responses w p lf rf d).isEmpty))

/-- one inbound datagram of peer `p`; the outputs are tagged with the connection they are written to -/
def processCmd (w : W) (p : Nat) (d : Dg) : W × List (Nat × Out) :=
  let w0 := setPeer w p (answered (w.peers p) d.ref)     -- a reference to an unanswered request re-enables it
  match srcF w p d with
  | none => (w0, [])
  | some rf =>
    match dstF w d with
    | none =>
      -- as written: the error result is sent before the classifier is looked at, also in answer to a result
      if d.cls = .result && !w.cfg.resultOnResult then (w0, [])
      else if w.cfg.overviewPanics && d.ctr.isNone then (w0, [(p, .panic)])
      else (bump w0 [(p, resU d)], [(p, resU d)])
    | some lf =>
      if crashes w p lf rf d then (w0, [(p, .panic)]) else
      let outs := (if applies w p lf d then notifs w d else []) ++ tag p (responses w p lf rf d)
      let w1 := bump (record w0 (applies w p lf d) d) outs
      if wantsRead w p lf rf d then
        let (pr', sent) := request (w1.peers p) d.src d.fn
        (setPeer w1 p pr', outs ++ (if sent then [(p, .readReq d.fn d.dst d.src)] else []))
      else (w1, outs)

/-! ### node-management calls and discovery notifications that change the registries -/

inductive Call
  | bind (c s : Addr) (typ : Nat)      -- nodeManagementBindingRequestCall: client, server, server feature type
  | unbind (c s : Addr)                -- nodeManagementBindingDeleteCall (client device = the sender's or omitted)
  | sub (c s : Addr) (typ : Nat)       -- nodeManagementSubscriptionRequestCall
  | unsub (c s : Addr)                 -- nodeManagementSubscriptionDeleteCall (client device = the sender's or omitted)
deriving Repr

def nmAddr : Addr := ([0], 0)

def locF (w : W) (a : Addr) : Option LF := w.loc.find? fun f => f.ent = a.1 && f.feat = a.2
def remF (w : W) (p : Nat) (a : Addr) : Option RF := (w.peers p).feats.find? fun f => f.ent = a.1 && f.feat = a.2

def typeOk (ftyp typ : Nat) : Bool := ftyp = typ || ftyp = 0
def srvOk (lf : LF) (typ : Nat) : Bool := (lf.role = .server || lf.role = .special) && typeOk lf.typ typ
def cliOk (rf : RF) (typ : Nat) : Bool := (rf.role = .client || rf.role = .special) && typeOk rf.typ typ

def hasBinding (w : W) (s : Addr) (p : Nat) (c : Addr) : Bool := w.binds.any fun b => b.1 = s && b.2.1 = p && b.2.2 = c

/-- is the call accepted (`AddBinding` / `RemoveBinding` / `AddSubscription` return nil) -/
def callOk (w : W) (p : Nat) : Call → Bool
  | .bind c s typ =>
    match locF w s, remF w p c with
    | some lf, some rf => srvOk lf typ && !(w.binds.any fun b => b.1 = s) && cliOk rf typ
    | _, _ => false
  | .unbind c s =>
    match locF w s, remF w p c with
    | some lf, some _ => (lf.role = .server || lf.role = .special) && hasBinding w s p c
    | _, _ => false
  | .sub c s typ =>
    match locF w s, remF w p c with
    | some lf, some rf => srvOk lf typ && cliOk rf typ && !(w.subs.any fun b => b.1 = s && b.2.1 = p && b.2.2 = c)
    | _, _ => false
  | .unsub c s =>
    match locF w s, remF w p c with
    | some _, some _ => w.subs.any fun b => b.1 = s && b.2.1 = p && b.2.2 = c
    | _, _ => false

/-- which entries `RemoveBinding` drops -/
def unbindDrops (cfg : Cfg) (s : Addr) (p : Nat) (c : Addr) (b : Entry) : Bool :=
  if cfg.unbindDisjunct then (b.2.1 = p && b.2.2 = c) || b.1 = s else (b.2.1 = p && b.2.2 = c) && b.1 = s

/-- which entries `RemoveBindingsForEntity` drops for entity `e` of peer `p` -/
def entDrops (cfg : Cfg) (p : Nat) (e : List Nat) (b : Entry) : Bool :=
  if cfg.entRemovalAnyPeer then b.2.2.1 = e else b.2.1 = p && b.2.2.1 = e

def callApply (w : W) (p : Nat) : Call → W
  | .bind c s _ => { w with binds := w.binds ++ [(s, p, c)] }
  | .unbind c s => { w with binds := w.binds.filter fun b => !unbindDrops w.cfg s p c b }
  | .sub c s _ => { w with subs := w.subs ++ [(s, p, c)] }
  | .unsub c s => { w with subs := w.subs.filter fun b => !(b.1 = s && b.2.1 = p && b.2.2 = c) }

def connected (w : W) (p : Nat) : Bool := (remF w p nmAddr).isSome

/-- a call datagram from the peer's node management to the local node management -/
def processCall (w : W) (p : Nat) (ctr : Nat) (ack : Bool) (k : Call) : W × List (Nat × Out) :=
  if !connected w p then (w, []) else
  if callOk w p k then
    let outs := if ack then [(p, Out.result (some ctr) 0 nmAddr nmAddr (some 0))] else []
    (bump (callApply w p k) outs, outs)
  else (bump w [(p, Out.result (some ctr) 1 nmAddr nmAddr (some 0))], [(p, Out.result (some ctr) 1 nmAddr nmAddr (some 0))])

def hasEnt (w : W) (p : Nat) (e : List Nat) : Bool := (w.peers p).feats.any fun f => f.ent = e

/-- the effect of a removed remote entity: its features, the subscriptions and bindings of that entity -/
def removeEnt (w : W) (p : Nat) (e : List Nat) : W :=
  { setPeer w p { w.peers p with feats := (w.peers p).feats.filter fun f => f.ent ≠ e } with
    subs := w.subs.filter fun b => !(b.2.1 = p && b.2.2.1 = e)
    binds := w.binds.filter fun b => !entDrops w.cfg p e b }

/-- does a removal entry for `e` remove anything: the entity is known, and it is not the device-information entity —
    the handler skips a removal entry for [0] (without it the peer could not be answered any more) -/
def remGo (w : W) (p : Nat) (e : List Nat) : Bool := hasEnt w p e && decide (e ≠ [0])

/-- partial discovery notification "entity `e` removed", from the peer's node management -/
def processEntRem (w : W) (p : Nat) (e : List Nat) (ctr : Nat) (ack : Bool) : W × List (Nat × Out) :=
  if !connected w p then (w, []) else
  let outs := if ack then [(p, Out.result (some ctr) 0 nmAddr nmAddr (some 0))] else []
  (bump (if remGo w p e then removeEnt w p e else w) outs, outs)

/-- partial discovery notification "entity `e` added" with the features the peer announced for it at first -/
def processEntAdd (w : W) (p : Nat) (e : List Nat) (ctr : Nat) (ack : Bool) : W × List (Nat × Out) :=
  if !connected w p then (w, []) else
  let outs := if ack then [(p, Out.result (some ctr) 0 nmAddr nmAddr (some 0))] else []
  let pr := w.peers p
  let feats := (pr.feats.filter fun f => f.ent ≠ e) ++ (w.fresh.feats.filter fun f => f.ent = e)
  (bump (setPeer w p { pr with feats := feats }) outs, outs)

/-- the entities a peer currently announces (every announced entity carries a feature) -/
def entsOf (w : W) (p : Nat) : List (List Nat) := ((w.peers p).feats.map (·.ent)).eraseDups

/-- a FULL (unfiltered) discovery notification that lists the entities `keep` (with the features of the announcement
    set for those that are new): the handler turns it into a diff — listed and unknown: added; known and not listed:
    removed ([0] is never removed); listed and known: untouched. An empty diff is an error (answered, and the data is
    read again). Every removed entity loses its features, subscriptions and bindings. -/
def fullRemoved (w : W) (p : Nat) (keep : List (List Nat)) : List (List Nat) :=
  (entsOf w p).filter fun e => !keep.contains e && e ≠ [0]

def fullAdded (w : W) (p : Nat) (keep : List (List Nat)) : List (List Nat) :=
  keep.filter fun e => !(entsOf w p).contains e

def fullEmpty (w : W) (p : Nat) (keep : List (List Nat)) : Bool :=
  (fullAdded w p keep).isEmpty && ((entsOf w p).filter fun e => !keep.contains e).isEmpty

def applyFull (w : W) (p : Nat) (keep : List (List Nat)) : W :=
  let rem := fullRemoved w p keep
  let add := fullAdded w p keep
  { setPeer w p { w.peers p with
      feats := ((w.peers p).feats.filter fun f => !rem.contains f.ent) ++ (w.fresh.feats.filter fun f => add.contains f.ent) } with
    subs := w.subs.filter fun b => !(b.2.1 = p && rem.contains b.2.2.1)
    binds := w.binds.filter fun b => !(rem.any fun e => entDrops w.cfg p e b) }

def processFull (w : W) (p : Nat) (keep : List (List Nat)) (ctr : Nat) (ack : Bool) : W × List (Nat × Out) :=
  if !connected w p then (w, []) else
  if fullEmpty w p keep then
    let e := (p, Out.result (some ctr) 1 nmAddr nmAddr (some 0))
    let r := request (sendN (w.peers p) 1) nmAddr 901
    (setPeer w p r.1, [e] ++ (if r.2 then [(p, Out.readReq 901 nmAddr nmAddr)] else []))
  else
    let outs := if ack then [(p, Out.result (some ctr) 0 nmAddr nmAddr (some 0))] else []
    (bump (applyFull w p keep) outs, outs)

/-- a repeated discovery *reply* of a connected peer (legal at any time): every announced entity is announced again
    with its features (new feature objects in the code; the registries keep their entries, which stay addressable),
    the device-added event makes the local node management ask again for the subscription and the use-case data
    (withheld while the identical request is unanswered), then the acknowledgement if requested -/
def processReann (w : W) (p : Nat) (ctr : Nat) (ref : Option Nat) (ack : Bool) : W × List (Nat × Out) :=
  if !connected w p then (w, []) else
  let pr1 := { answered (w.peers p) ref with feats := w.fresh.feats }
  let r1 := request pr1 nmAddr 1000
  let r2 := request r1.1 nmAddr 902
  let outs := (if r1.2 then [(p, Out.subReq)] else []) ++ (if r2.2 then [(p, Out.readReq 902 nmAddr nmAddr)] else []) ++
    (if ack then [(p, Out.result (some ctr) 0 nmAddr nmAddr (some 0))] else [])
  (setPeer w p (sendN r2.1 (if ack then 1 else 0)), outs)

/-- `RemoveRemoteDeviceConnection`: the registries lose what `RemoveSubscriptionsForDevice` /
    `RemoveBindingsForDevice` drop (entity by entity), the connection's sender and tree are gone -/
def dropPeer (w : W) (p : Nat) : W :=
  let ents := (w.peers p).feats.map (·.ent)
  { setPeer w p ⟨[], 0, []⟩ with
    subs := w.subs.filter fun b => b.2.1 ≠ p
    binds := w.binds.filter fun b => !(ents.any fun e => entDrops w.cfg p e b) }

/-- `SetupRemoteDevice` + the peer's discovery reply (discovery read answered; subscription to the peer's node
    management and use-case read outstanding) -/
def connPeer (w : W) (p : Nat) : W := if (w.peers p).feats.isEmpty then setPeer w p w.fresh else w

/-- `SetData` / `UpdateData` of the local application on a feature that holds data for the function: the value is
    set and the subscribers of the feature are notified -/
def localSet (w : W) (a : Addr) (fn v : Nat) : W × List (Nat × Out) :=
  match locF w a with
  | some lf =>
    if lf.fds.contains fn && !lf.nm then
      (bump { w with data := setData w.data a fn v } (notifsAt w a fn v), notifsAt w a fn v)
    else (w, [])
  | none => (w, [])

inductive Op
  | dg (p : Nat) (d : Dg)
  | call (p : Nat) (ctr : Nat) (ack : Bool) (k : Call)
  | entRem (p : Nat) (e : List Nat) (ctr : Nat) (ack : Bool)
  | entAdd (p : Nat) (e : List Nat) (ctr : Nat) (ack : Bool)
  | drop (p : Nat)
  | conn (p : Nat)
  | setData (a : Addr) (fn v : Nat)
  | reann (p : Nat) (ctr : Nat) (ref : Option Nat) (ack : Bool)
  | full (p : Nat) (keep : List (List Nat)) (ctr : Nat) (ack : Bool)
deriving Repr

def step (w : W) : Op → W × List (Nat × Out)
  | .dg p d => processCmd w p d
  | .call p ctr ack k => processCall w p ctr ack k
  | .entRem p e ctr ack => processEntRem w p e ctr ack
  | .entAdd p e ctr ack => processEntAdd w p e ctr ack
  | .drop p => (dropPeer w p, [])
  | .conn p => (connPeer w p, [])
  | .setData a fn v => localSet w a fn v
  | .reann p ctr ref ack => processReann w p ctr ref ack
  | .full p keep ctr ack => processFull w p keep ctr ack

def run (w : W) (ops : List Op) : W := ops.foldl (fun w o => (step w o).1) w

end Spine.Disp
