import Spine.TeardownServe
/-! C10 — an entity announced as removed: "all and only what refers to THAT ENTITY", over responses, for the SAME device.

    `TeardownServe` shows that every OTHER connection is served as before. Here: after entity `ent` of connection `k` is
    removed, the datagrams connection `k` itself sends from its OTHER entities are answered exactly as before — the only
    outputs that disappear are the notifications to client features of the removed entity.
    Lemma module (nothing a driver imports). -/
namespace Spine.TdS
open Spine Spine.Disp Spine.TdK

/-- `w'` is `w` after the removal of entity `ent` of connection `k`: the connection's features of that entity and registry
    entries of (k, ent) are gone, nothing else differs -/
structure FrameE (k : Nat) (ent : List Nat) (w w' : W) : Prop where
  loc : w'.loc = w.loc
  data : w'.data = w.data
  cfg : w'.cfg = w.cfg ∧ w'.nmData = w.nmData
  req : (w'.peers k).req = (w.peers k).req
  feats : (w'.peers k).feats = (w.peers k).feats.filter (fun f => f.ent ≠ ent)
  binds : ∃ keep : Disp.Entry → Bool, (∀ b, ¬(b.2.1 = k ∧ b.2.2.1 = ent) → keep b = true) ∧ w'.binds = w.binds.filter keep
  subs : ∃ keep : Disp.Entry → Bool, (∀ b, ¬(b.2.1 = k ∧ b.2.2.1 = ent) → keep b = true) ∧ w'.subs = w.subs.filter keep

/-- an output that is a notification to a client feature of entity `ent` of connection `k` -/
def toEnt (k : Nat) (ent : List Nat) (o : Nat × Out) : Bool :=
  o.1 == k && match o.2 with
    | .notify _ _ dst _ => dst.1 == ent
    | _ => false

section
variable {k : Nat} {ent : List Nat} {w w' : W} (hf : FrameE k ent w w') {d : Dg} (hs : d.src.1 ≠ ent)
include hf hs

theorem srcF_frameE : srcF w' k d = srcF w k d := by
  unfold srcF
  rw [hf.feats]
  apply find?_filter_of_imp
  intro a _ ha
  simp only [Bool.and_eq_true, decide_eq_true_eq] at ha
  simp only [decide_eq_true_eq]
  rw [ha.1]; exact hs

theorem gateOk_frameE (lf : LF) : gateOk w' k lf d = gateOk w k lf d := by
  obtain ⟨keep, hk, hb⟩ := hf.binds
  unfold gateOk
  rw [hb, any_filter_keep]
  intro b hb'
  apply hk
  simp only [Bool.and_eq_true, decide_eq_true_eq] at hb'
  intro h
  apply hs
  rw [← hb'.2]; exact h.2

omit hs in
theorem replyVal_frameE (lf : LF) (h4 : d.fn ≠ 904) (h5 : d.fn ≠ 905) : replyVal w' k lf d = replyVal w k lf d := by
  unfold replyVal
  rw [hf.data, hf.cfg.2]
  simp [h4, h5]

theorem responses_frameE (lf : LF) (rf : RF) (h4 : d.fn ≠ 904) (h5 : d.fn ≠ 905) :
    responses w' k lf rf d = responses w k lf rf d := by
  unfold responses
  rw [gateOk_frameE hf hs, replyVal_frameE hf lf h4 h5]

theorem applies_frameE (lf : LF) : applies w' k lf d = applies w k lf d := by
  unfold applies; rw [gateOk_frameE hf hs]

theorem wantsRead_frameE (lf : LF) (rf : RF) : wantsRead w' k lf rf d = wantsRead w k lf rf d := by
  unfold wantsRead; rw [gateOk_frameE hf hs]

theorem crashes_frameE (lf : LF) (rf : RF) (h4 : d.fn ≠ 904) (h5 : d.fn ≠ 905) :
    crashes w' k lf rf d = crashes w k lf rf d := by
  unfold crashes; rw [responses_frameE hf hs lf rf h4 h5, hf.cfg.1]

end

/-- the notifications of a data change, except those to client features of the removed entity, are those of before -/
theorem notifs_frameE {k : Nat} {ent : List Nat} {w w' : W} (hf : FrameE k ent w w') (d : Dg) :
    (notifs w' d).filter (fun o => !toEnt k ent o) = (notifs w d).filter (fun o => !toEnt k ent o) := by
  obtain ⟨keep, hk, hS⟩ := hf.subs
  unfold notifs notifsAt
  rw [hS]
  generalize w.subs = l
  induction l with
  | nil => rfl
  | cons s l ih =>
    by_cases hks : keep s = true
    · by_cases ha : (decide (s.1 = d.dst)) = true
      · simp only [List.filter_cons, hks, ha, if_true, List.map_cons]
        by_cases hn : toEnt k ent (s.2.1, Out.notify d.fn d.dst s.2.2 d.val) = true
        · simpa [hn] using ih
        · simpa [hn] using ih
      · simpa [List.filter_cons, hks, ha] using ih
    · have hks' : keep s = false := by simpa using hks
      have hsk : s.2.1 = k ∧ s.2.2.1 = ent := by
        apply Classical.byContradiction
        intro hne
        rw [hk s hne] at hks'; exact absurd hks' (by simp)
      by_cases ha : (decide (s.1 = d.dst)) = true
      · simp only [List.filter_cons, hks', ha, if_true, List.map_cons]
        have hn : toEnt k ent (s.2.1, Out.notify d.fn d.dst s.2.2 d.val) = true := by simp [toEnt, hsk.1, hsk.2]
        simpa [hn] using ih
      · simpa [List.filter_cons, hks', ha] using ih

/-- FRAME OVER RESPONSES for the SAME connection: after the removal of its entity `ent`, a datagram connection `k` sends
    from another of its entities (to a feature, or to node management except the two reads that list the caller's own
    subscriptions / bindings, which rightly shrink) produces exactly the outputs of before, minus the notifications to
    client features of the removed entity. -/
theorem serve_cmd_frameE {k : Nat} {ent : List Nat} {w w' : W} (hf : FrameE k ent w w') (d : Dg) (hs : d.src.1 ≠ ent)
    (h4 : d.fn ≠ 904) (h5 : d.fn ≠ 905) :
    (processCmd w' k d).2.filter (fun o => !toEnt k ent o) = (processCmd w k d).2.filter (fun o => !toEnt k ent o) := by
  rw [processCmd_snd, processCmd_snd]
  unfold outsCmd
  rw [srcF_frameE hf hs]
  cases srcF w k d with
  | none => rfl
  | some rf =>
    have hd : dstF w' d = dstF w d := by unfold dstF; rw [hf.loc]
    rw [hd]
    cases dstF w d with
    | none => dsimp only; rw [hf.cfg.1]
    | some lf =>
      dsimp only
      have hreq : (answered (w'.peers k) d.ref).req = (answered (w.peers k) d.ref).req := by
        unfold answered
        cases d.ref with
        | none => exact hf.req
        | some r => simp only; rw [hf.req]
      rw [crashes_frameE hf hs lf rf h4 h5, applies_frameE hf hs, responses_frameE hf hs lf rf h4 h5, wantsRead_frameE hf hs, hreq]
      split
      · rfl
      · simp only [List.filter_append]
        congr 2
        split
        · exact notifs_frameE hf d
        · rfl

/-! ## the key-level entity removal establishes `FrameE` -/

/-- the context announces, for entity `e`, features OF entity `e` -/
def Ctx.wf (x : Ctx) : Prop := ∀ q e, ∀ f ∈ x.featsOf q e, f.ent = e

theorem flatMap_filter_ent (g : List Nat → List RF) (hg : ∀ e, ∀ f ∈ g e, f.ent = e) (ent : List Nat) : ∀ l : List (List Nat),
    (l.filter (· != ent)).flatMap g = (l.flatMap g).filter (fun f => f.ent ≠ ent) := by
  intro l
  induction l with
  | nil => rfl
  | cons e l ih =>
    rw [List.flatMap_cons, List.filter_append, ← ih]
    by_cases he : e = ent
    · have h1 : (g e).filter (fun f => decide (f.ent ≠ ent)) = [] := by
        rw [List.filter_eq_nil_iff]
        intro f hf
        simp [hg e f hf, he]
      have h2 : (e :: l).filter (· != ent) = l.filter (· != ent) := by simp [List.filter_cons, he]
      rw [h1, h2, List.nil_append]
    · have h1 : (g e).filter (fun f => decide (f.ent ≠ ent)) = g e := by
        rw [List.filter_eq_self]
        intro f hf
        simp [hg e f hf, he]
      have h2 : (e :: l).filter (· != ent) = e :: l.filter (· != ent) := by simp [List.filter_cons, he]
      rw [h1, h2, List.flatMap_cons]

theorem world_dropEntity_frameE (x : Ctx) (hx : x.wf) (F : Facts) (hF : F.ok = true) (s : St) (hs : Inv s) (k : Nat) (c : Conn)
    (hk : forSki s k = some c) (ent : List Nat) (h0 : ent ≠ [0]) (hent : c.ents.contains ent = true) :
    FrameE k ent (world x s) (world x (dropEntity F s k ent).1) := by
  have h0' : (ent == [0]) = false := by simpa using h0
  have ex := dropEntity_exact F hF s hs k c hk ent h0 hent
  obtain ⟨_, hski⟩ := forSki_some hk
  have hself : forSki (dropEntity F s k ent).1 k = some { c with ents := c.ents.filter (· != ent) } := by
    unfold dropEntity
    simp only [hk, h0', hent, Bool.not_true, Bool.or_self, Bool.false_eq_true, if_false]
    simp only [forSki, List.find?_map]
    have hp : ((fun x : Conn => x.ski == k) ∘ dropConnEnt k ent) = (fun x => x.ski == k) := by
      funext x; simp [Function.comp, dropConnEnt_ski]
    rw [hp]
    have : s.conns.find? (fun x => x.ski == k) = some c := hk
    rw [this]
    simp [dropConnEnt, hski]
  refine ⟨rfl, rfl, ⟨rfl, rfl⟩, ?_, ?_, ⟨fun b => !(b.2.1 == k && b.2.2.1 == ent), ?_, ?_⟩,
    ⟨fun b => !(b.2.1 == k && b.2.2.1 == ent), ?_, ?_⟩⟩
  · simp only [world, peerOf, hself, hk]
  · simp only [world, peerOf, hself, hk]
    exact flatMap_filter_ent (x.featsOf k) (hx k) ent c.ents
  · intro b hb
    by_cases h1 : b.2.1 = k <;> by_cases h2 : b.2.2.1 = ent <;> simp_all
  · simp only [world]; rw [ex.2.1]; exact map_filter_entryOf _ _ _ (fun _ => rfl)
  · intro b hb
    by_cases h1 : b.2.1 = k <;> by_cases h2 : b.2.2.1 = ent <;> simp_all
  · simp only [world]; rw [ex.1]; exact map_filter_entryOf _ _ _ (fun _ => rfl)

end Spine.TdS
