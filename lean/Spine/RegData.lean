import Spine.Registry
/-! The three data-change paths of a local server feature composed with the subscription registry (C08, clause
    "… carrying the changed function's data, through SetData, UpdateData and accepted remote writes alike").

    Transcribes `spine/feature_local.go` (`SetData`, `UpdateData`, `executeWrite`, all three through `updateData`),
    `spine/function_data_cmd.go` (`NotifyOrWriteCmdType`: the cmd is built from `DataCopy()`, i.e. from the store AS IT
    IS AFTER THE CHANGE) and `spine/device_local.go` (`NotifySubscribers`: one `Notify` per entry of
    `SubscriptionsOnFeature`, a failed send is ignored) over the registry state of `Spine.Reg`.

    The content of a function's data is an opaque number here: HOW a change merges into the stored data is property
    C02's (model `Spine.Update`); this model fixes WHAT is notified (the function and its stored data after the change),
    to WHOM (the registry's entries on the changed feature) and WHEN (exactly after an accepted store, never otherwise).
    The static faces of "when" and "what" — every path stores before it notifies, notifies at most once, builds the cmd
    from the very object it stored into, addresses the receiver's own feature — are regenerated from the source
    (`Generated/NotifyPaths.lean`, generator `notifypaths`). -/
namespace Spine.RegData
open Spine

/-- one function of one local feature -/
structure FKey where
  ent : List Nat
  feat : Nat
  fn : Nat
deriving DecidableEq, Repr

structure St where
  reg : Reg.St
  /-- the function-data store: a key is present iff the feature exists and has that function -/
  store : List (FKey × Nat) := []
  /-- functions that accept a remote write -/
  writable : List FKey := []

/-- a notify datagram as it is written: destination connection and client feature, source feature, the cmd -/
structure Note where
  peer : Nat
  cEnt : List Nat
  cFeat : Nat
  sEnt : List Nat
  sFeat : Nat
  fn : Nat
  data : Nat
deriving DecidableEq, Repr

def lookup : List (FKey × Nat) → FKey → Option Nat
  | [], _ => none
  | (k', v) :: r, k => if k' = k then some v else lookup r k

/-- replace the value of an existing key (the set of keys never changes) -/
def put : List (FKey × Nat) → FKey → Nat → List (FKey × Nat)
  | [], _, _ => []
  | (k', v') :: r, k, v => if k' = k then (k', v) :: r else (k', v') :: put r k v

inductive Path | setData | updateData | remoteWrite
deriving DecidableEq, Repr

/-- `FunctionData.UpdateDataAny(remoteWrite, …)`: a remote write to a function that is not writable is refused; the
    merge itself is C02's and opaque here (`nv` is the content after the change) -/
def storeStep (path : Path) (writable : Bool) (nv : Nat) : Option Nat :=
  match path with
  | .remoteWrite => if writable then some nv else none
  | _ => some nv

/-- `NotifyOrWriteCmdType`: function type and `DataCopy()` of the function-data object -/
def cmdOf (store : List (FKey × Nat)) (k : FKey) : Option (Nat × Nat) := (lookup store k).map fun v => (k.fn, v)

def mkNote (sEnt : List Nat) (sFeat : Nat) (cmd : Nat × Nat) (t : Nat × List Nat × Nat) : Note :=
  ⟨t.1, t.2.1, t.2.2, sEnt, sFeat, cmd.1, cmd.2⟩

/-- `DeviceLocal.NotifySubscribers(featureAddress, cmd)` -/
def notifySubscribers (s : Reg.St) (fails : Nat → Bool) (sEnt : List Nat) (sFeat : Nat) (cmd : Nat × Nat) : List Note :=
  (Reg.delivered s fails sEnt sFeat).map (mkNote sEnt sFeat cmd)

/-- `FeatureLocal.updateData`: `functionData(function) == nil` → error, nothing stored; otherwise `UpdateDataAny` -/
def updateData (d : St) (path : Path) (k : FKey) (nv : Nat) : St × Bool :=
  match lookup d.store k with
  | none => (d, false)
  | some _ =>
    match storeStep path (d.writable.contains k) nv with
    | none => (d, false)
    | some v => ({ d with store := put d.store k v }, true)

/-- the common tail of `SetData` / `UpdateData` / `executeWrite`: after a successful store, and only then,
    `NotifySubscribers(r.Address(), fctData.NotifyOrWriteCmdType(…))` -/
def change (d : St) (fails : Nat → Bool) (path : Path) (k : FKey) (nv : Nat) : St × Bool × List Note :=
  match updateData d path k nv with
  | (d', false) => (d', false, [])
  | (d', true) =>
    match cmdOf d'.store k with
    | some cmd => (d', true, notifySubscribers d'.reg fails k.ent k.feat cmd)
    | none => (d', true, [])

inductive WriteAns | none | denied | applied
deriving DecidableEq, Repr

/-- a write datagram of peer `p` from its feature (cEnt, cFeat): unknown source feature → no answer; no binding of
    that very client to the addressed server feature → denied; then the write path -/
def remoteWrite (d : St) (fails : Nat → Bool) (p : Nat) (cEnt : List Nat) (cFeat : Nat) (k : FKey) (nv : Nat) :
    St × WriteAns × List Note :=
  if (Reg.findF (d.reg.rem p) cEnt cFeat).isNone then (d, .none, [])
  else if !(d.reg.binds.any (·.is p cEnt cFeat k.ent k.feat)) then (d, .denied, [])
  else match change d fails .remoteWrite k nv with
    | (d', true, ns) => (d', .applied, ns)
    | (d', false, _) => (d', .denied, [])

/-! ## lemmas -/

theorem lookup_put_self (st : List (FKey × Nat)) (k : FKey) (v : Nat) (h : (lookup st k).isSome = true) :
    lookup (put st k v) k = some v := by
  induction st with
  | nil => simp [lookup] at h
  | cons a r ih =>
    obtain ⟨k', v'⟩ := a
    by_cases hk : k' = k
    · simp [put, lookup, hk]
    · simp only [lookup, hk, if_false] at h
      simp [put, lookup, hk, ih h]

theorem lookup_put_other (st : List (FKey × Nat)) (k k2 : FKey) (v : Nat) (hne : k2 ≠ k) :
    lookup (put st k v) k2 = lookup st k2 := by
  induction st with
  | nil => simp [put, lookup]
  | cons a r ih =>
    obtain ⟨k', v'⟩ := a
    by_cases hk : k' = k
    · subst hk
      have : ¬ k' = k2 := fun h => hne h.symm
      simp [put, lookup, this]
    · by_cases hk2 : k' = k2
      · subst hk2; simp [put, lookup, hk]
      · simp [put, lookup, hk, hk2, ih]

theorem put_keys (st : List (FKey × Nat)) (k : FKey) (v : Nat) : (put st k v).map (·.1) = st.map (·.1) := by
  induction st with
  | nil => simp [put]
  | cons a r ih =>
    obtain ⟨k', v'⟩ := a
    by_cases hk : k' = k <;> simp [put, hk, ih]

theorem updateData_reg (d : St) (path : Path) (k : FKey) (nv : Nat) : (updateData d path k nv).1.reg = d.reg := by
  unfold updateData
  split
  · rfl
  · split <;> rfl

/-- what `updateData` answers and stores -/
theorem updateData_spec (d : St) (path : Path) (k : FKey) (nv : Nat) :
    ((updateData d path k nv).2 = true ↔
      (lookup d.store k).isSome = true ∧ (path = .remoteWrite → d.writable.contains k = true)) ∧
    ((updateData d path k nv).2 = true → lookup (updateData d path k nv).1.store k = some nv) ∧
    ((updateData d path k nv).2 = false → (updateData d path k nv).1 = d) := by
  unfold updateData
  cases hl : lookup d.store k with
  | none => simp
  | some old =>
    cases path with
    | setData => simp [storeStep]; exact lookup_put_self _ _ _ (by simp [hl])
    | updateData => simp [storeStep]; exact lookup_put_self _ _ _ (by simp [hl])
    | remoteWrite =>
      by_cases hw : k ∈ d.writable
      · simp [storeStep, hw]; exact lookup_put_self _ _ _ (by simp [hl])
      · simp [storeStep, hw]

/-- THE clause: on each of the three paths, an accepted change is notified through the one fan-out
    (`Reg.delivered` over the registry as it is) with the changed function and the data the store holds for it after
    the change; a refused change is notified to nobody and leaves the store as it was. -/
theorem change_spec (d : St) (fails : Nat → Bool) (path : Path) (k : FKey) (nv : Nat) :
    let r := change d fails path k nv
    r.1.reg = d.reg ∧
    (r.2.1 = true → lookup r.1.store k = some nv ∧
        r.2.2 = (Reg.delivered d.reg fails k.ent k.feat).map (mkNote k.ent k.feat (k.fn, nv))) ∧
    (r.2.1 = false → r.1 = d ∧ r.2.2 = []) := by
  have hs := updateData_spec d path k nv
  have hr := updateData_reg d path k nv
  unfold change
  generalize hu : updateData d path k nv = u at hs hr
  obtain ⟨d', ok⟩ := u
  cases ok with
  | false =>
    simp only at hs hr ⊢
    exact ⟨hr, by simp, by simp [hs.2.2 trivial]⟩
  | true =>
    simp only at hs hr ⊢
    have hl := hs.2.1 trivial
    simp [cmdOf, hl, notifySubscribers, hr]

theorem sendLoop_sublist (fails : Nat → Bool) : ∀ l, (Reg.sendLoop false fails l).Sublist l
  | [] => List.Sublist.slnil
  | a :: r => by
    simp only [Reg.sendLoop]
    split
    · exact (sendLoop_sublist fails r).cons _
    · exact (sendLoop_sublist fails r).cons₂ _

theorem sendLoop_healthy : ∀ l, Reg.sendLoop false (fun _ => false) l = l
  | [] => rfl
  | a :: r => by simp [Reg.sendLoop, sendLoop_healthy r]

end Spine.RegData
