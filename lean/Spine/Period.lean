/-! C16: the refresh period derived from the announced heartbeat timeout (milliseconds) -/
namespace Spine.HB

def period (timeout : Nat) : Nat := if timeout > 2000 then timeout - 2000 else timeout

/-- the period never exceeds the announced timeout and is positive for a positive timeout -/
theorem c16_period_le_timeout (t : Nat) (ht : 0 < t) : 0 < period t ∧ period t ≤ t := by
  unfold period; split <;> omega

end Spine.HB
