/-! Prototype: Sender message counter, unanswered-request cache and notify LRU (spine/send.go) -/
namespace Spine.Snd

structure St where
  msgNum : Nat := 0
  req : List (Nat × Nat) := []      -- (counter, hash of destination+command), unanswered requests
  lru : List Nat := []              -- notify counters, most recently used first
  limit : Nat := 20
  cap : Nat := 100

def evict (s : St) : List (Nat × Nat) :=
  if s.req.length > s.limit then
    match (s.req.map (·.1)).min? with
    | some lo => s.req.filter (·.1 ≠ lo)
    | none => s.req
  else s.req

/-- Request: returns (state, counter returned, whether a datagram was written) -/
def request (s : St) (h : Nat) : St × Nat × Bool :=
  match s.req.find? (·.2 = h) with
  | some (c, _) => (s, c, false)
  | none => ({ s with msgNum := s.msgNum + 1, req := evict s ++ [(s.msgNum + 1, h)] }, s.msgNum + 1, true)

def response (s : St) (ref : Nat) : St := { s with req := s.req.filter (·.1 ≠ ref) }

/-- any other send (reply, result, write): just draws a counter -/
def other (s : St) : St × Nat := ({ s with msgNum := s.msgNum + 1 }, s.msgNum + 1)

def notify (s : St) : St × Nat :=
  ({ s with msgNum := s.msgNum + 1,
            lru := (s.msgNum + 1) :: (if s.lru.length ≥ s.cap then s.lru.dropLast else s.lru) }, s.msgNum + 1)

/-- DatagramForMsgCounter: a hit moves the entry to the front -/
def get (s : St) (c : Nat) : St × Bool :=
  if s.lru.contains c then ({ s with lru := c :: s.lru.filter (· ≠ c) }, true) else (s, false)

inductive Op | request (h : Nat) | response (ref : Nat) | other | notify | get (c : Nat)

def step (s : St) : Op → St
  | .request h => (request s h).1
  | .response r => response s r
  | .other => (other s).1
  | .notify => (notify s).1
  | .get c => (get s c).1

end Spine.Snd
