import Spine.C19
/-! C19, clause S1 above the proved bound 2^50: the arithmetic heart of the error analysis as a theorem over the
    rounding relation, WITHOUT a bound on the numerator — the bound is replaced by the condition on the two scale
    factors that the analysis needs: with `v = m / a` the double nearest to `j / T` (`a = 2^E`, one unit in the last
    place of `v` is `1/a`) and `p' = m' / b` the double nearest to `v * T` (`b = 2^E'`), `math.Round p' = j` as soon as
    `T / a + 1 / b < 1`, i.e. `a + T * b < a * b`: the error of `v`, times `T`, plus the error of the product stay
    below one half. Lemma file (Mathlib tactics). -/
namespace Spine.Rnd

theorem two_roundings_wide (j T m m' a b : ℤ) (ha : 0 < a) (hb : 0 < b)
    (hab : a + T * b < a * b)
    (h1 : 2 * |m * T - j * a| ≤ T)
    (h2 : 2 * |m' * a - m * T * b| ≤ a) :
    2 * |m' - j * b| < b := by
  have key : 2 * (a * |m' - j * b|) < a * b := by
    have habs : a * |m' - j * b| = |m' * a - j * a * b| := by
      rw [← abs_of_pos ha, ← abs_mul, abs_of_pos ha]; ring_nf
    rw [habs]
    have htri : 2 * |m' * a - j * a * b| ≤ a + T * b := by
      rw [show m' * a - j * a * b = (m' * a - m * T * b) + (m * T - j * a) * b from by ring]
      have := abs_add_le (m' * a - m * T * b) ((m * T - j * a) * b)
      have hb' : |(m * T - j * a) * b| = |m * T - j * a| * b := by
        rw [abs_mul, abs_of_pos hb]
      have : 2 * (|m * T - j * a| * b) ≤ T * b := by nlinarith
      linarith
    linarith
  nlinarith

/-- `math.Round (double (double (j / T) * T)) = j` whenever the scale factors satisfy `2^E + T * 2^E' < 2^E * 2^E'`
    — no bound on `j` -/
theorem c19_round_recovers_wide (j T m m' E E' : Nat)
    (hab : 2 ^ E + T * 2 ^ E' < 2 ^ E * 2 ^ E')
    (h1 : IsRnd j T m (-(E : Int))) (h2 : IsRnd (m * T) (2 ^ E) m' (-(E' : Int))) :
    roundHalfUp m' E' = j := by
  obtain ⟨_, h1a, h1b⟩ := isRnd_neg j T m E h1
  obtain ⟨_, h2a, h2b⟩ := isRnd_neg (m * T) (2 ^ E) m' E' h2
  have hapos : (0 : ℤ) < (2 : ℤ) ^ E := by positivity
  have hbpos : (0 : ℤ) < (2 : ℤ) ^ E' := by positivity
  have key := two_roundings_wide (j : ℤ) (T : ℤ) (m : ℤ) (m' : ℤ) ((2 : ℤ) ^ E) ((2 : ℤ) ^ E') hapos hbpos
    (by exact_mod_cast hab)
    (by
      have ha : (2 * (m * T) : ℤ) ≤ 2 * (j * 2 ^ E) + T := by exact_mod_cast h1a
      have hb : (2 * (j * 2 ^ E) : ℤ) ≤ 2 * (m * T) + T := by exact_mod_cast h1b
      rw [show (2 : ℤ) * |(m : ℤ) * T - j * 2 ^ E| = |2 * ((m : ℤ) * T - j * 2 ^ E)| by
        rw [abs_mul]; norm_num]
      rw [abs_le]; constructor <;> linarith)
    (by
      have ha : (2 * (m' * 2 ^ E) : ℤ) ≤ 2 * (m * T * 2 ^ E') + 2 ^ E := by exact_mod_cast h2a
      have hb : (2 * (m * T * 2 ^ E') : ℤ) ≤ 2 * (m' * 2 ^ E) + 2 ^ E := by exact_mod_cast h2b
      rw [show (2 : ℤ) * |(m' : ℤ) * 2 ^ E - m * T * 2 ^ E'| = |2 * ((m' : ℤ) * 2 ^ E - m * T * 2 ^ E')| by
        rw [abs_mul]; norm_num]
      rw [abs_le]; constructor <;> linarith)
  rw [show (2 : ℤ) * |(m' : ℤ) - j * 2 ^ E'| = |2 * ((m' : ℤ) - j * 2 ^ E')| by rw [abs_mul]; norm_num] at key
  rw [abs_lt] at key
  obtain ⟨k1, k2⟩ := key
  have hb0 : 0 < 2 * 2 ^ E' := by positivity
  unfold roundHalfUp
  apply Nat.div_eq_of_lt_le
  · zify; push_cast; nlinarith
  · zify; push_cast; nlinarith

end Spine.Rnd
