import Spine.DiscoveryFixed
/-! C06, content level: not only which entity addresses are known, but what the API reports for each of them (entity
    type, description, the feature list with address, type, role, description and operations).
    `specEntity` is the specification, one address at a time; the repaired member refines it for every tree, every
    message and every address (`c06_tree_refines`). Address lists stay duplicate-free in both members, so the entity
    list is a faithful finite map and "per address" says everything. -/
namespace Spine.Disc

/-- SPEC, one address at a time: what is known at address `a` after entry `ei` of message `m`.
    added ⇒ the entity exists with exactly the features the message lists for it and the announced description
    (a known entity keeps its type: an entity's type is fixed when it is created); removed ⇒ absent;
    entries about other addresses change nothing. -/
def specEntity (m : Msg) (a : List Nat) (cur : Option E) (ei : EI) : Option E :=
  if ei.addr = a then
    match ei.chg with
    | .added => some ⟨a, (match cur with | some e => e.typ | none => ei.typ), ei.desc, m.feats.filter (·.ent = a)⟩
    | .removed => none
    | .none => cur
  else cur

theorem find?_congr' {α : Type} {p q : α → Bool} : ∀ {l : List α}, (∀ x ∈ l, p x = q x) → l.find? p = l.find? q
  | [], _ => rfl
  | x :: l, h => by
    have hx : p x = q x := h x (List.mem_cons_self ..)
    have ih := find?_congr' (l := l) (fun y hy => h y (List.mem_cons_of_mem _ hy))
    simp only [List.find?_cons, hx, ih]

theorem findE_some_addr {t : Tree} {a : List Nat} {e : E} (h : findE t a = some e) : e.addr = a := by
  unfold findE at h
  have := List.find?_some h
  simpa using this

theorem findE_addOne (m : Msg) (acc : Tree × List Evt) (ei : EI) (a : List Nat) :
    findE (addOne m acc ei).1 a =
      if ei.addr = a then
        some ⟨a, (match findE acc.1 a with | some e => e.typ | none => ei.typ), ei.desc, m.feats.filter (·.ent = a)⟩
      else findE acc.1 a := by
  obtain ⟨t, evs⟩ := acc
  simp only [addOne]
  split
  · rename_i e0 he0
    have hadr : e0.addr = ei.addr := findE_some_addr he0
    simp only
    have hmap : findE (t.map fun e => if e.addr = ei.addr then { e with desc := ei.desc, feats := m.feats.filter (·.ent = ei.addr) } else e) a
        = (findE t a).map fun e => if e.addr = ei.addr then { e with desc := ei.desc, feats := m.feats.filter (·.ent = ei.addr) } else e := by
      unfold findE
      rw [List.find?_map]
      congr 1
      apply find?_congr'
      intro e _
      simp only [Function.comp]
      split <;> rfl
    rw [hmap]
    by_cases h : ei.addr = a
    · subst h
      simp [he0, hadr]
    · simp only [h, if_false]
      cases hf : findE t a with
      | none => rfl
      | some e =>
        have : e.addr = a := findE_some_addr hf
        have hne : ¬ e.addr = ei.addr := by rw [this]; exact fun h' => h h'.symm
        simp [hne]
  · rename_i hn
    simp only
    unfold findE at hn ⊢
    rw [List.find?_append]
    by_cases h : ei.addr = a
    · subst h
      simp [hn]
    · simp only [h, if_false]
      cases hf : List.find? (fun x => decide (x.addr = a)) t with
      | some e => simp
      | none => simp [h]

theorem findE_remOne (acc : Tree × List Evt) (ei : EI) (a : List Nat) :
    findE (remOne acc ei).1 a = if ei.addr = a then none else findE acc.1 a := by
  obtain ⟨t, evs⟩ := acc
  simp only [remOne]
  split
  · simp only
    unfold findE
    rw [List.find?_filter]
    by_cases h : ei.addr = a
    · subst h
      simp only [if_true]
      rw [List.find?_eq_none]
      intro e _
      by_cases h2 : e.addr = ei.addr <;> simp [h2]
    · simp only [h, if_false]
      apply find?_congr'
      intro e _
      by_cases h2 : e.addr = a
      · have : ¬ a = ei.addr := fun h' => h h'.symm
        simp [h2, this]
      · simp [h2]
  · rename_i hn
    simp only
    by_cases h : ei.addr = a
    · subst h; simp [hn]
    · simp [h]

/-- one entry of the repaired member is one step of the specification, at every address -/
theorem findE_stepFixed (m : Msg) (acc : Tree × List Evt) (ei : EI) (a : List Nat) :
    findE (stepFixed m acc ei).1 a = specEntity m a (findE acc.1 a) ei := by
  unfold stepFixed specEntity
  cases hc : ei.chg with
  | added => simp only [findE_addOne]
  | removed => simp only [findE_remOne]
  | none => by_cases h : ei.addr = a <;> simp [h]

/-- C06 (repaired), content level: entries applied in order refine the per-address specification, for every tree, every
    entry list and every address -/
theorem c06_tree_refines (m : Msg) : ∀ (l : List EI) (acc : Tree × List Evt) (a : List Nat),
    findE (l.foldl (stepFixed m) acc).1 a = l.foldl (specEntity m a) (findE acc.1 a)
  | [], _, _ => rfl
  | ei :: l, acc, a => by
    rw [List.foldl_cons, List.foldl_cons, c06_tree_refines m l _ a, findE_stepFixed]

/-- … for the notification handler itself when the notification is well formed (non-empty, every entry carries a state
    change) -/
theorem c06_tree_notification (m : Msg) (t : Tree) (a : List Nat) (hne : m.ents ≠ [])
    (hall : m.ents.any (·.chg = .none) = false) :
    findE (notifyPartialFixed m t).1 a = m.ents.foldl (specEntity m a) (findE t a) := by
  unfold notifyPartialFixed
  have : m.ents.isEmpty = false := by cases h : m.ents with | nil => exact absurd h hne | cons _ _ => rfl
  rw [this, hall]
  simp only [Bool.false_eq_true, if_false]
  exact c06_tree_refines m m.ents (t, []) a

/-- the discovery reply (both members: the reply handler is `AddEntityAndFeatures` over the whole message) treats every
    entry as `added` -/
theorem c06_tree_reply (m : Msg) (t : Tree) (a : List Nat) :
    findE (reply m t).1 a = m.ents.foldl (fun cur ei => specEntity m a cur { ei with chg := .added }) (findE t a) := by
  unfold reply addAll
  suffices ∀ (l : List EI) (acc : Tree × List Evt),
      findE (l.foldl (addOne m) acc).1 a
        = l.foldl (fun cur ei => specEntity m a cur { ei with chg := .added }) (findE acc.1 a) from this m.ents (t, [])
  intro l
  induction l with
  | nil => intro acc; rfl
  | cons ei l ih =>
    intro acc
    rw [List.foldl_cons, List.foldl_cons, ih, findE_addOne]
    rfl

/-- an address no entry mentions keeps its entity unchanged: same type, description, features -/
theorem specEntity_untouched (m : Msg) (a : List Nat) : ∀ (l : List EI) (cur : Option E),
    (∀ ei ∈ l, ei.addr ≠ a) → l.foldl (specEntity m a) cur = cur
  | [], _, _ => rfl
  | ei :: l, cur, h => by
    rw [List.foldl_cons]
    have h1 : ei.addr ≠ a := h ei (List.mem_cons_self ..)
    have : specEntity m a cur ei = cur := by simp [specEntity, h1]
    rw [this]
    exact specEntity_untouched m a l cur (fun x hx => h x (List.mem_cons_of_mem _ hx))

/-- C06 (repaired): a notification leaves every entity it does not name exactly as it was -/
theorem c06_tree_nothing_else (m : Msg) (t : Tree) (a : List Nat) (hne : m.ents ≠ [])
    (hall : m.ents.any (·.chg = .none) = false) (hun : ∀ ei ∈ m.ents, ei.addr ≠ a) :
    findE (notifyPartialFixed m t).1 a = findE t a := by
  rw [c06_tree_notification m t a hne hall, specEntity_untouched m a m.ents _ hun]

/-! ### the entity list is a finite map: addresses stay distinct (both members) -/

theorem addrs_addOne (m : Msg) (acc : Tree × List Evt) (ei : EI) :
    addrs (addOne m acc ei).1 = if ei.addr ∈ addrs acc.1 then addrs acc.1 else addrs acc.1 ++ [ei.addr] := by
  obtain ⟨t, evs⟩ := acc
  simp only [addOne]
  split
  · rename_i e he
    have hin : ei.addr ∈ addrs t := (findE_isSome_iff t ei.addr).mp (by rw [he]; rfl)
    rw [if_pos hin]
    simp only [addrs, List.map_map]
    apply List.map_congr_left
    intro e _
    simp only [Function.comp]
    split <;> rfl
  · rename_i hn
    have hnot : ei.addr ∉ addrs t := (findE_none_iff t ei.addr).mp hn
    rw [if_neg hnot]
    simp [addrs]

theorem addrs_remOne (acc : Tree × List Evt) (ei : EI) :
    addrs (remOne acc ei).1 = (addrs acc.1).filter (· ≠ ei.addr) := by
  obtain ⟨t, evs⟩ := acc
  simp only [remOne]
  split
  · simp only [addrs, List.filter_map]
    congr 1
  · rename_i hn
    have hnot : ei.addr ∉ addrs t := (findE_none_iff t ei.addr).mp hn
    simp only
    symm
    rw [List.filter_eq_self]
    intro x hx
    have : x ≠ ei.addr := fun h => hnot (h ▸ hx)
    simpa using this

theorem nodup_addOne (m : Msg) (acc : Tree × List Evt) (ei : EI) (h : (addrs acc.1).Nodup) :
    (addrs (addOne m acc ei).1).Nodup := by
  rw [addrs_addOne]
  split
  · exact h
  · rename_i hn
    rw [List.nodup_append]
    refine ⟨h, List.nodup_cons.mpr ⟨List.not_mem_nil, List.nodup_nil⟩, ?_⟩
    intro x hx y hy
    have : y = ei.addr := by simpa using hy
    subst this
    exact fun heq => hn (heq ▸ hx)

theorem nodup_remOne (acc : Tree × List Evt) (ei : EI) (h : (addrs acc.1).Nodup) :
    (addrs (remOne acc ei).1).Nodup := by
  rw [addrs_remOne]
  exact h.filter _

theorem nodup_stepFixed (m : Msg) (acc : Tree × List Evt) (ei : EI) (h : (addrs acc.1).Nodup) :
    (addrs (stepFixed m acc ei).1).Nodup := by
  unfold stepFixed
  cases ei.chg with
  | added => exact nodup_addOne m acc ei h
  | removed => exact nodup_remOne acc ei h
  | none => exact h

theorem nodup_foldFixed (m : Msg) : ∀ (l : List EI) (acc : Tree × List Evt), (addrs acc.1).Nodup →
    (addrs (l.foldl (stepFixed m) acc).1).Nodup
  | [], _, h => h
  | ei :: l, acc, h => by
    rw [List.foldl_cons]
    exact nodup_foldFixed m l _ (nodup_stepFixed m acc ei h)

theorem nodup_addAll (m : Msg) (t : Tree) (h : (addrs t).Nodup) : (addrs (addAll m t).1).Nodup := by
  unfold addAll
  suffices ∀ (l : List EI) (acc : Tree × List Evt), (addrs acc.1).Nodup → (addrs (l.foldl (addOne m) acc).1).Nodup from
    this m.ents (t, []) h
  intro l
  induction l with
  | nil => intro acc h; exact h
  | cons ei l ih => intro acc h; rw [List.foldl_cons]; exact ih _ (nodup_addOne m acc ei h)

theorem nodup_remAll (m : Msg) (t : Tree) (h : (addrs t).Nodup) : (addrs (remAll m t).1).Nodup := by
  unfold remAll
  suffices ∀ (l : List EI) (acc : Tree × List Evt), (addrs acc.1).Nodup → (addrs (l.foldl remOne acc).1).Nodup from
    this m.ents (t, []) h
  intro l
  induction l with
  | nil => intro acc h; exact h
  | cons ei l ih => intro acc h; rw [List.foldl_cons]; exact ih _ (nodup_remOne acc ei h)

theorem nodup_foldWritten (m : Msg) : ∀ (l : List EI) (acc : Tree × List Evt), (addrs acc.1).Nodup →
    (addrs (l.foldl (stepWritten m) acc).1).Nodup
  | [], _, h => h
  | ei :: l, acc, h => by
    rw [List.foldl_cons]
    apply nodup_foldWritten m l
    unfold stepWritten
    cases ei.chg with
    | added => exact nodup_addAll m acc.1 h
    | removed => exact nodup_remAll m acc.1 h
    | none => exact h

/-- both members keep the addresses of a tree distinct under every notification -/
theorem nodup_notifyPartial (m : Msg) (t : Tree) (h : (addrs t).Nodup) : (addrs (notifyPartial m t).1).Nodup := by
  unfold notifyPartial
  split
  · exact h
  · split
    · exact nodup_foldWritten m _ _ h
    · exact nodup_foldWritten m _ _ h

theorem nodup_notifyPartialFixed (m : Msg) (t : Tree) (h : (addrs t).Nodup) :
    (addrs (notifyPartialFixed m t).1).Nodup := by
  unfold notifyPartialFixed
  split
  · exact h
  · split
    · exact nodup_foldFixed m _ _ h
    · exact nodup_foldFixed m _ _ h

end Spine.Disc
