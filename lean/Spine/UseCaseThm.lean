import Spine.UseCase
namespace Spine.UC

/-- the abstract registry of the property: (entity, actor, name) ↦ what was last declared -/
def lookup (r : Reg) (e : List Nat) (a n : Nat) : Option Support :=
  match r.find? (fun i => i.ent = e && i.actor = a) with
  | none => none
  | some i => i.sup.find? (·.name = n)

/-! ### supports of one information element -/

theorem find_addSup (sup : List Support) (s : Support) (n : Nat) :
    (addSup sup s).find? (·.name = n) = if n = s.name then some s else sup.find? (·.name = n) := by
  induction sup with
  | nil =>
    simp only [addSup, List.find?_cons, List.find?_nil]
    by_cases h : n = s.name
    · simp [h]
    · have : ¬ s.name = n := fun h' => h h'.symm
      simp [h, this]
  | cons x xs ih =>
    simp only [addSup]
    by_cases hx : x.name = s.name
    · simp only [hx, if_true, List.find?_cons]
      by_cases h : n = s.name
      · simp [h]
      · have h1 : ¬ s.name = n := fun h' => h h'.symm
        have h2 : ¬ x.name = n := by rw [hx]; exact h1
        simp [h, h1]
    · simp only [hx, if_false, List.find?_cons]
      by_cases hxn : x.name = n
      · have : ¬ n = s.name := by rw [← hxn]; exact hx
        simp [hxn, this]
      · simp [hxn, ih]

/-! ### the registry -/

theorem hit_actor (e : List Nat) (a : Nat) (ha : a ≠ 0) (i : Info) :
    hit e a 0 i = (decide (i.ent = e) && decide (i.actor = a)) := by
  simp [hit, ha]

theorem hit_actor_name (e : List Nat) (a n : Nat) (ha : a ≠ 0) (hn : n ≠ 0) (i : Info) :
    hit e a n i = (decide (i.ent = e) && (decide (i.actor = a) && hasName i.sup n)) := by
  simp [hit, ha, hn]

/-- C20, add: afterwards exactly the declared use case is registered under (entity, actor, name),
    everything else is as before — for every registry, no invariant needed -/
theorem lookup_add (r : Reg) (e : List Nat) (a : Nat) (ha : a ≠ 0) (s : Support)
    (e' : List Nat) (a' n' : Nat) :
    lookup (add r e a s) e' a' n' =
      if e' = e ∧ a' = a ∧ n' = s.name then some s else lookup r e' a' n' := by
  induction r with
  | nil =>
    simp only [add, lookup, List.find?_cons, List.find?_nil]
    by_cases h : e = e' ∧ a = a'
    · obtain ⟨rfl, rfl⟩ := h
      by_cases hn : s.name = n'
      · simp [hn]
      · have : ¬ n' = s.name := fun h' => hn h'.symm
        simp [hn, this]
    · have h1 : (decide (e = e') && decide (a = a')) = false := by
        simp only [Bool.and_eq_false_imp, decide_eq_true_eq, decide_eq_false_iff_not]
        intro he ha'; exact h ⟨he, ha'⟩
      have h2 : ¬ (e' = e ∧ a' = a ∧ n' = s.name) := fun ⟨h3, h4, _⟩ => h ⟨h3.symm, h4.symm⟩
      simp [h1, h2]
  | cons i rest ih =>
    simp only [add, hit_actor e a ha]
    by_cases hi : i.ent = e ∧ i.actor = a
    · obtain ⟨hie, hia⟩ := hi
      simp only [hie, hia, decide_true, Bool.and_self, if_true, lookup, List.find?_cons]
      by_cases h' : e = e' ∧ a = a'
      · obtain ⟨rfl, rfl⟩ := h'
        simp [find_addSup]
      · have h1 : (decide (e = e') && decide (a = a')) = false := by
          simp only [Bool.and_eq_false_imp, decide_eq_true_eq, decide_eq_false_iff_not]
          intro he ha'; exact h' ⟨he, ha'⟩
        have h2 : ¬ (e' = e ∧ a' = a ∧ n' = s.name) := fun ⟨h3, h4, _⟩ => h' ⟨h3.symm, h4.symm⟩
        simp [h1, h2]
    · have hdec : (decide (i.ent = e) && decide (i.actor = a)) = false := by
        simp only [Bool.and_eq_false_imp, decide_eq_true_eq, decide_eq_false_iff_not]
        intro h1 h2; exact hi ⟨h1, h2⟩
      simp only [hdec, Bool.false_eq_true, if_false]
      by_cases hi' : i.ent = e' ∧ i.actor = a'
      · obtain ⟨hie, hia⟩ := hi'
        have h2 : ¬ (e' = e ∧ a' = a ∧ n' = s.name) := by
          rintro ⟨h3, h4, _⟩; exact hi ⟨hie.trans h3, hia.trans h4⟩
        simp [lookup, hie, hia, h2]
      · have hdec' : (decide (i.ent = e') && decide (i.actor = a')) = false := by
          simp only [Bool.and_eq_false_imp, decide_eq_true_eq, decide_eq_false_iff_not]
          intro h1 h2; exact hi' ⟨h1, h2⟩
        have := ih
        simp only [lookup, List.find?_cons, hdec'] at this ⊢
        exact this

/-- C20, isolation: declaring a use case on one entity leaves every other entity's registry untouched -/
theorem add_isolated (r : Reg) (e : List Nat) (a : Nat) (ha : a ≠ 0) (s : Support)
    (e' : List Nat) (he : e' ≠ e) (a' n' : Nat) :
    lookup (add r e a s) e' a' n' = lookup r e' a' n' := by
  rw [lookup_add r e a ha]; simp [he]


/-! ### invariant: one information element per (entity, actor), one support per name -/

def keys (r : Reg) : List (List Nat × Nat) := r.map fun i => (i.ent, i.actor)

def Inv (r : Reg) : Prop := (keys r).Nodup ∧ ∀ i ∈ r, (i.sup.map (·.name)).Nodup

theorem inv_tail {i : Info} {rest : Reg} (h : Inv (i :: rest)) : Inv rest := by
  obtain ⟨h1, h2⟩ := h
  simp only [keys, List.map_cons, List.nodup_cons] at h1
  exact ⟨h1.2, fun j hj => h2 j (List.mem_cons_of_mem _ hj)⟩

theorem hasName_eq (sup : List Support) (n : Nat) :
    hasName sup n = (sup.find? (·.name = n)).isSome := by
  induction sup with
  | nil => rfl
  | cons x xs ih =>
    simp only [hasName, List.any_cons, List.find?_cons] at ih ⊢
    by_cases h : x.name = n <;> simp [h, ih]

theorem has_false_of_not_key (r : Reg) (e : List Nat) (a n : Nat) (ha : a ≠ 0) (hn : n ≠ 0)
    (hk : (e, a) ∉ keys r) : has r e a n = false := by
  induction r with
  | nil => rfl
  | cons i rest ih =>
    simp only [keys, List.map_cons, List.mem_cons, not_or] at hk
    simp only [has, List.any_cons, hit_actor_name e a n ha hn]
    have hne : ¬ (i.ent = e ∧ i.actor = a) := fun ⟨h1, h2⟩ => hk.1 (by rw [h1, h2])
    have hdec : (decide (i.ent = e) && (decide (i.actor = a) && hasName i.sup n)) = false := by
      by_cases h1 : i.ent = e
      · have : ¬ i.actor = a := fun h2 => hne ⟨h1, h2⟩
        simp [this]
      · simp [h1]
    rw [hdec]
    exact ih hk.2

theorem lookup_none_of_not_key (r : Reg) (e : List Nat) (a n : Nat) (hk : (e, a) ∉ keys r) :
    lookup r e a n = none := by
  induction r with
  | nil => rfl
  | cons i rest ih =>
    simp only [keys, List.map_cons, List.mem_cons, not_or] at hk
    have hne : ¬ (i.ent = e ∧ i.actor = a) := fun ⟨h1, h2⟩ => hk.1 (by rw [h1, h2])
    have hdec : (decide (i.ent = e) && decide (i.actor = a)) = false := by
      simp only [Bool.and_eq_false_imp, decide_eq_true_eq, decide_eq_false_iff_not]
      intro h1 h2; exact hne ⟨h1, h2⟩
    have := ih hk.2
    simp only [lookup, List.find?_cons, hdec] at this ⊢
    exact this

/-- C20: a use case is reported as supported exactly if it is registered -/
theorem has_iff (r : Reg) (hi : Inv r) (e : List Nat) (a n : Nat) (ha : a ≠ 0) (hn : n ≠ 0) :
    has r e a n = (lookup r e a n).isSome := by
  induction r with
  | nil => rfl
  | cons i rest ih =>
    have hnd := hi.1
    simp only [keys, List.map_cons, List.nodup_cons] at hnd
    by_cases hP : i.ent = e ∧ i.actor = a
    · obtain ⟨h1, h2⟩ := hP
      have hk : (e, a) ∉ keys rest := by rw [← h1, ← h2]; exact hnd.1
      have hrest := has_false_of_not_key rest e a n ha hn hk
      simp only [has] at hrest
      simp [has, List.any_cons, hit_actor_name e a n ha hn, lookup, h1, h2, hasName_eq, hrest]
    · have hdec : (decide (i.ent = e) && decide (i.actor = a)) = false := by
        simp only [Bool.and_eq_false_imp, decide_eq_true_eq, decide_eq_false_iff_not]
        intro h1 h2; exact hP ⟨h1, h2⟩
      have hdec' : (decide (i.ent = e) && (decide (i.actor = a) && hasName i.sup n)) = false := by
        by_cases h1 : i.ent = e
        · have : ¬ i.actor = a := fun h2 => hP ⟨h1, h2⟩
          simp [this]
        · simp [h1]
      have := ih (inv_tail hi)
      simp only [has, lookup, List.any_cons, List.find?_cons, hit_actor_name e a n ha hn, hdec, hdec',
        Bool.false_or] at this ⊢
      exact this

/-- C20, remove-all: the entity's use cases disappear, every other entity is untouched -/
theorem lookup_removeAll (r : Reg) (e e' : List Nat) (a' n' : Nat) :
    lookup (removeAll r e) e' a' n' = if e' = e then none else lookup r e' a' n' := by
  induction r with
  | nil => simp [removeAll, lookup]
  | cons i rest ih =>
    simp only [removeAll, List.filter_cons] at ih ⊢
    by_cases hie : i.ent = e
    · simp only [hie, ne_eq, not_true_eq_false, decide_false, Bool.false_eq_true, if_false]
      rw [ih]
      by_cases he' : e' = e
      · simp [he']
      · have : (decide (i.ent = e') && decide (i.actor = a')) = false := by
          have : ¬ i.ent = e' := by rw [hie]; exact fun h => he' h.symm
          simp [this]
        simp [he', lookup, this]
    · simp only [hie, ne_eq, not_false_eq_true, decide_true, if_true]
      by_cases hP : i.ent = e' ∧ i.actor = a'
      · obtain ⟨h1, h2⟩ := hP
        have he' : ¬ e' = e := by rw [← h1]; exact hie
        simp [lookup, h1, h2, he']
      · have hdec : (decide (i.ent = e') && decide (i.actor = a')) = false := by
          simp only [Bool.and_eq_false_imp, decide_eq_true_eq, decide_eq_false_iff_not]
          intro h1 h2; exact hP ⟨h1, h2⟩
        simp only [lookup, List.find?_cons, hdec] at ih ⊢
        exact ih


theorem lookup_cons_hit (j : Info) (rest : Reg) (e : List Nat) (a n : Nat) (h1 : j.ent = e) (h2 : j.actor = a) :
    lookup (j :: rest) e a n = j.sup.find? (·.name = n) := by
  simp [lookup, List.find?_cons, h1, h2]

theorem lookup_cons_skip (j : Info) (rest : Reg) (e : List Nat) (a n : Nat) (h : ¬ (j.ent = e ∧ j.actor = a)) :
    lookup (j :: rest) e a n = lookup rest e a n := by
  have hdec : (decide (j.ent = e) && decide (j.actor = a)) = false := by
    simp only [Bool.and_eq_false_imp, decide_eq_true_eq, decide_eq_false_iff_not]
    intro h3 h4; exact h ⟨h3, h4⟩
  simp only [lookup, List.find?_cons, hdec]

theorem find_filter_ne (sup : List Support) (n n' : Nat) :
    (sup.filter (·.name ≠ n)).find? (·.name = n') =
      if n' = n then none else sup.find? (·.name = n') := by
  induction sup with
  | nil => simp
  | cons x xs ih =>
    simp only [List.filter_cons]
    by_cases hx : x.name = n
    · simp only [hx, ne_eq, not_true_eq_false, decide_false, Bool.false_eq_true, if_false, ih,
        List.find?_cons]
      by_cases h : n' = n
      · simp [h]
      · have : ¬ n = n' := fun h' => h h'.symm
        simp [h, this]
    · simp only [hx, ne_eq, not_false_eq_true, decide_true, if_true, List.find?_cons, ih]
      by_cases hxn : x.name = n'
      · have : ¬ n' = n := by rw [← hxn]; exact hx
        simp [hxn, this]
      · simp [hxn]

theorem remove_of_not_key (r : Reg) (e : List Nat) (a n : Nat) (ha : a ≠ 0) (hn : n ≠ 0)
    (hk : (e, a) ∉ keys r) : remove r e a n = r := by
  induction r with
  | nil => rfl
  | cons i rest ih =>
    simp only [keys, List.map_cons, List.mem_cons, not_or] at hk
    have hne : ¬ (i.ent = e ∧ i.actor = a) := fun ⟨h1, h2⟩ => hk.1 (by rw [h1, h2])
    have hdec : (decide (i.ent = e) && (decide (i.actor = a) && hasName i.sup n)) = false := by
      by_cases h1 : i.ent = e
      · have : ¬ i.actor = a := fun h2 => hne ⟨h1, h2⟩
        simp [this]
      · simp [h1]
    simp only [remove, hit_actor_name e a n ha hn, hdec, Bool.false_eq_true, if_false, ih hk.2]

/-- C20, remove: exactly the named use case disappears -/
theorem lookup_remove (r : Reg) (hi : Inv r) (e : List Nat) (a n : Nat) (ha : a ≠ 0) (hn : n ≠ 0)
    (e' : List Nat) (a' n' : Nat) :
    lookup (remove r e a n) e' a' n' =
      if e' = e ∧ a' = a ∧ n' = n then none else lookup r e' a' n' := by
  induction r with
  | nil => simp [remove, lookup]
  | cons i rest ih =>
    have hnd := hi.1
    simp only [keys, List.map_cons, List.nodup_cons] at hnd
    by_cases hP : i.ent = e ∧ i.actor = a
    · obtain ⟨h1, h2⟩ := hP
      have hk : (e, a) ∉ keys rest := by rw [← h1, ← h2]; exact hnd.1
      by_cases hE : e' = e ∧ a' = a
      · obtain ⟨rfl, rfl⟩ := hE
        by_cases hh : hasName i.sup n = true
        · -- the element is hit
          simp only [remove, hit_actor_name e' a' n ha hn, h1, h2, decide_true, hh, Bool.and_self, if_true]
          have hF := find_filter_ne i.sup n n'
          split
          · rename_i hemp
            have hemp' : i.sup.filter (·.name ≠ n) = [] := by simpa using hemp
            rw [hemp'] at hF
            rw [lookup_none_of_not_key rest e' a' n' hk]
            by_cases hnn : n' = n
            · simp [hnn]
            · simp only [hnn, if_false, List.find?_nil] at hF
              simp [lookup, h1, h2, hnn, ← hF]
          · rw [lookup_cons_hit _ rest e' a' n' rfl rfl, lookup_cons_hit i rest e' a' n' h1 h2]
            simp only [hF]
            by_cases hnn : n' = n
            · simp [hnn]
            · simp [hnn]
        · have hh' : hasName i.sup n = false := by simpa using hh
          simp only [remove, hit_actor_name e' a' n ha hn, h1, h2, decide_true, hh', Bool.and_false,
            Bool.false_eq_true, if_false, remove_of_not_key rest e' a' n ha hn hk]
          by_cases hnn : n' = n
          · have hnone : i.sup.find? (·.name = n) = none := by
              have := hasName_eq i.sup n; rw [hh'] at this
              cases hf : i.sup.find? (·.name = n) with
              | none => rfl
              | some x => rw [hf] at this; simp at this
            simp [lookup, h1, h2, hnn, hnone]
          · simp [hnn]
      · -- a different (entity, actor): the head is skipped before and after
        have hdec : (decide (i.ent = e') && decide (i.actor = a')) = false := by
          simp only [Bool.and_eq_false_imp, decide_eq_true_eq, decide_eq_false_iff_not]
          intro h3 h4; exact hE ⟨h1 ▸ h3.symm, h2 ▸ h4.symm⟩
        have hcond : ¬ (e' = e ∧ a' = a ∧ n' = n) := fun ⟨h3, h4, _⟩ => hE ⟨h3, h4⟩
        by_cases hh : hasName i.sup n = true
        · simp only [remove, hit_actor_name e a n ha hn, h1, h2, decide_true, hh, Bool.and_self, if_true]
          split
          · simp [hcond, lookup, hdec]
          · rw [lookup_cons_skip _ rest e' a' n' (by simpa using fun (h3 : e = e') (h4 : a = a') => hE ⟨h3.symm, h4.symm⟩),
              lookup_cons_skip i rest e' a' n' (by rw [h1, h2]; exact fun ⟨h3, h4⟩ => hE ⟨h3.symm, h4.symm⟩)]
        · have hh' : hasName i.sup n = false := by simpa using hh
          simp only [remove, hit_actor_name e a n ha hn, h1, h2, decide_true, hh', Bool.and_false,
            Bool.false_eq_true, if_false, remove_of_not_key rest e a n ha hn hk]
          simp [hcond]
    · have hdecH : (decide (i.ent = e) && (decide (i.actor = a) && hasName i.sup n)) = false := by
        by_cases h1 : i.ent = e
        · have : ¬ i.actor = a := fun h2 => hP ⟨h1, h2⟩
          simp [this]
        · simp [h1]
      simp only [remove, hit_actor_name e a n ha hn, hdecH, Bool.false_eq_true, if_false]
      by_cases hP' : i.ent = e' ∧ i.actor = a'
      · obtain ⟨h3, h4⟩ := hP'
        have hcond : ¬ (e' = e ∧ a' = a ∧ n' = n) := by
          rintro ⟨h5, h6, _⟩; exact hP ⟨h3.trans h5, h4.trans h6⟩
        simp [lookup, h3, h4, hcond]
      · have hdec : (decide (i.ent = e') && decide (i.actor = a')) = false := by
          simp only [Bool.and_eq_false_imp, decide_eq_true_eq, decide_eq_false_iff_not]
          intro h3 h4; exact hP' ⟨h3, h4⟩
        have := ih (inv_tail hi)
        simp only [lookup, List.find?_cons, hdec] at this ⊢
        exact this


/-! ### the invariant is preserved -/

theorem names_addSup (sup : List Support) (s : Support) :
    (addSup sup s).map (·.name) =
      if s.name ∈ sup.map (·.name) then sup.map (·.name) else sup.map (·.name) ++ [s.name] := by
  induction sup with
  | nil => simp [addSup]
  | cons x xs ih =>
    simp only [addSup]
    by_cases hx : x.name = s.name
    · simp [hx]
    · have hx' : ¬ s.name = x.name := fun h => hx h.symm
      simp only [hx, if_false, List.map_cons, ih, List.mem_cons, hx', false_or]
      split <;> simp

theorem nodup_names_addSup (sup : List Support) (s : Support) (h : (sup.map (·.name)).Nodup) :
    ((addSup sup s).map (·.name)).Nodup := by
  rw [names_addSup]
  split
  · exact h
  · rename_i hn
    rw [List.nodup_append]
    exact ⟨h, by simp, fun a ha b hb => by simp at hb; subst hb; exact fun hab => hn (hab ▸ ha)⟩

theorem keys_add (r : Reg) (e : List Nat) (a : Nat) (ha : a ≠ 0) (s : Support) :
    keys (add r e a s) = if (e, a) ∈ keys r then keys r else keys r ++ [(e, a)] := by
  induction r with
  | nil => simp [add, keys]
  | cons i rest ih =>
    simp only [add, hit_actor e a ha]
    by_cases hP : i.ent = e ∧ i.actor = a
    · obtain ⟨h1, h2⟩ := hP
      simp [keys, h1, h2]
    · have hdec : (decide (i.ent = e) && decide (i.actor = a)) = false := by
        simp only [Bool.and_eq_false_imp, decide_eq_true_eq, decide_eq_false_iff_not]
        intro h1 h2; exact hP ⟨h1, h2⟩
      have hne : ¬ (e, a) = (i.ent, i.actor) := by
        intro h; injection h with h1 h2; exact hP ⟨h1.symm, h2.symm⟩
      simp only [hdec, Bool.false_eq_true, if_false]
      simp only [keys, List.map_cons, List.mem_cons, hne, false_or] at ih ⊢
      rw [ih]
      by_cases hm : (e, a) ∈ List.map (fun i => (i.ent, i.actor)) rest
      · simp [hm]
      · simp [hm]

theorem sup_mem_add (r : Reg) (e : List Nat) (a : Nat) (s : Support) (j : Info) (hj : j ∈ add r e a s) :
    j ∈ r ∨ j.sup = [s] ∨ ∃ i ∈ r, j.sup = addSup i.sup s := by
  induction r with
  | nil => simp only [add, List.mem_singleton] at hj; subst hj; exact Or.inr (Or.inl rfl)
  | cons i rest ih =>
    simp only [add] at hj
    split at hj
    · rcases List.mem_cons.mp hj with rfl | h
      · exact Or.inr (Or.inr ⟨i, List.mem_cons_self, rfl⟩)
      · exact Or.inl (List.mem_cons_of_mem _ h)
    · rcases List.mem_cons.mp hj with rfl | h
      · exact Or.inl List.mem_cons_self
      · rcases ih h with h | h | ⟨i', hi', h⟩
        · exact Or.inl (List.mem_cons_of_mem _ h)
        · exact Or.inr (Or.inl h)
        · exact Or.inr (Or.inr ⟨i', List.mem_cons_of_mem _ hi', h⟩)

theorem inv_add (r : Reg) (hi : Inv r) (e : List Nat) (a : Nat) (ha : a ≠ 0) (s : Support) :
    Inv (add r e a s) := by
  refine ⟨?_, ?_⟩
  · rw [keys_add r e a ha]
    split
    · exact hi.1
    · rename_i hn
      rw [List.nodup_append]
      exact ⟨hi.1, by simp, fun x hx y hy => by simp at hy; subst hy; exact fun hxy => hn (hxy ▸ hx)⟩
  · intro j hj
    rcases sup_mem_add r e a s j hj with h | h | ⟨i, hi', h⟩
    · exact hi.2 j h
    · rw [h]; simp
    · rw [h]; exact nodup_names_addSup _ _ (hi.2 i hi')

theorem remove_sub (r : Reg) (e : List Nat) (a n : Nat) :
    (keys (remove r e a n)).Sublist (keys r) ∧
      ∀ j ∈ remove r e a n, j ∈ r ∨ ∃ i ∈ r, j.sup = i.sup.filter (·.name ≠ n) := by
  induction r with
  | nil => simp [remove, keys]
  | cons i rest ih =>
    simp only [remove]
    split
    · split
      · exact ⟨by simp [keys], fun j hj => Or.inl (List.mem_cons_of_mem _ hj)⟩
      · refine ⟨by simp [keys], fun j hj => ?_⟩
        rcases List.mem_cons.mp hj with rfl | h
        · exact Or.inr ⟨i, List.mem_cons_self, rfl⟩
        · exact Or.inl (List.mem_cons_of_mem _ h)
    · refine ⟨by simpa [keys] using ih.1, fun j hj => ?_⟩
      rcases List.mem_cons.mp hj with rfl | h
      · exact Or.inl List.mem_cons_self
      · rcases ih.2 j h with h | ⟨i', hi', h⟩
        · exact Or.inl (List.mem_cons_of_mem _ h)
        · exact Or.inr ⟨i', List.mem_cons_of_mem _ hi', h⟩

theorem inv_remove (r : Reg) (hi : Inv r) (e : List Nat) (a n : Nat) : Inv (remove r e a n) := by
  obtain ⟨hs, hm⟩ := remove_sub r e a n
  refine ⟨hs.nodup hi.1, fun j hj => ?_⟩
  rcases hm j hj with h | ⟨i, hi', h⟩
  · exact hi.2 j h
  · rw [h]; exact (List.filter_sublist.map _).nodup (hi.2 i hi')

theorem inv_removeAll (r : Reg) (hi : Inv r) (e : List Nat) : Inv (removeAll r e) :=
  ⟨((List.filter_sublist (l := r)).map _).nodup hi.1, fun j hj => hi.2 j (List.filter_sublist.subset hj)⟩


/-! ### availability -/

theorem find_setSupAvail (sup : List Support) (n n' : Nat) (b : Bool) :
    (setSupAvail sup n b).find? (·.name = n') =
      if n' = n then (sup.find? (·.name = n)).map (fun s => { s with avail := b })
      else sup.find? (·.name = n') := by
  induction sup with
  | nil => simp [setSupAvail]
  | cons x xs ih =>
    simp only [setSupAvail]
    by_cases hx : x.name = n
    · simp only [hx, if_true, List.find?_cons, decide_true]
      by_cases h : n' = n
      · simp [h, hx]
      · have : ¬ n = n' := fun h' => h h'.symm
        simp [h, this, hx]
    · simp only [hx, if_false, List.find?_cons, ih, decide_false]
      by_cases hxn : x.name = n'
      · have : ¬ n' = n := by rw [← hxn]; exact hx
        simp [hxn, this]
      · simp [hxn]

theorem names_setSupAvail (sup : List Support) (n : Nat) (b : Bool) :
    (setSupAvail sup n b).map (·.name) = sup.map (·.name) := by
  induction sup with
  | nil => rfl
  | cons x xs ih =>
    simp only [setSupAvail]
    split <;> simp [ih]

theorem setAvail_of_not_key (r : Reg) (e : List Nat) (a n : Nat) (b : Bool) (ha : a ≠ 0) (hn : n ≠ 0)
    (hk : (e, a) ∉ keys r) : setAvail r e a n b = r := by
  induction r with
  | nil => rfl
  | cons i rest ih =>
    simp only [keys, List.map_cons, List.mem_cons, not_or] at hk
    have hne : ¬ (i.ent = e ∧ i.actor = a) := fun ⟨h1, h2⟩ => hk.1 (by rw [h1, h2])
    have hdec : (decide (i.ent = e) && (decide (i.actor = a) && hasName i.sup n)) = false := by
      by_cases h1 : i.ent = e
      · have : ¬ i.actor = a := fun h2 => hne ⟨h1, h2⟩
        simp [this]
      · simp [h1]
    simp only [setAvail, hit_actor_name e a n ha hn, hdec, Bool.false_eq_true, if_false, ih hk.2]

/-- C20, availability: only the named use case changes, and only its availability -/
theorem lookup_setAvail (r : Reg) (hi : Inv r) (e : List Nat) (a n : Nat) (b : Bool) (ha : a ≠ 0) (hn : n ≠ 0)
    (e' : List Nat) (a' n' : Nat) :
    lookup (setAvail r e a n b) e' a' n' =
      if e' = e ∧ a' = a ∧ n' = n then (lookup r e a n).map (fun s => { s with avail := b })
      else lookup r e' a' n' := by
  induction r with
  | nil => simp [setAvail, lookup]
  | cons i rest ih =>
    have hnd := hi.1
    simp only [keys, List.map_cons, List.nodup_cons] at hnd
    by_cases hP : i.ent = e ∧ i.actor = a
    · obtain ⟨h1, h2⟩ := hP
      have hk : (e, a) ∉ keys rest := by rw [← h1, ← h2]; exact hnd.1
      by_cases hh : hasName i.sup n = true
      · simp only [setAvail, hit_actor_name e a n ha hn, h1, h2, decide_true, hh, Bool.and_self, if_true]
        by_cases hE : e' = e ∧ a' = a
        · obtain ⟨rfl, rfl⟩ := hE
          rw [lookup_cons_hit _ rest e' a' n' rfl rfl, lookup_cons_hit i rest e' a' n' h1 h2,
            lookup_cons_hit i rest e' a' n h1 h2, find_setSupAvail]
          by_cases hnn : n' = n <;> simp [hnn]
        · have hcond : ¬ (e' = e ∧ a' = a ∧ n' = n) := fun ⟨h3, h4, _⟩ => hE ⟨h3, h4⟩
          rw [lookup_cons_skip _ rest e' a' n' (by simpa using fun (h3 : e = e') (h4 : a = a') => hE ⟨h3.symm, h4.symm⟩),
            lookup_cons_skip i rest e' a' n' (by rw [h1, h2]; exact fun ⟨h3, h4⟩ => hE ⟨h3.symm, h4.symm⟩)]
          simp [hcond]
      · have hh' : hasName i.sup n = false := by simpa using hh
        simp only [setAvail, hit_actor_name e a n ha hn, h1, h2, decide_true, hh', Bool.and_false,
          Bool.false_eq_true, if_false, setAvail_of_not_key rest e a n b ha hn hk]
        by_cases hE : e' = e ∧ a' = a ∧ n' = n
        · obtain ⟨rfl, rfl, rfl⟩ := hE
          have hnone : i.sup.find? (·.name = n') = none := by
            have := hasName_eq i.sup n'; rw [hh'] at this
            cases hf : i.sup.find? (·.name = n') with
            | none => rfl
            | some x => rw [hf] at this; simp at this
          simp [lookup_cons_hit i rest e' a' n' h1 h2, hnone]
        · simp [hE]
    · have hdecH : (decide (i.ent = e) && (decide (i.actor = a) && hasName i.sup n)) = false := by
        by_cases h1 : i.ent = e
        · have : ¬ i.actor = a := fun h2 => hP ⟨h1, h2⟩
          simp [this]
        · simp [h1]
      simp only [setAvail, hit_actor_name e a n ha hn, hdecH, Bool.false_eq_true, if_false]
      rw [lookup_cons_skip i rest e a n hP]
      by_cases hP' : i.ent = e' ∧ i.actor = a'
      · obtain ⟨h3, h4⟩ := hP'
        have hcond : ¬ (e' = e ∧ a' = a ∧ n' = n) := by
          rintro ⟨h5, h6, _⟩; exact hP ⟨h3.trans h5, h4.trans h6⟩
        rw [lookup_cons_hit i _ e' a' n' h3 h4, lookup_cons_hit i rest e' a' n' h3 h4]
        simp [hcond]
      · rw [lookup_cons_skip i _ e' a' n' hP', lookup_cons_skip i rest e' a' n' hP']
        exact ih (inv_tail hi)

theorem setAvail_sub (r : Reg) (e : List Nat) (a n : Nat) (b : Bool) :
    keys (setAvail r e a n b) = keys r ∧
      ∀ j ∈ setAvail r e a n b, j ∈ r ∨ ∃ i ∈ r, j.sup = setSupAvail i.sup n b := by
  induction r with
  | nil => simp [setAvail, keys]
  | cons i rest ih =>
    simp only [setAvail]
    split
    · refine ⟨by simp [keys], fun j hj => ?_⟩
      rcases List.mem_cons.mp hj with rfl | h
      · exact Or.inr ⟨i, List.mem_cons_self, rfl⟩
      · exact Or.inl (List.mem_cons_of_mem _ h)
    · refine ⟨by simpa [keys] using ih.1, fun j hj => ?_⟩
      rcases List.mem_cons.mp hj with rfl | h
      · exact Or.inl List.mem_cons_self
      · rcases ih.2 j h with h | ⟨i', hi', h⟩
        · exact Or.inl (List.mem_cons_of_mem _ h)
        · exact Or.inr ⟨i', List.mem_cons_of_mem _ hi', h⟩

theorem inv_setAvail (r : Reg) (hi : Inv r) (e : List Nat) (a n : Nat) (b : Bool) :
    Inv (setAvail r e a n b) := by
  obtain ⟨hk, hm⟩ := setAvail_sub r e a n b
  refine ⟨by rw [hk]; exact hi.1, fun j hj => ?_⟩
  rcases hm j hj with h | ⟨i, hi', h⟩
  · exact hi.2 j h
  · rw [h, names_setSupAvail]; exact hi.2 i hi'

/-! ### the refinement over whole histories -/

inductive Op
  | add (e : List Nat) (a : Nat) (s : Support)
  | remove (e : List Nat) (a n : Nat)
  | setAvail (e : List Nat) (a n : Nat) (b : Bool)
  | removeAll (e : List Nat)
deriving DecidableEq

/-- the API is used with non-empty actor and use-case names -/
def Op.ok : Op → Prop
  | .add _ a s => a ≠ 0 ∧ s.name ≠ 0
  | .remove _ a n => a ≠ 0 ∧ n ≠ 0
  | .setAvail _ a n _ => a ≠ 0 ∧ n ≠ 0
  | .removeAll _ => True

def apply (r : Reg) : Op → Reg
  | .add e a s => add r e a s
  | .remove e a n => remove r e a n
  | .setAvail e a n b => setAvail r e a n b
  | .removeAll e => removeAll r e

/-- the specification: a plain map from (entity, actor, name) to the declared support -/
abbrev Spec := List Nat → Nat → Nat → Option Support

def specStep (σ : Spec) : Op → Spec
  | .add e a s => fun e' a' n' => if e' = e ∧ a' = a ∧ n' = s.name then some s else σ e' a' n'
  | .remove e a n => fun e' a' n' => if e' = e ∧ a' = a ∧ n' = n then none else σ e' a' n'
  | .setAvail e a n b => fun e' a' n' =>
      if e' = e ∧ a' = a ∧ n' = n then (σ e a n).map (fun s => { s with avail := b }) else σ e' a' n'
  | .removeAll e => fun e' a' n' => if e' = e then none else σ e' a' n'

theorem step_refines (r : Reg) (hi : Inv r) (op : Op) (hok : op.ok) :
    Inv (apply r op) ∧ lookup (apply r op) = specStep (lookup r) op := by
  cases op with
  | add e a s => exact ⟨inv_add r hi e a hok.1 s, by funext e' a' n'; exact lookup_add r e a hok.1 s e' a' n'⟩
  | remove e a n => exact ⟨inv_remove r hi e a n, by funext e' a' n'; exact lookup_remove r hi e a n hok.1 hok.2 e' a' n'⟩
  | setAvail e a n b =>
    exact ⟨inv_setAvail r hi e a n b, by funext e' a' n'; exact lookup_setAvail r hi e a n b hok.1 hok.2 e' a' n'⟩
  | removeAll e => exact ⟨inv_removeAll r hi e, by funext e' a' n'; exact lookup_removeAll r e e' a' n'⟩

/-- C20 (sequential): after any history of add / remove / set-availability / remove-all operations the registry
    answers exactly like the map obtained by applying the same operations to the empty map -/
theorem c20_refines (ops : List Op) (hok : ∀ op ∈ ops, op.ok) :
    Inv (ops.foldl apply []) ∧
      lookup (ops.foldl apply []) = ops.foldl specStep (fun _ _ _ => none) := by
  suffices ∀ (r : Reg) (σ : Spec), Inv r → lookup r = σ →
      Inv (ops.foldl apply r) ∧ lookup (ops.foldl apply r) = ops.foldl specStep σ from
    this [] _ ⟨by simp [keys], by simp⟩ (by funext e a n; rfl)
  induction ops with
  | nil => intro r σ hi h; exact ⟨hi, h⟩
  | cons op ops ih =>
    intro r σ hi h
    obtain ⟨hi', h'⟩ := step_refines r hi op (hok op List.mem_cons_self)
    exact ih (fun o ho => hok o (List.mem_cons_of_mem _ ho)) _ _ hi' (by rw [h', h])

/-- … and "is it supported?" is answered from that map -/
theorem c20_has (ops : List Op) (hok : ∀ op ∈ ops, op.ok) (e : List Nat) (a n : Nat) (ha : a ≠ 0) (hn : n ≠ 0) :
    has (ops.foldl apply []) e a n = ((ops.foldl specStep (fun _ _ _ => none)) e a n).isSome := by
  obtain ⟨hi, h⟩ := c20_refines ops hok
  rw [has_iff _ hi e a n ha hn, h]

end Spine.UC
