import Spine.Heap
/-!
# Kernel-checked witnesses for C04 and C11 on the store model (code as written, and the repaired members)

Shape of `LoadControlLimitDataType`: fields limitId (key), isLimitChangeable (writecheck flag), isLimitActive,
timePeriod, value; the selector has `limitId`; the elements struct has the same five fields.
Every witness below is replayed on the real code by the corpus of `go/comp/heap_run_test.go` on every run.
-/
namespace Spine.Heap
open Spine

def lc : Shape :=
  { n := 5, keys := [(0, .uint)], flag := some 1, selMap := [some 0], elN := 5, elMap := [some 0, some 1, some 2, some 3, some 4] }

/-- fields: limitId, isLimitChangeable, isLimitActive, timePeriod, value -/
def changeable0 : Item := [some 0, some 1, none, some 1, none]
def fixed1 : Item := [some 1, some 0, none, some 2, none]
def changeable1 : Item := [some 1, some 1, none, some 2, none]
def changeable2 : Item := [some 2, some 1, none, some 0, none]

def aw : Cfg := .asWritten
/-- the member /repo is after `fix:` c542973 (Merge fails only for addressed elements / unknown identifiers),
    5e272e0 (selector with an empty list) and e4eb02d (SelectorMatch: an item without the selected field does not
    match): what the probe phase of `TestHeap` selects on that tree -/
def head : Cfg := { u := { mergeStrict := false, emptySelPanics := false, selNilPanics := false } }
/-- `head` plus the series `fixes/c04` (01 flag kept on the in-place paths, 02 delete fails only for addressed
    elements, 04 the fast path stores a copy) -/
def patched : Cfg :=
  { fastpathAdopts := false,
    u := { mergeStrict := false, emptySelPanics := false, selNilPanics := false, inplaceAltersFlag := false, deleteStrict := false } }
/-- the member with every candidate repair applied -/
def repaired : Cfg :=
  { fastpathRemote := false, fastpathAdopts := false,
    u := { mergeStrict := false, selNilPanics := false, emptySelPanics := false, inplaceAltersFlag := false, deleteStrict := false } }

/-- a store holding `items` (set by the local application) -/
def storeOf (items : List Item) : H := (full {} items).1

/-- a remote write as `executeWrite` issues it (persisting) -/
def remoteWrite (c : Cfg) (h : H) (nw : List Item) (fp fd : FArg) : H × UpdRes := updateData c lc h true true nw fp fd

def selId (n : Nat) : Item := [some n]
def selAll : Item := [none]
def elValue : Item := [none, none, none, some 0, none]
def elFlag : Item := [none, some 0, none, none, none]

/-! ### C04 -/

/-- C04a: a filter-less remote write takes the replace path: the unchangeable limit 1 is overwritten, its flag set -/
theorem full_write_overwrites_witness :
    (remoteWrite aw (storeOf [changeable0, fixed1]) [[some 1, some 1, none, some 0, none]] .nil .nil).1.readStore
      = [[some 1, some 1, none, some 0, none]] := by decide

/-- … and is merged, the unchangeable limit protected, in the member with the fast path closed for remote writes -/
theorem full_write_repaired_witness :
    (remoteWrite repaired (storeOf [changeable0, fixed1]) [[some 1, some 1, none, some 0, none]] .nil .nil).1.readStore
      = [changeable0, fixed1] := by decide

/-- C04b (`Merge`): the partial remote write addresses only the changeable limit 0; it is rejected on
    [changeable0, fixed1] and accepted on [changeable0, changeable1] — the two stores differ only in limit 1 -/
theorem unaddressed_blocks_witness :
    (remoteWrite aw (storeOf [changeable0, fixed1]) [[some 0, none, none, some 2, none]] .nodata .nil).2 = .done false 1 none ∧
    (remoteWrite aw (storeOf [changeable0, changeable1]) [[some 0, none, none, some 2, none]] .nodata .nil).2 = .done true 1 (some 2) := by
  decide

/-- the repaired `Merge` accepts it on both -/
theorem unaddressed_blocks_repaired_witness :
    (remoteWrite repaired (storeOf [changeable0, fixed1]) [[some 0, none, none, some 2, none]] .nodata .nil).2 = .done true 1 (some 2) ∧
    (remoteWrite repaired (storeOf [changeable0, fixed1]) [[some 0, none, none, some 2, none]] .nodata .nil).1.readStore
      = [[some 0, some 1, none, some 2, none], fixed1] := by
  decide

/-- C04b (`deleteFilteredData`): deleting the changeable limit 0 by selector is rejected because of limit 1 -/
theorem unaddressed_blocks_delete_witness :
    (remoteWrite aw (storeOf [changeable0, fixed1]) [] .nil (.data ⟨some (selId 0), none⟩)).2 = .done false 1 none ∧
    (remoteWrite aw (storeOf [changeable0, changeable1]) [] .nil (.data ⟨some (selId 0), none⟩)).2 = .done true 1 (some 2) := by
  decide

/-- C04c (`copyToAllData`): an identifier-less remote write is answered with an error and yet applied to limit 0 -/
theorem rejected_but_applied_witness :
    let r := remoteWrite aw (storeOf [changeable0, fixed1]) [[none, none, none, some 2, none]] .nodata .nil
    r.2 = .done false 1 none ∧ r.1.readStore = [[some 0, some 1, none, some 2, none], fixed1] := by decide

/-- C04c (`copyToSelectedData`): the empty selector matches both limits; the unchangeable one is skipped with an
    error, the next one is written -/
theorem rejected_but_applied_selector_witness :
    let r := remoteWrite aw (storeOf [fixed1, changeable2]) [[none, none, none, some 2, none]] (.data ⟨some selAll, none⟩) .nil
    r.2 = .done false 1 none ∧ r.1.readStore = [fixed1, [some 2, some 1, none, some 2, none]] := by decide

/-- C04c (`deleteFilteredData` / `RemoveElementFromItem`): delete of an element of all limits: error, and the
    element is gone from limit 0 -/
theorem rejected_but_applied_delete_witness :
    let r := remoteWrite aw (storeOf [changeable0, fixed1]) [] .nil (.data ⟨none, some elValue⟩)
    r.2 = .done false 1 none ∧ r.1.readStore = [[some 0, some 1, none, none, none], fixed1] := by decide

/-- clause 4: a partial remote write with an identifier that is not stored is answered with success and nothing
    was applied (a remote write cannot add) -/
theorem success_not_applied_witness :
    let r := remoteWrite aw (storeOf [changeable0]) [[some 5, none, none, some 2, none]] .nodata .nil
    r.2 = .done true 1 (some 2) ∧ r.1.readStore = [changeable0] := by decide

/-- … and with an error in the repaired `Merge` -/
theorem success_not_applied_repaired_witness :
    (remoteWrite repaired (storeOf [changeable0]) [[some 5, none, none, some 2, none]] .nodata .nil).2 = .done false 1 none := by
  decide

/-- clause 1b: the flag of a changeable limit is altered by an identifier-less remote write that carries a flag, -/
theorem flag_altered_all_witness :
    let r := remoteWrite aw (storeOf [changeable0, changeable2]) [[none, some 0, none, none, none]] .nodata .nil
    r.2 = .done true 1 (some 2) ∧ r.1.readStore.map (·.get 1) = [some 0, some 0] := by decide

/-- … by a selector write that carries a flag, -/
theorem flag_altered_selector_witness :
    let r := remoteWrite aw (storeOf [changeable0, changeable2]) [[none, some 0, none, none, none]] (.data ⟨some (selId 0), none⟩) .nil
    r.1.readStore.map (·.get 1) = [some 0, some 1] := by decide

/-- … and by a delete filter whose elements name the flag -/
theorem flag_altered_delete_witness :
    let r := remoteWrite aw (storeOf [changeable0, changeable2]) [] .nil (.data ⟨some (selId 0), some elFlag⟩)
    r.1.readStore.map (·.get 1) = [none, some 1] := by decide

/-- the three writes above leave every flag alone in the member whose in-place paths put the flag back
    (`fixes/c04/01-remote-write-keeps-changeability-flag.patch`); the values they carry are applied -/
theorem flag_altered_repaired_witness :
    (remoteWrite repaired (storeOf [changeable0, changeable2]) [[none, some 0, none, some 2, none]] .nodata .nil).1.readStore
      = [[some 0, some 1, none, some 2, none], [some 2, some 1, none, some 2, none]] ∧
    (remoteWrite repaired (storeOf [changeable0, changeable2]) [[none, some 0, none, some 2, none]] (.data ⟨some (selId 0), none⟩) .nil).1.readStore
      = [[some 0, some 1, none, some 2, none], changeable2] ∧
    (remoteWrite repaired (storeOf [changeable0, changeable2]) [] .nil (.data ⟨some (selId 0), some [none, some 0, none, some 0, none]⟩)).1.readStore
      = [[some 0, some 1, none, none, none], changeable2] := by decide

/-- the repaired `deleteFilteredData` accepts the delete of limit 0 although limit 1 is not changeable, and keeps
    limit 1 -/
theorem unaddressed_blocks_delete_repaired_witness :
    let r := remoteWrite patched (storeOf [changeable0, fixed1]) [] .nil (.data ⟨some (selId 0), none⟩)
    r.2 = .done true 1 (some 2) ∧ r.1.readStore = [fixed1] := by decide

/-- … and still rejects a delete that addresses the unchangeable limit -/
theorem addressed_unwritable_delete_witness :
    let r := remoteWrite patched (storeOf [changeable0, fixed1]) [] .nil (.data ⟨some (selId 1), none⟩)
    r.2 = .done false 1 none ∧ r.1.readStore = [changeable0, fixed1] := by decide

/-- the defects that stay (in-place paths, fast path for remote writes) are still there in the member /repo is now
    and in the patched one -/
theorem remaining_head_witness :
    (remoteWrite head (storeOf [changeable0, fixed1]) [[some 1, some 1, none, some 0, none]] .nil .nil).1.readStore
      = [[some 1, some 1, none, some 0, none]] ∧
    (remoteWrite patched (storeOf [changeable0, fixed1]) [[some 1, some 1, none, some 0, none]] .nil .nil).1.readStore
      = [[some 1, some 1, none, some 0, none]] ∧
    (remoteWrite head (storeOf [changeable0, fixed1]) [[none, none, none, some 2, none]] .nodata .nil).2 = .done false 1 none ∧
    (remoteWrite head (storeOf [changeable0, fixed1]) [[none, none, none, some 2, none]] .nodata .nil).1.readStore
      = [[some 0, some 1, none, some 2, none], fixed1] ∧
    (remoteWrite patched (storeOf [changeable0, fixed1]) [[none, none, none, some 2, none]] .nodata .nil).2 = .done false 1 none ∧
    (remoteWrite patched (storeOf [changeable0, fixed1]) [[none, none, none, some 2, none]] .nodata .nil).1.readStore
      = [[some 0, some 1, none, some 2, none], fixed1] := by decide

/-! ### C11 -/

/-- a snapshot taken with DataCopy changes when a later selector update is applied -/
theorem snapshot_changes_witness :
    let h1 := storeOf [changeable0, fixed1]
    let h2 := (dataCopy h1).1
    let h3 := (updateData aw lc h2 false true [[none, none, none, some 2, none]] (.data ⟨some (selId 0), none⟩) .nil).1
    (dataCopy h1).2 = some 1 ∧ h2.readStruct 1 = [changeable0, fixed1] ∧
      h3.readStruct 1 = [[some 0, some 1, none, some 2, none], fixed1] := by decide

/-- … under a later identifier-less update -/
theorem snapshot_changes_all_witness :
    let h2 := (dataCopy (storeOf [changeable0, fixed1])).1
    let h3 := (updateData aw lc h2 false true [[none, none, none, some 2, none]] .nodata .nil).1
    h3.readStruct 1 = [[some 0, some 1, none, some 2, none], [some 1, some 0, none, some 2, none]] := by decide

/-- … under a later delete with elements -/
theorem snapshot_changes_delete_witness :
    let h2 := (dataCopy (storeOf [changeable0, fixed1])).1
    let h3 := (updateData aw lc h2 false true [] .nil (.data ⟨none, some elValue⟩)).1
    h3.readStruct 1 = [[some 0, some 1, none, none, none], [some 1, some 0, none, none, none]] := by decide

/-- the value handed to a filter-less update (struct 0 — also the event payload) is adopted by the store: a later
    identifier-based partial update, which writes nothing in place, re-assigns its list -/
theorem pointer_shared_witness :
    let h1 := storeOf [changeable0, fixed1]
    let h2 := (updateData aw lc h1 false true [changeable2] .nodata .nil).1
    h1.readStruct 0 = [changeable0, fixed1] ∧ h2.readStruct 0 = [changeable0, fixed1, changeable2] := by decide

/-- an update requested without persistence modifies the stored data -/
theorem nonpersist_modifies_witness :
    let h1 := storeOf [changeable0, fixed1]
    let r := updateData aw lc h1 false false [[none, none, none, some 2, none]] .nil .nil
    r.2 = .done true 1 (some 2) ∧ r.1.readStore ≠ h1.readStore := by decide

/-- an update reported as failed modifies the stored data -/
theorem failed_modifies_witness :
    let h1 := storeOf [changeable0, fixed1]
    let r := updateData aw lc h1 true true [[none, none, none, some 2, none]] .nodata .nil
    r.2 = .done false 1 none ∧ r.1.readStore ≠ h1.readStore := by decide

/-- in the member whose fast path stores a copy the value handed in keeps reading what it read -/
theorem pointer_private_witness :
    let h1 := (updateData patched lc {} false true [changeable0, fixed1] .nil .nil).1
    let h2 := (updateData patched lc h1 false true [changeable2] .nodata .nil).1
    h1.readStruct 0 = [changeable0, fixed1] ∧ h2.readStruct 0 = [changeable0, fixed1] ∧
      h2.readStore = [changeable0, fixed1, changeable2] := by decide

end Spine.Heap
