import Spine.Heap
namespace Spine.Heap
open Spine

def lc : Shape :=
  { n := 5, keys := [(0, .uint)], flag := some 1, selMap := [some 0], elN := 5, elMap := [some 0, some 1, some 2, some 3, some 4] }

/-- fields: limitId, isLimitChangeable, isLimitActive, timePeriod, value -/
def changeable0 : Item := [some 0, some 1, some 0, none, some 1]
def fixed1 : Item := [some 1, some 0, some 0, none, some 2]

/-- C04 (b) refuted: a partial remote write that addresses only the changeable limit 0 is rejected because the
    unrelated limit 1 is not changeable -/
theorem unaddressed_blocks_witness :
    (match updateList lc true [changeable0, fixed1] [[some 0, none, some 1, none, none]] none none with
     | .ok r => r.ok
     | .panic _ => true) = false := by decide

/-- C04 (c) refuted: an identifier-less remote write is rejected (error result) and yet applied to the changeable
    limit, in the store -/
theorem rejected_but_applied_witness :
    let (h1, s) := full {} [changeable0, fixed1]
    let (h2, r) := update lc h1 true true [[none, none, some 1, none, none]] none none
    r = some false ∧ h2.readStruct s ≠ h1.readStruct s := by decide

/-- C04 (a) refuted: a filter-less remote write takes the replace path and overwrites the unchangeable limit and
    its flag (the fast path does not look at `remoteWrite` at all, so `full` models it) -/
theorem full_write_overwrites_witness :
    let (h1, _) := full {} [changeable0, fixed1]
    let (h2, s2) := full h1 [[some 1, some 1, some 1, none, some 9]]
    h2.readStruct s2 = [[some 1, some 1, some 1, none, some 9]] := by decide

end Spine.Heap
