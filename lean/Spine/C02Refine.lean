import Spine.UpdateThm
import Spine.SortThm
import Spine.C02Thm
import Spine.SelectThm
import Spine.SpecKV
import Spine.C02Tables
/-!
# C02: the engine refines `Spec.KV` (lemmas)

Lemmas behind `Spine/Props/C02.lean`: on well-formed data (complete, pairwise distinct identifiers) the list
the engine computes, read as a map identifier → item (`SpecKV.abs`), is what the rules of `SpecKV` give.
-/
namespace Spine
open SpecKV

/-! ### generic list facts -/

theorem find?_unique {α} (p : α → Bool) (l : List α) (a : α)
    (hu : ∀ x ∈ l, ∀ y ∈ l, p x = true → p y = true → x = y) (ha : a ∈ l) (hp : p a = true) :
    l.find? p = some a := by
  cases h : l.find? p with
  | none => exact absurd hp (List.find?_eq_none.mp h a ha)
  | some b => rw [hu b (List.mem_of_find?_eq_some h) a ha (List.find?_some h) hp]

/-- a permutation looks up the same item when at most one item satisfies the test -/
theorem find?_perm {α} (p : α → Bool) (l₁ l₂ : List α) (hperm : l₁.Perm l₂)
    (hu : ∀ x ∈ l₁, ∀ y ∈ l₁, p x = true → p y = true → x = y) : l₁.find? p = l₂.find? p := by
  cases h : l₂.find? p with
  | none =>
    apply List.find?_eq_none.mpr
    intro x hx
    exact List.find?_eq_none.mp h x (hperm.mem_iff.mp hx)
  | some b =>
    exact find?_unique p l₁ b hu (hperm.mem_iff.mpr (List.mem_of_find?_eq_some h)) (List.find?_some h)

theorem find?_map_of_preserved {α} (p : α → Bool) (f : α → α) (l : List α) (hf : ∀ a ∈ l, p (f a) = p a) :
    (l.map f).find? p = (l.find? p).map f := by
  induction l with
  | nil => rfl
  | cons x xs ih =>
    have hx := hf x List.mem_cons_self
    have ih' := ih (fun a ha => hf a (List.mem_cons_of_mem _ ha))
    simp only [List.map_cons, List.find?_cons, hx]
    cases p x <;> simp [ih']

theorem nodup_map_inj {α β} [DecidableEq β] (f : α → β) (l : List α) (hn : (l.map f).Nodup) :
    ∀ x ∈ l, ∀ y ∈ l, f x = f y → x = y := by
  induction l with
  | nil => intro x hx; cases hx
  | cons a as ih =>
    rw [List.map_cons, List.nodup_cons] at hn
    intro x hx y hy hxy
    rcases List.mem_cons.mp hx with rfl | hx' <;> rcases List.mem_cons.mp hy with rfl | hy'
    · rfl
    · exact absurd (hxy ▸ List.mem_map_of_mem (f := f) hy') hn.1
    · exact absurd (hxy ▸ List.mem_map_of_mem (f := f) hx') hn.1
    · exact ih hn.2 x hx' y hy' hxy

/-! ### identifiers -/

/-- well-formed stored data / update items: complete, pairwise distinct identifiers, `n` fields each -/
structure WF (sh : Shape) (l : List Item) : Prop where
  len : ∀ a ∈ l, a.length = sh.n
  complete : ∀ a ∈ l, complete sh a = true
  nodup : (l.map (keyOf sh)).Nodup

theorem keyOf_eq_keyVec (sh : Shape) (it : Item) : keyOf sh it = keyVec sh it := rfl

theorem hashKey_go_cons_some (it : Item) (i : Nat) (kind : KeyKind) (ks : List (Nat × KeyKind)) (v : Val)
    (hg : it.get i = some v) (hk : kind ≠ .struct) : hashKey.go it ((i, kind) :: ks) = v :: hashKey.go it ks := by
  cases kind with
  | struct => exact absurd rfl hk
  | uint => simp [hashKey.go, hg]
  | str => simp [hashKey.go, hg]

theorem hashKey_go_eq (it : Item) : ∀ (ks : List (Nat × KeyKind)), Tables.structKeyLast ks = true →
    (∀ k ∈ ks, (it.get k.1).isSome = true) → hashKey.go it ks = ks.map fun k => (it.get k.1).getD 0
  | [], _, _ => rfl
  | [(i, kind)], _, hc => by
    have h0 := hc (i, kind) List.mem_cons_self
    simp only at h0
    cases hg : it.get i with
    | none => rw [hg] at h0; simp at h0
    | some v => cases kind <;> simp [hashKey.go, hg]
  | (i, kind) :: k2 :: rest, hl, hc => by
    have h0 := hc (i, kind) List.mem_cons_self
    simp only at h0
    simp only [Tables.structKeyLast, Bool.and_eq_true, bne_iff_ne, ne_eq] at hl
    have ih := hashKey_go_eq it (k2 :: rest) hl.2 (fun k hk => hc k (List.mem_cons_of_mem _ hk))
    cases hg : it.get i with
    | none => rw [hg] at h0; simp at h0
    | some v =>
      rw [hashKey_go_cons_some it i kind (k2 :: rest) v hg hl.1, ih]
      simp [hg]

/-- on an item with a complete identifier the code's hash is the identifier
    (needs: a struct-typed key field, which ends the hash, is the last key field) -/
theorem hashKey_eq_keyOf (sh : Shape) (hk : Tables.structKeyLast sh.keys = true) (it : Item)
    (hc : complete sh it = true) : hashKey sh it = keyOf sh it := by
  unfold hashKey keyOf
  apply hashKey_go_eq it sh.keys hk
  simpa [complete, List.all_eq_true] using hc

theorem hasIdentifiers_eq_complete (sh : Shape) (it : Item) : hasIdentifiers sh it = complete sh it := by
  simp [hasIdentifiers, complete]

theorem wf_unique (sh : Shape) (l : List Item) (hw : WF sh l) (k : Key) :
    ∀ x ∈ l, ∀ y ∈ l, hasKey sh k x = true → hasKey sh k y = true → x = y := by
  intro x hx y hy h1 h2
  simp only [hasKey, beq_iff_eq] at h1 h2
  exact nodup_map_inj (keyOf sh) l hw.nodup x hx y hy (h1.trans h2.symm)

/-- under `WF`, `abs` finds an item exactly when it is in the list -/
theorem abs_eq_some (sh : Shape) (l : List Item) (hw : WF sh l) (a : Item) (ha : a ∈ l) :
    abs sh l (keyOf sh a) = some a :=
  find?_unique _ l a (wf_unique sh l hw _) ha (by simp [hasKey])

theorem abs_some_mem (sh : Shape) (l : List Item) (k : Key) (a : Item) (h : abs sh l k = some a) :
    a ∈ l ∧ keyOf sh a = k := by
  refine ⟨List.mem_of_find?_eq_some h, ?_⟩
  have := List.find?_some h
  simpa [hasKey] using this

theorem abs_eq_none (sh : Shape) (l : List Item) (k : Key) : abs sh l k = none ↔ ∀ a ∈ l, keyOf sh a ≠ k := by
  unfold abs
  rw [List.find?_eq_none]
  simp [hasKey]

/-- reading a permutation of well-formed data gives the same map -/
theorem abs_perm (sh : Shape) (l₁ l₂ : List Item) (hp : l₁.Perm l₂) (hw : WF sh l₁) : abs sh l₁ = abs sh l₂ := by
  funext k
  exact find?_perm _ l₁ l₂ hp (wf_unique sh l₁ hw k)

theorem wf_perm (sh : Shape) (l₁ l₂ : List Item) (hp : l₁.Perm l₂) (hw : WF sh l₂) : WF sh l₁ :=
  ⟨fun a ha => hw.len a (hp.mem_iff.mp ha), fun a ha => hw.complete a (hp.mem_iff.mp ha),
   ((hp.map (keyOf sh)).nodup_iff).mpr hw.nodup⟩

/-! ### the merge path (partial update whose items carry identifiers) -/

theorem updateFields_eq_overlay (sh : Shape) (a b : Item) (hl : a.length = b.length) :
    updateFields sh false a b = overlay b a := by
  unfold updateFields overlay
  rw [hl]
  apply List.map_congr_left
  intro i _
  simp only [Bool.false_and, Bool.or_false, overlayField]
  cases b.get i <;> simp

theorem get_key_updateFields (sh : Shape) (a b : Item) (hb : complete sh b = true) :
    ∀ k ∈ sh.keys, (updateFields sh false a b).get k.1 = b.get k.1 := by
  intro k hk
  have hsome : (b.get k.1).isSome = true := by
    simp only [complete, List.all_eq_true] at hb
    exact hb k hk
  have hlt : k.1 < b.length := by
    rcases Nat.lt_or_ge k.1 b.length with h | h
    · exact h
    · rw [get_none_of_ge b k.1 h] at hsome; simp at hsome
  rw [get_updateFields sh false a b k.1 hlt]
  cases hg : b.get k.1 with
  | none => rw [hg] at hsome; simp at hsome
  | some v => simp

theorem keyOf_congr (sh : Shape) (x y : Item) (h : ∀ k ∈ sh.keys, x.get k.1 = y.get k.1) :
    keyOf sh x = keyOf sh y := by
  unfold keyOf
  apply List.map_congr_left
  intro k hk
  rw [h k hk]

theorem complete_congr (sh : Shape) (x y : Item) (h : ∀ k ∈ sh.keys, x.get k.1 = y.get k.1) :
    complete sh x = complete sh y := by
  have hh : ∀ k ∈ sh.keys, (x.get k.1).isSome = (y.get k.1).isSome := fun k hk => by rw [h k hk]
  unfold complete
  rw [Bool.eq_iff_iff]
  simp only [List.all_eq_true]
  constructor
  · intro h1 k hk; rw [← hh k hk]; exact h1 k hk
  · intro h1 k hk; rw [hh k hk]; exact h1 k hk

theorem lookupLast_none (sh : Shape) (h : List Val) :
    ∀ (l : List Item), lookupLast sh h l = none → ∀ b ∈ l, hashKey sh b ≠ h
  | [], _, b, hb => by cases hb
  | x :: xs, hl, b, hb => by
    simp only [lookupLast] at hl
    split at hl
    · cases hl
    · rename_i hrec
      split at hl
      · cases hl
      · rename_i hx
        rcases List.mem_cons.mp hb with rfl | hb'
        · exact hx
        · exact lookupLast_none sh h xs hrec b hb'

/-- under `WF`, the code's "last item with that hash" is the map lookup -/
theorem lookupLast_eq_abs (sh : Shape) (hk : Tables.structKeyLast sh.keys = true) (nw : List Item) (hw : WF sh nw)
    (a : Item) (hca : complete sh a = true) : lookupLast sh (hashKey sh a) nw = abs sh nw (keyOf sh a) := by
  cases hl : lookupLast sh (hashKey sh a) nw with
  | some b =>
    obtain ⟨hmem, hh⟩ := lookupLast_mem sh _ nw b hl
    rw [hashKey_eq_keyOf sh hk b (hw.complete b hmem), hashKey_eq_keyOf sh hk a hca] at hh
    rw [← hh, abs_eq_some sh nw hw b hmem]
  | none =>
    symm
    rw [abs_eq_none]
    intro b hb heq
    have := lookupLast_none sh _ nw hl b hb
    rw [hashKey_eq_keyOf sh hk b (hw.complete b hb), hashKey_eq_keyOf sh hk a hca] at this
    exact this heq

theorem mergeItem_local (sh : Shape) (hk : Tables.structKeyLast sh.keys = true) (nw : List Item) (hw : WF sh nw)
    (a : Item) (hca : complete sh a = true) (hla : a.length = sh.n) :
    mergeItem sh false nw a = (mergeVal (abs sh nw (keyOf sh a)) (some a)).getD a ∧
    keyOf sh (mergeItem sh false nw a) = keyOf sh a ∧
    complete sh (mergeItem sh false nw a) = true ∧ (mergeItem sh false nw a).length = sh.n := by
  unfold mergeItem
  rw [lookupLast_eq_abs sh hk nw hw a hca]
  cases hb : abs sh nw (keyOf sh a) with
  | none => simp [mergeVal, hca, hla]
  | some b =>
    obtain ⟨hmem, hkey⟩ := abs_some_mem sh nw _ b hb
    have hcb := hw.complete b hmem
    have hlb := hw.len b hmem
    have hkeys := get_key_updateFields sh a b hcb
    simp only [Bool.not_false, Bool.true_or, if_true, mergeVal, Option.getD_some]
    refine ⟨updateFields_eq_overlay sh a b (hla.trans hlb.symm), ?_, ?_, ?_⟩
    · rw [keyOf_congr sh _ b hkeys, hkey]
    · rw [complete_congr sh _ b hkeys, hcb]
    · rw [updateFields_length, hlb]

/-- the list `Merge` builds from well-formed data and a well-formed update -/
theorem merge_local_eq (sh : Shape) (s1 s2 : List Item) :
    (merge sh false s1 s2).1 =
      s1.map (mergeItem sh false s2) ++ s2.filter (fun b => !(s1.any fun a => hashKey sh a = hashKey sh b)) ∧
    (merge sh false s1 s2).2 = true := by
  simp [merge]

theorem wf_merge (sh : Shape) (hk : Tables.structKeyLast sh.keys = true) (st nw : List Item)
    (hs : WF sh st) (hn : WF sh nw) : WF sh (merge sh false st nw).1 := by
  rw [(merge_local_eq sh st nw).1]
  have hmi := fun a (ha : a ∈ st) => mergeItem_local sh hk nw hn a (hs.complete a ha) (hs.len a ha)
  refine ⟨?_, ?_, ?_⟩
  · intro x hx
    rcases List.mem_append.mp hx with h | h
    · obtain ⟨a, ha, rfl⟩ := List.mem_map.mp h
      exact (hmi a ha).2.2.2
    · exact hn.len x (List.mem_filter.mp h).1
  · intro x hx
    rcases List.mem_append.mp hx with h | h
    · obtain ⟨a, ha, rfl⟩ := List.mem_map.mp h
      exact (hmi a ha).2.2.1
    · exact hn.complete x (List.mem_filter.mp h).1
  · rw [List.map_append, List.map_map]
    have hfirst : st.map (keyOf sh ∘ mergeItem sh false nw) = st.map (keyOf sh) :=
      List.map_congr_left fun a ha => (hmi a ha).2.1
    rw [hfirst, List.nodup_append]
    refine ⟨hs.nodup, (List.Sublist.map _ List.filter_sublist).nodup hn.nodup, ?_⟩
    intro x hx y hy heq
    obtain ⟨a, ha, rfl⟩ := List.mem_map.mp hx
    obtain ⟨b, hb, rfl⟩ := List.mem_map.mp hy
    obtain ⟨hbn, hq⟩ := List.mem_filter.mp hb
    simp only [Bool.not_eq_true', List.any_eq_false, decide_eq_true_eq] at hq
    apply hq a ha
    rw [hashKey_eq_keyOf sh hk a (hs.complete a ha), hashKey_eq_keyOf sh hk b (hn.complete b hbn), heq]

/-- C02 refinement, merge step: the merged list, read as a map, is the overlay of the two maps -/
theorem abs_merge (sh : Shape) (hk : Tables.structKeyLast sh.keys = true) (st nw : List Item)
    (hs : WF sh st) (hn : WF sh nw) :
    abs sh (merge sh false st nw).1 = applyPartial (abs sh st) (abs sh nw) := by
  funext k
  rw [(merge_local_eq sh st nw).1]
  have hmi := fun a (ha : a ∈ st) => mergeItem_local sh hk nw hn a (hs.complete a ha) (hs.len a ha)
  have hfirst : (st.map (mergeItem sh false nw)).find? (hasKey sh k) = (abs sh st k).map (mergeItem sh false nw) :=
    find?_map_of_preserved (hasKey sh k) (mergeItem sh false nw) st
      (fun a ha => by simp only [hasKey, (hmi a ha).2.1])
  show List.find? (hasKey sh k) _ = mergeVal (abs sh nw k) (abs sh st k)
  rw [List.find?_append, hfirst]
  cases ha : abs sh st k with
  | some a =>
    obtain ⟨hmem, hkey⟩ := abs_some_mem sh st k a ha
    simp only [Option.map_some, Option.some_or]
    rw [(hmi a hmem).1, hkey]
    cases abs sh nw k <;> simp [mergeVal]
  | none =>
    simp only [Option.map_none, Option.none_or]
    have hnone : ∀ a ∈ st, keyOf sh a ≠ k := (abs_eq_none sh st k).mp ha
    cases hb : abs sh nw k with
    | none =>
      simp only [mergeVal]
      apply List.find?_eq_none.mpr
      intro x hx
      exact List.find?_eq_none.mp hb x (List.mem_filter.mp hx).1
    | some b =>
      obtain ⟨hbm, hbk⟩ := abs_some_mem sh nw k b hb
      simp only [mergeVal]
      apply find?_unique
      · intro x hx y hy
        exact wf_unique sh nw hn k x (List.mem_filter.mp hx).1 y (List.mem_filter.mp hy).1
      · apply List.mem_filter.mpr
        refine ⟨hbm, ?_⟩
        simp only [Bool.not_eq_true', List.any_eq_false, decide_eq_true_eq]
        intro a ha heq
        rw [hashKey_eq_keyOf sh hk a (hs.complete a ha), hashKey_eq_keyOf sh hk b (hn.complete b hbm), hbk] at heq
        exact hnone a ha heq
      · simp [hasKey, hbk]

/-! ### `UpdateList` on the merge path -/

/-- which branch `UpdateList` takes without filters (an empty partial filter carries no data and counts as none):
    the update is empty or its first item carries a complete identifier ⇒ `Merge`, then `SortData` -/
theorem updateList_merge_path (sh : Shape) (remote : Bool) (ex nw : List Item)
    (h : ∀ n0 rest, nw = n0 :: rest → hasIdentifiers sh n0 = true) :
    updateList sh remote ex nw none none =
      .ok ⟨ex, sortData sh (merge sh remote ex nw).1, (merge sh remote ex nw).2, true⟩ := by
  unfold updateList
  cases nw with
  | nil => simp
  | cons n0 rest => simp [h n0 rest rfl]

theorem wf_sortData (sh : Shape) (l : List Item) (hw : WF sh l) : WF sh (sortData sh l) :=
  wf_perm sh _ l (sortData_perm sh l) hw

theorem abs_sortData (sh : Shape) (l : List Item) (hw : WF sh l) : abs sh (sortData sh l) = abs sh l :=
  abs_perm sh _ l (sortData_perm sh l) (wf_sortData sh l hw)

theorem keyed_of_wf (sh : Shape) (hu : ∀ k ∈ sh.keys, k.2 = .uint) (l : List Item) (hw : WF sh l) :
    ∀ a ∈ l, Keyed sh a := by
  intro a ha k hk
  refine ⟨hu k hk, ?_⟩
  have := hw.complete a ha
  simp only [complete, List.all_eq_true] at this
  exact this k hk

/-- the data part of the SPEC for a well-formed update with identifiers is the overlay of the maps -/
theorem applyData_partial (sh : Shape) (hne : sh.keys ≠ []) (m : Map) (nw : List Item) (hn : WF sh nw) :
    applyData sh m nw none = applyPartial m (abs sh nw) := by
  unfold applyData
  cases nw with
  | nil =>
    funext k
    simp [applyPartial, abs, mergeVal]
  | cons u0 rest =>
    have hc := hn.complete u0 List.mem_cons_self
    have hkl : keyless sh u0 = false := by
      cases hks : sh.keys with
      | nil => exact absurd hks hne
      | cons k ks =>
        simp only [complete, hks, List.all_cons, Bool.and_eq_true] at hc
        simp only [keyless, hks, List.all_cons]
        cases hg : u0.get k.1 with
        | none => rw [hg] at hc; simp at hc
        | some v => simp
    simp [hkl]

/-- **C02, refinement on the merge path**: a local update without filters (or with an empty partial filter)
    whose items carry complete, pairwise distinct identifiers, applied to well-formed data, succeeds, yields
    well-formed data again, and that data — as a map — is what the SPEC gives -/
theorem refines_partial (sh : Shape) (hk : Tables.structKeyLast sh.keys = true) (hne : sh.keys ≠ [])
    (st nw : List Item) (hs : WF sh st) (hn : WF sh nw) :
    ∃ r, updateList sh false st nw none none = .ok r ∧ r.ok = true ∧ WF sh r.out ∧
      abs sh r.out = SpecKV.apply sh (abs sh st) nw none none := by
  refine ⟨_, updateList_merge_path sh false st nw ?_, (merge_local_eq sh st nw).2, ?_, ?_⟩
  · intro n0 rest hnw
    rw [hasIdentifiers_eq_complete]
    exact hn.complete n0 (hnw ▸ List.mem_cons_self)
  · exact wf_sortData sh _ (wf_merge sh hk st nw hs hn)
  · show abs sh (sortData sh (merge sh false st nw).1) = _
    rw [abs_sortData sh _ (wf_merge sh hk st nw hs hn), abs_merge sh hk st nw hs hn]
    simp only [SpecKV.apply]
    rw [applyData_partial sh hne _ nw hn]

/-! ### applying the same update again (merge path) -/

theorem insertRight_of_le (sh : Shape) (acc : List Item) (x : Item) (h : ∀ y ∈ acc, less sh x y = false) :
    sortData.insertRight sh acc x = acc ++ [x] := by
  unfold sortData.insertRight
  rw [go_spec]
  have htw : acc.reverse.takeWhile (less sh x) = [] := by
    cases hr : acc.reverse with
    | nil => rfl
    | cons y ys =>
      have hy : y ∈ acc := List.mem_reverse.mp (hr ▸ List.mem_cons_self)
      simp [h y hy]
  have hdw : acc.reverse.dropWhile (less sh x) = acc.reverse := by
    cases hr : acc.reverse with
    | nil => rfl
    | cons y ys =>
      have hy : y ∈ acc := List.mem_reverse.mp (hr ▸ List.mem_cons_self)
      simp [h y hy]
  rw [htw, hdw]
  simp

theorem foldl_insertRight_sorted (sh : Shape) : ∀ (l acc : List Item), Sorted sh (acc ++ l) →
    l.foldl (fun a x => sortData.insertRight sh a x) acc = acc ++ l
  | [], acc, _ => by simp
  | x :: xs, acc, hs => by
    have hx : ∀ y ∈ acc, less sh x y = false := by
      intro y hy
      unfold Sorted at hs
      exact (List.pairwise_append.mp hs).2.2 y hy x List.mem_cons_self
    rw [List.foldl_cons, insertRight_of_le sh acc x hx]
    have hs' : Sorted sh ((acc ++ [x]) ++ xs) := by simpa using hs
    rw [foldl_insertRight_sorted sh xs (acc ++ [x]) hs']
    simp

/-- sorting an ordered list changes nothing -/
theorem sortData_of_sorted (sh : Shape) (l : List Item) (hs : Sorted sh l) : sortData sh l = l := by
  unfold sortData
  split
  · rfl
  · have := foldl_insertRight_sorted sh l [] (by simpa using hs)
    simpa using this

theorem overlayField_idem (b a : Item) (i : Nat) (hi : i < a.length) :
    overlayField b (overlay b a) i = overlayField b a i := by
  unfold overlayField
  cases hb : b.get i with
  | some v => rfl
  | none =>
    have hb' : (b[i]?).join = none := hb
    simp only [overlay, Item.get]
    rw [List.getElem?_map, List.getElem?_range hi]
    simp [overlayField, hb', Item.get]

theorem overlay_length (b a : Item) : (overlay b a).length = a.length := by simp [overlay]

/-- laying the same item over a second time changes nothing -/
theorem overlay_idem (b a : Item) : overlay b (overlay b a) = overlay b a := by
  unfold overlay
  rw [List.length_map, List.length_range]
  apply List.map_congr_left
  intro i hi
  exact overlayField_idem b a i (List.mem_range.mp hi)

theorem overlay_self (b : Item) : overlay b b = b := by
  apply item_ext
  · exact overlay_length b b
  · intro i hi
    simp only [overlay, Item.get]
    rw [List.getElem?_map, List.getElem?_range hi]
    simp only [Option.map_some, Option.join_some, overlayField, Item.get]
    cases h : (b[i]?).join <;> rfl

/-- the SPEC's overlay of maps is idempotent -/
theorem applyPartial_idem (m u : Map) : applyPartial (applyPartial m u) u = applyPartial m u := by
  funext k
  simp only [applyPartial]
  cases hu : u k with
  | none => simp [mergeVal]
  | some b => cases hm : m k <;> simp [mergeVal, overlay_idem, overlay_self]

/-- merging an update into data that already contains it changes no item and adds none -/
theorem merge_again (sh : Shape) (hk : Tables.structKeyLast sh.keys = true) (l nw : List Item)
    (hl : WF sh l) (hn : WF sh nw) (m : Map) (habs : abs sh l = applyPartial m (abs sh nw)) :
    (merge sh false l nw).1 = l := by
  rw [(merge_local_eq sh l nw).1]
  have h1 : l.map (mergeItem sh false nw) = l := by
    conv => rhs; rw [← List.map_id l]
    apply List.map_congr_left
    intro a ha
    rw [(mergeItem_local sh hk nw hn a (hl.complete a ha) (hl.len a ha)).1]
    have ha' := abs_eq_some sh l hl a ha
    rw [habs] at ha'
    simp only [applyPartial] at ha'
    cases hb : abs sh nw (keyOf sh a) with
    | none => simp [mergeVal]
    | some b =>
      rw [hb] at ha'
      cases hm : m (keyOf sh a) with
      | none =>
        rw [hm] at ha'
        simp only [mergeVal, Option.some.injEq] at ha'
        subst ha'
        simp [mergeVal, overlay_self]
      | some a0 =>
        rw [hm] at ha'
        simp only [mergeVal, Option.some.injEq] at ha'
        subst ha'
        simp [mergeVal, overlay_idem]
  have h2 : nw.filter (fun b => !(l.any fun a => hashKey sh a = hashKey sh b)) = [] := by
    apply List.filter_eq_nil_iff.mpr
    intro b hb
    have hbk := abs_eq_some sh nw hn b hb
    have : abs sh l (keyOf sh b) ≠ none := by
      rw [habs]
      simp only [applyPartial, hbk]
      cases m (keyOf sh b) <;> simp [mergeVal]
    cases ha : abs sh l (keyOf sh b) with
    | none => exact absurd ha this
    | some a =>
      obtain ⟨ham, hak⟩ := abs_some_mem sh l _ a ha
      simp only [Bool.not_eq_true', Bool.not_eq_false, List.any_eq_true, decide_eq_true_eq]
      refine ⟨a, ham, ?_⟩
      rw [hashKey_eq_keyOf sh hk a (hl.complete a ham), hashKey_eq_keyOf sh hk b (hn.complete b hb), hak]
  rw [h1, h2, List.append_nil]

/-- **C02, idempotence on the merge path, as lists**: with numeric identifiers, applying the same partial
    update a second time returns exactly the list the first application returned -/
theorem idempotent_partial (sh : Shape) (hne : sh.keys ≠ []) (hu : ∀ k ∈ sh.keys, k.2 = .uint)
    (hk : Tables.structKeyLast sh.keys = true)
    (st nw : List Item) (hs : WF sh st) (hn : WF sh nw) :
    ∀ r, updateList sh false st nw none none = .ok r →
      ∃ r', updateList sh false r.out nw none none = .ok r' ∧ r'.out = r.out ∧ r'.ok = true := by
  intro r hr
  have hpath : ∀ n0 rest, nw = n0 :: rest → hasIdentifiers sh n0 = true := by
    intro n0 rest hnw
    rw [hasIdentifiers_eq_complete]
    exact hn.complete n0 (hnw ▸ List.mem_cons_self)
  rw [updateList_merge_path sh false st nw hpath] at hr
  injection hr with hr
  subst hr
  refine ⟨_, updateList_merge_path sh false (sortData sh (merge sh false st nw).1) nw hpath, ?_,
    (merge_local_eq sh (sortData sh (merge sh false st nw).1) nw).2⟩
  show sortData sh (merge sh false (sortData sh (merge sh false st nw).1) nw).1 = sortData sh (merge sh false st nw).1
  have hwm := wf_merge sh hk st nw hs hn
  have hws := wf_sortData sh _ hwm
  have habs : abs sh (sortData sh (merge sh false st nw).1) = applyPartial (abs sh st) (abs sh nw) := by
    rw [abs_sortData sh _ hwm, abs_merge sh hk st nw hs hn]
  rw [merge_again sh hk _ nw hws hn (abs sh st) habs]
  apply sortData_of_sorted
  have hne' : sh.keys.isEmpty = false := by
    cases h : sh.keys with
    | nil => exact absurd h hne
    | cons _ _ => rfl
  exact sortData_sorted sh _ hne' (keyed_of_wf sh hu _ hwm)

/-! ### selectors -/

/-- where the selector is defined on the item (the item carries every field the selector names), the code's
    `SelectorMatch` does not panic and decides exactly the SPEC's `selMatches` -/
theorem selectorMatch_go_eq (sh : Shape) (it : Item) : ∀ (rest : List (Option Val)) (j : Nat),
    selDefinedFrom sh it j rest = true → selectorMatch.go sh it j rest = .ok (selMatchesFrom sh it j rest)
  | [], _, _ => rfl
  | none :: rest, j, hd => by
    simp only [selDefinedFrom, Bool.and_eq_true] at hd
    simp only [selectorMatch.go, selMatchesFrom, selFieldOK, Bool.true_and]
    exact selectorMatch_go_eq sh it rest (j + 1) hd.2
  | some v :: rest, j, hd => by
    simp only [selDefinedFrom, Bool.and_eq_true] at hd
    have ih := selectorMatch_go_eq sh it rest (j + 1) hd.2
    simp only [selectorMatch.go, selMatchesFrom, selFieldOK]
    cases hm : (sh.selMap[j]?).join with
    | none => simpa using ih
    | some i =>
      have h1 := hd.1
      simp only [selFieldDefined, hm] at h1
      cases hg : it.get i with
      | none => rw [hg] at h1; simp at h1
      | some w =>
        by_cases hwv : w = v
        · subst hwv; simpa [hg] using ih
        · simp [hg, hwv]

theorem selectorMatch_eq (sh : Shape) (sel it : Item) (hd : selDefined sh sel it = true) :
    selectorMatch sh sel it = .ok (selMatches sh sel it) :=
  selectorMatch_go_eq sh it sel 0 hd

/-! ### list facts for filter / map -/

theorem find?_filter_unique {α} (p q : α → Bool) (l : List α)
    (hu : ∀ x ∈ l, ∀ y ∈ l, p x = true → p y = true → x = y) :
    (l.filter q).find? p = (l.find? p).filter q := by
  cases h : l.find? p with
  | none =>
    simp only [Option.filter_none]
    apply List.find?_eq_none.mpr
    intro x hx
    exact List.find?_eq_none.mp h x (List.mem_filter.mp hx).1
  | some a =>
    have ham := List.mem_of_find?_eq_some h
    have hpa := List.find?_some h
    by_cases hq : q a = true
    · simp only [Option.filter_some, hq, if_true]
      apply find?_unique
      · intro x hx y hy
        exact hu x (List.mem_filter.mp hx).1 y (List.mem_filter.mp hy).1
      · exact List.mem_filter.mpr ⟨ham, hq⟩
      · exact hpa
    · simp only [Option.filter_some, hq, Bool.false_eq_true, if_false]
      apply List.find?_eq_none.mpr
      intro x hx hpx
      obtain ⟨hxm, hqx⟩ := List.mem_filter.mp hx
      rw [hu x hxm a ham hpx hpa] at hqx
      exact hq hqx

theorem wf_filter (sh : Shape) (l : List Item) (q : Item → Bool) (hw : WF sh l) : WF sh (l.filter q) :=
  ⟨fun a ha => hw.len a (List.mem_filter.mp ha).1, fun a ha => hw.complete a (List.mem_filter.mp ha).1,
   (List.Sublist.map _ List.filter_sublist).nodup hw.nodup⟩

theorem abs_filter (sh : Shape) (l : List Item) (q : Item → Bool) (hw : WF sh l) (k : Key) :
    abs sh (l.filter q) k = (abs sh l k).filter q :=
  find?_filter_unique _ q l (wf_unique sh l hw k)

/-- a map over the items that keeps every item's length and key fields -/
structure KeepsKeys (sh : Shape) (l : List Item) (f : Item → Item) : Prop where
  len : ∀ a ∈ l, (f a).length = a.length
  keys : ∀ a ∈ l, ∀ k ∈ sh.keys, (f a).get k.1 = a.get k.1

theorem wf_map (sh : Shape) (l : List Item) (f : Item → Item) (hf : KeepsKeys sh l f) (hw : WF sh l) :
    WF sh (l.map f) := by
  refine ⟨?_, ?_, ?_⟩
  · intro x hx
    obtain ⟨a, ha, rfl⟩ := List.mem_map.mp hx
    rw [hf.len a ha]; exact hw.len a ha
  · intro x hx
    obtain ⟨a, ha, rfl⟩ := List.mem_map.mp hx
    rw [complete_congr sh _ a (hf.keys a ha)]; exact hw.complete a ha
  · rw [List.map_map]
    have : l.map (keyOf sh ∘ f) = l.map (keyOf sh) :=
      List.map_congr_left fun a ha => keyOf_congr sh _ a (hf.keys a ha)
    rw [this]; exact hw.nodup

theorem abs_map (sh : Shape) (l : List Item) (f : Item → Item) (hf : KeepsKeys sh l f) (k : Key) :
    abs sh (l.map f) k = (abs sh l k).map f :=
  find?_map_of_preserved (hasKey sh k) f l
    (fun a ha => by simp only [hasKey, keyOf_congr sh _ a (hf.keys a ha)])

/-! ### overlay on one item (identifier-less update, selector update) -/

theorem copyNonNil_eq_overlay (u it : Item) (hl : u.length = it.length) : copyNonNil u it = overlay u it := by
  unfold copyNonNil overlay
  simp only [hl, bne_self_eq_false, Bool.false_eq_true, if_false]
  apply List.map_congr_left
  intro i _
  rfl

theorem get_overlay (u it : Item) (i : Nat) (hi : i < it.length) : (overlay u it).get i = overlayField u it i := by
  simp only [overlay, Item.get]
  rw [List.getElem?_map, List.getElem?_range hi]
  simp

theorem get_overlay_key (sh : Shape) (u it : Item) (hc : complete sh it = true) (hs : sameKeys sh u it = true) :
    ∀ k ∈ sh.keys, (overlay u it).get k.1 = it.get k.1 := by
  intro k hk
  have hsome : (it.get k.1).isSome = true := by
    simp only [complete, List.all_eq_true] at hc
    exact hc k hk
  have hlt : k.1 < it.length := by
    rcases Nat.lt_or_ge k.1 it.length with h | h
    · exact h
    · rw [get_none_of_ge it k.1 h] at hsome; simp at hsome
  rw [get_overlay u it k.1 hlt]
  simp only [sameKeys, List.all_eq_true] at hs
  have := hs k hk
  unfold overlayField
  cases hu : u.get k.1 with
  | none => rfl
  | some v =>
    rw [hu] at this
    simp only [beq_iff_eq] at this
    exact this.symm

theorem sameKeys_of_keyless (sh : Shape) (u it : Item) (h : keyless sh u = true) : sameKeys sh u it = true := by
  simp only [keyless, List.all_eq_true] at h
  simp only [sameKeys, List.all_eq_true]
  intro k hk
  have := h k hk
  cases hu : u.get k.1 with
  | none => rfl
  | some v => rw [hu] at this; simp at this

/-- `copyToAllData` on a local update: the item is laid over every stored item -/
theorem copyToAll_local (sh : Shape) (ex : List Item) (nw : Item) :
    copyToAll sh false ex nw = (ex.map (copyNonNil nw), true) := by
  simp [copyToAll]

/-- which branch `UpdateList` takes for an identifier-less update -/
theorem updateList_all_path (sh : Shape) (ex : List Item) (n0 : Item) (rest : List Item)
    (h : hasIdentifiers sh n0 = false) :
    updateList sh false ex (n0 :: rest) none none = .ok ⟨ex.map (copyNonNil n0), ex.map (copyNonNil n0), true, false⟩ := by
  simp [updateList, h, copyToAll_local]

/-- **C02, refinement, identifier-less partial update**: the single item is laid over every stored item -/
theorem refines_all (sh : Shape) (hne : sh.keys ≠ []) (st : List Item) (u0 : Item) (hs : WF sh st)
    (hl : u0.length = sh.n) (hkl : keyless sh u0 = true) :
    ∃ r, updateList sh false st [u0] none none = .ok r ∧ r.ok = true ∧ WF sh r.out ∧
      abs sh r.out = SpecKV.apply sh (abs sh st) [u0] none none := by
  have hnid : hasIdentifiers sh u0 = false := by
    rw [hasIdentifiers_eq_complete]
    cases hks : sh.keys with
    | nil => exact absurd hks hne
    | cons k ks =>
      simp only [keyless, hks, List.all_cons, Bool.and_eq_true] at hkl
      simp only [complete, hks, List.all_cons]
      cases hg : u0.get k.1 with
      | none => simp
      | some v => rw [hg] at hkl; simp at hkl
  have hkk : KeepsKeys sh st (overlay u0) :=
    ⟨fun a _ => overlay_length u0 a,
     fun a ha => get_overlay_key sh u0 a (hs.complete a ha) (sameKeys_of_keyless sh u0 a hkl)⟩
  have hmap : st.map (copyNonNil u0) = st.map (overlay u0) :=
    List.map_congr_left fun a ha => copyNonNil_eq_overlay u0 a (hl.trans (hs.len a ha).symm)
  refine ⟨_, updateList_all_path sh st u0 [] hnid, rfl, ?_, ?_⟩
  · show WF sh (st.map (copyNonNil u0))
    rw [hmap]; exact wf_map sh st _ hkk hs
  · show abs sh (st.map (copyNonNil u0)) = _
    rw [hmap]
    funext k
    rw [abs_map sh st _ hkk k]
    simp [SpecKV.apply, applyData, hkl, applyAll]

/-! ### partial update with a selector -/

/-- what the selector path does to one item when at most one item matches -/
def selCopy (sh : Shape) (sel u0 it : Item) : Item := if selMatches sh sel it then copyNonNil u0 it else it

theorem map_selCopy_none (sh : Shape) (sel u0 : Item) (xs : List Item)
    (h : xs.filter (selMatches sh sel) = []) : xs.map (selCopy sh sel u0) = xs := by
  conv => rhs; rw [← List.map_id xs]
  apply List.map_congr_left
  intro a ha
  have := List.filter_eq_nil_iff.mp h a ha
  simp [selCopy, this]

/-- `copyToSelectedData` on a local update, selector defined on every item, at most one item matching:
    the matching item receives the overlay, nothing else changes -/
theorem copyToSelected_local (sh : Shape) (sel u0 : Item) : ∀ (ex : List Item),
    (∀ x ∈ ex, selDefined sh sel x = true) → (ex.filter (selMatches sh sel)).length ≤ 1 →
    copyToSelected.go sh false sel u0 ex = .ok (ex.map (selCopy sh sel u0), true)
  | [], _, _ => rfl
  | x :: xs, hd, h1 => by
    have hx := selectorMatch_eq sh sel x (hd x List.mem_cons_self)
    simp only [copyToSelected.go, hx]
    cases hm : selMatches sh sel x with
    | false =>
      have h1' : (xs.filter (selMatches sh sel)).length ≤ 1 := by simpa [List.filter_cons, hm] using h1
      rw [copyToSelected_local sh sel u0 xs (fun y hy => hd y (List.mem_cons_of_mem _ hy)) h1']
      simp [selCopy, hm]
    | true =>
      have hnil : xs.filter (selMatches sh sel) = [] := by
        have : (xs.filter (selMatches sh sel)).length = 0 := by
          simp only [List.filter_cons, hm, if_true, List.length_cons] at h1
          omega
        exact List.length_eq_zero_iff.mp this
      simp [selCopy, hm, map_selCopy_none sh sel u0 xs hnil]

/-- which branch `UpdateList` takes for a partial filter with a selector -/
theorem updateList_selector_path (sh : Shape) (ex : List Item) (n0 : Item) (rest : List Item) (sel : Item)
    (el : Option Item) (r : List Item) (b : Bool)
    (h : copyToSelected sh false ex sel n0 = .ok (r, b)) :
    updateList sh false ex (n0 :: rest) (some ⟨some sel, el⟩) none = .ok ⟨r, r, b, false⟩ := by
  simp [updateList, h]

/-- **C02, refinement, partial update with a selector** (the selector is defined on every stored item, at
    most one item matches, the update does not re-key the item): the matching item receives the overlay,
    every other item is unchanged -/
theorem refines_selector (sh : Shape) (st : List Item) (u0 : Item) (rest : List Item) (sel : Item)
    (hs : WF sh st) (hl : u0.length = sh.n)
    (hd : ∀ x ∈ st, selDefined sh sel x = true) (h1 : (st.filter (selMatches sh sel)).length ≤ 1)
    (hsk : ∀ x ∈ st, selMatches sh sel x = true → sameKeys sh u0 x = true) :
    ∃ r, updateList sh false st (u0 :: rest) (some ⟨some sel, none⟩) none = .ok r ∧ r.ok = true ∧ WF sh r.out ∧
      abs sh r.out = SpecKV.apply sh (abs sh st) (u0 :: rest) (some ⟨some sel, none⟩) none := by
  have hmap : st.map (selCopy sh sel u0) = st.map (selUpd sh sel u0) := by
    apply List.map_congr_left
    intro a ha
    simp only [selCopy, selUpd]
    rw [copyNonNil_eq_overlay u0 a (hl.trans (hs.len a ha).symm)]
  have hkk : KeepsKeys sh st (selUpd sh sel u0) := by
    refine ⟨?_, ?_⟩
    · intro a _
      simp only [selUpd]; split
      · exact overlay_length u0 a
      · rfl
    · intro a ha k hk
      simp only [selUpd]; split
      · rename_i hm
        exact get_overlay_key sh u0 a (hs.complete a ha) (hsk a ha hm) k hk
      · rfl
  refine ⟨_, updateList_selector_path sh st u0 rest sel none _ _ (copyToSelected_local sh sel u0 st hd h1), rfl, ?_, ?_⟩
  · show WF sh (st.map (selCopy sh sel u0))
    rw [hmap]; exact wf_map sh st _ hkk hs
  · show abs sh (st.map (selCopy sh sel u0)) = _
    rw [hmap]
    funext k
    rw [abs_map sh st _ hkk k]
    simp [SpecKV.apply, applyData, applySel]

/-! ### delete filters -/

theorem removeElements_length (sh : Shape) (el it : Item) : (removeElements sh el it).length = it.length := by
  unfold removeElements
  split
  · rfl
  · simp

theorem removed_eq_named (sh : Shape) (el : Item) (i : Nat) :
    ((List.range el.length).filterMap fun j =>
      if (el.get j).isSome then (sh.elMap[j]?).join else none).contains i = named sh el i := by
  rw [Bool.eq_iff_iff]
  simp only [named, List.contains_iff_mem, List.mem_filterMap, List.mem_range, List.any_eq_true, Bool.and_eq_true,
    beq_iff_eq]
  constructor
  · rintro ⟨j, hj, h⟩
    refine ⟨j, hj, ?_⟩
    split at h
    · rename_i hs; exact ⟨hs, h⟩
    · cases h
  · rintro ⟨j, hj, hs, h⟩
    exact ⟨j, hj, by simp [hs, h]⟩

/-- the code's `RemoveElementFromItem` is the SPEC's `clear` when the elements struct mirrors the item -/
theorem removeElements_eq_clear (sh : Shape) (el it : Item) (hn : sh.elN = it.length) :
    removeElements sh el it = clear sh el it := by
  unfold removeElements clear
  simp only [hn, bne_self_eq_false, Bool.false_eq_true, if_false]
  apply List.map_congr_left
  intro i _
  simp only [clearField, removed_eq_named]

theorem get_clear_key (sh : Shape) (el it : Item) (hel : elOK sh el = true) :
    ∀ k ∈ sh.keys, (clear sh el it).get k.1 = it.get k.1 := by
  intro k hk
  simp only [elOK, Bool.and_eq_true, List.all_eq_true, Bool.not_eq_true'] at hel
  have hnk := hel.2 k hk
  rcases Nat.lt_or_ge k.1 it.length with hlt | hge
  · simp only [clear, Item.get]
    rw [List.getElem?_map, List.getElem?_range hlt]
    simp [clearField, hnk, Item.get]
  · rw [get_none_of_ge it k.1 hge, get_none_of_ge _ k.1 (by simpa [clear] using hge)]

theorem clear_length (sh : Shape) (el it : Item) : (clear sh el it).length = it.length := by simp [clear]

/-- `deleteFilteredData`, local, selector only -/
theorem deleteFiltered_sel (sh : Shape) (sel : Item) : ∀ (ex : List Item),
    (∀ x ∈ ex, selDefined sh sel x = true) →
    deleteFiltered.go sh false ⟨some sel, none⟩ ex = .ok (ex, ex.filter (keepUnless sh sel), true)
  | [], _ => rfl
  | x :: xs, hd => by
    have hx := selectorMatch_eq sh sel x (hd x List.mem_cons_self)
    have ih := deleteFiltered_sel sh sel xs (fun y hy => hd y (List.mem_cons_of_mem _ hy))
    simp only [deleteFiltered.go, Bool.and_false, Bool.false_eq_true, if_false, hx, ih]
    cases hm : selMatches sh sel x <;> simp [keepUnless, hm]

/-- `deleteFilteredData`, local, elements only -/
theorem deleteFiltered_el (sh : Shape) (el : Item) : ∀ (ex : List Item),
    deleteFiltered.go sh false ⟨none, some el⟩ ex =
      .ok (ex.map (removeElements sh el), ex.map (removeElements sh el), true)
  | [] => rfl
  | x :: xs => by
    have ih := deleteFiltered_el sh el xs
    simp [deleteFiltered.go, ih]

def remIf (sh : Shape) (sel el it : Item) : Item := if selMatches sh sel it then removeElements sh el it else it

/-- `deleteFilteredData`, local, selector and elements -/
theorem deleteFiltered_sel_el (sh : Shape) (sel el : Item) : ∀ (ex : List Item),
    (∀ x ∈ ex, selDefined sh sel x = true) →
    deleteFiltered.go sh false ⟨some sel, some el⟩ ex =
      .ok (ex.map (remIf sh sel el), ex.map (remIf sh sel el), true)
  | [], _ => rfl
  | x :: xs, hd => by
    have hx := selectorMatch_eq sh sel x (hd x List.mem_cons_self)
    have ih := deleteFiltered_sel_el sh sel el xs (fun y hy => hd y (List.mem_cons_of_mem _ hy))
    simp only [deleteFiltered.go, Bool.and_false, Bool.false_eq_true, if_false, hx, ih]
    cases hm : selMatches sh sel x <;> simp [remIf, hm]

/-- the data a well-defined local delete filter leaves, as the code computes it -/
def afterDelete (sh : Shape) (st : List Item) (f : Filter) : List Item :=
  match f.sel, f.el with
  | some s, none => st.filter (keepUnless sh s)
  | none, some e => st.map (removeElements sh e)
  | some s, some e => st.map (remIf sh s e)
  | none, none => st

theorem deleteFiltered_local (sh : Shape) (st : List Item) (f : Filter)
    (hd : ∀ s, f.sel = some s → ∀ x ∈ st, selDefined sh s x = true) :
    ∃ ip, deleteFiltered sh false st f = .ok (ip, afterDelete sh st f, true) := by
  obtain ⟨fs, fe⟩ := f
  cases fs with
  | none =>
    cases fe with
    | none =>
      refine ⟨st, ?_⟩
      unfold deleteFiltered afterDelete
      induction st with
      | nil => rfl
      | cons x xs ih =>
        have := ih (fun s hs => by cases hs)
        simp only [deleteFiltered.go, Bool.and_false, Bool.false_eq_true, if_false] at this ⊢
        simp [this]
    | some e => exact ⟨_, deleteFiltered_el sh e st⟩
  | some s =>
    have hd' := hd s rfl
    cases fe with
    | none => exact ⟨_, deleteFiltered_sel sh s st hd'⟩
    | some e => exact ⟨_, deleteFiltered_sel_el sh s e st hd'⟩

/-- **C02, refinement of the delete part**: on well-formed data, a well-defined delete filter (`wfDelete`)
    leaves well-formed data which, as a map, is `applyDelete` of the SPEC -/
theorem refines_delete (sh : Shape) (st : List Item) (f : Filter) (hs : WF sh st)
    (hw : wfDelete sh st f = true) :
    WF sh (afterDelete sh st f) ∧ abs sh (afterDelete sh st f) = applyDelete sh (abs sh st) f := by
  obtain ⟨fs, fe⟩ := f
  have hrem : ∀ e, elOK sh e = true → KeepsKeys sh st (clear sh e) := fun e he =>
    ⟨fun a _ => clear_length sh e a, fun a _ => get_clear_key sh e a he⟩
  have heq : ∀ e, elOK sh e = true → ∀ a ∈ st, removeElements sh e a = clear sh e a := by
    intro e he a ha
    apply removeElements_eq_clear
    simp only [elOK, Bool.and_eq_true, beq_iff_eq] at he
    rw [he.1, hs.len a ha]
  cases fs with
  | none =>
    cases fe with
    | none => exact ⟨hs, rfl⟩
    | some e =>
      have he : elOK sh e = true := by simpa [wfDelete] using hw
      have hmap : st.map (removeElements sh e) = st.map (clear sh e) := List.map_congr_left (heq e he)
      simp only [afterDelete, applyDelete]
      rw [hmap]
      exact ⟨wf_map sh st _ (hrem e he) hs, funext fun k => abs_map sh st _ (hrem e he) k⟩
  | some s =>
    cases fe with
    | none =>
      simp only [afterDelete, applyDelete]
      exact ⟨wf_filter sh st _ hs, funext fun k => abs_filter sh st _ hs k⟩
    | some e =>
      have he : elOK sh e = true := by
        simp only [wfDelete, Bool.and_eq_true] at hw
        exact hw.2
      have hmap : st.map (remIf sh s e) = st.map (clearIf sh s e) := by
        apply List.map_congr_left
        intro a ha
        simp only [remIf, clearIf, heq e he a ha]
      have hkk : KeepsKeys sh st (clearIf sh s e) := by
        refine ⟨?_, ?_⟩
        · intro a _
          simp only [clearIf]; split
          · exact clear_length sh e a
          · rfl
        · intro a _ k hk
          simp only [clearIf]; split
          · exact get_clear_key sh e a he k hk
          · rfl
      simp only [afterDelete, applyDelete]
      rw [hmap]
      exact ⟨wf_map sh st _ hkk hs, funext fun k => abs_map sh st _ hkk k⟩

/-! ### delete first, then the data: the general statement -/

/-- result list and success flag of an engine call -/
def view : Outcome Res → Outcome (List Item × Bool)
  | .ok r => .ok (r.out, r.ok)
  | .panic s => .panic s

theorem view_ok (o : Outcome Res) (l : List Item) (b : Bool) (h : view o = .ok (l, b)) :
    ∃ r, o = .ok r ∧ r.out = l ∧ r.ok = b := by
  cases o with
  | panic s => simp [view] at h
  | ok r =>
    simp only [view, Outcome.ok.injEq, Prod.mk.injEq] at h
    exact ⟨r, rfl, h.1, h.2⟩

/-- a local update with a delete filter returns what the same update without it returns on the data the
    delete filter leaves -/
theorem updateList_delete_view (sh : Shape) (st nw : List Item) (fp : Option Filter) (f : Filter)
    (ip cur : List Item) (hne : (f.sel.isNone && f.el.isNone) = false)
    (h : deleteFiltered sh false st f = .ok (ip, cur, true)) :
    view (updateList sh false st nw fp (some f)) = view (updateList sh false cur nw fp none) := by
  unfold updateList
  simp only [hne, Bool.false_eq_true, if_false, h, if_true]
  cases fp with
  | none =>
    cases nw with
    | nil => simp [view]
    | cons n0 rest =>
      by_cases hid : hasIdentifiers sh n0 = true
      · simp [hid, view]
      · simp [hid, view]
  | some g =>
    obtain ⟨gs, ge⟩ := g
    cases nw with
    | nil => simp [view]
    | cons n0 rest =>
      cases gs with
      | none => simp [view]
      | some sel =>
        simp only
        cases copyToSelected sh false cur sel n0 with
        | panic s => simp [view]
        | ok rb => obtain ⟨r, b⟩ := rb; simp [view]

/-- what the SPEC requires of the data part of an update, relative to the data `cur` it is applied to -/
inductive DataOK (sh : Shape) (cur : List Item) : List Item → Option Filter → Prop
  /-- items with complete, pairwise distinct identifiers (possibly none), no selector -/
  | withIds (nw : List Item) (h : WF sh nw) : DataOK sh cur nw none
  /-- one identifier-less item, no selector -/
  | keyless (u0 : Item) (hl : u0.length = sh.n) (hk : keyless sh u0 = true) : DataOK sh cur [u0] none
  /-- a selector that is defined on every item, matches at most one, and an item that does not re-key it -/
  | selector (u0 : Item) (rest : List Item) (sel : Item) (hl : u0.length = sh.n)
      (hd : ∀ x ∈ cur, selDefined sh sel x = true) (h1 : (cur.filter (selMatches sh sel)).length ≤ 1)
      (hsk : ∀ x ∈ cur, selMatches sh sel x = true → sameKeys sh u0 x = true) :
      DataOK sh cur (u0 :: rest) (some ⟨some sel, none⟩)

theorem refines_data (sh : Shape) (hk : Tables.structKeyLast sh.keys = true) (hne : sh.keys ≠ [])
    (cur nw : List Item) (fp : Option Filter) (hs : WF sh cur) (hd : DataOK sh cur nw fp) :
    ∃ r, updateList sh false cur nw fp none = .ok r ∧ r.ok = true ∧ WF sh r.out ∧
      abs sh r.out = SpecKV.apply sh (abs sh cur) nw fp none := by
  cases hd with
  | withIds _ h => exact refines_partial sh hk hne cur nw hs h
  | keyless u0 hl hkl => exact refines_all sh hne cur u0 hs hl hkl
  | selector u0 rest sel hl hdef h1 hsk => exact refines_selector sh cur u0 rest sel hs hl hdef h1 hsk

/-- the data the delete part of an update leaves (the stored data itself when there is no delete filter) -/
def curOf (sh : Shape) (st : List Item) : Option Filter → List Item
  | none => st
  | some f => afterDelete sh st f

/-- **C02, refinement, all filter shapes**: a local update — optional delete filter (selector, elements or
    both, well-defined on the stored data) and a data part the SPEC decides — applied to well-formed data
    succeeds, yields well-formed data, and that data, as a map identifier → item, is `SpecKV.apply` of the
    stored map: delete first, then overlay / lay over all / lay over the selected item. -/
theorem refines_general (sh : Shape) (hk : Tables.structKeyLast sh.keys = true) (hne : sh.keys ≠ [])
    (st nw : List Item) (fp fd : Option Filter) (hs : WF sh st)
    (hfd : ∀ f, fd = some f → wfDelete sh st f = true ∧ (f.sel.isNone && f.el.isNone) = false)
    (hdata : DataOK sh (curOf sh st fd) nw fp) :
    ∃ r, updateList sh false st nw fp fd = .ok r ∧ r.ok = true ∧ WF sh r.out ∧
      abs sh r.out = SpecKV.apply sh (abs sh st) nw fp fd := by
  cases fd with
  | none => exact refines_data sh hk hne st nw fp hs hdata
  | some f =>
    obtain ⟨hwd, hnonempty⟩ := hfd f rfl
    have hsel : ∀ s, f.sel = some s → ∀ x ∈ st, selDefined sh s x = true := by
      intro s hfs x hx
      simp only [wfDelete, hfs, Bool.and_eq_true, List.all_eq_true] at hwd
      exact hwd.1 x hx
    obtain ⟨ip, hdel⟩ := deleteFiltered_local sh st f hsel
    obtain ⟨hwc, habs⟩ := refines_delete sh st f hs hwd
    obtain ⟨r, hr, hok, hwf, hr_abs⟩ := refines_data sh hk hne (afterDelete sh st f) nw fp hwc hdata
    have hv := updateList_delete_view sh st nw fp f ip _ hnonempty hdel
    rw [hr] at hv
    obtain ⟨r', hr', hout, hok'⟩ := view_ok _ _ _ hv
    refine ⟨r', hr', hok'.trans hok, hout ▸ hwf, ?_⟩
    rw [hout, hr_abs, habs]
    simp [SpecKV.apply]

/-! ### from the executable well-formedness checks (`notDecided`) to the hypotheses above -/

theorem nodupKeys_iff (sh : Shape) : ∀ (l : List Item), nodupKeys sh l = true ↔ (l.map (keyOf sh)).Nodup
  | [] => by simp [nodupKeys]
  | x :: xs => by
    simp only [nodupKeys, Bool.and_eq_true, Bool.not_eq_true', List.any_eq_false, List.map_cons, List.nodup_cons,
      nodupKeys_iff sh xs, List.mem_map, hasKey, beq_iff_eq]
    constructor
    · rintro ⟨h1, h2⟩
      exact ⟨fun ⟨a, ha, hk⟩ => h1 a ha hk, h2⟩
    · rintro ⟨h1, h2⟩
      exact ⟨fun a ha hk => h1 ⟨a, ha, hk⟩, h2⟩

theorem wf_of_wfData (sh : Shape) (l : List Item) (h : wfData sh l = true) : WF sh l := by
  simp only [wfData, Bool.and_eq_true, List.all_eq_true, wfItem, beq_iff_eq] at h
  exact ⟨fun a ha => (h.1 a ha).1, fun a ha => (h.1 a ha).2, (nodupKeys_iff sh l).mp h.2⟩

theorem wfData_of_wf (sh : Shape) (l : List Item) (h : WF sh l) : wfData sh l = true := by
  simp only [wfData, Bool.and_eq_true, List.all_eq_true, wfItem, beq_iff_eq]
  exact ⟨fun a ha => ⟨h.len a ha, h.complete a ha⟩, (nodupKeys_iff sh l).mpr h.nodup⟩

/-- the SPEC's "data after the delete part" is the list the code's delete leaves -/
theorem delList_eq_curOf (sh : Shape) (st : List Item) (fd : Option Filter) (hs : WF sh st)
    (hfd : fdOK sh st fd = true) : delList sh st fd = curOf sh st fd := by
  cases fd with
  | none => rfl
  | some f =>
    obtain ⟨fs, fe⟩ := f
    simp only [fdOK, Bool.and_eq_true] at hfd
    have hwd := hfd.1
    have heq : ∀ e, elOK sh e = true → ∀ a ∈ st, clear sh e a = removeElements sh e a := by
      intro e he a ha
      symm
      apply removeElements_eq_clear
      simp only [elOK, Bool.and_eq_true, beq_iff_eq] at he
      rw [he.1, hs.len a ha]
    cases fs with
    | none =>
      cases fe with
      | none => rfl
      | some e =>
        have he : elOK sh e = true := by simpa [wfDelete] using hwd
        simp only [delList, curOf, afterDelete]
        exact List.map_congr_left (heq e he)
    | some s =>
      cases fe with
      | none => rfl
      | some e =>
        have he : elOK sh e = true := by
          simp only [wfDelete, Bool.and_eq_true] at hwd
          exact hwd.2
        simp only [delList, curOf, afterDelete]
        apply List.map_congr_left
        intro a ha
        simp only [clearIf, remIf, heq e he a ha]

theorem dataOK_of_checks (sh : Shape) (_hne : sh.keys ≠ []) (cur nw : List Item) (fp : Option Filter)
    (hi : wfItems sh nw = true) (hp : fpOK sh cur nw fp = true) : DataOK sh cur nw fp := by
  simp only [wfItems, Bool.and_eq_true, List.all_eq_true, beq_iff_eq] at hi
  obtain ⟨hlen, hrest⟩ := hi
  cases fp with
  | none =>
    match nw, hlen, hrest with
    | [], _, _ => exact .withIds [] ⟨fun a ha => (by cases ha), fun a ha => (by cases ha), (by simp)⟩
    | [u0], hlen, hrest =>
      simp only [Bool.or_eq_true] at hrest
      rcases hrest with hk | hc
      · exact .keyless u0 (hlen u0 List.mem_cons_self) hk
      · refine .withIds [u0] ⟨hlen, ?_, by simp⟩
        intro a ha
        rcases List.mem_cons.mp ha with rfl | h
        · exact hc
        · cases h
    | a :: b :: rest, hlen, hrest =>
      simp only [Bool.and_eq_true, List.all_eq_true] at hrest
      exact .withIds _ ⟨hlen, hrest.1, (nodupKeys_iff sh _).mp hrest.2⟩
  | some f =>
    obtain ⟨fs, fe⟩ := f
    simp only [fpOK, Bool.and_eq_true, Option.isNone_iff_eq_none] at hp
    obtain ⟨hfe, hsel⟩ := hp
    subst hfe
    cases fs with
    | none => simp at hsel
    | some s =>
      cases nw with
      | nil => simp at hsel
      | cons u0 rest =>
        simp only [Bool.and_eq_true, List.all_eq_true, decide_eq_true_eq] at hsel
        obtain ⟨⟨hd, h1⟩, hsk⟩ := hsel
        exact .selector u0 rest s (hlen u0 List.mem_cons_self) hd h1
          (fun x hx hm => hsk x (List.mem_filter.mpr ⟨hx, hm⟩))

/-- **C02, refinement on exactly the inputs the SPEC decides** (`notDecided … = none`, the check the
    monitor evaluates): the local update succeeds, the result is well-formed data again, and as a map it is
    `SpecKV.apply` of the stored map -/
theorem refines_decided (sh : Shape) (hk : Tables.structKeyLast sh.keys = true)
    (st nw : List Item) (fp fd : Option Filter) (h : notDecided sh st nw fp fd = none) :
    ∃ r, updateList sh false st nw fp fd = .ok r ∧ r.ok = true ∧ wfData sh r.out = true ∧
      abs sh r.out = SpecKV.apply sh (abs sh st) nw fp fd := by
  unfold notDecided at h
  by_cases h1 : wfData sh st = true
  · by_cases h2 : sh.keys.isEmpty = true
    · simp [h1, h2] at h
    · by_cases h3 : wfItems sh nw = true
      · by_cases h4 : fdOK sh st fd = true
        · by_cases h5 : fpOK sh (delList sh st fd) nw fp = true
          · have hs := wf_of_wfData sh st h1
            have hne : sh.keys ≠ [] := by
              intro hnil; rw [hnil] at h2; exact h2 rfl
            rw [delList_eq_curOf sh st fd hs h4] at h5
            have hfd : ∀ f, fd = some f → wfDelete sh st f = true ∧ (f.sel.isNone && f.el.isNone) = false := by
              intro f hf
              subst hf
              simp only [fdOK, Bool.and_eq_true, Bool.not_eq_true'] at h4
              exact h4
            obtain ⟨r, hr, hok, hwf, habs⟩ :=
              refines_general sh hk hne st nw fp fd hs hfd (dataOK_of_checks sh hne _ nw fp h3 h5)
            exact ⟨r, hr, hok, wfData_of_wf sh _ hwf, habs⟩
          · simp [h1, h2, h3, h4, h5] at h
        · simp [h1, h2, h3, h4] at h
      · simp [h1, h2, h3] at h
  · simp [h1] at h

/-! ### order -/

/-- the comparator of `SortData` only looks at the key fields -/
theorem less_congr (sh : Shape) (a a' b b' : Item)
    (ha : ∀ k ∈ sh.keys, a'.get k.1 = a.get k.1) (hb : ∀ k ∈ sh.keys, b'.get k.1 = b.get k.1) :
    less sh a' b' = less sh a b := by
  unfold less
  generalize sh.keys = ks at ha hb
  induction ks with
  | nil => rfl
  | cons k ks ih =>
    obtain ⟨i, kind⟩ := k
    have h1 := ha (i, kind) List.mem_cons_self
    have h2 := hb (i, kind) List.mem_cons_self
    simp only at h1 h2
    simp only [less.go, h1, h2]
    rw [ih (fun k hk => ha k (List.mem_cons_of_mem _ hk)) (fun k hk => hb k (List.mem_cons_of_mem _ hk))]

theorem sorted_map (sh : Shape) (l : List Item) (f : Item → Item) (hf : KeepsKeys sh l f) (hs : Sorted sh l) :
    Sorted sh (l.map f) := by
  unfold Sorted at hs ⊢
  rw [List.pairwise_map]
  apply List.Pairwise.imp_of_mem _ hs
  intro a b ha hb hab
  rw [less_congr sh b (f b) a (f a) (hf.keys b hb) (hf.keys a ha)]
  exact hab

theorem sorted_filter (sh : Shape) (l : List Item) (q : Item → Bool) (hs : Sorted sh l) : Sorted sh (l.filter q) :=
  List.Pairwise.filter q hs

/-- the data a well-defined delete filter leaves is still ordered -/
theorem sorted_afterDelete (sh : Shape) (st : List Item) (f : Filter) (hs : WF sh st)
    (hw : wfDelete sh st f = true) (hsrt : Sorted sh st) : Sorted sh (afterDelete sh st f) := by
  obtain ⟨fs, fe⟩ := f
  have hkeep : ∀ e, elOK sh e = true → KeepsKeys sh st (removeElements sh e) := by
    intro e he
    have hn : ∀ a ∈ st, sh.elN = a.length := by
      intro a ha
      simp only [elOK, Bool.and_eq_true, beq_iff_eq] at he
      rw [he.1, hs.len a ha]
    refine ⟨fun a _ => removeElements_length sh e a, ?_⟩
    intro a ha k hk
    rw [removeElements_eq_clear sh e a (hn a ha)]
    exact get_clear_key sh e a he k hk
  cases fs with
  | none =>
    cases fe with
    | none => exact hsrt
    | some e =>
      have he : elOK sh e = true := by simpa [wfDelete] using hw
      exact sorted_map sh st _ (hkeep e he) hsrt
  | some s =>
    cases fe with
    | none => exact sorted_filter sh st _ hsrt
    | some e =>
      have he : elOK sh e = true := by
        simp only [wfDelete, Bool.and_eq_true] at hw
        exact hw.2
      have hk' := hkeep e he
      apply sorted_map sh st _ _ hsrt
      refine ⟨?_, ?_⟩
      · intro a ha
        simp only [remIf]; split
        · exact hk'.len a ha
        · rfl
      · intro a ha k hk
        simp only [remIf]; split
        · exact hk'.keys a ha k hk
        · rfl

theorem sorted_data (sh : Shape) (hne : sh.keys ≠ []) (hu : ∀ k ∈ sh.keys, k.2 = .uint)
    (hk : Tables.structKeyLast sh.keys = true)
    (cur nw : List Item) (fp : Option Filter) (hs : WF sh cur) (hd : DataOK sh cur nw fp) (hsrt : Sorted sh cur) :
    ∀ r, updateList sh false cur nw fp none = .ok r → Sorted sh r.out := by
  intro r hr
  cases hd with
  | withIds _ h =>
    have hpath : ∀ n0 rest, nw = n0 :: rest → hasIdentifiers sh n0 = true := by
      intro n0 rest hnw
      rw [hasIdentifiers_eq_complete]
      exact h.complete n0 (hnw ▸ List.mem_cons_self)
    rw [updateList_merge_path sh false cur nw hpath] at hr
    injection hr with hr
    subst hr
    have hne' : sh.keys.isEmpty = false := by
      cases h' : sh.keys with
      | nil => exact absurd h' hne
      | cons _ _ => rfl
    exact sortData_sorted sh _ hne' (keyed_of_wf sh hu _ (wf_merge sh hk cur nw hs h))
  | keyless u0 hl hkl =>
    have hnid : hasIdentifiers sh u0 = false := by
      rw [hasIdentifiers_eq_complete]
      cases hks : sh.keys with
      | nil => exact absurd hks hne
      | cons k ks =>
        simp only [keyless, hks, List.all_cons, Bool.and_eq_true] at hkl
        simp only [complete, hks, List.all_cons]
        cases hg : u0.get k.1 with
        | none => simp
        | some v => rw [hg] at hkl; simp at hkl
    rw [updateList_all_path sh cur u0 [] hnid] at hr
    injection hr with hr
    subst hr
    have hmap : cur.map (copyNonNil u0) = cur.map (overlay u0) :=
      List.map_congr_left fun a ha => copyNonNil_eq_overlay u0 a (hl.trans (hs.len a ha).symm)
    show Sorted sh (cur.map (copyNonNil u0))
    rw [hmap]
    exact sorted_map sh cur _
      ⟨fun a _ => overlay_length u0 a,
       fun a ha => get_overlay_key sh u0 a (hs.complete a ha) (sameKeys_of_keyless sh u0 a hkl)⟩ hsrt
  | selector u0 rest sel hl hdef h1 hsk =>
    rw [updateList_selector_path sh cur u0 rest sel none _ _ (copyToSelected_local sh sel u0 cur hdef h1)] at hr
    injection hr with hr
    subst hr
    have hmap : cur.map (selCopy sh sel u0) = cur.map (selUpd sh sel u0) := by
      apply List.map_congr_left
      intro a ha
      simp only [selCopy, selUpd]
      rw [copyNonNil_eq_overlay u0 a (hl.trans (hs.len a ha).symm)]
    show Sorted sh (cur.map (selCopy sh sel u0))
    rw [hmap]
    apply sorted_map sh cur _ _ hsrt
    refine ⟨?_, ?_⟩
    · intro a _
      simp only [selUpd]; split
      · exact overlay_length u0 a
      · rfl
    · intro a ha k hk
      simp only [selUpd]; split
      · rename_i hm
        exact get_overlay_key sh u0 a (hs.complete a ha) (hsk a ha hm) k hk
      · rfl

/-- **C02, order, all decided inputs**: with numeric identifiers, ordered data stays ordered by identifier
    (and on the merge path the result is ordered whatever the order before) -/
theorem sorted_decided (sh : Shape) (hu : ∀ k ∈ sh.keys, k.2 = .uint) (hk : Tables.structKeyLast sh.keys = true)
    (st nw : List Item) (fp fd : Option Filter) (h : notDecided sh st nw fp fd = none) (hsrt : Sorted sh st) :
    ∀ r, updateList sh false st nw fp fd = .ok r → Sorted sh r.out := by
  intro r hr
  unfold notDecided at h
  by_cases h1 : wfData sh st = true
  · by_cases h2 : sh.keys.isEmpty = true
    · simp [h1, h2] at h
    · by_cases h3 : wfItems sh nw = true
      · by_cases h4 : fdOK sh st fd = true
        · by_cases h5 : fpOK sh (delList sh st fd) nw fp = true
          · have hs := wf_of_wfData sh st h1
            have hne : sh.keys ≠ [] := by
              intro hnil; rw [hnil] at h2; exact h2 rfl
            rw [delList_eq_curOf sh st fd hs h4] at h5
            have hdata := dataOK_of_checks sh hne _ nw fp h3 h5
            cases fd with
            | none => exact sorted_data sh hne hu hk st nw fp hs hdata hsrt r hr
            | some f =>
              simp only [fdOK, Bool.and_eq_true, Bool.not_eq_true'] at h4
              obtain ⟨hwd, hnonempty⟩ := h4
              have hsel : ∀ s, f.sel = some s → ∀ x ∈ st, selDefined sh s x = true := by
                intro s hfs x hx
                simp only [wfDelete, hfs, Bool.and_eq_true, List.all_eq_true] at hwd
                exact hwd.1 x hx
              obtain ⟨ip, hdel⟩ := deleteFiltered_local sh st f hsel
              obtain ⟨hwc, _⟩ := refines_delete sh st f hs hwd
              have hv := updateList_delete_view sh st nw fp f ip _ hnonempty hdel
              rw [hr] at hv
              cases hr2 : updateList sh false (afterDelete sh st f) nw fp none with
              | panic s => rw [hr2] at hv; simp [view] at hv
              | ok r2 =>
                rw [hr2] at hv
                simp only [view, Outcome.ok.injEq, Prod.mk.injEq] at hv
                rw [hv.1]
                exact sorted_data sh hne hu hk _ nw fp hwc hdata (sorted_afterDelete sh st f hs hwd hsrt) r2 hr2
          · simp [h1, h2, h3, h4, h5] at h
        · simp [h1, h2, h3, h4] at h
      · simp [h1, h2, h3] at h
  · simp [h1] at h

/-- **idempotence, identifier-less update, as lists**: laying the same item over every stored item a second time
    changes nothing -/
theorem idempotent_all (sh : Shape) (st : List Item) (u0 : Item) (rest : List Item)
    (hl : ∀ a ∈ st, u0.length = a.length) (h : hasIdentifiers sh u0 = false) :
    ∀ r, updateList sh false st (u0 :: rest) none none = .ok r →
      ∃ r', updateList sh false r.out (u0 :: rest) none none = .ok r' ∧ r'.out = r.out ∧ r'.ok = true := by
  intro r hr
  rw [updateList_all_path sh st u0 rest h] at hr
  injection hr with hr
  subst hr
  refine ⟨_, updateList_all_path sh _ u0 rest h, ?_, rfl⟩
  show (st.map (copyNonNil u0)).map (copyNonNil u0) = st.map (copyNonNil u0)
  rw [List.map_map]
  apply List.map_congr_left
  intro a ha
  simp only [Function.comp]
  rw [copyNonNil_eq_overlay u0 a (hl a ha), copyNonNil_eq_overlay u0 _ ((hl a ha).trans (overlay_length u0 a).symm),
    overlay_idem]

/-! ### histories through the per-type wrapper (`updateStore`, persisting local updates) -/

/-- one restricted-exchange update: data, partial filter, delete filter -/
structure Upd where
  items : List Item
  fp : Option Filter
  fd : Option Filter

/-- the stored data after a history of local persisting updates (`none`: a step panicked) -/
def runStore (sh : Shape) : List Item → List Upd → Option (List Item)
  | st, [] => some st
  | st, u :: us => match updateStore sh false true st u.items u.fp u.fd with
    | .panic _ => none
    | .ok (store, _, _) => runStore sh store us

/-- the fold of the SPEC rules over the history -/
def runSpec (sh : Shape) : Map → List Upd → Map
  | m, [] => m
  | m, u :: us => runSpec sh (SpecKV.apply sh m u.items u.fp u.fd) us

/-- every update of the history is one the SPEC decides at the data it meets -/
def DecidedAll (sh : Shape) : List Item → List Upd → Prop
  | _, [] => True
  | st, u :: us => notDecided sh st u.items u.fp u.fd = none ∧
      ∀ store out ok, updateStore sh false true st u.items u.fp u.fd = .ok (store, out, ok) → DecidedAll sh store us

theorem updateStore_decided (sh : Shape) (hk : Tables.structKeyLast sh.keys = true)
    (st : List Item) (u : Upd) (h : notDecided sh st u.items u.fp u.fd = none) :
    ∃ r, updateList sh false st u.items u.fp u.fd = .ok r ∧
      updateStore sh false true st u.items u.fp u.fd = .ok (r.out, r.out, true) ∧
      wfData sh r.out = true ∧ abs sh r.out = SpecKV.apply sh (abs sh st) u.items u.fp u.fd := by
  obtain ⟨r, hr, hok, hwf, habs⟩ := refines_decided sh hk st u.items u.fp u.fd h
  refine ⟨r, hr, ?_, hwf, habs⟩
  simp [updateStore, hr, hok]

/-- **C02, histories**: after any sequence of local persisting updates, each of which the SPEC decides at the
    data it meets, the stored data is well-formed (one item per identifier) and, as a map, equals the fold of
    the SPEC rules over the sequence -/
theorem history_refines (sh : Shape) (hk : Tables.structKeyLast sh.keys = true) :
    ∀ (us : List Upd) (st : List Item), wfData sh st = true → DecidedAll sh st us →
      ∃ l, runStore sh st us = some l ∧ wfData sh l = true ∧ abs sh l = runSpec sh (abs sh st) us
  | [], st, hw, _ => ⟨st, rfl, hw, rfl⟩
  | u :: us, st, _, hd => by
    obtain ⟨hdec, hrest⟩ := hd
    obtain ⟨r, _, hst, hwf, habs⟩ := updateStore_decided sh hk st u hdec
    obtain ⟨l, hl, hwl, hal⟩ := history_refines sh hk us r.out hwf (hrest _ _ _ hst)
    refine ⟨l, ?_, hwl, ?_⟩
    · simp only [runStore, hst]; exact hl
    · simp only [runSpec]; rw [← habs]; exact hal

/-- … and with numeric identifiers ordered data stays ordered through the whole history -/
theorem history_sorted (sh : Shape) (hu : ∀ k ∈ sh.keys, k.2 = .uint) (hk : Tables.structKeyLast sh.keys = true) :
    ∀ (us : List Upd) (st : List Item), Sorted sh st → DecidedAll sh st us →
      ∀ l, runStore sh st us = some l → Sorted sh l
  | [], st, hs, _, l, hl => by
    simp only [runStore, Option.some.injEq] at hl
    exact hl ▸ hs
  | u :: us, st, hs, hd, l, hl => by
    obtain ⟨hdec, hrest⟩ := hd
    obtain ⟨r, hr, hst, _, _⟩ := updateStore_decided sh hk st u hdec
    have hsr := sorted_decided sh hu hk st u.items u.fp u.fd hdec hs r hr
    simp only [runStore, hst] at hl
    exact history_sorted sh hu hk us r.out hsr (hrest _ _ _ hst) l hl

end Spine
