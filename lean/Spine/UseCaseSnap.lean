import Spine.UseCaseThm
/-!
# C11 — the use-case helpers of package `model` on a heap with Go's slice sharing made explicit

`NodeManagementUseCaseDataType` holds a slice of information elements; each element holds a slice of supports. A
`DataCopy` of the function data copies the outer slice HEADER only, so every copy ever handed out (to the application,
into a reply, into an event) shares the backing arrays of both levels with the store's earlier values. The helpers
(`AddUseCaseSupport`, `SetAvailability`, `RemoveUseCaseSupport`, `RemoveUseCaseDataForAddress`, and `Add` / `Remove`
of the element type) run on such a one-level copy (`EntityLocal.*UseCase*`: DataCopy, helper, SetData).

Here a helper is a PROGRAM of heap writes (`W`): allocations of arrays and assignments to array elements, in the order
of the code. The snapshot clause of C11 for these helpers is then one general fact (`run_stable`): a program all of
whose element assignments go to arrays allocated by the program itself ("owned": the regenerated fact
`c11_helpers_write_only_own_slices` of `Spine.Props.C11Gen`) leaves every value handed out earlier as it was — plus
the proof that the programs of the code as it is (`Cfg.clean`: clone before the change, append to a clipped slice,
filter into a new list) are of that kind. The in-place members (flags) are the code before /repo 478c80b
(`addInPlace`, `availInPlace`) and the seeded class C11-r4-1 (`removeAllInPlace`: `list[:0]` filtering); each is
refuted by a kernel-checked witness.

Core Lean only (imported by `Drivers/UCSnap.lean`).
-/
namespace Spine.UCS
open Spine.UC

structure Cfg where
  addInPlace : Bool := false        -- AddUseCaseSupport overwrites an existing support inside the shared array
  availInPlace : Bool := false      -- SetAvailability writes the flag inside the shared array
  removeAllInPlace : Bool := false  -- RemoveUseCaseDataForAddress filters into list[:0]
deriving DecidableEq, Repr

def Cfg.clean : Cfg := {}

structure Cell where
  ent : List Nat
  actor : Nat
  sup : Nat × Nat            -- the element's support slice: (inner array, length)
deriving DecidableEq, Repr

structure H where
  outer : List (List Cell) := []      -- backing arrays of information elements; array id = index
  inner : List (List Support) := []   -- backing arrays of supports
deriving DecidableEq, Repr

abbrev Hdr := Option (Nat × Nat)      -- the UseCaseInformation field of a value: nil or (outer array, length)

def H.sups (h : H) (p : Nat × Nat) : List Support := ((h.inner[p.1]?).getD []).take p.2
def H.cells (h : H) (v : Hdr) : List Cell :=
  match v with
  | none => []
  | some (a, n) => ((h.outer[a]?).getD []).take n
def H.info (h : H) (c : Cell) : Info := ⟨c.ent, c.actor, h.sups c.sup⟩
/-- what a holder of the value reads -/
def H.view (h : H) (v : Hdr) : Reg := (h.cells v).map h.info

/-- heap writes -/
inductive W
  | allocO (l : List Cell)
  | allocI (l : List Support)
  | setO (a i : Nat) (c : Cell)
  | setI (a i : Nat) (s : Support)
deriving DecidableEq, Repr

def updAt {α : Type} : List α → Nat → (α → α) → List α
  | [], _, _ => []
  | x :: xs, 0, f => f x :: xs
  | x :: xs, n + 1, f => x :: updAt xs n f

def H.apply (h : H) : W → H
  | .allocO l => { h with outer := h.outer ++ [l] }
  | .allocI l => { h with inner := h.inner ++ [l] }
  | .setO a i c => { h with outer := updAt h.outer a (·.set i c) }
  | .setI a i s => { h with inner := updAt h.inner a (·.set i s) }

def H.run (h : H) (ws : List W) : H := ws.foldl H.apply h

/-- the write goes to an array that did not exist when the helper started (`no`, `ni`: sizes of the heap then) -/
def W.owned (no ni : Nat) : W → Bool
  | .setO a _ _ => decide (no ≤ a)
  | .setI a _ _ => decide (ni ≤ a)
  | _ => true

/-- every cell the write puts into the heap refers to an inner array below `b` -/
def W.cellsBelow (b : Nat) : W → Prop
  | .allocO l => ∀ c ∈ l, c.sup.1 < b
  | .setO _ _ c => c.sup.1 < b
  | _ => True

def W.isAllocI : W → Bool
  | .allocI _ => true
  | _ => false
def W.isAllocO : W → Bool
  | .allocO _ => true
  | _ => false

/-! ### the helpers as programs -/

def findInfo (h : H) (v : Hdr) (ent : List Nat) (actor name : Nat) : Option Nat :=
  (h.view v).findIdx? (hit ent actor name)

def supIdx (sup : List Support) (name : Nat) : Option Nat := sup.findIdx? (·.name = name)

/-- `AddUseCaseSupport` on an element that exists: `n.UseCaseInformation = slices.Clone(...)`, then `Add` on the
    clone's element: overwrite in a clone of the support list, or append to the clipped support list -/
def addExisting (c : Cfg) (h : H) (v : Hdr) (i : Nat) (cell : Cell) (x : Support) : List W × Hdr :=
  let cs := h.cells v
  let no := h.outer.length
  let ni := h.inner.length
  let sup := h.sups cell.sup
  match supIdx sup x.name with
  | some j =>
    if c.addInPlace then ([.setI cell.sup.1 j x], v)
    else ([.allocO cs, .allocI sup, .setI ni j x, .setO no i { cell with sup := (ni, sup.length) }], some (no, cs.length))
  | none =>
    ([.allocO cs, .allocI (sup ++ [x]), .setO no i { cell with sup := (ni, sup.length + 1) }], some (no, cs.length))

def addP (c : Cfg) (h : H) (v : Hdr) (ent : List Nat) (actor : Nat) (x : Support) : List W × Hdr :=
  match findInfo h v ent actor 0 with
  | some i =>
    match (h.cells v)[i]? with
    | none => ([], v)
    | some cell => addExisting c h v i cell x
  | none =>
    ([.allocI [x], .allocO (h.cells v ++ [⟨ent, actor, (h.inner.length, 1)⟩])], some (h.outer.length, (h.cells v).length + 1))

/-- `SetAvailability`: clones of both lists, the flag set in the clone -/
def availAt (c : Cfg) (h : H) (v : Hdr) (i : Nat) (cell : Cell) (j : Nat) (y : Support) (a : Bool) : List W × Hdr :=
  if c.availInPlace then ([.setI cell.sup.1 j { y with avail := a }], v)
  else
    ([.allocI (h.sups cell.sup), .setI h.inner.length j { y with avail := a }, .allocO (h.cells v),
      .setO h.outer.length i { cell with sup := (h.inner.length, (h.sups cell.sup).length) }],
     some (h.outer.length, (h.cells v).length))

def availP (c : Cfg) (h : H) (v : Hdr) (ent : List Nat) (actor name : Nat) (a : Bool) : List W × Hdr :=
  match findInfo h v ent actor name with
  | none => ([], v)
  | some i =>
    match (h.cells v)[i]? with
    | none => ([], v)
    | some cell =>
      match supIdx (h.sups cell.sup) name with
      | none => ([], v)
      | some j =>
        match (h.sups cell.sup)[j]? with
        | none => ([], v)
        | some y => availAt c h v i cell j y a

/-- `RemoveUseCaseSupport`: a new information list; the matching element gets a new support list without the name
    and is dropped when that list is empty -/
def removeAt (h : H) (v : Hdr) (i : Nat) (cell : Cell) (name : Nat) : List W × Hdr :=
  let cs := h.cells v
  let keep := (h.sups cell.sup).filter (·.name ≠ name)
  let mid : List Cell := if keep.isEmpty then [] else [{ cell with sup := (h.inner.length, keep.length) }]
  let cs' := cs.take i ++ mid ++ cs.drop (i + 1)
  ([.allocI keep, .allocO cs'], if cs'.isEmpty then none else some (h.outer.length, cs'.length))

def removeP (h : H) (v : Hdr) (ent : List Nat) (actor name : Nat) : List W × Hdr :=
  match findInfo h v ent actor name with
  | none => ([], v)
  | some i =>
    match (h.cells v)[i]? with
    | none => ([], v)
    | some cell => removeAt h v i cell name

/-- in-place filtering `list[:0]` + append: the kept elements are written to the front of the SAME array -/
def filterInPlace (a : Nat) : List Cell → Nat → List W
  | [], _ => []
  | c :: cs, k => .setO a k c :: filterInPlace a cs (k + 1)

/-- `RemoveUseCaseDataForAddress` -/
def removeAllP (c : Cfg) (h : H) (v : Hdr) (ent : List Nat) : List W × Hdr :=
  let kept := (h.cells v).filter (·.ent ≠ ent)
  if c.removeAllInPlace then
    match v with
    | none => ([], none)
    | some (a, _) => (filterInPlace a kept 0, some (a, kept.length))
  else ([.allocO kept], if kept.isEmpty then none else some (h.outer.length, kept.length))

def prog (c : Cfg) (h : H) (v : Hdr) : Op → List W × Hdr
  | .add e a x => addP c h v e a x
  | .setAvail e a n b => availP c h v e a n b
  | .remove e a n => removeP h v e a n
  | .removeAll e => removeAllP c h v e

/-! ### the world: the store's value, and every value ever handed out -/

structure St where
  h : H := {}
  store : Hdr := none
  handles : List Hdr := []        -- newest first
deriving DecidableEq, Repr

inductive Ev
  | op (o : Op)        -- EntityLocal helper: DataCopy, helper on the copy, SetData
  | scratch (o : Op)   -- the application runs a helper of package model on a DataCopy of its own and drops it
  | copy               -- a value is handed out (DataCopy, reply payload, event payload)
  | own (k : Nat) (o : Op)  -- the application runs a helper of package model on the value it was handed (k-th newest)

def step (c : Cfg) (s : St) : Ev → St
  | .op o => { s with h := s.h.run (prog c s.h s.store o).1, store := (prog c s.h s.store o).2 }
  | .scratch o => { s with h := s.h.run (prog c s.h s.store o).1 }
  | .copy => { s with handles := s.store :: s.handles }
  | .own k o =>
    match s.handles[k]? with
    | none => s
    | some v => { s with h := s.h.run (prog c s.h v o).1, handles := s.handles.set k (prog c s.h v o).2 }

def runEvs (c : Cfg) (s : St) (evs : List Ev) : St := evs.foldl (step c) s

end Spine.UCS
