import Spine.UseCaseSnap
/-! Lemmas about `Spine.UCS`: a program whose element assignments all go to arrays it allocated itself only EXTENDS the
    heap; values handed out earlier read the same in an extended heap; the programs of the clean member are of that
    kind and keep the heap well-formed. -/
namespace Spine.UCS
open Spine.UC

theorem updAt_length {α : Type} (l : List α) (a : Nat) (f : α → α) : (updAt l a f).length = l.length := by
  induction l generalizing a with
  | nil => simp [updAt]
  | cons x xs ih => cases a with
    | zero => simp [updAt]
    | succ a => simp [updAt, ih]

theorem updAt_take {α : Type} (l : List α) (a n : Nat) (f : α → α) (h : n ≤ a) : (updAt l a f).take n = l.take n := by
  induction l generalizing a n with
  | nil => simp [updAt]
  | cons x xs ih =>
    cases n with
    | zero => simp
    | succ n =>
      cases a with
      | zero => omega
      | succ a => simp [updAt, ih a n (by omega)]

theorem mem_updAt {α : Type} (l : List α) (a : Nat) (f : α → α) (y : α) (h : y ∈ updAt l a f) :
    y ∈ l ∨ ∃ x ∈ l, y = f x := by
  induction l generalizing a with
  | nil => simp [updAt] at h
  | cons x xs ih =>
    cases a with
    | zero =>
      simp only [updAt, List.mem_cons] at h
      rcases h with h | h
      · exact Or.inr ⟨x, by simp, h⟩
      · exact Or.inl (by simp [h])
    | succ a =>
      simp only [updAt, List.mem_cons] at h
      rcases h with h | h
      · exact Or.inl (by simp [h])
      · rcases ih a h with h | ⟨z, hz, hy⟩
        · exact Or.inl (by simp [h])
        · exact Or.inr ⟨z, by simp [hz], hy⟩

/-- `h` extends `h0`: the arrays of `h0` are there, unchanged, under the same ids -/
def Pre (h0 h : H) : Prop :=
  h.outer.take h0.outer.length = h0.outer ∧ h.inner.take h0.inner.length = h0.inner

theorem pre_refl (h : H) : Pre h h := ⟨by simp, by simp⟩

theorem le_of_take_eq {α : Type} (l l0 : List α) (h : l.take l0.length = l0) : l0.length ≤ l.length := by
  have := congrArg List.length h
  simp only [List.length_take] at this
  omega

theorem apply_pre (h0 h : H) (w : W) (hp : Pre h0 h) (ho : w.owned h0.outer.length h0.inner.length = true) :
    Pre h0 (h.apply w) := by
  obtain ⟨h1, h2⟩ := hp
  have l1 := le_of_take_eq _ _ h1
  have l2 := le_of_take_eq _ _ h2
  cases w with
  | allocO l => exact ⟨by simp only [H.apply]; rw [List.take_append_of_le_length l1]; exact h1, h2⟩
  | allocI l => exact ⟨h1, by simp only [H.apply]; rw [List.take_append_of_le_length l2]; exact h2⟩
  | setO a i c =>
    simp only [W.owned, decide_eq_true_eq] at ho
    exact ⟨by simp only [H.apply]; rw [updAt_take _ _ _ _ ho]; exact h1, h2⟩
  | setI a i s =>
    simp only [W.owned, decide_eq_true_eq] at ho
    exact ⟨h1, by simp only [H.apply]; rw [updAt_take _ _ _ _ ho]; exact h2⟩

theorem run_pre (h0 : H) (ws : List W) : ∀ (h : H), Pre h0 h →
    (∀ w ∈ ws, w.owned h0.outer.length h0.inner.length = true) → Pre h0 (h.run ws) := by
  induction ws with
  | nil => intro h hp _; exact hp
  | cons w ws ih =>
    intro h hp ho
    simp only [H.run, List.foldl_cons]
    exact ih (h.apply w) (apply_pre h0 h w hp (ho w (by simp))) (fun w' hw' => ho w' (by simp [hw']))

def hdrBelow (v : Hdr) (b : Nat) : Prop :=
  match v with
  | none => True
  | some (a, _) => a < b

def hdrOk (h : H) (v : Hdr) : Prop := hdrBelow v h.outer.length

theorem hdrBelow_ite (c : Bool) (a n b : Nat) (hlt : a < b) : hdrBelow (if c then none else some (a, n)) b := by
  cases c <;> simp [hdrBelow, hlt]

theorem hdrBelow_some (a n b : Nat) (hlt : a < b) : hdrBelow (some (a, n)) b := by simp [hdrBelow, hlt]

def cellsBound (h : H) (b : Nat) : Prop := ∀ l ∈ h.outer, ∀ c ∈ l, c.sup.1 < b

theorem getElem?_of_take_eq {α : Type} (l l0 : List α) (h : l.take l0.length = l0) (a : Nat) (ha : a < l0.length) :
    l[a]? = l0[a]? := by
  have : (l.take l0.length)[a]? = l[a]? := by simp [List.getElem?_take, ha]
  rw [← this, h]

theorem cells_bound (h : H) (v : Hdr) (b : Nat) (hc : cellsBound h b) : ∀ c ∈ h.cells v, c.sup.1 < b := by
  intro c hcm
  cases v with
  | none => simp [H.cells] at hcm
  | some p =>
    obtain ⟨a, n⟩ := p
    simp only [H.cells] at hcm
    have hm := List.mem_of_mem_take hcm
    cases hg : h.outer[a]? with
    | none => simp [hg] at hm
    | some arr =>
      simp only [hg, Option.getD_some] at hm
      exact hc arr (List.mem_of_getElem? hg) c hm

/-- a value that was valid in `h0` reads the same in every extension of `h0` -/
theorem view_stable (h0 h : H) (hp : Pre h0 h) (v : Hdr) (hv : hdrOk h0 v) (hc : cellsBound h0 h0.inner.length) :
    h.view v = h0.view v := by
  have hcells : h.cells v = h0.cells v := by
    cases v with
    | none => rfl
    | some p =>
      obtain ⟨a, n⟩ := p
      simp only [H.cells]
      rw [getElem?_of_take_eq _ _ hp.1 a (by simpa [hdrOk, hdrBelow] using hv)]
  simp only [H.view, hcells]
  apply List.map_congr_left
  intro c hcm
  have hb := cells_bound h0 v _ hc c hcm
  simp only [H.info, H.sups]
  rw [getElem?_of_take_eq _ _ hp.2 c.sup.1 hb]

/-- THE BRIDGE: a program all of whose element assignments are owned keeps every earlier value -/
theorem run_stable (h : H) (ws : List W) (ho : ∀ w ∈ ws, w.owned h.outer.length h.inner.length = true)
    (v : Hdr) (hv : hdrOk h v) (hc : cellsBound h h.inner.length) : (h.run ws).view v = h.view v :=
  view_stable h (h.run ws) (run_pre h ws h (pre_refl h) ho) v hv hc

/-! ### sizes and well-formedness after a program -/

theorem apply_outer_length (h : H) (w : W) : (h.apply w).outer.length = h.outer.length + (if w.isAllocO then 1 else 0) := by
  cases w <;> simp [H.apply, W.isAllocO, updAt_length]

theorem apply_inner_length (h : H) (w : W) : (h.apply w).inner.length = h.inner.length + (if w.isAllocI then 1 else 0) := by
  cases w <;> simp [H.apply, W.isAllocI, updAt_length]

theorem run_outer_length (ws : List W) : ∀ h : H, (h.run ws).outer.length = h.outer.length + ws.countP W.isAllocO := by
  induction ws with
  | nil => intro h; simp [H.run]
  | cons w ws ih =>
    intro h
    simp only [H.run, List.foldl_cons] at *
    rw [ih (h.apply w), apply_outer_length, List.countP_cons]
    omega

theorem run_inner_length (ws : List W) : ∀ h : H, (h.run ws).inner.length = h.inner.length + ws.countP W.isAllocI := by
  induction ws with
  | nil => intro h; simp [H.run]
  | cons w ws ih =>
    intro h
    simp only [H.run, List.foldl_cons] at *
    rw [ih (h.apply w), apply_inner_length, List.countP_cons]
    omega

theorem apply_cellsBound (h : H) (w : W) (b : Nat) (hb : cellsBound h b) (hw : w.cellsBelow b) : cellsBound (h.apply w) b := by
  cases w with
  | allocO l =>
    intro l' hl' c hc
    simp only [H.apply, List.mem_append, List.mem_singleton] at hl'
    rcases hl' with hl' | rfl
    · exact hb l' hl' c hc
    · exact hw c hc
  | allocI l => exact hb
  | setO a i c0 =>
    intro l' hl' c hc
    simp only [H.apply] at hl'
    rcases mem_updAt _ _ _ _ hl' with hl' | ⟨l0, hl0, rfl⟩
    · exact hb l' hl' c hc
    · rcases List.mem_or_eq_of_mem_set hc with hc | rfl
      · exact hb l0 hl0 c hc
      · exact hw
  | setI a i s => exact hb

theorem run_cellsBound (ws : List W) (b : Nat) : ∀ h : H, cellsBound h b → (∀ w ∈ ws, w.cellsBelow b) → cellsBound (h.run ws) b := by
  induction ws with
  | nil => intro h hb _; exact hb
  | cons w ws ih =>
    intro h hb hw
    simp only [H.run, List.foldl_cons]
    exact ih (h.apply w) (apply_cellsBound h w b hb (hw w (by simp))) (fun w' hw' => hw w' (by simp [hw']))

theorem cellsBound_mono (h : H) (b b' : Nat) (hb : cellsBound h b) (hle : b ≤ b') : cellsBound h b' :=
  fun l hl c hc => Nat.lt_of_lt_of_le (hb l hl c hc) hle

/-! ### the programs of the clean member -/

/-- what a program must satisfy: owned writes, cells referring to inner arrays that exist at the end, a result
    header that exists at the end -/
structure ProgOK (h : H) (p : List W × Hdr) : Prop where
  owned : ∀ w ∈ p.1, w.owned h.outer.length h.inner.length = true
  cells : ∀ w ∈ p.1, w.cellsBelow (h.inner.length + p.1.countP W.isAllocI)
  hdr : hdrBelow p.2 (h.outer.length + p.1.countP W.isAllocO)

theorem progOK_nil (h : H) (v : Hdr) (hv : hdrOk h v) : ProgOK h ([], v) :=
  ⟨by simp, by simp, by simpa [hdrOk] using hv⟩

theorem mem_cells_of_getElem? (h : H) (v : Hdr) (i : Nat) (cell : Cell) (hi : (h.cells v)[i]? = some cell) :
    cell ∈ h.cells v := List.mem_of_getElem? hi

theorem addP_ok (h : H) (v : Hdr) (e : List Nat) (a : Nat) (x : Support)
    (hc : cellsBound h h.inner.length) (hv : hdrOk h v) : ProgOK h (addP .clean h v e a x) := by
  have hcb := cells_bound h v _ hc
  unfold addP
  split
  · split
    · exact progOK_nil h v hv
    · rename_i cell hcell
      have hcl := hcb cell (mem_cells_of_getElem? h v _ cell hcell)
      unfold addExisting
      dsimp only
      split
      · simp only [Cfg.clean, Bool.false_eq_true, if_false]
        refine ⟨?_, ?_, ?_⟩
        · intro w hw; simp at hw; rcases hw with rfl | rfl | rfl | rfl <;> simp [W.owned]
        · intro w hw
          simp at hw
          rcases hw with rfl | rfl | rfl | rfl
          · intro c hcm; have := hcb c hcm; simp [List.countP_cons, W.isAllocI]; omega
          · trivial
          · trivial
          · simp [W.cellsBelow, List.countP_cons, W.isAllocI]
        · exact hdrBelow_some _ _ _ (by simp [List.countP_cons, W.isAllocO])
      · refine ⟨?_, ?_, ?_⟩
        · intro w hw; simp at hw; rcases hw with rfl | rfl | rfl <;> simp [W.owned]
        · intro w hw
          simp at hw
          rcases hw with rfl | rfl | rfl
          · intro c hcm; have := hcb c hcm; simp [List.countP_cons, W.isAllocI]; omega
          · trivial
          · simp [W.cellsBelow, List.countP_cons, W.isAllocI]
        · exact hdrBelow_some _ _ _ (by simp [List.countP_cons, W.isAllocO])
  · refine ⟨?_, ?_, ?_⟩
    · intro w hw; simp at hw; rcases hw with rfl | rfl <;> simp [W.owned]
    · intro w hw
      simp at hw
      rcases hw with rfl | rfl
      · trivial
      · intro c hcm
        simp only [List.mem_append, List.mem_singleton] at hcm
        rcases hcm with hcm | rfl
        · have := hcb c hcm; simp [List.countP_cons, W.isAllocI]; omega
        · simp [List.countP_cons, W.isAllocI]
    · exact hdrBelow_some _ _ _ (by simp [List.countP_cons, W.isAllocO])

theorem availP_ok (h : H) (v : Hdr) (e : List Nat) (a n : Nat) (b : Bool)
    (hc : cellsBound h h.inner.length) (hv : hdrOk h v) : ProgOK h (availP .clean h v e a n b) := by
  have hcb := cells_bound h v _ hc
  unfold availP
  split
  · exact progOK_nil h v hv
  · split
    · exact progOK_nil h v hv
    · rename_i cell hcell
      split
      · exact progOK_nil h v hv
      · split
        · exact progOK_nil h v hv
        · unfold availAt
          simp only [Cfg.clean, Bool.false_eq_true, if_false]
          refine ⟨?_, ?_, ?_⟩
          · intro w hw; simp at hw; rcases hw with rfl | rfl | rfl | rfl <;> simp [W.owned]
          · intro w hw
            simp at hw
            rcases hw with rfl | rfl | rfl | rfl
            · trivial
            · trivial
            · intro c hcm; have := hcb c hcm; simp [List.countP_cons, W.isAllocI]; omega
            · simp [W.cellsBelow, List.countP_cons, W.isAllocI]
          · exact hdrBelow_some _ _ _ (by simp [List.countP_cons, W.isAllocO])

theorem removeP_ok (h : H) (v : Hdr) (e : List Nat) (a n : Nat)
    (hc : cellsBound h h.inner.length) (hv : hdrOk h v) : ProgOK h (removeP h v e a n) := by
  have hcb := cells_bound h v _ hc
  unfold removeP
  split
  · exact progOK_nil h v hv
  · split
    · exact progOK_nil h v hv
    · rename_i cell hcell
      unfold removeAt
      dsimp only
      refine ⟨?_, ?_, ?_⟩
      · intro w hw; simp at hw; rcases hw with rfl | rfl <;> simp [W.owned]
      · intro w hw
        simp only [List.mem_cons, List.not_mem_nil, or_false] at hw
        rcases hw with rfl | rfl
        · trivial
        · intro c hcm
          simp only [List.mem_append] at hcm
          simp only [List.countP_cons, W.isAllocI, List.countP_nil]
          rcases hcm with (hcm | hcm) | hcm
          · have := hcb c (List.mem_of_mem_take hcm); omega
          · split at hcm
            · simp at hcm
            · simp only [List.mem_singleton] at hcm; subst hcm; simp
          · have := hcb c (List.mem_of_mem_drop hcm); omega
      · exact hdrBelow_ite _ _ _ _ (by simp [List.countP_cons, W.isAllocO])

theorem removeAllP_ok (h : H) (v : Hdr) (e : List Nat)
    (hc : cellsBound h h.inner.length) (_hv : hdrOk h v) : ProgOK h (removeAllP .clean h v e) := by
  have hcb := cells_bound h v _ hc
  unfold removeAllP
  simp only [Cfg.clean, Bool.false_eq_true, if_false]
  refine ⟨?_, ?_, ?_⟩
  · intro w hw; simp at hw; subst hw; simp [W.owned]
  · intro w hw
    simp only [List.mem_singleton] at hw
    subst hw
    intro c hcm
    have := hcb c (List.mem_filter.mp hcm).1
    omega
  · exact hdrBelow_ite _ _ _ _ (by simp [List.countP_cons, W.isAllocO])

theorem prog_ok (h : H) (v : Hdr) (o : Op) (hc : cellsBound h h.inner.length) (hv : hdrOk h v) :
    ProgOK h (prog .clean h v o) := by
  cases o with
  | add e a x => exact addP_ok h v e a x hc hv
  | setAvail e a n b => exact availP_ok h v e a n b hc hv
  | remove e a n => exact removeP_ok h v e a n hc hv
  | removeAll e => exact removeAllP_ok h v e hc hv

/-! ### the world -/

def Good (s : St) : Prop :=
  cellsBound s.h s.h.inner.length ∧ hdrOk s.h s.store ∧ ∀ v ∈ s.handles, hdrOk s.h v

theorem good_init : Good {} := ⟨by intro l hl; simp at hl, trivial, by simp⟩

theorem hdrOk_run (h : H) (ws : List W) (v : Hdr) (hv : hdrOk h v) : hdrOk (h.run ws) v := by
  cases v with
  | none => trivial
  | some p =>
    simp only [hdrOk, hdrBelow] at *
    rw [run_outer_length]
    omega

theorem run_good_heap (h : H) (p : List W × Hdr) (hc : cellsBound h h.inner.length) (ok : ProgOK h p) :
    cellsBound (h.run p.1) (h.run p.1).inner.length ∧ hdrOk (h.run p.1) p.2 := by
  constructor
  · rw [run_inner_length]
    exact run_cellsBound p.1 _ h (cellsBound_mono h _ _ hc (by omega)) ok.cells
  · have := ok.hdr
    simp only [hdrOk]
    rw [run_outer_length]
    exact this

theorem step_good (s : St) (ev : Ev) (hg : Good s) : Good (step .clean s ev) := by
  obtain ⟨hc, hs, hh⟩ := hg
  cases ev with
  | op o =>
    have ok := prog_ok s.h s.store o hc hs
    have := run_good_heap s.h _ hc ok
    exact ⟨this.1, this.2, fun v hv => hdrOk_run _ _ v (hh v hv)⟩
  | scratch o =>
    have ok := prog_ok s.h s.store o hc hs
    have := run_good_heap s.h _ hc ok
    exact ⟨this.1, hdrOk_run _ _ _ hs, fun v hv => hdrOk_run _ _ v (hh v hv)⟩
  | copy =>
    refine ⟨hc, hs, ?_⟩
    intro v hv
    simp only [step, List.mem_cons] at hv
    rcases hv with rfl | hv
    · exact hs
    · exact hh v hv
  | own k o =>
    simp only [step]
    split
    · exact ⟨hc, hs, hh⟩
    · rename_i v0 hv0
      have hv0ok := hh v0 (List.mem_of_getElem? hv0)
      have ok := prog_ok s.h v0 o hc hv0ok
      have := run_good_heap s.h _ hc ok
      refine ⟨this.1, hdrOk_run _ _ _ hs, ?_⟩
      intro v hv
      rcases List.mem_or_eq_of_mem_set hv with hv | rfl
      · exact hdrOk_run _ _ v (hh v hv)
      · exact this.2

theorem step_stable (s : St) (ev : Ev) (hg : Good s) (v : Hdr) (hv : hdrOk s.h v) :
    (step .clean s ev).h.view v = s.h.view v ∧ hdrOk (step .clean s ev).h v := by
  have hg' := hg
  obtain ⟨hc, hs, _⟩ := hg'
  cases ev with
  | op o =>
    have ok := prog_ok s.h s.store o hc hs
    exact ⟨run_stable s.h _ ok.owned v hv hc, hdrOk_run _ _ v hv⟩
  | scratch o =>
    have ok := prog_ok s.h s.store o hc hs
    exact ⟨run_stable s.h _ ok.owned v hv hc, hdrOk_run _ _ v hv⟩
  | copy => exact ⟨rfl, hv⟩
  | own k o =>
    simp only [step]
    split
    · exact ⟨rfl, hv⟩
    · rename_i v0 hv0
      have hv0ok := hg.2.2 v0 (List.mem_of_getElem? hv0)
      have ok := prog_ok s.h v0 o hc hv0ok
      exact ⟨run_stable s.h _ ok.owned v hv hc, hdrOk_run _ _ v hv⟩

theorem runEvs_good (evs : List Ev) : ∀ s : St, Good s → Good (runEvs .clean s evs) := by
  induction evs with
  | nil => intro s hg; exact hg
  | cons e es ih => intro s hg; simp only [runEvs, List.foldl_cons]; exact ih _ (step_good s e hg)

theorem runEvs_stable (evs : List Ev) : ∀ (s : St), Good s → ∀ v, hdrOk s.h v →
    (runEvs .clean s evs).h.view v = s.h.view v := by
  induction evs with
  | nil => intro s _ v _; rfl
  | cons e es ih =>
    intro s hg v hv
    simp only [runEvs, List.foldl_cons]
    have h1 := step_stable s e hg v hv
    have := ih (step .clean s e) (step_good s e hg) v h1.2
    simp only [runEvs] at this
    rw [this, h1.1]

end Spine.UCS
