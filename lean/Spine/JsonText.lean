import Spine.Json
open Spine.Json
/-! Prefix notation for values `V` and JSON trees `J` of `Spine.Json`, shared by the drivers `drv_json` and
    `drv_cmd` (text codec only; nothing is proved about it — the harness writes and reads the same notation):
      V:  n | S<hex of UTF-8> | N<int> | T | F | P v | L<k> v…  | R<k> v…          (nil, string, number, bool, some, list, struct)
      J:  z | S<hex> | N<int> | T | F | A<k> j… | O<k> (K<hex of key> j)…           (null, …, array, object) -/

def hexVal (c : Char) : Nat :=
  if '0' ≤ c ∧ c ≤ '9' then c.toNat - 48
  else if 'a' ≤ c ∧ c ≤ 'f' then c.toNat - 87
  else if 'A' ≤ c ∧ c ≤ 'F' then c.toNat - 55 else 0

def hexToBytes (s : String) : ByteArray := Id.run do
  let cs := s.toList.toArray
  let mut out := ByteArray.empty
  let mut i := 0
  while i + 1 < cs.size do
    out := out.push (UInt8.ofNat (hexVal cs[i]! * 16 + hexVal cs[i+1]!))
    i := i + 2
  return out

def hexToString (s : String) : String :=
  match String.fromUTF8? (hexToBytes s) with
  | some r => r
  | none => "�"

def hexToKey (s : String) : Key := s.toList.foldl (fun acc c => acc * 16 + hexVal c) 0

def hexDigit (n : Nat) : Char := if n < 10 then Char.ofNat (48 + n) else Char.ofNat (87 + n)

def bytesToHex (b : ByteArray) : String :=
  String.ofList (b.toList.flatMap fun x => [hexDigit (x.toNat / 16), hexDigit (x.toNat % 16)])

def stringToHex (s : String) : String := bytesToHex s.toUTF8

def keyToHex (k : Key) : String := bytesToHex (ByteArray.mk (keyBytes (k + 1) k []).toArray)

partial def showV : V → String
  | .nil => "n"
  | .str s => "S" ++ stringToHex s
  | .num n => "N" ++ toString n
  | .bool b => if b then "T" else "F"
  | .some v => "P " ++ showV v
  | .list vs => " ".intercalate (s!"L{vs.length}" :: vs.map showV)
  | .strct vs => " ".intercalate (s!"R{vs.length}" :: vs.map showV)

partial def showJ : J → String
  | .null => "z"
  | .str s => "S" ++ stringToHex s
  | .num n => "N" ++ toString n
  | .bool b => if b then "T" else "F"
  | .arr xs => " ".intercalate (s!"A{xs.length}" :: xs.map showJ)
  | .obj kvs => " ".intercalate (s!"O{kvs.length}" :: kvs.map fun p => "K" ++ keyToHex p.1 ++ " " ++ showJ p.2)

mutual
partial def parseV : List String → Option (V × List String)
  | [] => none
  | t :: rest =>
    if t == "n" then some (.nil, rest)
    else if t == "T" then some (.bool true, rest)
    else if t == "F" then some (.bool false, rest)
    else if t == "P" then (parseV rest).map fun (v, r) => (.some v, r)
    else match t.toList with
      | 'S' :: h => some (.str (hexToString (String.ofList h)), rest)
      | 'N' :: d => (String.ofList d).toInt?.map fun n => (.num n, rest)
      | 'L' :: d => (String.ofList d).toNat?.bind fun k => (parseVs k rest).map fun (vs, r) => (.list vs, r)
      | 'R' :: d => (String.ofList d).toNat?.bind fun k => (parseVs k rest).map fun (vs, r) => (.strct vs, r)
      | _ => none
partial def parseVs : Nat → List String → Option (List V × List String)
  | 0, ts => some ([], ts)
  | k + 1, ts => (parseV ts).bind fun (v, r) => (parseVs k r).map fun (vs, r') => (v :: vs, r')
end

mutual
partial def parseJ : List String → Option (J × List String)
  | [] => none
  | t :: rest =>
    if t == "z" then some (.null, rest)
    else if t == "T" then some (.bool true, rest)
    else if t == "F" then some (.bool false, rest)
    else match t.toList with
      | 'S' :: h => some (.str (hexToString (String.ofList h)), rest)
      | 'N' :: d => (String.ofList d).toInt?.map fun n => (.num n, rest)
      | 'A' :: d => (String.ofList d).toNat?.bind fun k => (parseJs k rest).map fun (xs, r) => (.arr xs, r)
      | 'O' :: d => (String.ofList d).toNat?.bind fun k => (parseKVs k rest).map fun (kvs, r) => (.obj kvs, r)
      | _ => none
partial def parseJs : Nat → List String → Option (List J × List String)
  | 0, ts => some ([], ts)
  | k + 1, ts => (parseJ ts).bind fun (v, r) => (parseJs k r).map fun (vs, r') => (v :: vs, r')
partial def parseKVs : Nat → List String → Option (List (Key × J) × List String)
  | 0, ts => some ([], ts)
  | k + 1, ts => match ts with
    | kt :: r0 => (match kt.toList with
      | 'K' :: h => (parseJ r0).bind fun (v, r) => (parseKVs k r).map fun (vs, r') => ((hexToKey (String.ofList h), v) :: vs, r')
      | _ => none)
    | [] => none
end

