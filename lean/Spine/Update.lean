/-! Prototype: faithful model of model/update.go + collection_operations.go + FunctionData.UpdateData -/
namespace Spine

abbrev Val := Nat
abbrev Item := List (Option Val)

inductive KeyKind | uint | str | struct deriving Repr, DecidableEq, Inhabited

structure Shape where
  n : Nat
  keys : List (Nat × KeyKind)   -- index, kind of fields tagged eebus:"key" (declaration order)
  flag : Option Nat             -- index of the writecheck field
  selMap : List (Option Nat)    -- selector struct field j -> item field index (by name), none if no such item field
  elN : Nat                     -- number of fields of the elements struct (RemoveElementFromItem needs = n)
  elMap : List (Option Nat)     -- elements field j -> item field index (by name)
deriving Repr, Inhabited

def Item.get (it : Item) (i : Nat) : Option Val := (it[i]?).join

/-- hashKey: present keys up to the first missing one; a struct key ends the hash -/
def hashKey (sh : Shape) (it : Item) : List Val :=
  go sh.keys
where go : List (Nat × KeyKind) → List Val
  | [] => []
  | (k, kind) :: ks => match it.get k with
    | none => []
    | some v => match kind with
      | .struct => [v]
      | _ => v :: go ks

def hasIdentifiers (sh : Shape) (it : Item) : Bool :=
  sh.keys.all fun (k, _) => (it.get k).isSome

def writeAllowed (sh : Shape) (it : Item) : Bool :=
  match sh.flag with
  | none => true
  | some f => match it.get f with
    | none => false
    | some v => v % 2 == 1     -- bool fields are encoded as n % 2

def updateFields (sh : Shape) (remote : Bool) (src dst : Item) : Item :=
  (List.range dst.length).map fun i =>
    let d := dst.get i
    if d.isNone || (remote && sh.flag == some i) then src.get i else d

def lookupLast (sh : Shape) (h : List Val) : List Item → Option Item
  | [] => none
  | x :: xs => match lookupLast sh h xs with
    | some y => some y
    | none => if hashKey sh x = h then some x else none

def mergeItem (sh : Shape) (remote : Bool) (s2 : List Item) (a : Item) : Item :=
  match lookupLast sh (hashKey sh a) s2 with
  | some b => if !remote || writeAllowed sh a then updateFields sh remote a b else a
  | none => a

def merge (sh : Shape) (remote : Bool) (s1 s2 : List Item) : List Item × Bool :=
  let first := s1.map (mergeItem sh remote s2)
  let ok := !remote || s1.all (writeAllowed sh)
  let extra := if remote then [] else s2.filter fun b => !(s1.any fun a => hashKey sh a = hashKey sh b)
  (first ++ extra, ok)

/-- the comparator of SortData -/
def less (sh : Shape) (a b : Item) : Bool :=
  go sh.keys
where go : List (Nat × KeyKind) → Bool
  | [] => false
  | (k, kind) :: ks => match a.get k, b.get k with
    | some x, some y => if kind != .uint then false else if x != y then x < y else go ks
    | _, _ => false

/-- Go's insertionSort (stable), which pdqsort uses for n ≤ 12 -/
def insertSorted (sh : Shape) (x : Item) : List Item → List Item
  | [] => [x]
  | y :: ys => if less sh x y then x :: y :: ys else y :: insertSorted sh x ys

-- insertion from the right: data[i] moves left while less(data[j], data[j-1])
def sortData (sh : Shape) (l : List Item) : List Item :=
  if sh.keys.isEmpty then l else
  l.foldl (fun acc x => insertRight acc x) []
where insertRight (acc : List Item) (x : Item) : List Item :=
  -- acc is the sorted prefix; x bubbles left past every y with less x y, stopping at first not-less from the right
  let rec go : List Item → List Item   -- works on reversed prefix
    | [] => [x]
    | y :: ys => if less sh x y then y :: go ys else x :: y :: ys
  (go acc.reverse).reverse

inductive Outcome (α : Type) | ok (a : α) | panic (site : String)
deriving Repr

/-- SelectorMatch(item): panics when the selector names a field the item has as nil -/
def selectorMatch (sh : Shape) (sel : Item) (it : Item) : Outcome Bool :=
  go 0 sel
where go (j : Nat) : List (Option Val) → Outcome Bool
  | [] => .ok true
  | none :: rest => go (j+1) rest
  | some v :: rest => match (sh.selMap[j]?).join with
    | none => go (j+1) rest
    | some i => match it.get i with
      | none => .panic "SelectorMatch:nil-item-field"
      | some w => if w != v then .ok false else go (j+1) rest

def copyNonNil (src dst : Item) : Item :=
  if src.length != dst.length then dst else
  (List.range dst.length).map fun i => match src.get i with
    | some v => some v
    | none => dst.get i

def removeElements (sh : Shape) (el : Item) (it : Item) : Item :=
  if sh.elN != it.length then it else
  let idx := (List.range el.length).filterMap fun j =>
    if (el.get j).isSome then (sh.elMap[j]?).join else none
  (List.range it.length).map fun i => if idx.contains i then none else it.get i

structure Filter where
  sel : Option Item
  el : Option Item
deriving Repr

/-- result of an engine call: the in-place-mutated existing array, the returned list, success -/
structure Res where
  inplace : List Item
  out : List Item
  ok : Bool
  fresh : Bool := true      -- is `out` a new backing array (true) or the caller's own (false)
deriving Repr

def copyToSelected (sh : Shape) (remote : Bool) (ex : List Item) (sel : Item) (nw : Item) : Outcome (List Item × Bool) :=
  go ex
where go : List Item → Outcome (List Item × Bool)
  | [] => .ok ([], true)
  | x :: xs => match selectorMatch sh sel x with
    | .panic s => .panic s
    | .ok false => match go xs with
      | .ok (r, b) => .ok (x :: r, b)
      | .panic s => .panic s
    | .ok true =>
      if !writeAllowed sh x && remote then
        match go xs with
        | .ok (r, _) => .ok (x :: r, false)
        | .panic s => .panic s
      else .ok (copyNonNil nw x :: xs, true)

def copyToAll (sh : Shape) (remote : Bool) (ex : List Item) (nw : Item) : List Item × Bool :=
  (ex.map fun x => if !writeAllowed sh x && remote then x else copyNonNil nw x,
   !(remote && ex.any fun x => !writeAllowed sh x))

/-- deleteFilteredData: (content of the existing array after in-place element removal, result slice, success) -/
def deleteFiltered (sh : Shape) (remote : Bool) (ex : List Item) (f : Filter) : Outcome (List Item × List Item × Bool) :=
  go ex
where go : List Item → Outcome (List Item × List Item × Bool)
  | [] => .ok ([], [], true)
  | x :: xs =>
    if !writeAllowed sh x && remote then
      match go xs with
      | .panic s => .panic s
      | .ok (ip, out, _) => .ok (x :: ip, out, false)
    else
      let m : Outcome Bool := match f.sel with
        | some sel => selectorMatch sh sel x
        | none => .ok true
      match m with
      | .panic s => .panic s
      | .ok hit =>
        match go xs with
        | .panic s => .panic s
        | .ok (ip, out, ok) =>
          match f.sel, f.el with
          | _, some el =>
            if hit then let x' := removeElements sh el x; .ok (x' :: ip, x' :: out, ok)
            else .ok (x :: ip, x :: out, ok)
          | some _, none => if hit then .ok (x :: ip, out, ok) else .ok (x :: ip, x :: out, ok)
          | none, none => .ok (x :: ip, x :: out, ok)

/-- model.UpdateList. `fp`/`fd` = filters whose Data() succeeded (carry a selector or elements).
    `Res.inplace` is the content of the caller's array afterwards. -/
def updateList (sh : Shape) (remote : Bool) (ex nw : List Item) (fp fd : Option Filter) : Outcome Res :=
  let d : Outcome (List Item × List Item × Bool × Bool) := match fd with   -- (orig, cur, curAliasesOrig, ok)
    | none => .ok (ex, ex, true, true)
    | some f =>
      if f.sel.isNone && f.el.isNone then .ok (ex, ex, true, true) else
      match deleteFiltered sh remote ex f with
      | .panic s => .panic s
      | .ok (ip, out, ok) => if ok then .ok (ip, out, false, true) else .ok (ip, ip, true, false)
  match d with
  | .panic s => .panic s
  | .ok (orig, cur, aliased, ok0) =>
    match fp with
    | some f =>
      match nw with
      | [] => .panic "UpdateList:newData[0]"
      | n0 :: _ => match f.sel with
        | none => .ok ⟨orig, cur, ok0, !aliased⟩
        | some sel => match copyToSelected sh remote cur sel n0 with
          | .panic s => .panic s
          | .ok (r, ok1) => .ok ⟨if aliased then r else orig, r, ok0 && ok1, !aliased⟩
    | none =>
      match nw with
      | n0 :: _ =>
        if !hasIdentifiers sh n0 then
          let (r, ok1) := copyToAll sh remote cur n0
          .ok ⟨if aliased then r else orig, r, ok0 && ok1, !aliased⟩
        else
          let (r, ok1) := merge sh remote cur nw
          .ok ⟨orig, sortData sh r, ok0 && ok1, true⟩
      | [] =>
        let (r, ok1) := merge sh remote cur nw
        .ok ⟨orig, sortData sh r, ok0 && ok1, true⟩

/-- the per-type wrapper: persists only on success && persist -/
def updateStore (sh : Shape) (remote persist : Bool) (store nw : List Item) (fp fd : Option Filter) :
    Outcome (List Item × List Item × Bool) :=
  match updateList sh remote store nw fp fd with
  | .panic s => .panic s
  | .ok r => .ok (if r.ok && persist then r.out else r.inplace, r.out, r.ok)

end Spine
