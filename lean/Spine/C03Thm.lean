import Spine.DispatchThm
/-! Per-step theorems for C03 on `Spine.Disp.processCmd`: a write takes effect only through the gate; a denied write
    is silent; an authorised write is applied, fanned out to the subscribers and acknowledged. The history-level
    statement (`c03_follows_registry`) is in `Spine/C03Reg.lean`. -/
namespace Spine.Disp

theorem written_setPeer (w : W) (p : Nat) (pr : Peer) : (setPeer w p pr).written = w.written := rfl
theorem written_bump (w : W) (outs : List (Nat × Out)) : (bump w outs).written = w.written := rfl
theorem binds_setPeer (w : W) (p : Nat) (pr : Peer) : (setPeer w p pr).binds = w.binds := rfl
theorem binds_bump (w : W) (outs : List (Nat × Out)) : (bump w outs).binds = w.binds := rfl
theorem subs_setPeer (w : W) (p : Nat) (pr : Peer) : (setPeer w p pr).subs = w.subs := rfl
theorem subs_bump (w : W) (outs : List (Nat × Out)) : (bump w outs).subs = w.subs := rfl

theorem binds_record (w : W) (b : Bool) (d : Dg) : (record w b d).binds = w.binds := by
  unfold record; split <;> rfl

theorem subs_record (w : W) (b : Bool) (d : Dg) : (record w b d).subs = w.subs := by
  unfold record; split <;> rfl

theorem written_record (w w' : W) (b : Bool) (d : Dg) (h : w'.written = w.written) :
    (record w' b d).written = (record w b d).written := by
  unfold record; split <;> simp [h]

/-- the gate is open iff the function is announced writable and the registry holds the writer's binding -/
theorem gateOk_iff (w : W) (p : Nat) (lf : LF) (d : Dg) :
    gateOk w p lf d = true ↔ writable lf d.fn = true ∧ (d.dst, p, d.src) ∈ w.binds := by
  unfold gateOk
  simp only [Bool.and_eq_true, List.any_eq_true, decide_eq_true_eq]
  constructor
  · rintro ⟨hw, b, hb, ⟨h1, h2⟩, h3⟩
    refine ⟨hw, ?_⟩
    have : b = (d.dst, p, d.src) := by
      obtain ⟨b1, b2, b3⟩ := b
      simp only at h1 h2 h3
      subst h1; subst h2; subst h3; rfl
    rw [← this]; exact hb
  · rintro ⟨hw, hb⟩
    exact ⟨hw, (d.dst, p, d.src), hb, ⟨rfl, rfl⟩, rfl⟩

/-- the effect recorded by a step is that of `record` -/
theorem written_processCmd (w : W) (p : Nat) (d : Dg) (lf : LF) (rf : RF) (hsrc : srcF w p d = some rf)
    (hdst : dstF w d = some lf) (hp : crashes w p lf rf d = false) :
    (processCmd w p d).1.written = (record w (applies w p lf d) d).written := by
  unfold processCmd
  simp only [hsrc, hdst, hp, Bool.false_eq_true, if_false]
  split
  · cases hreq : request ((bump (record (setPeer w p (answered (w.peers p) d.ref)) (applies w p lf d) d)
        ((if applies w p lf d = true then notifs w d else []) ++ tag p (responses w p lf rf d))).peers p) d.src d.fn with
    | mk pr' sent => simp only [written_setPeer, written_bump]; exact written_record _ _ _ _ rfl
  · simp only [written_bump]; exact written_record _ _ _ _ rfl

/-- C03: the data of a local feature changes only through a write datagram whose function is announced writable
    on the addressed feature, whose sender holds a binding to that feature at that moment, and which the feature
    holds data for -/
theorem c03_effect_only_if (w : W) (p : Nat) (d : Dg) (hch : (processCmd w p d).1.written ≠ w.written) :
    ∃ lf, dstF w d = some lf ∧ d.cls = .write ∧ writable lf d.fn = true ∧ (d.dst, p, d.src) ∈ w.binds ∧
      lf.fds.contains d.fn = true := by
  cases hsrc : srcF w p d with
  | none => simp [processCmd, hsrc, written_setPeer] at hch
  | some rf =>
    cases hdst : dstF w d with
    | none =>
      unfold processCmd at hch
      simp only [hsrc, hdst] at hch
      split at hch
      · simp [written_setPeer] at hch
      · split at hch <;> simp [written_setPeer, written_bump] at hch
    | some lf =>
      refine ⟨lf, rfl, ?_⟩
      cases hp : crashes w p lf rf d with
      | true => simp [processCmd, hsrc, hdst, hp, written_setPeer] at hch
      | false =>
        rw [written_processCmd w p d lf rf hsrc hdst hp] at hch
        unfold record at hch
        split at hch
        · rename_i happ
          simp only [applies, Bool.and_eq_true, decide_eq_true_eq, Bool.not_eq_true'] at happ
          have hg := (gateOk_iff w p lf d).mp happ.1.1.1.2
          exact ⟨happ.1.1.1.1, hg.1, hg.2, happ.1.2⟩
        · exact absurd rfl hch

/-- C03: a write that is not authorised changes nothing (data, registries), notifies nobody and is answered with
    exactly one error result, on the writer's connection -/
theorem c03_denied_is_silent (w : W) (p : Nat) (d : Dg) (lf : LF) (rf : RF) (hsrc : srcF w p d = some rf)
    (hdst : dstF w d = some lf) (hw : d.cls = .write) (hg : gateOk w p lf d = false) (hnc : NoCrash w d) :
    (processCmd w p d).1.written = w.written ∧ (processCmd w p d).1.data = w.data ∧
      (processCmd w p d).2 = [(p, res d 1)] := by
  have hpan : crashes w p lf rf d = false := crashes_false w p lf rf d hnc
  have hresp : responses w p lf rf d = [res d 1] := by simp [responses, hw, hg]
  have hwr : wantsRead w p lf rf d = false := by simp [wantsRead, hw]
  have happ : applies w p lf d = false := by simp [applies, hg]
  unfold processCmd
  simp [hsrc, hdst, hpan, hresp, hwr, happ, record, written_setPeer, written_bump, tag, setPeer, bump]

/-- C03: an authorised write of a function the feature holds is applied, every subscriber of the feature is
    notified once, and the writer gets exactly the requested acknowledgement -/
theorem c03_accepted (w : W) (p : Nat) (d : Dg) (lf : LF) (rf : RF) (hsrc : srcF w p d = some rf)
    (hdst : dstF w d = some lf) (hw : d.cls = .write) (hg : gateOk w p lf d = true) (hnm : lf.nm = false)
    (hf : lf.fds.contains d.fn = true) (hb : d.bad = false) (hnc : NoCrash w d) :
    (processCmd w p d).1.written = (d.dst, d.fn) :: w.written ∧
      (processCmd w p d).2 = notifs w d ++ (if d.ack then [(p, res d 0)] else []) := by
  have hpan : crashes w p lf rf d = false := crashes_false w p lf rf d hnc
  have hf' : d.fn ∈ lf.fds := by simpa using hf
  have hresp : responses w p lf rf d = if d.ack then [res d 0] else [] := by simp [responses, hw, hg, hnm, hf', hb]
  have hwr : wantsRead w p lf rf d = false := by simp [wantsRead, hw]
  have happ : applies w p lf d = true := by simp [applies, hg, hw, hnm, hf', hb]
  refine ⟨?_, ?_⟩
  · rw [written_processCmd w p d lf rf hsrc hdst hpan]; simp [record, happ]
  · unfold processCmd
    simp only [hsrc, hdst, hpan, hwr, happ, hresp, Bool.false_eq_true, if_false, if_true]
    cases d.ack <;> simp [tag]

end Spine.Disp
