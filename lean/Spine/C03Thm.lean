import Spine.DispatchThm
namespace Spine.Disp

theorem written_setPeer (w : W) (p : Nat) (pr : Peer) : (setPeer w p pr).written = w.written := rfl

/-- C03: the data of a local feature changes only through a write datagram whose function is announced writable
    on the addressed feature, whose sender holds a binding to that feature, and which the feature holds data for -/
theorem c03_effect_only_if (w : W) (p : Nat) (d : Dg) (hch : (processCmd w p d).1.written ≠ w.written) :
    ∃ lf, dstF w d = some lf ∧ d.cls = .write ∧ gateOk w p lf d = true ∧ lf.fds.contains d.fn = true := by
  unfold processCmd at hch
  cases hsrc : srcF w p d with
  | none => simp [hsrc, written_setPeer] at hch
  | some rf =>
    simp only [hsrc] at hch
    cases hdst : dstF w d with
    | none => simp [hdst, written_setPeer] at hch
    | some lf =>
      simp only [hdst] at hch
      refine ⟨lf, rfl, ?_⟩
      have hrec : (record w p lf d).written ≠ w.written := by
        split at hch
        · simp [written_setPeer] at hch
        · split at hch
          · cases hreq : request (sendN (answered (w.peers p) d.ref) (responses w p lf rf d).length) d.src d.fn with
            | mk pr' sent => simp only [hreq, written_setPeer] at hch; exact hch
          · simpa [written_setPeer] using hch
      unfold record at hrec
      split at hrec
      · rename_i happ
        simp only [applies, Bool.and_eq_true, decide_eq_true_eq, Bool.not_eq_true'] at happ
        exact ⟨happ.1.1.1, happ.1.1.2, happ.2⟩
      · exact absurd rfl hrec

/-- C03: a write that is not authorised changes nothing and is answered with exactly one error result -/
theorem c03_denied_is_silent (w : W) (p : Nat) (d : Dg) (lf : LF) (rf : RF) (hsrc : srcF w p d = some rf)
    (hdst : dstF w d = some lf) (hw : d.cls = .write) (hg : gateOk w p lf d = false) :
    (processCmd w p d).1.written = w.written ∧ (processCmd w p d).2 = [res d 1] := by
  have hpan : panics d = false := by simp [panics, hw]
  have hresp : responses w p lf rf d = [res d 1] := by simp [responses, hw, hg]
  have hwr : wantsRead w p lf rf d = false := by simp [wantsRead, hw]
  have hrec : record w p lf d = w := by simp [record, applies, hg]
  unfold processCmd
  simp [hsrc, hdst, hpan, hresp, hwr, hrec, written_setPeer]

end Spine.Disp
