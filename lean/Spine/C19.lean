import Spine.IsRnd
import Spine.FloatL
import Mathlib.Tactic.Zify

/-! C19 (repaired code): `Round(v * 10^n)` recovers `j` from the double `v` nearest to `j / 10^n` -/
namespace Spine.Rnd

theorem isRnd_neg (n d m E : Nat) (h : IsRnd n d m (-(E : Int))) :
    2 ^ 52 ≤ m ∧ 2 * (m * d) ≤ 2 * (n * 2 ^ E) + d ∧ 2 * (n * 2 ^ E) ≤ 2 * (m * d) + d := by
  unfold IsRnd at h
  simp only [neg_neg, Int.toNat_natCast, Int.toNat_neg_natCast, pow_zero, mul_one] at h
  exact ⟨h.1, h.2.2.1, h.2.2.2.1⟩

/-- math.Round of the positive double m' * 2^-E', as an integer -/
def roundHalfUp (m' E' : Nat) : Nat := (2 * m' + 2 ^ E') / (2 * 2 ^ E')

/-- for 0 < j < 2^50 and any T ≥ 1 (in the code T = 10^n, n ≤ 4): if `m * 2^-E` is the double nearest to j/T and
    `m' * 2^-E'` the double nearest to that double times T, then rounding the latter to an integer gives j -/
theorem c19_round_recovers (j T m m' E E' : Nat) (hj : 0 < j) (hjb : j < 2 ^ 50) (hT : 1 ≤ T)
    (h1 : IsRnd j T m (-(E : Int))) (h2 : IsRnd (m * T) (2 ^ E) m' (-(E' : Int))) :
    roundHalfUp m' E' = j := by
  obtain ⟨hm, h1a, h1b⟩ := isRnd_neg j T m E h1
  obtain ⟨hm', h2a, h2b⟩ := isRnd_neg (m * T) (2 ^ E) m' E' h2
  have hapos : (0 : ℤ) < (2 : ℤ) ^ E := by positivity
  have hbpos : (0 : ℤ) < (2 : ℤ) ^ E' := by positivity
  have key := Spine.FloatL.two_roundings (j : ℤ) (T : ℤ) (m : ℤ) (m' : ℤ) ((2 : ℤ) ^ E) ((2 : ℤ) ^ E')
    (by exact_mod_cast hj) (by exact_mod_cast hjb) (by exact_mod_cast hT) hapos hbpos
    (by exact_mod_cast hm) (by exact_mod_cast hm')
    (by
      have ha : (2 * (m * T) : ℤ) ≤ 2 * (j * 2 ^ E) + T := by exact_mod_cast h1a
      have hb : (2 * (j * 2 ^ E) : ℤ) ≤ 2 * (m * T) + T := by exact_mod_cast h1b
      rw [show (2 : ℤ) * |(m : ℤ) * T - j * 2 ^ E| = |2 * ((m : ℤ) * T - j * 2 ^ E)| by
        rw [abs_mul]; norm_num]
      rw [abs_le]; constructor <;> linarith)
    (by
      have ha : (2 * (m' * 2 ^ E) : ℤ) ≤ 2 * (m * T * 2 ^ E') + 2 ^ E := by exact_mod_cast h2a
      have hb : (2 * (m * T * 2 ^ E') : ℤ) ≤ 2 * (m' * 2 ^ E) + 2 ^ E := by exact_mod_cast h2b
      rw [show (2 : ℤ) * |(m' : ℤ) * 2 ^ E - m * T * 2 ^ E'| = |2 * ((m' : ℤ) * 2 ^ E - m * T * 2 ^ E')| by
        rw [abs_mul]; norm_num]
      rw [abs_le]; constructor <;> linarith)
  -- 2 |m' - j b| < b  ⇒  j b ≤ (2 m' + b) / 2 < (j + 1) b
  rw [show (2 : ℤ) * |(m' : ℤ) - j * 2 ^ E'| = |2 * ((m' : ℤ) - j * 2 ^ E')| by rw [abs_mul]; norm_num] at key
  rw [abs_lt] at key
  obtain ⟨k1, k2⟩ := key
  have hb0 : 0 < 2 * 2 ^ E' := by positivity
  unfold roundHalfUp
  apply Nat.div_eq_of_lt_le
  · zify; push_cast; nlinarith
  · zify; push_cast; nlinarith

end Spine.Rnd
