import Spine.IsRnd
import Spine.FloatL
import Mathlib.Tactic.Zify

/-! C19, lemmas over the rounding relation `IsRnd` (the only C19 file besides `FloatL.lean` that uses
    Mathlib tactics; never imported by a driver):
    * `isRnd_unique` — the relation is functional (a rational has one nearest double);
    * `isRnd_congr` — it depends on the rational only, not on the fraction that denotes it;
    * `decimal_unique` — two decimals with the same denominator that round to the same double are equal
      (numerator below 2^50);
    * `isRnd_exp_neg`, `nearest_recovers` — the decimals search finds `k` again;
    * `c19_round_recovers` — (repaired code) `Round(v * 10^n)` recovers `j` from the double `v` nearest
      to `j / 10^n`;
    * `isRnd_exp_nonpos`, `round_close`, `trunc_close` — `Round` / `Trunc` of a correctly rounded product
      below 2^53 is within one unit of the exact product. -/
namespace Spine.Rnd

/-- two candidates in different binades cannot both be nearest -/
theorem exp_unique_aux (n d m m' a b a' b' K : ℤ) (hd : 0 < d) (ha : 0 < a) (hb : 0 < b)
    (ha' : 0 < a') (_hb' : 0 < b') (hK : 2 ≤ K) (hrel : b' * a = K * b * a')
    (hm53 : m < 2 ^ 53) (hm' : 2 ^ 52 ≤ m')
    (up : 2 * (n * a) ≤ 2 * (m * (d * b)) + d * b)
    (tie : 2 * (n * a) = 2 * (m * (d * b)) + d * b → m % 2 = 0)
    (lo' : 2 * (m' * (d * b')) ≤ 2 * (n * a') + d * b')
    (q' : m' = 2 ^ 52 → 4 * (m' * (d * b')) ≤ 4 * (n * a') + d * b') : False := by
  have hP : 0 < d * b * a' := by positivity
  have e1 : d * b' * a = K * (d * b * a') := by
    calc d * b' * a = d * (b' * a) := by ring
      _ = d * (K * b * a') := by rw [hrel]
      _ = K * (d * b * a') := by ring
  -- B: 2 X ≤ (2m+1) P  with X = n a a'
  have hB : 2 * (n * a * a') ≤ (2 * m + 1) * (d * b * a') := by
    have := mul_le_mul_of_nonneg_right up ha'.le
    nlinarith
  rcases eq_or_lt_of_le hm' with h52 | hgt
  · -- m' = 2^52
    have hq := q' h52.symm
    have hA : (4 * m' - 1) * (K * (d * b * a')) ≤ 4 * (n * a * a') := by
      have := mul_le_mul_of_nonneg_right hq ha.le
      rw [← e1]
      nlinarith
    -- (2^54 - 1) K P ≤ 4 X ≤ 2 (2m+1) P
    have hKP : (2 ^ 54 - 1) * (K * (d * b * a')) ≤ (4 * m + 2) * (d * b * a') := by
      rw [← h52] at hA
      nlinarith
    have hK2 : (2 ^ 54 - 1) * K ≤ 4 * m + 2 := by
      by_contra hcon
      rw [not_le] at hcon
      have : (4 * m + 2) * (d * b * a') < (2 ^ 54 - 1) * K * (d * b * a') :=
        mul_lt_mul_of_pos_right hcon hP
      nlinarith
    -- K = 2 and m = 2^53 - 1
    have hKeq : K = 2 := by nlinarith
    have hmeq : m = 2 ^ 53 - 1 := by subst hKeq; omega
    -- all tight: tie for (m, e)
    have htie : 2 * (n * a) = 2 * (m * (d * b)) + d * b := by
      subst hKeq
      have h1 : (2 ^ 54 - 1) * (2 * (d * b * a')) ≤ 4 * (n * a * a') := by rw [← h52] at hA; linarith
      have h2 : 4 * (n * a * a') ≤ 2 * ((2 * m + 1) * (d * b * a')) := by linarith
      have h3 : 2 * (n * a * a') = (2 * m + 1) * (d * b * a') := by rw [hmeq] at h2 ⊢; linarith
      have h4 : (2 * (n * a)) * a' = (2 * (m * (d * b)) + d * b) * a' := by nlinarith
      exact mul_right_cancel₀ ha'.ne' h4
    have := tie htie
    rw [hmeq] at this
    norm_num at this
  · -- m' ≥ 2^52 + 1
    have hA : (2 * m' - 1) * (K * (d * b * a')) ≤ 2 * (n * a * a') := by
      have := mul_le_mul_of_nonneg_right lo' ha.le
      rw [← e1]
      nlinarith
    have h1 : (2 * m' - 1) * (K * (d * b * a')) ≤ (2 * m + 1) * (d * b * a') := by linarith
    have h2 : (2 ^ 53 + 1) * (2 * (d * b * a')) ≤ (2 * m' - 1) * (K * (d * b * a')) := by
      apply mul_le_mul
      · linarith
      · nlinarith
      · positivity
      · linarith
    nlinarith

/-- the relation in integer form, with the two scale factors named -/
theorem isRnd_int {n d m : ℕ} {e : ℤ} (h : IsRnd n d m e) :
    (2 : ℤ) ^ 52 ≤ m ∧ (m : ℤ) < 2 ^ 53 ∧
    2 * ((m : ℤ) * (d * 2 ^ e.toNat)) ≤ 2 * (n * 2 ^ (-e).toNat) + d * 2 ^ e.toNat ∧
    2 * ((n : ℤ) * 2 ^ (-e).toNat) ≤ 2 * (m * (d * 2 ^ e.toNat)) + d * 2 ^ e.toNat ∧
    ((2 * ((m : ℤ) * (d * 2 ^ e.toNat)) = 2 * (n * 2 ^ (-e).toNat) + d * 2 ^ e.toNat ∨
      2 * ((n : ℤ) * 2 ^ (-e).toNat) = 2 * (m * (d * 2 ^ e.toNat)) + d * 2 ^ e.toNat) → (m : ℤ) % 2 = 0) ∧
    ((m : ℤ) = 2 ^ 52 → 4 * ((m : ℤ) * (d * 2 ^ e.toNat)) ≤ 4 * (n * 2 ^ (-e).toNat) + d * 2 ^ e.toNat) := by
  unfold IsRnd at h
  obtain ⟨h1, h2, h3, h4, h5, h6⟩ := h
  refine ⟨by exact_mod_cast h1, by exact_mod_cast h2, by exact_mod_cast h3, by exact_mod_cast h4, ?_, ?_⟩
  · intro ht
    have : m % 2 = 0 := h5 (by
      rcases ht with ht | ht
      · left; exact_mod_cast ht
      · right; exact_mod_cast ht)
    omega
  · intro hm
    have hm' : m = 2 ^ 52 := by exact_mod_cast hm
    exact_mod_cast h6 hm'

theorem two_pow_rel (e e' : ℤ) (h : e < e') :
    (2 : ℤ) ^ e'.toNat * 2 ^ (-e).toNat = 2 ^ (e' - e).toNat * 2 ^ e.toNat * 2 ^ (-e').toNat := by
  rw [← pow_add, ← pow_add, ← pow_add]
  congr 1
  omega

theorem isRnd_exp_lt_false {n d m m' : ℕ} {e e' : ℤ} (hd : 0 < d) (h : IsRnd n d m e)
    (h' : IsRnd n d m' e') (hlt : e < e') : False := by
  obtain ⟨_, h2, _, h4, h5, _⟩ := isRnd_int h
  obtain ⟨g1, _, g3, _, _, g6⟩ := isRnd_int h'
  have hK : (2 : ℤ) ≤ 2 ^ (e' - e).toNat := by
    have : 1 ≤ (e' - e).toNat := by omega
    calc (2 : ℤ) = 2 ^ 1 := by norm_num
      _ ≤ 2 ^ (e' - e).toNat := pow_le_pow_right₀ (by norm_num) this
  exact exp_unique_aux n d m m' (2 ^ (-e).toNat) (2 ^ e.toNat) (2 ^ (-e').toNat) (2 ^ e'.toNat)
    (2 ^ (e' - e).toNat) (by exact_mod_cast hd) (by positivity) (by positivity) (by positivity)
    (by positivity) hK (two_pow_rel e e' hlt) h2 g1 h4 (fun ht => h5 (Or.inr ht)) g3 g6

/-- the rounding relation is functional: a rational has one nearest double -/
theorem isRnd_unique {n d m m' : ℕ} {e e' : ℤ} (hd : 0 < d) (h : IsRnd n d m e)
    (h' : IsRnd n d m' e') : m = m' ∧ e = e' := by
  rcases lt_trichotomy e e' with hlt | heq | hgt
  · exact (isRnd_exp_lt_false hd h h' hlt).elim
  · subst heq
    refine ⟨?_, rfl⟩
    obtain ⟨_, _, h3, h4, h5, _⟩ := isRnd_int h
    obtain ⟨_, _, g3, g4, g5, _⟩ := isRnd_int h'
    have hD : (0 : ℤ) < d * 2 ^ e.toNat := by
      have : (0 : ℤ) < d := by exact_mod_cast hd
      positivity
    generalize (d : ℤ) * 2 ^ e.toNat = D at *
    generalize (n : ℤ) * 2 ^ (-e).toNat = N at *
    have hle : (m : ℤ) ≤ m' + 1 := by
      by_contra hcon
      rw [not_le] at hcon
      have : ((m' : ℤ) + 2) * D ≤ m * D := mul_le_mul_of_nonneg_right (by linarith) hD.le
      nlinarith
    have hge : (m' : ℤ) ≤ m + 1 := by
      by_contra hcon
      rw [not_le] at hcon
      have : ((m : ℤ) + 2) * D ≤ m' * D := mul_le_mul_of_nonneg_right (by linarith) hD.le
      nlinarith
    have hcases : (m : ℤ) = m' ∨ (m : ℤ) = m' + 1 ∨ (m' : ℤ) = m + 1 := by omega
    rcases hcases with hc | hc | hc
    · exact_mod_cast hc
    · exfalso
      have e1 : 2 * ((m : ℤ) * D) = 2 * N + D := by rw [hc] at h3 ⊢; nlinarith
      have e2 : 2 * N = 2 * ((m' : ℤ) * D) + D := by rw [hc] at h3; nlinarith
      have p1 := h5 (Or.inl e1)
      have p2 := g5 (Or.inr e2)
      omega
    · exfalso
      have e1 : 2 * ((m' : ℤ) * D) = 2 * N + D := by rw [hc] at g3 ⊢; nlinarith
      have e2 : 2 * N = 2 * ((m : ℤ) * D) + D := by rw [hc] at g3; nlinarith
      have p1 := g5 (Or.inl e1)
      have p2 := h5 (Or.inr e2)
      omega
  · exact (isRnd_exp_lt_false hd h' h hgt).elim

theorem scale_le {n d n' d' : ℕ} (hd : 0 < d) (hq : n * d' = n' * d) (x y m A B : ℕ)
    (h : x * (m * (d * B)) ≤ y * (n * A) + d * B) : x * (m * (d' * B)) ≤ y * (n' * A) + d' * B := by
  apply Nat.le_of_mul_le_mul_left _ hd
  calc d * (x * (m * (d' * B))) = d' * (x * (m * (d * B))) := by ring
    _ ≤ d' * (y * (n * A) + d * B) := Nat.mul_le_mul_left _ h
    _ = y * (n * d' * A) + d * (d' * B) := by ring
    _ = y * (n' * d * A) + d * (d' * B) := by rw [hq]
    _ = d * (y * (n' * A) + d' * B) := by ring

theorem scale_ge {n d n' d' : ℕ} (hd : 0 < d) (hq : n * d' = n' * d) (x y m A B : ℕ)
    (h : y * (n * A) ≤ x * (m * (d * B)) + d * B) : y * (n' * A) ≤ x * (m * (d' * B)) + d' * B := by
  apply Nat.le_of_mul_le_mul_left _ hd
  calc d * (y * (n' * A)) = y * (n' * d * A) := by ring
    _ = y * (n * d' * A) := by rw [hq]
    _ = d' * (y * (n * A)) := by ring
    _ ≤ d' * (x * (m * (d * B)) + d * B) := Nat.mul_le_mul_left _ h
    _ = d * (x * (m * (d' * B)) + d' * B) := by ring

theorem scale_eq1 {n d n' d' : ℕ} (hd : 0 < d) (hq : n * d' = n' * d) (x y m A B : ℕ)
    (h : x * (m * (d * B)) = y * (n * A) + d * B) : x * (m * (d' * B)) = y * (n' * A) + d' * B := by
  apply Nat.eq_of_mul_eq_mul_left hd
  calc d * (x * (m * (d' * B))) = d' * (x * (m * (d * B))) := by ring
    _ = d' * (y * (n * A) + d * B) := by rw [h]
    _ = y * (n * d' * A) + d * (d' * B) := by ring
    _ = y * (n' * d * A) + d * (d' * B) := by rw [hq]
    _ = d * (y * (n' * A) + d' * B) := by ring

theorem scale_eq2 {n d n' d' : ℕ} (hd : 0 < d) (hq : n * d' = n' * d) (x y m A B : ℕ)
    (h : y * (n * A) = x * (m * (d * B)) + d * B) : y * (n' * A) = x * (m * (d' * B)) + d' * B := by
  apply Nat.eq_of_mul_eq_mul_left hd
  calc d * (y * (n' * A)) = y * (n' * d * A) := by ring
    _ = y * (n * d' * A) := by rw [hq]
    _ = d' * (y * (n * A)) := by ring
    _ = d' * (x * (m * (d * B)) + d * B) := by rw [h]
    _ = d * (x * (m * (d' * B)) + d' * B) := by ring

/-- the relation depends on the rational `n / d` only -/
theorem isRnd_congr {n d n' d' m : ℕ} {e : ℤ} (hd : 0 < d) (hd' : 0 < d') (hq : n * d' = n' * d)
    (h : IsRnd n d m e) : IsRnd n' d' m e := by
  unfold IsRnd at h ⊢
  obtain ⟨h1, h2, h3, h4, h5, h6⟩ := h
  simp only at h3 h4 h5 h6 ⊢
  refine ⟨h1, h2, scale_le hd hq 2 2 m _ _ h3, scale_ge hd hq 2 2 m _ _ h4, ?_, ?_⟩
  · intro ht
    apply h5
    rcases ht with ht | ht
    · exact Or.inl (scale_eq1 hd' hq.symm 2 2 m _ _ ht)
    · exact Or.inr (scale_eq2 hd' hq.symm 2 2 m _ _ ht)
  · intro hm
    exact scale_le hd hq 4 4 m _ _ (h6 hm)

/-- two decimals with the same denominator that round to the same double are equal, as long as the
    doubles are spaced closer than the decimals (`k < 2^50`) -/
theorem decimal_unique {j k S m : ℕ} {e : ℤ} (hS : 0 < S) (hk : k < 2 ^ 50)
    (hj : IsRnd j S m e) (hk' : IsRnd k S m e) : j = k := by
  obtain ⟨h1, _, h3, h4, _, _⟩ := isRnd_int hk'
  obtain ⟨_, _, g3, g4, _, _⟩ := isRnd_int hj
  have ha : (0 : ℤ) < 2 ^ (-e).toNat := by positivity
  have hSb : (0 : ℤ) < S * 2 ^ e.toNat := by
    have : (0 : ℤ) < S := by exact_mod_cast hS
    positivity
  have hkz : (k : ℤ) < 2 ^ 50 := by exact_mod_cast hk
  generalize (S : ℤ) * 2 ^ e.toNat = D at *
  generalize (2 : ℤ) ^ (-e).toNat = a at *
  -- D < a
  have hDa : D < a := by
    have h5 : (2 * (m : ℤ) - 1) * D ≤ 2 * ((k : ℤ) * a) := by nlinarith
    have h6 : (2 ^ 53 - 1) * D ≤ (2 * (m : ℤ) - 1) * D := mul_le_mul_of_nonneg_right (by linarith) hSb.le
    have h7 : 2 * ((k : ℤ) * a) ≤ (2 ^ 51 - 2) * a := by nlinarith
    nlinarith
  have h8 : ((j : ℤ) - k) * a ≤ D := by nlinarith
  have h9 : ((k : ℤ) - j) * a ≤ D := by nlinarith
  have : (j : ℤ) = k := by
    by_contra hne
    rcases lt_or_gt_of_ne hne with hlt | hgt
    · have : a ≤ ((k : ℤ) - j) * a := by nlinarith
      linarith
    · have : a ≤ ((j : ℤ) - k) * a := by nlinarith
      linarith
  exact_mod_cast this

/-- the double nearest to `k / T` (0 < k < 2^50) has a negative exponent -/
theorem isRnd_exp_neg {n d m : ℕ} {e : ℤ} (hd : 0 < d) (hn : n < 2 ^ 51 * d) (h : IsRnd n d m e) : e < 0 := by
  by_contra hcon
  have he : 0 ≤ e := by omega
  obtain ⟨h1, _, h3, _, _, _⟩ := isRnd_int h
  have hz : (-e).toNat = 0 := by omega
  rw [hz, pow_zero, mul_one] at h3
  have hb : (1 : ℤ) ≤ 2 ^ e.toNat := one_le_pow₀ (by norm_num)
  have hdz : (0 : ℤ) < d := by exact_mod_cast hd
  have hnz : (n : ℤ) < 2 ^ 51 * d := by exact_mod_cast hn
  have hD : (d : ℤ) ≤ d * 2 ^ e.toNat := by nlinarith
  have : (2 ^ 53 - 1) * ((d : ℤ) * 2 ^ e.toNat) ≤ 2 * n := by nlinarith
  nlinarith

/-- the integer nearest to `v * T` is `k` when `v` is the double nearest to `k / T`, `0 < k < 2^50` -/
theorem nearest_recovers (k T m E : ℕ) (hk : k < 2 ^ 50) (hT : 1 ≤ T)
    (h : IsRnd k T m (-(E : ℤ))) : (2 * (m * T) + 2 ^ E) / (2 * 2 ^ E) = k := by
  obtain ⟨h1, _, h3, h4, _, _⟩ := isRnd_int h
  simp only [neg_neg, Int.toNat_natCast, Int.toNat_neg_natCast, pow_zero, mul_one] at h3 h4
  have hTz : (1 : ℤ) ≤ T := by exact_mod_cast hT
  have hkz : (k : ℤ) < 2 ^ 50 := by exact_mod_cast hk
  have ha : (0 : ℤ) < 2 ^ E := by positivity
  -- 4 T < a = 2^E
  have haT : 4 * (T : ℤ) < 2 ^ E := by
    have h5 : (2 ^ 53 - 1) * (T : ℤ) ≤ 2 * ((k : ℤ) * 2 ^ E) := by nlinarith
    have h6 : 2 * ((k : ℤ) * 2 ^ E) ≤ (2 ^ 51 - 2) * 2 ^ E := by nlinarith
    by_contra hcon
    rw [not_lt] at hcon
    nlinarith
  apply Nat.div_eq_of_lt_le
  · zify; nlinarith
  · zify; nlinarith

theorem isRnd_neg (n d m E : Nat) (h : IsRnd n d m (-(E : Int))) :
    2 ^ 52 ≤ m ∧ 2 * (m * d) ≤ 2 * (n * 2 ^ E) + d ∧ 2 * (n * 2 ^ E) ≤ 2 * (m * d) + d := by
  unfold IsRnd at h
  simp only [neg_neg, Int.toNat_natCast, Int.toNat_neg_natCast, pow_zero, mul_one] at h
  exact ⟨h.1, h.2.2.1, h.2.2.2.1⟩

/-- math.Round of the positive double m' * 2^-E', as an integer -/
def roundHalfUp (m' E' : Nat) : Nat := (2 * m' + 2 ^ E') / (2 * 2 ^ E')

/-- for 0 < j < 2^50 and any T ≥ 1 (in the code T = 10^n, n ≤ 4): if `m * 2^-E` is the double nearest to j/T and
    `m' * 2^-E'` the double nearest to that double times T, then rounding the latter to an integer gives j -/
theorem c19_round_recovers (j T m m' E E' : Nat) (hj : 0 < j) (hjb : j < 2 ^ 50) (hT : 1 ≤ T)
    (h1 : IsRnd j T m (-(E : Int))) (h2 : IsRnd (m * T) (2 ^ E) m' (-(E' : Int))) :
    roundHalfUp m' E' = j := by
  obtain ⟨hm, h1a, h1b⟩ := isRnd_neg j T m E h1
  obtain ⟨hm', h2a, h2b⟩ := isRnd_neg (m * T) (2 ^ E) m' E' h2
  have hapos : (0 : ℤ) < (2 : ℤ) ^ E := by positivity
  have hbpos : (0 : ℤ) < (2 : ℤ) ^ E' := by positivity
  have key := Spine.FloatL.two_roundings (j : ℤ) (T : ℤ) (m : ℤ) (m' : ℤ) ((2 : ℤ) ^ E) ((2 : ℤ) ^ E')
    (by exact_mod_cast hj) (by exact_mod_cast hjb) (by exact_mod_cast hT) hapos hbpos
    (by exact_mod_cast hm) (by exact_mod_cast hm')
    (by
      have ha : (2 * (m * T) : ℤ) ≤ 2 * (j * 2 ^ E) + T := by exact_mod_cast h1a
      have hb : (2 * (j * 2 ^ E) : ℤ) ≤ 2 * (m * T) + T := by exact_mod_cast h1b
      rw [show (2 : ℤ) * |(m : ℤ) * T - j * 2 ^ E| = |2 * ((m : ℤ) * T - j * 2 ^ E)| by
        rw [abs_mul]; norm_num]
      rw [abs_le]; constructor <;> linarith)
    (by
      have ha : (2 * (m' * 2 ^ E) : ℤ) ≤ 2 * (m * T * 2 ^ E') + 2 ^ E := by exact_mod_cast h2a
      have hb : (2 * (m * T * 2 ^ E') : ℤ) ≤ 2 * (m' * 2 ^ E) + 2 ^ E := by exact_mod_cast h2b
      rw [show (2 : ℤ) * |(m' : ℤ) * 2 ^ E - m * T * 2 ^ E'| = |2 * ((m' : ℤ) * 2 ^ E - m * T * 2 ^ E')| by
        rw [abs_mul]; norm_num]
      rw [abs_le]; constructor <;> linarith)
  -- 2 |m' - j b| < b  ⇒  j b ≤ (2 m' + b) / 2 < (j + 1) b
  rw [show (2 : ℤ) * |(m' : ℤ) - j * 2 ^ E'| = |2 * ((m' : ℤ) - j * 2 ^ E')| by rw [abs_mul]; norm_num] at key
  rw [abs_lt] at key
  obtain ⟨k1, k2⟩ := key
  have hb0 : 0 < 2 * 2 ^ E' := by positivity
  unfold roundHalfUp
  apply Nat.div_eq_of_lt_le
  · zify; push_cast; nlinarith
  · zify; push_cast; nlinarith

/-- a rational of at most 2^53 - 1 rounds to a double with non-positive exponent -/
theorem isRnd_exp_nonpos {n d m : ℕ} {e : ℤ} (hd : 0 < d) (hn : n + d ≤ 2 ^ 53 * d)
    (h : IsRnd n d m e) : e ≤ 0 := by
  by_contra hcon
  have he : 1 ≤ e := by omega
  obtain ⟨h1, _, h3, _, _, h6⟩ := isRnd_int h
  have hz : (-e).toNat = 0 := by omega
  rw [hz, pow_zero, mul_one] at h3 h6
  have hb : (2 : ℤ) ≤ 2 ^ e.toNat := by
    have : 1 ≤ e.toNat := by omega
    calc (2 : ℤ) = 2 ^ 1 := by norm_num
      _ ≤ 2 ^ e.toNat := pow_le_pow_right₀ (by norm_num) this
  have hdz : (0 : ℤ) < d := by exact_mod_cast hd
  have hnz : (n : ℤ) + d ≤ 2 ^ 53 * d := by exact_mod_cast hn
  have hD : (0 : ℤ) < d * 2 ^ e.toNat := by positivity
  have hD2 : 2 * (d : ℤ) ≤ d * 2 ^ e.toNat := by nlinarith
  generalize (d : ℤ) * 2 ^ e.toNat = D at *
  rcases eq_or_lt_of_le h1 with h52 | hgt
  · have := h6 h52.symm
    rw [← h52] at this
    nlinarith
  · have : (2 ^ 52 + 1) * D ≤ (m : ℤ) * D := mul_le_mul_of_nonneg_right (by linarith) hD.le
    nlinarith

/-- `math.Round` of the correctly rounded product is within one unit of the exact product -/
theorem round_close (N m' E E' : ℕ) (h : IsRnd N (2 ^ E) m' (-(E' : ℤ))) :
    roundHalfUp m' E' * 2 ^ E ≤ N + 2 ^ E ∧ N ≤ roundHalfUp m' E' * 2 ^ E + 2 ^ E := by
  obtain ⟨_, h3, h4⟩ := isRnd_neg N (2 ^ E) m' E' h
  unfold roundHalfUp
  have hY : 0 < 2 * 2 ^ E' := by positivity
  have f1 := Nat.div_mul_le_self (2 * m' + 2 ^ E') (2 * 2 ^ E')
  have f2 := Nat.lt_div_mul_add (a := 2 * m' + 2 ^ E') hY
  generalize (2 * m' + 2 ^ E') / (2 * 2 ^ E') = q at *
  have hA : 0 < 2 ^ E := by positivity
  have hB : 1 ≤ 2 ^ E' := Nat.one_le_two_pow
  constructor
  · apply Nat.le_of_mul_le_mul_right (c := 2 * 2 ^ E') _ hY
    zify at *
    nlinarith
  · apply Nat.le_of_mul_le_mul_right (c := 2 * 2 ^ E') _ hY
    zify at *
    nlinarith

/-- `math.Trunc` of the correctly rounded product is less than one unit away from the exact product -/
theorem trunc_close (N m' E E' : ℕ) (h : IsRnd N (2 ^ E) m' (-(E' : ℤ))) :
    m' / 2 ^ E' * 2 ^ E < N + 2 ^ E ∧ N < m' / 2 ^ E' * 2 ^ E + 2 ^ E := by
  obtain ⟨_, h3, h4⟩ := isRnd_neg N (2 ^ E) m' E' h
  have hY : 0 < 2 ^ E' := by positivity
  have f1 := Nat.div_mul_le_self m' (2 ^ E')
  have f2 := Nat.lt_div_mul_add (a := m') hY
  generalize m' / 2 ^ E' = q at *
  have hA : 0 < 2 ^ E := by positivity
  constructor
  · apply Nat.lt_of_mul_lt_mul_right (a := 2 * 2 ^ E')
    zify at *
    nlinarith
  · apply Nat.lt_of_mul_lt_mul_right (a := 2 * 2 ^ E')
    zify at *
    nlinarith

end Spine.Rnd
