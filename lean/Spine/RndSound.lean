import Spine.Num
import Spine.C19
/-! C19: the executable `rnd` of `Spine.Num` (normalisation by bit lengths, quotient and remainder, ties to
    even, carry into the next binade) satisfies the rounding relation `Rnd.IsRnd` for every positive
    rational. Uses Mathlib tactics through `Spine.C19`; not imported by any driver. -/
namespace Spine.Num
open Spine.Rnd


theorem quo_eq (n d : Nat) (e : Int) :
    quo n d e = ((n * 2 ^ (-e).toNat) / (d * 2 ^ e.toNat), (n * 2 ^ (-e).toNat) % (d * 2 ^ e.toNat),
      d * 2 ^ e.toNat) := by
  unfold quo
  by_cases he : e ≥ 0
  · have : (-e).toNat = 0 := by omega
    rw [if_pos he, this, pow_zero, mul_one, Nat.shiftLeft_eq]
  · have : e.toNat = 0 := by omega
    rw [if_neg he, this, pow_zero, mul_one, Nat.shiftLeft_eq]

/-- scaled numerator and denominator at the next exponent: the ratio halves -/
theorem step_rel (n d : Nat) (e : Int) :
    (n * 2 ^ (-e).toNat) * (d * 2 ^ (e + 1).toNat) =
      2 * (n * 2 ^ (-(e + 1)).toNat) * (d * 2 ^ e.toNat) := by
  by_cases he : e ≥ 0
  · have h1 : (-e).toNat = 0 := by omega
    have h2 : (-(e + 1)).toNat = 0 := by omega
    have h3 : (e + 1).toNat = e.toNat + 1 := by omega
    rw [h1, h2, h3, pow_succ]; ring
  · have h1 : e.toNat = 0 := by omega
    have h2 : (e + 1).toNat = 0 := by omega
    have h3 : (-e).toNat = (-(e + 1)).toNat + 1 := by omega
    rw [h1, h2, h3, pow_succ]; ring

theorem range0 (n d bn bd x y : Nat) (hn1 : 2 ^ (bn - 1) ≤ n) (hn2 : n < 2 ^ bn)
    (hd1 : 2 ^ (bd - 1) ≤ d) (hd2 : d < 2 ^ bd) (hbn : 1 ≤ bn) (hbd : 1 ≤ bd)
    (hxy : x + bn = y + bd + 53) :
    2 ^ 52 * (d * 2 ^ y) ≤ n * 2 ^ x ∧ n * 2 ^ x < 2 ^ 54 * (d * 2 ^ y) := by
  constructor
  · calc 2 ^ 52 * (d * 2 ^ y) ≤ 2 ^ 52 * (2 ^ bd * 2 ^ y) :=
          Nat.mul_le_mul_left _ (Nat.mul_le_mul_right _ hd2.le)
      _ = 2 ^ (bn - 1) * 2 ^ x := by
          rw [← pow_add, ← pow_add, ← pow_add]; congr 1; omega
      _ ≤ n * 2 ^ x := Nat.mul_le_mul_right _ hn1
  · calc n * 2 ^ x < 2 ^ bn * 2 ^ x := Nat.mul_lt_mul_of_pos_right hn2 (by positivity)
      _ = 2 ^ 54 * (2 ^ (bd - 1) * 2 ^ y) := by
          rw [← pow_add, ← pow_add, ← pow_add]; congr 1; omega
      _ ≤ 2 ^ 54 * (d * 2 ^ y) := Nat.mul_le_mul_left _ (Nat.mul_le_mul_right _ hd1)

theorem bitLen_spec (n : Nat) (hn : 0 < n) :
    1 ≤ bitLen n ∧ 2 ^ (bitLen n - 1) ≤ n ∧ n < 2 ^ bitLen n := by
  unfold bitLen
  rw [if_neg (by omega)]
  exact ⟨by omega, by simpa using Nat.log2_self_le (by omega), Nat.lt_log2_self⟩

theorem carry_aux (N D N' D' : Nat) (hD : 0 < D) (hD' : 0 < D') (hrel : N * D' = 2 * N' * D)
    (h1 : (2 ^ 54 - 1) * D ≤ 2 * N) (h2 : N < 2 ^ 53 * D) :
    (2 ^ 54 - 1) * D' ≤ 4 * N' ∧ 2 * N' < 2 ^ 53 * D' := by
  constructor
  · apply Nat.le_of_mul_le_mul_right _ hD
    calc (2 ^ 54 - 1) * D' * D = (2 ^ 54 - 1) * D * D' := by ring
      _ ≤ 2 * N * D' := Nat.mul_le_mul_right _ h1
      _ = 2 * (N * D') := by ring
      _ = 4 * N' * D := by rw [hrel]; ring
  · apply Nat.lt_of_mul_lt_mul_right (a := D)
    calc 2 * N' * D = N * D' := hrel.symm
      _ < 2 ^ 53 * D * D' := Nat.mul_lt_mul_of_pos_right h2 hD'
      _ = 2 ^ 53 * D' * D := by ring

/-- the rounding step of `rnd` yields the nearest double, ties to even -/
theorem roundQ_isRnd (n d : Nat) (e : Int) (q r : Nat) (hd : 0 < d)
    (hN : n * 2 ^ (-e).toNat = q * (d * 2 ^ e.toNat) + r) (hr : r < d * 2 ^ e.toNat)
    (hq1 : 2 ^ 52 ≤ q) (hq2 : q < 2 ^ 53) :
    IsRnd n d (roundQ q r (d * 2 ^ e.toNat) e).1 (roundQ q r (d * 2 ^ e.toNat) e).2 := by
  have hD : 0 < d * 2 ^ e.toNat := by positivity
  unfold roundQ p52 p53
  simp only
  by_cases hup : (decide (2 * r > d * 2 ^ e.toNat) || (2 * r == d * 2 ^ e.toNat && q % 2 == 1)) = true
  · rw [if_pos hup]
    simp only [Bool.or_eq_true, decide_eq_true_eq, Bool.and_eq_true, beq_iff_eq] at hup
    by_cases hc : q + 1 = 2 ^ 53
    · -- carry
      rw [if_pos hc]
      simp only
      have hrel := step_rel n d e
      have hD' : 0 < d * 2 ^ (e + 1).toNat := by positivity
      have hq : q = 2 ^ 53 - 1 := by omega
      have hqD : q * (d * 2 ^ e.toNat) = 2 ^ 53 * (d * 2 ^ e.toNat) - d * 2 ^ e.toNat := by
        rw [hq, Nat.sub_mul, one_mul]
      have h1 : (2 ^ 54 - 1) * (d * 2 ^ e.toNat) ≤ 2 * (n * 2 ^ (-e).toNat) := by
        rw [hN, hqD, Nat.sub_mul, one_mul]
        generalize d * 2 ^ e.toNat = D at *
        rcases hup with h | ⟨h, _⟩ <;> omega
      have h2 : n * 2 ^ (-e).toNat < 2 ^ 53 * (d * 2 ^ e.toNat) := by
        rw [hN, hqD]
        generalize d * 2 ^ e.toNat = D at *
        omega
      obtain ⟨c1, c2⟩ := carry_aux _ _ _ _ hD hD' hrel h1 h2
      unfold IsRnd
      simp only
      generalize n * 2 ^ (-(e + 1)).toNat = N' at *
      generalize d * 2 ^ (e + 1).toNat = D' at *
      refine ⟨le_refl _, by norm_num, by omega, by omega, fun _ => by norm_num, fun _ => by omega⟩
    · rw [if_neg hc]
      simp only
      unfold IsRnd
      simp only
      rw [hN]
      generalize d * 2 ^ e.toNat = D at *
      have hqD : (q + 1) * D = q * D + D := by ring
      refine ⟨by omega, by omega, by rw [hqD]; rcases hup with h | ⟨h, _⟩ <;> omega, by rw [hqD]; omega, ?_, fun h => by omega⟩
      rintro (ht | ht)
      · rw [hqD] at ht
        rcases hup with h | ⟨h, hodd⟩
        · omega
        · omega
      · rw [hqD] at ht; omega
  · rw [if_neg hup]
    simp only [Bool.or_eq_true, decide_eq_true_eq, Bool.and_eq_true, beq_iff_eq, not_or, not_and] at hup
    obtain ⟨hle, hodd⟩ := hup
    rw [if_neg (by omega)]
    simp only
    unfold IsRnd
    simp only
    rw [hN]
    generalize d * 2 ^ e.toNat = D at *
    refine ⟨hq1, hq2, by omega, by omega, ?_, fun _ => by omega⟩
    rintro (ht | ht)
    · omega
    · have : 2 * r = D := by omega
      have := hodd this
      omega

/-- the executable `rnd` computes the correctly rounded result: for every rational `n / d > 0` its
    answer is the binary64 nearest to it, ties to even (exponent unbounded) -/
theorem rnd_isRnd (n d : Nat) (hn : 0 < n) (hd : 0 < d) : IsRnd n d (rnd n d).1 (rnd n d).2 := by
  obtain ⟨hbn, hn1, hn2⟩ := bitLen_spec n hn
  obtain ⟨hbd, hd1, hd2⟩ := bitLen_spec d hd
  unfold rnd
  rw [if_neg (by omega)]
  simp only
  generalize he0 : (bitLen n : Int) - (bitLen d : Int) - 53 = e0
  have hxy : (-e0).toNat + bitLen n = e0.toNat + bitLen d + 53 := by omega
  obtain ⟨r1, r2⟩ := range0 n d _ _ _ _ hn1 hn2 hd1 hd2 hbn hbd hxy
  have hD0 : 0 < d * 2 ^ e0.toNat := by positivity
  rw [quo_eq, quo_eq]
  simp only
  by_cases hlt : n * 2 ^ (-e0).toNat / (d * 2 ^ e0.toNat) < p53
  · rw [if_pos hlt]
    apply roundQ_isRnd n d e0 _ _ hd
    · exact (Nat.div_add_mod' _ _).symm
    · exact Nat.mod_lt _ hD0
    · exact (Nat.le_div_iff_mul_le hD0).2 r1
    · exact hlt
  · rw [if_neg hlt]
    have hD1 : 0 < d * 2 ^ (e0 + 1).toNat := by positivity
    have hge : 2 ^ 53 * (d * 2 ^ e0.toNat) ≤ n * 2 ^ (-e0).toNat := by
      have : 2 ^ 53 ≤ n * 2 ^ (-e0).toNat / (d * 2 ^ e0.toNat) := by unfold p53 at hlt; omega
      exact (Nat.le_div_iff_mul_le hD0).1 this
    have hrel := step_rel n d e0
    apply roundQ_isRnd n d (e0 + 1) _ _ hd
    · exact (Nat.div_add_mod' _ _).symm
    · exact Nat.mod_lt _ hD1
    · apply (Nat.le_div_iff_mul_le hD1).2
      apply Nat.le_of_mul_le_mul_right _ (by positivity : 0 < 2 * (d * 2 ^ e0.toNat))
      calc 2 ^ 52 * (d * 2 ^ (e0 + 1).toNat) * (2 * (d * 2 ^ e0.toNat))
          = 2 ^ 53 * (d * 2 ^ e0.toNat) * (d * 2 ^ (e0 + 1).toNat) := by ring
        _ ≤ n * 2 ^ (-e0).toNat * (d * 2 ^ (e0 + 1).toNat) := Nat.mul_le_mul_right _ hge
        _ = n * 2 ^ (-(e0 + 1)).toNat * (2 * (d * 2 ^ e0.toNat)) := by rw [hrel]; ring
    · apply (Nat.div_lt_iff_lt_mul hD1).2
      apply Nat.lt_of_mul_lt_mul_right (a := 2 * (d * 2 ^ e0.toNat))
      calc n * 2 ^ (-(e0 + 1)).toNat * (2 * (d * 2 ^ e0.toNat))
          = n * 2 ^ (-e0).toNat * (d * 2 ^ (e0 + 1).toNat) := by rw [hrel]; ring
        _ < 2 ^ 54 * (d * 2 ^ e0.toNat) * (d * 2 ^ (e0 + 1).toNat) := Nat.mul_lt_mul_of_pos_right r2 hD1
        _ = 2 ^ 53 * (d * 2 ^ (e0 + 1).toNat) * (2 * (d * 2 ^ e0.toNat)) := by ring

/-- the executable `rnd` computes the correctly rounded result -/
def RndSound : Prop := ∀ n d : Nat, 0 < n → 0 < d → IsRnd n d (rnd n d).1 (rnd n d).2

theorem rnd_sound : RndSound := rnd_isRnd

end Spine.Num
