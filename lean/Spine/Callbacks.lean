/-! Response callbacks of FeatureLocal (AddResponseCallback, processResponseMsgCallbacks) as events.
    Feature 0 stands for node management. `nmReplySkips` = as written, node management handles replies itself and
    never looks at the callbacks. -/
namespace Spine.CB

structure Reg where
  id : Nat             -- registration
  feat : Nat
  ctr : Nat
  cb : Nat             -- identity of the function (its code pointer)
deriving DecidableEq, Repr

structure St where
  next : Nat := 0
  regs : List Reg := []
  fired : List (Nat × Nat) := []     -- (registration, arrival) in invocation order

inductive Ev
  | register (feat ctr cb : Nat)
  | arrive (arrival feat ref : Nat) (reply : Bool) (accepted : Bool)   -- an accepted reply, or a result, referencing `ref`

def step (nmReplySkips : Bool) (s : St) : Ev → St
  | .register f c cb =>
    if s.regs.any (fun r => r.feat = f && r.ctr = c && r.cb = cb) then s     -- "callback already set"
    else { s with next := s.next + 1, regs := s.regs ++ [⟨s.next, f, c, cb⟩] }
  | .arrive a f ref reply accepted =>
    if !accepted || (nmReplySkips && f = 0 && reply) then s else
    { s with fired := s.fired ++ ((s.regs.filter fun r => r.feat = f && r.ctr = ref).map fun r => (r.id, a)),
             regs := s.regs.filter fun r => !(r.feat = f && r.ctr = ref) }

def run (b : Bool) (evs : List Ev) : St := evs.foldl (step b) {}

/-- as written: a callback registered on node management for counter 1 is not invoked by the reply -/
theorem nm_reply_witness : (run true [.register 0 1 7, .arrive 100 0 1 true true]).fired = [] := by decide

/-- repaired: it is -/
example : (run false [.register 0 1 7, .arrive 100 0 1 true true]).fired = [(0, 100)] := by decide

structure Inv (s : St) : Prop where
  fresh : ∀ r ∈ s.regs, r.id < s.next
  firedLt : ∀ x ∈ s.fired, x.1 < s.next
  regNodup : (s.regs.map (·.id)).Nodup
  firedNodup : (s.fired.map (·.1)).Nodup
  disjoint : ∀ r ∈ s.regs, r.id ∉ s.fired.map (·.1)

theorem eq_of_nodup_map {α β} (f : α → β) : ∀ (l : List α), (l.map f).Nodup →
    ∀ x ∈ l, ∀ y ∈ l, f x = f y → x = y
  | [], _, _, hx, _, _, _ => by cases hx
  | a :: l, hnd, x, hx, y, hy, hf => by
    simp only [List.map_cons, List.nodup_cons, List.mem_map, not_exists, not_and] at hnd
    rcases List.mem_cons.mp hx with rfl | hx' <;> rcases List.mem_cons.mp hy with rfl | hy'
    · rfl
    · exact absurd hf.symm (hnd.1 y hy')
    · exact absurd hf (hnd.1 x hx')
    · exact eq_of_nodup_map f l hnd.2 x hx' y hy' hf

theorem count_le_one_of_nodup : ∀ (l : List Nat) (a : Nat), l.Nodup → l.count a ≤ 1
  | [], _, _ => by simp
  | x :: xs, a, h => by
    have ⟨h1, h2⟩ := List.nodup_cons.mp h
    simp only [List.count_cons]
    by_cases hx : x = a
    · subst hx
      have : xs.count x = 0 := List.count_eq_zero.mpr h1
      simp [this]
    · have : (x == a) = false := by simpa using hx
      simp only [this, Bool.false_eq_true, if_false, Nat.add_zero]
      exact count_le_one_of_nodup xs a h2

theorem step_inv (b : Bool) (s : St) (ev : Ev) (h : Inv s) : Inv (step b s ev) := by
  cases ev with
  | register f c cb =>
    simp only [step]
    split
    · exact h
    · refine ⟨?_, fun x hx => Nat.lt_succ_of_lt (h.firedLt x hx), ?_, h.firedNodup, ?_⟩
      · intro r hr
        rcases List.mem_append.mp hr with hr | hr
        · exact Nat.lt_succ_of_lt (h.fresh r hr)
        · simp only [List.mem_singleton] at hr; subst hr; exact Nat.lt_succ_self _
      · simp only [List.map_append, List.map_cons, List.map_nil]
        rw [List.nodup_append]
        refine ⟨h.regNodup, by simp, ?_⟩
        intro a ha b' hb
        simp only [List.mem_singleton] at hb; subst hb
        obtain ⟨r, hr, rfl⟩ := List.mem_map.mp ha
        have := h.fresh r hr
        omega
      · intro r hr
        rcases List.mem_append.mp hr with hr | hr
        · exact h.disjoint r hr
        · simp only [List.mem_singleton] at hr; subst hr
          intro hm
          obtain ⟨x, hx, hxe⟩ := List.mem_map.mp hm
          have := h.firedLt x hx
          simp only at hxe; omega
  | arrive a f ref reply accepted =>
    simp only [step]
    split
    · exact h
    · have hsubF : (s.regs.filter fun r => decide (r.feat = f) && decide (r.ctr = ref)).Sublist s.regs := List.filter_sublist
      have hsubK : (s.regs.filter fun r => !(decide (r.feat = f) && decide (r.ctr = ref))).Sublist s.regs := List.filter_sublist
      refine ⟨fun r hr => h.fresh r (hsubK.subset hr), ?_, (hsubK.map _).nodup h.regNodup, ?_, ?_⟩
      · intro x hx
        rcases List.mem_append.mp hx with hx | hx
        · exact h.firedLt x hx
        · obtain ⟨r, hr, rfl⟩ := List.mem_map.mp hx
          exact h.fresh r (hsubF.subset hr)
      · simp only [List.map_append, List.map_map]
        rw [List.nodup_append]
        refine ⟨h.firedNodup, ?_, ?_⟩
        · have : ((s.regs.filter fun r => decide (r.feat = f) && decide (r.ctr = ref)).map
              ((fun x : Nat × Nat => x.1) ∘ fun r => (r.id, a))) =
              (s.regs.filter fun r => decide (r.feat = f) && decide (r.ctr = ref)).map (·.id) := by
            apply List.map_congr_left; intro r _; rfl
          rw [this]
          exact (hsubF.map _).nodup h.regNodup
        · intro x hx y hy hxy
          obtain ⟨r, hr, rfl⟩ := List.mem_map.mp hy
          subst hxy
          exact h.disjoint r (hsubF.subset hr) hx
      · intro r hr
        simp only [List.map_append, List.map_map, List.mem_append, not_or]
        refine ⟨h.disjoint r (hsubK.subset hr), ?_⟩
        intro hm
        obtain ⟨r', hr', hid⟩ := List.mem_map.mp hm
        simp only [Function.comp] at hid
        -- r' was taken, r was kept, but they have the same registration id
        have hr'mem := hsubF.subset hr'
        have hrmem := hsubK.subset hr
        have heq : r' = r := eq_of_nodup_map (·.id) s.regs h.regNodup r' hr'mem r hrmem hid
        subst heq
        have h1 := (List.mem_filter.mp hr').2
        have h2 := (List.mem_filter.mp hr).2
        simp [h1] at h2

/-- C14: every registration is invoked at most once, whatever the order of registrations and arrivals -/
theorem c14_at_most_once (b : Bool) (evs : List Ev) (r : Nat) :
    ((run b evs).fired.map (·.1)).count r ≤ 1 := by
  have hinv : Inv (run b evs) := by
    unfold run
    suffices ∀ s, Inv s → Inv (evs.foldl (step b) s) from
      this {} ⟨by simp, by simp, by simp, by simp, by simp⟩
    induction evs with
    | nil => intro s h; exact h
    | cons e es ih => intro s h; exact ih _ (step_inv b s e h)
  exact count_le_one_of_nodup _ r hinv.firedNodup

end Spine.CB
