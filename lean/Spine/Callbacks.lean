/-! Response and result callbacks of FeatureLocal (AddResponseCallback, processResponseMsgCallbacks,
    AddResultCallback, processResultCallbacks — spine/feature_local.go:107-157, 645-744) as events.

    Every event is one critical section under `muxResponseCB`; an inbound result message is two of them
    (`arrive … reply=false` = the response-callback section, `resultCbs` = the result-callback section), an inbound
    reply is one (`arrive … reply=true`). All interleavings of registrations running concurrently with arrivals are
    therefore all event lists.

    Feature 0 stands for node management. `nmReplySkips = true` is the code as written: node management routes
    replies to its own handlers (spine/nodemanagement.go:56-113) and never looks at the response callbacks;
    `false` is the repair of DESIGN appendix C.

    An invocation (`Fire`) records the registration, the arrival that caused it, and the data and originating remote
    feature that arrival carried: this is what `api.ResponseMessage` hands to the callback. -/
namespace Spine.CB

structure Reg where
  id : Nat             -- registration
  feat : Nat
  ctr : Nat            -- message counter (unused, 0, for result callbacks)
  cb : Nat             -- identity of the function (its code pointer)
deriving DecidableEq, Repr

structure Fire where
  reg : Nat            -- registration that is invoked
  arr : Nat            -- arrival that caused the invocation
  data : Nat           -- the data of that arrival (ResponseMessage.Data)
  src : Nat            -- the remote feature it came from (ResponseMessage.FeatureRemote)
deriving DecidableEq, Repr

structure St where
  next : Nat := 0
  regs : List Reg := []          -- waiting response callbacks
  resRegs : List Reg := []       -- result callbacks (never removed)
  fired : List Fire := []        -- invocations of response callbacks, in invocation order
  resFired : List Fire := []     -- invocations of result callbacks

inductive Ev
  /-- AddResponseCallback(ctr, cb) on feature `feat` -/
  | register (feat ctr cb : Nat)
  /-- AddResultCallback(cb) on feature `feat` -/
  | registerResult (feat cb : Nat)
  /-- a reply (`reply = true`) or a result referencing `ref` reaches feature `feat`; `accepted` = it carries a
      reference and the feature accepts it (reply: the data update succeeds; result: it has an error number) -/
  | arrive (arrival feat ref : Nat) (reply : Bool) (accepted : Bool) (data src : Nat)
  /-- the result-callback section of an accepted result that references a request -/
  | resultCbs (arrival feat : Nat) (data src : Nat)

def isDup (f c cb : Nat) (r : Reg) : Bool := r.feat = f && r.ctr = c && r.cb = cb
def isFor (f ref : Nat) (r : Reg) : Bool := r.feat = f && r.ctr = ref
def mkFire (a data src : Nat) (r : Reg) : Fire := ⟨r.id, a, data, src⟩

def step (nmReplySkips : Bool) (s : St) : Ev → St
  | .register f c cb =>
    if s.regs.any (isDup f c cb) then s     -- "callback already set"
    else { s with next := s.next + 1, regs := s.regs ++ [⟨s.next, f, c, cb⟩] }
  | .registerResult f cb =>
    { s with next := s.next + 1, resRegs := s.resRegs ++ [⟨s.next, f, 0, cb⟩] }
  | .arrive a f ref reply accepted data src =>
    if !accepted || (nmReplySkips && f = 0 && reply) then s else
    { s with fired := s.fired ++ (s.regs.filter (isFor f ref)).map (mkFire a data src),
             regs := s.regs.filter fun r => !(isFor f ref r) }
  | .resultCbs a f data src =>
    { s with resFired := s.resFired ++ (s.resRegs.filter (·.feat = f)).map (mkFire a data src) }

def run (b : Bool) (evs : List Ev) : St := evs.foldl (step b) {}

/-- as written: a callback registered on node management for counter 1 is not invoked by the reply -/
theorem nm_reply_witness : (run true [.register 0 1 7, .arrive 100 0 1 true true 55 9]).fired = [] := by decide

/-- repaired: it is, with the data and the origin of the reply -/
example : (run false [.register 0 1 7, .arrive 100 0 1 true true 55 9]).fired = [⟨0, 100, 55, 9⟩] := by decide

/-- as written and repaired: a *result* on node management does invoke it -/
example : (run true [.register 0 1 7, .arrive 100 0 1 false true 55 9]).fired = [⟨0, 100, 55, 9⟩] := by decide

structure Inv (s : St) : Prop where
  fresh : ∀ r ∈ s.regs, r.id < s.next
  firedLt : ∀ x ∈ s.fired, x.reg < s.next
  regNodup : (s.regs.map (·.id)).Nodup
  firedNodup : (s.fired.map (·.reg)).Nodup
  disjoint : ∀ r ∈ s.regs, r.id ∉ s.fired.map (·.reg)

theorem eq_of_nodup_map {α β} (f : α → β) : ∀ (l : List α), (l.map f).Nodup →
    ∀ x ∈ l, ∀ y ∈ l, f x = f y → x = y
  | [], _, _, hx, _, _, _ => by cases hx
  | a :: l, hnd, x, hx, y, hy, hf => by
    simp only [List.map_cons, List.nodup_cons, List.mem_map, not_exists, not_and] at hnd
    rcases List.mem_cons.mp hx with rfl | hx' <;> rcases List.mem_cons.mp hy with rfl | hy'
    · rfl
    · exact absurd hf.symm (hnd.1 y hy')
    · exact absurd hf (hnd.1 x hx')
    · exact eq_of_nodup_map f l hnd.2 x hx' y hy' hf

theorem count_le_one_of_nodup {α} [BEq α] [LawfulBEq α] : ∀ (l : List α) (a : α), l.Nodup → l.count a ≤ 1
  | [], _, _ => by simp
  | x :: xs, a, h => by
    have ⟨h1, h2⟩ := List.nodup_cons.mp h
    simp only [List.count_cons]
    by_cases hx : x = a
    · subst hx
      have : xs.count x = 0 := List.count_eq_zero.mpr h1
      simp [this]
    · have : (x == a) = false := by simpa using hx
      simp only [this, Bool.false_eq_true, if_false, Nat.add_zero]
      exact count_le_one_of_nodup xs a h2

theorem map_reg_mkFire (a d src : Nat) (l : List Reg) : (l.map (mkFire a d src)).map (·.reg) = l.map (·.id) := by
  rw [List.map_map]; apply List.map_congr_left; intro r _; rfl

theorem step_inv (b : Bool) (s : St) (ev : Ev) (h : Inv s) : Inv (step b s ev) := by
  cases ev with
  | register f c cb =>
    simp only [step]
    split
    · exact h
    · refine ⟨?_, fun x hx => Nat.lt_succ_of_lt (h.firedLt x hx), ?_, h.firedNodup, ?_⟩
      · intro r hr
        rcases List.mem_append.mp hr with hr | hr
        · exact Nat.lt_succ_of_lt (h.fresh r hr)
        · simp only [List.mem_singleton] at hr; subst hr; exact Nat.lt_succ_self _
      · simp only [List.map_append, List.map_cons, List.map_nil]
        rw [List.nodup_append]
        refine ⟨h.regNodup, by simp, ?_⟩
        intro a ha b' hb
        simp only [List.mem_singleton] at hb; subst hb
        obtain ⟨r, hr, rfl⟩ := List.mem_map.mp ha
        have := h.fresh r hr
        omega
      · intro r hr
        rcases List.mem_append.mp hr with hr | hr
        · exact h.disjoint r hr
        · simp only [List.mem_singleton] at hr; subst hr
          intro hm
          obtain ⟨x, hx, hxe⟩ := List.mem_map.mp hm
          have := h.firedLt x hx
          simp only at hxe; omega
  | registerResult f cb =>
    exact ⟨fun r hr => Nat.lt_succ_of_lt (h.fresh r hr), fun x hx => Nat.lt_succ_of_lt (h.firedLt x hx),
      h.regNodup, h.firedNodup, h.disjoint⟩
  | resultCbs a f d src =>
    exact ⟨h.fresh, h.firedLt, h.regNodup, h.firedNodup, h.disjoint⟩
  | arrive a f ref reply accepted d src =>
    simp only [step]
    split
    · exact h
    · have hsubF : (s.regs.filter (isFor f ref)).Sublist s.regs := List.filter_sublist
      have hsubK : (s.regs.filter fun r => !(isFor f ref r)).Sublist s.regs := List.filter_sublist
      refine ⟨fun r hr => h.fresh r (hsubK.subset hr), ?_, (hsubK.map _).nodup h.regNodup, ?_, ?_⟩
      · intro x hx
        rcases List.mem_append.mp hx with hx | hx
        · exact h.firedLt x hx
        · obtain ⟨r, hr, rfl⟩ := List.mem_map.mp hx
          exact h.fresh r (hsubF.subset hr)
      · simp only [List.map_append, map_reg_mkFire]
        rw [List.nodup_append]
        refine ⟨h.firedNodup, (hsubF.map _).nodup h.regNodup, ?_⟩
        intro x hx y hy hxy
        obtain ⟨r, hr, rfl⟩ := List.mem_map.mp hy
        subst hxy
        exact h.disjoint r (hsubF.subset hr) hx
      · intro r hr
        simp only [List.map_append, map_reg_mkFire, List.mem_append, not_or]
        refine ⟨h.disjoint r (hsubK.subset hr), ?_⟩
        intro hm
        obtain ⟨r', hr', hid⟩ := List.mem_map.mp hm
        -- r' was taken, r was kept, but they have the same registration id
        have hr'mem := hsubF.subset hr'
        have hrmem := hsubK.subset hr
        have heq : r' = r := eq_of_nodup_map (·.id) s.regs h.regNodup r' hr'mem r hrmem hid
        subst heq
        have h1 := (List.mem_filter.mp hr').2
        have h2 := (List.mem_filter.mp hr).2
        simp [h1] at h2

theorem run_inv (b : Bool) (evs : List Ev) : Inv (run b evs) := by
  unfold run
  suffices ∀ s, Inv s → Inv (evs.foldl (step b) s) from
    this {} ⟨by simp, by simp, by simp, by simp, by simp⟩
  induction evs with
  | nil => intro s h; exact h
  | cons e es ih => intro s h; exact ih _ (step_inv b s e h)

/-- C14: every registration is invoked at most once, whatever the order of registrations and arrivals -/
theorem c14_at_most_once (b : Bool) (evs : List Ev) (r : Nat) :
    ((run b evs).fired.map (·.reg)).count r ≤ 1 :=
  count_le_one_of_nodup _ r (run_inv b evs).firedNodup

end Spine.CB
