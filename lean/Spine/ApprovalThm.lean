import Spine.Approval
namespace Spine.Appr

/-- how many "claims" on the outcome of write `w` exist: an armed timer, a timeout in flight, outcomes produced -/
def K (s : St) (w : Nat) : Nat :=
  s.armed.count w + s.fired.count w + (s.outcomes.map (·.1)).count w

def Inv (s : St) : Prop := ∀ w, K s w ≤ 1 ∧ (w ∉ s.seen → K s w = 0)

theorem count_filter_ne (l : List Nat) (w w' : Nat) :
    (l.filter (· ≠ w)).count w' = if w' = w then 0 else l.count w' := by
  induction l with
  | nil => simp
  | cons x xs ih =>
    simp only [List.filter_cons]
    by_cases hx : x = w
    · subst hx
      simp only [ne_eq, not_true_eq_false, decide_false, Bool.false_eq_true, if_false, ih, List.count_cons]
      by_cases h : w' = x
      · simp [h]
      · have : ¬ x = w' := fun h' => h h'.symm
        simp [h, this]
    · simp only [hx, ne_eq, not_false_eq_true, decide_true, if_true, List.count_cons, ih]
      by_cases h : w' = w
      · have : ¬ x = w' := by rw [h]; exact hx
        simp [h, hx]
      · simp [h]

theorem count_pos_of_contains (l : List Nat) (w : Nat) (h : l.contains w = true) : 1 ≤ l.count w := by
  have : w ∈ l := by simpa using h
  exact List.count_pos_iff.mpr this

theorem count_zero_of_not_contains (l : List Nat) (w : Nat) (h : l.contains w = false) : l.count w = 0 := by
  have : w ∉ l := by simpa using h
  exact List.count_eq_zero.mpr this

theorem K_finish (s : St) (w : Nat) (approve : Bool) (w' : Nat) (hk : K s w ≤ 1) :
    K (finish Cfg.clean s w approve) w' = K s w' := by
  unfold finish
  simp only [Cfg.clean, Bool.false_or]
  by_cases hc : s.armed.contains w = true
  · simp only [hc, if_true, K, List.map_append, List.map_cons, List.map_nil, List.count_append,
      count_filter_ne, List.count_cons, List.count_nil]
    have h1 := count_pos_of_contains _ _ hc
    by_cases h : w' = w
    · subst h
      simp only [K] at hk
      simp; omega
    · have : ¬ w = w' := fun h' => h h'.symm
      simp [h, this]
  · have hc' : s.armed.contains w = false := by simpa using hc
    simp only [hc', Bool.false_eq_true, if_false, K, count_filter_ne]
    have h0 := count_zero_of_not_contains _ _ hc'
    by_cases h : w' = w
    · subst h; simp [h0]
    · simp [h]

theorem seen_finish (c : Cfg) (s : St) (w : Nat) (approve : Bool) : (finish c s w approve).seen = s.seen := by
  unfold finish; dsimp only; split <;> rfl

theorem step_inv (s : St) (ev : Ev) (h : Inv s) : Inv (step Cfg.clean s ev) := by
  cases ev with
  | drop =>
    intro w
    have ⟨h1, h2⟩ := h w
    simp only [step, K, List.count_nil, Nat.zero_add] at h1 h2 ⊢
    exact ⟨by omega, fun hns => by have := h2 hns; omega⟩
  | arrive w0 =>
    simp only [step]
    split
    · exact h
    · rename_i hns
      have hns' : w0 ∉ s.seen := by simpa using hns
      intro w
      have ⟨h1, h2⟩ := h w
      simp only [K, List.count_cons, List.mem_cons, not_or] at h1 h2 ⊢
      by_cases hw : w0 = w
      · subst hw
        have := h2 hns'
        refine ⟨by simp; omega, fun hcon => absurd rfl hcon.1⟩
      · have hw' : (w0 == w) = false := by simpa using hw
        simp only [hw', Bool.false_eq_true, if_false, Nat.add_zero]
        exact ⟨h1, fun hcon => h2 hcon.2⟩
  | lookup op w =>
    simp only [step]
    split
    · intro w'; have := h w'; simpa [K] using this
    · exact h
  | commit op approve =>
    simp only [step]
    split
    · exact h
    · rename_i x w hf
      have fin : ∀ (s' : St), s'.armed = s.armed → s'.fired = s.fired → s'.outcomes = s.outcomes →
          s'.seen = s.seen → Inv (finish Cfg.clean s' w approve) := by
        intro s' ha hfi ho hse w'
        have hK : ∀ v, K s' v = K s v := by intro v; simp [K, ha, hfi, ho]
        rw [K_finish s' w approve w' (by rw [hK]; exact (h w).1), seen_finish, hK, hse]
        exact h w'
      have same : ∀ (s' : St), s'.armed = s.armed → s'.fired = s.fired → s'.outcomes = s.outcomes →
          s'.seen = s.seen → Inv s' := by
        intro s' ha hfi ho hse w'
        have : K s' w' = K s w' := by simp [K, ha, hfi, ho]
        rw [this, hse]; exact h w'
      split
      · split
        · exact same _ rfl rfl rfl rfl
        · exact fin _ rfl rfl rfl rfl
      · exact fin _ rfl rfl rfl rfl
  | timeoutTake w =>
    simp only [step]
    split
    · rename_i hc
      intro w'
      have ⟨h1, h2⟩ := h w'
      have hk := (h w).1
      simp only [K, count_filter_ne, List.count_cons] at h1 h2 hk ⊢
      have hp := count_pos_of_contains _ _ hc
      by_cases hw : w' = w
      · subst hw
        refine ⟨by simp; omega, fun hns => ?_⟩
        have := h2 hns; omega
      · have hw' : (w == w') = false := by simpa using fun h' : w = w' => hw h'.symm
        simp only [hw, if_false, hw', Bool.false_eq_true, Nat.add_zero]
        exact ⟨h1, h2⟩
    · exact h
  | timeoutSend w =>
    simp only [step]
    split
    · rename_i hc
      intro w'
      have ⟨h1, h2⟩ := h w'
      have hk := (h w).1
      simp only [K, count_filter_ne, List.map_append, List.map_cons, List.map_nil, List.count_append,
        List.count_cons, List.count_nil] at h1 h2 hk ⊢
      have hp := count_pos_of_contains _ _ hc
      by_cases hw : w' = w
      · subst hw
        refine ⟨by simp; omega, fun hns => ?_⟩
        have := h2 hns; omega
      · have hw' : (w == w') = false := by simpa using fun h' : w = w' => hw h'.symm
        simp only [hw, if_false, hw', Bool.false_eq_true, Nat.add_zero, Nat.zero_add]
        exact ⟨h1, h2⟩
    · exact h

/-- C12 (repaired code, safety): under every interleaving of arrivals, verdicts and timeouts — any number of
    callbacks, any number of concurrently pending writes — no write ever gets two outcomes -/
theorem c12_at_most_one_outcome (n : Nat) (evs : List Ev) (w : Nat) :
    ((run Cfg.clean n evs).outcomes.filter (·.1 = w)).length ≤ 1 := by
  have hinv : Inv (run Cfg.clean n evs) := by
    unfold run
    suffices ∀ s, Inv s → Inv (evs.foldl (step Cfg.clean) s) from this _ (by intro v; simp [K])
    induction evs with
    | nil => intro s h; exact h
    | cons e es ih => intro s h; exact ih _ (step_inv s e h)
  have := (hinv w).1
  simp only [K] at this
  have hc : (List.filter (fun x => decide (x.1 = w)) (run Cfg.clean n evs).outcomes).length
      = ((run Cfg.clean n evs).outcomes.map (·.1)).count w := by
    generalize (run Cfg.clean n evs).outcomes = l
    induction l with
    | nil => rfl
    | cons x xs ih =>
      simp only [List.filter_cons, List.map_cons, List.count_cons]
      by_cases hx : x.1 = w
      · simp [hx, ih]
      · have : (x.1 == w) = false := by simpa using hx
        simp [hx, this, ih]
  omega

end Spine.Appr
