/-! Prototype: remote device tree under detailed-discovery reply / notify (spine/device_remote.go,
    nodemanagement_detaileddiscovery.go), well-formed messages only (every entry carries type and address) -/
namespace Spine.Disc

structure F where
  ent : List Nat
  id : Nat
  typ : Nat
  role : Nat
deriving DecidableEq, Repr

structure E where
  addr : List Nat
  typ : Nat
  feats : List F
deriving DecidableEq, Repr

inductive Chg | none | added | removed deriving DecidableEq, Repr

structure EI where
  addr : List Nat
  typ : Nat
  chg : Chg
deriving DecidableEq, Repr

structure Msg where
  ents : List EI
  feats : List F
deriving Repr

inductive Evt | add (a : List Nat) | rem (a : List Nat) deriving DecidableEq, Repr

abbrev Tree := List E

def findE (t : Tree) (a : List Nat) : Option E := t.find? (·.addr = a)

/-- one iteration of AddEntityAndFeatures: create the entity if unknown, replace its features -/
def addOne (m : Msg) (acc : Tree × List Evt) (ei : EI) : Tree × List Evt :=
  let (t, evs) := acc
  let fs := m.feats.filter (·.ent = ei.addr)
  match findE t ei.addr with
  | some _ => (t.map fun e => if e.addr = ei.addr then { e with feats := fs } else e, evs)
  | none => (t ++ [{ addr := ei.addr, typ := ei.typ, feats := fs }], evs ++ [.add ei.addr])

/-- AddEntityAndFeatures over the *whole* message -/
def addAll (m : Msg) (t : Tree) : Tree × List Evt := m.ents.foldl (addOne m) (t, [])

def remOne (acc : Tree × List Evt) (ei : EI) : Tree × List Evt :=
  let (t, evs) := acc
  match findE t ei.addr with
  | some _ => (t.filter (·.addr ≠ ei.addr), evs ++ [.rem ei.addr])
  | none => (t, evs)

/-- removal loop over the *whole* message -/
def remAll (m : Msg) (t : Tree) : Tree × List Evt := m.ents.foldl remOne (t, [])

def reply (m : Msg) (t : Tree) : Tree × List Evt := addAll m t

/-- processNotifyDetailedDiscoveryData on a partial message, as written: for every entry, depending on
    its state change, the whole message is added or the whole message is removed -/
def notifyPartial (m : Msg) (t : Tree) : Tree × List Evt × Bool :=
  if m.ents.isEmpty then (t, [], false) else
  if m.ents.any (·.chg = .none) then
    -- entries before the first one without a state change are processed, then the handler returns an error
    let pre := m.ents.takeWhile (·.chg ≠ .none)
    let r := pre.foldl (fun (acc : Tree × List Evt) ei =>
      let (t, evs) := acc
      match ei.chg with
      | .added => let (t', e') := addAll m t; (t', evs ++ e')
      | .removed => let (t', e') := remAll m t; (t', evs ++ e')
      | .none => acc) (t, [])
    (r.1, r.2, false)
  else
    let r := m.ents.foldl (fun (acc : Tree × List Evt) ei =>
      let (t, evs) := acc
      match ei.chg with
      | .added => let (t', e') := addAll m t; (t', evs ++ e')
      | .removed => let (t', e') := remAll m t; (t', evs ++ e')
      | .none => acc) (t, [])
    (r.1, r.2, true)

/-- provideDetailedDiscoveryDiffForFullNotify -/
def fullDiff (m : Msg) (t : Tree) : Msg :=
  let added := m.ents.filter fun ei => (findE t ei.addr).isNone
  let existing := (m.ents.filter fun ei => (findE t ei.addr).isSome).map (·.addr)
  let removed := (t.filter fun e => !existing.contains e.addr).map fun e => ({ addr := e.addr, typ := e.typ, chg := .removed } : EI)
  { ents := (added.map fun ei => { ei with chg := .added }) ++ removed,
    feats := m.feats.filter fun f => (added.map (·.addr)).contains f.ent }

def notifyFull (m : Msg) (t : Tree) : Tree × List Evt × Bool := notifyPartial (fullDiff m t) t

end Spine.Disc
