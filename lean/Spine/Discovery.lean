/-! Remote device tree under detailed-discovery reply / notify (spine/device_remote.go,
    nodemanagement_detaileddiscovery.go, feature_remote.go), well-formed messages only (every entry carries type and
    address, every feature description carries address, type and role, every supportedFunction a function).
    Descriptions are interned to `Option Nat` (`none` = absent), announced operations to a number
    (read ∈ {absent, plain, partial} + 3 * write ∈ {absent, plain, partial}). -/
namespace Spine.Disc

/-- a remote feature as the API reports it: address (entity, id), type, role, description, operations per function
    (what `SetOperations` stored: one entry per function, sorted by function for a canonical form) -/
structure F where
  ent : List Nat
  id : Nat
  typ : Nat
  role : Nat
  desc : Option Nat
  ops : List (Nat × Nat)
deriving DecidableEq, Repr

structure E where
  addr : List Nat
  typ : Nat
  desc : Option Nat
  feats : List F
deriving DecidableEq, Repr

inductive Chg | none | added | removed deriving DecidableEq, Repr

structure EI where
  addr : List Nat
  typ : Nat
  chg : Chg
  desc : Option Nat
deriving DecidableEq, Repr

/-- a feature description as announced: `supportedFunction` is a list of (function, possibleOperations?) -/
structure FI where
  ent : List Nat
  id : Nat
  typ : Nat
  role : Nat
  desc : Option Nat
  fns : List (Nat × Option Nat)
deriving DecidableEq, Repr

/-- the operations map as an association list sorted by function; a later entry for a function replaces the earlier -/
def insertOp (fn b : Nat) : List (Nat × Nat) → List (Nat × Nat)
  | [] => [(fn, b)]
  | (g, c) :: rest =>
    if fn < g then (fn, b) :: (g, c) :: rest
    else if fn = g then (fn, b) :: rest
    else (g, c) :: insertOp fn b rest

def setOpsStep (acc : List (Nat × Nat)) (x : Nat × Option Nat) : List (Nat × Nat) :=
  match x.2 with
  | some b => insertOp x.1 b acc
  | none => acc      -- `possibleOperations` absent: the function is skipped

/-- FeatureRemote.SetOperations -/
def setOps (l : List (Nat × Option Nat)) : List (Nat × Nat) := l.foldl setOpsStep []

/-- unmarshalFeature -/
def unmarshal (fi : FI) : F := ⟨fi.ent, fi.id, fi.typ, fi.role, fi.desc, setOps fi.fns⟩

structure Msg where
  ents : List EI
  feats : List F
deriving Repr

/-- a message as announced (feature descriptions not yet unmarshalled) -/
structure Wire where
  ents : List EI
  feats : List FI
deriving Repr

def Msg.ofWire (w : Wire) : Msg := ⟨w.ents, w.feats.map unmarshal⟩

inductive Evt | add (a : List Nat) | rem (a : List Nat) deriving DecidableEq, Repr

abbrev Tree := List E

def findE (t : Tree) (a : List Nat) : Option E := t.find? (·.addr = a)

/-- one iteration of AddEntityAndFeatures: create the entity if unknown (type and description from the entry),
    otherwise set its description (the type of a known entity is never touched); replace its features -/
def addOne (m : Msg) (acc : Tree × List Evt) (ei : EI) : Tree × List Evt :=
  let (t, evs) := acc
  let fs := m.feats.filter (·.ent = ei.addr)
  match findE t ei.addr with
  | some _ => (t.map fun e => if e.addr = ei.addr then { e with desc := ei.desc, feats := fs } else e, evs)
  | none => (t ++ [{ addr := ei.addr, typ := ei.typ, desc := ei.desc, feats := fs }], evs ++ [.add ei.addr])

/-- AddEntityAndFeatures over the *whole* message -/
def addAll (m : Msg) (t : Tree) : Tree × List Evt := m.ents.foldl (addOne m) (t, [])

def remOne (acc : Tree × List Evt) (ei : EI) : Tree × List Evt :=
  let (t, evs) := acc
  match findE t ei.addr with
  | some _ => (t.filter (·.addr ≠ ei.addr), evs ++ [.rem ei.addr])
  | none => (t, evs)

/-- removal loop over the *whole* message -/
def remAll (m : Msg) (t : Tree) : Tree × List Evt := m.ents.foldl remOne (t, [])

def reply (m : Msg) (t : Tree) : Tree × List Evt := addAll m t

/-- one iteration of the handler's loop as written: for an `added` entry the *whole* message is added, for a `removed`
    entry *every* entry of the message is removed -/
def stepWritten (m : Msg) (acc : Tree × List Evt) (ei : EI) : Tree × List Evt :=
  match ei.chg with
  | .added => ((addAll m acc.1).1, acc.2 ++ (addAll m acc.1).2)
  | .removed => ((remAll m acc.1).1, acc.2 ++ (remAll m acc.1).2)
  | .none => acc

/-- processNotifyDetailedDiscoveryData on a partial message, as written. Entries before the first one without a state
    change are processed, then the handler returns an error (third component `false`). -/
def notifyPartial (m : Msg) (t : Tree) : Tree × List Evt × Bool :=
  if m.ents.isEmpty then (t, [], false) else
  if m.ents.any (·.chg = .none) then
    let r := (m.ents.takeWhile (·.chg ≠ .none)).foldl (stepWritten m) (t, [])
    (r.1, r.2, false)
  else
    let r := m.ents.foldl (stepWritten m) (t, [])
    (r.1, r.2, true)

/-- provideDetailedDiscoveryDiffForFullNotify -/
def fullDiff (m : Msg) (t : Tree) : Msg :=
  let added := m.ents.filter fun ei => (findE t ei.addr).isNone
  let existing := (m.ents.filter fun ei => (findE t ei.addr).isSome).map (·.addr)
  let removed := (t.filter fun e => !existing.contains e.addr).map fun e => ({ addr := e.addr, typ := e.typ, chg := .removed, desc := none } : EI)
  { ents := (added.map fun ei => { ei with chg := .added }) ++ removed,
    feats := m.feats.filter fun f => (added.map (·.addr)).contains f.ent }

def notifyFull (m : Msg) (t : Tree) : Tree × List Evt × Bool := notifyPartial (fullDiff m t) t

end Spine.Disc
