import Spine.LocalTreeThm
/-! History-level SPEC of the local device tree (C07) and the refinement of the model to it.

    The SPEC is what the application declared, as plain maps: which entities (slots) are part of the device, the type
    of the entity object in a slot, per (slot, feature number) the declared type, role, description and per function
    the read/write flags of its FIRST addition. It is folded over the *trace* of API calls — each call together with
    the number it returned (GetOrAddFeature hands the application the feature, i.e. its number): a returned number
    that was not declared before is a new feature of the requested type and role with the documented description and
    no functions; a number that is declared already is the existing feature. Nothing in the SPEC mentions lists,
    generators or lookups of the model. -/
namespace Spine.LTree

/-- what the application declared for one feature -/
structure FDecl where
  typ : Nat
  role : Nat
  descr : Nat
  ops : Nat → Option (Bool × Bool × Bool)   -- function ↦ (read, write, partial write) as first added

structure Spec where
  att : Nat → Bool                      -- the entity (slot) is part of the device
  etype : Nat → Nat                     -- type of the entity object in the slot
  feat : Nat → Nat → Option FDecl       -- slot, feature number ↦ declaration

/-- AddFunctionType as declared: server and special features only, the first addition of a function counts -/
def declFn (d : FDecl) (fn : Nat) (r w cap : Bool) : FDecl :=
  if d.role = 0 then d
  else match d.ops fn with
    | some _ => d
    | none => { d with ops := fun g => if g = fn then some (r, w, w && cap) else d.ops g }

def setFeat (σ : Spec) (k id : Nat) (v : Option FDecl) : Spec :=
  { σ with feat := fun j i => if j = k ∧ i = id then v else σ.feat j i }

/-- one API call and the number it returned -/
def specStep (σ : Spec) (o : Op) (ret : Option Nat) : Spec :=
  match o with
  | .attach k => { σ with att := fun j => if j = k then true else σ.att j }
  | .detach k => { σ with att := fun j => if j = k then false else σ.att j }
  | .renew k et =>
    { σ with etype := fun j => if j = k then et else σ.etype j,
             feat := fun j i => if j = k then none else σ.feat j i }
  | .feat k typ role =>
    match ret with
    | none => σ
    | some id =>
      match σ.feat k id with
      | some _ => σ
      | none => setFeat σ k id (some ⟨typ, role, descrOf typ role, fun _ => none⟩)
  | .addFn k fid fn r w cap => setFeat σ k fid ((σ.feat k fid).map fun d => declFn d fn r w cap)
  | .setDescr k fid d => setFeat σ k fid ((σ.feat k fid).map fun x => { x with descr := d })
  | _ => σ

/-! ### the abstraction of a model state -/

def fnOps (fns : List Fn) (fn : Nat) : Option (Bool × Bool × Bool) :=
  (fns.find? (·.fn = fn)).map fun x => (x.read, x.write, x.wpart)

def toDecl (f : Feat) : FDecl := ⟨f.typ, f.role, f.descr, fnOps f.fns⟩

def featAt (e : Ent) (id : Nat) : Option Feat := e.feats.find? (·.id = id)

def abs (s : St) : Spec :=
  { att := fun k => decide (k ∈ s.attached), etype := fun k => (s.pool k).etype,
    feat := fun k id => (featAt (s.pool k) id).map toDecl }

/-- the number a step returned, if any -/
def retOf : List Obs → Option Nat
  | [.ret id] => some id
  | _ => none

/-- the SPEC of a history: folded over the calls and the numbers they returned, starting from a given state -/
def specFrom : St → Spec → List Op → Spec
  | _, σ, [] => σ
  | s, σ, o :: os => specFrom (step s o).1 (specStep σ o (retOf (step s o).2)) os

/-- the SPEC of a history from the initial device (entity [0] with node management and device classification) -/
def specOf (cfg : DevCfg) (ops : List Op) : Spec := specFrom (init cfg) (abs (init cfg)) ops

/-! ### lemmas -/

theorem FDecl.ext' {a b : FDecl} (h1 : a.typ = b.typ) (h2 : a.role = b.role) (h3 : a.descr = b.descr)
    (h4 : a.ops = b.ops) : a = b := by
  cases a; cases b; simp_all

theorem find_updFeat (fs : List Feat) (fid : Nat) (g : Feat → Feat) (hg : ∀ f, (g f).id = f.id) (id : Nat) :
    (updFeat fs fid g).find? (·.id = id) =
      if id = fid then (fs.find? (·.id = fid)).map g else fs.find? (·.id = id) := by
  induction fs with
  | nil => simp [updFeat]
  | cons f fs ih =>
    simp only [updFeat]
    by_cases hf : f.id = fid
    · simp only [hf, if_true]
      by_cases hid : id = fid
      · subst hid; simp [List.find?_cons, hg, hf]
      · have : ¬ fid = id := fun h => hid h.symm
        simp [List.find?_cons, hg, hf, hid, this]
    · simp only [hf, if_false, List.find?_cons]
      by_cases hid : id = fid
      · subst hid
        simp only [hf, decide_false, if_true]
        simpa using ih
      · by_cases hfi : f.id = id
        · simp [hfi, hid]
        · simp only [hfi, decide_false, hid, if_false]
          simpa [hid] using ih

theorem fnOps_append_single (fns : List Fn) (x : Fn) (g : Nat) :
    fnOps (fns ++ [x]) g = match fnOps fns g with
      | some v => some v
      | none => if x.fn = g then some (x.read, x.write, x.wpart) else none := by
  simp only [fnOps, List.find?_append]
  cases h : fns.find? (·.fn = g) with
  | some v => simp
  | none =>
    by_cases hx : x.fn = g <;> simp [hx]

theorem toDecl_featAddFn (f : Feat) (fn : Nat) (r w cap : Bool) :
    toDecl (featAddFn f fn r w cap) = declFn (toDecl f) fn r w cap := by
  by_cases hr : f.role = 0
  · rw [featAddFn_client f fn r w cap hr]; simp [declFn, toDecl, hr]
  · by_cases hm : fn ∈ f.fns.map (·.fn)
    · rw [featAddFn_again f fn r w cap hm]
      obtain ⟨x, hx, hxf⟩ := List.mem_map.mp hm
      have : ∃ v, fnOps f.fns fn = some v := by
        cases hfind : f.fns.find? (·.fn = fn) with
        | some y => exact ⟨(y.read, y.write, y.wpart), by simp [fnOps, hfind]⟩
        | none =>
          have := List.find?_eq_none.mp hfind x hx
          simp [hxf] at this
      obtain ⟨v, hv⟩ := this
      simp [declFn, toDecl, hr, hv]
    · rw [featAddFn_new f fn r w cap hr hm]
      have hnone : fnOps f.fns fn = none := by
        simp only [fnOps, Option.map_eq_none_iff]
        rw [List.find?_eq_none]
        intro x hx hc
        exact hm (List.mem_map.mpr ⟨x, hx, by simpa using hc⟩)
      simp only [declFn, toDecl, hr, if_false, hnone]
      refine FDecl.ext' rfl rfl rfl ?_
      funext g
      simp only [fnOps_append_single]
      by_cases hg : g = fn
      · subst hg; simp [hnone]
      · have : ¬ fn = g := fun h => hg h.symm
        cases hv : fnOps f.fns g <;> simp [hg, this]

theorem featAt_upd (s : St) (k : Nat) (e : Ent) (j id : Nat) :
    featAt (upd s.pool k e j) id = if j = k then featAt e id else featAt (s.pool j) id := by
  by_cases h : j = k
  · subst h; simp [upd_same]
  · simp [upd_other _ _ _ _ h, h]

theorem spec_ext {a b : Spec} (h1 : a.att = b.att) (h2 : a.etype = b.etype) (h3 : a.feat = b.feat) : a = b := by
  cases a; cases b; simp_all

/-- one call: the abstraction of the next state is the SPEC step of the abstraction, given the returned number -/
theorem abs_step (s : St) (h : Inv s) (o : Op) :
    abs (step s o).1 = specStep (abs s) o (retOf (step s o).2) := by
  cases o with
  | attach k =>
    refine spec_ext ?_ rfl rfl
    funext j
    simp only [step, abs, specStep, List.mem_append, List.mem_singleton]
    by_cases hj : j = k <;> simp [hj]
  | detach k =>
    refine spec_ext ?_ rfl rfl
    funext j
    simp only [step, abs, specStep, List.mem_filter]
    by_cases hj : j = k <;> simp [hj]
  | renew k et =>
    refine spec_ext rfl ?_ ?_
    · funext j
      simp only [step, abs, specStep]
      by_cases hj : j = k
      · subst hj; simp [upd_same]
      · simp [upd_other _ _ _ _ hj, hj]
    · funext j i
      simp only [step, abs, specStep, featAt_upd]
      by_cases hj : j = k <;> simp [hj, featAt]
  | feat k typ role =>
    simp only [step, entGetOrAdd]
    cases hf : findTR (s.pool k) typ role with
    | some f =>
      obtain ⟨hmem, _, _⟩ := findTR_some (s.pool k) typ role f hf
      have hat : featAt (s.pool k) f.id = some f := find_of_nodup _ (h.1 k).1.1 f hmem
      simp only [retOf, specStep, abs, hat, Option.map_some]
      refine spec_ext rfl ?_ ?_
      · funext j
        by_cases hj : j = k
        · subst hj; simp [upd_same]
        · simp [upd_other _ _ _ _ hj]
      · funext j i
        simp only [featAt_upd]
        by_cases hj : j = k <;> simp [hj]
    | none =>
      have hnone : featAt (s.pool k) (s.pool k).nextId = none := by
        simp only [featAt]
        rw [List.find?_eq_none]
        intro x hx hc
        have := (h.1 k).1.2 x hx
        simp at hc; omega
      simp only [retOf, specStep, abs, hnone, Option.map_none]
      refine spec_ext rfl ?_ ?_
      · funext j
        by_cases hj : j = k
        · subst hj; simp [upd_same, setFeat]
        · simp [upd_other _ _ _ _ hj, setFeat]
      · funext j i
        simp only [setFeat, featAt_upd]
        by_cases hj : j = k
        · subst hj
          simp only [true_and, if_true, featAt, List.find?_append]
          by_cases hi : i = (s.pool j).nextId
          · subst hi
            have : (s.pool j).feats.find? (·.id = (s.pool j).nextId) = none := hnone
            simp only [this, Option.none_or, List.find?_cons, decide_true, Option.map_some, toDecl]
            congr 1
          · have hne : ¬ (s.pool j).nextId = i := fun e => hi e.symm
            cases hfi : (s.pool j).feats.find? (·.id = i) <;> simp [hi, hne]
        · simp [hj]
  | nextId k =>
    refine spec_ext rfl ?_ ?_
    · funext j
      simp only [step, abs, specStep]
      by_cases hj : j = k
      · subst hj; simp [upd_same]
      · simp [upd_other _ _ _ _ hj]
    · funext j i
      simp only [step, abs, specStep, featAt_upd]
      by_cases hj : j = k
      · subst hj; simp [featAt]
      · simp [hj]
  | addFn k fid fn r w cap =>
    refine spec_ext rfl ?_ ?_
    · funext j
      simp only [step, abs, specStep, setFeat]
      by_cases hj : j = k
      · subst hj; simp [upd_same]
      · simp [upd_other _ _ _ _ hj]
    · funext j i
      simp only [step, abs, specStep, setFeat, featAt_upd]
      by_cases hj : j = k
      · subst hj
        simp only [true_and, if_true, featAt]
        rw [find_updFeat _ _ _ (fun f => featAddFn_id f fn r w cap)]
        by_cases hi : i = fid
        · subst hi
          simp only [if_true, Option.map_map]
          cases (s.pool j).feats.find? (·.id = i) with
          | none => rfl
          | some f => simp [toDecl_featAddFn]
        · simp [hi]
      · simp [hj]
  | setDescr k fid d =>
    refine spec_ext rfl ?_ ?_
    · funext j
      simp only [step, abs, specStep, setFeat]
      by_cases hj : j = k
      · subst hj; simp [upd_same]
      · simp [upd_other _ _ _ _ hj]
    · funext j i
      simp only [step, abs, specStep, setFeat, featAt_upd]
      by_cases hj : j = k
      · subst hj
        simp only [true_and, if_true, featAt]
        rw [find_updFeat _ fid (fun f => { f with descr := d }) (fun _ => rfl)]
        by_cases hi : i = fid
        · subst hi
          simp only [if_true, Option.map_map]
          cases (s.pool j).feats.find? (·.id = i) with
          | none => rfl
          | some f => simp [toDecl]
        · simp [hi]
      · simp [hj]
  | sub p => simp only [step, specStep]; split <;> rfl
  | unsub p => rfl
  | addUc k => rfl
  | read p => rfl
  | destRead p known => rfl

theorem abs_fold (ops : List Op) : ∀ s : St, Inv s →
    abs (ops.foldl (fun s o => (step s o).1) s) = specFrom s (abs s) ops := by
  induction ops with
  | nil => intro s _; rfl
  | cons o os ih =>
    intro s h
    simp only [List.foldl_cons, specFrom]
    rw [ih _ (inv_step s h o), abs_step s h o]

/-- the model state after any history abstracts to the SPEC of that history -/
theorem abs_run (cfg : DevCfg) (ops : List Op) : abs (run cfg ops) = specOf cfg ops :=
  abs_fold ops (init cfg) (inv_init cfg)

/-! ### the reply read as maps from addresses -/

/-- the reply's entity list as a map: slot ↦ announced entity type -/
def replyEntMap (s : St) (k : Nat) : Option Nat := ((replyEnts s).find? (·.1 = k)).map (·.2)

/-- the reply's feature list as a map: (slot, feature number) ↦ announced type, role, description, operations -/
def replyFeatMap (s : St) (k id : Nat) : Option FDecl :=
  ((replyFeats s).find? fun p => p.1 = k && p.2.id = id).map fun p => toDecl p.2

theorem entMap_aux (pool : Nat → Ent) (att : List Nat) (k : Nat) :
    ((att.map fun k => (k, (pool k).etype)).find? (·.1 = k)).map (·.2) =
      if decide (k ∈ att) then some (pool k).etype else none := by
  induction att with
  | nil => simp
  | cons a as ih =>
    simp only [List.map_cons, List.find?_cons, List.mem_cons]
    by_cases ha : a = k
    · subst ha; simp
    · have : ¬ k = a := fun e => ha e.symm
      simp only [ha, decide_false, this, false_or]
      exact ih

theorem replyEntMap_eq (s : St) (k : Nat) :
    replyEntMap s k = if (abs s).att k then some ((abs s).etype k) else none :=
  entMap_aux s.pool s.attached k

theorem find_feats_pair (fs : List Feat) (a k id : Nat) :
    (fs.map fun f => (a, f)).find? (fun p => p.1 = k && p.2.id = id) =
      if a = k then (fs.find? (·.id = id)).map fun f => (a, f) else none := by
  induction fs with
  | nil => simp
  | cons f fs ih =>
    simp only [List.map_cons, List.find?_cons]
    by_cases ha : a = k
    · subst ha
      by_cases hf : f.id = id
      · simp [hf]
      · simp only [hf, decide_true, decide_false, Bool.and_false, if_true]
        simpa using ih
    · simp only [ha, decide_false, Bool.false_and, if_false]
      simpa [ha] using ih

theorem featMap_aux (pool : Nat → Ent) (att : List Nat) (k id : Nat) :
    ((att.flatMap fun k => (pool k).feats.map fun f => (k, f)).find? fun p => p.1 = k && p.2.id = id).map
        (fun p => toDecl p.2) =
      if decide (k ∈ att) then (featAt (pool k) id).map toDecl else none := by
  induction att with
  | nil => simp
  | cons a as ih =>
    simp only [List.flatMap_cons, List.find?_append, List.mem_cons, find_feats_pair]
    by_cases ha : a = k
    · subst ha
      simp only [if_true, true_or, decide_true]
      cases hf : (pool a).feats.find? (·.id = id) with
      | some f => simp [featAt, hf]
      | none =>
        simp only [Option.map_none, Option.none_or]
        -- entity a has no such feature: a later occurrence of the same slot cannot have it either
        by_cases hin : a ∈ as
        · simp only [hin, decide_true, if_true] at ih
          rw [ih]; first | done | simp [featAt, hf]
        · simp only [hin, decide_false] at ih
          rw [ih]; first | done | simp [featAt, hf]
    · have : ¬ k = a := fun e => ha e.symm
      simp only [ha, if_false, Option.none_or, this, false_or]
      exact ih

theorem replyFeatMap_eq (s : St) (k id : Nat) :
    replyFeatMap s k id = if (abs s).att k then (abs s).feat k id else none :=
  featMap_aux s.pool s.attached k id

/-! ### notifications over a history -/

/-- the partial detailed-discovery notifications peer p received over a history -/
def recvNotes (p : Nat) : St → List Op → List Obs
  | _, [] => []
  | s, o :: os => (step s o).2.filter (discTo p) ++ recvNotes p (step s o).1 os

/-- SPEC: peer p is subscribed from its subscription call to its unsubscription call -/
def subdAfter (p : Nat) (sb : Bool) : Op → Bool
  | .sub q => if q = p then true else sb
  | .unsub q => if q = p then false else sb
  | _ => sb

/-- SPEC: one notification per AddEntity / RemoveEntity performed while p was subscribed, describing that entity as
    added with its features at that moment / as removed without features -/
def expNotes (p : Nat) : St → Bool → List Op → List Obs
  | _, _, [] => []
  | s, sb, o :: os =>
    (match o with
      | .attach k => if sb then [.notify p true k (s.pool k).etype (s.pool k).feats] else []
      | .detach k => if sb then [.notify p false k (s.pool k).etype []] else []
      | _ => []) ++ expNotes p (step s o).1 (subdAfter p sb o) os

/-- the number of AddEntity / RemoveEntity calls performed while p was subscribed -/
def expCount (p : Nat) : Bool → List Op → Nat
  | _, [] => 0
  | sb, o :: os =>
    (match o with
      | .attach _ => if sb then 1 else 0
      | .detach _ => if sb then 1 else 0
      | _ => 0) + expCount p (subdAfter p sb o) os

theorem subd_step (s : St) (p : Nat) (o : Op) :
    decide (p ∈ (step s o).1.subs) = subdAfter p (decide (p ∈ s.subs)) o := by
  cases o with
  | sub q =>
    simp only [step, subdAfter]
    by_cases hq : q = p
    · subst hq
      by_cases hm : q ∈ s.subs <;> simp [hm]
    · have : ¬ p = q := fun e => hq e.symm
      by_cases hm : q ∈ s.subs <;> simp [hm, hq, this]
  | unsub q =>
    simp only [step, subdAfter, List.mem_filter]
    by_cases hq : q = p
    · subst hq; simp
    · have : ¬ p = q := fun e => hq e.symm
      simp [hq, this]
  | feat k typ role => simp only [step, subdAfter]; rfl
  | _ => rfl

theorem filter_discTo_attach (s : St) (h : Inv s) (k p : Nat) :
    (step s (.attach k)).2.filter (discTo p) =
      if p ∈ s.subs then [.notify p true k (s.pool k).etype (s.pool k).feats] else [] := by
  simp only [step, notifyAll, if_true]
  exact filter_map_nodup s.subs h.2 (fun q => Obs.notify q true k (s.pool k).etype (s.pool k).feats) p
    (fun q => by simp [discTo])

theorem filter_discTo_detach (s : St) (h : Inv s) (k p : Nat) :
    (step s (.detach k)).2.filter (discTo p) =
      if p ∈ s.subs then [.notify p false k (s.pool k).etype []] else [] := by
  simp only [step, notifyAll, List.filter_append]
  have h1 : (if s.ucData = true then ucNotifyAll s else []).filter (discTo p) = [] := by
    split
    · exact filter_ucNotify s.subs p
    · rfl
  rw [h1, List.nil_append]
  exact filter_map_nodup s.subs h.2 (fun q => Obs.notify q false k (s.pool k).etype []) p (fun q => by simp [discTo])

theorem filter_discTo_other (s : St) (p : Nat) (o : Op) (h1 : ∀ k, o ≠ .attach k) (h2 : ∀ k, o ≠ .detach k) :
    (step s o).2.filter (discTo p) = [] := by
  cases o with
  | attach k => exact absurd rfl (h1 k)
  | detach k => exact absurd rfl (h2 k)
  | addUc k => exact filter_ucNotify s.subs p
  | sub q => simp [step]
  | feat k typ role => simp [step, discTo]
  | _ => simp [step, discTo]

theorem recv_eq_exp (p : Nat) (ops : List Op) : ∀ s : St, Inv s →
    recvNotes p s ops = expNotes p s (decide (p ∈ s.subs)) ops := by
  induction ops with
  | nil => intro s _; rfl
  | cons o os ih =>
    intro s h
    simp only [recvNotes, expNotes]
    rw [ih _ (inv_step s h o), subd_step s p o]
    congr 1
    cases o with
    | attach k => rw [filter_discTo_attach s h k p]; by_cases hm : p ∈ s.subs <;> simp [hm]
    | detach k => rw [filter_discTo_detach s h k p]; by_cases hm : p ∈ s.subs <;> simp [hm]
    | renew k et => exact filter_discTo_other s p _ (by intro k; simp) (by intro k; simp)
    | feat k typ role => exact filter_discTo_other s p _ (by intro k; simp) (by intro k; simp)
    | nextId k => exact filter_discTo_other s p _ (by intro k; simp) (by intro k; simp)
    | addFn k fid fn r w cap => exact filter_discTo_other s p _ (by intro k; simp) (by intro k; simp)
    | setDescr k fid d => exact filter_discTo_other s p _ (by intro k; simp) (by intro k; simp)
    | sub q => exact filter_discTo_other s p _ (by intro k; simp) (by intro k; simp)
    | unsub q => exact filter_discTo_other s p _ (by intro k; simp) (by intro k; simp)
    | addUc k => exact filter_discTo_other s p _ (by intro k; simp) (by intro k; simp)
    | read q => exact filter_discTo_other s p _ (by intro k; simp) (by intro k; simp)
    | destRead q known => exact filter_discTo_other s p _ (by intro k; simp) (by intro k; simp)

theorem expNotes_length (p : Nat) (ops : List Op) : ∀ (s : St) (sb : Bool),
    (expNotes p s sb ops).length = expCount p sb ops := by
  induction ops with
  | nil => intro s sb; rfl
  | cons o os ih =>
    intro s sb
    simp only [expNotes, expCount, List.length_append, ih]
    congr 1
    cases o <;> simp <;> split <;> rfl

end Spine.LTree
