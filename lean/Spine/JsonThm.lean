import Spine.Json
namespace Spine.Json

theorem encode_ne_null (t : Ty) (v : V) (hn : nonNull t = true) (ht : typed t v = true) :
    encode t v ≠ .null := by
  cases t <;> cases v <;> simp_all [encode, nonNull, typed]

def keys (kvs : List (String × J)) : List String := kvs.map (·.1)
def names (fs : List (String × Bool × Ty)) : List String := fs.map (·.1)

theorem lookup_append_of_not_mem (k : String) (pre rest : List (String × J))
    (h : k ∉ keys pre) : lookup k (pre ++ rest) = lookup k rest := by
  induction pre with
  | nil => rfl
  | cons p ps ih =>
    obtain ⟨k', j⟩ := p
    simp only [keys, List.map_cons, List.mem_cons, not_or] at h
    simp only [List.cons_append, lookup, h.1, if_false]
    exact ih h.2

theorem lookup_none_of_not_mem (k : String) (kvs : List (String × J)) (h : k ∉ keys kvs) :
    lookup k kvs = none := by
  induction kvs with
  | nil => rfl
  | cons p ps ih =>
    obtain ⟨k', j⟩ := p
    simp only [keys, List.map_cons, List.mem_cons, not_or] at h
    simp only [lookup, h.1, if_false]
    exact ih h.2

theorem keys_encodeFields (fs : List (String × Bool × Ty)) (vs : List V) :
    ∀ k ∈ keys (encodeFields fs vs), k ∈ names fs := by
  induction fs generalizing vs with
  | nil => intro k hk; simp [encodeFields, keys] at hk
  | cons f fs ih =>
    obtain ⟨name, oe, t⟩ := f
    cases vs with
    | nil => intro k hk; simp [encodeFields, keys] at hk
    | cons v vs =>
      intro k hk
      simp only [encodeFields] at hk
      split at hk
      · exact List.mem_cons_of_mem _ (ih vs k hk)
      · simp only [keys, List.map_cons, List.mem_cons] at hk
        rcases hk with rfl | hk
        · exact List.mem_cons_self
        · exact List.mem_cons_of_mem _ (ih vs k hk)

/-- what a lookup of each schema field in the encoded object yields -/
def LookOK (kvs : List (String × J)) : List (String × Bool × Ty) → List V → Prop
  | (name, oe, t) :: fs, v :: vs =>
    lookup name kvs = (if oe && isEmptyV v then none else some (encode t v)) ∧ LookOK kvs fs vs
  | _, _ => True

theorem wfFields_cons {name oe t fs} (h : wfFields ((name, oe, t) :: fs) = true) :
    (oe = true → nullable t = true) ∧ wf t = true ∧ name ∉ names fs ∧ wfFields fs = true := by
  simp only [wfFields, Bool.and_eq_true, Bool.or_eq_true, Bool.not_eq_true', List.any_eq_false] at h
  obtain ⟨⟨⟨h1, h2⟩, h3⟩, h4⟩ := h
  refine ⟨?_, h2, ?_, h4⟩
  · intro ho; rcases h1 with h1 | h1
    · simp [ho] at h1
    · exact h1
  · intro hmem
    simp only [names, List.mem_map] at hmem
    obtain ⟨f, hf, hfe⟩ := hmem
    have := h3 f hf
    simp [hfe] at this

theorem lookOK_encodeFields (fs : List (String × Bool × Ty)) (vs : List V) (pre : List (String × J))
    (hwf : wfFields fs = true) (hpre : ∀ k ∈ names fs, k ∉ keys pre) :
    LookOK (pre ++ encodeFields fs vs) fs vs := by
  induction fs generalizing vs pre with
  | nil => simp [LookOK]
  | cons f fs ih =>
    obtain ⟨name, oe, t⟩ := f
    cases vs with
    | nil => simp [LookOK]
    | cons v vs =>
      obtain ⟨_, _, hname, hwf'⟩ := wfFields_cons hwf
      have hnpre : name ∉ keys pre := hpre name List.mem_cons_self
      simp only [LookOK, encodeFields]
      by_cases hom : (oe && isEmptyV v) = true
      · simp only [hom, if_true]
        refine ⟨?_, ih vs pre hwf' (fun k hk => hpre k (List.mem_cons_of_mem _ hk))⟩
        rw [lookup_append_of_not_mem _ _ _ hnpre]
        exact lookup_none_of_not_mem _ _ (fun hk => hname (keys_encodeFields fs vs _ hk))
      · simp only [hom, if_false, Bool.false_eq_true]
        refine ⟨?_, ?_⟩
        · rw [lookup_append_of_not_mem _ _ _ hnpre]; simp [lookup]
        · have := ih vs (pre ++ [(name, encode t v)]) hwf' (by
            intro k hk
            simp only [keys, List.map_append, List.map_cons, List.map_nil, List.mem_append,
              List.mem_singleton, not_or]
            refine ⟨hpre k (List.mem_cons_of_mem _ hk), ?_⟩
            intro hkn; exact hname (hkn ▸ hk))
          simpa [List.append_assoc] using this

mutual
theorem rt (t : Ty) (v : V) (hwf : wf t = true) (ht : typed t v = true) :
    decode t (encode t v) = some (norm t v) := by
  match t, v with
  | .str, .str s => simp [encode, decode, norm]
  | .num, .num n => simp [encode, decode, norm]
  | .bool, .bool b => simp [encode, decode, norm]
  | .ptr t, .nil => simp [encode, decode, norm]
  | .ptr t, .some v =>
    simp only [wf, Bool.and_eq_true] at hwf
    simp only [typed] at ht
    have hne := encode_ne_null t v hwf.1 ht
    have ih := rt t v hwf.2 ht
    simp only [encode, norm]
    rw [decode.eq_def]
    split <;> simp_all
  | .slice t, .nil => simp [encode, decode, norm]
  | .slice t, .list vs =>
    simp only [wf, Bool.and_eq_true] at hwf
    simp only [typed] at ht
    simp [encode, decode, norm, rtList t vs hwf.2 ht]
  | .struct fs, .strct vs =>
    simp only [wf] at hwf
    simp only [typed] at ht
    have hl := lookOK_encodeFields fs vs [] hwf (by simp [keys])
    simp only [List.nil_append] at hl
    simp [encode, decode, norm, rtFields fs vs _ hwf ht hl]
  | .str, .num _ | .str, .bool _ | .str, .nil | .str, .some _ | .str, .list _ | .str, .strct _ => simp [typed] at ht
  | .num, .str _ | .num, .bool _ | .num, .nil | .num, .some _ | .num, .list _ | .num, .strct _ => simp [typed] at ht
  | .bool, .str _ | .bool, .num _ | .bool, .nil | .bool, .some _ | .bool, .list _ | .bool, .strct _ => simp [typed] at ht
  | .ptr _, .str _ | .ptr _, .num _ | .ptr _, .bool _ | .ptr _, .list _ | .ptr _, .strct _ => simp [typed] at ht
  | .slice _, .str _ | .slice _, .num _ | .slice _, .bool _ | .slice _, .some _ | .slice _, .strct _ => simp [typed] at ht
  | .struct _, .str _ | .struct _, .num _ | .struct _, .bool _ | .struct _, .nil | .struct _, .some _ | .struct _, .list _ => simp [typed] at ht
theorem rtList (t : Ty) (vs : List V) (hwf : wf t = true) (ht : typedList t vs = true) :
    decodeList t (encodeList t vs) = some (normList t vs) := by
  match vs with
  | [] => simp [encodeList, decodeList, normList]
  | v :: vs =>
    simp only [typedList, Bool.and_eq_true] at ht
    simp [encodeList, decodeList, normList, rt t v hwf ht.1, rtList t vs hwf ht.2]
theorem rtFields (fs : List (String × Bool × Ty)) (vs : List V) (kvs : List (String × J))
    (hwf : wfFields fs = true) (ht : typedFields fs vs = true) (hl : LookOK kvs fs vs) :
    decodeFields fs kvs = some (normFields fs vs) := by
  match fs, vs with
  | [], [] => simp [decodeFields, normFields]
  | [], _ :: _ => simp [typedFields] at ht
  | _ :: _, [] => simp [typedFields] at ht
  | (name, oe, t) :: fs, v :: vs =>
    obtain ⟨hnull, hwft, _, hwf'⟩ := wfFields_cons hwf
    simp only [typedFields, Bool.and_eq_true] at ht
    simp only [LookOK] at hl
    have hrest := rtFields fs vs kvs hwf' ht.2 hl.2
    simp only [decodeFields, normFields, hl.1]
    by_cases hom : (oe && isEmptyV v) = true
    · simp [hom, hrest]
    · simp [hom, hrest, rt t v hwft ht.1]
end

/-- the round-trip theorem for every well-formed schema and every well-typed value -/
theorem decode_encode (t : Ty) (v : V) (hwf : wf t = true) (ht : typed t v = true) :
    decode t (encode t v) = some (norm t v) := rt t v hwf ht

end Spine.Json
