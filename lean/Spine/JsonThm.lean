import Spine.Json
namespace Spine.Json

theorem encode_ne_null (t : Ty) (v : V) (hn : nonNull t = true) (ht : typed t v = true) :
    encode t v ≠ .null := by
  cases t <;> cases v <;> simp_all [encode, nonNull, typed]

def keys (kvs : List (Key × J)) : List Key := kvs.map (·.1)

theorem lookup_append_of_not_mem (k : Key) (pre rest : List (Key × J))
    (h : k ∉ keys pre) : lookup k (pre ++ rest) = lookup k rest := by
  induction pre with
  | nil => rfl
  | cons p ps ih =>
    obtain ⟨k', j⟩ := p
    simp only [keys, List.map_cons, List.mem_cons, not_or] at h
    simp only [List.cons_append, lookup, h.1, if_false]
    exact ih h.2

theorem lookup_none_of_not_mem (k : Key) (kvs : List (Key × J)) (h : k ∉ keys kvs) :
    lookup k kvs = none := by
  induction kvs with
  | nil => rfl
  | cons p ps ih =>
    obtain ⟨k', j⟩ := p
    simp only [keys, List.map_cons, List.mem_cons, not_or] at h
    simp only [lookup, h.1, if_false]
    exact ih h.2

theorem keys_encodeFields (fs : List (Key × Bool × Ty)) (vs : List V) :
    ∀ k ∈ keys (encodeFields fs vs), k ∈ names fs := by
  induction fs generalizing vs with
  | nil => intro k hk; simp [encodeFields, keys] at hk
  | cons f fs ih =>
    obtain ⟨name, oe, t⟩ := f
    cases vs with
    | nil => intro k hk; simp [encodeFields, keys] at hk
    | cons v vs =>
      intro k hk
      simp only [encodeFields] at hk
      split at hk
      · exact List.mem_cons_of_mem _ (ih vs k hk)
      · simp only [keys, List.map_cons, List.mem_cons] at hk
        rcases hk with rfl | hk
        · exact List.mem_cons_self
        · exact List.mem_cons_of_mem _ (ih vs k hk)

/-- what a lookup of each schema field in the encoded object yields -/
def LookOK (kvs : List (Key × J)) : List (Key × Bool × Ty) → List V → Prop
  | (name, oe, t) :: fs, v :: vs =>
    lookup name kvs = (if oe && isEmptyV v then none else some (encode t v)) ∧ LookOK kvs fs vs
  | _, _ => True

theorem wfFields_cons {name oe t fs} (h : wfFields ((name, oe, t) :: fs) = true) :
    (oe = true → nullable t = true) ∧ wf t = true ∧ wfFields fs = true := by
  simp only [wfFields, Bool.and_eq_true, Bool.or_eq_true, Bool.not_eq_true'] at h
  obtain ⟨⟨h1, h2⟩, h4⟩ := h
  refine ⟨?_, h2, h4⟩
  intro ho; rcases h1 with h1 | h1
  · simp [ho] at h1
  · exact h1

theorem namesDistinct_cons {k : Key} {ks : List Key} (h : namesDistinct (k :: ks) = true) :
    k ∉ ks ∧ namesDistinct ks = true := by
  simp only [namesDistinct, Bool.and_eq_true, Bool.not_eq_true', List.contains_eq_mem,
    decide_eq_false_iff_not] at h
  exact h

theorem namesDistinct_nodup : ∀ (ks : List Key), namesDistinct ks = true → ks.Nodup
  | [], _ => List.nodup_nil
  | _ :: ks, h => List.nodup_cons.mpr ⟨(namesDistinct_cons h).1, namesDistinct_nodup ks (namesDistinct_cons h).2⟩

theorem lookOK_encodeFields (fs : List (Key × Bool × Ty)) (vs : List V) (pre : List (Key × J))
    (hnd : namesDistinct (names fs) = true) (hpre : ∀ k ∈ names fs, k ∉ keys pre) :
    LookOK (pre ++ encodeFields fs vs) fs vs := by
  induction fs generalizing vs pre with
  | nil => simp [LookOK]
  | cons f fs ih =>
    obtain ⟨name, oe, t⟩ := f
    cases vs with
    | nil => simp [LookOK]
    | cons v vs =>
      obtain ⟨hname, hwf'⟩ : name ∉ names fs ∧ namesDistinct (names fs) = true := namesDistinct_cons hnd
      have hnpre : name ∉ keys pre := hpre name List.mem_cons_self
      simp only [LookOK, encodeFields]
      by_cases hom : (oe && isEmptyV v) = true
      · simp only [hom, if_true]
        refine ⟨?_, ih vs pre hwf' (fun k hk => hpre k (List.mem_cons_of_mem _ hk))⟩
        rw [lookup_append_of_not_mem _ _ _ hnpre]
        exact lookup_none_of_not_mem _ _ (fun hk => hname (keys_encodeFields fs vs _ hk))
      · simp only [hom, if_false, Bool.false_eq_true]
        refine ⟨?_, ?_⟩
        · rw [lookup_append_of_not_mem _ _ _ hnpre]; simp [lookup]
        · have := ih vs (pre ++ [(name, encode t v)]) hwf' (by
            intro k hk
            simp only [keys, List.map_append, List.map_cons, List.map_nil, List.mem_append,
              List.mem_singleton, not_or]
            refine ⟨hpre k (List.mem_cons_of_mem _ hk), ?_⟩
            intro hkn; exact hname (hkn ▸ hk))
          simpa [List.append_assoc] using this

mutual
theorem rt (t : Ty) (v : V) (hwf : wf t = true) (ht : typed t v = true) :
    decode t (encode t v) = some (norm t v) := by
  match t, v with
  | .str, .str s => simp [encode, decode, norm]
  | .num, .num n => simp [encode, decode, norm]
  | .bool, .bool b => simp [encode, decode, norm]
  | .ptr t, .nil => simp [encode, decode, norm]
  | .ptr t, .some v =>
    simp only [wf, Bool.and_eq_true] at hwf
    simp only [typed] at ht
    have hne := encode_ne_null t v hwf.1 ht
    have ih := rt t v hwf.2 ht
    simp only [encode, norm]
    rw [decode.eq_def]
    split <;> simp_all
  | .slice t, .nil => simp [encode, decode, norm]
  | .slice t, .list vs =>
    simp only [wf, Bool.and_eq_true] at hwf
    simp only [typed] at ht
    simp [encode, decode, norm, rtList t vs hwf.2 ht]
  | .struct fs, .strct vs =>
    simp only [wf, Bool.and_eq_true] at hwf
    simp only [typed] at ht
    have hl := lookOK_encodeFields fs vs [] hwf.1 (by simp [keys])
    simp only [List.nil_append] at hl
    simp [encode, decode, norm, rtFields fs vs _ hwf.2 ht hl]
  | .str, .num _ | .str, .bool _ | .str, .nil | .str, .some _ | .str, .list _ | .str, .strct _ => simp [typed] at ht
  | .num, .str _ | .num, .bool _ | .num, .nil | .num, .some _ | .num, .list _ | .num, .strct _ => simp [typed] at ht
  | .bool, .str _ | .bool, .num _ | .bool, .nil | .bool, .some _ | .bool, .list _ | .bool, .strct _ => simp [typed] at ht
  | .ptr _, .str _ | .ptr _, .num _ | .ptr _, .bool _ | .ptr _, .list _ | .ptr _, .strct _ => simp [typed] at ht
  | .slice _, .str _ | .slice _, .num _ | .slice _, .bool _ | .slice _, .some _ | .slice _, .strct _ => simp [typed] at ht
  | .struct _, .str _ | .struct _, .num _ | .struct _, .bool _ | .struct _, .nil | .struct _, .some _ | .struct _, .list _ => simp [typed] at ht
theorem rtList (t : Ty) (vs : List V) (hwf : wf t = true) (ht : typedList t vs = true) :
    decodeList t (encodeList t vs) = some (normList t vs) := by
  match vs with
  | [] => simp [encodeList, decodeList, normList]
  | v :: vs =>
    simp only [typedList, Bool.and_eq_true] at ht
    simp [encodeList, decodeList, normList, rt t v hwf ht.1, rtList t vs hwf ht.2]
theorem rtFields (fs : List (Key × Bool × Ty)) (vs : List V) (kvs : List (Key × J))
    (hwf : wfFields fs = true) (ht : typedFields fs vs = true) (hl : LookOK kvs fs vs) :
    decodeFields fs kvs = some (normFields fs vs) := by
  match fs, vs with
  | [], [] => simp [decodeFields, normFields]
  | [], _ :: _ => simp [typedFields] at ht
  | _ :: _, [] => simp [typedFields] at ht
  | (name, oe, t) :: fs, v :: vs =>
    obtain ⟨hnull, hwft, hwf'⟩ := wfFields_cons hwf
    simp only [typedFields, Bool.and_eq_true] at ht
    simp only [LookOK] at hl
    have hrest := rtFields fs vs kvs hwf' ht.2 hl.2
    simp only [decodeFields, normFields, hl.1]
    by_cases hom : (oe && isEmptyV v) = true
    · simp [hom, hrest]
    · simp [hom, hrest, rt t v hwft ht.1]
end

/-- the round-trip theorem for every well-formed schema and every well-typed value -/
theorem decode_encode (t : Ty) (v : V) (hwf : wf t = true) (ht : typed t v = true) :
    decode t (encode t v) = some (norm t v) := rt t v hwf ht

/-! ### the normal form is equivalent to the value -/

mutual
theorem equivV_refl (v : V) : equivV v v = true := by
  match v with
  | .str s => simp [equivV]
  | .num n => simp [equivV]
  | .bool b => simp [equivV]
  | .nil => simp [equivV]
  | .some v => simp [equivV, equivV_refl v]
  | .list vs => cases vs <;> simp [equivV, equivList_refl]
  | .strct vs => simp [equivV, equivList_refl vs]
theorem equivList_refl (vs : List V) : equivList vs vs = true := by
  match vs with
  | [] => simp [equivList]
  | v :: vs => simp [equivList, equivV_refl v, equivList_refl vs]
end

theorem equivV_nil_of_empty (v : V) (h : isEmptyV v = true) : equivV .nil v = true := by
  match v with
  | .nil => simp [equivV]
  | .list [] => simp [equivV]
  | .list (_ :: _) => simp [isEmptyV] at h
  | .str _ | .num _ | .bool _ | .some _ | .strct _ => simp [isEmptyV] at h

theorem equivV_list (as bs : List V) (h : equivList as bs = true) : equivV (.list as) (.list bs) = true := by
  cases as <;> cases bs <;> simp_all [equivV, equivList]

mutual
theorem norm_equiv (t : Ty) (v : V) (ht : typed t v = true) : equivV (norm t v) v = true := by
  match t, v with
  | .ptr t, .some v =>
    simp only [typed] at ht
    simp [norm, equivV, norm_equiv t v ht]
  | .slice t, .list vs =>
    simp only [typed] at ht
    simp only [norm]
    exact equivV_list _ _ (normList_equiv t vs ht)
  | .struct fs, .strct vs =>
    simp only [typed] at ht
    simp [norm, equivV, normFields_equiv fs vs ht]
  | .str, v | .num, v | .bool, v => simp [norm, equivV_refl]
  | .ptr _, .nil | .ptr _, .str _ | .ptr _, .num _ | .ptr _, .bool _ | .ptr _, .list _ | .ptr _, .strct _ =>
    simp [norm, equivV_refl]
  | .slice _, .nil | .slice _, .str _ | .slice _, .num _ | .slice _, .bool _ | .slice _, .some _ | .slice _, .strct _ =>
    simp [norm, equivV_refl]
  | .struct _, .nil | .struct _, .str _ | .struct _, .num _ | .struct _, .bool _ | .struct _, .some _ | .struct _, .list _ =>
    simp [norm, equivV_refl]
theorem normList_equiv (t : Ty) (vs : List V) (ht : typedList t vs = true) :
    equivList (normList t vs) vs = true := by
  match vs with
  | [] => simp [normList, equivList]
  | v :: vs =>
    simp only [typedList, Bool.and_eq_true] at ht
    simp [normList, equivList, norm_equiv t v ht.1, normList_equiv t vs ht.2]
theorem normFields_equiv (fs : List (Key × Bool × Ty)) (vs : List V) (ht : typedFields fs vs = true) :
    equivList (normFields fs vs) vs = true := by
  match fs, vs with
  | [], [] => simp [normFields, equivList]
  | [], _ :: _ => simp [typedFields] at ht
  | _ :: _, [] => simp [typedFields] at ht
  | (name, oe, t) :: fs, v :: vs =>
    simp only [typedFields, Bool.and_eq_true] at ht
    have hrest := normFields_equiv fs vs ht.2
    simp only [normFields, equivList]
    rw [Bool.and_eq_true]
    refine ⟨?_, hrest⟩
    split
    · next hom =>
      simp only [Bool.and_eq_true] at hom
      exact equivV_nil_of_empty v hom.2
    · exact norm_equiv t v ht.1
end

end Spine.Json
