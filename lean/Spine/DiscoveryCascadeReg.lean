import Spine.DiscoveryCascade
import Spine.Registry
/-! Bridge between the entity-removal cascade of the C06 model (`Spine.Disc.cascade`) and the registry model of
    C08–C10 (`Spine.Reg`, read-only here): dropping a peer in the registry model is exactly the C06 cascade run over
    every entity that peer announced, with the same defect flag. Uses only `Reg.Entry`, `Reg.St.subs/.binds/.rem`,
    `Reg.Cfg.dropBindsAnyPeer`, `Reg.dropPeer`. -/
namespace Spine.Disc

def toRE (e : Reg.Entry) : RE := ⟨e.peer, e.cEnt, e.cFeat, e.sEnt, e.sFeat⟩

def cfgOfReg (c : Reg.Cfg) : Cfg := { wholeMessage := true, bindEntityOnly := c.dropBindsAnyPeer }

def worldOfReg (s : Reg.St) : World := { trees := fun _ => [], subs := s.subs.map toRE, binds := s.binds.map toRE }

theorem removed_map_rem : ∀ (l : List (List Nat)), removed (l.map Evt.rem) = l
  | [] => rfl
  | a :: l => by simp [removed, removed_map_rem l]

theorem dropPeer_is_cascade (c : Reg.Cfg) (s : Reg.St) (p : Nat) :
    (Reg.dropPeer c s p).subs.map toRE
      = (cascade (cfgOfReg c) (worldOfReg s) p (((s.rem p).map (·.ent)).map Evt.rem)).subs ∧
    (Reg.dropPeer c s p).binds.map toRE
      = (cascade (cfgOfReg c) (worldOfReg s) p (((s.rem p).map (·.ent)).map Evt.rem)).binds := by
  rw [cascade_subs, cascade_binds, removed_map_rem]
  simp only [Reg.dropPeer, worldOfReg, cfgOfReg, List.filter_map]
  constructor
  · congr 1
  · congr 1

end Spine.Disc
